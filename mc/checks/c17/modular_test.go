package c17

import (
	"fmt"
	"math/big"

	"github.com/bronlabs/bron-crypto/pkg/base/ct"
	"github.com/bronlabs/bron-crypto/pkg/base/nt/crt"
	"github.com/bronlabs/bron-crypto/pkg/base/nt/modular"
	"github.com/bronlabs/bron-crypto/pkg/base/nt/numct"

	"verifmc/engine"
)

func natOf(v *big.Int) *numct.Nat { return numct.NewNatFromBig(v, v.BitLen()) }

type modImpl struct {
	name string
	kind int // 0 simple, 1 odd prime factors (mod pq), 2 odd prime square factors (mod p^2 q^2)
	p, q *big.Int
	n    *big.Int // modulus of the arithmetic
}

func modImpls() []modImpl {
	var out []modImpl
	for _, m := range []*big.Int{bi(2), bi(9), bi(15), bi(16), bi(35), bi(118), bi(561), pow2(64), p64a, new(big.Int).Mul(p64a, p64b), big2048} {
		out = append(out, modImpl{"Simple(" + show(m) + ")", 0, nil, nil, m})
	}
	m127 := new(big.Int).Sub(pow2(127), bi(1))
	m89 := new(big.Int).Sub(pow2(89), bi(1))
	pairs := [][2]*big.Int{{bi(3), bi(5)}, {bi(5), bi(7)}, {bi(7), bi(3)}, {bi(11), bi(13)}, {bi(59), bi(61)}, {p64a, p64b}, {m127, m89}}
	for _, pq := range pairs {
		n := new(big.Int).Mul(pq[0], pq[1])
		out = append(out, modImpl{fmt.Sprintf("OddPrimeFactors(%s,%s)", show(pq[0]), show(pq[1])), 1, pq[0], pq[1], n})
	}
	for _, pq := range pairs {
		n := new(big.Int).Mul(pq[0], pq[1])
		out = append(out, modImpl{fmt.Sprintf("OddPrimeSquareFactors(%s,%s)", show(pq[0]), show(pq[1])), 2, pq[0], pq[1], new(big.Int).Mul(n, n)})
	}
	return out
}

func (im modImpl) build() (modular.Arithmetic, ct.Bool) {
	switch im.kind {
	case 0:
		return modular.NewSimple(mkModulus(im.n))
	case 1:
		return modular.NewOddPrimeFactors(natOf(im.p), natOf(im.q))
	default:
		return modular.NewOddPrimeSquareFactors(natOf(im.p), natOf(im.q))
	}
}

// operands: every residue (plus some unreduced values) for small moduli, a boundary alphabet for large ones
func (im modImpl) operands(limit int64) []*big.Int {
	n := im.n
	var vs []*big.Int
	if n.IsInt64() && n.Int64() <= limit {
		for a := int64(0); a < n.Int64(); a++ {
			vs = append(vs, bi(a))
		}
		vs = append(vs, n, new(big.Int).Add(n, bi(1)), new(big.Int).Add(new(big.Int).Lsh(n, 1), bi(3)), new(big.Int).Add(pow2(64), bi(1)))
		return vs
	}
	vs = append(vs, natVsmall()...)
	one := bi(1)
	vs = append(vs, new(big.Int).Sub(n, one), n, new(big.Int).Add(n, one), new(big.Int).Rsh(n, 1))
	if im.p != nil {
		vs = append(vs, im.p, im.q, new(big.Int).Mul(im.p, im.p), new(big.Int).Mul(im.q, bi(2)), new(big.Int).Sub(im.p, one), new(big.Int).Add(im.q, one),
			new(big.Int).Mul(im.p, im.q), new(big.Int).Add(new(big.Int).Mul(im.p, im.q), one))
	}
	return dedupSort(vs)
}

func (im modImpl) exponents() []*big.Int {
	one := bi(1)
	es := []*big.Int{bi(0), bi(1), bi(2), bi(3), bi(255), new(big.Int).Add(pow2(64), one), im.n, new(big.Int).Sub(im.n, one)}
	if im.p != nil {
		p1, q1 := new(big.Int).Sub(im.p, one), new(big.Int).Sub(im.q, one)
		phi := new(big.Int).Mul(p1, q1)
		n := new(big.Int).Mul(im.p, im.q)
		es = append(es, p1, q1, im.p, im.q, phi, new(big.Int).Add(phi, one), new(big.Int).Mul(phi, n), new(big.Int).Add(new(big.Int).Mul(phi, n), one),
			new(big.Int).Mul(im.p, p1), new(big.Int).Mul(im.q, q1), new(big.Int).Lsh(p1, 1), n)
	}
	return dedupSort(es)
}

var outStateNames = []string{"out=fresh", "out=junk", "out=a", "out=b"}

func modularBody() func(*engine.X) {
	impls := modImpls()
	return func(x *engine.X) {
		im := impls[x.Choose("impl", len(impls))]
		part := x.Choose("part", 2)
		one := bi(1)
		var ar modular.Arithmetic
		var ok ct.Bool
		if !guard(x, "modular/setup", func() string { return im.name }, func() { ar, ok = im.build() }) {
			return
		}
		if ok != ct.True {
			failf(x, "modular/setup", "%s: constructor reported failure for valid parameters", im.name)
			return
		}
		nv := im.n
		x.Case("")
		if ar.Modulus().Big().Cmp(nv) != 0 {
			failf(x, "modular/modulus", "%s.Modulus() = %s, want %s", im.name, show(ar.Modulus().Big()), show(nv))
		}
		if im.kind > 0 {
			p1, q1 := new(big.Int).Sub(im.p, one), new(big.Int).Sub(im.q, one)
			phi := new(big.Int).Mul(p1, q1)
			if im.kind == 2 {
				phi.Mul(phi, new(big.Int).Mul(im.p, im.q))
			}
			x.Case("")
			if o := ar.MultiplicativeOrder(); o.IsUnknown() || o.Big().Cmp(phi) != 0 {
				failf(x, "modular/order", "%s.MultiplicativeOrder() = %v, want %s", im.name, o, show(phi))
			}
		}
		crtBased := im.kind > 0
		red := func(v *big.Int) *big.Int { return new(big.Int).Mod(v, nv) }
		lim := int64(300)
		if engine.Thorough() {
			lim = 1300 // includes the full multiplication table modulo 35^2
		}
		as := im.operands(lim)
		bs := as
		if !(nv.IsInt64() && nv.Int64() <= lim) {
			bs = im.operands(0)
		}
		if part == 0 {
			for _, av := range as {
				// ModInv
				ua := new(big.Int).GCD(nil, nil, av, nv).Cmp(one) == 0
				for st := 0; st < 3; st++ {
					a := natOf(av)
					out := []*numct.Nat{new(numct.Nat), junkNat(), a}[st]
					desc := func() string { return fmt.Sprintf("%s.ModInv(%s, %s)", im.name, show(av), outStateNames[st]) }
					x.Case("")
					var ok ct.Bool
					k := "modular/modinv"
					if st != 0 && nv.Bit(0) == 0 {
						k = evenReusedKey
					}
					if st == 2 && im.kind == 0 && nv.Bit(0) == 1 {
						k = "modulus/modinv/alias-out=x"
					}
					if !guard(x, k, desc, func() { ok = ar.ModInv(out, a) }) {
						continue
					}
					if (ok == ct.True) != ua {
						kk := k
						if kk == "modular/modinv" {
							kk = "modular/modinv/existence"
						}
						failf(x, kk, "%s: ok=%d but gcd = %s", desc(), ok, show(new(big.Int).GCD(nil, nil, av, nv)))
					} else if ua {
						if w := new(big.Int).ModInverse(av, nv); out.Big().Cmp(w) != 0 {
							failf(x, k, "%s = %s, want %s", desc(), show(out.Big()), show(w))
						}
					}
				}
				for _, bv := range bs {
					ub := new(big.Int).GCD(nil, nil, bv, nv).Cmp(one) == 0
					for st := 0; st < 4; st++ {
						mk := func() (a, b, out *numct.Nat) {
							a, b = natOf(av), natOf(bv)
							out = []*numct.Nat{new(numct.Nat), junkNat(), a, b}[st]
							return
						}
						a, b, out := mk()
						desc := func() string {
							return fmt.Sprintf("%s.ModMul(%s, %s, %s)", im.name, show(av), show(bv), outStateNames[st])
						}
						x.Case("")
						if guard(x, "modular/modmul", desc, func() { ar.ModMul(out, a, b) }) {
							if w := red(new(big.Int).Mul(av, bv)); out.Big().Cmp(w) != 0 {
								failf(x, "modular/modmul", "%s = %s, want %s", desc(), show(out.Big()), show(w))
							}
						}
						a, b, out = mk()
						desc = func() string {
							return fmt.Sprintf("%s.ModDiv(%s, %s, %s)", im.name, show(av), show(bv), outStateNames[st])
						}
						k := "modular/moddiv"
						if crtBased && st == 2 {
							// ModDiv stores the inverse of b in out before reading a
							k = "modular/moddiv/alias-out=a"
						}
						x.Case("")
						var ok ct.Bool
						if !guard(x, k, desc, func() { ok = ar.ModDiv(out, a, b) }) {
							continue
						}
						switch {
						case ub:
							if ok != ct.True {
								failf(x, k, "%s refused although the divisor is a unit", desc())
							} else if w := red(new(big.Int).Mul(av, new(big.Int).ModInverse(bv, nv))); out.Big().Cmp(w) != 0 {
								failf(x, k, "%s = %s, want %s", desc(), show(out.Big()), show(w))
							}
						case nv.Bit(0) == 1:
							if ok == ct.True {
								failf(x, k, "%s succeeded although the divisor is not a unit", desc())
							}
						default:
							if ok == ct.True {
								u := out.Big()
								if u.Cmp(nv) >= 0 || red(new(big.Int).Sub(new(big.Int).Mul(u, bv), av)).Sign() != 0 {
									failf(x, "modular/moddiv/even-nonunit", "%s returned %s which does not satisfy u*b = a", desc(), show(u))
								}
							}
						}
					}
				}
			}
		} else {
			es := im.exponents()
			for _, av := range as {
				ua := new(big.Int).GCD(nil, nil, av, nv).Cmp(one) == 0
				for _, ev := range es {
					for st := 0; st < 3; st++ {
						a, e := natOf(av), natOf(ev)
						out := []*numct.Nat{new(numct.Nat), junkNat(), a}[st]
						desc := func() string {
							return fmt.Sprintf("%s.ModExp(%s, %s, %s)", im.name, show(av), show(ev), outStateNames[st])
						}
						k := "modular/modexp"
						if st != 0 && nv.Bit(0) == 0 {
							k = evenReusedKey
						}
						x.Case("")
						if guard(x, k, desc, func() { ar.ModExp(out, a, e) }) {
							if w := new(big.Int).Exp(av, ev, nv); out.Big().Cmp(w) != 0 {
								failf(x, k, "%s = %s, want %s", desc(), show(out.Big()), show(w))
							}
						}
					}
					for _, neg := range []bool{false, true} {
						if neg && (!ua || ev.Sign() == 0) {
							continue
						}
						se := new(big.Int).Set(ev)
						if neg {
							se.Neg(se)
						}
						a, e := natOf(av), numct.NewIntFromBig(se, ev.BitLen())
						out := new(numct.Nat)
						desc := func() string { return fmt.Sprintf("%s.ModExpI(%s, %s)", im.name, show(av), show(se)) }
						x.Case("")
						if guard(x, "modular/modexpi", desc, func() { ar.ModExpI(out, a, e) }) {
							if w := new(big.Int).Exp(av, se, nv); out.Big().Cmp(w) != 0 {
								failf(x, "modular/modexpi", "%s = %s, want %s", desc(), show(out.Big()), show(w))
							}
						}
					}
				}
				if im.kind == 2 {
					sq := ar.(*modular.OddPrimeSquareFactors)
					n := new(big.Int).Mul(im.p, im.q)
					a, out := natOf(av), junkNat()
					desc := func() string { return fmt.Sprintf("%s.ExpToN(%s)", im.name, show(av)) }
					x.Case("")
					if guard(x, "modular/exptoN", desc, func() { sq.ExpToN(out, a) }) {
						if w := new(big.Int).Exp(av, n, nv); out.Big().Cmp(w) != 0 {
							failf(x, "modular/exptoN", "%s = %s, want %s", desc(), show(out.Big()), show(w))
						}
					}
					lp, lq := junkNat(), junkNat()
					desc = func() string { return fmt.Sprintf("%s.FermatQuotient(%s)", im.name, show(av)) }
					x.Case("")
					if guard(x, "modular/fermatquotient", desc, func() { sq.FermatQuotient(lp, lq, natOf(av)) }) {
						fq := func(p *big.Int) *big.Int {
							p2 := new(big.Int).Mul(p, p)
							t := new(big.Int).Exp(av, new(big.Int).Sub(p, one), p2)
							t.Sub(t, one).Mod(t, p2)
							return t.Div(t, p)
						}
						if lp.Big().Cmp(fq(im.p)) != 0 || lq.Big().Cmp(fq(im.q)) != 0 {
							failf(x, "modular/fermatquotient", "%s = (%s, %s), want (%s, %s)", desc(), show(lp.Big()), show(lq.Big()), show(fq(im.p)), show(fq(im.q)))
						}
					}
				}
			}
			// MultiBaseExp: all operands as bases at once
			for _, ev := range es {
				for st := 0; st < 2; st++ {
					bases := make([]*numct.Nat, len(bs))
					outs := make([]*numct.Nat, len(bs))
					for i, bv := range bs {
						bases[i] = natOf(bv)
						outs[i] = []*numct.Nat{new(numct.Nat), junkNat()}[st]
					}
					desc := func() string { return fmt.Sprintf("%s.MultiBaseExp(exp=%s, %s)", im.name, show(ev), outStateNames[st]) }
					k := "modular/multibaseexp"
					if st != 0 && nv.Bit(0) == 0 {
						k = evenReusedKey
					}
					x.Case("")
					if guard(x, k, desc, func() { ar.MultiBaseExp(outs, bases, natOf(ev)) }) {
						for i, bv := range bs {
							if w := new(big.Int).Exp(bv, ev, nv); outs[i].Big().Cmp(w) != 0 {
								failf(x, k, "%s: base %s gives %s, want %s", desc(), show(bv), show(outs[i].Big()), show(w))
							}
						}
					}
				}
			}
			// Lift
			x.Case("")
			guard(x, "modular/lift", func() string { return im.name + ".Lift" }, func() {
				var lm *numct.Modulus
				var ok ct.Bool
				switch a := ar.(type) {
				case *modular.SimpleModulus:
					var l *modular.SimpleModulus
					l, ok = a.Lift()
					lm = l.Modulus()
				case *modular.OddPrimeFactors:
					var l *modular.OddPrimeSquareFactors
					l, ok = a.Lift()
					lm = l.Modulus()
				default:
					return
				}
				if ok != ct.True || lm.Big().Cmp(new(big.Int).Mul(nv, nv)) != 0 {
					failf(x, "modular/lift", "%s.Lift(): ok=%d modulus %s, want %s", im.name, ok, show(lm.Big()), show(new(big.Int).Mul(nv, nv)))
				}
			})
		}
		// constructors refuse invalid factors
		if part == 0 && im.kind == 1 {
			for _, bad := range [][2]*big.Int{{im.p, im.p}, {im.p, bi(9)}, {bi(2), im.q}, {im.p, bi(15)}} {
				x.Case("")
				guard(x, "modular/setup/refusal", func() string { return fmt.Sprintf("NewOddPrimeFactors(%v,%v)", bad[0], bad[1]) }, func() {
					if _, ok := modular.NewOddPrimeFactors(natOf(bad[0]), natOf(bad[1])); ok == ct.True {
						failf(x, "modular/setup/refusal", "NewOddPrimeFactors(%s, %s) accepted invalid factors", show(bad[0]), show(bad[1]))
					}
					if _, ok := modular.NewOddPrimeSquareFactors(natOf(bad[0]), natOf(bad[1])); ok == ct.True {
						failf(x, "modular/setup/refusal", "NewOddPrimeSquareFactors(%s, %s) accepted invalid factors", show(bad[0]), show(bad[1]))
					}
				})
			}
		}
		x.Observe(im.name, part)
	}
}

// ---------------------------------------------------------------------------------------------------------------
// CRT

type crtCfg struct {
	name    string
	factors []*big.Int
}

func crtCfgs() []crtCfg {
	m127 := new(big.Int).Sub(pow2(127), bi(1))
	mk := func(vs ...int64) []*big.Int {
		var o []*big.Int
		for _, v := range vs {
			o = append(o, bi(v))
		}
		return o
	}
	return []crtCfg{
		{"3,5", mk(3, 5)}, {"5,3", mk(5, 3)}, {"4,9", mk(4, 9)}, {"8,15", mk(8, 15)}, {"16,7", mk(16, 7)}, {"2,3", mk(2, 3)}, {"59,61", mk(59, 61)},
		{"p64a,p64b", []*big.Int{p64a, p64b}}, {"m127,p64a", []*big.Int{m127, p64a}}, {"2^64,p64a", []*big.Int{pow2(64), p64a}}, {"p25519,2^256+1?", []*big.Int{p25519, new(big.Int).Add(pow2(64), bi(1))}},
		{"3,5,7", mk(3, 5, 7)}, {"4,9,25", mk(4, 9, 25)}, {"2,3,5,7", mk(2, 3, 5, 7)}, {"2,3,5,7,11", mk(2, 3, 5, 7, 11)}, {"3,5,7,11,13,17", mk(3, 5, 7, 11, 13, 17)},
		{"p64a,p64b,m127", []*big.Int{p64a, p64b, m127}}, {"p64a,p64b,m127,p25519,257", []*big.Int{p64a, p64b, m127, p25519, bi(257)}},
		// not pairwise coprime: must be refused
		{"6,9", mk(6, 9)}, {"5,5", mk(5, 5)}, {"3,5,9", mk(3, 5, 9)}, {"p64a,p64a", []*big.Int{p64a, p64a}}, {"2,3,5,7,14", mk(2, 3, 5, 7, 14)},
	}
}

func crtBody() func(*engine.X) {
	cfgs := crtCfgs()
	return func(x *engine.X) {
		cfg := cfgs[x.Choose("factors", len(cfgs))]
		fs := cfg.factors
		one := bi(1)
		coprime := true
		prod := bi(1)
		for i, f := range fs {
			prod = new(big.Int).Mul(prod, f)
			for j := 0; j < i; j++ {
				if new(big.Int).GCD(nil, nil, f, fs[j]).Cmp(one) != 0 {
					coprime = false
				}
			}
		}
		// the values to decompose/recombine: everything below the product when that is small, else a boundary alphabet
		var xs []*big.Int
		if prod.IsInt64() && prod.Int64() <= 4000 {
			for v := int64(0); v < prod.Int64(); v++ {
				xs = append(xs, bi(v))
			}
		} else {
			for _, v := range append(natVsmall(), new(big.Int).Sub(prod, one), new(big.Int).Rsh(prod, 1), fs[0], fs[len(fs)-1], new(big.Int).Sub(fs[0], one)) {
				xs = append(xs, new(big.Int).Mod(v, prod))
			}
			xs = dedupSort(xs)
		}
		if len(fs) == 2 {
			p, q := fs[0], fs[1]
			var prm *crt.Params
			var ok ct.Bool
			desc := func() string { return fmt.Sprintf("crt.Precompute(%s, %s)", show(p), show(q)) }
			if !guard(x, "crt/precompute", desc, func() { prm, ok = crt.Precompute(natOf(p), natOf(q)) }) {
				return
			}
			x.Case("")
			if (ok == ct.True) != coprime {
				failf(x, "crt/precompute/coprimality", "%s: ok=%d but gcd = %s", desc(), ok, show(new(big.Int).GCD(nil, nil, p, q)))
			}
			var ext *crt.ParamsExtended
			guard(x, "crt/extended", desc, func() {
				var ok2 ct.Bool
				ext, ok2 = crt.PrecomputePairExtended(natOf(p), natOf(q))
				x.Case("")
				if (ok2 == ct.True) != coprime {
					failf(x, "crt/precompute/coprimality", "PrecomputePairExtended(%s,%s): ok=%d", show(p), show(q), ok2)
				}
				e2, ok3 := crt.NewParamsExtended(mkModulus(p), mkModulus(q))
				if (ok3 == ct.True) != coprime {
					failf(x, "crt/precompute/coprimality", "NewParamsExtended(%s,%s): ok=%d", show(p), show(q), ok3)
				}
				if coprime && (ext.Modulus().Big().Cmp(prod) != 0 || e2.Modulus().Big().Cmp(prod) != 0) {
					failf(x, "crt/modulus", "ParamsExtended.Modulus() != p*q for (%s,%s)", show(p), show(q))
				}
			})
			if coprime {
				for _, v := range xs {
					mp, mq := new(big.Int).Mod(v, p), new(big.Int).Mod(v, q)
					for variant := 0; variant < 4; variant++ {
						// 0: reduced residues; 1: mp unreduced (mp + p), padded capacity; 2: one-shot Recombine; 3: extended params
						a, b := natOf(mp), natOf(mq)
						aWant := mp
						if variant == 1 {
							aWant = new(big.Int).Add(mp, p)
							a = numct.NewNatFromBig(aWant, aWant.BitLen()+64)
						}
						desc := func() string {
							return fmt.Sprintf("crt Recombine(p=%s, q=%s, mp=%s, mq=%s, variant=%d)", show(p), show(q), show(mp), show(mq), variant)
						}
						x.Case(fmt.Sprintf("%s/%v/%d", cfg.name, v, variant))
						var got *numct.Nat
						if !guard(x, "crt/recombine", desc, func() {
							switch variant {
							case 0, 1:
								got = prm.Recombine(a, b)
							case 2:
								var ok ct.Bool
								got, ok = crt.Recombine(a, b, natOf(p), natOf(q))
								if ok != ct.True {
									failf(x, "crt/recombine", "%s reported failure", desc())
								}
							case 3:
								got = ext.Recombine(a, b)
							}
						}) {
							continue
						}
						if got.Big().Cmp(v) != 0 {
							failf(x, "crt/recombine", "%s = %s, want %s", desc(), show(got.Big()), show(v))
						}
						if a.Big().Cmp(aWant) != 0 || b.Big().Cmp(mq) != 0 {
							failf(x, "crt/recombine/mutated-input", "%s changed a residue operand", desc())
						}
					}
					// Decompose of a modulus with that value
					if v.Sign() > 0 {
						x.Case("")
						guard(x, "crt/decompose", func() string { return fmt.Sprintf("crt Decompose(%s) by (%s,%s)", show(v), show(p), show(q)) }, func() {
							for i, f := range []func(*numct.Modulus) (*numct.Nat, *numct.Nat){ext.Decompose, ext.DecomposeSerial, ext.DecomposeParallel} {
								dp, dq := f(mkModulus(v))
								if dp.Big().Cmp(mp) != 0 || dq.Big().Cmp(mq) != 0 {
									failf(x, "crt/decompose", "Decompose#%d(%s) by (%s,%s) = (%s,%s)", i, show(v), show(p), show(q), show(dp.Big()), show(dq.Big()))
								}
							}
						})
					}
				}
			}
		}
		// multi-factor API (also for two factors)
		var pm *crt.ParamsMulti
		var ok ct.Bool
		nats := make([]*numct.Nat, len(fs))
		for i, f := range fs {
			nats[i] = natOf(f)
		}
		desc := func() string { return fmt.Sprintf("crt.PrecomputeMulti(%s)", cfg.name) }
		if !guard(x, "crt/multi/precompute", desc, func() { pm, ok = crt.PrecomputeMulti(nats...) }) {
			return
		}
		x.Case("")
		if (ok == ct.True) != coprime {
			failf(x, "crt/multi/coprimality", "%s: ok=%d, pairwise coprime=%v", desc(), ok, coprime)
		}
		if coprime && ok == ct.True {
			if pm.Modulus.Big().Cmp(prod) != 0 {
				failf(x, "crt/multi/modulus", "%s: modulus %s, want %s", desc(), show(pm.Modulus.Big()), show(prod))
			}
			for _, v := range xs {
				res := make([]*numct.Nat, len(fs))
				for i, f := range fs {
					res[i] = natOf(new(big.Int).Mod(v, f))
				}
				type rf struct {
					name string
					f    func(...*numct.Nat) (*numct.Nat, ct.Bool)
				}
				for _, r := range []rf{{"Recombine", pm.Recombine}, {"RecombineSerial", pm.RecombineSerial}, {"RecombineParallel", pm.RecombineParallel}} {
					d := func() string { return fmt.Sprintf("ParamsMulti(%s).%s(residues of %s)", cfg.name, r.name, show(v)) }
					x.Case(fmt.Sprintf("multi/%s/%v/%s", cfg.name, v, r.name))
					guard(x, "crt/multi/recombine", d, func() {
						got, ok := r.f(res...)
						if ok != ct.True || got.Big().Cmp(v) != 0 {
							failf(x, "crt/multi/recombine", "%s = %s (ok=%d), want %s", d(), show(got.Big()), ok, show(v))
						}
					})
				}
				if v.Sign() > 0 {
					x.Case("")
					guard(x, "crt/multi/decompose", func() string { return fmt.Sprintf("ParamsMulti(%s).Decompose(%s)", cfg.name, show(v)) }, func() {
						for i, f := range []func(*numct.Modulus) []*numct.Nat{pm.Decompose, pm.DecomposeSerial, pm.DecomposeParallel} {
							ds := f(mkModulus(v))
							for j, fj := range fs {
								if ds[j].Big().Cmp(new(big.Int).Mod(v, fj)) != 0 {
									failf(x, "crt/multi/decompose", "ParamsMulti(%s).Decompose#%d(%s)[%d] = %s", cfg.name, i, show(v), j, show(ds[j].Big()))
								}
							}
						}
					})
				}
			}
			// wrong number of residues is refused
			x.Case("")
			guard(x, "crt/multi/arity", desc, func() {
				if _, ok := pm.Recombine(natOf(bi(1))); ok == ct.True {
					failf(x, "crt/multi/arity", "ParamsMulti(%s).Recombine accepted 1 residue", cfg.name)
				}
			})
		}
		x.Observe(cfg.name, coprime, len(xs))
	}
}
