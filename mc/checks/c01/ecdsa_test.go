package c01

import (
	"crypto/sha512"
	"hash"
	"bytes"
	nativeEcdsa "crypto/ecdsa"
	"crypto/elliptic"
	"crypto/sha256"
	"fmt"
	"os"
	"strings"

	"github.com/bronlabs/bron-crypto/pkg/base/algebra"
	"github.com/bronlabs/bron-crypto/pkg/base/curves"
	"github.com/bronlabs/bron-crypto/pkg/base/curves/k256"
	"github.com/bronlabs/bron-crypto/pkg/base/curves/p256"
	"github.com/bronlabs/bron-crypto/pkg/mpc"
	"github.com/bronlabs/bron-crypto/pkg/mpc/sharing"
	"github.com/bronlabs/bron-crypto/pkg/mpc/signatures/ecdsa/cggmp21"
	"github.com/bronlabs/bron-crypto/pkg/mpc/signatures/ecdsa/dkls23"
	"github.com/bronlabs/bron-crypto/pkg/mpc/signatures/ecdsa/lindell17"
	"github.com/bronlabs/bron-crypto/pkg/proofs/sigma/compiler"
	"github.com/bronlabs/bron-crypto/pkg/proofs/sigma/compiler/fischlin"
	"github.com/bronlabs/bron-crypto/pkg/proofs/sigma/compiler/randfischlin"
	"github.com/bronlabs/bron-crypto/pkg/signatures/ecdsa"

	"verifmc/catalog"
	"verifmc/engine"
	"verifmc/proto"
	"verifmc/ref/conv"
	"verifmc/ref/curve"
	"verifmc/ref/curve/libcurve"
	"verifmc/ref/sig"
	"verifmc/schednet"
)

// Paillier test key sizes (admitted under testing.Testing()): 1024 bits for Lindell17, 2048 bits for CGGMP21 (the
// size the repository's own CGGMP21 tests use). Note: cggmp21.NewParameters and its trusted dealer accept 1792 bits
// (= l' + epsilon on a 256-bit curve), but with such keys every signing run fails in Round2 (the affine-operation
// proof wants 2^1792 inside the symmetric plaintext range, i.e. two more bits); only reachable with test-size keys.
const (
	paillierTestBits = 1024
	cggmpTestBits    = 2048
)

// ecCase is one complete honest run of an expensive ECDSA protocol (or, with refuse set, one constructor-refusal
// probe of an unqualified party set).
type ecCase struct {
	proto  string // dkls23-bbot | dkls23-softspoken | lindell17 | cggmp21
	curve  string // k256 | p256
	s      *structure
	a      catalog.IDAssignment
	kg     string // dealer | gennaro | canetti  (lindell17 / cggmp21: "dealer" = the protocol's own trusted dealer, "gennaro" = Gennaro base shards + the protocol's auxiliary-information DKG)
	q      uint64 // party mask of the quorum
	order  int    // lindell17: 0 = lower identifier is the primary, 1 = the other way round
	nic    string // lindell17: fischlin | randfischlin
	msg    int
	api    int
	refuse bool
}

func (c ecCase) String() string {
	r := ""
	if c.refuse {
		r = "|REFUSAL"
	}
	return fmt.Sprintf("%s|%s|%s|%s|%s|q%b|o%d|%s|m%d|%s%s", c.proto, c.curve, c.s.e.Name, c.a.Name, c.kg, c.q, c.order, c.nic, c.msg, apiNames[c.api], r)
}

// ecCurve binds one library ECDSA curve to its reference model and independent verifier.
type ecCurve[P curves.Point[P, B, S], B algebra.PrimeFieldElement[B], S algebra.PrimeFieldElement[S]] struct {
	name  string
	curve ecdsa.Curve[P, B, S]
	ref   *curve.FpCurve
	toRef func(P) (curve.FpPoint, error)
	// native: additionally decide with crypto/ecdsa (P-256)
	native elliptic.Curve
	// newHash: the suite's hash (nil = SHA-256). A digest wider than the scalar field exercises the digest-to-scalar rule.
	newHash func() hash.Hash
}

func (c *ecCurve[P, B, S]) hasher() func() hash.Hash {
	if c.newHash != nil {
		return c.newHash
	}
	return sha256.New
}

func (c *ecCurve[P, B, S]) suite() *ecdsa.Suite[P, B, S] {
	s, err := ecdsa.NewSuite(c.curve, c.hasher())
	if err != nil {
		panic(engine.HarnessError{Msg: err.Error()})
	}
	return s
}

// refVerify: the independent verdict on (public key point, message, r, s, v).
func (c *ecCurve[P, B, S]) refVerify(pk P, raw []byte, sg *ecdsa.Signature[S]) (bool, string) {
	P0, err := c.toRef(pk)
	if err != nil || P0.Inf {
		return false, fmt.Sprintf("public key is not a finite point of the reference curve: %v", err)
	}
	hh := c.hasher()()
	hh.Write(raw)
	digest := hh.Sum(nil)
	r, s := conv.ToBig(sg.R()), conv.ToBig(sg.S())
	if !sig.ECDSAVerifyV(c.ref, P0, digest[:], r, s, sg.V()) {
		return false, fmt.Sprintf("ECDSA verification (SEC 1 4.1.4%s) fails for r=%x s=%x v=%v", map[bool]string{true: " + public-key recovery with v", false: ""}[sg.V() != nil], r, s, vStr(sg.V()))
	}
	if c.native != nil {
		if !nativeEcdsa.Verify(&nativeEcdsa.PublicKey{Curve: c.native, X: P0.X, Y: P0.Y}, digest[:], r, s) {
			return false, "crypto/ecdsa.Verify rejects"
		}
	}
	return true, ""
}

func vStr(v *int) string {
	if v == nil {
		return "nil"
	}
	return fmt.Sprint(*v)
}

func sigBytes[S algebra.PrimeFieldElement[S]](sg *ecdsa.Signature[S]) []byte {
	b := append(append([]byte{}, sg.R().Bytes()...), sg.S().Bytes()...)
	if sg.V() != nil {
		b = append(b, byte(*sg.V()))
	} else {
		b = append(b, 0xff)
	}
	return b
}

func nicOf(name string) compiler.Name {
	if name == "randfischlin" {
		return randfischlin.Name
	}
	return fischlin.Name
}

// ecRunner executes the cases of one curve.
type ecRunner[P curves.Point[P, B, S], B algebra.PrimeFieldElement[B], S algebra.PrimeFieldElement[S]] struct {
	c *ecCurve[P, B, S]
}

func (r *ecRunner[P, B, S]) base(c ecCase, kg proto.C01Keygen) (map[sharing.ID]*mpc.BaseShard[P, S], error) {
	return baseShards[P, S](r.c.name, r.c.curve, c.s, c.a, kg)
}

func kgOf(name string) proto.C01Keygen {
	switch name {
	case "gennaro":
		return proto.C01Gennaro
	case "canetti":
		return proto.C01Canetti
	}
	return proto.C01Dealer
}

func (r *ecRunner[P, B, S]) dklsShards(c ecCase) (map[sharing.ID]*dkls23.Shard[P, B, S], error) {
	return cached(fmt.Sprintf("dkls|%s|%s|%s|%s", r.c.name, c.s.e.Name, c.a.Name, c.kg), func() (map[sharing.ID]*dkls23.Shard[P, B, S], error) {
		b, err := r.base(c, kgOf(c.kg))
		if err != nil {
			return nil, err
		}
		return proto.C01DKLs23Shards[P, B, S](b)
	})
}

func (r *ecRunner[P, B, S]) l17Shards(c ecCase) (map[sharing.ID]*lindell17.Shard[P, B, S], error) {
	key := fmt.Sprintf("l17|%s|%s|%s|%s", r.c.name, c.s.e.Name, c.a.Name, c.kg)
	return cached(key, func() (map[sharing.ID]*lindell17.Shard[P, B, S], error) {
		if c.kg == "dealer" {
			return proto.C01Lindell17Deal(r.c.curve, build(c.s, c.a), paillierTestBits, engine.Seed(), key)
		}
		b, err := r.base(c, kgOf(c.kg))
		if err != nil {
			return nil, err
		}
		return proto.C01Lindell17DKG(r.c.curve, b, paillierTestBits, engine.Seed(), key)
	})
}

func (r *ecRunner[P, B, S]) cggmpShards(c ecCase) (map[sharing.ID]*cggmp21.Shard[P, B, S], error) {
	key := fmt.Sprintf("cggmp21|%s|%s|%s|%s", r.c.name, c.s.e.Name, c.a.Name, c.kg)
	return cached(key, func() (map[sharing.ID]*cggmp21.Shard[P, B, S], error) {
		if c.kg == "dealer" {
			return proto.C01CGGMP21Deal(r.c.curve, build(c.s, c.a), cggmpTestBits, engine.Seed(), key)
		}
		b, err := r.base(c, kgOf(c.kg))
		if err != nil {
			return nil, err
		}
		return proto.C01CGGMP21AuxDKG[P, B, S](b, engine.Seed(), key)
	})
}

func (r *ecRunner[P, B, S]) run(x *engine.X, c ecCase) {
	fk := fmt.Sprintf("%s/%s/%s", c.proto, c.curve, apiNames[c.api])
	quorum := catalog.Subset(c.a.IDs, c.q)
	where := fmt.Sprintf("%s %s ids=%s(%s) keygen=%s quorum=%s msg=%s api=%s", c.proto+"/"+c.curve, c.s.e.Name, c.a.Name, idsString(c.a.IDs), c.kg, idsString(quorum), msgNames[c.msg], apiNames[c.api])
	suite := r.c.suite()
	seed := engine.Seed()
	label := c.String()
	raw := message(c.msg)
	x.Case(label)
	var out *proto.C01Out[*ecdsa.Signature[S]]
	var pk P
	var refusals map[sharing.ID]error
	net := func() *schednet.Net { return schednet.New(proto.Sorted(quorum)...) }
	keyFail := func(err error) {
		if !outside(x, err, where) {
			x.Failf(c.proto+"/keygen/"+c.kg, "%s: key generation failed\n    error: %s", where, errStr(err))
		}
	}
	switch c.proto {
	case "dkls23-bbot", "dkls23-softspoken":
		shards, err := r.dklsShards(c)
		if err != nil {
			keyFail(err)
			return
		}
		pk = shards[c.a.IDs[0]].PublicKeyValue()
		mult := strings.TrimPrefix(c.proto, "dkls23-")
		switch {
		case c.refuse:
			refusals = proto.C01DKLs23New(mult, suite, shards, quorum, seed, label)
		case c.api == apiRunner:
			out = proto.C01DKLs23Run(x, net(), mult, suite, shards, quorum, raw, seed, label)
		case mult == "bbot":
			out = proto.C01DKLs23BBOTRounds(suite, shards, quorum, raw, seed, label)
		default:
			out = proto.C01DKLs23SoftspokenRounds(suite, shards, quorum, raw, seed, label)
		}
	case "lindell17":
		shards, err := r.l17Shards(c)
		if err != nil {
			keyFail(err)
			return
		}
		pk = shards[c.a.IDs[0]].PublicKeyValue()
		sorted := proto.Sorted(quorum)
		if len(sorted) != 2 {
			panic(engine.HarnessError{Msg: "lindell17 case with a quorum of " + fmt.Sprint(len(sorted))})
		}
		primary, secondary := sorted[c.order], sorted[1-c.order]
		where += fmt.Sprintf(" primary=%d secondary=%d nic=%s", primary, secondary, c.nic)
		switch {
		case c.refuse:
			e1, e2 := proto.C01Lindell17New(suite, shards, primary, secondary, nicOf(c.nic), seed, label)
			refusals = map[sharing.ID]error{primary: e1, secondary: e2}
		case c.api == apiRunner:
			out = proto.C01Lindell17Run(x, net(), suite, shards, primary, secondary, nicOf(c.nic), raw, seed, label)
		default:
			out = proto.C01Lindell17Rounds(suite, shards, primary, secondary, nicOf(c.nic), raw, seed, label)
		}
	case "cggmp21":
		shards, err := r.cggmpShards(c)
		if err != nil {
			keyFail(err)
			return
		}
		pk = shards[c.a.IDs[0]].PublicKeyValue()
		switch {
		case c.refuse:
			refusals = proto.C01CGGMP21New(suite, shards, quorum, seed, label)
		case c.api == apiRunner:
			out = proto.C01CGGMP21Run(x, net(), suite, shards, quorum, raw, seed, label)
		default:
			out = proto.C01CGGMP21Rounds(suite, shards, quorum, raw, seed, label)
		}
	default:
		panic(engine.HarnessError{Msg: "unknown protocol " + c.proto})
	}
	if c.refuse {
		// (6) an unqualified party set is refused at cosigner construction
		acc := 0
		for _, id := range quorum {
			if refusals[id] == nil {
				acc++
			}
		}
		if acc == len(quorum) {
			x.Failf(c.proto+"/"+c.curve+"/unqualified-quorum-not-refused-at-construction", "%s: every cosigner constructor accepted the UNQUALIFIED party set", where)
		}
		x.Observe(label, "refused by", len(quorum)-acc, "of", len(quorum))
		return
	}
	if out.Info != nil && out.Info.HarnessErr != "" {
		panic(engine.HarnessError{Msg: out.Info.HarnessErr})
	}
	if out.Refused != nil {
		x.Failf(fk+"/refused-qualified", "%s: a cosigner constructor refused a QUALIFIED quorum\n    errors: %s", where, errsString(out.Errs))
		return
	}
	// (1) everybody who should end with the signature has it
	for _, w := range out.Want {
		if _, ok := out.Sigs[w]; !ok {
			x.Failf(fk+"/no-output/"+holderClass(w), "%s: %s obtained no signature\n    errors: %s", where, w, errsString(out.Errs))
		}
	}
	if len(out.Sigs) == 0 {
		return
	}
	// (2) byte-equal
	var first []byte
	var firstSig *ecdsa.Signature[S]
	for _, w := range sortedKeys(out.Sigs) {
		b := sigBytes(out.Sigs[w])
		if first == nil {
			first, firstSig = b, out.Sigs[w]
		} else if !bytes.Equal(first, b) {
			x.Failf(fk+"/different-signatures", "%s: %s obtained r||s||v = %x, another holder %x", where, w, b, first)
		}
	}
	// (3) independent verifier
	if ok, why := r.c.refVerify(pk, raw, firstSig); !ok {
		x.Failf(fk+"/independent-verifier-rejects", "%s: the independent verifier rejects r||s||v = %x: %s", where, first, why)
	}
	// (4) library verifier
	pkObj, err := ecdsa.NewPublicKey(pk)
	if err != nil {
		x.Failf(fk+"/public-key", "%s: ecdsa.NewPublicKey(group public key): %v", where, err)
		return
	}
	vf, err := ecdsa.NewVerifier(suite)
	if err != nil {
		panic(engine.HarnessError{Msg: err.Error()})
	}
	if err := vf.Verify(firstSig, pkObj, raw); err != nil {
		x.Failf(fk+"/library-verifier-rejects", "%s: the library verifier rejects r||s||v = %x\n    error: %v", where, first, err)
	}
	// (5) the next message of the alphabet
	ni := nextMsg(c.msg)
	if ok, _ := r.c.refVerify(pk, message(ni), firstSig); ok {
		x.Failf(fk+"/independent-verifier-accepts-other-message", "%s: the independent verifier accepts the signature for message %s", where, msgNames[ni])
	}
	if err := vf.Verify(firstSig, pkObj, message(ni)); err == nil {
		x.Failf(fk+"/library-verifier-accepts-other-message", "%s: the library verifier accepts the signature for message %s", where, msgNames[ni])
	}
	x.Observe(label, "holders", len(out.Sigs), "lowS", firstSig.IsNormalized(), "v", vStr(firstSig.V()))
}

var (
	ecK256 = &ecRunner[*k256.Point, *k256.BaseFieldElement, *k256.Scalar]{&ecCurve[*k256.Point, *k256.BaseFieldElement, *k256.Scalar]{
		name: "k256", curve: k256.NewCurve(), ref: libcurve.K256().Ref, toRef: libcurve.K256().TryToRef}}
	ecP256 = &ecRunner[*p256.Point, *p256.BaseFieldElement, *p256.Scalar]{&ecCurve[*p256.Point, *p256.BaseFieldElement, *p256.Scalar]{
		name: "p256", curve: p256.NewCurve(), ref: libcurve.P256().Ref, toRef: libcurve.P256().TryToRef, native: elliptic.P256()}}
	ecK256SHA512 = &ecRunner[*k256.Point, *k256.BaseFieldElement, *k256.Scalar]{&ecCurve[*k256.Point, *k256.BaseFieldElement, *k256.Scalar]{
		name: "k256-sha512", curve: k256.NewCurve(), ref: libcurve.K256().Ref, toRef: libcurve.K256().TryToRef, newHash: sha512.New}}
)

func runEC(x *engine.X, c ecCase) {
	if c.curve == "p256" {
		ecP256.run(x, c)
	} else if c.curve == "k256-sha512" {
		ecK256SHA512.run(x, c)
	} else {
		ecK256.run(x, c)
	}
}

// ecCases lists the expensive-protocol runs of the tier (DESIGN §5 C01 bounds).
func ecCases() []ecCase {
	t23 := smallByName("thr(2,3)")[0]
	ord := func(s *structure) catalog.IDAssignment { return catalog.AssignmentsFor(s.e)[0] }
	var out []ecCase
	add := func(c ecCase) {
		if c.nic == "" {
			c.nic = "-"
			if c.proto == "lindell17" {
				c.nic = "fischlin"
			}
		}
		if o := os.Getenv("C01_FLAVOUR"); o != "" && !strings.Contains(c.proto, o) {
			return
		}
		out = append(out, c)
	}
	q12 := uint64(0b011)
	if !engine.Thorough() {
		for _, api := range []int{apiRounds, apiRunner} {
			add(ecCase{proto: "dkls23-bbot", curve: "k256", s: t23, a: ord(t23), kg: "dealer", q: q12, msg: 1, api: api})
			add(ecCase{proto: "dkls23-softspoken", curve: "p256", s: t23, a: ord(t23), kg: "dealer", q: q12, msg: 4, api: api})
			if api == apiRounds {
				// a hash wider than the scalar field (SHA-512 on secp256k1): the digest-to-scalar conversion matters
				add(ecCase{proto: "dkls23-bbot", curve: "k256-sha512", s: t23, a: ord(t23), kg: "dealer", q: q12, msg: 1, api: api})
				add(ecCase{proto: "lindell17", curve: "k256-sha512", s: t23, a: ord(t23), kg: "dealer", q: q12, order: 0, msg: 3, api: api})
			}
			if api == apiRunner {
				// a non-minimal quorum: with three cosigners the rounds of different pairs overlap on the routers
				add(ecCase{proto: "dkls23-softspoken", curve: "k256", s: t23, a: ord(t23), kg: "dealer", q: 0b111, msg: 2, api: api})
			}
			add(ecCase{proto: "lindell17", curve: "k256", s: t23, a: ord(t23), kg: "dealer", q: q12, order: api, msg: 3, api: api})
			add(ecCase{proto: "cggmp21", curve: "k256", s: t23, a: ord(t23), kg: "dealer", q: q12, msg: 2, api: api})
			if api == apiRounds {
				// non-minimal quorums: pairwise sub-contexts differ from the quorum's context only from three cosigners on
				add(ecCase{proto: "cggmp21", curve: "k256", s: t23, a: ord(t23), kg: "dealer", q: 0b111, msg: 4, api: api})
				add(ecCase{proto: "dkls23-bbot", curve: "p256", s: t23, a: ord(t23), kg: "dealer", q: 0b111, msg: 3, api: api})
			}
		}
		// unqualified pairs of T(3,3) at the DKLs23 constructors (cheap key material)
		t33 := smallByName("thr(3,3)")[0]
		for _, u := range t33.unqualified {
			add(ecCase{proto: "dkls23-bbot", curve: "k256", s: t33, a: ord(t33), kg: "dealer", q: u, msg: 1, refuse: true})
			add(ecCase{proto: "dkls23-softspoken", curve: "k256", s: t33, a: ord(t33), kg: "dealer", q: u, msg: 1, refuse: true})
		}
		return out
	}
	// thorough
	nonIdeal := smallByName("bool3:T1(T2(0,1),T2(0,2))")[0] // 0 AND (1 OR 2), party 0 owns two MSP rows
	cnfT23 := smallByName("cnf3{0|1|2}")[0]                 // = T(2,3) as a CNF: every holder owns two rows
	large := func(s *structure) catalog.IDAssignment { as := catalog.AssignmentsFor(s.e); return as[len(as)-1] }
	for _, p := range []string{"dkls23-bbot", "dkls23-softspoken"} {
		for _, cv := range []string{"k256", "p256"} {
			for _, s := range []*structure{t23, nonIdeal} {
				for i, q := range s.qualified {
					add(ecCase{proto: p, curve: cv, s: s, a: ord(s), kg: "dealer", q: q, msg: i % 5, api: apiRounds})
				}
				for _, u := range s.unqualified {
					add(ecCase{proto: p, curve: cv, s: s, a: ord(s), kg: "dealer", q: u, msg: 1, refuse: true})
				}
			}
			add(ecCase{proto: p, curve: cv, s: t23, a: large(t23), kg: "dealer", q: 0b110, msg: 4, api: apiRounds})
			add(ecCase{proto: p, curve: cv, s: t23, a: ord(t23), kg: "dealer", q: q12, msg: 0, api: apiRunner})
		}
		add(ecCase{proto: p, curve: "k256", s: t23, a: ord(t23), kg: "gennaro", q: 0b101, msg: 2, api: apiRounds})
		add(ecCase{proto: p, curve: "k256", s: nonIdeal, a: ord(nonIdeal), kg: "canetti", q: 0b011, msg: 3, api: apiRounds})
		add(ecCase{proto: p, curve: "k256", s: nonIdeal, a: ord(nonIdeal), kg: "dealer", q: 0b111, msg: 1, api: apiRunner})
	}
	for _, cv := range []string{"k256", "p256"} {
		for _, s := range []*structure{t23, cnfT23, nonIdeal} {
			mi := 0
			for _, q := range s.qualified {
				if popcount(q) != 2 {
					continue // Lindell17 is a two-party protocol
				}
				for order := 0; order < 2; order++ {
					nic := []string{"fischlin", "randfischlin"}[(mi+order)%2]
					add(ecCase{proto: "lindell17", curve: cv, s: s, a: ord(s), kg: "dealer", q: q, order: order, nic: nic, msg: mi % 5, api: apiRounds})
					mi++
				}
			}
			for _, u := range s.unqualified {
				if popcount(u) == 2 {
					add(ecCase{proto: "lindell17", curve: cv, s: s, a: ord(s), kg: "dealer", q: u, msg: 1, refuse: true})
				}
			}
		}
		add(ecCase{proto: "lindell17", curve: cv, s: t23, a: ord(t23), kg: "dealer", q: q12, order: 0, msg: 4, api: apiRunner})
		add(ecCase{proto: "lindell17", curve: cv, s: cnfT23, a: ord(cnfT23), kg: "dealer", q: 0b110, order: 1, nic: "randfischlin", msg: 0, api: apiRunner})
	}
	add(ecCase{proto: "lindell17", curve: "k256", s: t23, a: large(t23), kg: "dealer", q: 0b101, order: 1, msg: 2, api: apiRounds})
	add(ecCase{proto: "lindell17", curve: "k256", s: t23, a: ord(t23), kg: "gennaro", q: 0b110, order: 0, msg: 3, api: apiRounds})
	for _, s := range []*structure{t23, nonIdeal} {
		for i, q := range s.qualified {
			add(ecCase{proto: "cggmp21", curve: "k256", s: s, a: ord(s), kg: "dealer", q: q, msg: (i + 1) % 5, api: apiRounds})
		}
		for _, u := range s.unqualified {
			add(ecCase{proto: "cggmp21", curve: "k256", s: s, a: ord(s), kg: "dealer", q: u, msg: 1, refuse: true})
		}
		add(ecCase{proto: "cggmp21", curve: "k256", s: s, a: ord(s), kg: "dealer", q: s.qualified[0], msg: 0, api: apiRunner})
	}
	add(ecCase{proto: "cggmp21", curve: "k256", s: t23, a: ord(t23), kg: "dealer", q: 0b111, msg: 3, api: apiRunner})
	add(ecCase{proto: "cggmp21", curve: "p256", s: t23, a: ord(t23), kg: "dealer", q: q12, msg: 4, api: apiRounds})
	add(ecCase{proto: "cggmp21", curve: "k256", s: t23, a: ord(t23), kg: "gennaro", q: 0b110, msg: 2, api: apiRounds})
	return out
}

func popcount(m uint64) int {
	n := 0
	for ; m != 0; m &= m - 1 {
		n++
	}
	return n
}

func ecSplit(cs []ecCase) (rounds, runner []ecCase) {
	for _, c := range cs {
		if c.api == apiRunner && !c.refuse {
			runner = append(runner, c)
		} else {
			rounds = append(rounds, c)
		}
	}
	return rounds, runner
}

func ecBody(cs []ecCase) func(*engine.X) {
	return func(x *engine.X) {
		runEC(x, cs[x.Choose("case", len(cs))])
	}
}

// ecPaddedBody: the few, long runner-API cases under process sharding (see slot).
func ecPaddedBody(cs []ecCase) func(*engine.X) {
	return func(x *engine.X) {
		if i, ok := slot(x, len(cs), true); ok {
			runEC(x, cs[i])
		}
	}
}
