package c05

import (
	"fmt"
	"math/big"
	"slices"

	"github.com/bronlabs/bron-crypto/pkg/base/algebra"
	"github.com/bronlabs/bron-crypto/pkg/mpc"
	"github.com/bronlabs/bron-crypto/pkg/mpc/sharing"
	"github.com/bronlabs/bron-crypto/pkg/mpc/sharing/accessstructures"
	"github.com/bronlabs/bron-crypto/pkg/mpc/sharing/scheme/kw"
	"github.com/bronlabs/bron-crypto/pkg/mpc/sharing/scheme/kw/msp"
	"github.com/bronlabs/bron-crypto/pkg/mpc/sharing/vss/feldman"
	"github.com/bronlabs/bron-crypto/pkg/mpc/sharing/vss/pedersen"

	"verifmc/catalog"
	"verifmc/engine"
	"verifmc/ref/conv"
)

// outsider is an identifier that no catalogue assignment uses.
const outsider sharing.ID = 424242

// libDeal is one dealing made by the library together with its reference twin.
type libDeal[E algebra.PrimeGroupElement[E, S], S algebra.PrimeFieldElement[S]] struct {
	vv     *feldman.VerificationVector[E, S]
	ref    *refDealing
	secret *big.Int
	shares any // []*kw.Share[S] (Feldman) or []*pedersen.Share[S], by party index
}

// backend hides the difference between the two VSS schemes from the fault loops.
type backend[E algebra.PrimeGroupElement[E, S], S algebra.PrimeFieldElement[S]] struct {
	name    string
	m       *model
	msp     *msp.MSP[S]
	deal    func(x *engine.X, key string, d int) *libDeal[E, S]
	special func(x *engine.X, key string, which int) *libDeal[E, S]
	combine func(x *engine.X, key string, ds []*libDeal[E, S]) *libDeal[E, S]
	verify  func(x *engine.X, key string, claim int, p pres, vv *feldman.VerificationVector[E, S], shard bool) (accepted, refused bool)
	recon   func(x *engine.X, key string, e catalog.Entry, ld *libDeal[E, S], faulted bool)
}

func errLine(err error) string {
	if err == nil {
		return "<nil>"
	}
	s := err.Error()
	for i := 0; i < len(s); i++ {
		if s[i] == '\n' {
			return s[:i]
		}
	}
	return s
}

func (m *model) idOf(claim int) sharing.ID {
	if claim < 0 || claim >= len(m.ids) {
		return outsider
	}
	return m.ids[claim]
}

// dealSecret is the secret of the d-th dealing: a 256-bit pseudo-random residue, q-1, and another residue.
func dealSecret(q *big.Int, gname string, d int) *big.Int {
	if d == 1 {
		return new(big.Int).Sub(q, big.NewInt(1))
	}
	return seeded(q, fmt.Sprintf("secret/%s/%d", gname, d))
}

// specialColumn: which=0: (0,1,q-1,2,0,1,…) (secret 0, so V[0] is the identity; zero and repeated entries);
// which=1: (7,0,0,…) (every row of a Shamir-like programme gets the same share value).
func specialColumn(q *big.Int, D, which int, blinding bool) []*big.Int {
	out := make([]*big.Int, D)
	for j := range out {
		switch {
		case which == 0 && !blinding:
			out[j] = []*big.Int{big.NewInt(0), big.NewInt(1), new(big.Int).Sub(q, big.NewInt(1)), big.NewInt(2)}[j%4]
		case which == 0 && blinding:
			out[j] = []*big.Int{big.NewInt(1), big.NewInt(0), big.NewInt(3), new(big.Int).Sub(q, big.NewInt(2))}[j%4]
		case j == 0 && !blinding:
			out[j] = big.NewInt(7)
		default:
			out[j] = big.NewInt(0)
		}
	}
	return out
}

// ---------------------------------------------------------------------------------------------
// Feldman

func feldmanBackend[E algebra.PrimeGroupElement[E, S], S algebra.PrimeFieldElement[S]](g gctx[E, S], ac accessstructures.Monotone, ids []sharing.ID, cfgKey string) (*backend[E, S], error) {
	fs, err := feldman.NewScheme(g.group, ac)
	if err != nil {
		return nil, err
	}
	mp := fs.MSP()
	m := readModel(g.q, nil, mp, ids)
	G := g.group.Generator()
	b := &backend[E, S]{name: "feldman", m: m, msp: mp}

	finish := func(x *engine.X, key string, shares []*kw.Share[S], vv *feldman.VerificationVector[E, S], r []*big.Int, secret *big.Int) *libDeal[E, S] {
		ref := m.deal(r, nil)
		if r[0].Cmp(secret) != 0 {
			x.Failf("feldman/deal/secret", "%s: dealer column r[0]=%v but the secret was %v", key, r[0], secret)
		}
		for i := range ids {
			if len(m.rows[i]) == 0 && shares[i] == nil {
				continue
			}
			if shares[i] == nil || shares[i].ID() != ids[i] || !eqBigs(bigs(shares[i].Value()), ref.sec[i]) {
				x.Failf("feldman/deal/share-value", "%s: dealt share of party %d (id %d) is not M·r restricted to its rows %v", key, i, ids[i], m.rows[i])
				return nil
			}
		}
		if !g.commits(vvElems(vv), ref.e) {
			x.Failf("feldman/deal/vv", "%s: dealt verification vector is not [r]G", key)
			return nil
		}
		return &libDeal[E, S]{vv: vv, ref: ref, secret: secret, shares: shares}
	}

	b.deal = func(x *engine.X, key string, d int) *libDeal[E, S] {
		secret := dealSecret(g.q, g.name, d)
		do, df, err := fs.DealAndRevealDealerFunc(kw.NewSecret(g.el(secret)), newStream(fmt.Sprintf("%s/%s/feldman/%d", g.name, cfgKey, d)))
		if err != nil {
			x.Failf("feldman/deal/err", "%s: DealAndRevealDealerFunc failed: %s", key, errLine(err))
			return nil
		}
		shares := make([]*kw.Share[S], len(ids))
		for i, id := range ids {
			shares[i], _ = do.Shares().Get(id)
		}
		return finish(x, key, shares, do.VerificationMaterial(), column(df.RandomColumn()), secret)
	}

	b.special = func(x *engine.X, key string, which int) *libDeal[E, S] {
		r := specialColumn(g.q, m.M.C, which, false)
		df, err := kw.NewDealerFunc(g.libColumn(r), mp)
		if err != nil {
			x.Failf("feldman/dealerfunc/err", "%s: kw.NewDealerFunc failed on a D x 1 column: %s", key, errLine(err))
			return nil
		}
		ldf, err := feldman.LiftDealerFunc(df, G)
		if err != nil {
			x.Failf("feldman/dealerfunc/lift", "%s: LiftDealerFunc failed: %s", key, errLine(err))
			return nil
		}
		shares := make([]*kw.Share[S], len(ids))
		for i, id := range ids {
			if len(m.rows[i]) == 0 {
				continue
			}
			if shares[i], err = df.ShareOf(id); err != nil {
				x.Failf("feldman/dealerfunc/shareof", "%s: ShareOf(%d) failed: %s", key, id, errLine(err))
				return nil
			}
		}
		return finish(x, key, shares, ldf.VerificationVector(), r, r[0])
	}

	b.combine = func(x *engine.X, key string, ds []*libDeal[E, S]) *libDeal[E, S] {
		if len(ds) == 1 {
			return ds[0]
		}
		vv := ds[0].vv
		shares := append([]*kw.Share[S]{}, ds[0].shares.([]*kw.Share[S])...)
		refs := []*refDealing{ds[0].ref}
		secret := new(big.Int).Set(ds[0].secret)
		for _, d := range ds[1:] {
			var err error
			if vv, err = vv.Op(d.vv); err != nil {
				x.Failf("feldman/combine/op-err", "%s: VerificationVector.Op of two dealt vectors failed: %s", key, errLine(err))
				return nil
			}
			for i, s := range d.shares.([]*kw.Share[S]) {
				if s != nil {
					shares[i] = shares[i].Add(s)
				}
			}
			refs = append(refs, d.ref)
			secret.Add(secret, d.secret).Mod(secret, g.q)
		}
		ref := m.sum(refs...)
		for i := range ids {
			if shares[i] == nil {
				continue
			}
			if !eqBigs(bigs(shares[i].Value()), ref.sec[i]) {
				x.Failf("feldman/combine/share-sum", "%s: Share.Add of party %d differs from the sum of the share values mod q", key, i)
				return nil
			}
		}
		if !g.commits(vvElems(vv), ref.e) {
			x.Failf("feldman/combine/vv", "%s: V1∘V2(∘V3) is not the entry-wise product of the dealt vectors", key)
			return nil
		}
		return &libDeal[E, S]{vv: vv, ref: ref, secret: secret, shares: shares}
	}

	b.verify = func(x *engine.X, key string, claim int, p pres, vv *feldman.VerificationVector[E, S], shard bool) (bool, bool) {
		sh, err := kw.NewShare(m.idOf(claim), g.els(p.sec)...)
		if err != nil {
			return false, true
		}
		verr := fs.Verify(sh, vv)
		if shard {
			// mpc.NewBaseShard must accept exactly the shares that Verify accepts
			bs, berr := mpc.NewBaseShard(sh, vv, mp)
			if (berr == nil) != (verr == nil) {
				x.Failf("baseshard/disagrees-with-verify", "%s: Verify err=%s but NewBaseShard err=%s", key, errLine(verr), errLine(berr))
			} else if berr == nil {
				els := vvElems(vv)
				lifted, lerr := feldman.LiftShare(sh, G)
				pks, ok := bs.PublicKeyShares().Get(sh.ID())
				if !bs.Share().Equal(sh) || !bs.PublicKeyValue().Equal(els[0]) || !bs.VerificationVector().Equal(vv) || lerr != nil || !ok || !pks.Equal(lifted) {
					x.Failf("baseshard/content", "%s: accepted BaseShard does not carry the presented share / V[0] / the lifted share", key)
				}
			}
		}
		return verr == nil, false
	}

	b.recon = func(x *engine.X, key string, e catalog.Entry, ld *libDeal[E, S], faulted bool) {
		shares := ld.shares.([]*kw.Share[S])
		els := vvElems(ld.vv)
		pub := G.ScalarOp(g.el(ld.secret)) // the committed public value [secret]G; must be V[0]
		if !els[0].Equal(pub) {
			x.Failf("feldman/v0", "%s: V[0] is not [secret]G", key)
		}
		ldf, err := feldman.NewLiftedDealerFunc(ld.vv, mp)
		if err != nil {
			x.Failf("feldman/lifted-dealerfunc", "%s: NewLiftedDealerFunc on the dealt vector failed: %s", key, errLine(err))
			return
		}
		if !ldf.LiftedSecret().Value().Equal(els[0]) {
			x.Failf("feldman/lifted-secret", "%s: LiftedDealerFunc.LiftedSecret != V[0]", key)
		}
		bpm, err := mpc.NewBasePublicMaterial(mp, ld.vv)
		if err != nil || !bpm.PublicKeyValue().Equal(els[0]) {
			x.Failf("basepublic/value", "%s: NewBasePublicMaterial err=%s or PublicKeyValue != V[0]", key, errLine(err))
		}
		minimal := map[uint64]bool{}
		for _, a := range catalog.MinimalQualified(e.P) {
			minimal[a] = true
		}
		nq, nu := 0, 0
		for a := uint64(1); a <= e.P.Full(); a++ {
			var byScalar, byVector []*feldman.LiftedShare[E, S]
			var members []*kw.Share[S]
			for i := range ids {
				if a>>i&1 == 0 || shares[i] == nil {
					continue // (a party without rows holds nothing and never changes whether a set qualifies)
				}
				l1, err1 := feldman.LiftShare(shares[i], G)
				l2, err2 := ldf.ShareOf(ids[i])
				if err1 != nil || err2 != nil {
					x.Failf("feldman/lift", "%s: LiftShare/ShareOf failed for party %d: %s / %s", key, i, errLine(err1), errLine(err2))
					return
				}
				if !l1.Equal(l2) {
					x.Failf("feldman/lift/mismatch", "%s: [λ_i]G != M_i·V for party %d on an honest dealing", key, i)
				}
				byScalar, byVector, members = append(byScalar, l1), append(byVector, l2), append(members, shares[i])
			}
			if len(members) == 0 {
				continue
			}
			x.Case(fmt.Sprintf("%s/recon/%d", key, a))
			qualified := e.P.Qualified(a)
			for which, ls := range [][]*feldman.LiftedShare[E, S]{byScalar, byVector} {
				got, err := fs.ReconstructInTheExponent(ls...)
				if !qualified {
					if err != nil {
						nu++
					}
					continue // refusal of unqualified sets is C02's subject; nothing is demanded here
				}
				nq++
				if err != nil {
					x.Failf("feldman/recon-exponent/err", "%s: ReconstructInTheExponent failed on qualified set %04b (source %d): %s", key, a, which, errLine(err))
				} else if !got.Value().Equal(els[0]) {
					x.Failf("feldman/recon-exponent/value", "%s: ReconstructInTheExponent over qualified set %04b (source %d) != V[0]", key, a, which)
				}
			}
			if qualified && (minimal[a] || a == e.P.Full()) {
				sec, err := fs.ReconstructAndVerify(ld.vv, members...)
				if err != nil || conv.ToBig(sec.Value()).Cmp(ld.secret) != 0 {
					x.Failf("feldman/reconstruct-and-verify/honest", "%s: ReconstructAndVerify on honest shares of %04b: err=%s or wrong secret", key, a, errLine(err))
				}
				if faulted && minimal[a] {
					// one altered coordinate in the last member: must be refused
					last := members[len(members)-1]
					v := bigs(last.Value())
					v[len(v)-1] = addc(g.q, v[len(v)-1], 1)
					bad, _ := kw.NewShare(last.ID(), g.els(v)...)
					alt := append(append([]*kw.Share[S]{}, members[:len(members)-1]...), bad)
					if _, err := fs.ReconstructAndVerify(ld.vv, alt...); err == nil {
						x.Failf("feldman/reconstruct-and-verify/altered", "%s: ReconstructAndVerify accepted set %04b with one altered coordinate", key, a)
					}
				}
			}
		}
		x.Observe(fmt.Sprintf("exponent reconstructions: qualified=%d unqualified-refused=%d", nq, nu))
	}
	return b, nil
}

// ---------------------------------------------------------------------------------------------
// Pedersen

func pedersenBackend[E algebra.PrimeGroupElement[E, S], S algebra.PrimeFieldElement[S]](g gctx[E, S], ac accessstructures.Monotone, ids []sharing.ID, cfgKey string) (*backend[E, S], error) {
	ps, err := pedersen.NewScheme(g.key, ac)
	if err != nil {
		return nil, err
	}
	// pedersen.Scheme does not expose its span programme; induce it the way the scheme does and cross-check it
	// against the dealer functions' programme on every dealing.
	mp, err := accessstructures.InducedMSP(g.field, ac)
	if err != nil {
		return nil, err
	}
	m := readModel(g.q, g.h, mp, ids)
	G, H := g.key.G(), g.key.H()
	b := &backend[E, S]{name: "pedersen", m: m, msp: mp}

	commitsPed := func(elems []E, rg, rh []*big.Int) bool {
		if len(elems) != len(rg) {
			return false
		}
		for j := range rg {
			if !elems[j].Equal(G.ScalarOp(g.el(rg[j])).Op(H.ScalarOp(g.el(rh[j])))) {
				return false
			}
		}
		return true
	}
	blind := func(s *pedersen.Share[S]) []*big.Int {
		out := make([]*big.Int, len(s.Blinding()))
		for i, w := range s.Blinding() {
			out[i] = conv.ToBig(w.Value())
		}
		return out
	}
	finish := func(x *engine.X, key string, shares []*pedersen.Share[S], vv *feldman.VerificationVector[E, S], df *pedersen.DealerFunc[S], secret *big.Int) *libDeal[E, S] {
		if !df.G().MSP().Equal(mp) || !df.H().MSP().Equal(mp) {
			panic(engine.HarnessError{Msg: "pedersen scheme uses a different span programme than accessstructures.InducedMSP"})
		}
		rg, rh := column(df.G().RandomColumn()), column(df.H().RandomColumn())
		ref := m.deal(rg, rh)
		if rg[0].Cmp(secret) != 0 {
			x.Failf("pedersen/deal/secret", "%s: dealer column r_g[0]=%v but the secret was %v", key, rg[0], secret)
		}
		for i := range ids {
			if len(m.rows[i]) == 0 && shares[i] == nil {
				continue
			}
			if shares[i] == nil || shares[i].ID() != ids[i] || !eqBigs(bigs(shares[i].Value()), ref.sec[i]) || !eqBigs(blind(shares[i]), ref.bl[i]) {
				x.Failf("pedersen/deal/share-value", "%s: dealt share of party %d (id %d) is not (M·r_g, M·r_h) restricted to its rows %v", key, i, ids[i], m.rows[i])
				return nil
			}
		}
		if !commitsPed(vvElems(vv), rg, rh) {
			x.Failf("pedersen/deal/vv", "%s: dealt verification vector is not [r_g]G+[r_h]H", key)
			return nil
		}
		return &libDeal[E, S]{vv: vv, ref: ref, secret: secret, shares: shares}
	}

	b.deal = func(x *engine.X, key string, d int) *libDeal[E, S] {
		secret := dealSecret(g.q, g.name, d)
		do, df, err := ps.DealAndRevealDealerFunc(kw.NewSecret(g.el(secret)), newStream(fmt.Sprintf("%s/%s/pedersen/%d", g.name, cfgKey, d)))
		if err != nil {
			x.Failf("pedersen/deal/err", "%s: DealAndRevealDealerFunc failed: %s", key, errLine(err))
			return nil
		}
		shares := make([]*pedersen.Share[S], len(ids))
		for i, id := range ids {
			shares[i], _ = do.Shares().Get(id)
		}
		return finish(x, key, shares, do.VerificationMaterial(), df, secret)
	}

	b.special = func(x *engine.X, key string, which int) *libDeal[E, S] {
		rg, rh := specialColumn(g.q, m.M.C, which, false), specialColumn(g.q, m.M.C, which, true)
		gdf, err1 := kw.NewDealerFunc(g.libColumn(rg), mp)
		hdf, err2 := kw.NewDealerFunc(g.libColumn(rh), mp)
		if err1 != nil || err2 != nil {
			x.Failf("pedersen/dealerfunc/err", "%s: kw.NewDealerFunc failed on a D x 1 column: %s / %s", key, errLine(err1), errLine(err2))
			return nil
		}
		df, err := pedersen.NewDealerFunc(gdf, hdf)
		if err != nil {
			x.Failf("pedersen/dealerfunc/err", "%s: pedersen.NewDealerFunc failed: %s", key, errLine(err))
			return nil
		}
		ldf, err := pedersen.LiftDealerFunc(df, g.key)
		if err != nil {
			x.Failf("pedersen/dealerfunc/lift", "%s: LiftDealerFunc failed: %s", key, errLine(err))
			return nil
		}
		shares := make([]*pedersen.Share[S], len(ids))
		for i, id := range ids {
			if len(m.rows[i]) == 0 {
				continue
			}
			if shares[i], err = df.ShareOf(id); err != nil {
				x.Failf("pedersen/dealerfunc/shareof", "%s: ShareOf(%d) failed: %s", key, id, errLine(err))
				return nil
			}
		}
		return finish(x, key, shares, ldf.VerificationVector(), df, rg[0])
	}

	b.combine = func(x *engine.X, key string, ds []*libDeal[E, S]) *libDeal[E, S] {
		if len(ds) == 1 {
			return ds[0]
		}
		vv := ds[0].vv
		shares := append([]*pedersen.Share[S]{}, ds[0].shares.([]*pedersen.Share[S])...)
		refs := []*refDealing{ds[0].ref}
		secret := new(big.Int).Set(ds[0].secret)
		for _, d := range ds[1:] {
			var err error
			if vv, err = vv.Op(d.vv); err != nil {
				x.Failf("pedersen/combine/op-err", "%s: VerificationVector.Op of two dealt vectors failed: %s", key, errLine(err))
				return nil
			}
			for i, s := range d.shares.([]*pedersen.Share[S]) {
				if s != nil {
					shares[i] = shares[i].Add(s)
				}
			}
			refs = append(refs, d.ref)
			secret.Add(secret, d.secret).Mod(secret, g.q)
		}
		ref := m.sum(refs...)
		for i := range ids {
			if shares[i] == nil {
				continue
			}
			if !eqBigs(bigs(shares[i].Value()), ref.sec[i]) || !eqBigs(blind(shares[i]), ref.bl[i]) {
				x.Failf("pedersen/combine/share-sum", "%s: Share.Add of party %d differs from the component-wise sums mod q", key, i)
				return nil
			}
		}
		if !commitsPed(vvElems(vv), ref.rg, ref.rh) {
			x.Failf("pedersen/combine/vv", "%s: V1∘V2(∘V3) is not the entry-wise product of the dealt vectors", key)
			return nil
		}
		return &libDeal[E, S]{vv: vv, ref: ref, secret: secret, shares: shares}
	}

	b.verify = func(x *engine.X, key string, claim int, p pres, vv *feldman.VerificationVector[E, S], _ bool) (bool, bool) {
		id := m.idOf(claim)
		sk, err := kw.NewShare(id, g.els(p.sec)...)
		if err != nil {
			return false, true
		}
		bk, err := kw.NewShare(id, g.els(p.bl)...)
		if err != nil {
			return false, true
		}
		sh, err := pedersen.NewShare(id, sk, bk)
		if err != nil {
			return false, true
		}
		return ps.Verify(sh, vv) == nil, false
	}

	b.recon = func(x *engine.X, key string, e catalog.Entry, ld *libDeal[E, S], faulted bool) {
		shares := ld.shares.([]*pedersen.Share[S])
		n := 0
		minimal := catalog.MinimalQualified(e.P)
		sets := append([]uint64{}, minimal...)
		if !slices.Contains(minimal, e.P.Full()) {
			sets = append(sets, e.P.Full())
		}
		for k, a := range sets {
			var members []*pedersen.Share[S]
			for i := range ids {
				if a>>i&1 == 1 && shares[i] != nil {
					members = append(members, shares[i])
				}
			}
			x.Case(fmt.Sprintf("%s/recon/%d", key, a))
			n++
			sec, err := ps.ReconstructAndVerify(ld.vv, members...)
			if err != nil || conv.ToBig(sec.Value()).Cmp(ld.secret) != 0 {
				x.Failf("pedersen/reconstruct-and-verify/honest", "%s: ReconstructAndVerify on honest shares of %04b: err=%s or wrong secret", key, a, errLine(err))
			}
			if faulted && k < len(minimal) {
				last := members[len(members)-1]
				bl := blind(last)
				bl[len(bl)-1] = addc(g.q, bl[len(bl)-1], 1)
				sk, _ := kw.NewShare(last.ID(), last.Value()...)
				bk, _ := kw.NewShare(last.ID(), g.els(bl)...)
				bad, err := pedersen.NewShare(last.ID(), sk, bk)
				if err != nil {
					panic(engine.HarnessError{Msg: "cannot build altered Pedersen share: " + err.Error()})
				}
				alt := append(append([]*pedersen.Share[S]{}, members[:len(members)-1]...), bad)
				if _, err := ps.ReconstructAndVerify(ld.vv, alt...); err == nil {
					x.Failf("pedersen/reconstruct-and-verify/altered", "%s: ReconstructAndVerify accepted set %04b with one altered blinding coordinate", key, a)
				}
			}
		}
		x.Observe(fmt.Sprintf("ReconstructAndVerify sets: %d", n))
	}
	return b, nil
}
