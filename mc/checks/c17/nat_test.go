package c17

import (
	"bytes"
	"fmt"
	"math/big"

	"github.com/bronlabs/bron-crypto/pkg/base/ct"
	"github.com/bronlabs/bron-crypto/pkg/base/nt/numct"

	"verifmc/engine"
)

func show(v *big.Int) string {
	if v == nil {
		return "<nil>"
	}
	if v.BitLen() <= 64 {
		return v.String()
	}
	return "0x" + hexOf(v)
}

func mkNat(s shape) *numct.Nat { return numct.NewNatFromBig(s.orig, s.cap) }

// junkNat is the initial content of a non-aliased output: a 100-bit pattern with a capacity unrelated to the operands.
func junkNat() *numct.Nat {
	j, _ := new(big.Int).SetString("deadbeefcafebabe0123456789", 16)
	return numct.NewNatFromBig(j, 107)
}

var junkBig, _ = new(big.Int).SetString("deadbeefcafebabe0123456789", 16)

func maxInt(a, b int) int {
	if a > b {
		return a
	}
	return b
}

// natBinOp is one row of the operation table for out.Op(lhs, rhs[, cap]).
type natBinOp struct {
	name   string
	hasCap bool
	// call performs the operation
	call func(out, a, b *numct.Nat, c int)
	// exact returns the untruncated mathematical result (may be negative for Sub) and the capacity the documentation
	// announces when c < 0
	exact func(a, b *big.Int, acap, bcap int) (res *big.Int, defCap int)
}

func natBinOps() []natBinOp {
	add := func(a, b *big.Int, ac, bc int) (*big.Int, int) { return new(big.Int).Add(a, b), maxInt(ac, bc) + 1 }
	sub := func(a, b *big.Int, ac, bc int) (*big.Int, int) { return new(big.Int).Sub(a, b), maxInt(ac, bc) }
	mul := func(a, b *big.Int, ac, bc int) (*big.Int, int) { return new(big.Int).Mul(a, b), ac + bc }
	and := func(a, b *big.Int, ac, bc int) (*big.Int, int) { return new(big.Int).And(a, b), maxInt(ac, bc) }
	or := func(a, b *big.Int, ac, bc int) (*big.Int, int) { return new(big.Int).Or(a, b), maxInt(ac, bc) }
	xor := func(a, b *big.Int, ac, bc int) (*big.Int, int) { return new(big.Int).Xor(a, b), maxInt(ac, bc) }
	return []natBinOp{
		{"Add", false, func(o, a, b *numct.Nat, c int) { o.Add(a, b) }, add},
		{"AddCap", true, func(o, a, b *numct.Nat, c int) { o.AddCap(a, b, c) }, add},
		{"SubCap", true, func(o, a, b *numct.Nat, c int) { o.SubCap(a, b, c) }, sub},
		{"Mul", false, func(o, a, b *numct.Nat, c int) { o.Mul(a, b) }, mul},
		{"MulCap", true, func(o, a, b *numct.Nat, c int) { o.MulCap(a, b, c) }, mul},
		{"And", false, func(o, a, b *numct.Nat, c int) { o.And(a, b) }, and},
		{"AndCap", true, func(o, a, b *numct.Nat, c int) { o.AndCap(a, b, c) }, and},
		{"Or", false, func(o, a, b *numct.Nat, c int) { o.Or(a, b) }, or},
		{"OrCap", true, func(o, a, b *numct.Nat, c int) { o.OrCap(a, b, c) }, or},
		{"Xor", false, func(o, a, b *numct.Nat, c int) { o.Xor(a, b) }, xor},
		{"XorCap", true, func(o, a, b *numct.Nat, c int) { o.XorCap(a, b, c) }, xor},
		{"GCD", false, func(o, a, b *numct.Nat, c int) { o.GCD(a, b) }, func(a, b *big.Int, ac, bc int) (*big.Int, int) {
			return new(big.Int).GCD(nil, nil, a, b), maxInt(ac, bc)
		}},
		{"LCM", false, func(o, a, b *numct.Nat, c int) { numct.LCM(o, a, b) }, func(a, b *big.Int, ac, bc int) (*big.Int, int) {
			if a.Sign() == 0 || b.Sign() == 0 {
				return bi(0), 1
			}
			g := new(big.Int).GCD(nil, nil, a, b)
			return new(big.Int).Div(new(big.Int).Mul(a, b), g), ac + bc
		}},
	}
}

// the alias patterns of a three-address operation
const (
	alDistinct = iota
	alOutL
	alOutR
	alLR  // lhs and rhs are the same object (only when both shapes coincide)
	alAll // out, lhs and rhs are the same object
	alCount
)

var aliasNames = []string{"distinct", "out=lhs", "out=rhs", "lhs=rhs", "out=lhs=rhs"}

func outCaps(need int) []int {
	cs := []int{-1}
	if need >= 1 {
		cs = append(cs, need-1)
	}
	return append(cs, need, need+1, need+64)
}

func runNatBin(x *engine.X, op natBinOp, sa, sb shape, same bool) {
	exact, defCap := op.exact(sa.val, sb.val, sa.cap, sb.cap)
	caps := []int{-1}
	if op.hasCap {
		need := exact.BitLen()
		if exact.Sign() < 0 {
			need = defCap
		}
		caps = outCaps(need)
	}
	full := sa.kind == "exact" && sb.kind == "exact"
	for ci, c := range caps {
		for al := 0; al < alCount; al++ {
			if (al == alLR || al == alAll) && !same {
				continue
			}
			if !full && ci != 0 && al != alDistinct {
				continue // factorised: padded/truncated operand shapes x (every alias at the default capacity + every capacity without aliasing)
			}
			a, b := mkNat(sa), mkNat(sb)
			if al == alLR || al == alAll {
				b = a
			}
			out := junkNat()
			switch al {
			case alOutL, alAll:
				out = a
			case alOutR:
				out = b
			}
			desc := func() string {
				return fmt.Sprintf("Nat.%s(lhs=%v, rhs=%v, cap=%d, alias=%s)", op.name, sa, sb, c, aliasNames[al])
			}
			x.Case("")
			if !guard(x, "nat/"+op.name, desc, func() { op.call(out, a, b, c) }) {
				continue
			}
			effCap := c
			if c < 0 {
				effCap = defCap
			}
			want := mod2k(exact, effCap)
			if op.name == "LCM" || op.name == "GCD" {
				want = exact // no truncation is documented for these
			}
			if got := out.Big(); got.Cmp(want) != 0 {
				failf(x, "nat/"+op.name, "%s = %s, want %s", desc(), show(got), show(want))
			}
			if out.TrueLen() > out.AnnouncedLen() {
				failf(x, "nat/"+op.name+"/announced", "%s: TrueLen %d > AnnouncedLen %d", desc(), out.TrueLen(), out.AnnouncedLen())
			}
			// inputs that are not the output must be unchanged
			mkey := "nat/" + op.name + "/mutated-input"
			if c >= 0 && (c < sa.cap || c < sb.cap) {
				mkey = "numct/truncating-cap/mutated-input" // an explicit capacity below an operand's capacity masks that operand in place
			}
			if out != a && a.Big().Cmp(sa.val) != 0 {
				failf(x, mkey, "%s: lhs changed to %s", desc(), show(a.Big()))
			}
			if out != b && b.Big().Cmp(sb.val) != 0 {
				failf(x, mkey, "%s: rhs changed to %s", desc(), show(b.Big()))
			}
		}
	}
}

// division family: q.Op(r, n, d) -> ok
type natDivOp struct {
	name string
	call func(q, r, n, d *numct.Nat) ct.Bool
}

func natDivOps() []natDivOp {
	return []natDivOp{
		{"EuclideanDiv", func(q, r, n, d *numct.Nat) ct.Bool { return q.EuclideanDiv(r, n, d) }},
		{"Div", func(q, r, n, d *numct.Nat) ct.Bool { return q.Div(r, n, d) }},
		{"EuclideanDivVarTime", func(q, r, n, d *numct.Nat) ct.Bool { return q.EuclideanDivVarTime(r, n, d) }},
		{"DivVarTime", func(q, r, n, d *numct.Nat) ct.Bool { return q.DivVarTime(r, n, d) }},
	}
}

var divAliasNames = []string{"distinct", "r=nil", "q=n", "q=d", "r=n", "r=d", "q=n,r=d", "q=d,r=n", "n=d"}

func runNatDiv(x *engine.X, op natDivOp, sn, sd shape, same bool) {
	full := sn.kind == "exact" && sd.kind == "exact"
	for al := range divAliasNames {
		if al == 8 && !same {
			continue
		}
		if !full && al > 1 {
			continue
		}
		n, d := mkNat(sn), mkNat(sd)
		if al == 8 {
			d = n
		}
		q, r := junkNat(), junkNat()
		switch al {
		case 1:
			r = nil
		case 2:
			q = n
		case 3:
			q = d
		case 4:
			r = n
		case 5:
			r = d
		case 6:
			q, r = n, d
		case 7:
			q, r = d, n
		}
		desc := func() string {
			return fmt.Sprintf("Nat.%s(n=%v, d=%v, alias=%s)", op.name, sn, sd, divAliasNames[al])
		}
		x.Case("")
		var ok ct.Bool
		key := "nat/" + op.name
		sfx := func(s string) string { return key + s }
		vartime := op.name == "EuclideanDivVarTime" || op.name == "DivVarTime"
		switch {
		case vartime && sn.cap+2 < sd.val.BitLen():
			// class 1: numerator capacity + 2 < divisor length: the documented quotient capacity is negative
			key = "numct/divvartime/short-numerator"
			sfx = func(string) string { return key }
		case vartime && al >= 2 && al <= 7:
			// class 2: an output of the variable-time division is one of its inputs
			key = "numct/divvartime/alias"
			sfx = func(string) string { return key }
		case al >= 2 && al <= 7:
			key += "/alias"
		}
		if !guardKey(x, sfx("/panic"), desc, func() { ok = op.call(q, r, n, d) }) {
			continue
		}
		if sd.val.Sign() == 0 {
			if ok != ct.False {
				failf(x, sfx("/div-by-zero"), "%s reported ok for a zero divisor", desc())
			}
			continue
		}
		if ok != ct.True {
			failf(x, key, "%s reported failure for a non-zero divisor", desc())
			continue
		}
		wq, wr := new(big.Int).DivMod(sn.val, sd.val, new(big.Int))
		if got := q.Big(); got.Cmp(wq) != 0 {
			failf(x, key, "%s: quotient %s, want %s", desc(), show(got), show(wq))
		}
		if r != nil {
			if got := r.Big(); got.Cmp(wr) != 0 {
				failf(x, key, "%s: remainder %s, want %s", desc(), show(got), show(wr))
			}
		}
		if q != n && r != n && n.Big().Cmp(sn.val) != 0 {
			failf(x, sfx("/mutated-input"), "%s: numerator changed to %s", desc(), show(n.Big()))
		}
		if q != d && r != d && d != n && d.Big().Cmp(sd.val) != 0 {
			failf(x, sfx("/mutated-input"), "%s: divisor changed to %s", desc(), show(d.Big()))
		}
	}
}

func b2i(c ct.Bool) int { return int(c) }

func boolTo(b bool) ct.Bool {
	if b {
		return ct.True
	}
	return ct.False
}

// predicates / comparisons on two naturals
func runNatCmp(x *engine.X, sa, sb shape, same bool) {
	a, b := mkNat(sa), mkNat(sb)
	if same {
		b = a
	}
	desc := func() string { return fmt.Sprintf("Nat(%v) vs Nat(%v) same-object=%v", sa, sb, same) }
	x.Case("")
	guard(x, "nat/compare", desc, func() {
		lt, eq, gt := a.Compare(b)
		c := sa.val.Cmp(sb.val)
		if lt != boolTo(c < 0) || eq != boolTo(c == 0) || gt != boolTo(c > 0) {
			failf(x, "nat/compare", "%s: Compare = (%d,%d,%d), want cmp %d", desc(), lt, eq, gt, c)
		}
		if a.Equal(b) != boolTo(c == 0) {
			failf(x, "nat/equal", "%s: Equal = %d", desc(), a.Equal(b))
		}
	})
	guard(x, "nat/coprime", desc, func() {
		g := new(big.Int).GCD(nil, nil, sa.val, sb.val)
		if got := a.Coprime(b); got != boolTo(g.Cmp(bi(1)) == 0) {
			failf(x, "nat/coprime", "%s: Coprime = %d but gcd = %s", desc(), got, show(g))
		}
	})
}

func natBinaryBody() func(*engine.X) {
	V := natV()
	bin := natBinOps()
	div := natDivOps()
	nOps := len(bin) + len(div) + 1
	return func(x *engine.X) {
		oi := x.Choose("op", nOps)
		ai := x.Choose("a", len(V))
		name := ""
		for _, sa := range shapesOf(V[ai]) {
			for bi2, bv := range V {
				for _, sb := range shapesOf(bv) {
					same := bi2 == ai && sa.kind == sb.kind
					switch {
					case oi < len(bin):
						name = bin[oi].name
						runNatBin(x, bin[oi], sa, sb, same)
					case oi < len(bin)+len(div):
						name = div[oi-len(bin)].name
						runNatDiv(x, div[oi-len(bin)], sa, sb, same)
					default:
						name = "compare"
						runNatCmp(x, sa, sb, false)
						if same {
							runNatCmp(x, sa, sb, true)
						}
					}
				}
			}
		}
		x.Observe(name, V[ai].BitLen())
	}
}

// ---------------------------------------------------------------------------------------------------------------
// unary operations, conversions, shifts

func natUnaryBody() func(*engine.X) {
	V := natV()
	// every value of V, its square and the neighbours of the square (perfect squares and near misses for Sqrt)
	var vals []*big.Int
	for _, v := range V {
		sq := new(big.Int).Mul(v, v)
		vals = append(vals, v, sq, new(big.Int).Add(sq, bi(1)))
		if sq.Sign() > 0 {
			vals = append(vals, new(big.Int).Sub(sq, bi(1)))
		}
	}
	vals = dedupSort(vals)
	return func(x *engine.X) {
		v := vals[x.Choose("v", len(vals))]
		for _, s := range shapesOf(v) {
			natUnaryOne(x, s)
		}
		x.Observe(v.BitLen(), v.Bit(0))
	}
}

func natUnaryOne(x *engine.X, s shape) {
	v := s.val
	d := func(op string) func() string { return func() string { return fmt.Sprintf("Nat.%s(%v)", op, s) } }
	chk := func(op string, got, want *big.Int) {
		x.Case("")
		if got.Cmp(want) != 0 {
			failf(x, "nat/"+baseName(op), "Nat.%s(%v) = %s, want %s", op, s, show(got), show(want))
		}
	}
	chkB := func(op string, got ct.Bool, want bool) {
		x.Case("")
		if got != boolTo(want) {
			failf(x, "nat/"+baseName(op), "Nat.%s(%v) = %d, want %v", op, s, got, want)
		}
	}
	// construction (truncation to the announced capacity), Big, Clone, Set, Lift
	guard(x, "nat/construct", d("NewNatFromBig"), func() {
		n := mkNat(s)
		chk("NewNatFromBig", n.Big(), v)
		if n.AnnouncedLen() != s.cap {
			failf(x, "nat/announcedlen", "NewNatFromBig(%v).AnnouncedLen() = %d", s, n.AnnouncedLen())
		}
		if n.TrueLen() != v.BitLen() {
			failf(x, "nat/truelen", "Nat(%v).TrueLen() = %d, want %d", s, n.TrueLen(), v.BitLen())
		}
		chk("Clone", n.Clone().Big(), v)
		o := junkNat()
		o.Set(n)
		chk("Set", o.Big(), v)
		chk("Lift", n.Lift().Big(), v)
		chkB("IsZero", n.IsZero(), v.Sign() == 0)
		chkB("IsNonZero", n.IsNonZero(), v.Sign() != 0)
		chkB("IsOne", n.IsOne(), v.Cmp(bi(1)) == 0)
		chkB("IsOdd", n.IsOdd(), v.Bit(0) == 1)
		chkB("IsEven", n.IsEven(), v.Bit(0) == 0)
		chkB("IsProbablyPrime", n.IsProbablyPrime(), isPrime(v))
		if s.cap <= 64 {
			x.Case("")
			if n.Uint64() != v.Uint64() {
				failf(x, "nat/uint64", "Nat(%v).Uint64() = %d", s, n.Uint64())
			}
		}
	})
	// byte conversions
	guard(x, "nat/bytes", d("Bytes"), func() {
		n := mkNat(s)
		bs := n.Bytes()
		chk("Bytes", new(big.Int).SetBytes(bs), v)
		if len(bs) != (s.cap+7)/8 {
			failf(x, "nat/bytes/len", "Nat(%v).Bytes() has %d bytes for capacity %d", s, len(bs), s.cap)
		}
		if !bytes.Equal(bs, n.BytesBE()) {
			failf(x, "nat/bytes", "Nat(%v): Bytes != BytesBE", s)
		}
		o := junkNat()
		ok := o.SetBytes(bs)
		chkB("SetBytes/ok", ok, true)
		chk("SetBytes", o.Big(), v)
		chk("NewNatFromBytes", numct.NewNatFromBytes(v.Bytes()).Big(), v)
		// leading zero bytes do not change the value
		chk("NewNatFromBytes/padded", numct.NewNatFromBytes(append([]byte{0, 0, 0}, v.Bytes()...)).Big(), v)
		buf := make([]byte, len(bs)+5)
		chk("FillBytes", new(big.Int).SetBytes(n.FillBytes(buf)), v)
		for _, i := range []uint{0, 1, 7, 8, 9, uint(maxInt(v.BitLen()-1, 0)), uint(v.BitLen()), uint(v.BitLen() + 1), uint(s.cap + 70)} {
			x.Case("")
			if got := n.Bit(i); uint(got) != v.Bit(int(i)) {
				failf(x, "nat/bit", "Nat(%v).Bit(%d) = %d, want %d", s, i, got, v.Bit(int(i)))
			}
			wantByte := byte(new(big.Int).And(new(big.Int).Rsh(v, 8*i), bi(255)).Uint64())
			if got := n.Byte(i); got != wantByte {
				failf(x, "nat/byte", "Nat(%v).Byte(%d) = %#x, want %#x", s, i, got, wantByte)
			}
		}
	})
	// SetBit
	for _, i := range []int{0, 1, 63, 64, maxInt(v.BitLen()-1, 0), v.BitLen(), s.cap, s.cap + 1, s.cap + 65} {
		for _, b := range []uint{0, 1} {
			guard(x, "nat/setbit", d("SetBit"), func() {
				n := mkNat(s)
				n.SetBit(i, b)
				want := new(big.Int).SetBit(v, i, b)
				x.Case("")
				if n.Big().Cmp(want) != 0 {
					failf(x, "nat/setbit", "Nat(%v).SetBit(%d,%d) = %s, want %s", s, i, b, show(n.Big()), show(want))
				}
			})
		}
	}
	// arithmetic with one operand
	guard(x, "nat/double", d("Double"), func() {
		n, o := mkNat(s), junkNat()
		o.Double(n)
		chk("Double", o.Big(), new(big.Int).Lsh(v, 1))
		n.Double(n)
		chk("Double/alias", n.Big(), new(big.Int).Lsh(v, 1))
	})
	guard(x, "nat/increment", d("Increment"), func() {
		n := mkNat(s)
		n.Increment()
		chk("Increment", n.Big(), new(big.Int).Add(v, bi(1)))
	})
	guard(x, "nat/decrement", d("Decrement"), func() {
		n := mkNat(s)
		n.Decrement()
		// documented as modular subtraction at capacity max(announced, 1)
		chk("Decrement", n.Big(), mod2k(new(big.Int).Sub(v, bi(1)), maxInt(s.cap, 1)))
	})
	guard(x, "nat/sqrt", d("Sqrt"), func() {
		n, o := mkNat(s), junkNat()
		ok := o.Sqrt(n)
		r := new(big.Int).Sqrt(v)
		perfect := new(big.Int).Mul(r, r).Cmp(v) == 0
		chkB("Sqrt/ok", ok, perfect)
		if perfect {
			chk("Sqrt", o.Big(), r)
		} else {
			chk("Sqrt/unchanged", o.Big(), junkBig) // documented: leaves n unchanged
		}
		ok = n.Sqrt(n)
		if perfect {
			chk("Sqrt/alias", n.Big(), r)
		} else {
			chk("Sqrt/alias-unchanged", n.Big(), v)
		}
		_ = ok
	})
	// shifts
	shifts := []uint{0, 1, 7, 8, 63, 64, 65, uint(v.BitLen()), uint(s.cap), uint(s.cap + 1), uint(s.cap + 64)}
	for _, sh := range shifts {
		guard(x, "nat/lsh", d(fmt.Sprintf("Lsh(%d)", sh)), func() {
			n, o := mkNat(s), junkNat()
			o.Lsh(n, sh)
			chk("Lsh", o.Big(), new(big.Int).Lsh(v, sh))
			n.Lsh(n, sh)
			chk("Lsh/alias", n.Big(), new(big.Int).Lsh(v, sh))
			full := new(big.Int).Lsh(v, sh)
			for _, c := range []int{-1, full.BitLen(), full.BitLen() + 1, full.BitLen() + 64} { // truncation by LshCap is not documented: not demanded
				n, o = mkNat(s), junkNat()
				o.LshCap(n, sh, c)
				want := full
				if c >= 0 {
					want = mod2k(full, c)
				}
				chk(fmt.Sprintf("LshCap(%d,%d)", sh, c), o.Big(), want)
			}
		})
		guard(x, "nat/rsh", d(fmt.Sprintf("Rsh(%d)", sh)), func() {
			n, o := mkNat(s), junkNat()
			o.Rsh(n, sh)
			chk("Rsh", o.Big(), new(big.Int).Rsh(v, sh))
			n.Rsh(n, sh)
			chk("Rsh/alias", n.Big(), new(big.Int).Rsh(v, sh))
			full := new(big.Int).Rsh(v, sh)
			for _, c := range outCaps(full.BitLen()) {
				n, o = mkNat(s), junkNat()
				o.RshCap(n, sh, c)
				want := full
				if c >= 0 {
					want = mod2k(full, c)
				}
				chk(fmt.Sprintf("RshCap(%d,%d)", sh, c), o.Big(), want)
			}
		})
	}
	// Not: complement within the announced capacity
	guard(x, "nat/not", d("Not"), func() {
		n, o := mkNat(s), junkNat()
		o.Not(n)
		ones := new(big.Int).Sub(pow2(s.cap), bi(1))
		chk("Not", o.Big(), new(big.Int).Xor(v, ones))
		for _, c := range []int{-1, s.cap, s.cap + 1, s.cap + 64} {
			n, o = mkNat(s), junkNat()
			o.NotCap(n, c)
			ec := c
			if c < 0 {
				ec = s.cap
			}
			chk(fmt.Sprintf("NotCap(%d)", c), o.Big(), new(big.Int).Xor(v, new(big.Int).Sub(pow2(ec), bi(1))))
		}
	})
	// Resize, Select, CondAssign
	guard(x, "nat/resize", d("Resize"), func() {
		for _, c := range []int{-1, 0, 1, v.BitLen() - 1, v.BitLen(), v.BitLen() + 1, s.cap + 64} {
			if c < -1 {
				continue
			}
			n := mkNat(s)
			n.Resize(c)
			want := v
			if c >= 0 {
				want = mod2k(v, c)
			}
			chk(fmt.Sprintf("Resize(%d)", c), n.Big(), want)
		}
		for _, choice := range []ct.Choice{0, 1} {
			n, o := mkNat(s), junkNat()
			o.CondAssign(choice, n)
			want := junkBig
			if choice == 1 {
				want = v
			}
			chk(fmt.Sprintf("CondAssign(%d)", choice), o.Big(), want)
			o2 := new(numct.Nat)
			o2.Select(choice, junkNat(), n)
			chk(fmt.Sprintf("Select(%d)", choice), o2.Big(), want)
			n2 := mkNat(s)
			n2.Select(choice, n2, junkNat()) // out aliases x0
			want2 := v
			if choice == 1 {
				want2 = junkBig
			}
			chk(fmt.Sprintf("Select/alias(%d)", choice), n2.Big(), want2)
		}
	})
	// modulus construction from this value
	guard(x, "nat/newmodulus", d("NewModulus"), func() {
		m, ok := numct.NewModulus(mkNat(s))
		chkB("NewModulus/ok", ok, v.Sign() != 0)
		if ok == ct.True {
			chk("Modulus.Big", m.Big(), v)
			chk("Modulus.Nat", m.Nat().Big(), v)
			chk("Modulus.Bytes", new(big.Int).SetBytes(m.Bytes()), v)
			x.Case("")
			if m.BitLen() != v.BitLen() {
				failf(x, "modulus/bitlen", "NewModulus(%v).BitLen() = %d, want %d", s, m.BitLen(), v.BitLen())
			}
			m2, ok2 := numct.NewModulusFromBytesBE(v.Bytes())
			if ok2 != ct.True || m2.Big().Cmp(v) != 0 {
				failf(x, "modulus/frombytes", "NewModulusFromBytesBE(%s) = %v ok=%d", show(v), m2, ok2)
			}
		}
	})
}
