package c16

// Fixed Paillier key material (deterministic runs; keys are built from given primes with znstar.NewPaillierGroup).
//
// Rule that produced each prime (reproducible, math/big only): start = first bits/8 bytes of the SHA-256 counter
// stream SHA256("verif/C16/<flavour>/<primebits>/<p|q>/<i>"), i = 0,1,…, with the two top bits and the low bit
// set; step by 2 until the candidate is prime and has the flavour:
//   general: p ≡ 1 (mod 4)                       (so N is not a Blum integer)
//   blum   : p ≡ 3 (mod 4) and (p-1)/2 composite (Blum but not safe)
//   safe   : p and (p-1)/2 both prime
// Every entry is re-verified at start-up (primality, flavour, equal length, N of exactly `bits` bits).

type primePair struct {
	flavour string
	bits    int // bit length of N
	p, q    string
}

var primeTable = []primePair{
	{"general", 256, "e853066fabb6016213a9d2479d67268d", "ccf6457edc767d8d408de7ca72d6eb59"},
	{"blum", 256, "f8173cc99375c5440d3a99306fba41c7", "ef9be0964d990eae00d42347eb96c4fb"},
	{"safe", 256, "cb8083038d060dc51cd59c13f384a527", "d094e884b524cc850c95435a8b5cb7b7"},
	{"general", 512, "cfec07d5d1d13c5584798f6b0e51d9f5a38e1752c23d56ad8a4ca35b999baab1", "ccc9616ba1d4bd5a282df6d27564021c0b7f58c5b7943f394a8f16de0db016b5"},
	{"blum", 512, "ffcb7e5e88815bd60d924d335b31e956960f0aba19ac14257ced8a8299cc7473", "dc9d386832ee38fe4c6b383369c4ef19f559823ea0a051f63ecdf87b041c9f77"},
	{"safe", 512, "e9061daf0f3e5e4ab81120532317186c7d3b71058d1966cf2d54996f324c2a0b", "da60905ff4704f77c1168f60733a463a51f05330b615a80a88116fd4939e0f6f"},
	{"general", 1024, "f3c27f5f81cc7a2e7b09490bc24c39c65bc7bd4b385ceece03ca21df9e0fbaf279ce76ca1644dce3e0521d6ab155927ac8a60c32c380ed17202de1863e63925d", "dbea8ba220bb059acebf2eb97b5578adb356dded63cc28347820470cddfe8ea7c8517b70a0f1f6ad70d93bd3d0dd1e2487e69abbcdbb517abb304aaba6b93af5"},
	{"blum", 1024, "c9a7805d8f6f8dd45579d53951c7fdc244b724115fdc8f9fbbb8c597e6e20e05fb4cba3ba02020af174fbe67ba8176ead146d9292e19451ecc11d45a1c7f8a4f", "ec14b7fc99d11e57d6abde1e682c1e680675dbbfac2f3d0816ed08b2ac17fa3f7db2d2a2ab6b20b08f3fb6f0f5df3d0e3315b4468c0ac9d5d29672b4a33da4fb"},
	{"safe", 1024, "cbd52779089b88a6e255518df2db6f4e8dba6c38f70bf8d24a3a86b26c4728562152e87bca86fdd0c9aae71a91d219bd2a41ae7b915ff9afaa42db62f1ff733f", "e7ffceb9de5dca6f9cc539008af79de5d0afca26a214d1346ad25d45bf9e64fdfe7315f2a0338871c0a490f95045b2331a79cdce378a5688601313dd089571a3"},
	{"general", 2048, "c74bbbb6780ad6c73f5da694c8341ac20efbf8fcfe91e7a4218cd5d20b955915cf702ba023aabd8301a00dc5a4684cf68a8199701856950cb520b9a94302a0911043bf30091ed37dc563b243fb7c9e1e0591a3a0e3b744b0fe2949b32a0d6d8f141dbc69aff848145da4c0e77afe103c59e3306561411b43a51988a7a42571ed", "d212fef572bc00b089328ece4acb9a539a1ffad4577162316853579d280e240928fd976c1860f73404f12a21902e1ae0e9357d71414ef5e9a15158541105bb5b778db9cc861389dd05f209f60f17573e7e3bbc6d3e86bfe9efef0f92225ea6a53d12ea95126605921eed0199cca7a57b035d52d3df6a27d8d1ff790de76ac949"},
	{"blum", 2048, "d90396b00176ed9a1cbafd9f7b7f774958a57009a844c0ab4063ea671964d176d3e142aa41afe6878d4f8d5edd3de0c66d7a4a8b1ca4408f4ae25ef82801bfbc4d6a63db2c6fd4e84bdf14ea58a52a910b141ae6a14228aebe6955492cf19f9376d32e917bfb85852e0fccfcbd47bfc14a19dd4076aa6a1b6011f0c1b8d0f837", "e0ba2d77dbca39170442eed71b833acfb157bd23996ace4c743381ccce20f6d31e8be513243a515373083ce79654e5ebe85b2b3cbe01312f3c57f7d5030a568dbb4cfd9b4ffe01682dd171f053e5b0d695081d651a5f76a90f7e19f36ece9d1ed2f1753a5a14247a7946346c675b14796d202fe2d8aa7cea6bc2942e48e54d5f"},
	{"safe", 2048, "c7d33dfaf21f61b9c6bad5915bc4a5e04af5829b77e01957618f43bcba7af604e8a19763fadcbf949f7a7139448c1b62ba77d487fd0d09dda3680530b8f4b5e3e44b66ecbca59b4c5a5506eebc631a6eeca8e4cb8bbf8ed9966021c2714f7175b090f080e8762d20153c23272d360bff5a718769a654189c122f238726df99b3", "fd7e39aeb796be92a1eda69e5eff2314ee8761db394acf7a2d696d0a92b2e5d822a7b425bb7b29339257befa44a08debc41da6c17dbf1620ba9d791969b5e707377cc39583929d5ca29c6935af8ce93ddd77569ce01eb6dfebb739c5f56de88e5a5dbcc5467bc5dafc8cae6657bbf004e9af2f6939338f847e75e29c3016665b"},
}
