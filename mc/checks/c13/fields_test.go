package c13

import (
	"bytes"
	"fmt"
	"math/big"

	"github.com/bronlabs/bron-crypto/pkg/base/curves/edwards25519"
	"github.com/bronlabs/bron-crypto/pkg/base/curves/k256"
	"github.com/bronlabs/bron-crypto/pkg/base/curves/p256"
	"github.com/bronlabs/bron-crypto/pkg/base/curves/pairable/bls12381"
	"github.com/bronlabs/bron-crypto/pkg/base/curves/pasta"

	"verifmc/engine"
	refcbor "verifmc/ref/cbor"
	"verifmc/ref/curve"
)

// fcodec binds one library field (scalar field or coordinate field) to its order. An element of an extension field is
// deg components of size bytes each, big-endian, c0 first.
type fcodec[E interface{ Bytes() []byte }] struct {
	name       string
	q          *big.Int // characteristic (typed in with the reference curves)
	size       int      // bytes per component
	deg        int
	wide       int // WideElementSize (0: none)
	fromBytes  func([]byte) (E, error)
	fromWide   func([]byte) (E, error)
	fromReduce func([]byte) (E, error) // FromBytesBEReduce (nil: none)
	fromClamp  func([]byte) (E, error) // FromClampedBytes (nil: none)
	newE       func() E
}

func (f *fcodec[E]) key(format, what string) string { return f.name + "/" + format + "/" + what }

func revBytes(b []byte) []byte {
	r := make([]byte, len(b))
	for i := range b {
		r[len(b)-1-i] = b[i]
	}
	return r
}

// canon is the expected canonical encoding of the element denoted by a big-endian string of deg*size bytes.
func (f *fcodec[E]) canon(d []byte) []byte {
	var out []byte
	for i := 0; i < f.deg; i++ {
		out = append(out, beBytes(mod(beInt(d[i*f.size:(i+1)*f.size]), f.q), f.size)...)
	}
	return out
}

func (f *fcodec[E]) valueAlphabet() []dinput {
	q := f.q
	vals := []named{{"0", bi(0)}, {"1", bi(1)}, {"2", bi(2)}, {"q-2", sub(q, bi(2))}, {"q-1", sub(q, bi(1))}, {"q", q}, {"q+1", add(q, bi(1))},
		{"2q-1", sub(new(big.Int).Lsh(q, 1), bi(1))}, {"2q", new(big.Int).Lsh(q, 1)},
		{"2^(8n-1)", new(big.Int).Lsh(bi(1), uint(8*f.size-1))}, {"2^(8n-1)-1", pow2m1(8*f.size - 1)}, {"2^(8n)-1", pow2m1(8 * f.size)}}
	var comp []named
	seen := map[string]bool{}
	for _, v := range vals {
		if v.v.BitLen() <= 8*f.size && !seen[v.v.Text(16)] {
			seen[v.v.Text(16)] = true
			comp = append(comp, v)
		}
	}
	var out []dinput
	if f.deg == 1 {
		for _, v := range comp {
			out = append(out, dinput{v.n, beBytes(v.v, f.size)})
		}
		return out
	}
	for _, a := range comp {
		for _, b := range comp {
			out = append(out, dinput{"(" + a.n + "," + b.n + ")", cat(beBytes(a.v, f.size), beBytes(b.v, f.size))})
		}
	}
	return out
}

type fwrap[E any] struct {
	name string
	enc  func(E) ([]byte, error)
	wrap func(be []byte) []byte // wrapper form of a big-endian string
	dec  func([]byte) (E, error)
}

func (f *fcodec[E]) wrappers() []fwrap[E] {
	var out []fwrap[E]
	type bm interface{ MarshalBinary() ([]byte, error) }
	type bu interface{ UnmarshalBinary([]byte) error }
	type cm interface{ MarshalCBOR() ([]byte, error) }
	type cu interface{ UnmarshalCBOR([]byte) error }
	if _, ok := any(f.newE()).(bu); ok {
		out = append(out, fwrap[E]{name: "binary",
			enc:  func(e E) ([]byte, error) { return any(e).(bm).MarshalBinary() },
			wrap: revBytes, // little-endian, most significant component first = the reversed big-endian string
			dec: func(b []byte) (E, error) {
				e := f.newE()
				if err := any(e).(bu).UnmarshalBinary(b); err != nil {
					var z E
					return z, err
				}
				return e, nil
			}})
	}
	if _, ok := any(f.newE()).(cu); ok {
		one, err := f.fromBytes(f.canon(make([]byte, f.deg*f.size)))
		if err != nil {
			panic(engine.HarnessError{Msg: f.name + ": FromBytes(0): " + err.Error()})
		}
		tmpl, err := any(one).(cm).MarshalCBOR()
		if err != nil {
			panic(engine.HarnessError{Msg: f.name + ": MarshalCBOR: " + err.Error()})
		}
		root, err := refcbor.Parse(tmpl)
		if err != nil || root.Kind != refcbor.Map || len(root.Items) != 2 || root.Items[1].Kind != refcbor.Bytes {
			panic(engine.HarnessError{Msg: fmt.Sprintf("%s: CBOR form is not a one-entry map: %x", f.name, tmpl)})
		}
		keyNode := root.Items[0]
		out = append(out, fwrap[E]{name: "cbor",
			enc: func(e E) ([]byte, error) { return any(e).(cm).MarshalCBOR() },
			wrap: func(be []byte) []byte {
				return refcbor.Encode(&refcbor.Node{Kind: refcbor.Map, Items: []*refcbor.Node{keyNode, {Kind: refcbor.Bytes, Data: append([]byte{}, be...)}}})
			},
			dec: func(b []byte) (E, error) {
				e := f.newE()
				if err := any(e).(cu).UnmarshalCBOR(b); err != nil {
					var z E
					return z, err
				}
				return e, nil
			}})
	}
	return out
}

func (f *fcodec[E]) suite() *suite {
	return &suite{name: f.name, build: func() []task {
		var ts []task
		n := f.deg * f.size
		vals := f.valueAlphabet()
		wr := f.wrappers()
		// FromBytes and wrappers on the value alphabet: accepted => element == bytes mod q; round trip; injectivity
		ts = append(ts, task{name: "values", run: func(x *engine.X) {
			var st stats
			encs := map[string]string{}
			for _, in := range vals {
				want := f.canon(in.data)
				x.Case(f.key("frombytes", in.label))
				e, err, pan := safe(func() (E, error) { return f.fromBytes(in.data) })
				tally(f.name+"/frombytes", err == nil && pan == nil)
				switch {
				case pan != nil:
					failf(x, f.key("frombytes", "panic"), "%s FromBytes panicked on %s = %s: %v", f.name, in.label, hex(in.data), pan)
					continue
				case err != nil:
					st.rej++
					if bytes.Equal(in.data, want) {
						failf(x, f.key("frombytes", "rejects-canonical"), "%s FromBytes rejects the canonical encoding %s = %s: %v", f.name, in.label, hex(in.data), err)
					}
				default:
					st.acc++
					got := e.Bytes()
					if !bytes.Equal(got, want) {
						failf(x, f.key("frombytes", "value"), "%s FromBytes(%s = %s).Bytes() = %s, expected the bytes reduced modulo the field order: %s", f.name, in.label, hex(in.data), hex(got), hex(want))
						continue
					}
					// encode -> decode
					e2, err := f.fromBytes(got)
					if err != nil || !bytes.Equal(e2.Bytes(), got) {
						failf(x, f.key("frombytes", "roundtrip"), "%s FromBytes(Bytes()) of %s fails: %v", f.name, in.label, err)
					}
					encs[string(got)] = in.label // Bytes() == canonical reduced value (checked above), hence injective on elements
				}
				for _, w := range wr {
					x.Case(f.key(w.name, in.label))
					wd := w.wrap(in.data)
					ew, errw, panw := safe(func() (E, error) { return w.dec(wd) })
					tally(f.name+"/"+w.name, errw == nil && panw == nil)
					if panw != nil {
						failf(x, f.key(w.name, "panic"), "%s %s decoder panicked on %s = %s: %v", f.name, w.name, in.label, hex(wd), panw)
						continue
					}
					if errw != nil {
						if bytes.Equal(in.data, want) {
							failf(x, f.key(w.name, "rejects-canonical"), "%s %s decoder rejects the canonical encoding of %s: %v", f.name, w.name, in.label, errw)
						}
						continue
					}
					if got := ew.Bytes(); !bytes.Equal(got, want) {
						failf(x, f.key(w.name, "value"), "%s %s decoder on %s = %s gives %s, expected %s", f.name, w.name, in.label, hex(wd), hex(got), hex(want))
						continue
					}
					// the wrapper's own encoding carries the canonical bytes and decodes back
					wb, err, pan := safe(func() ([]byte, error) { return w.enc(ew) })
					if pan != nil || err != nil {
						failf(x, f.key(w.name, "encode-error"), "%s %s encoder failed on %s: %v %v", f.name, w.name, in.label, err, pan)
						continue
					}
					if !bytes.Equal(wb, w.wrap(want)) {
						failf(x, f.key(w.name, "encoding-wrong"), "%s %s encoding of %s = %s, expected %s", f.name, w.name, in.label, hex(wb), hex(w.wrap(want)))
						continue
					}
					e3, err := w.dec(wb)
					if err != nil || !bytes.Equal(e3.Bytes(), want) {
						failf(x, f.key(w.name, "roundtrip"), "%s %s round trip of %s fails: %v", f.name, w.name, in.label, err)
					}
				}
			}
			st.observe(x)
			x.Observe("distinct encodings=", len(encs))
		}})
		// lengths 0..2n+1 on the strict decoders
		maxLen := 2*n + 1
		if engine.Thorough() {
			maxLen = 4*n + 1
		}
		lens := func() []dinput {
			var out []dinput
			for l := 0; l <= maxLen; l++ {
				for _, fill := range []byte{0x00, 0x01, 0xff} {
					out = append(out, dinput{fmt.Sprintf("len=%d/fill=%02x", l, fill), bytes.Repeat([]byte{fill}, l)})
				}
			}
			return out
		}()
		ts = append(ts, task{name: "lengths", run: func(x *engine.X) {
			var st stats
			decs := []fwrap[E]{{name: "frombytes", wrap: func(b []byte) []byte { return b }, dec: f.fromBytes}}
			decs = append(decs, wr...)
			for _, in := range lens {
				for _, w := range decs {
					x.Case(f.key(w.name, in.label))
					wd := w.wrap(in.data)
					e, err, pan := safe(func() (E, error) { return w.dec(wd) })
					tally(f.name+"/"+w.name, err == nil && pan == nil)
					if pan != nil {
						failf(x, f.key(w.name, "panic"), "%s %s decoder panicked on %s: %v", f.name, w.name, in.label, pan)
						continue
					}
					if err != nil {
						st.rej++
						continue
					}
					st.acc++
					if len(in.data) != n {
						failf(x, f.key(w.name, "accepts-wrong-length"), "%s %s decoder accepted %d bytes (%s), the element size is %d", f.name, w.name, len(in.data), in.label, n)
						continue
					}
					if got, want := e.Bytes(), f.canon(in.data); !bytes.Equal(got, want) {
						failf(x, f.key(w.name, "value"), "%s %s decoder on %s gives %s, expected %s", f.name, w.name, in.label, hex(got), hex(want))
					}
				}
			}
			st.observe(x)
		}})
		// reducing decoders: any accepted string denotes int(bytes) mod q
		if f.deg == 1 {
			type rd struct {
				name string
				dec  func([]byte) (E, error)
				max  int
			}
			var rds []rd
			if f.fromWide != nil {
				rds = append(rds, rd{"fromwidebytes", f.fromWide, 2*f.wide + 1})
			}
			if f.fromReduce != nil {
				rds = append(rds, rd{"frombytesbereduce", f.fromReduce, 2*f.wide + 1})
			}
			for _, r := range rds {
				var ins []dinput
				for l := 0; l <= r.max; l++ {
					for _, fill := range []byte{0x00, 0x01, 0xff} {
						ins = append(ins, dinput{fmt.Sprintf("len=%d/fill=%02x", l, fill), bytes.Repeat([]byte{fill}, l)})
					}
				}
				for _, l := range []int{f.size, f.wide} {
					for _, v := range []named{{"q", f.q}, {"q-1", sub(f.q, bi(1))}, {"q+1", add(f.q, bi(1))}, {"1", bi(1)},
						{"q*2^(8n)", new(big.Int).Lsh(f.q, uint(8*f.size))}, {"q*2^(8n)+q-1", add(new(big.Int).Lsh(f.q, uint(8*f.size)), sub(f.q, bi(1)))},
						{"2^(8n)", new(big.Int).Lsh(bi(1), uint(8*f.size))}, {"2^(8l)-1", pow2m1(8 * l)}, {"2^(8l-1)", new(big.Int).Lsh(bi(1), uint(8*l-1))}} {
						if v.v.BitLen() <= 8*l {
							ins = append(ins, dinput{fmt.Sprintf("len=%d/%s", l, v.n), beBytes(v.v, l)})
						}
					}
				}
				ts = append(ts, task{name: r.name, run: func(x *engine.X) {
					var st stats
					for _, in := range ins {
						x.Case(f.key(r.name, in.label))
						e, err, pan := safe(func() (E, error) { return r.dec(in.data) })
						tally(f.name+"/"+r.name, err == nil && pan == nil)
						if pan != nil {
							failf(x, f.key(r.name, "panic"), "%s %s panicked on %s: %v", f.name, r.name, in.label, pan)
							continue
						}
						if err != nil {
							st.rej++
							continue
						}
						st.acc++
						want := beBytes(mod(beInt(in.data), f.q), f.size)
						if got := e.Bytes(); !bytes.Equal(got, want) {
							failf(x, f.key(r.name, "value"), "%s %s(%s = %s) = %s, expected the integer reduced modulo the field order: %s", f.name, r.name, in.label, hex(in.data), hex(got), hex(want))
						}
					}
					st.observe(x)
				}})
			}
		}
		if f.fromClamp != nil {
			var ins []dinput
			for _, in := range vals {
				ins = append(ins, dinput{in.label, revBytes(in.data)}) // little-endian input
			}
			for l := 0; l <= 2*n+1; l++ {
				ins = append(ins, dinput{fmt.Sprintf("len=%d/fill=ff", l), bytes.Repeat([]byte{0xff}, l)}, dinput{fmt.Sprintf("len=%d/fill=00", l), make([]byte, l)})
			}
			ts = append(ts, task{name: "fromclampedbytes", run: func(x *engine.X) {
				var st stats
				for _, in := range ins {
					x.Case(f.key("fromclampedbytes", in.label))
					e, err, pan := safe(func() (E, error) { return f.fromClamp(in.data) })
					tally(f.name+"/fromclampedbytes", err == nil && pan == nil)
					if pan != nil {
						failf(x, f.key("fromclampedbytes", "panic"), "%s FromClampedBytes panicked on %s: %v", f.name, in.label, pan)
						continue
					}
					if err != nil {
						st.rej++
						continue
					}
					st.acc++
					if len(in.data) != n {
						failf(x, f.key("fromclampedbytes", "accepts-wrong-length"), "%s FromClampedBytes accepted %d bytes", f.name, len(in.data))
						continue
					}
					want := beBytes(mod(curve.ClampX25519(in.data), f.q), f.size)
					if got := e.Bytes(); !bytes.Equal(got, want) {
						failf(x, f.key("fromclampedbytes", "value"), "%s FromClampedBytes(%s) = %s, expected clamp(bytes) mod q = %s", f.name, hex(in.data), hex(got), hex(want))
					}
				}
				st.observe(x)
			}})
		}
		return ts
	}}
}

type primeFieldAPI[E any] interface {
	FromBytes([]byte) (E, error)
	FromWideBytes([]byte) (E, error)
	ElementSize() int
	WideElementSize() int
}

func primeField[E interface{ Bytes() []byte }](name string, q *big.Int, fld primeFieldAPI[E], newE func() E) *fcodec[E] {
	f := &fcodec[E]{name: name, q: q, size: fld.ElementSize(), deg: 1, wide: fld.WideElementSize(), fromBytes: fld.FromBytes, fromWide: fld.FromWideBytes, newE: newE}
	if r, ok := any(fld).(interface{ FromBytesBEReduce([]byte) (E, error) }); ok {
		f.fromReduce = r.FromBytesBEReduce
	}
	if r, ok := any(fld).(interface{ FromClampedBytes([]byte) (E, error) }); ok {
		f.fromClamp = r.FromClampedBytes
	}
	if (q.BitLen()+7)/8 != f.size {
		panic(engine.HarnessError{Msg: fmt.Sprintf("%s: ElementSize %d does not match the reference order", name, f.size)})
	}
	return f
}

func fieldSuites() []*suite {
	blsP := curve.BLS12381G1().F.Char()
	g2f := bls12381.NewG2BaseField()
	return []*suite{
		primeField("k256/scalar", curve.K256().Q, k256.NewScalarField(), func() *k256.Scalar { return new(k256.Scalar) }).suite(),
		primeField("k256/basefield", curve.K256().F.Char(), k256.NewBaseField(), func() *k256.BaseFieldElement { return new(k256.BaseFieldElement) }).suite(),
		primeField("p256/scalar", curve.P256().Q, p256.NewScalarField(), func() *p256.Scalar { return new(p256.Scalar) }).suite(),
		primeField("p256/basefield", curve.P256().F.Char(), p256.NewBaseField(), func() *p256.BaseFieldElement { return new(p256.BaseFieldElement) }).suite(),
		primeField("edwards25519/scalar", curve.Edwards25519().Q, edwards25519.NewScalarField(), func() *edwards25519.Scalar { return new(edwards25519.Scalar) }).suite(),
		primeField("edwards25519/basefield", curve.Edwards25519().F.Char(), edwards25519.NewBaseField(), func() *edwards25519.BaseFieldElement { return new(edwards25519.BaseFieldElement) }).suite(),
		primeField("pasta/fp", curve.Pallas().F.Char(), pasta.NewPallasBaseField(), func() *pasta.FpFieldElement { return new(pasta.FpFieldElement) }).suite(),
		primeField("pasta/fq", curve.Pallas().Q, pasta.NewPallasScalarField(), func() *pasta.FqFieldElement { return new(pasta.FqFieldElement) }).suite(),
		primeField("bls12381/scalar", curve.BLS12381G1().Q, bls12381.NewScalarField(), func() *bls12381.Scalar { return new(bls12381.Scalar) }).suite(),
		primeField("bls12381/basefieldg1", blsP, bls12381.NewG1BaseField(), func() *bls12381.BaseFieldElementG1 { return new(bls12381.BaseFieldElementG1) }).suite(),
		(&fcodec[*bls12381.BaseFieldElementG2]{name: "bls12381/basefieldg2", q: blsP, size: 48, deg: 2, fromBytes: g2f.FromBytes,
			newE: func() *bls12381.BaseFieldElementG2 { return new(bls12381.BaseFieldElementG2) }}).suite(),
	}
}
