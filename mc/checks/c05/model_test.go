package c05

import (
	"crypto/sha256"
	"encoding/binary"
	"fmt"
	"math/big"

	"github.com/bronlabs/bron-crypto/pkg/mpc/sharing"

	"verifmc/engine"
	"verifmc/ref/linalg"
)

// ---------------------------------------------------------------------------------------------
// reference model (math/big only)
//
// A dealing is described by its column(s) of exponents. Feldman: V_j = [r_j]G, so the "effective exponent" of
// entry j is e_j = r_j. Pedersen: V_j = [rg_j]G + [rh_j]H with H = [h]G for a trapdoor h that the harness knows,
// so e_j = rg_j + h·rh_j. A presented share (s_t, b_t)_t verifies under the claimed holder c iff it has exactly
// one coordinate per row of c and s_t + h·b_t = (M·e)_{row_t(c)} for every t (Feldman: b = 0). Every edit of the
// verification vector used by the check is an edit of e, so the same formula predicts the outcome after the edit.

type model struct {
	q    *big.Int
	h    *big.Int // log_G(H); nil for Feldman
	M    *linalg.Mat
	ids  []sharing.ID // party index -> identifier
	rows [][]int      // party index -> ascending MSP row indices (read out of the library's row labelling)
}

func (m *model) pedersen() bool { return m.h != nil }

// pres is one presented share vector: secret coordinates and (Pedersen) blinding coordinates.
type pres struct {
	sec, bl []*big.Int
	class   string // fault class (stable; part of the finding key)
	desc    string // concrete description for messages
}

func (m *model) eff(s, b *big.Int) *big.Int {
	v := new(big.Int).Set(s)
	if m.h != nil {
		v.Add(v, new(big.Int).Mul(m.h, b))
	}
	return v.Mod(v, m.q)
}

// expect is the oracle: does p verify under claimed party `claim` against a vector whose exponents are e?
func (m *model) expect(e []*big.Int, claim int, p pres) bool {
	if claim < 0 || claim >= len(m.ids) {
		return false // not a shareholder
	}
	if len(e) != m.M.C {
		return false // any length change of the verification data fails for everyone
	}
	rows := m.rows[claim]
	if len(rows) == 0 || len(p.sec) != len(rows) {
		return false // (a party without rows is assigned nothing)
	}
	if m.h != nil && len(p.bl) != len(p.sec) {
		return false
	}
	lam := m.M.Apply(e)
	for t, r := range rows {
		var b *big.Int
		if m.h != nil {
			b = p.bl[t]
		}
		if m.eff(p.sec[t], b).Cmp(lam[r]) != 0 {
			return false
		}
	}
	return true
}

// refDealing is one dealing (or a combination of dealings) in the reference.
type refDealing struct {
	rg, rh  []*big.Int   // the dealer column(s); rh nil for Feldman
	e       []*big.Int   // effective exponents of the verification vector
	sec, bl [][]*big.Int // party index -> share coordinates (λ restricted to the party's rows)
}

func (m *model) deal(rg, rh []*big.Int) *refDealing {
	d := &refDealing{rg: rg, rh: rh}
	lg := m.M.Apply(rg)
	var lh []*big.Int
	if rh != nil {
		lh = m.M.Apply(rh)
	}
	d.e = make([]*big.Int, len(rg))
	for j := range rg {
		var b *big.Int
		if rh != nil {
			b = rh[j]
		}
		d.e[j] = m.eff(rg[j], b)
	}
	d.sec = make([][]*big.Int, len(m.ids))
	d.bl = make([][]*big.Int, len(m.ids))
	for i, rows := range m.rows {
		for _, r := range rows {
			d.sec[i] = append(d.sec[i], lg[r])
			if rh != nil {
				d.bl[i] = append(d.bl[i], lh[r])
			}
		}
	}
	return d
}

func addVec(q *big.Int, a, b []*big.Int) []*big.Int {
	if a == nil || b == nil {
		return nil
	}
	out := make([]*big.Int, len(a))
	for i := range a {
		out[i] = new(big.Int).Add(a[i], b[i])
		out[i].Mod(out[i], q)
	}
	return out
}

// sum is the reference combination of dealings: columns add, hence shares and exponents add.
func (m *model) sum(ds ...*refDealing) *refDealing {
	rg, rh := ds[0].rg, ds[0].rh
	for _, d := range ds[1:] {
		rg = addVec(m.q, rg, d.rg)
		rh = addVec(m.q, rh, d.rh)
	}
	return m.deal(rg, rh)
}

func (d *refDealing) honest(i int) pres {
	return pres{sec: d.sec[i], bl: d.bl[i], class: "honest", desc: "dealt share"}
}

func clone(v []*big.Int) []*big.Int {
	if v == nil {
		return nil
	}
	return append([]*big.Int{}, v...)
}

func addc(q *big.Int, v *big.Int, c int64) *big.Int {
	r := new(big.Int).Add(v, big.NewInt(c))
	return r.Mod(r, q)
}

// shareFaults: every single-coordinate alteration of party i's share of dealing d.
// claims[k] lists the identities (besides the owner's) under which fault k is worth presenting in the quick tier:
// the donor of a copied value, and every holder whose row count equals the new length after drop/append. The
// thorough tier presents every fault under every identity.
func (m *model) shareFaults(d *refDealing, i int) (out []pres, claims [][]int) {
	add := func(extra []int, class, desc string, sec, bl []*big.Int) {
		out = append(out, pres{sec: sec, bl: bl, class: class, desc: desc})
		claims = append(claims, extra)
	}
	sameLen := func(n int) []int {
		var cs []int
		for c := range m.rows {
			if c != i && len(m.rows[c]) == n {
				cs = append(cs, c)
			}
		}
		return cs
	}
	comps := []string{"secret"}
	if m.pedersen() {
		comps = append(comps, "blinding")
	}
	n := len(d.sec[i])
	if n == 0 {
		// a party without rows has no share at all: anything presented under its identity is an alteration
		one := []*big.Int{big.NewInt(1)}
		var bl []*big.Int
		if m.pedersen() {
			bl = []*big.Int{big.NewInt(0)}
		}
		add(nil, "rowless", "one coordinate under a party that owns no row", one, bl)
		return out, claims
	}
	get := func(comp int, k, u int) *big.Int {
		if comp == 0 {
			return d.sec[k][u]
		}
		return d.bl[k][u]
	}
	set := func(comp, t int, v *big.Int) (sec, bl []*big.Int) {
		sec, bl = clone(d.sec[i]), clone(d.bl[i])
		if comp == 0 {
			sec[t] = v
		} else {
			bl[t] = v
		}
		return
	}
	for t := 0; t < n; t++ {
		for ci, cn := range comps {
			cur := get(ci, i, t)
			s, b := set(ci, t, addc(m.q, cur, 1))
			add(nil, "plus1", fmt.Sprintf("%s[%d]+1", cn, t), s, b)
			s, b = set(ci, t, addc(m.q, cur, -1))
			add(nil, "minus1", fmt.Sprintf("%s[%d]-1", cn, t), s, b)
			s, b = set(ci, t, new(big.Int))
			add(nil, "zero", fmt.Sprintf("%s[%d]:=0", cn, t), s, b)
			// := another coordinate's value (of another holder, or of the same holder's other rows)
			for k := range d.sec {
				for u := range d.sec[k] {
					if k == i && u == t {
						continue
					}
					s, b = set(ci, t, get(ci, k, u))
					add([]int{k}, "other", fmt.Sprintf("%s[%d]:=%s of party %d coord %d", cn, t, cn, k, u), s, b)
				}
			}
		}
		if m.pedersen() {
			// := the whole (secret, blinding) pair of another coordinate
			for k := range d.sec {
				for u := range d.sec[k] {
					if k == i && u == t {
						continue
					}
					s, b := clone(d.sec[i]), clone(d.bl[i])
					s[t], b[t] = d.sec[k][u], d.bl[k][u]
					add([]int{k}, "other", fmt.Sprintf("pair[%d]:=pair of party %d coord %d", t, k, u), s, b)
				}
			}
		}
		// drop coordinate t
		s := append(clone(d.sec[i][:t]), d.sec[i][t+1:]...)
		var b []*big.Int
		if m.pedersen() {
			b = append(clone(d.bl[i][:t]), d.bl[i][t+1:]...)
		}
		add(sameLen(n-1), "drop", fmt.Sprintf("drop coordinate %d", t), s, b)
	}
	// append a coordinate
	zero := new(big.Int)
	s0, b0 := append(clone(d.sec[i]), zero), []*big.Int(nil)
	s1, b1 := append(clone(d.sec[i]), d.sec[i][n-1]), []*big.Int(nil)
	if m.pedersen() {
		b0 = append(clone(d.bl[i]), zero)
		b1 = append(clone(d.bl[i]), d.bl[i][n-1])
	}
	add(sameLen(n+1), "append", "append 0", s0, b0)
	add(sameLen(n+1), "append", "append copy of last coordinate", s1, b1)
	if m.pedersen() {
		// lengths of the two components differ (only constructible if the share constructor lets it through)
		add(nil, "mismatch", "secret has an extra 0 coordinate, blinding unchanged", append(clone(d.sec[i]), zero), clone(d.bl[i]))
		if n > 1 {
			add(nil, "mismatch", "blinding lost its last coordinate", clone(d.sec[i]), clone(d.bl[i][:n-1]))
		}
	}
	return out, claims
}

// ---------------------------------------------------------------------------------------------
// verification-vector edits (expressed on exponents here, mirrored on group elements in lib_test.go)

type vvEdit struct {
	kind   string // plusG | minusG | plusH | identity | swap | dropLast | appendIdentity | appendG
	j, k   int
	length bool // changes the length
}

func (e vvEdit) String() string {
	switch e.kind {
	case "swap":
		return fmt.Sprintf("swap(%d,%d)", e.j, e.k)
	case "dropLast", "appendIdentity", "appendG", "dropFirst":
		return e.kind
	}
	return fmt.Sprintf("%s@%d", e.kind, e.j)
}

func (m *model) vvEdits(extended bool) []vvEdit {
	D := m.M.C
	var out []vvEdit
	for j := 0; j < D; j++ {
		out = append(out, vvEdit{kind: "plusG", j: j}, vvEdit{kind: "identity", j: j})
		if m.pedersen() {
			out = append(out, vvEdit{kind: "plusH", j: j})
		}
		if extended {
			out = append(out, vvEdit{kind: "minusG", j: j})
		}
	}
	for j := 0; j < D; j++ {
		for k := j + 1; k < D; k++ {
			out = append(out, vvEdit{kind: "swap", j: j, k: k})
		}
	}
	out = append(out, vvEdit{kind: "dropLast", length: true}, vvEdit{kind: "appendIdentity", length: true}, vvEdit{kind: "appendG", length: true})
	if extended {
		out = append(out, vvEdit{kind: "dropFirst", length: true})
	}
	return out
}

// applyExp mirrors the edit on the exponent vector.
func (m *model) applyExp(e []*big.Int, ed vvEdit) []*big.Int {
	out := clone(e)
	switch ed.kind {
	case "plusG":
		out[ed.j] = addc(m.q, out[ed.j], 1)
	case "minusG":
		out[ed.j] = addc(m.q, out[ed.j], -1)
	case "plusH":
		out[ed.j] = m.eff(out[ed.j], big.NewInt(1))
	case "identity":
		out[ed.j] = new(big.Int)
	case "swap":
		out[ed.j], out[ed.k] = out[ed.k], out[ed.j]
	case "dropLast":
		out = out[:len(out)-1]
	case "dropFirst":
		out = out[1:]
	case "appendIdentity":
		out = append(out, new(big.Int))
	case "appendG":
		out = append(out, big.NewInt(1))
	default:
		panic(engine.HarnessError{Msg: "unknown edit " + ed.kind})
	}
	return out
}

// colSupport reports whether party i has a non-zero entry in column j of one of its rows.
func (m *model) colSupport(i, j int) bool {
	for _, r := range m.rows[i] {
		if m.M.A[r][j].Sign() != 0 {
			return true
		}
	}
	return false
}

// ---------------------------------------------------------------------------------------------
// deterministic streams and residues

type stream struct {
	seed [32]byte
	ctr  uint64
	buf  []byte
}

func newStream(label string) *stream {
	return &stream{seed: sha256.Sum256([]byte(fmt.Sprintf("C05/stream/%d/%s", engine.Seed(), label)))}
}

func (s *stream) Read(p []byte) (int, error) {
	n := 0
	for n < len(p) {
		if len(s.buf) == 0 {
			var b [40]byte
			copy(b[:], s.seed[:])
			binary.BigEndian.PutUint64(b[32:], s.ctr)
			s.ctr++
			h := sha256.Sum256(b[:])
			s.buf = h[:]
		}
		k := copy(p[n:], s.buf)
		s.buf = s.buf[k:]
		n += k
	}
	return n, nil
}

// seeded derives a pseudo-random residue mod q from a label.
func seeded(q *big.Int, label string) *big.Int {
	h1 := sha256.Sum256([]byte(fmt.Sprintf("C05/val/%d/%s/a", engine.Seed(), label)))
	h2 := sha256.Sum256([]byte(fmt.Sprintf("C05/val/%d/%s/b", engine.Seed(), label)))
	v := new(big.Int).SetBytes(append(h1[:], h2[:]...))
	return v.Mod(v, q)
}
