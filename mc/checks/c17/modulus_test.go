package c17

import (
	"fmt"
	"math/big"

	"github.com/bronlabs/bron-crypto/pkg/base/ct"
	"github.com/bronlabs/bron-crypto/pkg/base/nt/numct"

	"verifmc/engine"
)

func mkModulus(m *big.Int) *numct.Modulus {
	mod, ok := numct.NewModulus(numct.NewNatFromBig(m, m.BitLen()))
	if ok != ct.True {
		panic(engine.HarnessError{Msg: "NewModulus refused " + m.String()})
	}
	return mod
}

// outputs of Modulus operations start in one of these states
const (
	preFresh  = iota // new(Nat)
	preJunk          // unrelated value and capacity
	preTagged        // the previous result of a reduction by ANOTHER modulus (7): a scratch variable being reused
	preCount
)

var preNames = []string{"out=fresh", "out=junk", "out=previous result mod 7"}

var tagModulus = bi(7)

func preOut(pre int, tagMod *numct.Modulus) *numct.Nat {
	switch pre {
	case preTagged:
		o := new(numct.Nat)
		tagMod.Mod(o, numct.NewNat(12)) // 5, carries saferith's "reduced modulo 7" tag
		return o
	case preFresh:
		return new(numct.Nat)
	}
	return junkNat()
}

// checkResidue verifies out == want, out < m, and that the value behaves as that number when it is reduced by the
// other modulus afterwards (detects stale internal "already reduced" tags).
func checkResidue(x *engine.X, key string, desc func() string, out *numct.Nat, want, m *big.Int, tagMod *numct.Modulus) {
	got := out.Big()
	if got.Cmp(want) != 0 {
		failf(x, key, "%s = %s, want %s", desc(), show(got), show(want))
		return
	}
	var z numct.Nat
	tagMod.Mod(&z, out)
	if w := new(big.Int).Mod(want, tagModulus); z.Big().Cmp(w) != 0 {
		k := "modulus/stale-reduced-tag"
		if key == evenReusedKey {
			k = key
		}
		failf(x, k, "%s: result %s is correct, but reducing that result modulo 7 afterwards gives %s instead of %s", desc(), show(got), show(z.Big()), show(w))
	}
}

// evenReusedKey is the class of defects of the even-modulus code paths of ModInv / ModExp / ModExpI, which store their
// result with saferith's SetBig into the caller's output: SetBig neither clears limbs above the new value nor the
// "already reduced" tag, so an output that held something before ends up with a wrong value or a stale tag.
const evenReusedKey = "modulus/even-modulus/reused-output"

func evenKey(key string, mv *big.Int, fresh bool) string {
	if mv.Bit(0) == 0 && !fresh {
		return evenReusedKey
	}
	return key
}

func modulusBody() func(*engine.X) {
	M := moduliV()
	V := natV()
	E := natVsmall()
	return func(x *engine.X) {
		mv := M[x.Choose("m", len(M))]
		group := x.Choose("group", 3)
		m := mkModulus(mv)
		tagMod := mkModulus(tagModulus)
		one := bi(1)
		switch group {
		case 0: // one residue operand
			for _, xv := range V {
				for _, sx := range shapesOf(xv) {
					modulusUnary(x, m, mv, tagMod, sx)
				}
			}
			for _, xv := range intV() {
				modulusSigned(x, m, mv, tagMod, xv)
			}
		case 1: // two operands
			for _, xv := range V {
				for _, yv := range V {
					modulusBinary(x, m, mv, tagMod, exactShape(xv), exactShape(yv), xv.Cmp(yv) == 0)
				}
			}
			// padded / truncated operand shapes against a reduced second-operand alphabet
			for _, xv := range V {
				for _, sx := range shapesOf(xv)[1:] {
					for _, yv := range E {
						modulusBinary(x, m, mv, tagMod, sx, exactShape(yv), false)
						modulusBinary(x, m, mv, tagMod, exactShape(yv), sx, false)
					}
				}
			}
		case 2: // exponentiation: base in V, exponent in the reduced alphabet (and its negatives for ModExpI)
			for _, bv := range V {
				unit := new(big.Int).GCD(nil, nil, bv, mv).Cmp(one) == 0
				for _, ev := range E {
					for pre := 0; pre < preCount; pre++ {
						for al := 0; al < 3; al++ { // distinct, out=base, out=exp
							b, e := numct.NewNatFromBig(bv, bv.BitLen()), numct.NewNatFromBig(ev, ev.BitLen())
							out := preOut(pre, tagMod)
							if al == 1 {
								out = b
							} else if al == 2 {
								out = e
							}
							if al != 0 && pre != 0 {
								continue
							}
							desc := func() string {
								return fmt.Sprintf("Modulus(%s).ModExp(base=%s, exp=%s, %s, alias=%d)", show(mv), show(bv), show(ev), preNames[pre], al)
							}
							x.Case("")
							k := evenKey("modulus/modexp", mv, al == 0 && pre == preFresh)
							if guard(x, k, desc, func() { m.ModExp(out, b, e) }) {
								checkResidue(x, k, desc, out, new(big.Int).Exp(bv, ev, mv), mv, tagMod)
							}
						}
						// signed exponent
						for _, neg := range []bool{false, true} {
							if neg && (!unit || ev.Sign() == 0 || mv.Cmp(one) == 0) {
								continue // a negative power of a non-unit is not defined
							}
							se := new(big.Int).Set(ev)
							if neg {
								se.Neg(se)
							}
							b, e := numct.NewNatFromBig(bv, bv.BitLen()), numct.NewIntFromBig(se, ev.BitLen())
							out := preOut(pre, tagMod)
							desc := func() string {
								return fmt.Sprintf("Modulus(%s).ModExpI(base=%s, exp=%s, %s)", show(mv), show(bv), show(se), preNames[pre])
							}
							x.Case("")
							k := evenKey("modulus/modexpi", mv, pre == preFresh)
							if guard(x, k, desc, func() { m.ModExpI(out, b, e) }) {
								checkResidue(x, k, desc, out, new(big.Int).Exp(bv, se, mv), mv, tagMod)
							}
						}
					}
				}
			}
			// ModMultiBaseExp
			for _, ev := range E {
				for pre := 0; pre < 2; pre++ {
					bases := make([]*numct.Nat, 0, len(E))
					outs := make([]*numct.Nat, 0, len(E))
					for _, bv := range E {
						bases = append(bases, numct.NewNatFromBig(bv, bv.BitLen()))
						outs = append(outs, preOut(pre, tagMod))
					}
					e := numct.NewNatFromBig(ev, ev.BitLen())
					desc := func() string {
						return fmt.Sprintf("Modulus(%s).ModMultiBaseExp(exp=%s, %s)", show(mv), show(ev), preNames[pre])
					}
					x.Case("")
					k := evenKey("modulus/multibaseexp", mv, pre == preFresh)
					if guard(x, k, desc, func() { m.ModMultiBaseExp(outs, bases, e) }) {
						for i, bv := range E {
							if w := new(big.Int).Exp(bv, ev, mv); outs[i].Big().Cmp(w) != 0 {
								failf(x, k, "%s: base %s gives %s, want %s", desc(), show(bv), show(outs[i].Big()), show(w))
							}
						}
					}
				}
			}
		}
		x.Observe(group, mv.BitLen(), mv.Bit(0), isPrime(mv))
	}
}

func modulusUnary(x *engine.X, m *numct.Modulus, mv *big.Int, tagMod *numct.Modulus, sx shape) {
	xv := sx.val
	one := bi(1)
	red := new(big.Int).Mod(xv, mv)
	type uop struct {
		name string
		call func(out, a *numct.Nat)
		want *big.Int
	}
	ops := []uop{
		{"Mod", func(o, a *numct.Nat) { m.Mod(o, a) }, red},
		{"ModNeg", func(o, a *numct.Nat) { m.ModNeg(o, a) }, new(big.Int).Mod(new(big.Int).Neg(xv), mv)},
	}
	for _, op := range ops {
		for pre := 0; pre < preCount; pre++ {
			for al := 0; al < 2; al++ {
				if al == 1 && pre != 0 {
					continue
				}
				a := mkNat(sx)
				out := preOut(pre, tagMod)
				if al == 1 {
					out = a
				}
				desc := func() string {
					return fmt.Sprintf("Modulus(%s).%s(%v, %s, out=x:%v)", show(mv), op.name, sx, preNames[pre], al == 1)
				}
				x.Case("")
				if guard(x, "modulus/"+op.name, desc, func() { op.call(out, a) }) {
					checkResidue(x, "modulus/"+op.name, desc, out, op.want, mv, tagMod)
					if al == 0 && a.Big().Cmp(xv) != 0 {
						failf(x, "modulus/"+op.name+"/mutated-input", "%s: operand changed to %s", desc(), show(a.Big()))
					}
				}
			}
		}
	}
	// Quo: floor(x / m)
	{
		wq := new(big.Int).Div(xv, mv)
		for al := 0; al < 2; al++ {
			a := mkNat(sx)
			out := junkNat()
			if al == 1 {
				out = a
			}
			desc := func() string { return fmt.Sprintf("Modulus(%s).Quo(%v, out=x:%v)", show(mv), sx, al == 1) }
			x.Case("")
			if guard(x, "modulus/quo", desc, func() { m.Quo(out, a) }) {
				if got := out.Big(); got.Cmp(wq) != 0 {
					key := "modulus/quo"
					if wq.BitLen() > mv.BitLen() && got.Cmp(mod2k(wq, mv.BitLen())) == 0 {
						key = "modulus/quo/truncated-quotient" // quotient cut to BitLen(m) bits
					}
					failf(x, key, "%s = %s, want %s", desc(), show(got), show(wq))
				}
			}
		}
	}
	// ModInv: ok exactly for units; value is the inverse (modulus 1 is the zero ring: no statement)
	if mv.Cmp(one) != 0 {
		g := new(big.Int).GCD(nil, nil, xv, mv)
		unit := g.Cmp(one) == 0
		for pre := 0; pre < preCount; pre++ {
			for al := 0; al < 2; al++ {
				if al == 1 && pre != 0 {
					continue
				}
				a := mkNat(sx)
				out := preOut(pre, tagMod)
				if al == 1 {
					out = a
				}
				desc := func() string {
					return fmt.Sprintf("Modulus(%s).ModInv(%v, %s, out=x:%v)", show(mv), sx, preNames[pre], al == 1)
				}
				x.Case("")
				var ok ct.Bool
				k := evenKey("modulus/modinv", mv, al == 0 && pre == preFresh)
				if !guard(x, k, desc, func() { ok = m.ModInv(out, a) }) {
					continue
				}
				if (ok == ct.True) != unit {
					ek := "modulus/modinv/existence"
					if al == 1 && mv.Bit(0) == 1 {
						// the odd-modulus path verifies out*x == 1 after out (== x) has been overwritten
						ek = "modulus/modinv/alias-out=x"
					}
					failf(x, ek, "%s: ok=%d but gcd(x,m)=%s", desc(), ok, show(g))
					continue
				}
				if unit {
					checkResidue(x, k, desc, out, new(big.Int).ModInverse(xv, mv), mv, tagMod)
				}
			}
		}
		a := mkNat(sx)
		x.Case("")
		if got := m.IsUnit(a); (got == ct.True) != unit {
			failf(x, "modulus/isunit", "Modulus(%s).IsUnit(%v) = %d but gcd = %s", show(mv), sx, got, show(g))
		}
	}
	a := mkNat(sx)
	x.Case("")
	if got := m.IsInRange(a); (got == ct.True) != (xv.Cmp(mv) < 0) {
		failf(x, "modulus/isinrange", "Modulus(%s).IsInRange(%v) = %d", show(mv), sx, got)
	}
	// ModSymmetric: representative in [-m/2, m/2)
	{
		w := new(big.Int).Set(red)
		if new(big.Int).Lsh(red, 1).Cmp(mv) >= 0 {
			w.Sub(w, mv)
		}
		out := junkInt()
		desc := func() string { return fmt.Sprintf("Modulus(%s).ModSymmetric(%v)", show(mv), sx) }
		x.Case("")
		if guard(x, "modulus/modsymmetric", desc, func() { m.ModSymmetric(out, a) }) {
			chkInt(x, "modulus/modsymmetric", desc, out, w)
		}
	}
	// square root of x^2 exists; a returned root of x squares back (all moduli; completeness only for primes, in the modsqrt section)
	if mv.Bit(0) == 1 || !isPrime(mv) {
		sq := new(big.Int).Mul(xv, xv)
		for _, arg := range []*big.Int{xv, sq} {
			out := junkNat()
			desc := func() string { return fmt.Sprintf("Modulus(%s).ModSqrt(%s)", show(mv), show(arg)) }
			x.Case("")
			var ok ct.Bool
			if !guard(x, "modulus/modsqrt", desc, func() { ok = m.ModSqrt(out, numct.NewNatFromBig(arg, arg.BitLen())) }) {
				continue
			}
			if ok == ct.True {
				r := out.Big()
				if r.Cmp(mv) >= 0 || new(big.Int).Mod(new(big.Int).Mul(r, r), mv).Cmp(new(big.Int).Mod(arg, mv)) != 0 {
					failf(x, "modulus/modsqrt/not-a-root", "%s returned %s which does not square back", desc(), show(r))
				}
			} else if isPrime(mv) && arg == sq {
				failf(x, "modulus/modsqrt/missed-residue", "%s: no root returned for a square modulo a prime", desc())
			}
		}
	}
}

func modulusSigned(x *engine.X, m *numct.Modulus, mv *big.Int, tagMod *numct.Modulus, xv *big.Int) {
	for _, s := range intShapesOf(xv) {
		for pre := 0; pre < preCount; pre++ {
			a := mkInt(s)
			out := preOut(pre, tagMod)
			desc := func() string { return fmt.Sprintf("Modulus(%s).ModI(%v, %s)", show(mv), s, preNames[pre]) }
			x.Case("")
			if guard(x, "modulus/modi", desc, func() { m.ModI(out, a) }) {
				checkResidue(x, "modulus/modi", desc, out, new(big.Int).Mod(s.val, mv), mv, tagMod)
			}
		}
		a := mkInt(s)
		two := new(big.Int).Lsh(s.val, 1)
		want := two.Cmp(new(big.Int).Neg(mv)) >= 0 && two.Cmp(mv) < 0
		x.Case("")
		var got ct.Bool
		if guard(x, "modulus/isinrangesymmetric", func() string { return fmt.Sprintf("Modulus(%s).IsInRangeSymmetric(%v)", show(mv), s) }, func() { got = m.IsInRangeSymmetric(a) }) {
			if (got == ct.True) != want {
				failf(x, "modulus/isinrangesymmetric", "Modulus(%s).IsInRangeSymmetric(%v) = %d, want %v", show(mv), s, got, want)
			}
		}
	}
}

func modulusBinary(x *engine.X, m *numct.Modulus, mv *big.Int, tagMod *numct.Modulus, sx, sy shape, same bool) {
	xv, yv := sx.val, sy.val
	one := bi(1)
	type bop struct {
		name string
		call func(out, a, b *numct.Nat)
		want *big.Int
	}
	ops := []bop{
		{"ModAdd", func(o, a, b *numct.Nat) { m.ModAdd(o, a, b) }, new(big.Int).Mod(new(big.Int).Add(xv, yv), mv)},
		{"ModSub", func(o, a, b *numct.Nat) { m.ModSub(o, a, b) }, new(big.Int).Mod(new(big.Int).Sub(xv, yv), mv)},
		{"ModMul", func(o, a, b *numct.Nat) { m.ModMul(o, a, b) }, new(big.Int).Mod(new(big.Int).Mul(xv, yv), mv)},
	}
	full := sx.kind == "exact" && sy.kind == "exact"
	for _, op := range ops {
		for pre := 0; pre < preCount; pre++ {
			for al := 0; al < alCount; al++ {
				if (al == alLR || al == alAll) && !same {
					continue
				}
				if al != alDistinct && (pre != 0 || !full) {
					continue
				}
				a, b := mkNat(sx), mkNat(sy)
				if al == alLR || al == alAll {
					b = a
				}
				out := preOut(pre, tagMod)
				switch al {
				case alOutL, alAll:
					out = a
				case alOutR:
					out = b
				}
				desc := func() string {
					return fmt.Sprintf("Modulus(%s).%s(%v, %v, %s, alias=%s)", show(mv), op.name, sx, sy, preNames[pre], aliasNames[al])
				}
				x.Case("")
				if guard(x, "modulus/"+op.name, desc, func() { op.call(out, a, b) }) {
					checkResidue(x, "modulus/"+op.name, desc, out, op.want, mv, tagMod)
					if out != a && a.Big().Cmp(xv) != 0 || out != b && b.Big().Cmp(yv) != 0 {
						failf(x, "modulus/"+op.name+"/mutated-input", "%s: an operand changed", desc())
					}
				}
			}
		}
	}
	// ModDiv: x * y^-1. y a unit: must succeed with that value. y a non-unit: for an odd modulus the division must be
	// refused; for an even modulus the library solves u*y = x (mod m) when it can - then only that congruence is demanded.
	if mv.Cmp(one) == 0 {
		return
	}
	g := new(big.Int).GCD(nil, nil, yv, mv)
	unit := g.Cmp(one) == 0
	for pre := 0; pre < preCount; pre++ {
		for al := 0; al < alCount; al++ {
			if (al == alLR || al == alAll) && !same {
				continue
			}
			if al != alDistinct && (pre != 0 || !full) {
				continue
			}
			a, b := mkNat(sx), mkNat(sy)
			if al == alLR || al == alAll {
				b = a
			}
			out := preOut(pre, tagMod)
			switch al {
			case alOutL, alAll:
				out = a
			case alOutR:
				out = b
			}
			desc := func() string {
				return fmt.Sprintf("Modulus(%s).ModDiv(%v, %v, %s, alias=%s)", show(mv), sx, sy, preNames[pre], aliasNames[al])
			}
			x.Case("")
			var ok ct.Bool
			if !guard(x, "modulus/moddiv", desc, func() { ok = m.ModDiv(out, a, b) }) {
				continue
			}
			switch {
			case unit:
				if ok != ct.True {
					failf(x, "modulus/moddiv/existence", "%s refused although the divisor is a unit", desc())
					continue
				}
				w := new(big.Int).Mod(new(big.Int).Mul(xv, new(big.Int).ModInverse(yv, mv)), mv)
				checkResidue(x, "modulus/moddiv", desc, out, w, mv, tagMod)
			case mv.Bit(0) == 1:
				if ok == ct.True {
					failf(x, "modulus/moddiv/existence", "%s succeeded although gcd(divisor, m) = %s", desc(), show(g))
				}
			default:
				if ok == ct.True {
					u := out.Big()
					if u.Cmp(mv) >= 0 || new(big.Int).Mod(new(big.Int).Sub(new(big.Int).Mul(u, yv), xv), mv).Sign() != 0 {
						failf(x, "modulus/moddiv/even-nonunit", "%s returned %s which does not satisfy u*y = x (mod m)", desc(), show(u))
					}
				}
			}
		}
	}
}
