package c14

import (
	"fmt"
	"math/big"
	"sync"

	"verifmc/engine"
	"verifmc/ref/curve"
)

// libPoint is the part of the library's public point API that C14 exercises.
type libPoint[P any, S any] interface {
	Add(P) P
	Sub(P) P
	TrySub(P) (P, error)
	Neg() P
	TryNeg() (P, error)
	Double() P
	Equal(P) bool
	IsZero() bool
	IsOpIdentity() bool
	Op(P) P
	OpInv() P
	TryOpInv() (P, error)
	ScalarMul(S) P
	ScalarOp(S) P
	Clone() P
	IsTorsionFree() bool
}

// refGroup is the math/big model (curve.WCurve[E], *curve.TECurve, *curve.MCurve all satisfy it).
type refGroup[R any] interface {
	Identity() R
	Add(a, b R) R
	Sub(a, b R) R
	Neg(a R) R
	Double(a R) R
	Equal(a, b R) bool
	IsIdentity(a R) bool
	ScalarMul(k *big.Int, a R) R
	OnCurve(a R) bool
	InSubgroup(a R) bool
	Key(a R) string
}

// group binds one library group type to its reference model.
type group[P libPoint[P, S], S curve.Byteser, R any] struct {
	name     string
	ref      refGroup[R]
	q        *big.Int // order of the scalar field (= order of the generator)
	refG     R        // reference generator the library generator is expected to equal (hasRefG)
	hasRefG  bool
	toRef    func(P) (R, error)
	toLib    func(R) (P, error)
	identity func() P
	gen      func() P
	hash     func([]byte) (P, error)
	sfield   scalarField[S]
	baseMul  func(S) P                        // Curve.ScalarBaseMul (nil if the type has none)
	baseOp   func(S) P                        // Curve.ScalarBaseOp
	msm      func([]S, []P) (P, error)        // Curve.MultiScalarMul
	msmOp    func([]S, []P) (P, error)        // Curve.MultiScalarOp
	extra    func() (names []string, pts []R) // additional alphabet points (small order, x = 0 ...)

	once  sync.Once
	alpha []entry[P, R]
	aerr  error
}

type scalarField[S any] interface {
	FromBytes([]byte) (S, error)
	FromWideBytes([]byte) (S, error)
	ElementSize() int
	WideElementSize() int
}

type entry[P any, R any] struct {
	name  string
	lib   P
	ref   R    // the intended value; the library representation is verified against it before use
	inSub bool // reference: q*ref == O (then k*ref depends only on k mod q)
}

// scalar builds v mod q through FromBytes (reduction done in math/big; canonical bytes handed over).
func (g *group[P, S, R]) scalar(v *big.Int) S {
	r := new(big.Int).Mod(v, g.q)
	s, err := g.sfield.FromBytes(r.FillBytes(make([]byte, g.sfield.ElementSize())))
	if err != nil {
		panic(engine.HarnessError{Msg: fmt.Sprintf("%s: scalar FromBytes(%v): %v", g.name, r, err)})
	}
	return s
}

// alphabet builds the point alphabet once. Elements are constructed partly from affine coordinates (Z = 1) and partly
// by library arithmetic (other projective representatives of the same point, including a non-canonical identity).
func (g *group[P, S, R]) alphabet() ([]entry[P, R], error) {
	g.once.Do(func() {
		ref := g.ref
		G := g.gen()
		rG, err := g.toRef(G)
		if err != nil {
			g.aerr = fmt.Errorf("generator: %w", err)
			return
		}
		H, err := g.hash([]byte("verif/C14 alphabet point H"))
		if err != nil {
			g.aerr = fmt.Errorf("hash: %w", err)
			return
		}
		rH, err := g.toRef(H)
		if err != nil {
			g.aerr = fmt.Errorf("hash point: %w", err)
			return
		}
		if ref.IsIdentity(rH) || ref.Equal(rH, rG) || ref.Equal(rH, ref.Neg(rG)) {
			g.aerr = fmt.Errorf("hash point is degenerate")
			return
		}
		one := big.NewInt(1)
		qm1 := new(big.Int).Sub(g.q, one)
		half := new(big.Int).Rsh(new(big.Int).Add(g.q, one), 1)
		var es []entry[P, R]
		add := func(name string, lib P, r R) { es = append(es, entry[P, R]{name, lib, r, ref.InSubgroup(r)}) }
		aff := func(name string, r R) {
			p, err := g.toLib(r)
			if err != nil {
				g.aerr = fmt.Errorf("alphabet %s: %w", name, err)
				return
			}
			add(name, p, r)
		}
		mul := func(k int64, p R) R { return ref.ScalarMul(big.NewInt(k), p) }
		add("O", g.identity(), ref.Identity())
		add("O'=G-G", G.Sub(G), ref.Identity())
		add("G", G, rG)
		aff("-G", ref.Neg(rG))
		aff("2G", mul(2, rG))
		add("2G'=G.Double()", G.Double(), mul(2, rG))
		aff("-2G", mul(-2, rG))
		aff("3G", mul(3, rG))
		add("(q-1)G'", G.ScalarMul(g.scalar(qm1)), ref.Neg(rG))
		aff("((q+1)/2)G", ref.ScalarMul(half, rG))
		add("H", H, rH)
		aff("-H", ref.Neg(rH))
		aff("G+H", ref.Add(rG, rH))
		add("-(G+H)'", H.Neg().Sub(G), ref.Neg(ref.Add(rG, rH)))
		if g.extra != nil {
			names, pts := g.extra()
			for i := range pts {
				aff(names[i], pts[i])
			}
		}
		if engine.Thorough() {
			for _, k := range []int64{4, 5, 7, 8, 15, 16, 17, -3} {
				aff(fmt.Sprintf("%dG", k), mul(k, rG))
			}
			aff("((q-1)/2)G", ref.ScalarMul(new(big.Int).Rsh(qm1, 1), rG))
			aff("2H", mul(2, rH))
			aff("G-H", ref.Sub(rG, rH))
			add("3H'", H.Double().Add(H), mul(3, rH))
		}
		g.alpha = es
	})
	return g.alpha, g.aerr
}

// same compares a library result with the reference value through affine coordinates.
func (g *group[P, S, R]) same(x *engine.X, key, what string, got P, want R) bool {
	r, err := g.toRef(got)
	if err != nil {
		x.Failf(g.name+"/"+key, "%s: result cannot be read as a curve point: %v", what, err)
		return false
	}
	if !g.ref.Equal(r, want) {
		x.Failf(g.name+"/"+key, "%s = %s, reference %s", what, g.ref.Key(r), g.ref.Key(want))
		return false
	}
	// the identity predicate of the library must agree with the value
	if got.IsZero() != g.ref.IsIdentity(want) || got.IsOpIdentity() != g.ref.IsIdentity(want) {
		x.Failf(g.name+"/isidentity", "%s: IsZero=%v IsOpIdentity=%v but the value is %s", what, got.IsZero(), got.IsOpIdentity(), g.ref.Key(want))
		return false
	}
	// the result must also BEHAVE as that value when used as an operand (a degenerate internal representation, e.g.
	// the all-zero projective triple, can pass equality and identity tests and still absorb everything added to it)
	if g.hasRefG {
		gen := g.gen()
		for _, side := range []struct {
			name string
			sum  P
		}{{"result+G", got.Add(gen)}, {"G+result", gen.Add(got)}} {
			r2, err := g.toRef(side.sum)
			if err != nil || !g.ref.Equal(r2, g.ref.Add(want, g.refG)) {
				x.Failf(g.name+"/degenerate-result", "%s: the result equals the reference value but %s does not equal value+G (err=%v)", what, side.name, err)
				return false
			}
		}
	}
	return true
}

// lawsBody: all ordered pairs (P,Q) of the alphabet as Choose points; all third operands R in an inner loop.
func lawsBody[P libPoint[P, S], S curve.Byteser, R any](g *group[P, S, R]) func(*engine.X) {
	return func(x *engine.X) {
		al, err := g.alphabet()
		if err != nil {
			x.Failf(g.name+"/alphabet", "cannot build the point alphabet: %v", err)
			return
		}
		ref := g.ref
		n := len(al)
		i := x.Choose("P", n)
		j := x.Choose("Q", n)
		p, q := al[i], al[j]
		tag := fmt.Sprintf("%s: P=%s Q=%s", g.name, p.name, q.name)

		// the alphabet element really is the intended point (also guards against a mutated operand from an earlier op)
		if !g.same(x, "alphabet", "alphabet element "+p.name, p.lib, p.ref) || !g.same(x, "alphabet", "alphabet element "+q.name, q.lib, q.ref) {
			return
		}
		if g.hasRefG && i == 0 && j == 0 {
			g.same(x, "generator", "Generator()", g.gen(), g.refG)
		}

		sum := ref.Add(p.ref, q.ref)
		dif := ref.Sub(p.ref, q.ref)
		x.Case(fmt.Sprintf("%s/pair/%d/%d", g.name, i, j))
		libSum := p.lib.Add(q.lib)
		g.same(x, "add", tag+": P.Add(Q)", libSum, sum)
		g.same(x, "add", tag+": P.Op(Q)", p.lib.Op(q.lib), sum)
		g.same(x, "sub", tag+": P.Sub(Q)", p.lib.Sub(q.lib), dif)
		if d, err := p.lib.TrySub(q.lib); err != nil {
			x.Failf(g.name+"/sub", "%s: TrySub failed: %v", tag, err)
		} else {
			g.same(x, "sub", tag+": P.TrySub(Q)", d, dif)
		}
		if eq := p.lib.Equal(q.lib); eq != ref.Equal(p.ref, q.ref) {
			x.Failf(g.name+"/equal", "%s: P.Equal(Q)=%v, reference %v", tag, eq, !eq)
		}
		// results of an operation compare equal to the independently constructed value
		if want, err := g.toLib(sum); err == nil {
			if !libSum.Equal(want) || !want.Equal(libSum) {
				x.Failf(g.name+"/equal", "%s: P.Add(Q) does not compare Equal to the same point built from affine coordinates", tag)
			}
		}

		if j == 0 { // unary operations once per P
			x.Case(fmt.Sprintf("%s/unary/%d", g.name, i))
			u := g.name + ": P=" + p.name
			g.same(x, "double", u+": P.Double()", p.lib.Double(), ref.Double(p.ref))
			g.same(x, "neg", u+": P.Neg()", p.lib.Neg(), ref.Neg(p.ref))
			g.same(x, "neg", u+": P.OpInv()", p.lib.OpInv(), ref.Neg(p.ref))
			if v, err := p.lib.TryNeg(); err != nil {
				x.Failf(g.name+"/neg", "%s: TryNeg failed: %v", u, err)
			} else {
				g.same(x, "neg", u+": P.TryNeg()", v, ref.Neg(p.ref))
			}
			if v, err := p.lib.TryOpInv(); err != nil {
				x.Failf(g.name+"/neg", "%s: TryOpInv failed: %v", u, err)
			} else {
				g.same(x, "neg", u+": P.TryOpInv()", v, ref.Neg(p.ref))
			}
			g.same(x, "clone", u+": P.Clone()", p.lib.Clone(), p.ref)
			if tf := p.lib.IsTorsionFree(); tf != p.inSub {
				x.Failf(g.name+"/torsionfree", "%s: IsTorsionFree=%v, reference q*P==O is %v", u, tf, !tf)
			}
			// P + P through Add (equal operands in the general formula)
			g.same(x, "add", u+": P.Add(P.Clone())", p.lib.Add(p.lib.Clone()), ref.Double(p.ref))
		}

		// triples: both bracketings against the reference
		for k := 0; k < n; k++ {
			r := al[k]
			x.Case(fmt.Sprintf("%s/triple/%d/%d/%d", g.name, i, j, k))
			want := ref.Add(sum, r.ref)
			tt := fmt.Sprintf("%s R=%s", tag, r.name)
			g.same(x, "assoc", tt+": (P+Q)+R", libSum.Add(r.lib), want)
			g.same(x, "assoc", tt+": P+(Q+R)", p.lib.Add(q.lib.Add(r.lib)), want)
			g.same(x, "assoc", tt+": (P-Q)+R", p.lib.Sub(q.lib).Add(r.lib), ref.Add(dif, r.ref))
		}
		// operands are not modified by any of the above
		g.same(x, "aliasing", tag+": P after the operations", p.lib, p.ref)
		g.same(x, "aliasing", tag+": Q after the operations", q.lib, q.ref)
		x.Observe(ref.Key(sum), ref.Equal(p.ref, q.ref))
	}
}

// ---------------------------------------------------------------------------------------------------------------
// scalar multiplication

type namedScalar struct {
	name string
	v    *big.Int // the intended integer (may be >= q: built through wide reduction)
	wide bool
}

func pow2(k uint) *big.Int { return new(big.Int).Lsh(big.NewInt(1), k) }

// scalarAlphabet: {0,1,2,3,15,16,17, 2^k±1, q-2, q-1, (q±1)/2} plus q, q+1, 2q-1 and 2^(8*wide)-1 through FromWideBytes.
func scalarAlphabet(q *big.Int, wideSize int) []namedScalar {
	var out []namedScalar
	for _, v := range []int64{0, 1, 2, 3, 15, 16, 17} {
		out = append(out, namedScalar{fmt.Sprint(v), big.NewInt(v), false})
	}
	for _, k := range []uint{31, 32, 63, 64, 127, 128, 251, 252, 254, 255} {
		for _, d := range []int64{-1, 1} {
			v := new(big.Int).Add(pow2(k), big.NewInt(d))
			if v.Cmp(q) >= 0 {
				continue
			}
			out = append(out, namedScalar{fmt.Sprintf("2^%d%+d", k, d), v, false})
		}
	}
	for _, d := range []int64{2, 1} {
		out = append(out, namedScalar{fmt.Sprintf("q-%d", d), new(big.Int).Sub(q, big.NewInt(d)), false})
	}
	out = append(out, namedScalar{"(q-1)/2", new(big.Int).Rsh(new(big.Int).Sub(q, big.NewInt(1)), 1), false})
	out = append(out, namedScalar{"(q+1)/2", new(big.Int).Rsh(new(big.Int).Add(q, big.NewInt(1)), 1), false})
	out = append(out, namedScalar{"wide:q", new(big.Int).Set(q), true})
	out = append(out, namedScalar{"wide:q+1", new(big.Int).Add(q, big.NewInt(1)), true})
	out = append(out, namedScalar{"wide:2q-1", new(big.Int).Sub(new(big.Int).Lsh(q, 1), big.NewInt(1)), true})
	out = append(out, namedScalar{"wide:q^2", new(big.Int).Mul(q, q), true})
	out = append(out, namedScalar{"wide:max", new(big.Int).Sub(pow2(uint(8*wideSize)), big.NewInt(1)), true})
	return out
}

func (g *group[P, S, R]) mkScalar(x *engine.X, s namedScalar) (S, bool) {
	if !s.wide {
		return g.scalar(s.v), true
	}
	buf := make([]byte, g.sfield.WideElementSize())
	if s.v.BitLen() > 8*len(buf) {
		var z S
		return z, false
	}
	sc, err := g.sfield.FromWideBytes(s.v.FillBytes(buf))
	if err != nil {
		x.Failf(g.name+"/scalar/wide", "scalar field FromWideBytes(%s = %v) failed: %v", s.name, s.v, err)
		var z S
		return z, false
	}
	if got, want := new(big.Int).SetBytes(sc.Bytes()), new(big.Int).Mod(s.v, g.q); got.Cmp(want) != 0 {
		x.Failf(g.name+"/scalar/wide", "scalar field FromWideBytes(%s) = %v, want %v", s.name, got, want)
		return sc, false
	}
	return sc, true
}

func (g *group[P, S, R]) checkMul(x *engine.X, pe entry[P, R], isGen bool, sname string, sc S, k *big.Int) {
	g.checkMulWant(x, pe, isGen, sname, sc, g.ref.ScalarMul(k, pe.ref))
}

func (g *group[P, S, R]) checkMulWant(x *engine.X, pe entry[P, R], isGen bool, sname string, sc S, want R) {
	tag := fmt.Sprintf("%s: [%s]%s", g.name, sname, pe.name)
	g.same(x, "scalarmul", tag+" ScalarMul", pe.lib.ScalarMul(sc), want)
	g.same(x, "scalarmul", tag+" ScalarOp", pe.lib.ScalarOp(sc), want)
	if isGen && g.baseMul != nil {
		g.same(x, "scalarbasemul", tag+" Curve.ScalarBaseMul", g.baseMul(sc), want)
		g.same(x, "scalarbasemul", tag+" Curve.ScalarBaseOp", g.baseOp(sc), want)
	}
}

// scalarBody: P is a Choose point, the scalar set is split into chunks (Choose) with an inner loop.
//
//	chunk 0            the scalar alphabet
//	chunk 1..64        window sweep: d*16^w for window w = chunk-1 and every digit d in 0..15 (reduced mod q)
//	chunk 65..65+31    (only when dense) all scalars 128*(chunk-65) .. +127, i.e. 0..4095
func scalarBody[P libPoint[P, S], S curve.Byteser, R any](g *group[P, S, R], sweepPoints map[string]bool, dense bool) func(*engine.X) {
	return func(x *engine.X) {
		al, err := g.alphabet()
		if err != nil {
			x.Failf(g.name+"/alphabet", "cannot build the point alphabet: %v", err)
			return
		}
		pi := x.Choose("P", len(al))
		pe := al[pi]
		isGen := pe.name == "G"
		chunks := 1
		if sweepPoints == nil || sweepPoints[pe.name] {
			chunks += 64
			if dense && (pe.name == "G" || pe.name == "H") {
				chunks += 32
			}
		}
		c := x.Choose("chunk", chunks)
		switch {
		case c == 0:
			for _, s := range scalarAlphabet(g.q, g.sfield.WideElementSize()) {
				sc, ok := g.mkScalar(x, s)
				if !ok {
					continue
				}
				x.Case(fmt.Sprintf("%s/mul/%d/%s", g.name, pi, s.name))
				g.checkMul(x, pe, isGen, s.name, sc, new(big.Int).Mod(s.v, g.q))
			}
		case c <= 64:
			w := uint(c - 1)
			// reference for points of the prime-order subgroup: 16^w*P by 4w doublings, then d*(16^w*P) by repeated
			// addition (k*P depends only on k mod q there); for points with a torsion component plain double-and-add
			// on k mod q.
			var acc, base R
			if pe.inSub {
				base = pe.ref
				for t := uint(0); t < 4*w; t++ {
					base = g.ref.Double(base)
				}
				acc = g.ref.Identity()
			}
			for d := int64(0); d < 16; d++ {
				v := new(big.Int).Lsh(big.NewInt(d), 4*w)
				k := new(big.Int).Mod(v, g.q)
				x.Case(fmt.Sprintf("%s/sweep/%d/%d/%d", g.name, pi, w, d))
				sname := fmt.Sprintf("%d*16^%d", d, w)
				if pe.inSub {
					g.checkMulWant(x, pe, isGen, sname, g.scalar(k), acc)
					acc = g.ref.Add(acc, base)
				} else {
					g.checkMul(x, pe, isGen, sname, g.scalar(k), k)
				}
			}
		default:
			lo := int64(128 * (c - 65))
			// reference by repeated addition, cross-checked against double-and-add at the chunk ends
			acc := g.ref.ScalarMul(big.NewInt(lo), pe.ref)
			for v := lo; v < lo+128; v++ {
				k := big.NewInt(v)
				x.Case(fmt.Sprintf("%s/dense/%d/%d", g.name, pi, v))
				g.same(x, "scalarmul", fmt.Sprintf("%s: [%d]%s ScalarMul", g.name, v, pe.name), pe.lib.ScalarMul(g.scalar(k)), acc)
				acc = g.ref.Add(acc, pe.ref)
			}
			if !g.ref.Equal(acc, g.ref.ScalarMul(big.NewInt(lo+128), pe.ref)) {
				panic(engine.HarnessError{Msg: "reference repeated addition disagrees with reference double-and-add"})
			}
		}
		x.Observe(pe.name, c)
	}
}

// ---------------------------------------------------------------------------------------------------------------
// multi-scalar multiplication

type refCache[R any] struct {
	mu sync.Mutex
	m  map[string]R
}

func (g *group[P, S, R]) refMulCached(c *refCache[R], k *big.Int, p R) R {
	key := k.Text(16) + "*" + g.ref.Key(p)
	c.mu.Lock()
	v, ok := c.m[key]
	c.mu.Unlock()
	if ok {
		return v
	}
	v = g.ref.ScalarMul(k, p)
	c.mu.Lock()
	c.m[key] = v
	c.mu.Unlock()
	return v
}

func (g *group[P, S, R]) checkMSM(x *engine.X, cache *refCache[R], tag string, ks []*big.Int, ps []entry[P, R]) {
	ss := make([]S, len(ks))
	lp := make([]P, len(ks))
	want := g.ref.Identity()
	for i := range ks {
		ss[i] = g.scalar(ks[i])
		lp[i] = ps[i].lib
		want = g.ref.Add(want, g.refMulCached(cache, new(big.Int).Mod(ks[i], g.q), ps[i].ref))
	}
	key := "msm"
	func() {
		defer func() {
			if r := recover(); r != nil {
				if len(ks) == 0 {
					// one cause for every curve type (aimpl.MultiScalarMulLowLevel): one finding key
					x.Failf("msm/empty-input/panic", "%s: MultiScalarMul of zero scalars and zero points panicked (%v); the empty sum is the identity", g.name, r)
					return
				}
				x.Failf(g.name+"/msm/panic", "%s: MultiScalarMul panicked: %v", tag, r)
			}
		}()
		got, err := g.msm(ss, lp)
		if err != nil {
			x.Failf(g.name+"/"+key, "%s: MultiScalarMul failed: %v", tag, err)
			return
		}
		g.same(x, key, tag+" MultiScalarMul", got, want)
		if len(ks) > 2 && len(ks) < 8 {
			return // MultiScalarOp is a one-line alias: exercised on the short and on the bucket-method lengths only
		}
		got, err = g.msmOp(ss, lp)
		if err != nil {
			x.Failf(g.name+"/"+key, "%s: MultiScalarOp failed: %v", tag, err)
			return
		}
		g.same(x, key, tag+" MultiScalarOp", got, want)
	}()
}

// msmSmallBody: every length 0..fullLen with every tuple over S' x P' (|S'|=5, |P'|=4), then lengths up to redLen with
// every tuple over the reduced alphabets S”={0,1,q-1} x P”={O,G,H}. The first two (scalar,point) positions are Choose
// points, the remaining positions an inner loop.
func msmSmallBody[P libPoint[P, S], S curve.Byteser, R any](g *group[P, S, R], fullLen, redLen int) func(*engine.X) {
	cache := &refCache[R]{m: map[string]R{}}
	return func(x *engine.X) {
		al, err := g.alphabet()
		if err != nil {
			x.Failf(g.name+"/alphabet", "cannot build the point alphabet: %v", err)
			return
		}
		byName := map[string]entry[P, R]{}
		for _, e := range al {
			byName[e.name] = e
		}
		maxLen := fullLen
		if redLen > maxLen {
			maxLen = redLen
		}
		n := x.Choose("len", maxLen+1)
		pts := []entry[P, R]{byName["O"], byName["G"], byName["-G"], byName["H"]}
		scs := []*big.Int{big.NewInt(0), big.NewInt(1), big.NewInt(2), new(big.Int).Sub(g.q, big.NewInt(1)), new(big.Int).Add(pow2(128), big.NewInt(1))}
		if n > fullLen {
			pts = []entry[P, R]{byName["O"], byName["G"], byName["H"]}
			scs = []*big.Int{big.NewInt(0), big.NewInt(1), new(big.Int).Sub(g.q, big.NewInt(1))}
		}
		base := len(pts) * len(scs)
		if n == 0 {
			x.Case(g.name + "/msm/len0")
			g.checkMSM(x, cache, g.name+": length 0", nil, nil)
			// mismatched lengths must be refused
			if _, err := g.msm([]S{g.scalar(big.NewInt(1))}, nil); err == nil {
				x.Failf(g.name+"/msm/mismatch", "%s: MultiScalarMul accepted 1 scalar and 0 points", g.name)
			}
			if _, err := g.msm([]S{g.scalar(big.NewInt(1))}, []P{pts[1].lib, pts[1].lib}); err == nil {
				x.Failf(g.name+"/msm/mismatch", "%s: MultiScalarMul accepted 1 scalar and 2 points", g.name)
			}
			x.Observe(0)
			return
		}
		head := []int{x.Choose("first", base)}
		if n >= 2 {
			head = append(head, x.Choose("second", base))
		}
		rest := 1
		for i := len(head); i < n; i++ {
			rest *= base
		}
		for idx := 0; idx < rest; idx++ {
			ks := make([]*big.Int, n)
			ps := make([]entry[P, R], n)
			t := idx
			for i := 0; i < n; i++ {
				var c int
				if i < len(head) {
					c = head[i]
				} else {
					c = t % base
					t /= base
				}
				ks[i] = scs[c%len(scs)]
				ps[i] = pts[c/len(scs)]
			}
			x.Case(fmt.Sprintf("%s/msm/%d/%v/%d", g.name, n, head, idx))
			g.checkMSM(x, cache, fmt.Sprintf("%s: length %d tuple %v/%d", g.name, n, head, idx), ks, ps)
		}
		x.Observe(n, head)
	}
}

// msmLongBody: structured inputs at the lengths where the implementation changes strategy (naive up to 7, bucket
// method from 8 on, window width bits.Len(n): 4 for 8..15, 5 for 16..31, 6 for 32..63, 7 for 64..127).
func msmLongBody[P libPoint[P, S], S curve.Byteser, R any](g *group[P, S, R], lengths []int) func(*engine.X) {
	cache := &refCache[R]{m: map[string]R{}}
	const patterns = 9
	return func(x *engine.X) {
		al, err := g.alphabet()
		if err != nil {
			x.Failf(g.name+"/alphabet", "cannot build the point alphabet: %v", err)
			return
		}
		byName := map[string]entry[P, R]{}
		for _, e := range al {
			byName[e.name] = e
		}
		G, nG, H, O := byName["G"], byName["-G"], byName["H"], byName["O"]
		n := lengths[x.Choose("len", len(lengths))]
		pat := x.Choose("pattern", patterns)
		sa := scalarAlphabet(g.q, g.sfield.WideElementSize())
		ks := make([]*big.Int, n)
		ps := make([]entry[P, R], n)
		qm1 := new(big.Int).Sub(g.q, big.NewInt(1))
		w := uint(0)
		for m := n; m > 0; m >>= 1 {
			w++
		}
		var desc string
		for i := 0; i < n; i++ {
			switch pat {
			case 0:
				desc = "all (q-1, G): one bucket per window collects n equal points"
				ks[i], ps[i] = qm1, G
			case 1:
				desc = "scalars 1..n on G"
				ks[i], ps[i] = big.NewInt(int64(i+1)), G
			case 2:
				desc = "scalars alternate 1, q-1 on G (sum cancels pairwise)"
				ks[i], ps[i] = []*big.Int{big.NewInt(1), qm1}[i%2], G
			case 3:
				desc = "equal scalar 2^128+1, points alternate G, -G (opposite points meet in one bucket)"
				ks[i], ps[i] = new(big.Int).Add(pow2(128), big.NewInt(1)), []entry[P, R]{G, nG}[i%2]
			case 4:
				desc = "scalar i has all-ones digit in window i of the bucket method, points alternate G, H"
				ks[i] = new(big.Int).Mod(new(big.Int).Lsh(new(big.Int).Sub(pow2(w), big.NewInt(1)), w*uint(i)), g.q)
				ps[i] = []entry[P, R]{G, H}[i%2]
			case 5:
				desc = "scalars cycle through the scalar alphabet, points cycle through the point alphabet (coprime strides)"
				ks[i] = new(big.Int).Mod(sa[(3*i+1)%len(sa)].v, g.q)
				ps[i] = al[(5*i+2)%len(al)]
			case 6:
				desc = "all scalars zero"
				ks[i], ps[i] = big.NewInt(0), []entry[P, R]{G, H}[i%2]
			case 7:
				desc = "all points identity"
				ks[i], ps[i] = new(big.Int).Sub(qm1, big.NewInt(int64(i))), O
			case 8:
				desc = "scalars 2^i - 1 (all low digits maximal), points alternate H, G, -G"
				ks[i] = new(big.Int).Mod(new(big.Int).Sub(pow2(uint(4*i+3)), big.NewInt(1)), g.q)
				ps[i] = []entry[P, R]{H, G, nG}[i%3]
			}
		}
		x.Case(fmt.Sprintf("%s/msmlong/%d/%d", g.name, n, pat))
		g.checkMSM(x, cache, fmt.Sprintf("%s: length %d pattern %d (%s)", g.name, n, pat, desc), ks, ps)
		x.Observe(n, pat)
	}
}
