package libcurve

import (
	"math/big"
	"testing"

	"github.com/bronlabs/bron-crypto/pkg/base/curves/curve25519"
	"github.com/bronlabs/bron-crypto/pkg/base/curves/edwards25519"
	"github.com/bronlabs/bron-crypto/pkg/base/curves/k256"
	"github.com/bronlabs/bron-crypto/pkg/base/curves/p256"
	"github.com/bronlabs/bron-crypto/pkg/base/curves/pairable/bls12381"
	"github.com/bronlabs/bron-crypto/pkg/base/curves/pasta"

	"verifmc/ref/curve"
)

// The library generators convert to the reference generators and back (smoke test of the adapters, not a check).
func TestGeneratorsRoundTrip(t *testing.T) {
	five := big.NewInt(5)
	{
		a := K256()
		g := k256.NewCurve().Generator()
		if !a.Ref.Equal(a.ToRef(g), a.Ref.G) || !a.ToLib(a.Ref.G).Equal(g) || !a.ToLib(a.Ref.Identity()).IsZero() || !a.ToRef(k256.NewCurve().OpIdentity()).Inf {
			t.Error("k256")
		}
		if !a.Ref.Equal(a.ToRef(a.ToLib(a.Ref.ScalarBaseMul(five))), a.Ref.ScalarBaseMul(five)) {
			t.Error("k256 5G")
		}
	}
	{
		a := P256()
		g := p256.NewCurve().Generator()
		if !a.Ref.Equal(a.ToRef(g), a.Ref.G) || !a.ToLib(a.Ref.G).Equal(g) {
			t.Error("p256")
		}
		for _, p := range a.Ref.PointsWithX0() {
			if !a.Ref.Equal(a.ToRef(a.ToLib(p)), p) {
				t.Error("p256 x=0 point")
			}
		}
	}
	{
		a := Pallas()
		g := pasta.NewPallasCurve().Generator()
		if !a.Ref.Equal(a.ToRef(g), a.Ref.G) || !a.ToLib(a.Ref.G).Equal(g) {
			t.Error("pallas")
		}
	}
	{
		a := Vesta()
		g := pasta.NewVestaCurve().Generator()
		if !a.Ref.Equal(a.ToRef(g), a.Ref.G) || !a.ToLib(a.Ref.G).Equal(g) {
			t.Error("vesta")
		}
	}
	{
		a := BLS12381G1()
		g := bls12381.NewG1().Generator()
		if !a.Ref.Equal(a.ToRef(g), a.Ref.G) || !a.ToLib(a.Ref.G).Equal(g) {
			t.Error("g1")
		}
	}
	{
		a := BLS12381G2()
		g := bls12381.NewG2().Generator()
		if !a.Ref.Equal(a.ToRef(g), a.Ref.G) || !a.ToLib(a.Ref.G).Equal(g) {
			t.Error("g2")
		}
		p5 := a.Ref.ScalarBaseMul(five)
		if !a.Ref.Equal(a.ToRef(a.ToLib(p5)), p5) {
			t.Error("g2 5G")
		}
	}
	{
		a := Edwards25519()
		g := edwards25519.NewCurve().PrimeSubGroupGenerator()
		if !a.Ref.Equal(a.ToRef(g), a.Ref.G) || !a.ToLib(a.Ref.G).Equal(g) || !a.ToLib(a.Ref.Identity()).IsZero() {
			t.Error("edwards25519")
		}
		for _, p := range a.Ref.SmallOrderPoints() {
			if !a.Ref.Equal(a.ToRef(a.ToLib(p)), p) {
				t.Errorf("edwards25519 torsion point %s", a.Ref.Key(p))
			}
		}
		ap := Edwards25519Prime()
		if !ap.Ref.Equal(ap.ToRef(edwards25519.NewPrimeSubGroup().Generator()), ap.Ref.G) {
			t.Error("edwards25519 prime subgroup")
		}
		if _, err := ap.TryToLib(a.Ref.SmallOrderPoints()[1]); err == nil {
			t.Error("prime subgroup type accepted a torsion point")
		}
	}
	{
		a := Curve25519()
		g := curve25519.NewCurve().PrimeSubGroupGenerator()
		// the library's generator is (9, -V(P)) w.r.t. RFC 7748 4.1 (other root of -486664): same u, either v accepted
		if lg := a.ToRef(g); lg.U.Cmp(a.Ref.G.U) != 0 || (!a.Ref.Equal(lg, a.Ref.G) && !a.Ref.Equal(lg, a.Ref.Neg(a.Ref.G))) {
			t.Errorf("curve25519 generator: lib %s ref %s", a.Ref.Key(lg), a.Ref.Key(a.Ref.G))
		}
		if !a.ToLib(a.ToRef(g)).Equal(g) || !a.ToLib(a.Ref.Identity()).IsZero() {
			t.Error("curve25519 ToLib")
		}
		for _, e := range curve.Edwards25519().SmallOrderPoints() {
			m := curve.EdwardsToMontgomery(e)
			if !a.Ref.Equal(a.ToRef(a.ToLib(m)), m) {
				t.Errorf("curve25519 torsion point %s", a.Ref.Key(m))
			}
		}
	}
}
