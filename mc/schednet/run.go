package schednet

import (
	"context"
	"fmt"
	"runtime/debug"
	"strings"

	"github.com/bronlabs/bron-crypto/pkg/mcrt"
	"github.com/bronlabs/bron-crypto/pkg/mpc/sharing"
	"github.com/bronlabs/bron-crypto/pkg/network"
)

// Result is what one party's run ended with.
type Result[O any] struct {
	Out     O
	Err     error
	Panic   string // a panic that escaped the party's code (the harness recovers it: "no honest party crashes")
	Starved bool   // the party was still waiting when no thread could make progress; its context was then cancelled
	Done    bool
}

// Info describes the execution as a whole.
type Info struct {
	HarnessErr string
	Deadlock   string // non-empty: threads stayed blocked even after starved parties were cancelled
	Stuck      string // what was blocked when the first starvation happened (diagnostics)
	Points     int
	Switches   int
}

// PartyFunc runs one party's protocol to completion over its router.
type PartyFunc[O any] func(ctx context.Context, id sharing.ID, rt *network.Router) (O, error)

// RunAll runs all parties over real routers on the given network under the cooperative scheduler, with the
// default (deterministic) schedule unless the chooser's deviation bound allows otherwise. When no thread can make
// progress (the normal situation after one party aborted and stopped sending) the remaining parties are marked
// Starved and their contexts cancelled, so every execution ends cleanly and "stuck" has a precise meaning.
func RunAll[O any](x mcrt.Chooser, net *Net, ids []sharing.ID, party PartyFunc[O]) (map[sharing.ID]*Result[O], *Info) {
	s := mcrt.New(x)
	s.AllDev = true
	res := map[sharing.ID]*Result[O]{}
	ctxs := map[sharing.ID]context.Context{}
	info := &Info{}
	stuckOnce := false
	s.OnStuck = func() bool {
		if stuckOnce {
			return false
		}
		stuckOnce = true
		info.Stuck = s.Blocked()
		any := false
		for _, id := range ids {
			if r := res[id]; r != nil && !r.Done {
				r.Starved = true
				mcrt.CancelNow(ctxs[id])
				any = true
			}
		}
		return any
	}
	s.Run(func() {
		done := 0
		for _, id := range ids {
			r := &Result[O]{}
			res[id] = r
			ctx, _ := mcrt.WithCancel(context.Background())
			ctxs[id] = ctx
			rt := network.NewRouter(net.Endpoint(id))
			mcrt.GoNamed(fmt.Sprintf("party-%d", id), func() {
				defer func() {
					if p := recover(); p != nil {
						msg := fmt.Sprint(p)
						if strings.HasPrefix(msg, "harness error:") || strings.HasPrefix(msg, "mcrt harness error:") {
							panic(p)
						}
						r.Panic = fmt.Sprintf("%v | %s", p, trim(string(debug.Stack())))
					}
					r.Done = true
					done++
					rt.Close()
				}()
				r.Out, r.Err = party(ctx, id, rt)
			})
		}
		mcrt.Yield("join", func() bool { return done >= len(ids) })
	})
	info.HarnessErr = s.HarnessErr
	info.Deadlock = s.Deadlock
	info.Points = s.Points
	info.Switches = s.Switches
	for _, p := range s.Panics {
		if info.HarnessErr == "" {
			info.HarnessErr = "panic outside a party body: " + p
		}
	}
	return res, info
}

func trim(st string) string {
	var out []string
	for _, l := range strings.Split(st, "\n") {
		if strings.Contains(l, ".go:") && !strings.Contains(l, "/runtime/") && !strings.Contains(l, "schednet/run.go") {
			out = append(out, strings.TrimSpace(l))
		}
		if len(out) > 8 {
			break
		}
	}
	return strings.Join(out, " | ")
}
