// C08 — non-interactive proofs verify only for the right statement, prover and session.
//
// Space (DESIGN §5 C08): protocol x compiler x group x composition; for every honest proof every single context
// edit, every single statement edit and every single-fault edit of the proof's CBOR tree; at the sigma level every
// pair of distinct challenges of a 4-element alphabet (extractor), every challenge (simulator); the interactive
// zk compiler with every single message-leaf alteration.
// Oracle: the honest proof verifies in the same context; every edit makes decoding or Verify fail unless
// Marshal(Unmarshal(edited)) == original bytes (the property's "same proof" exemption, decided mechanically).
package c08

import (
	"bytes"
	"encoding/hex"
	"fmt"
	"math/bits"
	"os"
	"regexp"
	"runtime/debug"
	"strings"
	"sync"
	"testing"
	"time"

	"github.com/bronlabs/bron-crypto/pkg/base/algebra"
	"github.com/bronlabs/bron-crypto/pkg/base/curves"
	"github.com/bronlabs/bron-crypto/pkg/base/curves/k256"
	"github.com/bronlabs/bron-crypto/pkg/base/curves/pairable/bls12381"
	"github.com/bronlabs/bron-crypto/pkg/mpc/session"
	"github.com/bronlabs/bron-crypto/pkg/proofs/dlog/batch_schnorr"
	"github.com/bronlabs/bron-crypto/pkg/proofs/okamoto"
	"github.com/bronlabs/bron-crypto/pkg/proofs/sigma"
	"github.com/bronlabs/bron-crypto/pkg/proofs/sigma/compiler"
	"github.com/bronlabs/bron-crypto/pkg/proofs/sigma/compiler/fiatshamir"
	"github.com/bronlabs/bron-crypto/pkg/proofs/sigma/compiler/fischlin"
	"github.com/bronlabs/bron-crypto/pkg/proofs/sigma/compiler/randfischlin"
	"github.com/bronlabs/bron-crypto/pkg/proofs/sigma/compose/sigand"
	"github.com/bronlabs/bron-crypto/pkg/proofs/sigma/compose/sigor"

	"verifmc/engine"
)

func TestMain(m *testing.M) {
	if spec := os.Getenv("VERIF_C08_CHILD"); spec != "" {
		os.Exit(childMain(spec)) // isolated single operation (see isolate_test.go)
	}
	debug.SetGCPercent(400) // the library allocates heavily; the check's live heap is small
	engine.Main(m, "C08", "fault_enumeration")
}

// fam returns the five compositions of one base protocol.
func fam[X sigma.Statement, W sigma.Witness, A sigma.Statement, S sigma.State, Z sigma.Response](c *sigCase[X, W, A, S, Z]) []*niInst {
	return []*niInst{c.ni(), andCase(c, 2).ni(), andCase(c, 3).ni(), orCase(c, 0).ni(), orCase(c, 1).ni()}
}

// only filters instances by substring (debugging aid: VERIF_C08_ONLY); unset in normal runs.
func only(in []*niInst) []*niInst {
	f := os.Getenv("VERIF_C08_ONLY")
	if f == "" {
		return in
	}
	var out []*niInst
	for _, n := range in {
		if strings.Contains(n.name, f) {
			out = append(out, n)
		}
	}
	return out
}

// libSite extracts the first library frame below the panic from a Go stack dump (the function that panicked, or
// the closest library function), e.g. "base/nt/num.(*NatPlus).Mul". It keys panic findings by their cause.
func libSite(stack string) string {
	const pfx = "github.com/bronlabs/bron-crypto/pkg/"
	lines := strings.Split(stack, "\n")
	start := 0
	for i, l := range lines {
		if strings.HasPrefix(l, "panic(") || strings.HasPrefix(l, "panic:") {
			start = i
		}
	}
	for _, l := range lines[start:] {
		l = strings.TrimSpace(l)
		if strings.HasPrefix(l, pfx) {
			l = strings.TrimPrefix(l, pfx)
			if j := strings.LastIndexByte(l, '('); j > 0 {
				l = l[:j]
			}
			return l
		}
	}
	return "unknown-site"
}

// guard runs f and converts a panic into (message, library site).
func guard(f func()) (msg, site string) {
	defer func() {
		if r := recover(); r != nil {
			if he, ok := r.(engine.HarnessError); ok {
				panic(he)
			}
			msg, site = fmt.Sprint(r), libSite(string(debug.Stack()))
		}
	}()
	f()
	return "", ""
}

// safeVerify turns a panic inside the library's Verify into an error value; site names where it panicked.
func safeVerify(n *niInst, c compiler.Name, ctx *session.Context, sel stmtSel, proof []byte) (err error, site string) {
	msg, site := guard(func() { err = n.verify(c, ctx, sel, proof) })
	if site != "" {
		return fmt.Errorf("PANIC: %s", msg), site
	}
	return err, ""
}

// family is the protocol family of an instance name ("range/1024" -> "range").
func family(name string) string {
	if i := strings.IndexByte(name, '/'); i > 0 {
		return name[:i]
	}
	return name
}

var (
	reIdx    = regexp.MustCompile(`\[\d+\]`)
	reNumKey = regexp.MustCompile(`>\d+`)
)

// genericPath turns an edit description into its position-independent tree path ("$>Z>W1>7>p ..." -> "$>Z>W1>#>p").
func genericPath(desc string) string {
	p := desc
	if i := strings.IndexByte(p, ' '); i > 0 {
		p = p[:i]
	}
	if !strings.HasPrefix(p, "$") {
		return "-"
	}
	return reNumKey.ReplaceAllString(reIdx.ReplaceAllString(p, "[]"), ">#")
}

func hexShort(b []byte) string {
	if len(b) <= 1500 {
		return hex.EncodeToString(b)
	}
	return hex.EncodeToString(b[:1500]) + fmt.Sprintf("…(%d bytes)", len(b))
}

// ---------------------------------------------------------------------------------------------
// section: compiler admission (documented refusals)

func admissionBody(insts []*niInst) func(*engine.X) {
	return func(x *engine.X) {
		n := engine.Pick(x, "protocol", insts)
		for _, c := range compilers {
			x.Case(n.name + "/" + string(c))
			err := n.compileErr(c)
			// documented: Fiat-Shamir and randomised Fischlin refuse a protocol whose soundness error is below the
			// computational security parameter (128); Fischlin derives (rho, b, t) and refuses only invalid ones.
			wantRefuse := n.soundnessError < 128
			if c == fischlin.Name {
				wantRefuse = fischlinRefuses(n)
			}
			if wantRefuse && err == nil {
				failf(x, "admission/"+compShort(c)+"/admitted", "%s: %s compiler admitted a protocol with soundness error 2^-%d", n.name, c, n.soundnessError)
			}
			if !wantRefuse && err != nil {
				failf(x, "admission/"+compShort(c)+"/refused", "%s: %s compiler refused a protocol with soundness error 2^-%d: %v", n.name, c, n.soundnessError, err)
			}
			x.Observe(n.name, " ", c, " admitted=", err == nil)
		}
	}
}

// fischlinRefuses evaluates the Fischlin compiler's documented parameter rule (fischlin.go / params.go): rho by
// protocol name (32 for the Paillier n-th root protocol, 16 otherwise), b = ceil(128/rho) + ceil(log2(s-1)) for
// special soundness s, t = b+5 (b+6 when rho > 64); refused iff rho < 2, b < 2 or t >= 64.
func fischlinRefuses(n *niInst) bool {
	rho := 16
	if n.sigName == "PAILLIER_NTH_ROOTS" {
		rho = 32
	}
	b := (128+rho-1)/rho + bits.Len64(uint64(int(n.specialSoundness)-1)-1) // ceil(log2(s-1)), as mathutils.CeilLog2
	t := b + 5
	if rho > 64 {
		t = b + 6
	}
	return rho < 2 || b < 2 || t >= 64
}

// refusalBody: documented constructor refusals.
func refusalBody() func(*engine.X) {
	k := newEC("k256", k256.NewCurve())
	type refusal struct {
		name string
		try  func() error
	}
	rs := []refusal{
		{"batch-schnorr k=1", func() error {
			_, err := batch_schnorr.NewProtocol(1, algebra.PrimeGroup[*k256.Point, *k256.Scalar](k.curve), stream("refusal"))
			return err
		}},
		{"batch-schnorr k=0", func() error {
			_, err := batch_schnorr.NewProtocol(0, algebra.PrimeGroup[*k256.Point, *k256.Scalar](k.curve), stream("refusal"))
			return err
		}},
		{"sigor count=1", func() error {
			_, err := sigor.Compose(schnorrCase(k).mk(stream("refusal")), 1, stream("refusal"))
			return err
		}},
		{"sigand count=0", func() error {
			_, err := sigand.Compose(schnorrCase(k).mk(stream("refusal")), 0)
			return err
		}},
		{"unknown compiler name", func() error {
			_, err := compiler.Compile("NoSuchCompiler", schnorrCase(k).mk(stream("refusal")), stream("refusal"))
			return err
		}},
		{"okamoto without generators", func() error {
			_, err := okamoto.NewProtocol[*k256.Point, *k256.Scalar](nil, stream("refusal"))
			return err
		}},
		{"Fiat-Shamir prover without context", func() error {
			nip, err := compiler.Compile(fiatshamir.Name, schnorrCase(k).mk(stream("refusal")), stream("refusal"))
			if err != nil {
				return nil
			}
			_, err = nip.NewProver(nil)
			return err
		}},
		{"Fischlin verifier without context", func() error {
			nip, err := compiler.Compile(fischlin.Name, schnorrCase(k).mk(stream("refusal")), stream("refusal"))
			if err != nil {
				return nil
			}
			_, err = nip.NewVerifier(nil)
			return err
		}},
		{"randomised Fischlin verifier without context", func() error {
			nip, err := compiler.Compile(randfischlin.Name, schnorrCase(k).mk(stream("refusal")), stream("refusal"))
			if err != nil {
				return nil
			}
			_, err = nip.NewVerifier(nil)
			return err
		}},
	}
	return func(x *engine.X) {
		r := engine.Pick(x, "refusal", rs)
		x.Case(r.name)
		err := r.try()
		if err == nil {
			failf(x, "refusal/"+r.name, "constructor accepted: %s", r.name)
		}
		x.Observe(r.name, " refused=", err != nil)
	}
}

// ---------------------------------------------------------------------------------------------
// section: context and statement edits

type ctxEdit struct {
	name     string
	prover   ctxSpec
	verifier ctxSpec
	accept   bool
}

func ctxEdits() []ctxEdit {
	p, v := proverCtx(), verifierCtx()
	with := func(s ctxSpec, f func(*ctxSpec)) ctxSpec { f(&s); return s }
	return []ctxEdit{
		// (1) same context on both sides (several histories): must verify
		{"same/base", p, v, true},
		{"same/other-session", with(p, func(s *ctxSpec) { s.seed = 1 }), with(v, func(s *ctxSpec) { s.seed = 1 }), true},
		{"same/extra-append-both", with(p, func(s *ctxSpec) { s.extra = true }), with(v, func(s *ctxSpec) { s.extra = true }), true},
		{"same/cloned-after-extraction-both", with(p, func(s *ctxSpec) { s.extractClone = true }), with(v, func(s *ctxSpec) { s.extractClone = true }), true},
		{"same/subcontext-both", with(p, func(s *ctxSpec) { s.sub = true }), with(v, func(s *ctxSpec) { s.sub = true }), true},
		{"same/prover-id-2-both", with(p, func(s *ctxSpec) { s.proverID = otherProverTag }), with(v, func(s *ctxSpec) { s.proverID = otherProverTag }), true},
		{"same/sid-field-flipped-both", with(p, func(s *ctxSpec) { s.sidOnly = true }), with(v, func(s *ctxSpec) { s.sidOnly = true }), true},
		{"same/late-append-both", with(p, func(s *ctxSpec) { s.late = true }), with(v, func(s *ctxSpec) { s.late = true }), true},
		// (2) one difference, on the verifier's side
		{"verifier/other-session", p, with(v, func(s *ctxSpec) { s.seed = 1 }), false},
		{"verifier/sid-field-only", p, with(v, func(s *ctxSpec) { s.sidOnly = true }), false},
		{"verifier/extra-append", p, with(v, func(s *ctxSpec) { s.extra = true }), false},
		{"verifier/other-prover-id", p, with(v, func(s *ctxSpec) { s.proverID = otherProverTag }), false},
		{"verifier/cloned-after-extraction", p, with(v, func(s *ctxSpec) { s.extractClone = true }), false},
		{"verifier/subcontext", p, with(v, func(s *ctxSpec) { s.sub = true }), false},
		{"verifier/late-append", p, with(v, func(s *ctxSpec) { s.late = true }), false},
		// (2') the same differences on the prover's side
		{"prover/other-session", with(p, func(s *ctxSpec) { s.seed = 1 }), v, false},
		{"prover/sid-field-only", with(p, func(s *ctxSpec) { s.sidOnly = true }), v, false},
		{"prover/extra-append", with(p, func(s *ctxSpec) { s.extra = true }), v, false},
		{"prover/other-prover-id", with(p, func(s *ctxSpec) { s.proverID = otherProverTag }), v, false},
		{"prover/cloned-after-extraction", with(p, func(s *ctxSpec) { s.extractClone = true }), v, false},
		{"prover/subcontext", with(p, func(s *ctxSpec) { s.sub = true }), v, false},
		{"prover/late-append", with(p, func(s *ctxSpec) { s.late = true }), v, false},
	}
}

type cfg struct {
	n        *niInst
	c        compiler.Name
	mode     bitMode
	restrict idxAlphabet
	chunk    int  // edits per execution of the proof-edit section
	lite     bool // only value bits, component drops, array extensions and whole-value re-wraps (multi-second verifications)
	light    bool // quick tier, Fischlin-type compilers: only the context pairs that need at most one extra proof
}

func (c cfg) String() string { return c.n.name + "/" + compShort(c.c) }

func contextBody(cfgs []cfg) func(*engine.X) {
	edits := ctxEdits()
	return func(x *engine.X) {
		cf := engine.Pick(x, "config", cfgs)
		n, c := cf.n, cf.c
		if err := n.compileErr(c); err != nil {
			x.Observe(cf, "refused")
			x.Trivial()
			return
		}
		// group 0..len(edits)-1: one context pair each; last group: replay, names, compilers, statements, instances
		grp := x.Choose("group", len(edits)+1)
		acc, rej := 0, 0
		expect := func(key, what string, err error, site string, wantAccept bool) {
			x.Case(cf.String() + "/" + what)
			switch {
			case site != "":
				failf(x, "panic@"+site, "%s: Verify panicked in %s (%s): %v", cf, site, what, err)
			case wantAccept && err != nil:
				failf(x, "complete/"+compShort(c)+"/"+key, "%s: honest proof rejected (%s): %v", cf, what, err)
			case !wantAccept && err == nil:
				failf(x, "accepted/"+compShort(c)+"/"+key, "%s: proof ACCEPTED although %s", cf, what)
			case err == nil:
				acc++
			default:
				rej++
			}
		}
		if grp < len(edits) {
			e := edits[grp]
			if cf.light && e.prover != proverCtx() && e.name != "same/other-session" && e.name != "prover/other-prover-id" {
				// proving dominates the cost of the 16-fold repeated compilers; quick keeps every verifier-side edit
				x.Observe(cf, e.name, "skipped in quick")
				x.Trivial()
				return
			}
			proof, err := n.honest(c, e.prover, 0)
			if err != nil {
				failf(x, "prove/"+compShort(c), "%s: Prove failed in context %q: %v", cf, e.name, err)
				return
			}
			verr, pan := safeVerify(n, c, e.verifier.build(), stmtSel{}, proof)
			expect("context/"+e.name, "context edit "+e.name, verr, pan, e.accept)
			x.Observe(cf, " ", e.name, " accepted ", acc, " rejected ", rej)
			return
		}
		proof, err := n.honest(c, proverCtx(), 0)
		if err != nil {
			return
		}
		// replay of the same proof on the verifier's context after it already verified it once (transcript advanced)
		{
			vctx := verifierCtx().build()
			verr, pan := safeVerify(n, c, vctx, stmtSel{}, proof)
			expect("context/first-use", "first use of the context", verr, pan, true)
			verr, pan = safeVerify(n, c, vctx, stmtSel{}, proof)
			expect("context/replay-on-advanced-transcript", "the verifier context had already consumed this proof", verr, pan, false)
		}
		// other protocol name
		if !n.noRename {
			verr, pan := safeVerify(n, c, verifierCtx().build(), stmtSel{renamed: true}, proof)
			expect("context/other-protocol-name", "the verifier's protocol carries another name", verr, pan, false)
		}
		// other compiler
		for _, oc := range compilers {
			if oc == c || n.compileErr(oc) != nil {
				continue
			}
			verr, pan := safeVerify(n, oc, verifierCtx().build(), stmtSel{}, proof)
			expect("context/other-compiler", fmt.Sprintf("the proof is presented to the %s verifier", oc), verr, pan, false)
		}
		// statement edits
		for i, an := range n.altNames() {
			verr, pan := safeVerify(n, c, verifierCtx().build(), stmtSel{kind: 2, idx: i}, proof)
			expect("statement/component", "statement edit "+an, verr, pan, false)
		}
		// proof of instance j presented for instance k (both directions)
		verr, pan := safeVerify(n, c, verifierCtx().build(), stmtSel{kind: 1}, proof)
		expect("statement/other-instance", "proof of instance 0 presented for instance 1", verr, pan, false)
		proof1, err := n.honest(c, proverCtx(), 1)
		if err != nil {
			failf(x, "prove/"+compShort(c), "%s: Prove failed for instance 1: %v", cf, err)
			return
		}
		verr, pan = safeVerify(n, c, verifierCtx().build(), stmtSel{kind: 1}, proof1)
		expect("statement/instance1-honest", "instance 1 honest", verr, pan, true)
		verr, pan = safeVerify(n, c, verifierCtx().build(), stmtSel{}, proof1)
		expect("statement/other-instance", "proof of instance 1 presented for instance 0", verr, pan, false)
		x.Observe(cf, " accepted ", acc, " rejected ", rej, " prooflen ", len(proof))
	}
}

// ---------------------------------------------------------------------------------------------
// section: proof edits on the CBOR tree

var editCache memo[[]edit]

func (c cfg) edits() (orig []byte, eds []edit, err error) {
	orig, err = c.n.honest(c.c, proverCtx(), 0)
	if err != nil {
		return nil, nil, err
	}
	mode := c.mode
	if len(orig) > 4096 {
		mode = bitsLeaf // every bit only for proofs <= 4 KiB
	}
	eds = editCache.get(fmt.Sprintf("%s|%d|%v|%v", c, mode, c.restrict, c.lite), func() []edit {
		out := enumerateEdits(orig, mode, c.restrict)
		if c.lite {
			var keep []edit
			for _, e := range out {
				if e.class == "bit" || e.class == "drop" || e.class == "extend" || !strings.HasPrefix(e.desc, "$") {
					keep = append(keep, e)
				}
			}
			return keep
		}
		if donor, err := c.n.honest(c.c, proverCtx(), 1); err == nil {
			out = append(out, spliceEdits(orig, donor, c.restrict)...)
		}
		return out
	})
	return orig, eds, nil
}

func proofEditBody(cfgs []cfg) func(*engine.X) {
	return func(x *engine.X) {
		cf := engine.Pick(x, "config", cfgs)
		n, c := cf.n, cf.c
		if err := n.compileErr(c); err != nil {
			x.Observe(cf, "refused")
			x.Trivial()
			return
		}
		orig, eds, err := cf.edits()
		if err != nil {
			failf(x, "prove/"+compShort(c), "%s: Prove failed: %v", cf, err)
			return
		}
		chunkSize := max(cf.chunk, 1)
		nChunks := (len(eds) + chunkSize - 1) / chunkSize
		ch := x.Choose("chunk", nChunks)
		lo, hi := ch*chunkSize, min((ch+1)*chunkSize, len(eds))
		w := newWalker(orig)
		baseNils, err := n.nils(c, orig)
		if err != nil {
			failf(x, "complete/"+compShort(c)+"/decode", "%s: the honest proof does not decode: %v", cf, err)
			return
		}
		rejected, exempt, noop, isolated := 0, 0, 0, 0
		classes := map[string]int{}
		// pass 1: produce the edited proofs; structure-changing edits are verified in a child process (batched per
		// chunk) because a panic inside a library errgroup goroutine cannot be recovered and would kill this process
		chunk := eds[lo:hi]
		edited := make([][]byte, len(chunk))
		var risky []int
		for i, ed := range chunk {
			edited[i] = ed.gen(w)
			if !bytes.Equal(edited[i], orig) && ed.class != "bit" && ed.class != "splice" {
				risky = append(risky, i)
			}
		}
		childRes := map[int]childResult{}
		if len(risky) > 0 {
			rs := runBatch(len(risky), func(from, to int) (string, []byte) {
				var sb strings.Builder
				for _, i := range risky[from:to] {
					sb.WriteString(hex.EncodeToString(edited[i]))
					sb.WriteByte('\n')
				}
				return "ni|" + n.name + "|" + string(c), []byte(sb.String())
			})
			for k, i := range risky {
				childRes[i] = rs[k]
			}
			isolated += len(risky)
		}
		_ = baseNils
		// pass 2: evaluate in order
		for i, ed := range chunk {
			x.Case(cf.String() + "/" + ed.desc)
			if bytes.Equal(edited[i], orig) {
				noop++
				continue
			}
			var verr error
			if res, ok := childRes[i]; ok {
				switch res.outcome {
				case "CRASH":
					failf(x, "crash@"+res.site, "%s: Verify TERMINATED THE PROCESS (unrecoverable panic in a library goroutine, in %s) on edited proof (%s): %s\n edited proof: %s", cf, res.site, ed.desc, res.detail, hexShort(edited[i]))
					continue
				case "PANIC":
					failf(x, "panic@"+res.site, "%s: Verify panicked in %s on edited proof (%s): %s\n edited proof: %s", cf, res.site, ed.desc, res.detail, hexShort(edited[i]))
					continue
				case "REJECT":
					verr = fmt.Errorf("%s", res.detail)
				}
			} else {
				var site string
				verr, site = safeVerify(n, c, verifierCtx().build(), stmtSel{}, edited[i])
				if site != "" {
					failf(x, "panic@"+site, "%s: Verify panicked in %s on edited proof (%s): %v\n edited proof: %s", cf, site, ed.desc, verr, hexShort(edited[i]))
					continue
				}
			}
			if verr != nil {
				rejected++
				classes[ed.class]++
				continue
			}
			// accepted: the mechanical exemption — the edit re-encodes the very same values
			var rec []byte
			var rerr error
			if _, s := guard(func() { rec, rerr = n.recode(c, edited[i]) }); s != "" {
				rerr = fmt.Errorf("recode panicked")
			}
			if rerr == nil && bytes.Equal(rec, orig) {
				exempt++
				classes["exempt:"+ed.class]++
				continue
			}
			failf(x, "accepted/"+family(n.name)+"/"+compShort(c)+"/"+ed.class+"@"+genericPath(ed.desc), "%s: edited proof ACCEPTED (and it does not re-encode to the original bytes): %s\n original: %s\n edited:   %s", cf, ed.desc, hexShort(orig), hexShort(edited[i]))
		}
		x.Observe(cf, " chunk ", ch, " rejected ", rejected, " exempt ", exempt, " noop ", noop, " isolated ", isolated, " ", fmt.Sprint(classes))
	}
}

// ---------------------------------------------------------------------------------------------
// sections: sigma level, interactive compiler

func sigmaBody(insts []*niInst) func(*engine.X) {
	return func(x *engine.X) { engine.Pick(x, "protocol", insts).sigmaLevel(x) }
}

func zkList(insts []*niInst) []*interactive {
	var out []*interactive
	for _, n := range insts {
		if n.zk != nil {
			out = append(out, n.zk)
		}
	}
	return out
}

// ---------------------------------------------------------------------------------------------

// plan is every constructed protocol x composition (the same in every tier and in child processes).
type plan struct {
	all         []*niInst
	fischlinSet map[*niInst]bool // configurations that also run under Fischlin / randomised Fischlin in quick
	allBits     map[*niInst]bool // configurations whose Fiat-Shamir proof is edited at every bit in quick
}

var planOnce = sync.OnceValue(func() *plan {
	k := newEC("k256", k256.NewCurve())
	b := newEC("bls12381g1", bls12381.NewG1())
	// families: index 0 = plain, 1 = AND2, 2 = AND3, 3 = OR(left witness), 4 = OR(right witness)
	famsK := [][]*niInst{fam(schnorrCase(k)), fam(batchSchnorrCase(k, 2)), fam(batchSchnorrCase(k, 3)), fam(okamotoCase(k)), fam(elcomopCase(k)), fam(elogCase(k))}
	famsB := [][]*niInst{fam(schnorrCase(b)), fam(okamotoCase(b))[:1], fam(elogCase(b))[:1]}
	pl := &plan{fischlinSet: map[*niInst]bool{}, allBits: map[*niInst]bool{}}
	for fi, f := range famsK {
		pl.all = append(pl.all, f...)
		pl.fischlinSet[f[0]] = true
		pl.allBits[f[0]] = true
		if fi == 0 || fi == 1 || fi == 3 { // Schnorr, batch-Schnorr(2), Okamoto: AND2 and OR-left as well
			pl.allBits[f[1]], pl.allBits[f[3]] = true, true
		}
		if fi == 0 {
			pl.fischlinSet[f[1]], pl.fischlinSet[f[3]] = true, true // Schnorr AND2 and OR(left)
		}
	}
	// wider ORs of one protocol (the challenge-splitting loops run more than once only from four branches on)
	{
		sc := schnorrCase(k)
		// … and a wide AND (more branches than any worker-pool bound a verifier might use)
		for _, n := range []*niInst{orCaseN(sc, 4, 0).ni(), orCaseN(sc, 4, 3).ni(), orCaseN(sc, 5, 2).ni(), andCase(sc, 20).ni()} {
			pl.all = append(pl.all, n)
		}
	}
	// ordered pairs of DIFFERENT protocols (challenge lengths 16 / 17 / 32 bytes differ): OR with the witness left / right, AND
	for _, f := range [][]*niInst{cartFam(schnorrCase(k), batchSchnorrCase(k, 2)), cartFam(batchSchnorrCase(k, 2), schnorrCase(k)), cartFam(schnorrCase(k), okamotoCase(k))} {
		pl.all = append(pl.all, f...)
		for _, n := range f {
			pl.allBits[n] = true
		}
	}
	for fi, f := range famsB {
		pl.all = append(pl.all, f...)
		if fi == 0 {
			pl.fischlinSet[f[0]] = true
			pl.allBits[f[0]] = true
		}
	}
	return pl
})

func buildPlan() *plan { return planOnce() }

// ecByName builds only the named EC instance ("<family>/<curve>[/<composition>][/zk]"); used by child processes.
func ecByName(name string) *niInst {
	parts := strings.Split(strings.TrimSuffix(name, "/zk"), "/")
	if len(parts) < 2 {
		return nil
	}
	comp := ""
	if len(parts) > 2 {
		comp = parts[2]
	}
	switch parts[1] {
	case "k256":
		return ecFam(newEC("k256", k256.NewCurve()), parts[0], comp)
	case "bls12381g1":
		return ecFam(newEC("bls12381g1", bls12381.NewG1()), parts[0], comp)
	}
	return nil
}

func ecFam[P curves.Point[P, F, S], F algebra.FieldElement[F], S algebra.PrimeFieldElement[S]](e *ecCtx[P, F, S], fam, comp string) *niInst {
	switch fam {
	case "schnorr+batchschnorr2":
		return cartOf(schnorrCase(e), batchSchnorrCase(e, 2), comp)
	case "batchschnorr2+schnorr":
		return cartOf(batchSchnorrCase(e, 2), schnorrCase(e), comp)
	case "schnorr+okamoto":
		return cartOf(schnorrCase(e), okamotoCase(e), comp)
	case "schnorr":
		return compOf(schnorrCase(e), comp)
	case "batchschnorr2":
		return compOf(batchSchnorrCase(e, 2), comp)
	case "batchschnorr3":
		return compOf(batchSchnorrCase(e, 3), comp)
	case "okamoto":
		return compOf(okamotoCase(e), comp)
	case "elcomop":
		return compOf(elcomopCase(e), comp)
	case "elog":
		return compOf(elogCase(e), comp)
	}
	return nil
}

func compOf[X sigma.Statement, W sigma.Witness, A sigma.Statement, S sigma.State, Z sigma.Response](c *sigCase[X, W, A, S, Z], comp string) *niInst {
	switch comp {
	case "":
		return c.ni()
	case "and2":
		return andCase(c, 2).ni()
	case "and3":
		return andCase(c, 3).ni()
	case "and20":
		return andCase(c, 20).ni()
	case "orL":
		return orCase(c, 0).ni()
	case "orR":
		return orCase(c, 1).ni()
	case "or4.0":
		return orCaseN(c, 4, 0).ni()
	case "or4.3":
		return orCaseN(c, 4, 3).ni()
	case "or5.2":
		return orCaseN(c, 5, 2).ni()
	}
	return nil
}

// heavyInsts: the Paillier-based protocols with fixed test keys (plain composition). Each is built lazily (a child
// process builds only the one it needs).
type lazyInst struct {
	name string
	get  func() *niInst
}

var heavyTable = []lazyInst{
	{"nthroot/1024", sync.OnceValue(func() *niInst { return nthrootCase(1024).ni() })},
	{"range/1024", sync.OnceValue(func() *niInst { return rangeCase(1024).ni() })},
	{"prm/512", sync.OnceValue(func() *niInst { return prmCase(512).ni() })},
	{"cggmp21-enc/1024", sync.OnceValue(func() *niInst { return encCase(1024).ni() })},
	{"cggmp21-encelg/1024", sync.OnceValue(func() *niInst { return encelgCase(1024).ni() })},
	{"cggmp21-fac/1024", sync.OnceValue(func() *niInst { return facCase(1024).ni() })},
	{"cggmp21-blummod/1024", sync.OnceValue(func() *niInst { return blummodCase(1024).ni() })},
	{"cggmp21-affg/2048", sync.OnceValue(func() *niInst { return affgCase(2048).ni() })},
	{"cggmp21-affgstar/2048", sync.OnceValue(func() *niInst { return affgstarCase(2048).ni() })},
	{"cggmp21-dec/2048", sync.OnceValue(func() *niInst { return decCase(2048).ni() })},
	{"pailliern/1024", sync.OnceValue(func() *niInst { return paillierNInst(1024) })},
}

func heavyInsts() []*niInst {
	var out []*niInst
	for _, l := range heavyTable {
		out = append(out, l.get())
	}
	return out
}

// heavyByName builds only the named Paillier-based instance (nil if it is not one).
func heavyByName(name string) *niInst {
	for _, l := range heavyTable {
		if l.name == name || l.name+"/zk" == name {
			return l.get()
		}
	}
	return nil
}

// interactiveInsts: the interactive Paillier protocols (LP with k = 3 repetitions, LPDL), 1024-bit key.
var interactiveOnce = sync.OnceValue(func() []*interactive {
	return []*interactive{lpCase(1024, 3), lpdlCase(1024)}
})

func interactiveInsts() []*interactive { return interactiveOnce() }

func TestCheck(t *testing.T) {
	engine.Rule("One honest proof per configuration (protocol x composition {plain, AND2, AND3, OR-left, OR-right; Schnorr: OR of 4 (witness first / last) and of 5 (witness in the middle), AND of 20; binary compositions of two DIFFERENT protocols (Schnorr|batch-Schnorr(2) in both orders, Schnorr|Okamoto): OR with the witness left / right, AND} x compiler {Fiat-Shamir, Fischlin, randomised Fischlin} x group; Paillier-based protocols: plain, fixed 512/1024/2048-bit test keys), produced with fixed deterministic randomness, then EVERY listed single edit, each alone: (context) 22 prover/verifier context pairs [same context in 8 histories = must verify; other session, sid field only, extra AppendBytes, extra AppendBytes AFTER the prover/verifier object was constructed on the context and before Prove/Verify, other prover-id label, cloned after an earlier ExtractBytes, sub-context: on the verifier's side and on the prover's side = must be rejected], replay on the advanced verifier context, other protocol name, other compiler, each statement component replaced by another valid one, proof of instance j for instance k; (proof) every CBOR-tree edit of the proof bytes: value bits of every leaf (quick EC/Fiat-Shamir: every bit; repeated Fischlin proofs and Paillier-sized proofs: LSB/middle/MSB or LSB with the index alphabet {0,1,mid,last-1,last} / {0,last} / {0} on arrays and maps longer than 8 - see the per-section notes), map-key and tag edits, swaps of same-kind leaves and of neighbouring array elements, drop / duplicate / blank (empty, null) of every component, array truncate / extend (null, empty string), the same extend / drop / swap applied to ALL sibling arrays of one length at once (parallel arrays of a repeated proof), re-wraps (array, tag 55799, byte string, non-minimal head, trailing byte, truncation), splice of the same leaf of another valid proof. A case is distinct by (configuration, edit description) and non-trivial when Verify ran on bytes different from the original. Sigma level (cheap protocols additionally: every one-byte and the empty challenge, simulated without a witness and assembled into a Fiat-Shamir proof, must be rejected): 4 challenges {0, 1, ff..ff, pattern} on ONE commitment: each response verifies, all 12 ordered challenge pairs go through the extractor (where exposed; per branch for compositions) and the result must satisfy ValidateStatement, cross-accepted responses must extract too, 4 simulator runs must verify. Interactive protocols (zk compiler over every selected sigma protocol; Paillier LP, LPDL): honest run accepted, then every edit of every message of the run (same edit alphabet) must end without the verifier accepting.")
	engine.Assume("the proof randomness is one fixed deterministic stream per configuration (errgroup workers of sigand/sigor may interleave reads, so proof bytes can differ between processes; oracles never compare proof bytes across runs and edits are addressed by tree position)",
		"/verif/mc/ref/cbor parses and re-encodes canonical CBOR losslessly (asserted on every proof/message before mutation)",
		"exemption rule, decided mechanically: an accepted edit is the same proof iff Marshal(Unmarshal(edited)) == original bytes",
		"the sid-field-only context edit overwrites the private sid of a session.Context by reflection; it isolates the explicit session-id binding from the transcript binding (sid and initial transcript both derive from the common seed)",
		"every structure-changing edit (all classes except value bits and splices) is verified in a child process (re-exec of this test binary, batched per chunk) because a panic inside a library errgroup goroutine (sigand/sigor/encryption workers) cannot be recovered by any caller; 'crash@site' = the child process was killed by such a panic, 'panic@site' = a panic recovered in the caller's goroutine; site = first library frame under the panic",
		"Paillier / ring-Pedersen test keys are built from fixed primes (table shared with C16); key-size floors are relaxed because the check is a test binary",
		"two simultaneous edits, adversarially computed proofs and timing are outside the space", "purego build of the library")

	pl := buildPlan()
	all, fischlinSet := pl.all, pl.fischlinSet
	all = only(all)
	ec := len(all) > 0
	if ec {
		engine.Explore(admissionBody(all), engine.Opts{Name: "admission", Budget: engine.Budget(time.Minute, 5*time.Minute)})
		engine.Explore(refusalBody(), engine.Opts{Name: "constructor-refusals", Budget: engine.Budget(time.Minute, 5*time.Minute)})
	}
	var cfgs []cfg
	var zkSet []*niInst
	for _, n := range all {
		if engine.Thorough() || fischlinSet[n] {
			zkSet = append(zkSet, n)
		}
		for _, c := range compilers {
			cf := cfg{n: n, c: c, mode: bitsAll, chunk: 96}
			if c == fiatshamir.Name && !engine.Thorough() && !pl.allBits[n] {
				// quick, Fiat-Shamir: every bit of the proof for every plain protocol on k256 and for the AND2 / OR-left
				// compositions of Schnorr, batch-Schnorr(2) and Okamoto; the other compositions (same composition code
				// over the same leaves) and the BLS slice use LSB/middle/MSB per leaf
				cf.mode = bitsLeaf
			}
			if c != fiatshamir.Name {
				cf.chunk = 24
				if !engine.Thorough() {
					if !fischlinSet[n] {
						continue
					}
					// quick: the 16-fold repeated Fischlin proofs use the index alphabet {0,1,mid,last-1,last} on the
					// repetition arrays and the leaf-level bit alphabet (every bit for plain Schnorr/k256)
					cf.restrict, cf.light = idx5, os.Getenv("C08_NOLIGHT") == "" // C08_NOLIGHT: development aid, all context pairs in quick
					if n.name != "schnorr/k256" {
						cf.mode = bitsLeaf
					}
				}
			}
			cfgs = append(cfgs, cf)
		}
	}
	// Paillier-based protocols (fixed test keys; plain composition)
	var heavy []*niInst
	for _, l := range heavyTable {
		if f := os.Getenv("VERIF_C08_ONLY"); f == "" || strings.Contains(l.name, f) {
			heavy = append(heavy, l.get())
		}
	}
	var heavyCfgs []cfg
	var heavyZk []*niInst
	for _, n := range heavy {
		u := n.unitMS
		if n.zk != nil && (u <= 50 || (engine.Thorough() && u <= 500)) {
			heavyZk = append(heavyZk, n)
		}
		for _, c := range compilers {
			if n.sigmaLevel == nil && c != fiatshamir.Name {
				continue // pailliern is its own non-interactive proof
			}
			cf := cfg{n: n, c: c, light: os.Getenv("C08_NOLIGHT") == "", chunk: max(4, min(96, 4000/u))}
			switch {
			case c != fiatshamir.Name:
				// Fischlin-type compilers on Paillier-sized protocols: thorough only, and only where one Fiat-Shamir
				// verification costs <= 200 ms (range, affg*, dec would need minutes per 16-fold proof)
				if !engine.Thorough() || u > 200 {
					continue
				}
				cf.mode, cf.restrict, cf.chunk = bitsLSB, idx2, max(1, 100/u)
			case engine.Thorough():
				cf.light = false
				switch {
				case u <= 50:
					cf.mode, cf.restrict = bitsAll, idx5 // every bit where the proof is <= 4 KiB (else leaf level, see edits())
				case u <= 500:
					cf.mode, cf.restrict = bitsLeaf, idx5
				default:
					cf.mode, cf.restrict = bitsLSB, idx1
				}
			case u <= 50:
				cf.mode, cf.restrict = bitsLeaf, idx5
			case u <= 200:
				cf.mode, cf.restrict = bitsLSB, idx2
			default:
				cf.mode, cf.restrict, cf.lite = bitsLSB, idx1, u > 1000
			}
			heavyCfgs = append(heavyCfgs, cf)
		}
	}
	if ec {
		engine.Explore(contextBody(cfgs), engine.Opts{Name: "context+statement/ec", MaxFails: 1 << 20, Budget: engine.Budget(4*time.Minute, 30*time.Minute)})
		engine.Explore(proofEditBody(cfgs), engine.Opts{Name: "proof-edits/ec", MaxFails: 1 << 20, Budget: engine.Budget(6*time.Minute, 90*time.Minute)})
		engine.Explore(sigmaBody(all), engine.Opts{Name: "sigma-level/ec", Budget: engine.Budget(2*time.Minute, 10*time.Minute)})
		if len(zkList(zkSet)) > 0 {
			engine.Explore(iaBody(zkList(zkSet)), engine.Opts{Name: "zk-compiler/ec", MaxFails: 1 << 20, Budget: engine.Budget(3*time.Minute, 30*time.Minute)})
		}
	}
	var sec *engine.Section
	if len(heavy) > 0 {
		var heavySigma []*niInst
		for _, n := range heavy {
			if n.sigmaLevel != nil {
				heavySigma = append(heavySigma, n)
			}
		}
		if len(heavySigma) > 0 {
			engine.Explore(admissionBody(heavySigma), engine.Opts{Name: "admission/paillier", Budget: engine.Budget(time.Minute, 5*time.Minute)})
		}
		engine.Explore(contextBody(heavyCfgs), engine.Opts{Name: "context+statement/paillier", MaxFails: 1 << 20, Budget: engine.Budget(4*time.Minute, 30*time.Minute)})
		sec = engine.Explore(proofEditBody(heavyCfgs), engine.Opts{Name: "proof-edits/paillier", MaxFails: 1 << 20, Budget: engine.Budget(6*time.Minute, 90*time.Minute)})
		if len(heavySigma) > 0 {
			engine.Explore(sigmaBody(heavySigma), engine.Opts{Name: "sigma-level/paillier", Budget: engine.Budget(3*time.Minute, 15*time.Minute)})
		}
		if len(heavyZk) > 0 {
			engine.Explore(iaBody(zkList(heavyZk)), engine.Opts{Name: "zk-compiler/paillier", MaxFails: 1 << 20, Budget: engine.Budget(3*time.Minute, 30*time.Minute)})
		}
	}
	ias := interactiveInsts()
	if !engine.Thorough() {
		ias = ias[:1] // LPDL (two ~0.5 s range-proof passes per run) is explored in the thorough tier only
	}
	if f := os.Getenv("VERIF_C08_ONLY"); f != "" {
		var keep []*interactive
		for _, ia := range ias {
			if strings.Contains(ia.name, f) {
				keep = append(keep, ia)
			}
		}
		ias = keep
	}
	if len(ias) > 0 {
		s2 := engine.Explore(iaBody(ias), engine.Opts{Name: "interactive/paillier", MaxFails: 1 << 20, Budget: engine.Budget(3*time.Minute, 40*time.Minute)})
		if sec == nil {
			sec = s2
		}
	}
	printTally(sec)
	if sec != nil {
		sec.Note("structure-changing edits verified in child processes: %d jobs in %d processes, %d of them killed the child (unrecoverable panic in a library goroutine); total child wall time %.1fs", childJobs.Load(), childCount.Load(), childCrashes.Load(), float64(childNanos.Load())/1e9)
	}
}
