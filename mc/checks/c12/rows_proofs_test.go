package c12

import (
	"fmt"
	"io"
	"math/big"
	"sync"

	"github.com/bronlabs/bron-crypto/pkg/base/curves/k256"
	"github.com/bronlabs/bron-crypto/pkg/base/nt/num"
	"github.com/bronlabs/bron-crypto/pkg/base/serde"
	"github.com/bronlabs/bron-crypto/pkg/commitments/intcom"
	"github.com/bronlabs/bron-crypto/pkg/commitments/indcpacom"
	"github.com/bronlabs/bron-crypto/pkg/encryption/elgamal"
	"github.com/bronlabs/bron-crypto/pkg/encryption/paillier"
	"github.com/bronlabs/bron-crypto/pkg/mpc/session"
	"github.com/bronlabs/bron-crypto/pkg/mpc/sharing"
	"github.com/bronlabs/bron-crypto/pkg/proofs/cggmp21/affg"
	"github.com/bronlabs/bron-crypto/pkg/proofs/cggmp21/affgstar"
	"github.com/bronlabs/bron-crypto/pkg/proofs/cggmp21/blummod"
	"github.com/bronlabs/bron-crypto/pkg/proofs/cggmp21/dec"
	"github.com/bronlabs/bron-crypto/pkg/proofs/cggmp21/enc"
	"github.com/bronlabs/bron-crypto/pkg/proofs/cggmp21/encelg"
	"github.com/bronlabs/bron-crypto/pkg/proofs/cggmp21/fac"
	"github.com/bronlabs/bron-crypto/pkg/proofs/dlog/batch_schnorr"
	"github.com/bronlabs/bron-crypto/pkg/proofs/dlog/schnorr"
	"github.com/bronlabs/bron-crypto/pkg/proofs/prm"
	"github.com/bronlabs/bron-crypto/pkg/proofs/sigma"
	"github.com/bronlabs/bron-crypto/pkg/proofs/sigma/compiler"
	"github.com/bronlabs/bron-crypto/pkg/proofs/sigma/compiler/fiatshamir"
	"github.com/bronlabs/bron-crypto/pkg/proofs/sigma/compiler/fischlin"
	"github.com/bronlabs/bron-crypto/pkg/proofs/sigma/compiler/randfischlin"

	"verifmc/engine"
)

// Sigma statements / commitments / responses mostly have neither accessors nor Equal. Their common validity rule is
// that the object can be bound into a transcript: Bytes() (what every compiler calls on a received object before
// anything else) returns without panicking. Equality = equality of canonical encodings.
type byteser interface{ Bytes() []byte }

func bytesValid[T byteser](v T) (T, error) {
	_ = v.Bytes()
	return v, nil
}

type transcript[X, W, A, S, Z any] struct {
	name string
	x    X
	w    W
	a    A
	s    S
	z    Z
}

type sigmaSpec[X sigma.Statement, W sigma.Witness, A sigma.Statement, S sigma.State, Z sigma.Response] struct {
	name  string // row prefix
	dir   string // repo-relative package directory of the wire types ("" = not covering a method by name)
	mk    func(rng io.Reader) sigma.Protocol[X, W, A, S, Z]
	insts func() []nv[[2]any] // (statement, witness) pairs
	// which of the five objects have a wire form of their own
	witness, state bool
	// the statement is a plain struct without a decoder of its own
	plainStatement bool
}

func patternChallenge(n int) sigma.ChallengeBytes {
	e := make([]byte, n)
	for i := range e {
		e[i] = byte(0x35 + 29*i)
	}
	return e
}

// addSigma registers one row per wire type of a sigma protocol, with values taken from honest transcripts.
func addSigma[X sigma.Statement, W sigma.Witness, A sigma.Statement, S sigma.State, Z sigma.Response](sp sigmaSpec[X, W, A, S, Z]) func() []transcript[X, W, A, S, Z] {
	run := sync.OnceValue(func() []transcript[X, W, A, S, Z] {
		var out []transcript[X, W, A, S, Z]
		for i, in := range sp.insts() {
			p := sp.mk(stream(fmt.Sprintf("sigma/%s/%d", sp.name, i)))
			x, w := in.v[0].(X), in.v[1].(W)
			a, s, err := p.ComputeProverCommitment(x, w)
			must0(err)
			e := patternChallenge(p.GetChallengeBytesLength())
			z, err := p.ComputeProverResponse(x, w, a, s, e)
			must0(err)
			must0(p.Verify(x, a, e, z))
			out = append(out, transcript[X, W, A, S, Z]{in.name, x, w, a, s, z})
		}
		return out
	})
	cov := func(t string) string {
		if sp.dir == "" {
			return ""
		}
		return sp.dir + "." + t
	}
	stmt := spec[X]{
		name: sp.name + ".Statement", covers: cov("Statement"), group: "proofs",
		gen: func() []nv[X] {
			var out []nv[X]
			for _, t := range run() {
				out = append(out, nv[X]{t.name, t.x})
			}
			return out
		},
		valid: bytesValid[X],
	}
	if sp.plainStatement {
		// a plain struct with exported fields and a non-validating constructor: no validity rule of its own
		stmt.covers, stmt.valid, stmt.message = "", nil, true
	}
	add(stmt)
	add(spec[A]{
		name: sp.name + ".Commitment", covers: cov("Commitment"), group: "proofs",
		gen: func() []nv[A] {
			var out []nv[A]
			for _, t := range run() {
				out = append(out, nv[A]{t.name, t.a})
			}
			return out
		},
		valid: bytesValid[A],
	})
	add(spec[Z]{
		name: sp.name + ".Response", covers: cov("Response"), group: "proofs",
		gen: func() []nv[Z] {
			var out []nv[Z]
			for _, t := range run() {
				out = append(out, nv[Z]{t.name, t.z})
			}
			return out
		},
		valid: bytesValid[Z],
	})
	if sp.state {
		// prover-local: never received from a peer; round trip, determinism and no-panic only
		add(spec[S]{
			name: sp.name + ".State", covers: cov("State"), group: "proofs", message: true,
			gen: func() []nv[S] {
				var out []nv[S]
				for _, t := range run() {
					out = append(out, nv[S]{t.name, t.s})
				}
				return out
			},
		})
	}
	if sp.witness {
		add(spec[W]{
			name: sp.name + ".Witness", covers: cov("Witness"), group: "proofs",
			gen: func() []nv[W] {
				var out []nv[W]
				for _, t := range run() {
					out = append(out, nv[W]{t.name, t.w})
				}
				return out
			},
			valid: func(w W) (W, error) {
				if b, ok := any(w).(byteser); ok {
					_ = b.Bytes()
				}
				return w, nil
			},
		})
	}
	return run
}

func zI(v int64) *num.Int { return num.Z().FromInt64(v) }

func k256ScalarOf(v *num.Int) KS {
	q := k256.NewScalarField().Order().Big()
	r := new(big.Int).Mod(v.Big(), q)
	return must(k256.NewScalarField().FromBytesBEReduce(r.Bytes()))
}

func pPlainSym(pk *paillier.PublicKey, v *num.Int) *paillier.Plaintext {
	return must(paillier.NewPlaintextSymmetric(v, pk.PlaintextGroup().Modulus()))
}

func proofCtx(party sharing.ID) *session.Context {
	common := make([]byte, 64)
	pair := make([]byte, 64)
	for i := range common {
		common[i] = byte(i*7 + 3)
		pair[i] = byte(i*5 + 1)
	}
	other := sharing.ID(3) - party
	return must(session.NewContext(party, setOf(1, 2), common, map[sharing.ID][]byte{other: pair}))
}

// compiled registers the three non-interactive proof types over one sigma protocol.
func compiled[X sigma.Statement, W sigma.Witness, A sigma.Statement, S sigma.State, Z sigma.Response](name string, mk func(rng io.Reader) sigma.Protocol[X, W, A, S, Z], inst func() (X, W), cover bool) {
	prove := func(cn compiler.Name) []byte {
		rng := stream("compiled/" + name + "/" + string(cn))
		nip := must(compiler.Compile(cn, mk(rng), rng))
		pr := must(nip.NewProver(proofCtx(1)))
		x, w := inst()
		return must(pr.Prove(x, w))
	}
	cv := func(s string) string {
		if cover {
			return s
		}
		return ""
	}
	type fsP = fiatshamir.Proof[A, Z]
	add(spec[*fsP]{
		name: "fiatshamir.Proof[" + name + "]", covers: cv("pkg/proofs/sigma/compiler/fiatshamir/zkmodule.Proof"), group: "proofs",
		gen: func() []nv[*fsP] {
			return []nv[*fsP]{{"honest", must(serdeDecode[*fsP](prove(fiatshamir.Name)))}}
		},
		valid: func(d *fsP) (*fsP, error) {
			_ = d.Commitment().Bytes()
			_ = d.Response().Bytes()
			if len(d.Challenge()) == 0 {
				return nil, fmt.Errorf("empty challenge")
			}
			return d, nil
		},
	})
	type fiP = fischlin.Proof[A, Z]
	add(spec[*fiP]{
		name: "fischlin.Proof[" + name + "]", covers: cv("pkg/proofs/sigma/compiler/fischlin.Proof"), group: "proofs",
		gen: func() []nv[*fiP] {
			return []nv[*fiP]{{"honest", must(serdeDecode[*fiP](prove(fischlin.Name)))}}
		},
		valid: func(d *fiP) (*fiP, error) {
			if len(d.A) == 0 || len(d.A) != len(d.E) || len(d.A) != len(d.Z) {
				return nil, fmt.Errorf("proof dimensions A=%d E=%d Z=%d", len(d.A), len(d.E), len(d.Z))
			}
			for i := range d.A {
				_ = d.A[i].Bytes()
				_ = d.Z[i].Bytes()
				if len(d.E[i]) == 0 {
					return nil, fmt.Errorf("empty challenge %d", i)
				}
			}
			return d, nil
		},
	})
	type rfP = randfischlin.Proof[A, Z]
	add(spec[*rfP]{
		name: "randfischlin.Proof[" + name + "]", covers: cv("pkg/proofs/sigma/compiler/randfischlin.Proof"), group: "proofs",
		gen: func() []nv[*rfP] {
			return []nv[*rfP]{{"honest", must(serdeDecode[*rfP](prove(randfischlin.Name)))}}
		},
		valid: func(d *rfP) (*rfP, error) {
			if len(d.A) == 0 || len(d.A) != len(d.E) || len(d.A) != len(d.Z) {
				return nil, fmt.Errorf("proof dimensions A=%d E=%d Z=%d", len(d.A), len(d.E), len(d.Z))
			}
			for i := range d.A {
				_ = d.A[i].Bytes()
				_ = d.Z[i].Bytes()
				if len(d.E[i]) == 0 {
					return nil, fmt.Errorf("empty challenge %d", i)
				}
			}
			return d, nil
		},
	})
}

func registerProofs() {
	curve := k256.NewCurve()
	fK := k256.NewScalarField()
	g := curve.Generator()
	sc := func(label string) KS {
		rng := stream("proofs/scalar/" + label)
		for {
			s := must(fK.Random(rng))
			if !s.IsZero() {
				return s
			}
		}
	}
	const mau = "pkg/proofs/internal/meta/maurer09"

	// ---- Schnorr (all five Maurer09 wire types) and its three compiled proof forms
	type (
		sX = *schnorr.Statement[KP, KS]
		sW = *schnorr.Witness[KS]
		sA = *schnorr.Commitment[KP, KS]
		sS = *schnorr.State[KS]
		sZ = *schnorr.Response[KS]
	)
	schMk := func(rng io.Reader) sigma.Protocol[sX, sW, sA, sS, sZ] { return must(schnorr.NewProtocol(g, rng)) }
	schInst := func(i int) (sX, sW) {
		w := sc(fmt.Sprintf("schnorr/w%d", i))
		return schnorr.NewStatement(g.ScalarMul(w)), schnorr.NewWitness(w)
	}
	addSigma(sigmaSpec[sX, sW, sA, sS, sZ]{
		name: "schnorr[k256]", dir: mau, mk: schMk, witness: true, state: true,
		insts: func() []nv[[2]any] {
			x0, w0 := schInst(0)
			x1, w1 := schInst(1)
			return []nv[[2]any]{{"inst0", [2]any{x0, w0}}, {"inst1", [2]any{x1, w1}}}
		},
	})
	compiled("schnorr[k256]", schMk, func() (sX, sW) { return schInst(0) }, true)

	// ---- batch Schnorr (k = 2)
	type (
		bX = *batch_schnorr.Statement[KP, KS]
		bW = *batch_schnorr.Witness[KS]
		bA = *batch_schnorr.Commitment[KP, KS]
		bS = *batch_schnorr.State[KS]
		bZ = *batch_schnorr.Response[KS]
	)
	addSigma(sigmaSpec[bX, bW, bA, bS, bZ]{
		name: "batch_schnorr[k256,k=2]", dir: "pkg/proofs/dlog/batch_schnorr", plainStatement: true,
		mk: func(rng io.Reader) sigma.Protocol[bX, bW, bA, bS, bZ] { return must(batch_schnorr.NewProtocol[KP, KS](2, curve, rng)) },
		insts: func() []nv[[2]any] {
			w0, w1 := sc("batch/w0"), sc("batch/w1")
			return []nv[[2]any]{{"inst0", [2]any{batch_schnorr.NewStatement(g, g.ScalarMul(w0), g.ScalarMul(w1)), batch_schnorr.NewWitness(w0, w1)}}}
		},
	})

	// ---- Paillier-based proofs with 256-bit test moduli
	// prm / blummod: 256-bit moduli; enc / fac: 512-bit moduli (rangeBits >= 128, slackBits >= 256);
	// encelg / affg / affgstar / dec: l >= 256, epsilon >= 512, l' >= 1280 force 2048-bit moduli
	rpKey := sync.OnceValue(func() *tdk { return &tdk{intcomTrapdoor(primeTable[2], "proofs/ring-pedersen")} })
	rp512 := sync.OnceValue(func() *tdk { return &tdk{intcomTrapdoor(bigPrimes["safe512"], "proofs/ring-pedersen512")} })
	rp2048 := sync.OnceValue(func() *tdk { return &tdk{intcomTrapdoor(bigPrimes["safe2048"], "proofs/ring-pedersen2048")} })
	pk512 := sync.OnceValue(func() *paillier.PublicKey { return paillierSK(bigPrimes["general512"]).Public() })
	pkGf := sync.OnceValue(func() *paillier.PublicKey { return paillierSK(bigPrimes["general2048"]).Public() })
	pkBf := sync.OnceValue(func() *paillier.PublicKey { return paillierSK(bigPrimes["blum2048"]).Public() })
	pkB := paillierSK(primeTable[1]).Public() // blum 256
	nonce := func(pk *paillier.PublicKey, label string) *paillier.Nonce {
		return must(pk.SampleNonce(stream("proofs/nonce/" + label)))
	}

	addSigma(sigmaSpec[*prm.Statement, *prm.Witness, *prm.Commitment, *prm.State, *prm.Response]{
		name: "prm", dir: "pkg/proofs/prm", state: true,
		mk: func(rng io.Reader) sigma.Protocol[*prm.Statement, *prm.Witness, *prm.Commitment, *prm.State, *prm.Response] {
			return must(prm.NewProtocol(rng))
		},
		insts: func() []nv[[2]any] {
			tk := rpKey().k
			return []nv[[2]any]{{"safe256", [2]any{must(prm.NewStatement(tk.Export())), must(prm.NewWitness(tk))}}}
		},
	})
	addSigma(sigmaSpec[*enc.Statement, *enc.Witness, *enc.Commitment, *enc.State, *enc.Response]{
		name: "cggmp21/enc", dir: "pkg/proofs/cggmp21/enc",
		mk: func(rng io.Reader) sigma.Protocol[*enc.Statement, *enc.Witness, *enc.Commitment, *enc.State, *enc.Response] {
			return must(enc.NewProtocol(pk512(), rp512().k.Export(), 128, 256, rng))
		},
		insts: func() []nv[[2]any] {
			pk := pk512()
			k := pPlainSym(pk, zI(-123456789))
			rho := nonce(pk, "enc/rho")
			return []nv[[2]any]{{"k=-123456789", [2]any{must(enc.NewStatement(must(pk.EncryptWithNonce(k, rho)))), must(enc.NewWitness(k, rho))}}}
		},
	})
	addSigma(sigmaSpec[*fac.Statement, *fac.Witness, *fac.Commitment, *fac.State, *fac.Response]{
		name: "cggmp21/fac", dir: "pkg/proofs/cggmp21/fac",
		mk: func(rng io.Reader) sigma.Protocol[*fac.Statement, *fac.Witness, *fac.Commitment, *fac.State, *fac.Response] {
			return must(fac.NewProtocol(rp2048().k.Export(), 128, 256, rng))
		},
		insts: func() []nv[[2]any] {
			sk := paillierSK(bigPrimes["general2048"])
			return []nv[[2]any]{{"general2048", [2]any{must(fac.NewStatement(sk.Public())), must(fac.NewWitness(sk))}}}
		},
	})
	blumRun := addSigma(sigmaSpec[*blummod.Statement, *blummod.Witness, *blummod.Commitment, *blummod.State, *blummod.Response]{
		name: "cggmp21/blummod", dir: "pkg/proofs/cggmp21/blummod", state: true,
		mk: func(rng io.Reader) sigma.Protocol[*blummod.Statement, *blummod.Witness, *blummod.Commitment, *blummod.State, *blummod.Response] {
			return must(blummod.NewProtocol(rng))
		},
		insts: func() []nv[[2]any] {
			sk := paillierSK(primeTable[1])
			return []nv[[2]any]{{"blum256", [2]any{must(blummod.NewStatement(sk.Public())), must(blummod.NewWitness(sk))}}}
		},
	})
	add(spec[*blummod.ResponseItem]{
		name: "cggmp21/blummod.ResponseItem", covers: "pkg/proofs/cggmp21/blummod.ResponseItem", group: "proofs",
		gen: func() []nv[*blummod.ResponseItem] {
			// the first and last item of the honest response, re-read from its encoding
			z := blumRun()[0].z
			items, err := decodeField[[]*blummod.ResponseItem](z, "items")
			if err != nil || len(items) == 0 {
				// field name differs: fall back to a directly constructed item
				n := nonce(pkB, "blummod/item")
				return []nv[*blummod.ResponseItem]{{"constructed", must(blummod.NewResponseItem(n, 0, 1, n))}}
			}
			return []nv[*blummod.ResponseItem]{{"first", items[0]}, {"last", items[len(items)-1]}}
		},
	})

	egSk := must(elgamal.NewSecretKey[KP, KS](g, sc("encelg/elgamal-sk")))
	egKey := sync.OnceValue(func() *indcpacom.HomomorphicCommitmentKey[*elgamal.PublicKey[KP, KS], *elgamal.Plaintext[KP, KS], *elgamal.Nonce[KS], *elgamal.Ciphertext[KP, KS], KS] {
		return must(indcpacom.NewHomomorphicCommitmentKey(egSk.Public()))
	})
	type (
		egX = *encelg.Statement[KP, KB, KS]
		egW = *encelg.Witness[KS]
		egA = *encelg.Commitment[KP, KB, KS]
		egS = *encelg.State[KS]
		egZ = *encelg.Response[KS]
	)
	addSigma(sigmaSpec[egX, egW, egA, egS, egZ]{
		name: "cggmp21/encelg", dir: "pkg/proofs/cggmp21/encelg",
		mk: func(rng io.Reader) sigma.Protocol[egX, egW, egA, egS, egZ] {
			return must(encelg.NewProtocol[KP, KB, KS](rp2048().k.Export(), egKey(), 256, 512, rng))
		},
		insts: func() []nv[[2]any] {
			xInt := zI(424242)
			bxW := must(indcpacom.NewWitness(must(elgamal.NewNonce[KS](sc("encelg/b")))))
			bxM := must(indcpacom.NewMessage(must(elgamal.NewPlaintext[KP, KS](curve.ScalarBaseMul(k256ScalarOf(xInt))))))
			bx := must(egKey().CommitWithWitness(bxM, bxW))
			pkG := pkGf()
			rho := nonce(pkG, "encelg/rho")
			ct := must(pkG.EncryptWithNonce(pPlainSym(pkG, xInt), rho))
			return []nv[[2]any]{{"x=424242", [2]any{must(encelg.NewStatement[KP, KB, KS](pkG, ct, bx)), must(encelg.NewWitness[KS](xInt, rho, bxW))}}}
		},
	})

	// affine operation proofs: N0 = general key, N1 = blum key
	type affParts struct {
		c, d, y   *paillier.Ciphertext
		xPoint    KP
		xInt      *num.Int
		yN1       *paillier.Plaintext
		rho, rhoY *paillier.Nonce
	}
	aff := func(tag string) affParts {
		pkG, pkB := pkGf(), pkBf()
		xInt, yInt := zI(65537), zI(-99991)
		p := affParts{xInt: xInt}
		p.xPoint = curve.ScalarBaseMul(k256ScalarOf(xInt))
		p.yN1 = pPlainSym(pkB, yInt)
		p.rhoY = nonce(pkB, tag+"/rhoY")
		p.y = must(pkB.EncryptWithNonce(p.yN1, p.rhoY))
		p.c = must(pkG.EncryptWithNonce(pPlainSym(pkG, zI(123)), nonce(pkG, tag+"/c")))
		p.rho = nonce(pkG, tag+"/rho")
		encY := must(pkG.EncryptWithNonce(pPlainSym(pkG, yInt), p.rho))
		p.d = must(pkG.CiphertextOp(must(pkG.CiphertextScalarOp(p.c, xInt)), encY))
		return p
	}
	type (
		agX = *affg.Statement[KP, KB, KS]
		agA = *affg.Commitment[KP, KB, KS]
	)
	addSigma(sigmaSpec[agX, *affg.Witness, agA, *affg.State, *affg.Response]{
		name: "cggmp21/affg", dir: "pkg/proofs/cggmp21/affg",
		mk: func(rng io.Reader) sigma.Protocol[agX, *affg.Witness, agA, *affg.State, *affg.Response] {
			return must(affg.NewProtocol[KP, KB, KS](rp2048().k.Export(), 256, 1280, 512, curve, rng))
		},
		insts: func() []nv[[2]any] {
			p := aff("affg")
			return []nv[[2]any]{{"x=65537,y=-99991", [2]any{must(affg.NewStatement[KP, KB, KS](pkGf(), pkBf(), p.c, p.d, p.y, p.xPoint)), must(affg.NewWitness(p.xInt, p.yN1, p.rho, p.rhoY))}}}
		},
	})
	if engine.Thorough() {
		// proof generation costs seconds at these sizes
		type (
			asX = *affgstar.Statement[KP, KB, KS]
			asA = *affgstar.Commitment[KP, KB, KS]
		)
		addSigma(sigmaSpec[asX, *affgstar.Witness, asA, *affgstar.State, *affgstar.Response]{
			name: "cggmp21/affgstar", dir: "pkg/proofs/cggmp21/affgstar",
			mk: func(rng io.Reader) sigma.Protocol[asX, *affgstar.Witness, asA, *affgstar.State, *affgstar.Response] {
				return must(affgstar.NewProtocol[KP, KB, KS](256, 1280, 512, curve, rng))
			},
			insts: func() []nv[[2]any] {
				p := aff("affgstar")
				return []nv[[2]any]{{"x=65537,y=-99991", [2]any{must(affgstar.NewStatement[KP, KB, KS](pkGf(), pkBf(), p.c, p.d, p.y, p.xPoint)), must(affgstar.NewWitness(p.xInt, p.yN1, p.rho, p.rhoY))}}}
			},
		})
		type (
			dcX = *dec.Statement[KP, KB, KS]
			dcA = *dec.Commitment[KP, KB, KS]
		)
		addSigma(sigmaSpec[dcX, *dec.Witness, dcA, *dec.State, *dec.Response]{
			name: "cggmp21/dec", dir: "pkg/proofs/cggmp21/dec",
			mk: func(rng io.Reader) sigma.Protocol[dcX, *dec.Witness, dcA, *dec.State, *dec.Response] {
				return must(dec.NewProtocol[KP, KB, KS](256, 1280, 512, g, rng))
			},
			insts: func() []nv[[2]any] {
				pkG := pkGf()
				xInt, yInt := zI(65537), zI(-99991)
				xP, sP := curve.ScalarBaseMul(k256ScalarOf(xInt)), curve.ScalarBaseMul(k256ScalarOf(yInt))
				k := must(pkG.EncryptWithNonce(pPlainSym(pkG, zI(123)), nonce(pkG, "dec/k")))
				rho := nonce(pkG, "dec/rho")
				encY := must(pkG.EncryptWithNonce(pPlainSym(pkG, yInt), rho))
				kXInv := must(pkG.CiphertextOpInv(must(pkG.CiphertextScalarOp(k, xInt))))
				d := must(pkG.CiphertextOp(encY, kXInv))
				return []nv[[2]any]{{"x=65537,y=-99991", [2]any{must(dec.NewStatement[KP, KB, KS](pkG, k, xP, d, sP)), must(dec.NewWitness(xInt, yInt, rho))}}}
			},
		})
	}
}

type tdk struct{ k *intcom.TrapdoorKey }

func serdeDecode[T any](b []byte) (T, error) { return serde.UnmarshalCBOR[T](b) }
