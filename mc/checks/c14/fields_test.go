package c14

import (
	"fmt"
	"math/big"

	fieldsImpl "github.com/bronlabs/bron-crypto/pkg/base/algebra/impl/fields"
	"github.com/bronlabs/bron-crypto/pkg/base/curves/edwards25519"
	edImpl "github.com/bronlabs/bron-crypto/pkg/base/curves/edwards25519/impl"
	"github.com/bronlabs/bron-crypto/pkg/base/curves/k256"
	k256Impl "github.com/bronlabs/bron-crypto/pkg/base/curves/k256/impl"
	"github.com/bronlabs/bron-crypto/pkg/base/curves/p256"
	p256Impl "github.com/bronlabs/bron-crypto/pkg/base/curves/p256/impl"
	"github.com/bronlabs/bron-crypto/pkg/base/curves/pairable/bls12381"
	blsImpl "github.com/bronlabs/bron-crypto/pkg/base/curves/pairable/bls12381/impl"
	"github.com/bronlabs/bron-crypto/pkg/base/curves/pasta"
	pastaImpl "github.com/bronlabs/bron-crypto/pkg/base/curves/pasta/impl"

	"verifmc/engine"
	"verifmc/ref/curve"
)

// libFE is the public field-element API exercised by C14.
type libFE[W any] interface {
	Add(W) W
	Sub(W) W
	Mul(W) W
	Neg() W
	Square() W
	Double() W
	TryInv() (W, error)
	TryDiv(W) (W, error)
	Equal(W) bool
	IsZero() bool
	IsOne() bool
	Bytes() []byte
	Clone() W
}

// sqrtVia reaches the low-level Sqrt (the public wrappers do not export it) through the exported Fp() accessor.
func sqrtVia[FP fieldsImpl.FiniteFieldElementPtr[FP, F], F any, WP interface {
	*W
	Fp() FP
}, W any](a WP) (WP, bool) {
	var r W
	ok := WP(&r).Fp().Sqrt(a.Fp())
	return &r, ok == 1
}

type libPrimeField[W any] interface {
	FromBytes([]byte) (W, error)
	FromWideBytes([]byte) (W, error)
	FromBytesBEReduce([]byte) (W, error)
	FromUint64(uint64) W
	Zero() W
	One() W
	ElementSize() int
	WideElementSize() int
}

type primeFieldCtx[W libFE[W]] struct {
	name  string
	p     *big.Int // typed-in modulus (from ref/curve)
	field libPrimeField[W]
	sqrt  func(W) (W, bool)
}

type fel[W any] struct {
	name string
	v    *big.Int // value mod p
	lib  W
}

func (c *primeFieldCtx[W]) F() *curve.PrimeField { return curve.NewPrimeField(c.p) }

// alphabet: boundary values of the field, limb-boundary powers of two (64-bit limbs and the 51-bit limbs of the
// 25519 field), a non-residue and residues, and - where FromBytes admits them - unreduced encodings p, p+1, 2^(8n)-1.
func (c *primeFieldCtx[W]) alphabet(x *engine.X) []fel[W] {
	F := c.F()
	p := c.p
	size := c.field.ElementSize()
	var out []fel[W]
	seen := map[string]bool{}
	add := func(name string, v *big.Int) {
		r := F.Red(v)
		if seen[r.String()] {
			return
		}
		seen[r.String()] = true
		e, err := c.field.FromBytes(r.FillBytes(make([]byte, size)))
		if err != nil {
			x.Failf(c.name+"/frombytes", "%s: FromBytes refused the canonical encoding of %s = %v: %v", c.name, name, r, err)
			return
		}
		out = append(out, fel[W]{name, r, e})
	}
	for _, v := range []int64{0, 1, 2, 3, 4} {
		add(fmt.Sprint(v), bi(v))
	}
	for _, d := range []int64{1, 2, 3} {
		add(fmt.Sprintf("p-%d", d), new(big.Int).Sub(p, bi(d)))
	}
	add("(p-1)/2", new(big.Int).Rsh(new(big.Int).Sub(p, bi(1)), 1))
	add("(p+1)/2", new(big.Int).Rsh(new(big.Int).Add(p, bi(1)), 1))
	for _, k := range []uint{31, 32, 51, 63, 64, 102, 127, 128, 153, 191, 192, 204, 254, 255, 256, 319, 320, 380} {
		for _, d := range []int64{-1, 1} {
			v := new(big.Int).Add(pow2(k), bi(d))
			if v.Cmp(p) < 0 {
				add(fmt.Sprintf("2^%d%+d", k, d), v)
			}
		}
	}
	add("2^(bits-1)", pow2(uint(p.BitLen()-1)))
	nr := bi(2)
	for F.Legendre(nr) != -1 {
		nr.Add(nr, bi(1))
	}
	add("nr", nr)
	add("nr^2", F.Sqr(nr))
	add("p-nr", F.Neg(nr))
	add("-1/nr", F.Neg(mustInv(F, nr)))
	res := bi(5)
	for F.Legendre(res) != 1 {
		res.Add(res, bi(1))
	}
	add("residue", res)
	// unreduced encodings, when the constructor admits them, denote v mod p (their admission itself is C13's business)
	for _, u := range []struct {
		name string
		v    *big.Int
	}{{"enc:p", p}, {"enc:p+1", new(big.Int).Add(p, bi(1))}, {"enc:2^(8n)-1", new(big.Int).Sub(pow2(uint(8*size)), bi(1))}, {"enc:2p-1", new(big.Int).Sub(new(big.Int).Lsh(p, 1), bi(1))}} {
		if u.v.BitLen() > 8*size {
			continue
		}
		e, err := c.field.FromBytes(u.v.FillBytes(make([]byte, size)))
		if err != nil {
			continue
		}
		out = append(out, fel[W]{u.name, F.Red(u.v), e})
	}
	return out
}

func mustInv(F *curve.PrimeField, a *big.Int) *big.Int {
	r, ok := F.Inv(a)
	if !ok {
		panic("inverse of zero")
	}
	return r
}

func feVal(e interface{ Bytes() []byte }) *big.Int { return new(big.Int).SetBytes(e.Bytes()) }

func primeFieldBody[W libFE[W]](c *primeFieldCtx[W]) func(*engine.X) {
	return func(x *engine.X) {
		F := c.F()
		al := c.alphabet(x)
		n := len(al)
		part := x.Choose("part", 2)
		if part == 1 {
			c.wide(x, F)
			return
		}
		i := x.Choose("a", n)
		a := al[i]
		cmp := func(key, what string, got W, want *big.Int) {
			g := feVal(got)
			if len(got.Bytes()) != c.field.ElementSize() {
				x.Failf(c.name+"/bytes", "%s: %s: Bytes() has length %d", c.name, what, len(got.Bytes()))
			}
			if g.Cmp(want) != 0 {
				x.Failf(c.name+"/"+key, "%s: %s = %v, want %v", c.name, what, g, want)
			}
		}
		// the element reads back as intended (canonical Bytes, even for the unreduced encodings)
		cmp("bytes", "Bytes() of "+a.name, a.lib, a.v)
		// unary
		x.Case(fmt.Sprintf("%s/unary/%d", c.name, i))
		u := "a=" + a.name
		cmp("neg", u+": Neg", a.lib.Neg(), F.Neg(a.v))
		cmp("square", u+": Square", a.lib.Square(), F.Sqr(a.v))
		cmp("double", u+": Double", a.lib.Double(), F.Add(a.v, a.v))
		cmp("clone", u+": Clone", a.lib.Clone(), a.v)
		if a.lib.IsZero() != (a.v.Sign() == 0) || a.lib.IsOne() != (a.v.Cmp(bi(1)) == 0) {
			x.Failf(c.name+"/predicates", "%s: %s: IsZero=%v IsOne=%v", c.name, u, a.lib.IsZero(), a.lib.IsOne())
		}
		inv, err := a.lib.TryInv()
		if a.v.Sign() == 0 {
			if err == nil {
				x.Failf(c.name+"/inv", "%s: TryInv(0) succeeded with %v", c.name, feVal(inv))
			}
		} else if err != nil {
			x.Failf(c.name+"/inv", "%s: %s: TryInv failed: %v", c.name, u, err)
		} else {
			want, _ := F.InvFermat(a.v)
			cmp("inv", u+": TryInv", inv, want)
		}
		r, ok := c.sqrt(a.lib)
		if ok != F.IsSquare(a.v) {
			x.Failf(c.name+"/sqrt/existence", "%s: %s: Sqrt ok=%v but Legendre symbol is %d", c.name, u, ok, F.Legendre(a.v))
		} else if ok {
			if rv := feVal(r); F.Sqr(rv).Cmp(a.v) != 0 {
				x.Failf(c.name+"/sqrt/value", "%s: %s: Sqrt = %v whose square is %v", c.name, u, rv, F.Sqr(rv))
			}
		}
		// binary, all b
		for j := 0; j < n; j++ {
			b := al[j]
			x.Case(fmt.Sprintf("%s/pair/%d/%d", c.name, i, j))
			t := fmt.Sprintf("a=%s b=%s", a.name, b.name)
			cmp("add", t+": Add", a.lib.Add(b.lib), F.Add(a.v, b.v))
			cmp("sub", t+": Sub", a.lib.Sub(b.lib), F.Sub(a.v, b.v))
			cmp("mul", t+": Mul", a.lib.Mul(b.lib), F.Mul(a.v, b.v))
			if eq := a.lib.Equal(b.lib); eq != (a.v.Cmp(b.v) == 0) {
				x.Failf(c.name+"/equal", "%s: %s: Equal=%v", c.name, t, eq)
			}
			q, err := a.lib.TryDiv(b.lib)
			if b.v.Sign() == 0 {
				if err == nil {
					x.Failf(c.name+"/div", "%s: %s: TryDiv by zero succeeded with %v", c.name, t, feVal(q))
				}
			} else if err != nil {
				x.Failf(c.name+"/div", "%s: %s: TryDiv failed: %v", c.name, t, err)
			} else {
				want, _ := F.Div(a.v, b.v)
				cmp("div", t+": TryDiv", q, want)
			}
		}
		cmp("aliasing", u+" after the operations", a.lib, a.v)
		x.Observe(a.name)
	}
}

// wide: FromWideBytes / FromBytesBEReduce / FromUint64 against v mod p.
func (c *primeFieldCtx[W]) wide(x *engine.X, F *curve.PrimeField) {
	p := c.p
	size, wsize := c.field.ElementSize(), c.field.WideElementSize()
	vals := []struct {
		name string
		v    *big.Int
	}{
		{"0", bi(0)}, {"1", bi(1)}, {"p-1", new(big.Int).Sub(p, bi(1))}, {"p", p}, {"p+1", new(big.Int).Add(p, bi(1))},
		{"2p", new(big.Int).Lsh(p, 1)}, {"p^2-1", new(big.Int).Sub(new(big.Int).Mul(p, p), bi(1))}, {"p^2", new(big.Int).Mul(p, p)},
		{"2^(8n)-1", new(big.Int).Sub(pow2(uint(8*size)), bi(1))}, {"2^(8n)", pow2(uint(8 * size))}, {"2^(8n)+1", new(big.Int).Add(pow2(uint(8*size)), bi(1))},
		{"2^(8n-1)", pow2(uint(8*size - 1))}, {"2^(8w-1)", pow2(uint(8*wsize - 1))}, {"2^(8w-1)-1", new(big.Int).Sub(pow2(uint(8*wsize-1)), bi(1))},
		{"2^(8w)-1", new(big.Int).Sub(pow2(uint(8*wsize)), bi(1))}, {"2^(8w)-2^(8n)", new(big.Int).Sub(pow2(uint(8*wsize)), pow2(uint(8*size)))},
		{"p*2^(8n)", new(big.Int).Lsh(p, uint(8*size))}, {"(p-1)*2^(8n)+p-1", new(big.Int).Add(new(big.Int).Lsh(new(big.Int).Sub(p, bi(1)), uint(8*size)), new(big.Int).Sub(p, bi(1)))},
	}
	for _, tv := range vals {
		want := F.Red(tv.v)
		min := len(tv.v.Bytes())
		for _, l := range []int{min, size, size + 1, wsize - 1, wsize} {
			if l < min || l > wsize {
				continue
			}
			x.Case(fmt.Sprintf("%s/wide/%s/%d", c.name, tv.name, l))
			e, err := c.field.FromWideBytes(tv.v.FillBytes(make([]byte, l)))
			if err != nil {
				x.Failf(c.name+"/wide", "%s: FromWideBytes(%s on %d bytes) failed: %v", c.name, tv.name, l, err)
				continue
			}
			if g := feVal(e); g.Cmp(want) != 0 {
				x.Failf(c.name+"/wide", "%s: FromWideBytes(%s on %d bytes) = %v, want %v", c.name, tv.name, l, g, want)
			}
		}
		for _, l := range []int{min, size, wsize, wsize + 17} {
			if l < min {
				continue
			}
			x.Case(fmt.Sprintf("%s/bereduce/%s/%d", c.name, tv.name, l))
			e, err := c.field.FromBytesBEReduce(tv.v.FillBytes(make([]byte, l)))
			if err != nil {
				x.Failf(c.name+"/bereduce", "%s: FromBytesBEReduce(%s on %d bytes) failed: %v", c.name, tv.name, l, err)
				continue
			}
			if g := feVal(e); g.Cmp(want) != 0 {
				x.Failf(c.name+"/bereduce", "%s: FromBytesBEReduce(%s on %d bytes) = %v, want %v", c.name, tv.name, l, g, want)
			}
		}
	}
	for _, v := range []uint64{0, 1, 2, 1<<32 - 1, 1 << 32, 1<<51 - 1, 1 << 51, 1<<51 + 1, 1 << 63, 1<<64 - 1} {
		x.Case(fmt.Sprintf("%s/uint64/%d", c.name, v))
		if g, want := feVal(c.field.FromUint64(v)), F.Red(new(big.Int).SetUint64(v)); g.Cmp(want) != 0 {
			x.Failf(c.name+"/uint64", "%s: FromUint64(%d) = %v", c.name, v, g)
		}
	}
	if feVal(c.field.Zero()).Sign() != 0 || feVal(c.field.One()).Cmp(bi(1)) != 0 {
		x.Failf(c.name+"/constants", "%s: Zero()/One() wrong", c.name)
	}
	x.Observe("wide")
}

// ---------------------------------------------------------------------------------------------------------------
// F_p^2 (base field of BLS12-381 G2)

func fp2Body() func(*engine.X) {
	Q := curve.BLS12381Fp2()
	B := Q.Base
	fld := bls12381.NewG2BaseField()
	type el struct {
		name string
		v    curve.Fp2
		lib  *bls12381.BaseFieldElementG2
	}
	nr := bi(2)
	for B.Legendre(nr) != -1 {
		nr.Add(nr, bi(1))
	}
	coords := []struct {
		name string
		v    *big.Int
	}{
		{"0", bi(0)}, {"1", bi(1)}, {"2", bi(2)}, {"p-1", B.FromInt64(-1)}, {"p-2", B.FromInt64(-2)},
		{"(p+1)/2", new(big.Int).Rsh(new(big.Int).Add(B.P, bi(1)), 1)}, {"nr", nr}, {"2^64+1", new(big.Int).Add(pow2(64), bi(1))}, {"4", bi(4)},
	}
	return func(x *engine.X) {
		var al []el
		for _, c0 := range coords {
			for _, c1 := range coords {
				v := curve.Fp2{C0: c0.v, C1: c1.v}
				e, err := fld.FromBytes(Q.Bytes(v))
				if err != nil {
					x.Failf("fp2/frombytes", "Fp2 FromBytes(%s + %s u) failed: %v", c0.name, c1.name, err)
					return
				}
				al = append(al, el{c0.name + "+" + c1.name + "u", v, e})
			}
		}
		n := len(al)
		i := x.Choose("a", n)
		a := al[i]
		val := func(e *bls12381.BaseFieldElementG2) curve.Fp2 {
			b := e.Bytes()
			return curve.Fp2{C0: new(big.Int).SetBytes(b[:len(b)/2]), C1: new(big.Int).SetBytes(b[len(b)/2:])}
		}
		cmp := func(key, what string, got *bls12381.BaseFieldElementG2, want curve.Fp2) {
			if g := val(got); !Q.Valid(g) || !Q.Equal(g, want) {
				x.Failf("fp2/"+key, "Fp2 %s = %s, want %s", what, Q.String(g), Q.String(want))
			}
		}
		x.Case(fmt.Sprintf("fp2/unary/%d", i))
		u := "a=" + a.name
		cmp("bytes", u+": Bytes", a.lib, a.v)
		cmp("neg", u+": Neg", a.lib.Neg(), Q.Neg(a.v))
		cmp("square", u+": Square", a.lib.Square(), Q.Sqr(a.v))
		cmp("double", u+": Double", a.lib.Double(), Q.Add(a.v, a.v))
		if a.lib.IsZero() != Q.IsZero(a.v) || a.lib.IsOne() != Q.Equal(a.v, Q.One()) {
			x.Failf("fp2/predicates", "Fp2 %s: IsZero=%v IsOne=%v", u, a.lib.IsZero(), a.lib.IsOne())
		}
		inv, err := a.lib.TryInv()
		if Q.IsZero(a.v) {
			if err == nil {
				x.Failf("fp2/inv", "Fp2 TryInv(0) succeeded")
			}
		} else if err != nil {
			x.Failf("fp2/inv", "Fp2 %s: TryInv failed: %v", u, err)
		} else {
			want, _ := Q.Inv(a.v)
			cmp("inv", u+": TryInv", inv, want)
		}
		var r bls12381.BaseFieldElementG2
		ok := r.V.Sqrt(&a.lib.V) == 1
		if ok != Q.IsSquare(a.v) {
			key := "fp2/sqrt/existence"
			if a.v.C1.Sign() == 0 && !ok {
				key = "fp2/sqrt/c1=0" // elements of the prime subfield: every one of them has a root in F_p^2
			}
			x.Failf(key, "Fp2 %s: Sqrt ok=%v but the element is a square: %v (norm residuosity)", u, ok, Q.IsSquare(a.v))
		} else if ok {
			if rv := val(&r); !Q.Equal(Q.Sqr(rv), a.v) {
				x.Failf("fp2/sqrt/value", "Fp2 %s: Sqrt = %s whose square is %s", u, Q.String(rv), Q.String(Q.Sqr(rv)))
			}
		}
		for j := 0; j < n; j++ {
			b := al[j]
			x.Case(fmt.Sprintf("fp2/pair/%d/%d", i, j))
			t := fmt.Sprintf("a=%s b=%s", a.name, b.name)
			cmp("add", t+": Add", a.lib.Add(b.lib), Q.Add(a.v, b.v))
			cmp("sub", t+": Sub", a.lib.Sub(b.lib), Q.Sub(a.v, b.v))
			cmp("mul", t+": Mul", a.lib.Mul(b.lib), Q.Mul(a.v, b.v))
			if eq := a.lib.Equal(b.lib); eq != Q.Equal(a.v, b.v) {
				x.Failf("fp2/equal", "Fp2 %s: Equal=%v", t, eq)
			}
			q, err := a.lib.TryDiv(b.lib)
			if Q.IsZero(b.v) {
				if err == nil {
					x.Failf("fp2/div", "Fp2 %s: TryDiv by zero succeeded", t)
				}
			} else if err != nil {
				x.Failf("fp2/div", "Fp2 %s: TryDiv failed: %v", t, err)
			} else {
				bi2, _ := Q.Inv(b.v)
				cmp("div", t+": TryDiv", q, Q.Mul(a.v, bi2))
			}
		}
		x.Observe(a.name)
	}
}

// ---------------------------------------------------------------------------------------------------------------

func runField[W libFE[W]](c *primeFieldCtx[W]) {
	explore(primeFieldBody(c), engine.Opts{Name: "field/" + c.name, Budget: budget(60, 300)})
}

func runFields() {
	runField(&primeFieldCtx[*k256.BaseFieldElement]{"k256.Fp", curve.K256().F.Char(), k256.NewBaseField(),
		sqrtVia[*k256Impl.Fp, k256Impl.Fp, *k256.BaseFieldElement, k256.BaseFieldElement]})
	runField(&primeFieldCtx[*k256.Scalar]{"k256.Fq", curve.K256().Q, k256.NewScalarField(),
		sqrtVia[*k256Impl.Fq, k256Impl.Fq, *k256.Scalar, k256.Scalar]})
	runField(&primeFieldCtx[*p256.BaseFieldElement]{"p256.Fp", curve.P256().F.Char(), p256.NewBaseField(),
		sqrtVia[*p256Impl.Fp, p256Impl.Fp, *p256.BaseFieldElement, p256.BaseFieldElement]})
	runField(&primeFieldCtx[*p256.Scalar]{"p256.Fq", curve.P256().Q, p256.NewScalarField(),
		sqrtVia[*p256Impl.Fq, p256Impl.Fq, *p256.Scalar, p256.Scalar]})
	runField(&primeFieldCtx[*pasta.FpFieldElement]{"pasta.Fp", curve.Pallas().F.Char(), pasta.NewPallasBaseField(),
		sqrtVia[*pastaImpl.Fp, pastaImpl.Fp, *pasta.FpFieldElement, pasta.FpFieldElement]})
	runField(&primeFieldCtx[*pasta.FqFieldElement]{"pasta.Fq", curve.Pallas().Q, pasta.NewPallasScalarField(),
		sqrtVia[*pastaImpl.Fq, pastaImpl.Fq, *pasta.FqFieldElement, pasta.FqFieldElement]})
	runField(&primeFieldCtx[*edwards25519.BaseFieldElement]{"ed25519.Fp", curve.Edwards25519().F.Char(), edwards25519.NewBaseField(),
		sqrtVia[*edImpl.Fp, edImpl.Fp, *edwards25519.BaseFieldElement, edwards25519.BaseFieldElement]})
	runField(&primeFieldCtx[*edwards25519.Scalar]{"ed25519.Fq", curve.Edwards25519().Q, edwards25519.NewScalarField(),
		sqrtVia[*edImpl.Fq, edImpl.Fq, *edwards25519.Scalar, edwards25519.Scalar]})
	runField(&primeFieldCtx[*bls12381.BaseFieldElementG1]{"bls12381.Fp", curve.BLS12381G1().F.Char(), bls12381.NewG1BaseField(),
		sqrtVia[*blsImpl.Fp, blsImpl.Fp, *bls12381.BaseFieldElementG1, bls12381.BaseFieldElementG1]})
	runField(&primeFieldCtx[*bls12381.Scalar]{"bls12381.Fq", curve.BLS12381G1().Q, bls12381.NewScalarField(),
		sqrtVia[*blsImpl.Fq, blsImpl.Fq, *bls12381.Scalar, bls12381.Scalar]})
	explore(fp2Body(), engine.Opts{Name: "field/bls12381.Fp2", Budget: budget(60, 300)})
}
