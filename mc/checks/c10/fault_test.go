package c10

import (
	"bytes"
	"fmt"
	"sort"
	"strings"
	"sync"

	"github.com/bronlabs/bron-crypto/pkg/mpc/session"
	"github.com/bronlabs/bron-crypto/pkg/mpc/sharing"

	"verifmc/engine"
	"verifmc/ref/cbor"
)

// ---------------------------------------------------------------------------------------------------------------
// Per-leaf classification (decided by reading pkg/mpc/session/participant.go at the pinned commit).
//
// OPENING: the leaf is a commitment or (part of) its opening. With everything else honest, altering it makes the
// sender's opening differ from the sender's commitment as the recipient holds them, so the property demands that
// EVERY recipient of the altered value rejects and blames exactly the sender.
//   - Round1Broadcast.CommonCommitment: stored in Round2, opened in Round3 with the (honest) Round2Broadcast
//     contribution and witness -> Round3 rejects.
//   - Round2Broadcast.CommonContribution: opened in Round3 against the Round1 commitment -> Round3 rejects.
//   - Round2Broadcast.CommonContributionWitness: same -> Round3 rejects.
//   - Round2P2P.PairwiseContributionCommitment: stored in Round3, opened in Round4 under the recipient's own key with
//     the (honest) Round3P2P opening -> Round4 rejects.
//   - Round3P2P.PairwiseContribution: opened in Round4 against the Round2P2P commitment -> Round4 rejects.
//   - Round3P2P.PairwiseContributionWitness: same -> Round4 rejects.
//
// An all-zero value of these leaves is refused one step earlier, by Validate, with the same blame: that also is a
// rejection of that sender.
//
// FRESH: the leaf is a fresh contribution that every recipient simply adopts, and nothing received earlier depends
// on it.
//   - Round1Broadcast.Ck: the sender's commitment key. Recipients adopt whatever key arrives (uniformly, it is a
//     broadcast), commit their pairwise contributions to the sender under it and hash it into the common seed. No
//     opening of the SENDER is affected, so no rejection is required. (The sender, still holding its real key, cannot
//     open what the others committed to it and drops out on its own in Round4; an all-zero key is refused by Validate
//     in Round2.) Oracle: no panic, honest parties blame nobody but the deviator, all parties that complete agree.
//
// A leaf that is not listed is a harness error: a new wire field must be classified by a person.

type leafClass int

const (
	classOpening leafClass = iota
	classFresh
)

var leafClasses = map[string]leafClass{
	"Round1Broadcast.$>CommonCommitment":          classOpening,
	"Round1Broadcast.$>Ck":                        classFresh,
	"Round2Broadcast.$>CommonContribution":        classOpening,
	"Round2Broadcast.$>CommonContributionWitness": classOpening,
	"Round2P2P.$>PairwiseContributionCommitment":  classOpening,
	"Round3P2P.$>PairwiseContribution":            classOpening,
	"Round3P2P.$>PairwiseContributionWitness":     classOpening,
}

func (c leafClass) String() string {
	if c == classOpening {
		return "OPENING"
	}
	return "FRESH"
}

// ---------------------------------------------------------------------------------------------------------------
// Honest reference runs (immutable wire bytes), cached per (n, assignment, seed).

type honestPair struct {
	A, B map[string][]byte
}

var honestCache sync.Map

func honestWires(a idAssignment, ids []sharing.ID, seed int64) *honestPair {
	key := fmt.Sprintf("%s/%d/%d", a.name, len(ids), seed)
	if v, ok := honestCache.Load(key); ok {
		return v.(*honestPair)
	}
	hp := &honestPair{}
	for _, s := range []struct {
		tag string
		dst *map[string][]byte
	}{{"A", &hp.A}, {"B", &hp.B}} {
		sr := runSession(ids, sessionStreams(seed, s.tag, s.tag, 0), true, nil)
		for _, id := range ids {
			if sr.parties[id].ctx == nil {
				// the honest section reports this as a violation; here it only means there is nothing to alter
				panic(engine.HarnessError{Msg: fmt.Sprintf("honest reference session %s did not complete at party %d: %s %v", s.tag, id, sr.parties[id].outcome(), sr.parties[id].err)})
			}
		}
		*s.dst = sr.wire
	}
	v, _ := honestCache.LoadOrStore(key, hp)
	return v.(*honestPair)
}

// ---------------------------------------------------------------------------------------------------------------
// Mutation operators on one byte-string leaf.

type operator struct {
	name  string // specific (shown in messages)
	group string // coarse (observed)
	value []byte
}

func flip(d []byte, byteIdx int, bit uint) []byte {
	out := append([]byte{}, d...)
	out[byteIdx] ^= 1 << bit
	return out
}

func leafAt(wire []byte, path string) *cbor.Node {
	if wire == nil {
		return nil
	}
	tree, err := cbor.Parse(wire)
	if err != nil {
		panic(engine.HarnessError{Msg: "cannot parse recorded wire bytes: " + err.Error()})
	}
	r := cbor.Find(tree, path)
	if r == nil {
		return nil
	}
	return r.Node
}

func operators(hp *honestPair, ids []sharing.ID, d sharing.ID, k msgKind, to sharing.ID, tree *cbor.Node, leaf cbor.Ref) []operator {
	data := leaf.Node.Data
	L := len(data)
	var ops []operator
	if engine.Thorough() {
		for i := 0; i < 8*L; i++ {
			ops = append(ops, operator{fmt.Sprintf("flip-bit-%d", i), "bitflip", flip(data, i/8, uint(7-i%8))})
		}
	} else {
		ops = append(ops,
			operator{"flip-LSB", "bitflip", flip(data, L-1, 0)},
			operator{"flip-MSB", "bitflip", flip(data, 0, 7)},
			operator{"flip-middle", "bitflip", flip(data, L/2, 3)},
		)
	}
	ops = append(ops, operator{"zero", "zero", make([]byte, L)})
	// the value the same sender sent at the same place in the parallel session
	if n := leafAt(hp.B[wkey(k, d, to)], leaf.Path); n != nil && n.Kind == cbor.Bytes && len(n.Data) == L {
		ops = append(ops, operator{"other-session", "other-session", append([]byte{}, n.Data...)})
	} else {
		panic(engine.HarnessError{Msg: "parallel session has no matching leaf for " + leaf.Path})
	}
	// the value every other sender e sent at the same place (to the same recipient; if e IS the recipient, what the
	// recipient sent to the deviator)
	for _, e := range ids {
		if e == d {
			continue
		}
		key := wkey(k, e, to)
		if k.unicast() && e == to {
			key = wkey(k, e, d)
		}
		n := leafAt(hp.A[key], leaf.Path)
		if n == nil || n.Kind != cbor.Bytes || len(n.Data) != L {
			panic(engine.HarnessError{Msg: fmt.Sprintf("sender %d has no matching leaf for %s", e, leaf.Path)})
		}
		ops = append(ops, operator{fmt.Sprintf("value-of-sender-%d", e), "other-sender", append([]byte{}, n.Data...)})
	}
	// every other leaf of the same kind (byte string of the same length) in the same message
	for _, o := range cbor.Leaves(tree) {
		if o.Path != leaf.Path && o.Node.Kind == cbor.Bytes && len(o.Node.Data) == L {
			ops = append(ops, operator{"sibling:" + o.Path, "sibling", append([]byte{}, o.Node.Data...)})
		}
	}
	return ops
}

// ---------------------------------------------------------------------------------------------------------------

var (
	histMu    sync.Mutex
	faultHist = map[string]int{}
)

func role(id, d sharing.ID, affected map[sharing.ID]bool) string {
	switch {
	case id == d:
		return "deviator"
	case affected[id]:
		return "recipient"
	}
	return "bystander"
}

func faultBody(x *engine.X) {
	n, a, ids := chooseQuorum(x)
	nSeeds := 1
	if engine.Thorough() {
		nSeeds = 2
	}
	seed := engine.Seed()*1000 + int64(x.Choose("seed", nSeeds))
	hp := honestWires(a, ids, seed)

	d := ids[x.Choose("deviator", n)]
	k := msgKind(x.Choose("message", int(numKinds)))
	var others []sharing.ID
	for _, id := range ids {
		if id != d {
			others = append(others, id)
		}
	}
	var to sharing.ID
	affected := map[sharing.ID]bool{}
	if k.unicast() {
		to = others[x.Choose("recipient", len(others))]
		affected[to] = true
	} else {
		for _, o := range others {
			affected[o] = true
		}
	}
	honestBytes := hp.A[wkey(k, d, to)]
	tree, err := cbor.Parse(honestBytes)
	if err != nil {
		panic(engine.HarnessError{Msg: "cannot parse honest message: " + err.Error()})
	}
	leaves := cbor.Leaves(tree)
	leaf := leaves[x.Choose("leaf", len(leaves))]
	leafName := kindName[k] + "." + leaf.Path
	class, known := leafClasses[leafName]
	if !known || leaf.Node.Kind != cbor.Bytes || len(leaf.Node.Data) == 0 {
		panic(engine.HarnessError{Msg: fmt.Sprintf("wire leaf %s (%s) is not classified in leafClasses - read the protocol code and classify it", leafName, leaf.KindID)})
	}
	ops := operators(hp, ids, d, k, to, tree, leaf)
	op := ops[x.Choose("operator", len(ops))]
	short := kindName[k] + "." + strings.TrimPrefix(leaf.Path, "$>")

	f := &fault{kind: k, from: d, to: to, apply: func(root *cbor.Node) {
		r := cbor.Find(root, leaf.Path)
		if r == nil {
			panic(engine.HarnessError{Msg: "leaf vanished: " + leaf.Path})
		}
		r.Node.Data = append([]byte{}, op.value...)
	}}
	what := fmt.Sprintf("n=%d ids=%v(%s): sender %d alters %s", n, ids, a.name, d, short)
	if k.unicast() {
		what += fmt.Sprintf(" sent to %d", to)
	} else {
		what += " (same for all recipients)"
	}
	what += " by " + op.name
	x.Case(fmt.Sprintf("%d/%s/%d/%d/%s/%d/%s", n, a.name, seed, d, short, to, op.name))

	sr := runSession(ids, sessionStreams(seed, "A", "A", 0), true, f)
	if sr.altered == 0 {
		panic(engine.HarnessError{Msg: "the altered message was never delivered: " + what})
	}
	if sr.noop || bytes.Equal(op.value, leaf.Node.Data) {
		x.Trivial() // the donor value equals the honest one: nothing was altered
		return
	}

	// (1) never a panic, at any party
	for _, id := range ids {
		if pt := sr.parties[id]; pt.panicMsg != "" {
			x.Failf("fault/panic", "%s: party %d (%s): %s", what, id, role(id, d, affected), pt.panicMsg)
		}
	}
	// (2) an honest party never names anybody but the deviator
	for _, id := range others {
		pt := sr.parties[id]
		for _, b := range pt.blame() {
			if b != d {
				x.Failf("fault/blames-honest-party", "%s: honest party %d (%s) blames %v, the only deviator is %d; error: %v", what, id, role(id, d, affected), pt.blame(), d, pt.err)
				break
			}
		}
	}
	// (3) OPENING leaves: every recipient of the altered value rejects and blames exactly the sender
	if class == classOpening {
		for _, id := range others {
			if !affected[id] {
				continue
			}
			pt := sr.parties[id]
			switch {
			case pt.panicMsg != "":
			case pt.ctx != nil:
				x.Failf("fault/accepted/"+short, "%s: recipient %d completed the setup although the opening of %d does not match its commitment", what, id, d)
			case pt.err == nil:
				x.Failf("fault/not-rejected/"+short, "%s: recipient %d neither rejected nor completed (%s)", what, id, pt.outcome())
			default:
				if bl := pt.blame(); len(bl) != 1 || bl[0] != d {
					x.Failf("fault/wrong-blame/"+short, "%s: recipient %d rejected in Round%d but GetMaliciousIdentities = %v, want [%d]; error: %v", what, id, pt.errRound, bl, d, pt.err)
				}
			}
		}
	}
	// (4) all HONEST parties that complete agree: SessionID, transcript state, and the seed of every completing pair.
	// The deviator's own context is only observed: it may hold a state that differs from what it sent, and nothing
	// is promised to it.
	ctxs := map[sharing.ID]*session.Context{}
	var completers []sharing.ID
	for _, id := range others {
		if c := sr.parties[id].ctx; c != nil {
			ctxs[id] = c
			completers = append(completers, id)
		}
	}
	completers = sorted(completers)
	if len(completers) >= 2 {
		agree(x, "fault", what+" - among the honest parties that completed "+fmt.Sprint(completers), ctxs, completers)
	}
	devView := "n/a"
	if dc := sr.parties[d].ctx; dc != nil && len(completers) >= 1 {
		h := ctxs[completers[0]]
		devView = fmt.Sprint(dc.SessionID() == h.SessionID() && bytes.Equal(seed64(dc, completers[0]), seed64(h, d)))
	}

	// outcome by role (vacuity: rejected / completed / starved all have to occur)
	var oc []string
	for _, id := range sorted(ids) {
		pt := sr.parties[id]
		o := pt.outcome()
		if pt.err != nil {
			var who []string
			for _, b := range pt.blame() {
				if b == d {
					who = append(who, "deviator")
				} else {
					who = append(who, "honest")
				}
			}
			o = fmt.Sprintf("rejected@Round%d blame=%v", pt.errRound, who)
		}
		oc = append(oc, role(id, d, affected)+":"+o)
	}
	sort.Strings(oc)
	x.Observe(n, class, short, op.group, oc, "deviator-agrees-with-honest", devView, "honest-completers", len(completers))
	if !x.Replay {
		// histogram for the evidence: (class, leaf, operator group) -> set of role outcomes, multiplicities dropped
		var uniq []string
		for i, o := range oc {
			if i == 0 || oc[i-1] != o {
				uniq = append(uniq, o)
			}
		}
		hk := fmt.Sprintf("%s %s %s => %s", class, short, op.group, strings.Join(uniq, "; "))
		histMu.Lock()
		faultHist[hk]++
		histMu.Unlock()
	}
}
