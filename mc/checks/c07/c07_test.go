// C07 — protocol secrets come from, and depend on, each party's own randomness.
//
// Instrument: every party of every protocol run is handed exactly one counting, deterministic io.Reader (streams_test.go)
// and nothing else that is random. Space: protocol case x party position i x run kind, all enumerated:
//
//	A   base streams, two consecutive sessions on the same key material (readers continue)
//	C   the same streams again (a second, independent execution)                       -> oracle (2), (3)
//	D   every party's stream replaced                                                   -> oracle (4)
//	B_i only party i's stream replaced (two sessions)                                   -> oracle (1), (4)
//	E_i,j party i's source fails at its j-th Read call (once; j = every call for short streams, else {0,1,mid,last-1,last} and the calls around every round boundary)                           -> must fail, never succeed
//	Z_i party i's source delivers zeros (bounded)                                       -> fail, or reproducible
//	S_i party i's source delivers the same bytes in short reads                         -> identical messages
//
// Oracles are differential (run against run); no expected values are written down.
package c07

import (
	"fmt"
	"os"
	"sort"
	"strings"
	"sync"
	"testing"
	"time"

	"verifmc/engine"
)

func TestMain(m *testing.M) { engine.Main(m, "C07", "exploration") }

// ---------------------------------------------------------------------------------------------- running

type stat struct {
	calls, bytes, atFirst, failed int64
	marks                         []int64 // Read-call indices (relative to this session) at which a message left
}

// session runs one session of k with the given readers and returns the outcome plus per-party consumption of THIS session.
func session1(k *kase, ks int64, sess int, taps map[ID]*tap) (*outcome, map[ID]stat) {
	before := map[ID]stat{}
	for id, t := range taps {
		before[id] = stat{calls: t.Calls, bytes: t.Bytes, failed: t.failed}
		t.atFirstSend = -1
		t.marks = nil
	}
	o := k.run(zeroChooser{}, ks, sess, taps)
	if o.harnessErr != "" {
		panic(engine.HarnessError{Msg: k.name + ": " + o.harnessErr})
	}
	st := map[ID]stat{}
	for id, t := range taps {
		af := int64(-1)
		if t.atFirstSend >= 0 {
			af = t.atFirstSend - before[id].bytes
		}
		var marks []int64
		for _, m := range t.marks {
			marks = append(marks, m-before[id].calls)
		}
		st[id] = stat{t.Calls - before[id].calls, t.Bytes - before[id].bytes, af, t.failed - before[id].failed, marks}
		t.session++
	}
	return o, st
}

// run2 is two consecutive sessions served by the same readers.
type run2 struct {
	name string
	o    [2]*outcome
	st   [2]map[ID]stat
	sig  [2]map[ID]string // ownSig of each party's source during the session
}

func runTwo(k *kase, name string, seed int64, repl map[ID]spec, sessions int) *run2 {
	taps := mkTaps(seed, k.name, k.ids, repl)
	r := &run2{name: name}
	for s := 0; s < sessions; s++ {
		r.sig[s] = map[ID]string{}
		for id, t := range taps {
			r.sig[s][id] = t.ownSig()
		}
		r.o[s], r.st[s] = session1(k, seed, s, taps)
	}
	return r
}

func altAll(k *kase, tag string) map[ID]spec {
	m := map[ID]spec{}
	for _, id := range k.ids {
		m[id] = spec{label: fmt.Sprintf("%s/p%d/%s", k.name, id, tag)}
	}
	return m
}

func altOne(k *kase, id ID, tag string) map[ID]spec {
	return map[ID]spec{id: {label: fmt.Sprintf("%s/p%d/%s", k.name, id, tag)}}
}

type baseEntry struct {
	once sync.Once
	r    *run2
}

var (
	baseMu sync.Mutex
	bases  = map[string]*baseEntry{}
)

// baseRun is run A, cached per process.
func baseRun(k *kase, seed int64) *run2 {
	key := fmt.Sprintf("%s/%d", k.name, seed)
	baseMu.Lock()
	e, ok := bases[key]
	if !ok {
		e = &baseEntry{}
		bases[key] = e
	}
	baseMu.Unlock()
	e.once.Do(func() { e.r = runTwo(k, "A", seed, nil, 2) })
	if e.r == nil {
		panic("c07: base run of " + k.name + " panicked earlier")
	}
	return e.r
}

func describe(o *outcome, ids []ID) string {
	var sb strings.Builder
	for _, id := range ids {
		p := o.parties[id]
		switch {
		case p == nil:
			fmt.Fprintf(&sb, "%d:? ", id)
		case p.panic != "":
			fmt.Fprintf(&sb, "%d:panic ", id)
		case p.starved:
			fmt.Fprintf(&sb, "%d:starved ", id)
		case p.err != nil:
			fmt.Fprintf(&sb, "%d:err ", id)
		default:
			fmt.Fprintf(&sb, "%d:ok ", id)
		}
	}
	return strings.TrimSpace(sb.String())
}

func firstLine(err error) string {
	if err == nil {
		return ""
	}
	s := err.Error()
	if i := strings.IndexByte(s, '\n'); i >= 0 {
		s = s[:i]
	}
	if len(s) > 160 {
		s = s[:160]
	}
	return s
}

// failf records the finding key in the notes (the engine prints at most 10 violations per section) and raises it.
func failf(x *engine.X, key, format string, a ...any) {
	if !x.Replay {
		note("fail/"+key, 1)
	}
	x.Failf(key, format, a...)
}

func family(k *kase) string { return strings.SplitN(k.name, "/", 2)[0] }

// honest demands that a run with well-behaved sources succeeds at every party.
func honest(x *engine.X, k *kase, what string, o *outcome) bool {
	ok := true
	for _, id := range k.ids {
		p := o.parties[id]
		if p == nil || !p.ok {
			ok = false
			msg := "missing"
			if p != nil {
				msg = fmt.Sprintf("err=%s panic=%s starved=%v", firstLine(p.err), p.panic, p.starved)
			}
			failf(x, "honest-run-failed/"+family(k), "%s, run %s: party %d did not complete although every source is well behaved: %s", k.name, what, id, msg)
		}
	}
	if o.deadlock != "" {
		ok = false
		failf(x, "honest-run-hang/"+family(k), "%s, run %s: threads stayed blocked: %s", k.name, what, o.deadlock)
	}
	return ok
}

// ---------------------------------------------------------------------------------------------- leaves of the check

type leaf struct {
	k     *kase
	kind  string // C, B, E, Z, S
	party ID
}

func (l leaf) String() string {
	if l.kind == "C" {
		return l.k.name + " C/D"
	}
	return fmt.Sprintf("%s %s party=%d", l.k.name, l.kind, l.party)
}

func mkLeaves(cases []*kase) []leaf {
	var out []leaf
	for _, k := range cases {
		out = append(out, leaf{k, "C", 0})
		for _, id := range k.ids {
			if k.passive[id] {
				continue
			}
			for _, kind := range []string{"B", "E", "Z", "S"} {
				out = append(out, leaf{k, kind, id})
			}
		}
	}
	return out
}

// spread reorders the leaves so that worker process r (which takes the frontier entries j with j%n==r, frontier entry
// j being choice j+1) handles a CONTIGUOUS block of the case-major list: the per-process cache of run A is then hit.
func spread(ls []leaf, n int) []leaf {
	if n <= 1 || len(ls) < 3 {
		return ls
	}
	out := make([]leaf, len(ls))
	out[0] = ls[0]
	next := 1
	for r := 0; r < n; r++ {
		for j := r; j < len(ls)-1; j += n {
			out[j+1] = ls[next]
			next++
		}
	}
	return out
}

func body(leaves []leaf) func(*engine.X) {
	return func(x *engine.X) {
		l := leaves[x.Choose("leaf", len(leaves))]
		seed := engine.Seed()
		x.Observe(l.String())
		A := baseRun(l.k, seed)
		if !honest(x, l.k, "A", A.o[0]) || !honest(x, l.k, "A(second session)", A.o[1]) {
			return
		}
		switch l.kind {
		case "C":
			leafC(x, l.k, seed, A)
		case "B":
			leafB(x, l.k, seed, A, l.party)
		case "E":
			leafE(x, l.k, seed, A, l.party)
		case "Z":
			leafZ(x, l.k, seed, A, l.party)
		case "S":
			leafS(x, l.k, seed, A, l.party)
		}
	}
}

func sameStats(a, b map[ID]stat) bool {
	for id, s := range a {
		if t := b[id]; t.calls != s.calls || t.bytes != s.bytes {
			return false
		}
	}
	return true
}

func protoMsg(m *msg) bool { return !isEcho2(m.cid) }

// inRound1 reports whether m belongs to its sender's first-round group (same round name as the first message it sent).
func inRound1(o *outcome, m *msg) bool { return baseCid(m.cid) == o.round1[m.from] && !isEcho2(m.cid) }

// leafC: determinism under identical streams (2), every stream is read before the first message leaves (3),
// no value repeats across A, A', D, D' whose streams all differ (4).
func leafC(x *engine.X, k *kase, seed int64, A *run2) {
	fam := family(k)
	C := runTwo(k, "C", seed, nil, 2)
	for s := 0; s < 2; s++ {
		what := fmt.Sprintf("session %d", s)
		x.Case(fmt.Sprintf("%s/A-vs-C/%d", k.name, s))
		if !honest(x, k, "C "+what, C.o[s]) {
			continue
		}
		// (3) counting readers
		for _, id := range k.ids {
			if k.passive[id] {
				x.Observe(fmt.Sprintf("passive party %d consumed %d bytes", id, A.st[s][id].bytes))
				continue
			}
			st := A.st[s][id]
			if st.bytes == 0 {
				failf(x, "unread-source/"+fam, "%s, %s: party %d completed the protocol without ever reading the random source it was given", k.name, what, id)
			} else if st.atFirst <= 0 {
				failf(x, "unread-before-first-message/"+fam, "%s, %s: party %d's first message left before its random source was read (consumed at that moment: %d bytes; %d bytes in the whole session)", k.name, what, id, st.atFirst, st.bytes)
			}
		}
		// (2) identical supplied streams => identical messages
		if !sameStats(A.st[s], C.st[s]) {
			x.Observe("INCONCLUSIVE: consumption differs between A and C", what)
			note("inconclusive/A-vs-C/"+fam, 1)
			continue
		}
		diffs, errs := diffRuns(A.o[s], C.o[s], nil)
		for _, e := range errs {
			failf(x, "unparsable/"+fam, "%s: %s", k.name, e)
		}
		for i, d := range diffs {
			if i >= 5 {
				break
			}
			failf(x, fmt.Sprintf("foreign-entropy/%s|%s|%s", fam, kindCid(d.cid), normPath(d.path)), "%s, %s: two executions with IDENTICAL supplied streams (and identical consumption %v) differ in message %s at leaf %s: the value depends on entropy the caller did not supply", k.name, what, fmtStats(A.st[s], k.ids), d.key, d.path)
		}
		for _, name := range sortedKeys(A.o[s].joint) {
			if A.o[s].joint[name] != C.o[s].joint[name] {
				failf(x, "foreign-entropy-output/"+fam+"/"+jointName(name), "%s, %s: identical supplied streams, but the output %s differs\n    values: %s vs %s", k.name, what, name, A.o[s].joint[name], C.o[s].joint[name])
			}
		}
	}
	// (4) across A, A', D, D'
	D := runTwo(k, "D", seed, altAll(k, "alt"), 2)
	if !honest(x, k, "D", D.o[0]) || !honest(x, k, "D(second session)", D.o[1]) {
		return
	}
	x.Case(k.name + "/distinct")
	// a leaf is "variable" when it differs between A and D
	dA := byKey(D.o[0].msgs)
	variable := map[string]bool{}
	nVar, nConst := 0, 0
	for _, m := range A.o[0].msgs {
		if !protoMsg(m) {
			continue
		}
		la, order := bigLeaves(m.payload)
		var lb map[string][]byte
		if o := dA[m.key]; o != nil {
			lb, _ = bigLeaves(o.payload)
		}
		for _, p := range order {
			if vb, ok := lb[p]; !ok || string(vb) != string(la[p]) {
				variable[m.key+"|"+p] = true
				nVar++
			} else {
				nConst++
			}
		}
	}
	reg := newRegistry()
	reported := 0
	for _, r := range []*run2{A, D} {
		for s := 0; s < 2; s++ {
			runID := fmt.Sprintf("%s.%d", r.name, s)
			o := r.o[s]
			for _, m := range o.msgs {
				if !protoMsg(m) {
					continue
				}
				lv, order := bigLeaves(m.payload)
				for _, p := range order {
					if !variable[m.key+"|"+p] || deterministicLeaf(k.name, baseOnly(m.cid), stripEcho(p)) != "" {
						continue
					}
					sig := runID
					if inRound1(o, m) && !k.reactive[m.from] {
						sig = fmt.Sprintf("%s/p%d(%s)", runID, m.from, r.sig[s][m.from])
					}
					if c := reg.add(lv[p], sig, fmt.Sprintf("run %s message %s leaf %s", runID, m.key, p)); c != nil && reported < 5 {
						reported++
						failf(x, fmt.Sprintf("repeat/%s|%s|%s", fam, kindCid(m.cid), normPath(p)), "%s: one value occurs at [%s] (source %s) and again at [%s] (source %s) although the sources differ\n    value: %s", k.name, c.whereA, c.sigA, c.whereB, c.sigB, c.value)
					}
				}
			}
			for _, name := range sortedKeys(o.joint) {
				v := o.joint[name]
				if c := reg.add([]byte("joint:"+v), runID, fmt.Sprintf("run %s output %s", runID, name)); c != nil {
					failf(x, "repeat-output/"+fam+"/"+jointName(name), "%s: the output %s of run %s repeats [%s] although every party's source differs\n    value: %s", k.name, name, runID, c.whereA, v)
				}
			}
		}
	}
	x.Observe(fmt.Sprintf("msgs=%d variable=%d constant=%d joint=%d consumption=%s", len(A.o[0].msgs), nVar, nConst, len(A.o[0].joint), fmtStats(A.st[0], k.ids)))
}

func fmtStats(st map[ID]stat, ids []ID) string {
	var sb strings.Builder
	for _, id := range ids {
		s := st[id]
		fmt.Fprintf(&sb, "p%d:%dB/%dcalls(first msg after %dB) ", id, s.bytes, s.calls, s.atFirst)
	}
	return strings.TrimSpace(sb.String())
}

// leafB: only party i's stream is replaced (1).
func leafB(x *engine.X, k *kase, seed int64, A *run2, i ID) {
	fam := family(k)
	B := runTwo(k, fmt.Sprintf("B%d", i), seed, altOne(k, i, "alt"), 2)
	reg := newRegistry()
	changedAny := 0
	for s := 0; s < 2; s++ {
		what := fmt.Sprintf("session %d, only party %d's stream replaced", s, i)
		x.Case(fmt.Sprintf("%s/A-vs-B%d/%d", k.name, i, s))
		a, b := A.o[s], B.o[s]
		if !honest(x, k, "B "+what, b) {
			return
		}
		// (1a) party i's first randomised message differs
		d1, _ := diffRuns(a, b, func(m *msg) bool { return m.from == i && inRound1(a, m) })
		if len(d1) == 0 {
			failf(x, "unchanged-first-message/"+fam, "%s, %s: every leaf of party %d's first-round messages (%s) is unchanged: they do not depend on its random source", k.name, what, i, a.round1[i])
		}
		// (1c) every other party's first-round messages are unchanged
		dO, _ := diffRuns(a, b, func(m *msg) bool { return m.from != i && inRound1(a, m) && !k.reactive[m.from] })
		for n, d := range dO {
			if n >= 3 {
				break
			}
			failf(x, fmt.Sprintf("foreign-dependence/%s|%s|%s", fam, kindCid(d.cid), normPath(d.path)), "%s, %s: party %d's first-round message %s changed at leaf %s although its own source is unchanged", k.name, what, d.from, d.key, d.path)
		}
		// (1b) the joint values change
		for _, name := range sortedKeys(a.joint) {
			if k.jointBy != nil && !k.jointBy[i] {
				break // by the protocol's design the outputs are a function of the peer's randomness and fixed inputs only
			}
			if a.joint[name] == b.joint[name] {
				failf(x, "unchanged-output/"+fam+"/"+jointName(name), "%s, %s: the output %s is unchanged; it does not depend on party %d's randomness\n    value: %s", k.name, what, name, i, a.joint[name])
			}
		}
		// (1d) census: every big byte-string leaf of party i's own protocol messages changes unless it is a reviewed deterministic leaf
		mb := byKey(b.msgs)
		for _, m := range a.msgs {
			if m.from != i || !protoMsg(m) {
				continue
			}
			la, order := bigLeaves(m.payload)
			var lb map[string][]byte
			if o := mb[m.key]; o != nil {
				lb, _ = bigLeaves(o.payload)
			}
			for _, p := range order {
				vb, ok := lb[p]
				if ok && string(vb) == string(la[p]) {
					ck := fmt.Sprintf("%s|%s|%s", fam, baseOnly(m.cid), canonPath(p))
					note("census/"+ck, 1)
					if why := deterministicLeaf(k.name, baseOnly(m.cid), stripEcho(p)); why == "" {
						failf(x, "fixed-leaf/"+ck, "%s, %s: leaf %s of party %d's message %s kept its value although the party's random source was replaced, and it is not a reviewed deterministic leaf\n    value: %x", k.name, what, p, i, m.key, la[p])
					}
					continue
				}
				changedAny++
				// (4) restricted to the owner's leaves: A, A', B_i, B_i' all have different sources for party i
				for _, rr := range []struct {
					r *run2
					v []byte
				}{{A, la[p]}, {B, vb}} {
					if rr.v == nil {
						continue
					}
					runID := fmt.Sprintf("%s.%d", rr.r.name, s)
					if c := reg.add(rr.v, runID, fmt.Sprintf("run %s message %s leaf %s", runID, m.key, p)); c != nil {
						failf(x, fmt.Sprintf("repeat/%s|%s|%s", fam, kindCid(m.cid), normPath(p)), "%s: a value of party %d occurs at [%s] and again at [%s] although its source differs (%s vs %s)\n    value: %s", k.name, i, c.whereA, c.whereB, A.sig[0][i], B.sig[s][i], c.value)
					}
				}
			}
		}
	}
	x.Observe("changed-leaves", changedAny)
}

// baseOnly maps "XBROADCAST:…:EchoRound1P2P" -> "X/B", "XUNICAST:" -> "X/U" (allow-list keys).
func baseOnly(cid string) string {
	switch {
	case strings.Contains(cid, "BROADCAST:"):
		return baseCid(cid) + "/B"
	case strings.Contains(cid, "UNICAST:"):
		return baseCid(cid) + "/U"
	}
	return cid
}

// errIndices: the Read-call indices at which the source fails (one index per execution).
func errIndices(calls int64, heavy bool, marks []int64) []int64 {
	if calls <= 0 {
		return nil
	}
	if calls <= 6 || (engine.Thorough() && !heavy && calls <= 160) {
		out := make([]int64, calls)
		for j := range out {
			out[j] = int64(j)
		}
		return out
	}
	set := map[int64]bool{0: true, 1: true, calls / 2: true, calls - 2: true, calls - 1: true}
	// round boundaries: the last draw before a message of the party left and the first two draws after it
	for _, m := range marks {
		for _, j := range []int64{m - 1, m, m + 1} {
			if j >= 0 && j < calls {
				set[j] = true
			}
		}
	}
	if engine.Thorough() && !heavy {
		// long streams (base OT, OT-based multipliers: hundreds to thousands of calls): first 32, last 32, 64 evenly spaced
		for j := int64(0); j < 32; j++ {
			set[j], set[calls-1-j] = true, true
		}
		for j := int64(0); j < 64; j++ {
			set[j*calls/64] = true
		}
	}
	var out []int64
	for j := range set {
		out = append(out, j)
	}
	sort.Slice(out, func(a, b int) bool { return out[a] < out[b] })
	return out
}

// leafE: party i's source answers its j-th Read call with an error (once; later calls succeed again). A protocol that
// still completes at party i ignored the failure: the value it should have drawn is not from the supplied source.
func leafE(x *engine.X, k *kase, seed int64, A *run2, i ID) {
	fam := family(k)
	calls := A.st[0][i].calls
	idx := errIndices(calls, k.heavy, A.st[0][i].marks)
	if len(idx) == 0 {
		x.Trivial()
		return
	}
	for _, j := range idx {
		x.Case(fmt.Sprintf("%s/E/p%d/%d", k.name, i, j))
		E := runTwo(k, "E", seed, map[ID]spec{i: {mode: mErrAt, errAt: j}}, 1)
		o := E.o[0]
		for _, id := range k.ids {
			if p := o.parties[id]; p != nil && p.panic != "" {
				failf(x, "failing-source/panic/"+fam, "%s: party %d's source fails at Read call %d: party %d panicked: %s", k.name, i, j, id, p.panic)
			}
		}
		if o.deadlock != "" {
			failf(x, "failing-source/hang/"+fam, "%s: party %d's source fails at Read call %d: threads stayed blocked: %s", k.name, i, j, o.deadlock)
		}
		st := E.st[0][i]
		if st.failed == 0 {
			// the failing call was never reached: consumption is not a deterministic function of the inputs
			x.Observe("INCONCLUSIVE: failing call not reached", j)
			note("inconclusive/failing-source/"+fam, 1)
			continue
		}
		note("failing-source/refused/"+fam, 1)
		if p := o.parties[i]; p != nil && p.ok {
			failf(x, "failing-source/silent-success/"+fam, "%s: party %d's random source returned an error on Read call %d (of %d), yet the party completed the protocol without error: the failure was ignored, so the value that call should have delivered did not come from the supplied source", k.name, i, j, calls)
		}
	}
	x.Observe("calls", calls, "indices", len(idx))
}

// leafZ: party i's source delivers zeros. Either the protocol fails somewhere, or it completes with messages that are
// a reproducible function of that degenerate stream (run twice: identical) and that differ from run A.
func leafZ(x *engine.X, k *kase, seed int64, A *run2, i ID) {
	fam := family(k)
	x.Case(fmt.Sprintf("%s/Z/p%d", k.name, i))
	Z := runTwo(k, "Z", seed, map[ID]spec{i: {mode: mZero}}, 1)
	o := Z.o[0]
	for _, id := range k.ids {
		if p := o.parties[id]; p != nil && p.panic != "" {
			failf(x, "zero-source/panic/"+fam, "%s: party %d's source delivers zeros: party %d panicked: %s", k.name, i, id, p.panic)
		}
	}
	if o.deadlock != "" {
		failf(x, "zero-source/hang/"+fam, "%s: party %d's source delivers zeros: threads stayed blocked: %s", k.name, i, o.deadlock)
	}
	if !o.allOK() {
		x.Observe("refused:", describe(o, k.ids), "zero bytes consumed:", Z.st[0][i].bytes)
		note("zero-source/refused/"+fam, 1)
		return
	}
	if Z.st[0][i].bytes == 0 {
		failf(x, "unread-source/"+fam, "%s: party %d completed without reading its (all-zero) source", k.name, i)
	}
	d1, _ := diffRuns(A.o[0], o, func(m *msg) bool { return m.from == i && inRound1(A.o[0], m) })
	if len(d1) == 0 {
		failf(x, "zero-source/same-as-base/"+fam, "%s: party %d's first-round messages under an all-zero source equal those under the base stream", k.name, i)
	}
	Z2 := runTwo(k, "Z'", seed, map[ID]spec{i: {mode: mZero}}, 1)
	if !sameStats(Z.st[0], Z2.st[0]) {
		x.Observe("INCONCLUSIVE: consumption differs between the two zero runs")
		note("inconclusive/zero-source/"+fam, 1)
		return
	}
	diffs, _ := diffRuns(o, Z2.o[0], nil)
	for n, d := range diffs {
		if n >= 3 {
			break
		}
		failf(x, fmt.Sprintf("zero-source/other-entropy/%s|%s|%s", fam, kindCid(d.cid), normPath(d.path)), "%s: with an all-zero source at party %d the protocol completed, but two such executions differ in message %s leaf %s: other entropy was used", k.name, i, d.key, d.path)
	}
	x.Observe("completed with degenerate messages, reproducible; zero bytes consumed:", Z.st[0][i].bytes)
	note("zero-source/completed-reproducibly/"+fam, 1)
}

// leafS: the same bytes in short reads must give the same messages. The comparison is conclusive when a second base
// run reproduces run A exactly (then the only thing that differs between A and S is HOW the bytes are handed out).
func leafS(x *engine.X, k *kase, seed int64, A *run2, i ID) {
	fam := family(k)
	x.Case(fmt.Sprintf("%s/S/p%d", k.name, i))
	C := runTwo(k, "C", seed, nil, 1)
	if dc, _ := diffRuns(A.o[0], C.o[0], nil); !C.o[0].allOK() || !sameStats(A.st[0], C.st[0]) || len(dc) > 0 {
		x.Observe("INCONCLUSIVE: the base run does not reproduce itself")
		note("inconclusive/short-read/"+fam, 1)
		return
	}
	S := runTwo(k, "S", seed, map[ID]spec{i: {mode: mShort}}, 1)
	o := S.o[0]
	if !honest(x, k, fmt.Sprintf("S (party %d's source answers with at most %d bytes per Read)", i, shortChunk), o) {
		return
	}
	diffs, _ := diffRuns(A.o[0], o, nil)
	for n, d := range diffs {
		if n >= 3 {
			break
		}
		failf(x, fmt.Sprintf("short-read/%s|%s|%s", fam, kindCid(d.cid), normPath(d.path)), "%s: party %d's source delivered the SAME byte sequence in reads of at most %d bytes (it consumed %d bytes, %d in the base run); message %s leaf %s changed: part of the value was not taken from the source", k.name, i, shortChunk, S.st[0][i].bytes, A.st[0][i].bytes, d.key, d.path)
	}
	for _, name := range sortedKeys(A.o[0].joint) {
		if A.o[0].joint[name] != o.joint[name] {
			failf(x, "short-read-output/"+fam+"/"+jointName(name), "%s: party %d's source delivered the same byte sequence in short reads; the output %s changed", k.name, i, name)
		}
	}
	x.Observe("calls", S.st[0][i].calls, "vs", A.st[0][i].calls, "bytes", S.st[0][i].bytes, "vs", A.st[0][i].bytes)
}

// ---------------------------------------------------------------------------------------------- TestCheck

func TestCheck(t *testing.T) {
	engine.Rule("leaf list = for every protocol case: one C/D leaf (runs A,C,D, two consecutive sessions each) and, for every party position i that samples, the leaves B_i (only i's stream replaced, two sessions), E_i (source fails once, at Read call j, j over the call indices of run A: {0,1,mid,last-1,last} in quick (all when <= 6); all in thorough when <= 160, else the first 32, the last 32 and 64 evenly spaced; the quick set for DKLs23 and Lindell17), Z_i (zero source), S_i (short reads); every leaf is one complete set of executions of all parties through the real runners / round functions; a leaf is non-trivial when its runs were executed and compared")
	engine.Assume("default schedule, FIFO arrival (schedules are C11's business)", "sequential errgroup shim: identical streams are consumed in identical order", "byte-string leaves shorter than 16 bytes carry no demand (chance coincidence)", "the allow-list of deterministic leaves in allow_test.go was reviewed against the code", "purego build")
	cases := quickCases()
	if engine.Thorough() {
		cases = append(cases, thoroughCases()...)
	}
	if only := os.Getenv("C07_ONLY"); only != "" {
		var f []*kase
		for _, k := range cases {
			if strings.Contains(k.name, only) {
				f = append(f, k)
			}
		}
		cases = f
	}
	var sched, plain []*kase
	for _, k := range cases {
		if k.sched {
			sched = append(sched, k)
		} else {
			plain = append(plain, k)
		}
	}
	defer startNotes()()
	var secs []*engine.Section
	if len(sched) > 0 {
		ls := mkLeaves(sched)
		procs := (len(ls) - 1) / 16
		if procs > 16 {
			procs = 16
		}
		o := engine.Opts{Name: "runners", Serial: true, CrashTrace: true, Engine: "SCHED", MaxFails: 200, Budget: engine.Budget(6*time.Minute, 40*time.Minute)}
		if procs >= 2 {
			o.Procs = procs
			ls = spread(ls, procs)
		}
		secs = append(secs, engine.Explore(body(ls), o))
	}
	if os.Getenv("C07_ONLY") == "" || strings.Contains("boldyreva", os.Getenv("C07_ONLY")) {
		secs = append(secs, engine.Explore(boldyrevaRecord, engine.Opts{Name: "boldyreva-record"}))
	}
	if len(plain) > 0 {
		secs = append(secs, engine.Explore(body(mkLeaves(plain)), engine.Opts{Name: "rounds", MaxFails: 200, Budget: engine.Budget(4*time.Minute, 40*time.Minute)}))
	}
	if os.Getenv("VERIF_CHILD") != "" || len(secs) == 0 {
		return
	}
	nt := readNotes()
	sec := secs[0]
	inc := notesWithPrefix(nt, "inconclusive/")
	if len(inc) == 0 {
		inc = []string{"none"}
	}
	sec.Note("inconclusive pairs (consumption counters differed; compared nothing, alarmed nothing): %s", strings.Join(inc, ", "))
	sec.Note("zero-source probe outcomes: %s", strings.Join(notesWithPrefix(nt, "zero-source/"), ", "))
	sec.Note("failing-source probe, runs in which the injected failure was reached: %s", strings.Join(notesWithPrefix(nt, "failing-source/"), ", "))
	sec.Note("Boldyreva partial signing (record only, no oracle; its constructors take no io.Reader): %s", strings.Join(notesWithPrefix(nt, "boldyreva/"), ", "))
	sec.Note("deterministic (allow-listed) leaves met by the census, with multiplicity: %s", strings.Join(notesWithPrefix(nt, "census/"), "; "))
	for _, n := range sec.Notes {
		fmt.Println("[C07] note:", n)
	}
	if fk := notesWithPrefix(nt, "fail/"); len(fk) > 0 {
		fmt.Println("[C07] finding keys raised (with multiplicity):")
		for _, k := range fk {
			fmt.Println("   ", k)
		}
	}
}
