package c12

import (
	"fmt"
	"math/big"

	"github.com/bronlabs/bron-crypto/pkg/base/algebra/constructions"
	"github.com/bronlabs/bron-crypto/pkg/base/curves/k256"
	"github.com/bronlabs/bron-crypto/pkg/base/nt/num"
	"github.com/bronlabs/bron-crypto/pkg/base/nt/znstar"
	"github.com/bronlabs/bron-crypto/pkg/commitments/indcpacom"
	"github.com/bronlabs/bron-crypto/pkg/commitments/intcom"
	"github.com/bronlabs/bron-crypto/pkg/commitments/pedersencom"
	"github.com/bronlabs/bron-crypto/pkg/encryption/elgamal"
	"github.com/bronlabs/bron-crypto/pkg/encryption/paillier"
)

// ---------------------------------------------------------------------------------------------
// ElGamal over k256

func registerElGamal() {
	const eg = "pkg/encryption/elgamal."
	curve := k256.NewCurve()
	fK := k256.NewScalarField()
	sk := func(i int) *elgamal.SecretKey[KP, KS] {
		return must(elgamal.SampleSecretKey[KP, KS](curve, stream(fmt.Sprintf("elgamal-sk/%d", i))))
	}
	add(spec[*elgamal.SecretKey[KP, KS]]{
		name: "elgamal.SecretKey[k256]", covers: eg + "SecretKey", group: "encryption",
		gen: func() []nv[*elgamal.SecretKey[KP, KS]] {
			two := fK.One().Add(fK.One())
			return []nv[*elgamal.SecretKey[KP, KS]]{
				{"a=2", must(elgamal.NewSecretKey[KP, KS](curve.Generator(), two))},
				{"a=-1", must(elgamal.NewSecretKey[KP, KS](curve.Generator(), fK.One().Neg()))},
				{"rnd", sk(0)},
			}
		},
		eq: func(a, b *elgamal.SecretKey[KP, KS]) bool { return a.Equal(b) },
		valid: func(d *elgamal.SecretKey[KP, KS]) (*elgamal.SecretKey[KP, KS], error) {
			return elgamal.NewSecretKey[KP, KS](curve.Generator(), d.Value())
		},
	})
	add(spec[*elgamal.PublicKey[KP, KS]]{
		name: "elgamal.PublicKey[k256]", covers: eg + "PublicKey", group: "encryption",
		gen: func() []nv[*elgamal.PublicKey[KP, KS]] {
			return []nv[*elgamal.PublicKey[KP, KS]]{{"rnd0", sk(0).Public()}, {"rnd1", sk(1).Public()}, {"h=G", must(elgamal.NewPublicKey[KP, KS](curve.Generator()))}}
		},
		eq:    func(a, b *elgamal.PublicKey[KP, KS]) bool { return a.Equal(b) },
		valid: func(d *elgamal.PublicKey[KP, KS]) (*elgamal.PublicKey[KP, KS], error) { return elgamal.NewPublicKey[KP, KS](d.Value()) },
	})
	add(spec[*elgamal.Plaintext[KP, KS]]{
		name: "elgamal.Plaintext[k256]", covers: eg + "Plaintext", group: "encryption",
		gen: func() []nv[*elgamal.Plaintext[KP, KS]] {
			g := curve.Generator()
			return []nv[*elgamal.Plaintext[KP, KS]]{{"identity", must(elgamal.NewPlaintext[KP, KS](curve.OpIdentity()))}, {"G", must(elgamal.NewPlaintext[KP, KS](g))}, {"-G", must(elgamal.NewPlaintext[KP, KS](g.Neg()))}}
		},
		eq:    func(a, b *elgamal.Plaintext[KP, KS]) bool { return a.Equal(b) },
		valid: func(d *elgamal.Plaintext[KP, KS]) (*elgamal.Plaintext[KP, KS], error) { return elgamal.NewPlaintext[KP, KS](d.Value()) },
	})
	add(spec[*elgamal.Nonce[KS]]{
		name: "elgamal.Nonce[k256]", covers: eg + "Nonce", group: "encryption",
		gen: func() []nv[*elgamal.Nonce[KS]] {
			return []nv[*elgamal.Nonce[KS]]{{"1", must(elgamal.NewNonce(fK.One()))}, {"-1", must(elgamal.NewNonce(fK.One().Neg()))}, {"rnd", must(sk(0).Public().SampleNonce(stream("elgamal-nonce")))}}
		},
		eq:    func(a, b *elgamal.Nonce[KS]) bool { return a.Equal(b) },
		valid: func(d *elgamal.Nonce[KS]) (*elgamal.Nonce[KS], error) { return elgamal.NewNonce(d.Value()) },
	})
	add(spec[*elgamal.Ciphertext[KP, KS]]{
		name: "elgamal.Ciphertext[k256]", covers: eg + "Ciphertext", group: "encryption",
		gen: func() []nv[*elgamal.Ciphertext[KP, KS]] {
			pk := sk(0).Public()
			g := curve.Generator()
			var out []nv[*elgamal.Ciphertext[KP, KS]]
			for i, m := range []KP{curve.OpIdentity(), g, g.Neg()} {
				n := must(pk.SampleNonce(stream(fmt.Sprintf("elgamal-ct/%d", i))))
				out = append(out, nv[*elgamal.Ciphertext[KP, KS]]{fmt.Sprintf("m%d", i), must(pk.EncryptWithNonce(must(elgamal.NewPlaintext[KP, KS](m)), n))})
			}
			out = append(out, nv[*elgamal.Ciphertext[KP, KS]]{"(identity,identity)", must(elgamal.NewCiphertext[KP, KS](curve.OpIdentity(), curve.OpIdentity()))})
			return out
		},
		eq: func(a, b *elgamal.Ciphertext[KP, KS]) bool { return a.Equal(b) },
		valid: func(d *elgamal.Ciphertext[KP, KS]) (*elgamal.Ciphertext[KP, KS], error) {
			return elgamal.NewCiphertextFromGroupElement[KP, KS](d.Value())
		},
	})
}

// ---------------------------------------------------------------------------------------------
// algebraic constructions (the five trait decoders, through their concrete wrappers)

func registerConstructions() {
	const tr = "pkg/base/algebra/constructions/traits."
	curve := k256.NewCurve()
	fK := k256.NewScalarField()
	g := curve.Generator()
	type powEl = constructions.FiniteDirectPowerModuleElement[KP, KS]
	add(spec[*powEl]{
		name: "constructions.FiniteDirectPowerModuleElement[k256]", covers: tr + "DirectPowerSemiGroupElement", group: "algebra",
		gen: func() []nv[*powEl] {
			var out []nv[*powEl]
			for _, n := range []uint{1, 2, 3} {
				mod := must(constructions.NewFiniteDirectPowerModule[*k256.Curve, KP, KS](curve, n))
				cs := []KP{g, curve.OpIdentity(), g.Add(g)}[:n]
				out = append(out, nv[*powEl]{fmt.Sprintf("arity%d", n), must(mod.New(cs...))})
			}
			return out
		},
		eq: func(a, b *powEl) bool { return a.Equal(b) },
		valid: func(d *powEl) (*powEl, error) {
			mod, err := constructions.NewFiniteDirectPowerModule[*k256.Curve, KP, KS](curve, uint(len(d.Components())))
			if err != nil {
				return nil, err
			}
			return mod.New(d.Components()...)
		},
	})
	type prodEl = constructions.FiniteDirectProductModuleElement[KP, KP, KS]
	add(spec[*prodEl]{
		name: "constructions.FiniteDirectProductModuleElement[k256,k256]", covers: tr + "DirectProductSemiGroupElement", group: "algebra",
		gen: func() []nv[*prodEl] {
			mod := must(constructions.NewFiniteDirectProductModule[*k256.Curve, *k256.Curve, KP, KP, KS](curve, curve))
			return []nv[*prodEl]{{"(G,identity)", must(mod.New(g, curve.OpIdentity()))}, {"(2G,-G)", must(mod.New(g.Add(g), g.Neg()))}}
		},
		eq: func(a, b *prodEl) bool { return a.Equal(b) },
		valid: func(d *prodEl) (*prodEl, error) {
			mod, err := constructions.NewFiniteDirectProductModule[*k256.Curve, *k256.Curve, KP, KP, KS](curve, curve)
			if err != nil {
				return nil, err
			}
			e1, e2 := d.Components()
			return mod.New(e1, e2)
		},
	})
	type regEl = constructions.FiniteRegularAlgebraElement[KS]
	add(spec[*regEl]{
		name: "constructions.FiniteRegularAlgebraElement[k256.Scalar]", covers: tr + "RegularModuleElement", group: "algebra",
		gen: func() []nv[*regEl] {
			alg := must(constructions.NewFiniteRegularAlgebra[*k256.ScalarField, KS](fK))
			return []nv[*regEl]{{"0", must(alg.New(fK.Zero()))}, {"1", must(alg.New(fK.One()))}, {"-1", must(alg.New(fK.One().Neg()))}}
		},
		eq: func(a, b *regEl) bool { return a.Equal(b) },
		valid: func(d *regEl) (*regEl, error) {
			alg, err := constructions.NewFiniteRegularAlgebra[*k256.ScalarField, KS](fK)
			if err != nil {
				return nil, err
			}
			return alg.New(d.Value())
		},
	})
	// the structures themselves serialise their base structure: instantiated over Z/nZ, which has a wire form
	zm := func(v uint64) *num.ZMod { return must(num.NewZMod(must(num.NPlus().FromUint64(v)))) }
	type powRing = constructions.FiniteDirectPowerRing[*num.ZMod, *num.Uint]
	add(spec[*powRing]{
		name: "constructions.FiniteDirectPowerRing[ZMod]", covers: tr + "DirectPowerSemiGroup", group: "algebra",
		gen: func() []nv[*powRing] {
			return []nv[*powRing]{
				{"(Z/15)^1", must(constructions.NewFiniteDirectPowerRing[*num.ZMod, *num.Uint](zm(15), 1))},
				{"(Z/256)^3", must(constructions.NewFiniteDirectPowerRing[*num.ZMod, *num.Uint](zm(256), 3))},
			}
		},
		eq: func(a, b *powRing) bool {
			return a.Base().Modulus().Equal(b.Base().Modulus()) && a.Arity().Uint64() == b.Arity().Uint64()
		},
		valid: func(d *powRing) (*powRing, error) {
			return constructions.NewFiniteDirectPowerRing[*num.ZMod, *num.Uint](d.Base(), uint(d.Arity().Uint64()))
		},
	})
	type prodRing = constructions.FiniteDirectProductRing[*num.ZMod, *num.ZMod, *num.Uint, *num.Uint]
	add(spec[*prodRing]{
		name: "constructions.FiniteDirectProductRing[ZMod,ZMod]", covers: tr + "DirectProductSemiGroup", group: "algebra",
		gen: func() []nv[*prodRing] {
			return []nv[*prodRing]{
				{"Z/15 x Z/256", must(constructions.NewFiniteDirectProductRing[*num.ZMod, *num.ZMod, *num.Uint, *num.Uint](zm(15), zm(256)))},
			}
		},
		eq: func(a, b *prodRing) bool {
			a1, a2 := a.Components()
			b1, b2 := b.Components()
			return a1.Modulus().Equal(b1.Modulus()) && a2.Modulus().Equal(b2.Modulus())
		},
		valid: func(d *prodRing) (*prodRing, error) {
			s1, s2 := d.Components()
			return constructions.NewFiniteDirectProductRing[*num.ZMod, *num.ZMod, *num.Uint, *num.Uint](s1, s2)
		},
	})
}

// ---------------------------------------------------------------------------------------------
// commitments

func registerCommitments() {
	curve := k256.NewCurve()
	fK := k256.NewScalarField()
	g := curve.Generator()
	const pc = "pkg/commitments/pedersencom."
	key := func() *pedersencom.CommitmentKey[KP, KS] {
		return must(pedersencom.SampleCommitmentKey(curve, stream("pedersencom-key")))
	}
	add(spec[*pedersencom.CommitmentKey[KP, KS]]{
		name: "pedersencom.CommitmentKey[k256]", covers: pc + "CommitmentKey", group: "commitments",
		gen: func() []nv[*pedersencom.CommitmentKey[KP, KS]] {
			return []nv[*pedersencom.CommitmentKey[KP, KS]]{{"sampled", key()}, {"(G,2G)", must(pedersencom.NewCommitmentKeyUnchecked[KP, KS](g, g.Add(g)))}}
		},
		eq: func(a, b *pedersencom.CommitmentKey[KP, KS]) bool { return a.Equal(b) },
		valid: func(d *pedersencom.CommitmentKey[KP, KS]) (*pedersencom.CommitmentKey[KP, KS], error) {
			return pedersencom.NewCommitmentKeyUnchecked[KP, KS](d.G(), d.H())
		},
	})
	add(spec[*pedersencom.TrapdoorKey[KP, KS]]{
		name: "pedersencom.TrapdoorKey[k256]", covers: pc + "TrapdoorKey", group: "commitments",
		gen: func() []nv[*pedersencom.TrapdoorKey[KP, KS]] {
			two := fK.One().Add(fK.One())
			return []nv[*pedersencom.TrapdoorKey[KP, KS]]{
				{"lambda=2", must(pedersencom.NewTrapdoorKey[KP, KS](g, two))},
				{"lambda=-1", must(pedersencom.NewTrapdoorKey[KP, KS](g.Add(g), fK.One().Neg()))},
				{"sampled", must(pedersencom.SampleTrapdoorKey(curve, stream("pedersencom-trapdoor")))},
			}
		},
		eq: func(a, b *pedersencom.TrapdoorKey[KP, KS]) bool { return a.Equal(b) },
		valid: func(d *pedersencom.TrapdoorKey[KP, KS]) (*pedersencom.TrapdoorKey[KP, KS], error) {
			return pedersencom.NewTrapdoorKey[KP, KS](d.G(), d.Lambda())
		},
	})
	add(spec[*pedersencom.Message[KS]]{
		name: "pedersencom.Message[k256]", covers: pc + "Message", group: "commitments",
		gen: func() []nv[*pedersencom.Message[KS]] {
			return []nv[*pedersencom.Message[KS]]{{"0", must(pedersencom.NewMessage(fK.Zero()))}, {"1", must(pedersencom.NewMessage(fK.One()))}, {"-1", must(pedersencom.NewMessage(fK.One().Neg()))}}
		},
		eq:    func(a, b *pedersencom.Message[KS]) bool { return a.Equal(b) },
		valid: func(d *pedersencom.Message[KS]) (*pedersencom.Message[KS], error) { return pedersencom.NewMessage(d.Value()) },
	})
	add(spec[*pedersencom.Witness[KS]]{
		name: "pedersencom.Witness[k256]", covers: pc + "Witness", group: "commitments",
		gen: func() []nv[*pedersencom.Witness[KS]] {
			return []nv[*pedersencom.Witness[KS]]{{"0", must(pedersencom.NewWitness(fK.Zero()))}, {"1", must(pedersencom.NewWitness(fK.One()))}, {"rnd", must(key().SampleWitness(stream("pedersencom-witness")))}}
		},
		eq:    func(a, b *pedersencom.Witness[KS]) bool { return a.Equal(b) },
		valid: func(d *pedersencom.Witness[KS]) (*pedersencom.Witness[KS], error) { return pedersencom.NewWitness(d.Value()) },
	})
	add(spec[*pedersencom.Commitment[KP, KS]]{
		name: "pedersencom.Commitment[k256]", covers: pc + "Commitment", group: "commitments",
		gen: func() []nv[*pedersencom.Commitment[KP, KS]] {
			k := key()
			c := must(k.CommitWithWitness(must(pedersencom.NewMessage(fK.One())), must(k.SampleWitness(stream("pedersencom-c")))))
			return []nv[*pedersencom.Commitment[KP, KS]]{{"com(1;r)", c}, {"identity", must(pedersencom.NewCommitment[KP, KS](curve.OpIdentity()))}}
		},
		eq: func(a, b *pedersencom.Commitment[KP, KS]) bool { return a.Equal(b) },
		valid: func(d *pedersencom.Commitment[KP, KS]) (*pedersencom.Commitment[KP, KS], error) {
			return pedersencom.NewCommitment[KP, KS](d.Value())
		},
	})

	// ---- ring-Pedersen (intcom) over a 256-bit safe-prime modulus
	const ic = "pkg/commitments/intcom."
	trap := func() *intcom.TrapdoorKey { return intcomTrapdoor(primeTable[2], "intcom-trapdoor") }
	add(spec[*intcom.TrapdoorKey]{
		name: "intcom.TrapdoorKey", covers: ic + "TrapdoorKey", group: "commitments",
		gen:   func() []nv[*intcom.TrapdoorKey] { return []nv[*intcom.TrapdoorKey]{{"safe256", trap()}} },
		valid: func(d *intcom.TrapdoorKey) (*intcom.TrapdoorKey, error) {
			t, err := d.Group().FromUint(d.T().Value())
			if err != nil {
				return nil, err
			}
			return intcom.NewTrapdoorKey(t, d.Lambda())
		},
	})
	add(spec[*intcom.CommitmentKey]{
		name: "intcom.CommitmentKey", covers: ic + "CommitmentKey", group: "commitments",
		gen:  func() []nv[*intcom.CommitmentKey] { return []nv[*intcom.CommitmentKey]{{"exported-safe256", trap().Export()}} },
		// the validating constructor is unexported; its documented rules are recomputed with math/big:
		// s != t, neither is 1, Jacobi(s|N) = Jacobi(t|N) = 1, gcd(s-1,N) = gcd(t-1,N) = 1, both in [1,N) and coprime to N
		valid: func(d *intcom.CommitmentKey) (*intcom.CommitmentKey, error) {
			n := d.Group().Modulus().Big()
			s, t := d.S().Value().Big(), d.T().Value().Big()
			one := big.NewInt(1)
			if !d.S().Value().Modulus().Equal(d.T().Value().Modulus()) {
				return nil, fmt.Errorf("s and t live in different groups")
			}
			for _, v := range []*big.Int{s, t} {
				if v.Sign() <= 0 || v.Cmp(n) >= 0 || new(big.Int).GCD(nil, nil, v, n).Cmp(one) != 0 {
					return nil, fmt.Errorf("generator %v is not a unit mod N", v)
				}
				if v.Cmp(one) == 0 {
					return nil, fmt.Errorf("generator is the identity")
				}
				if n.Bit(0) == 1 && big.Jacobi(v, n) != 1 {
					return nil, fmt.Errorf("generator %v has Jacobi symbol != 1", v)
				}
				if new(big.Int).GCD(nil, nil, new(big.Int).Sub(v, one), n).Cmp(one) != 0 {
					return nil, fmt.Errorf("generator %v: gcd(v-1, N) != 1", v)
				}
			}
			if s.Cmp(t) == 0 {
				return nil, fmt.Errorf("s == t")
			}
			return d, nil
		},
	})
	add(spec[*intcom.Message]{
		name: "intcom.Message", covers: ic + "Message", group: "commitments",
		gen: func() []nv[*intcom.Message] {
			return []nv[*intcom.Message]{{"0", must(intcom.NewMessage(num.Z().FromInt64(0)))}, {"-5", must(intcom.NewMessage(num.Z().FromInt64(-5)))}, {"N", must(intcom.NewMessage(must(num.Z().FromBig(primeTable[0].n()))))}}
		},
		eq:    func(a, b *intcom.Message) bool { return a.Value().Equal(b.Value()) },
		valid: func(d *intcom.Message) (*intcom.Message, error) { return intcom.NewMessage(d.Value()) },
	})
	add(spec[*intcom.Witness]{
		name: "intcom.Witness", covers: ic + "Witness", group: "commitments",
		gen: func() []nv[*intcom.Witness] {
			return []nv[*intcom.Witness]{{"0", must(intcom.NewWitness(num.Z().FromInt64(0)))}, {"-1", must(intcom.NewWitness(num.Z().FromInt64(-1)))}, {"N", must(intcom.NewWitness(must(num.Z().FromBig(primeTable[1].n()))))}}
		},
		eq:    func(a, b *intcom.Witness) bool { return a.Value().Equal(b.Value()) },
		valid: func(d *intcom.Witness) (*intcom.Witness, error) { return intcom.NewWitness(d.Value()) },
	})
	add(spec[*intcom.Commitment]{
		name: "intcom.Commitment", covers: ic + "Commitment", group: "commitments",
		gen: func() []nv[*intcom.Commitment] {
			k := trap().Export()
			return []nv[*intcom.Commitment]{{"s", must(intcom.NewCommitment(k.S()))}, {"t", must(intcom.NewCommitment(k.T()))}}
		},
		eq: func(a, b *intcom.Commitment) bool { return a.Value().Equal(b.Value()) },
		valid: func(d *intcom.Commitment) (*intcom.Commitment, error) {
			el, err := d.Value().Group().FromUint(d.Value().Value())
			if err != nil {
				return nil, err
			}
			return intcom.NewCommitment(el)
		},
	})

	// ---- IND-CPA commitments over Paillier
	const ip = "pkg/commitments/indcpacom."
	type (
		iMsg = indcpacom.Message[*paillier.Plaintext]
		iWit = indcpacom.Witness[*paillier.Nonce]
		iCom = indcpacom.Commitment[*paillier.Ciphertext]
		iKey = indcpacom.CommitmentKey[*paillier.PublicKey, *paillier.Plaintext, *paillier.Nonce, *paillier.Ciphertext]
	)
	pai := func() (*paillier.PublicKey, *paillier.Plaintext, *paillier.Nonce, *paillier.Ciphertext) {
		pp := primeTable[1]
		pub := paillierSK(pp).Public()
		pt := must(paillier.NewPlaintextFromNat(must(num.N().FromBig(big.NewInt(42))), must(num.NPlus().FromBig(pp.n()))))
		n := must(pub.SampleNonce(stream("indcpa-nonce")))
		return pub, pt, n, must(pub.EncryptWithNonce(pt, n))
	}
	add(spec[*iKey]{
		name: "indcpacom.CommitmentKey[paillier]", covers: ip + "CommitmentKey", group: "commitments",
		gen: func() []nv[*iKey] {
			pub, _, _, _ := pai()
			return []nv[*iKey]{{"blum256", must(indcpacom.NewCommitmentKey[*paillier.PublicKey, *paillier.Plaintext, *paillier.Nonce, *paillier.Ciphertext](pub))}}
		},
		eq: func(a, b *iKey) bool { return a.Equal(b) },
		valid: func(d *iKey) (*iKey, error) {
			return indcpacom.NewCommitmentKey[*paillier.PublicKey, *paillier.Plaintext, *paillier.Nonce, *paillier.Ciphertext](d.EncryptionKey())
		},
	})
	add(spec[*iMsg]{
		name: "indcpacom.Message[paillier]", covers: ip + "Message", group: "commitments",
		gen: func() []nv[*iMsg] {
			_, pt, _, _ := pai()
			return []nv[*iMsg]{{"42", must(indcpacom.NewMessage(pt))}}
		},
		eq:    func(a, b *iMsg) bool { return a.Value().Equal(b.Value()) },
		valid: func(d *iMsg) (*iMsg, error) { return indcpacom.NewMessage(d.Value()) },
	})
	add(spec[*iWit]{
		name: "indcpacom.Witness[paillier]", covers: ip + "Witness", group: "commitments",
		gen: func() []nv[*iWit] {
			_, _, n, _ := pai()
			return []nv[*iWit]{{"r", must(indcpacom.NewWitness(n))}}
		},
		eq:    func(a, b *iWit) bool { return a.Value().Equal(b.Value()) },
		valid: func(d *iWit) (*iWit, error) { return indcpacom.NewWitness(d.Value()) },
	})
	add(spec[*iCom]{
		name: "indcpacom.Commitment[paillier]", covers: ip + "Commitment", group: "commitments",
		gen: func() []nv[*iCom] {
			_, _, _, c := pai()
			return []nv[*iCom]{{"Enc(42;r)", must(indcpacom.NewCommitment(c))}}
		},
		eq:    func(a, b *iCom) bool { return a.Value().Equal(b.Value()) },
		valid: func(d *iCom) (*iCom, error) { return indcpacom.NewCommitment(d.Value()) },
	})
}

// intcomTrapdoor builds a ring-Pedersen trapdoor key over the safe-prime pair pp with fixed randomness.
func intcomTrapdoor(pp primePair, label string) *intcom.TrapdoorKey {
	p, q := pp.natPlus()
	grp := must(znstar.NewRSAGroup(p, q))
	pq := new(big.Int).Mul(new(big.Int).Rsh(bigHex(pp.p), 1), new(big.Int).Rsh(bigHex(pp.q), 1))
	zmod := must(num.NewZMod(must(num.NPlus().FromBig(pq))))
	st := stream(label)
	for i := 0; i < 1000; i++ {
		t := must(grp.RandomQuadraticResidue(st))
		b := make([]byte, (pq.BitLen()+7)/8+8)
		_, _ = st.Read(b)
		lambda := must(zmod.FromBig(new(big.Int).Mod(new(big.Int).SetBytes(b), pq)))
		if tk, err := intcom.NewTrapdoorKey(t, lambda); err == nil {
			return tk
		}
	}
	panic("no intcom trapdoor key found")
}

// a second safe-prime pair (N of 512 bits), from the same table as checks/c16/keys_test.go
var safe512 = primePair{"safe512", "e9061daf0f3e5e4ab81120532317186c7d3b71058d1966cf2d54996f324c2a0b", "da60905ff4704f77c1168f60733a463a51f05330b615a80a88116fd4939e0f6f"}
