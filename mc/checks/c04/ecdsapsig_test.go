package c04

// Adapters of the partial-signature fault section (l22psig_test.go) for the threshold ECDSA protocols.

import (
	"crypto/sha256"
	"fmt"
	"sync"

	"github.com/bronlabs/errs-go/errs"

	"github.com/bronlabs/bron-crypto/pkg/base"
	"github.com/bronlabs/bron-crypto/pkg/base/curves/k256"
	"github.com/bronlabs/bron-crypto/pkg/base/serde"
	"github.com/bronlabs/bron-crypto/pkg/mpc/signatures/ecdsa/cggmp21"
	cgsigning "github.com/bronlabs/bron-crypto/pkg/mpc/signatures/ecdsa/cggmp21/signing"
	"github.com/bronlabs/bron-crypto/pkg/mpc/signatures/ecdsa/dkls23"
	"github.com/bronlabs/bron-crypto/pkg/signatures/ecdsa"

	"verifmc/engine"
	"verifmc/proto"
	"verifmc/ref/conv"
	"verifmc/ref/curve/libcurve"
	"verifmc/ref/sig"
)

type (
	kP = *k256.Point
	kB = *k256.BaseFieldElement
	kS = *k256.Scalar
)

var (
	ecdsaMu    sync.Mutex
	ecdsaCache = map[string]*psigHonest{}
)

func ecdsaSuite() *ecdsa.Suite[kP, kB, kS] {
	s, err := ecdsa.NewSuite(k256.NewCurve(), sha256.New)
	if err != nil {
		panic(engine.HarnessError{Msg: "ecdsa.NewSuite: " + err.Error()})
	}
	return s
}

// ecdsaVerdict: independent SEC 1 verification of (r, s[, v]) for pk and message "m".
func ecdsaVerdict(pk kP, sg *ecdsa.Signature[kS]) (string, error) {
	c := libcurve.K256()
	P0, err := c.TryToRef(pk)
	if err != nil || P0.Inf {
		return "", fmt.Errorf("BAD-SIGNATURE: public key not on the reference curve")
	}
	d := sha256.Sum256([]byte("m"))
	r, s := conv.ToBig(sg.R()), conv.ToBig(sg.S())
	if !sig.ECDSAVerifyV(c.Ref, P0, d[:], r, s, sg.V()) {
		return "", fmt.Errorf("BAD-SIGNATURE: SEC 1 verification fails for r=%x s=%x", r, s)
	}
	return fmt.Sprintf("r=%x s=%x", r, s), nil
}

func encodeAll[T any](ps map[proto.ID]T) map[proto.ID][]byte {
	out := map[proto.ID][]byte{}
	for id, p := range ps {
		b, err := serde.MarshalCBOR(p)
		if err != nil {
			panic(engine.HarnessError{Msg: "cannot encode an honest partial signature: " + err.Error()})
		}
		out[id] = b
	}
	return out
}

func dklsGeneric(mult string, quorum []proto.ID) func() *psigHonest {
	return func() *psigHonest {
		key := fmt.Sprint("dkls23", mult, quorum, engine.Seed())
		ecdsaMu.Lock()
		defer ecdsaMu.Unlock()
		if h, ok := ecdsaCache[key]; ok {
			return h
		}
		type psig = *dkls23.PartialSignature[kP, kB, kS]
		ids := []proto.ID{1, 2, 3}
		seed := engine.Seed()
		base, err := proto.C01BaseShards(proto.C01Dealer, k256.NewCurve(), proto.Threshold(2, ids...), ids, seed, "c04/dkls23psig")
		if err != nil {
			panic(engine.HarnessError{Msg: "dealer: " + err.Error()})
		}
		shards, err := proto.C01DKLs23Shards[kP, kB, kS](base)
		if err != nil {
			panic(engine.HarnessError{Msg: err.Error()})
		}
		suite := ecdsaSuite()
		ps, err := proto.C01DKLs23Partials(mult, suite, shards, quorum, []byte("m"), seed, "c04/psig/main")
		if err != nil {
			panic(engine.HarnessError{Msg: err.Error()})
		}
		po, err := proto.C01DKLs23Partials(mult, suite, shards, quorum, []byte("other"), seed, "c04/psig/other")
		if err != nil {
			panic(engine.HarnessError{Msg: err.Error()})
		}
		pk := shards[quorum[0]].PublicKey()
		h := &psigHonest{enc: encodeAll(ps), other: encodeAll(po), recode: recodeAs[psig], aggregators: []string{"outside"}}
		h.aggregate = func(enc map[proto.ID][]byte, _ int, _ proto.ID) (out string, err error, pan string) {
			var list []psig
			for _, id := range quorum {
				var p psig
				var derr error
				if pan = bolCatch(func() { p, derr = serde.UnmarshalCBOR[psig](enc[id]) }); pan != "" {
					return "", nil, "decoder: " + pan
				}
				if derr != nil {
					return "", fmt.Errorf("DECODE: %w", derr), ""
				}
				list = append(list, p)
			}
			pan = bolCatch(func() {
				sg, e := dkls23.Aggregate(suite, pk, []byte("m"), list...)
				if e != nil {
					err = e
					return
				}
				out, err = ecdsaVerdict(pk.Value(), sg)
			})
			return out, err, pan
		}
		sg, aerr, pan := h.aggregate(h.enc, 0, 0)
		if aerr != nil || pan != "" {
			panic(engine.HarnessError{Msg: fmt.Sprintf("dkls23-%s honest aggregation failed: %v %s", mult, aerr, pan)})
		}
		h.sig = sg
		ecdsaCache[key] = h
		return h
	}
}

func cggmpGeneric(quorum []proto.ID) func() *psigHonest {
	return func() *psigHonest {
		key := fmt.Sprint("cggmp21", quorum, engine.Seed())
		ecdsaMu.Lock()
		defer ecdsaMu.Unlock()
		if h, ok := ecdsaCache[key]; ok {
			return h
		}
		type psig = *cggmp21.PartialSignature[kP, kB, kS]
		ids := []proto.ID{1, 2, 3}
		seed := engine.Seed()
		shards, err := proto.C01CGGMP21Deal(k256.NewCurve(), proto.Threshold(2, ids...), 2048, seed, "c04/cggmp21psig")
		if err != nil {
			panic(engine.HarnessError{Msg: "cggmp21 dealer: " + err.Error()})
		}
		suite := ecdsaSuite()
		ps, aggs, err := proto.C01CGGMP21Partials(suite, shards, quorum, []byte("m"), seed, "c04/psig/main")
		if err != nil {
			panic(engine.HarnessError{Msg: err.Error()})
		}
		po, _, err := proto.C01CGGMP21Partials(suite, shards, quorum, []byte("other"), seed, "c04/psig/other")
		if err != nil {
			panic(engine.HarnessError{Msg: err.Error()})
		}
		pk := shards[quorum[0]].PublicKey()
		h := &psigHonest{enc: encodeAll(ps), other: encodeAll(po), recode: recodeAs[psig], aggregators: []string{"outside", "cosigner"}}
		// The stateless aggregator holds neither the public key nor the message: it cannot verify what it returns, and
		// under a Gamma mismatch it cannot tell which cosigner deviates (it names whichever its map iteration meets
		// second). Both are ONE design property of that call site; they are keyed as such (known finding).
		h.keyOf = func(kind string, which int, path, op string) string {
			if which == 0 && (kind == "bad-signature" || kind == "wrong-blame") {
				return kind + "/cggmp21/noncosigning-aggregator"
			}
			return ""
		}
		h.aggregate = func(enc map[proto.ID][]byte, which int, dev proto.ID) (out string, err error, pan string) {
			m := map[proto.ID]psig{}
			for _, id := range quorum {
				var p psig
				var derr error
				if pan = bolCatch(func() { p, derr = serde.UnmarshalCBOR[psig](enc[id]) }); pan != "" {
					return "", nil, "decoder: " + pan
				}
				if derr != nil {
					return "", fmt.Errorf("DECODE: %w", derr), ""
				}
				m[id] = p
			}
			pan = bolCatch(func() {
				agg, e := cgsigning.NewNonCosigningAggregator(suite.Curve())
				if e != nil {
					panic(engine.HarnessError{Msg: e.Error()})
				}
				if which == 1 {
					for _, id := range quorum { // the first honest cosigner's stateful aggregator
						if id != dev {
							agg = aggs[id]
							break
						}
					}
				}
				// the aggregators range over a Go map: repeat so that every order-dependent verdict shows (the union of
				// the errors is what is judged; 16 repetitions miss an order with probability 2^-15)
				var errList []error
				seen := map[string]bool{}
				for rep := 0; rep < 16; rep++ {
					sg, e := agg.Aggregate(m)
					if e != nil {
						if k := fmt.Sprint(base.GetMaliciousIdentities[proto.ID](e)); !seen[k] {
							seen[k] = true
							errList = append(errList, e)
						}
						continue
					}
					if rep == 0 {
						out, err = ecdsaVerdict(pk.Value(), sg)
					}
				}
				if len(errList) > 0 {
					err = errs.Join(errList...)
				}
			})
			return out, err, pan
		}
		sg, aerr, pan := h.aggregate(h.enc, 0, 0)
		if aerr != nil || pan != "" {
			panic(engine.HarnessError{Msg: fmt.Sprintf("cggmp21 honest aggregation failed: %v %s", aerr, pan)})
		}
		h.sig = sg
		ecdsaCache[key] = h
		return h
	}
}
