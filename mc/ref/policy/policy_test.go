package policy

import "testing"

// Self-test of the reference against published numbers: Dedekind numbers (labelled monotone functions) and the
// number of inequivalent monotone functions (OEIS A003182).
func TestMonotoneCounts(t *testing.T) {
	ded := []int{2, 3, 6, 20, 168, 7581}
	ineq := []int{2, 3, 5, 10, 30, 210}
	for n := 0; n <= 5; n++ {
		fs := MonotoneFunctions(n)
		if len(fs) != ded[n] {
			t.Fatalf("n=%d: %d monotone functions, want %d", n, len(fs), ded[n])
		}
		st := newSwapTab(n)
		c := 0
		for _, f := range fs {
			if st.isCanonical(f, n) {
				c++
				if Canonical(f, n) != f {
					t.Fatalf("Canonical disagrees with isCanonical")
				}
			}
			for i := 0; i < n; i++ {
				for j := i + 1; j < n; j++ {
					if swapVars(f, n, i, j) != st.swap(f, i, j) {
						t.Fatalf("swap table mismatch")
					}
				}
			}
		}
		if c != ineq[n] {
			t.Fatalf("n=%d: %d inequivalent monotone functions, want %d", n, c, ineq[n])
		}
	}
}

func TestFamilies(t *testing.T) {
	for n := 2; n <= 5; n++ {
		for _, lab := range []bool{false, true} {
			ps := CNFs(n, lab)
			for _, p := range ps {
				if !p.Monotone() || p.AllSingletonsQualified() || !p.AnyQualified() {
					t.Fatalf("bad CNF %v", p)
				}
				mu := p.MaximalUnqualified()
				if len(mu) != len(p.MUS) {
					t.Fatalf("MUS mismatch %v", p)
				}
			}
			t.Logf("cnf n=%d labelled=%v: %d", n, lab, len(ps))
		}
		t.Logf("hier n=%d: %d", n, len(Hierarchicals(n, 3)))
	}
	for _, p := range Hierarchicals(5, 3) {
		if !p.Monotone() || !p.AnyQualified() {
			t.Fatalf("bad hierarchical %v", p)
		}
	}
	for ml := 1; ml <= 5; ml++ {
		ps := BoolExprs(ml, 4, false)
		for _, p := range ps {
			if !p.Monotone() || p.Tree.Leaves() > ml || p.Tree.Depth() > 2 {
				t.Fatalf("bad boolexpr %v", p)
			}
		}
		t.Logf("boolexpr leaves<=%d: %d (+%d with duplicate sibling leaves)", ml, len(ps), len(BoolExprs(ml, 4, true)))
	}
}

func TestCNF6(t *testing.T) {
	if testing.Short() {
		t.Skip()
	}
	n := len(CNFTruthTables(6, false))
	t.Logf("cnf n=6 up to relabelling: %d", n)
}
