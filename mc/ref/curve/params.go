package curve

import (
	"math/big"
	"sync"
)

// All constants below are typed in from the cited standards. They are validated by params_test.go (primality of p
// and q, generator on the curve, q*G == O, (h*q) kills arbitrary points, published multiples / test vectors, and for
// P-256 agreement with crypto/elliptic of the Go standard library).

func hexInt(s string) *big.Int {
	v, ok := new(big.Int).SetString(s, 16)
	if !ok {
		panic("ref/curve: bad hex constant " + s)
	}
	return v
}

func decInt(s string) *big.Int {
	v, ok := new(big.Int).SetString(s, 10)
	if !ok {
		panic("ref/curve: bad decimal constant " + s)
	}
	return v
}

func newFpCurve(name, p string, a, b *big.Int, gx, gy, q, h string) *FpCurve {
	F := NewPrimeField(hexInt(p))
	return &FpCurve{
		Name: name, F: F, A: F.Red(a), B: F.Red(b),
		G: FpPoint{X: hexInt(gx), Y: hexInt(gy)},
		Q: hexInt(q), H: hexInt(h),
	}
}

// K256 is secp256k1 (SEC 2 v2, section 2.4.1): y^2 = x^3 + 7.
var K256 = sync.OnceValue(func() *FpCurve {
	return newFpCurve("secp256k1",
		"fffffffffffffffffffffffffffffffffffffffffffffffffffffffefffffc2f",
		big.NewInt(0), big.NewInt(7),
		"79be667ef9dcbbac55a06295ce870b07029bfcdb2dce28d959f2815b16f81798",
		"483ada7726a3c4655da4fbfc0e1108a8fd17b448a68554199c47d08ffb10d4b8",
		"fffffffffffffffffffffffffffffffebaaedce6af48a03bbfd25e8cd0364141", "1")
})

// P256 is NIST P-256 / secp256r1 (FIPS 186-4 D.1.2.3, SEC 2 section 2.4.2): y^2 = x^3 - 3x + b.
var P256 = sync.OnceValue(func() *FpCurve {
	return newFpCurve("P-256",
		"ffffffff00000001000000000000000000000000ffffffffffffffffffffffff",
		big.NewInt(-3), hexInt("5ac635d8aa3a93e7b3ebbd55769886bc651d06b0cc53b0f63bce3c3e27d2604b"),
		"6b17d1f2e12c4247f8bce6e563a440f277037d812deb33a0f4a13945d898c296",
		"4fe342e2fe1a7f9b8ee7eb4a7c0f9e162bce33576b315ececbb6406837bf51f5",
		"ffffffff00000000ffffffffffffffffbce6faada7179e84f3b9cac2fc632551", "1")
})

// Pallas is the first curve of the pasta cycle: y^2 = x^3 + 5 over F_p, prime order q.
//
// Two generators are in use: zcash pasta_curves takes (-1, 2), Mina (o1-labs proof-systems, curves/src/pasta/curves/
// pallas.rs: G_GENERATOR_X = 1, G_GENERATOR_Y = 1241865478...7144507) takes (1, sqrt(6)). bron-crypto implements the Mina
// signature scheme, so G is the Mina generator; the zcash one is available as PastaZcashGenerator.
var Pallas = sync.OnceValue(func() *FpCurve {
	c := newFpCurve("pallas",
		"40000000000000000000000000000000224698fc094cf91b992d30ed00000001",
		big.NewInt(0), big.NewInt(5),
		"1", "0",
		"40000000000000000000000000000000224698fc0994a8dd8c46eb2100000001", "1")
	c.G.Y = decInt("12418654782883325593414442427049395787963493412651469444558597405572177144507")
	return c
})

// Vesta is the second curve of the pasta cycle: y^2 = x^3 + 5 over F_q (Pallas' scalar field), prime order p.
// G is the Mina generator (vesta.rs: G_GENERATOR_X = 1, G_GENERATOR_Y = 1142690692...4104162); see Pallas.
var Vesta = sync.OnceValue(func() *FpCurve {
	c := newFpCurve("vesta",
		"40000000000000000000000000000000224698fc0994a8dd8c46eb2100000001",
		big.NewInt(0), big.NewInt(5),
		"1", "0",
		"40000000000000000000000000000000224698fc094cf91b992d30ed00000001", "1")
	c.G.Y = decInt("11426906929455361843568202299992114520848200991084027513389447476559454104162")
	return c
})

// PastaZcashGenerator returns the zcash pasta_curves generator (-1, 2) of Pallas() or Vesta().
func PastaZcashGenerator(c *FpCurve) FpPoint {
	return FpPoint{X: c.F.FromInt64(-1), Y: big.NewInt(2)}
}

const (
	bls12381P = "1a0111ea397fe69a4b1ba7b6434bacd764774b84f38512bf6730d2a0f6b0f6241eabfffeb153ffffb9feffffffffaaab"
	bls12381R = "73eda753299d7d483339d80809a1d80553bda402fffe5bfeffffffff00000001"
)

// BLS12381G1 is E(F_p): y^2 = x^3 + 4 (draft-irtf-cfrg-pairing-friendly-curves section 4.2.1), prime subgroup order r,
// cofactor h1 = (z-1)^2/3 with z = -0xd201000000010000.
var BLS12381G1 = sync.OnceValue(func() *FpCurve {
	return newFpCurve("BLS12-381 G1", bls12381P,
		big.NewInt(0), big.NewInt(4),
		"17f1d3a73197d7942695638c4fa9ac0fc3688c4f9774b905a14e3a3f171bac586c55e83ff97a1aeffb3af00adb22c6bb",
		"08b3f481e3aaa0f1a09e30ed741d8ae4fcf5e095d5d00af600db18cb2c04b3edd03cc744a2888ae40caa232946c5e7e1",
		bls12381R, "396c8c005555e1568c00aaab0000aaab")
})

// BLS12381Fp2 is F_p[u]/(u^2+1), the coordinate field of G2.
var BLS12381Fp2 = sync.OnceValue(func() *QuadField {
	return NewQuadField(NewPrimeField(hexInt(bls12381P)), big.NewInt(-1))
})

// BLS12381G2 is E'(F_p^2): y^2 = x^3 + 4(1+u), prime subgroup order r, cofactor h2.
var BLS12381G2 = sync.OnceValue(func() *Fp2Curve {
	F := BLS12381Fp2()
	return &Fp2Curve{
		Name: "BLS12-381 G2", F: F, A: F.El(0, 0), B: F.El(4, 4),
		G: Fp2Point{
			X: Fp2{
				hexInt("024aa2b2f08f0a91260805272dc51051c6e47ad4fa403b02b4510b647ae3d1770bac0326a805bbefd48056c8c121bdb8"),
				hexInt("13e02b6052719f607dacd3a088274f65596bd0d09920b61ab5da61bbdc7f5049334cf11213945d57e5ac7d055d042b7e"),
			},
			Y: Fp2{
				hexInt("0ce5d527727d6e118cc9cdc6da2e351aadfd9baa8cbdd3a76d429a695160d12c923ac9cc3baca289e193548608b82801"),
				hexInt("0606c4a02ea734cc32acd2b02bc28b99cb3e287e85a763af267492ab572e99ab3f370d275cec1da1aaa9075ff05f79be"),
			},
		},
		Q: hexInt(bls12381R),
		H: hexInt("5d543a95414e7f1091d50792876a202cd91de4547085abaa68a205b2e5a7ddfa628f1cb4d9e82ef21537e293a6691ae1616ec6e786f0c70cf1c38e31c7238e5"),
	}
})

const (
	p25519  = "7fffffffffffffffffffffffffffffffffffffffffffffffffffffffffffffed"              // 2^255 - 19
	l25519  = "1000000000000000000000000000000014def9dea2f79cd65812631a5cf5d3ed"              // 2^252 + 27742317777372353535851937790883648493
	gx25519 = "15112221349535400772501151409588531511454012693041857206046113283949847762202" // RFC 8032 5.1 (decimal)
	gy25519 = "46316835694926478169428394003475163141307993866256225615783033603165251855960" // = 4/5
	gv25519 = "14781619447589544791020593568409986887264606134616475288964881837755586237401" // RFC 7748 4.1 V(P) (decimal)
)

// Edwards25519 is -x^2 + y^2 = 1 - (121665/121666) x^2 y^2 over F_(2^255-19) (RFC 8032 section 5.1, RFC 7748 4.1).
var Edwards25519 = sync.OnceValue(func() *TECurve {
	F := NewPrimeField(hexInt(p25519))
	d, _ := F.Div(F.FromInt64(-121665), big.NewInt(121666))
	return &TECurve{
		Name: "edwards25519", F: F, A: F.FromInt64(-1), D: d,
		G: EPoint{decInt(gx25519), decInt(gy25519)},
		Q: hexInt(l25519), H: big.NewInt(8),
	}
})

// Curve25519 is v^2 = u^3 + 486662 u^2 + u over F_(2^255-19) (RFC 7748 section 4.1), base point u = 9.
var Curve25519 = sync.OnceValue(func() *MCurve {
	F := NewPrimeField(hexInt(p25519))
	return &MCurve{
		Name: "curve25519", F: F, A: big.NewInt(486662), B: big.NewInt(1),
		G: MPoint{U: big.NewInt(9), V: decInt(gv25519)},
		Q: hexInt(l25519), H: big.NewInt(8),
		A24: big.NewInt(121665), Bits: 255,
	}
})

// sqrtM486664 is the square root of -486664 used by the RFC 7748 birational map: the root for which the Edwards base
// point maps to the Montgomery base point (9, V(P)) given in the RFC.
var sqrtM486664 = sync.OnceValue(func() *big.Int {
	e, m := Edwards25519(), Curve25519()
	F := e.F
	r, ok := F.Sqrt(F.FromInt64(-486664))
	if !ok {
		panic("ref/curve: -486664 is not a square mod 2^255-19")
	}
	// v = r*u/x at the base points
	ux, _ := F.Div(m.G.U, e.G.X)
	if F.Mul(r, ux).Cmp(m.G.V) != 0 {
		r = F.Neg(r)
	}
	if F.Mul(r, ux).Cmp(m.G.V) != 0 {
		panic("ref/curve: base points of edwards25519 and curve25519 are not related by the RFC 7748 map")
	}
	return r
})

// SqrtMinus486664 exposes the constant of the birational map.
func SqrtMinus486664() *big.Int { return new(big.Int).Set(sqrtM486664()) }

// FpCurves lists the built-in short-Weierstrass curves over prime fields.
func FpCurves() []*FpCurve { return []*FpCurve{K256(), P256(), Pallas(), Vesta(), BLS12381G1()} }
