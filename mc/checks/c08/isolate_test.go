package c08

import (
	"bytes"
	"encoding/hex"
	"fmt"
	"os"
	"os/exec"
	"reflect"
	"sort"
	"strconv"
	"strings"
	"sync"
	"sync/atomic"
	"time"

	"github.com/bronlabs/bron-crypto/pkg/proofs/sigma/compiler"

	"verifmc/engine"
)

// Some library verifiers run their branch checks in errgroup goroutines (sigand/sigor). A nil-pointer panic inside
// such a worker cannot be recovered by the caller: it terminates the process. Inputs whose DECODED form contains
// a nil component that the honest proof does not contain are therefore verified in a child process (a re-exec of
// this test binary with VERIF_C08_CHILD set); everything else is verified in-process.

// nilPaths lists the paths of nil pointers / interfaces / slices inside v (unexported fields included).
func nilPaths(v any) []string {
	var out []string
	seen := map[uintptr]bool{}
	var rec func(v reflect.Value, path string, depth int)
	rec = func(v reflect.Value, path string, depth int) {
		if depth > 14 {
			return
		}
		switch v.Kind() {
		case reflect.Pointer:
			if v.IsNil() {
				out = append(out, path)
				return
			}
			if seen[v.Pointer()] {
				return
			}
			seen[v.Pointer()] = true
			rec(v.Elem(), path, depth+1)
		case reflect.Interface:
			if v.IsNil() {
				out = append(out, path)
				return
			}
			rec(v.Elem(), path, depth+1)
		case reflect.Slice:
			if v.Type().Elem().Kind() == reflect.Uint8 || v.Type().Elem().Kind() == reflect.Uint64 || v.Type().Elem().Kind() == reflect.Uint {
				if v.Len() == 0 {
					out = append(out, path+"(empty)")
				}
				return
			}
			for i := 0; i < v.Len(); i++ {
				rec(v.Index(i), fmt.Sprintf("%s[%d]", path, i), depth+1)
			}
		case reflect.Array:
			if k := v.Type().Elem().Kind(); k == reflect.Uint8 || k == reflect.Uint64 || k == reflect.Uint {
				return
			}
			for i := 0; i < v.Len(); i++ {
				rec(v.Index(i), fmt.Sprintf("%s[%d]", path, i), depth+1)
			}
		case reflect.Struct:
			for i := 0; i < v.NumField(); i++ {
				rec(v.Field(i), path+"."+v.Type().Field(i).Name, depth+1)
			}
		}
	}
	rec(reflect.ValueOf(v), "$", 0)
	sort.Strings(out)
	return out
}

func sameStrings(a, b []string) bool {
	if len(a) != len(b) {
		return false
	}
	for i := range a {
		if a[i] != b[i] {
			return false
		}
	}
	return true
}

// ---------------------------------------------------------------------------------------------
// child side

var (
	isChild   = os.Getenv("VERIF_C08_CHILD") != ""
	childSeed int64
)

func seedValue() int64 {
	if isChild {
		return childSeed
	}
	return engine.Seed()
}

// registry of every constructed instance by name (filled by buildPlan; used by the child to find its instance)
var (
	regMu    sync.Mutex
	registry = map[string]*niInst{}
)

func register(ns ...*niInst) {
	regMu.Lock()
	defer regMu.Unlock()
	for _, n := range ns {
		registry[n.name] = n
	}
}

// childMain executes one isolated operation: "ni|<inst>|<compiler>" (edited proof hex on stdin) or
// "zk|<inst>|<msg>|<edit index>". It prints one line C08CHILD:<ACCEPT|REJECT|PANIC>:detail and exits 0; an
// unrecoverable panic in a library goroutine makes the runtime exit with status 2.
func childMain(spec string) int {
	childSeed, _ = strconv.ParseInt(os.Getenv("VERIF_C08_SEED"), 10, 64)
	parts := strings.Split(spec, "|")
	if parts[0] == "ia" {
		if heavyByName(parts[1]) == nil {
			if strings.HasPrefix(parts[1], "lp") {
				interactiveInsts()
			} else {
				buildPlan()
			}
		}
		ia := iaRegistry[parts[1]]
		if ia == nil {
			fmt.Println("C08CHILD:HARNESS:unknown interactive protocol " + parts[1])
			return 3
		}
		m, _ := strconv.Atoi(parts[2])
		idx, _ := strconv.Atoi(parts[3])
		acc, st := ia.child(m, idx)
		switch {
		case strings.HasPrefix(st, "PANIC@"):
			fmt.Println("C08CHILD:PANIC:" + oneLine(strings.TrimPrefix(st, "PANIC@")))
		case strings.HasPrefix(st, "HARNESS"):
			fmt.Println("C08CHILD:" + st)
			return 3
		case acc:
			fmt.Println("C08CHILD:ACCEPT:")
		default:
			fmt.Println("C08CHILD:REJECT:" + oneLine(st))
		}
		return 0
	}
	if heavyByName(parts[1]) == nil {
		buildPlan()
	}
	n := registry[parts[1]]
	if n == nil {
		fmt.Println("C08CHILD:HARNESS:unknown instance " + parts[1])
		return 3
	}
	switch parts[0] {
	case "ni":
		var hx string
		_, _ = fmt.Fscan(os.Stdin, &hx)
		proof, err := hex.DecodeString(hx)
		if err != nil {
			fmt.Println("C08CHILD:HARNESS:bad hex")
			return 3
		}
		verr, site := safeVerify(n, compiler.Name(parts[2]), verifierCtx().build(), stmtSel{}, proof)
		switch {
		case site != "":
			fmt.Println("C08CHILD:PANIC:" + site + "|" + oneLine(verr.Error()))
		case verr != nil:
			fmt.Println("C08CHILD:REJECT:" + oneLine(verr.Error()))
		default:
			fmt.Println("C08CHILD:ACCEPT:")
		}
	}
	return 0
}

func oneLine(s string) string {
	s = strings.ReplaceAll(s, "\n", " ")
	if len(s) > 300 {
		s = s[:300]
	}
	return s
}

// ---------------------------------------------------------------------------------------------
// parent side

type childResult struct {
	outcome string // ACCEPT | REJECT | PANIC | CRASH
	site    string // library function that panicked (PANIC, CRASH)
	detail  string
}

var (
	childSlots   = make(chan struct{}, 8)
	childCount   atomic.Int64
	childNanos   atomic.Int64
	childCrashes atomic.Int64
)

func runChild(spec string, stdin []byte) childResult {
	childSlots <- struct{}{}
	t0 := time.Now()
	defer func() {
		<-childSlots
		childCount.Add(1)
		childNanos.Add(int64(time.Since(t0)))
	}()
	cmd := exec.Command(os.Args[0], "-test.run", "^TestNothing$")
	cmd.Env = append(os.Environ(), "VERIF_C08_CHILD="+spec, fmt.Sprintf("VERIF_C08_SEED=%d", engine.Seed()), "VERIF_TIER="+engine.Tier())
	cmd.Stdin = bytes.NewReader(stdin)
	var out bytes.Buffer
	cmd.Stdout, cmd.Stderr = &out, &out
	done := make(chan error, 1)
	if err := cmd.Start(); err != nil {
		panic(engine.HarnessError{Msg: "cannot start child process: " + err.Error()})
	}
	go func() { done <- cmd.Wait() }()
	select {
	case <-done:
	case <-time.After(5 * time.Minute):
		_ = cmd.Process.Kill()
		panic(engine.HarnessError{Msg: "child process timed out: " + spec})
	}
	s := out.String()
	if i := strings.Index(s, "C08CHILD:"); i >= 0 {
		line := s[i+len("C08CHILD:"):]
		if j := strings.IndexByte(line, '\n'); j >= 0 {
			line = line[:j]
		}
		k := strings.IndexByte(line, ':')
		if k < 0 {
			k = len(line)
		}
		oc := line[:k]
		if oc == "HARNESS" {
			panic(engine.HarnessError{Msg: "child: " + line})
		}
		detail := strings.TrimPrefix(line[k:], ":")
		if oc == "PANIC" {
			site, rest, _ := strings.Cut(detail, "|")
			return childResult{oc, site, rest}
		}
		return childResult{oc, "", detail}
	}
	// no result line: the process died. Keep the first lines of the Go crash report.
	if strings.Contains(s, "panic:") || strings.Contains(s, "SIGSEGV") {
		childCrashes.Add(1)
		return childResult{"CRASH", libSite(s), crashSummary(s)}
	}
	panic(engine.HarnessError{Msg: "child process produced no result: " + oneLine(s)})
}

func crashSummary(s string) string {
	var keep []string
	for _, l := range strings.Split(s, "\n") {
		l = strings.TrimSpace(l)
		if strings.HasPrefix(l, "panic:") || (strings.Contains(l, "bron-crypto") && strings.HasPrefix(l, "/repo")) || strings.HasPrefix(l, "created by") {
			// keep only run-independent text (no goroutine ids, no code offsets)
			if i := strings.Index(l, " in goroutine"); i >= 0 {
				l = l[:i]
			}
			if i := strings.Index(l, " +0x"); i >= 0 {
				l = l[:i]
			}
			keep = append(keep, l)
		}
		if len(keep) >= 9 {
			break
		}
	}
	return strings.Join(keep, " | ")
}

// failure tally by key (printed at the end of the run: the engine itself prints only the first ten per section)
var (
	tallyMu sync.Mutex
	tally   = map[string]int{}
	tallyEx = map[string]string{}
)

func failf(x *engine.X, key, format string, a ...any) {
	x.Failf(key, format, a...)
	if x.Replay {
		return
	}
	tallyMu.Lock()
	tally[key]++
	if _, ok := tallyEx[key]; !ok {
		m := fmt.Sprintf(format, a...)
		if i := strings.IndexByte(m, '\n'); i >= 0 {
			m = m[:i]
		}
		tallyEx[key] = m
	}
	tallyMu.Unlock()
}

func printTally(sec *engine.Section) {
	tallyMu.Lock()
	defer tallyMu.Unlock()
	keys := make([]string, 0, len(tally))
	for k := range tally {
		keys = append(keys, k)
	}
	sort.Strings(keys)
	for _, k := range keys {
		fmt.Printf("[C08] failure key %-70s cases=%-5d e.g. %s\n", k, tally[k], oneLine(tallyEx[k]))
		if sec != nil {
			sec.Note("failure key %s: %d cases, e.g. %s", k, tally[k], oneLine(tallyEx[k]))
		}
	}
}
