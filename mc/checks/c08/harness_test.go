package c08

import (
	"encoding/binary"
	"fmt"
	"io"
	"reflect"
	"sync"
	"unsafe"

	"github.com/bronlabs/bron-crypto/pkg/base/datastructures/hashset"
	"github.com/bronlabs/bron-crypto/pkg/base/serde"
	"github.com/bronlabs/bron-crypto/pkg/mpc/session"
	"github.com/bronlabs/bron-crypto/pkg/mpc/sharing"
	"github.com/bronlabs/bron-crypto/pkg/proofs/sigma"
	"github.com/bronlabs/bron-crypto/pkg/proofs/sigma/compiler"
	"github.com/bronlabs/bron-crypto/pkg/proofs/sigma/compiler/fiatshamir"
	"github.com/bronlabs/bron-crypto/pkg/proofs/sigma/compiler/fischlin"
	"github.com/bronlabs/bron-crypto/pkg/proofs/sigma/compiler/randfischlin"

	"verifmc/det"
	"verifmc/engine"
)

// ---------------------------------------------------------------------------------------------
// small utilities

func must[T any](v T, err error) T {
	if err != nil {
		panic(engine.HarnessError{Msg: fmt.Sprintf("harness setup failed: %v", err)})
	}
	return v
}

func stream(label string) *det.Stream { return det.New(seedValue(), "c08/"+label) }

// memo caches expensive immutable setup (keys, honest proofs) across executions.
type memo[T any] struct {
	mu sync.Mutex
	m  map[string]*memoEntry[T]
}

type memoEntry[T any] struct {
	once sync.Once
	v    T
}

func (c *memo[T]) get(key string, build func() T) T {
	c.mu.Lock()
	if c.m == nil {
		c.m = map[string]*memoEntry[T]{}
	}
	e, ok := c.m[key]
	if !ok {
		e = &memoEntry[T]{}
		c.m[key] = e
	}
	c.mu.Unlock()
	e.once.Do(func() { e.v = build() })
	return e.v
}

// ---------------------------------------------------------------------------------------------
// session contexts

const (
	proverIDLabel  = "VERIF_C08_PROVER_ID-"
	extraLabel     = "VERIF_C08_EXTRA-"
	earlierLabel   = "VERIF_C08_EARLIER_EXTRACTION-"
	proverParty    = sharing.ID(1)
	verifierParty  = sharing.ID(2)
	defaultProver  = uint64(1)
	otherProverTag = uint64(2)
)

func patternSeed(b byte) []byte {
	out := make([]byte, 64)
	for i := range out {
		out[i] = byte(i*7+3) ^ b
	}
	return out
}

var (
	commonSeeds = [2][]byte{patternSeed(0xA1), patternSeed(0x5C)}
	pairSeed    = patternSeed(0x33)
)

// ctxSpec describes how one party's context is prepared before it is handed to a prover/verifier constructor.
// The zero value (plus party) is the base context every honest proof is produced in.
type ctxSpec struct {
	party        sharing.ID
	seed         int    // which common seed (the session: sid AND initial transcript state derive from it)
	sidOnly      bool   // overwrite only the sid field, transcript state untouched (artificial; isolates the explicit sid binding)
	extra        bool   // one extra AppendBytes before use
	proverID     uint64 // 0 = defaultProver
	extractClone bool   // an ExtractBytes happened on the session transcript before it was cloned for the proof
	sub          bool   // SubContext of the same quorum (appends the sub-quorum label)
	late         bool   // one extra AppendBytes AFTER the prover/verifier was constructed on the context, before Prove/Verify
}

// lateHooks: what happens to a context between NewProver/NewVerifier and Prove/Verify (keyed by the context object).
var lateHooks sync.Map

func runLate(ctx *session.Context) {
	if f, ok := lateHooks.LoadAndDelete(ctx); ok {
		f.(func())()
	}
}

func (s ctxSpec) String() string {
	return fmt.Sprintf("party=%d seed=%d sidOnly=%v extra=%v proverID=%d extractClone=%v sub=%v late=%v", s.party, s.seed, s.sidOnly, s.extra, s.proverID, s.extractClone, s.sub, s.late)
}

func (s ctxSpec) build() *session.Context {
	q := hashset.NewComparable[sharing.ID](proverParty, verifierParty).Freeze()
	other := proverParty + verifierParty - s.party
	ctx := must(session.NewContext(s.party, q, commonSeeds[s.seed], map[sharing.ID][]byte{other: pairSeed}))
	if s.extractClone {
		_ = must(ctx.Transcript().ExtractBytes(earlierLabel, 32))
	}
	if s.sub {
		ctx = must(ctx.SubContext(q))
	}
	// what the library's callers do (gennaro, canetti, cggmp21 dkg): clone the session context and bind the prover id
	c := ctx.Clone()
	id := s.proverID
	if id == 0 {
		id = defaultProver
	}
	c.Transcript().AppendBytes(proverIDLabel, binary.LittleEndian.AppendUint64(nil, id))
	if s.extra {
		c.Transcript().AppendBytes(extraLabel, []byte{0})
	}
	if s.sidOnly {
		flipSID(c)
	}
	if s.late {
		lateHooks.Store(c, func() { c.Transcript().AppendBytes(extraLabel, []byte{0}) })
	}
	return c
}

// flipSID inverts the first byte of the private sid field (same transcript, different session id).
func flipSID(c *session.Context) {
	f := reflect.ValueOf(c).Elem().FieldByName("sid")
	if !f.IsValid() || f.Len() != 32 {
		panic(engine.HarnessError{Msg: "session.Context has no 32-byte sid field"})
	}
	p := (*[32]byte)(unsafe.Pointer(f.UnsafeAddr()))
	p[0] ^= 0xff
}

func proverCtx() ctxSpec   { return ctxSpec{party: proverParty} }
func verifierCtx() ctxSpec { return ctxSpec{party: verifierParty} }

// ---------------------------------------------------------------------------------------------
// a sigma protocol together with deterministic valid instances

type altStmt[X any] struct {
	name string
	x    X
}

// sigCase is one sigma protocol (plain or composed) with a family of valid (statement, witness) instances.
type sigCase[X sigma.Statement, W sigma.Witness, A sigma.Statement, S sigma.State, Z sigma.Response] struct {
	name string
	// mk builds a fresh protocol object drawing from rng (cheap; called once per prover/verifier/simulator use)
	mk func(rng io.Reader) sigma.Protocol[X, W, A, S, Z]
	// inst(i) is the i-th valid instance (deterministic, cached by the factory); instance 0 is the one proven
	inst func(i int) (X, W)
	// alts lists statements equal to inst(0)'s except that ONE component is replaced by another valid value
	alts func() []altStmt[X]
	// extract is the protocol's extractor where the library exposes one (nil otherwise)
	extract func(p sigma.Protocol[X, W, A, S, Z], x X, a A, es []sigma.ChallengeBytes, zs []Z) (W, error)
	// heavy marks Paillier-sized protocols (leaf-level bit alphabet, Fiat-Shamir only in quick)
	heavy bool
	// noSimulator is the documented refusal of RunSimulator (nil = the protocol has a fixed-challenge simulator)
	noSimulator error
	// unitMS is the approximate cost of one Fiat-Shamir verification in ms (static; sizes chunks and quick alphabets)
	unitMS int
}

// renamed is the same protocol under another name (context edit "other protocol name").
type renamed[X sigma.Statement, W sigma.Witness, A sigma.Statement, S sigma.State, Z sigma.Response] struct {
	sigma.Protocol[X, W, A, S, Z]
}

func (r renamed[X, W, A, S, Z]) Name() sigma.Name { return r.Protocol.Name() + "-VERIF-OTHER" }

// ---------------------------------------------------------------------------------------------
// type-erased non-interactive instance

type stmtSel struct {
	kind    int // 0 = instance 0, 1 = instance 1, 2 = alts[idx]
	idx     int
	renamed bool
}

var compilers = []compiler.Name{fiatshamir.Name, fischlin.Name, randfischlin.Name}

func compShort(c compiler.Name) string {
	switch c {
	case fiatshamir.Name:
		return "FS"
	case fischlin.Name:
		return "Fi"
	default:
		return "rFi"
	}
}

type niInst struct {
	name     string
	heavy    bool
	unitMS   int
	sigName  string // the sigma protocol's own name (the Fischlin compiler selects rho by it)
	noRename bool   // the protocol name is fixed inside the library (no "other protocol name" edit)
	altNames func() []string // names of the statement variants (lazy: building them costs encryptions)
	// compileErr reports the compiler constructor's refusal (nil = admitted)
	compileErr func(c compiler.Name) error
	// soundness parameters for the refusal oracle
	soundnessError   uint
	specialSoundness uint
	challengeLen     int
	prove            func(c compiler.Name, ctx *session.Context, inst int, rngLabel string) ([]byte, error)
	verify           func(c compiler.Name, ctx *session.Context, sel stmtSel, proof []byte) error
	// recode = Marshal(Unmarshal(proof)) with the compiler's own proof type (error when decoding fails)
	recode func(c compiler.Name, proof []byte) ([]byte, error)
	// nils lists the nil components of the decoded proof (error when decoding fails)
	nils func(c compiler.Name, proof []byte) ([]string, error)
	// sigmaLevel runs the sigma-level checks for this protocol
	sigmaLevel func(x *engine.X)
	// zk is the interactive zk-compiler run of this protocol
	zk *interactive
}

func (c *sigCase[X, W, A, S, Z]) pick(sel stmtSel) X {
	switch sel.kind {
	case 0:
		x, _ := c.inst(0)
		return x
	case 1:
		x, _ := c.inst(1)
		return x
	default:
		return c.alts()[sel.idx].x
	}
}

func (c *sigCase[X, W, A, S, Z]) ni() *niInst {
	n := &niInst{name: c.name, heavy: c.heavy, unitMS: max(c.unitMS, 1)}
	n.altNames = sync.OnceValue(func() []string {
		var out []string
		for _, a := range c.alts() {
			out = append(out, a.name)
		}
		return out
	})
	p0 := c.mk(stream(c.name + "/params"))
	n.soundnessError, n.specialSoundness, n.challengeLen = p0.SoundnessError(), p0.SpecialSoundness(), p0.GetChallengeBytesLength()
	n.sigName = string(p0.Name())
	n.compileErr = func(cn compiler.Name) error {
		rng := stream(c.name + "/compile")
		_, err := compiler.Compile(cn, c.mk(rng), rng)
		return err
	}
	n.prove = func(cn compiler.Name, ctx *session.Context, inst int, rngLabel string) ([]byte, error) {
		rng := stream(c.name + "/prove/" + string(cn) + "/" + rngLabel)
		nip, err := compiler.Compile(cn, c.mk(rng), rng)
		if err != nil {
			return nil, err
		}
		pr, err := nip.NewProver(ctx)
		if err != nil {
			return nil, err
		}
		runLate(ctx)
		x, w := c.inst(inst)
		return pr.Prove(x, w)
	}
	n.verify = func(cn compiler.Name, ctx *session.Context, sel stmtSel, proof []byte) error {
		rng := stream(c.name + "/verify")
		p := c.mk(rng)
		if sel.renamed {
			p = renamed[X, W, A, S, Z]{p}
		}
		nip, err := compiler.Compile(cn, p, rng)
		if err != nil {
			return err
		}
		v, err := nip.NewVerifier(ctx)
		if err != nil {
			return err
		}
		runLate(ctx)
		return v.Verify(c.pick(sel), proof)
	}
	n.recode = func(cn compiler.Name, proof []byte) ([]byte, error) {
		switch cn {
		case fiatshamir.Name:
			p, err := serde.UnmarshalCBOR[*fiatshamir.Proof[A, Z]](proof)
			if err != nil {
				return nil, err
			}
			return serde.MarshalCBOR(p)
		case fischlin.Name:
			p, err := serde.UnmarshalCBOR[*fischlin.Proof[A, Z]](proof)
			if err != nil {
				return nil, err
			}
			return serde.MarshalCBOR(p)
		default:
			p, err := serde.UnmarshalCBOR[*randfischlin.Proof[A, Z]](proof)
			if err != nil {
				return nil, err
			}
			return serde.MarshalCBOR(p)
		}
	}
	n.nils = func(cn compiler.Name, proof []byte) ([]string, error) {
		switch cn {
		case fiatshamir.Name:
			p, err := serde.UnmarshalCBOR[*fiatshamir.Proof[A, Z]](proof)
			if err != nil {
				return nil, err
			}
			return nilPaths(p), nil
		case fischlin.Name:
			p, err := serde.UnmarshalCBOR[*fischlin.Proof[A, Z]](proof)
			if err != nil {
				return nil, err
			}
			return nilPaths(p), nil
		default:
			p, err := serde.UnmarshalCBOR[*randfischlin.Proof[A, Z]](proof)
			if err != nil {
				return nil, err
			}
			return nilPaths(p), nil
		}
	}
	n.sigmaLevel = func(x *engine.X) { sigmaLevel(x, c) }
	n.zk = zkIA(c)
	register(n)
	return n
}

// honest proofs are immutable byte strings: computed once per (instance, compiler, context, statement instance)
var proofCache memo[proofOrErr]

type proofOrErr struct {
	b   []byte
	err error
}

func (n *niInst) honest(c compiler.Name, spec ctxSpec, inst int) ([]byte, error) {
	key := fmt.Sprintf("%s|%s|%v|%d", n.name, c, spec, inst)
	r := proofCache.get(key, func() proofOrErr {
		b, err := n.prove(c, spec.build(), inst, fmt.Sprintf("%v/%d", spec, inst))
		return proofOrErr{b, err}
	})
	return r.b, r.err
}
