package c17

import (
	"fmt"
	"math/big"

	"github.com/bronlabs/bron-crypto/pkg/base/nt"
	"github.com/bronlabs/bron-crypto/pkg/base/nt/num"

	"verifmc/engine"
)

// jacobiBody: nt.Jacobi(a, n) against big.Jacobi.
//
//	table:    every a in [-60,60] x every odd n in [1,59]
//	boundary: every a in V± x every n in V\{0} (odd n: value; even n: the documented refusal)
func jacobiBody() func(*engine.X) {
	bound := int64(60) // the repository's own table range
	if engine.Thorough() {
		bound = 500
	}
	var small []*big.Int
	for a := -bound; a <= bound; a++ {
		small = append(small, bi(a))
	}
	var ns []*big.Int
	for n := int64(1); n < bound; n += 2 {
		ns = append(ns, bi(n))
	}
	nTable := len(ns)
	for _, v := range natV() {
		if v.Sign() > 0 && (v.BitLen() > 6 || v.Bit(0) == 0) {
			ns = append(ns, v)
		}
	}
	wide := intV()
	return func(x *engine.X) {
		ni := x.Choose("n", len(ns))
		n := ns[ni]
		as := wide
		if ni < nTable {
			as = append(append([]*big.Int{}, small...), wide...)
		}
		np, err := num.NPlus().FromBig(n)
		if err != nil {
			failf(x, "jacobi/setup", "NPlus.FromBig(%v): %v", n, err)
			return
		}
		hist := map[int]int{}
		for _, a := range as {
			ai, err := num.Z().FromBig(a)
			if err != nil {
				failf(x, "jacobi/setup", "Z.FromBig(%v): %v", a, err)
				continue
			}
			x.Case(fmt.Sprintf("%v/%v", a, n))
			var got int
			var gerr error
			if !guard(x, "jacobi", func() string { return fmt.Sprintf("Jacobi(%s, %s)", hexOf(a), hexOf(n)) }, func() { got, gerr = nt.Jacobi(ai, np) }) {
				continue
			}
			if n.Bit(0) == 0 {
				// documented: only defined for odd positive y
				if gerr == nil {
					failf(x, "jacobi/even-modulus-accepted", "Jacobi(%s, %s) with even n returned %d without error", hexOf(a), hexOf(n), got)
				}
				hist[-2]++
				continue
			}
			want := big.Jacobi(a, n)
			hist[want]++
			if gerr != nil {
				failf(x, "jacobi/err", "Jacobi(%s, %s) failed: %v (want %d)", hexOf(a), hexOf(n), gerr, want)
				continue
			}
			if got != want {
				key := "jacobi/value"
				if a.Sign() < 0 && got == big.Jacobi(new(big.Int).Abs(a), n) {
					// the symbol of |a| was returned: the sign of the numerator was dropped before reduction
					key = "jacobi/negative-numerator"
				}
				failf(x, key, "Jacobi(%s, %s) = %d, correct value %d", a.String(), n.String(), got, want)
			}
		}
		x.Observe(n.BitLen(), n.Bit(0), hist[-1] > 0, hist[0] > 0, hist[1] > 0)
	}
}
