package c12

// Structure-preserving mutations of a CBOR tree (verifmc/ref/cbor) and a raw encoder that can emit the
// container-level malformations the canonical encoder cannot (indefinite lengths, non-minimal heads, bignum
// tags, trailing bytes).

import (
	"bytes"
	"encoding/binary"
	"fmt"
	"regexp"
	"strings"

	rc "verifmc/ref/cbor"
)

// mclass says which oracle applies to a mutated encoding.
type mclass int

const (
	mValue     mclass = iota // a different value of the same shape: reject, or accept a valid object
	mMalformed               // malformed container: MUST be rejected (dup key, unknown field, indefinite length, trailing bytes)
	mEncoding                // other encoding-level change (tag removed/foreign/added, non-minimal head, bignum tag): value oracle
)

func (c mclass) String() string { return [...]string{"value", "malformed", "encoding"}[c] }

type mutation struct {
	op     string // operator name, e.g. "bytes/flip-lsb"
	family string // short family used in finding keys
	class  mclass
	field  string // map-field-drop: the dropped field's path
	data   []byte
}

// ovr: encoding override applied to exactly one node by rawEncode.
type ovr struct {
	indef    bool // indefinite-length form of this container / string
	widen    bool // head one size wider than minimal
	bignum   bool // integer as tag 2/3 byte string
	trailing bool // embedded byte string: one extra 0x00 after the nested item
}

func putHead(out []byte, major byte, arg uint64, widen bool) ([]byte, bool) {
	m := major << 5
	size := 0 // 0: immediate, 1,2,4,8 bytes
	switch {
	case arg < 24:
		size = 0
	case arg <= 0xff:
		size = 1
	case arg <= 0xffff:
		size = 2
	case arg <= 0xffffffff:
		size = 4
	default:
		size = 8
	}
	if widen {
		switch size {
		case 0:
			size = 1
		case 8:
			return out, false
		default:
			size *= 2
		}
	}
	switch size {
	case 0:
		return append(out, m|byte(arg)), true
	case 1:
		return append(out, m|24, byte(arg)), true
	case 2:
		return binary.BigEndian.AppendUint16(append(out, m|25), uint16(arg)), true
	case 4:
		return binary.BigEndian.AppendUint32(append(out, m|26), uint32(arg)), true
	default:
		return binary.BigEndian.AppendUint64(append(out, m|27), arg), true
	}
}

// rawEncode encodes the tree canonically except at target, where o applies. ok=false: the override is not
// applicable to that node.
func rawEncode(n, target *rc.Node, o ovr) (out []byte, ok bool) {
	ok = true
	var enc func(out []byte, n *rc.Node) []byte
	enc = func(out []byte, n *rc.Node) []byte {
		hit := n == target
		head := func(out []byte, major byte, arg uint64) []byte {
			o2, k := putHead(out, major, arg, hit && o.widen)
			if !k {
				ok = false
			}
			return o2
		}
		switch n.Kind {
		case rc.Uint, rc.Nint:
			major := byte(0)
			if n.Kind == rc.Nint {
				major = 1
			}
			if hit && o.bignum {
				var b [8]byte
				binary.BigEndian.PutUint64(b[:], n.Arg)
				bs := bytes.TrimLeft(b[:], "\x00")
				out = append(out, 0xc2+major)
				out, _ = putHead(out, 2, uint64(len(bs)), false)
				return append(out, bs...)
			}
			if hit && o.indef {
				ok = false
			}
			return head(out, major, n.Arg)
		case rc.Bytes, rc.Text:
			major := byte(2)
			if n.Kind == rc.Text {
				major = 3
			}
			d := n.Data
			if n.Kind == rc.Bytes && n.Embedded {
				d = enc(nil, n.Items[0])
				if hit && o.trailing {
					d = append(d, 0x00)
				}
			} else if hit && o.trailing {
				ok = false
			}
			if hit && o.bignum {
				ok = false
			}
			if hit && o.indef {
				out = append(out, major<<5|31)
				out, _ = putHead(out, major, uint64(len(d)), false)
				out = append(out, d...)
				return append(out, 0xff)
			}
			return append(head(out, major, uint64(len(d))), d...)
		case rc.Array, rc.Map:
			major := byte(4)
			cnt := uint64(len(n.Items))
			if n.Kind == rc.Map {
				major, cnt = 5, cnt/2
			}
			if hit && (o.bignum || o.trailing) {
				ok = false
			}
			if hit && o.indef {
				out = append(out, major<<5|31)
				for _, it := range n.Items {
					out = enc(out, it)
				}
				return append(out, 0xff)
			}
			out = head(out, major, cnt)
			for _, it := range n.Items {
				out = enc(out, it)
			}
			return out
		case rc.Tag:
			if hit && (o.bignum || o.trailing || o.indef) {
				ok = false
			}
			return enc(head(out, 6, n.Arg), n.Items[0])
		default:
			if hit {
				ok = false
			}
			return append(out, rc.Encode(n)...)
		}
	}
	out = enc(nil, n)
	return out, ok
}

var idxRe = regexp.MustCompile(`\[\d+\]`)

// normPath makes a Walk path stable across values: array indices become [*].
func normPath(p string) string { return idxRe.ReplaceAllString(p, "[*]") }

// keyPath: normPath with the cycles of recursive types collapsed (a segment "name[*]" that already occurs earlier on
// the path cuts the path back to its first occurrence). Used in finding keys.
func keyPath(p string) string {
	toks := strings.Split(normPath(p), ">")
	var out []string
	for _, t := range toks {
		if t != "" && strings.Trim(t, "0123456789") == "" {
			t = "#" // key of a set / id-indexed map
		}
		if strings.HasSuffix(t, "[*]") {
			cut := -1
			for i, o := range out {
				if o == t {
					cut = i
					break
				}
			}
			if cut >= 0 {
				out = out[:cut+1]
				continue
			}
		}
		out = append(out, t)
	}
	return strings.Join(out, ">")
}

func null() *rc.Node { return &rc.Node{Kind: rc.Simple, Arg: 22, Info: 22} }

func isStructMap(n *rc.Node) bool {
	if n.Kind != rc.Map || len(n.Items) == 0 {
		return false
	}
	for i := 0; i+1 < len(n.Items); i += 2 {
		if n.Items[i].Kind != rc.Text {
			return false
		}
	}
	return true
}

// mutationsAt lists every mutation of the idx-th node (Walk order) of the tree encoded by enc.
// Identical byte strings produced by different operators are kept once.
func mutationsAt(enc []byte, idx int) (path string, kind string, muts []mutation) {
	root0, err := rc.Parse(enc)
	if err != nil {
		return "", "", nil
	}
	refs0 := rc.Walk(root0)
	if idx >= len(refs0) {
		return "", "", nil
	}
	path, kind = refs0[idx].Path, refs0[idx].KindID
	inEmbedded := strings.Contains(path, ">~")
	seen := map[string]bool{string(enc): true}
	add := func(op, family string, class mclass, field string, data []byte) {
		if data == nil || seen[string(data)] {
			return
		}
		seen[string(data)] = true
		if class == mMalformed && inEmbedded {
			// the nested item of a byte string is opaque to the outer decoder unless the type chooses to decode it
			class = mValue
		}
		muts = append(muts, mutation{op: op, family: family, class: class, field: field, data: data})
	}
	// tree edit: f gets a fresh clone's ref and returns the new root (nil = not applicable)
	tree := func(op, family string, class mclass, field string, f func(root *rc.Node, r rc.Ref) *rc.Node) {
		root := root0.Clone()
		r := rc.Walk(root)[idx]
		if nr := f(root, r); nr != nil {
			add(op, family, class, field, rc.Encode(nr))
		}
	}
	replace := func(root *rc.Node, r rc.Ref, nn *rc.Node) *rc.Node {
		if r.Parent == nil {
			return nn
		}
		r.Parent.Items[r.Index] = nn
		return root
	}
	raw := func(op, family string, class mclass, o ovr) {
		root := root0.Clone()
		r := rc.Walk(root)[idx]
		if b, ok := rawEncode(root, r.Node, o); ok {
			add(op, family, class, "", b)
		}
	}
	n0 := refs0[idx].Node

	// --- any node
	tree("null", "null", mValue, "", func(root *rc.Node, r rc.Ref) *rc.Node { return replace(root, r, null()) })
	tree("tag/wrap-foreign", "tag", mEncoding, "", func(root *rc.Node, r rc.Ref) *rc.Node {
		return replace(root, r, &rc.Node{Kind: rc.Tag, Arg: 65000, Items: []*rc.Node{r.Node}})
	})
	raw("head/non-minimal", "widen", mEncoding, ovr{widen: true})
	raw("indefinite-length", "indef", mMalformed, ovr{indef: true})

	switch n0.Kind {
	case rc.Uint, rc.Nint:
		set := func(op string, k rc.Kind, v uint64) {
			tree("int/"+op, "int", mValue, "", func(root *rc.Node, r rc.Ref) *rc.Node {
				r.Node.Kind, r.Node.Arg = k, v
				return root
			})
		}
		k, v := n0.Kind, n0.Arg
		if v != ^uint64(0) {
			set("+1", k, v+1) // for Nint: value -1
		}
		if v > 0 {
			set("-1", k, v-1)
		} else if k == rc.Uint {
			set("-1", rc.Nint, 0) // 0 - 1 = -1
		} else {
			set("+1 (to 0)", rc.Uint, 0)
		}
		set(":=0", rc.Uint, 0)
		set(":=max", rc.Uint, ^uint64(0))
		set("flip-msb", k, v^(1<<63))
		set("flip-mid", k, v^(1<<31))
		if k == rc.Uint {
			set("negate", rc.Nint, v)
		} else {
			set("negate", rc.Uint, v)
		}
		raw("int/bignum-tag", "bignum", mEncoding, ovr{bignum: true})
	case rc.Bytes:
		if n0.Embedded {
			// opaque to the outer decoder (a []byte field): value oracle
			raw("embedded/trailing-byte", "trailing", mValue, ovr{trailing: true})
			break
		}
		by := func(op string, f func(d []byte) []byte) {
			tree("bytes/"+op, "bytes", mValue, "", func(root *rc.Node, r rc.Ref) *rc.Node {
				r.Node.Data = f(r.Node.Data)
				return root
			})
		}
		if l := len(n0.Data); l > 0 {
			by("flip-lsb", func(d []byte) []byte { d[l-1] ^= 0x01; return d })
			by("flip-msb", func(d []byte) []byte { d[0] ^= 0x80; return d })
			by("flip-mid", func(d []byte) []byte { d[l/2] ^= 0x10; return d })
			by("flip-first-lsb", func(d []byte) []byte { d[0] ^= 0x01; return d })
			by("zero", func(d []byte) []byte { return make([]byte, l) })
			by("ones", func(d []byte) []byte { return bytes.Repeat([]byte{0xff}, l) })
			by("drop-last", func(d []byte) []byte { return d[:l-1] })
			by("empty", func(d []byte) []byte { return nil })
		}
		by("append-00", func(d []byte) []byte { return append(d, 0) })
	case rc.Text:
		tx := func(op string, f func(d []byte) []byte) {
			tree("text/"+op, "text", mValue, "", func(root *rc.Node, r rc.Ref) *rc.Node {
				r.Node.Data = f(r.Node.Data)
				return root
			})
		}
		if l := len(n0.Data); l > 0 {
			tx("flip-first", func(d []byte) []byte { d[0] ^= 0x01; return d })
			tx("flip-last", func(d []byte) []byte { d[l-1] ^= 0x02; return d })
			tx("invalid-utf8", func(d []byte) []byte { d[0] = 0xff; return d })
			tx("empty", func(d []byte) []byte { return nil })
		}
		tx("append", func(d []byte) []byte { return append(d, 'x') })
	case rc.Simple:
		if n0.Info == 20 || n0.Info == 21 {
			tree("bool/flip", "bool", mValue, "", func(root *rc.Node, r rc.Ref) *rc.Node {
				r.Node.Info ^= 1
				r.Node.Arg = uint64(r.Node.Info)
				return root
			})
		}
	case rc.Array:
		ar := func(op string, f func(it []*rc.Node) []*rc.Node) {
			tree("array/"+op, "array", mValue, "", func(root *rc.Node, r rc.Ref) *rc.Node {
				r.Node.Items = f(r.Node.Items)
				return root
			})
		}
		l := len(n0.Items)
		if l > 0 {
			ar("drop-last", func(it []*rc.Node) []*rc.Node { return it[:l-1] })
			ar("drop-first", func(it []*rc.Node) []*rc.Node { return it[1:] })
			ar("dup-last", func(it []*rc.Node) []*rc.Node { return append(it, it[l-1].Clone()) })
			ar("empty", func(it []*rc.Node) []*rc.Node { return nil })
		}
		if l > 1 {
			ar("swap-first-two", func(it []*rc.Node) []*rc.Node { it[0], it[1] = it[1], it[0]; return it })
			ar("swap-first-last", func(it []*rc.Node) []*rc.Node { it[0], it[l-1] = it[l-1], it[0]; return it })
		}
		ar("append-null", func(it []*rc.Node) []*rc.Node { return append(it, null()) })
	case rc.Map:
		np := len(n0.Items) / 2
		structMap := isStructMap(n0)
		for j := 0; j < np; j++ {
			j := j
			key := path + ">" + keyName(n0.Items[2*j])
			fam := "drop-field"
			if !structMap {
				// an entry of a set / id-indexed map, not a struct field
				fam, key = "map-entry", ""
			}
			tree("map/drop:"+keyName(n0.Items[2*j]), fam, mValue, key, func(root *rc.Node, r rc.Ref) *rc.Node {
				r.Node.Items = append(append([]*rc.Node{}, r.Node.Items[:2*j]...), r.Node.Items[2*j+2:]...)
				return root
			})
		}
		for _, j := range []int{0, np - 1} {
			if j < 0 {
				continue
			}
			j := j
			tree(fmt.Sprintf("map/dup-key:%s", keyName(n0.Items[2*j])), "dup-key", mMalformed, "", func(root *rc.Node, r rc.Ref) *rc.Node {
				r.Node.Items = append(r.Node.Items, r.Node.Items[2*j].Clone(), r.Node.Items[2*j+1].Clone())
				return root
			})
		}
		if np > 0 {
			// the same key twice in a row with a different value (null)
			tree("map/dup-key-other-value", "dup-key", mMalformed, "", func(root *rc.Node, r rc.Ref) *rc.Node {
				r.Node.Items = append([]*rc.Node{r.Node.Items[0].Clone(), null()}, r.Node.Items...)
				return root
			})
		}
		if isStructMap(n0) {
			tree("map/unknown-field", "unknown-key", mMalformed, "", func(root *rc.Node, r rc.Ref) *rc.Node {
				r.Node.Items = append(r.Node.Items, &rc.Node{Kind: rc.Text, Data: []byte("zzVerifUnknown")}, &rc.Node{Kind: rc.Uint, Arg: 0})
				return root
			})
			// a known field name in the wrong case is an unknown field (case-sensitive matching)
			tree("map/field-name-case", "unknown-key", mMalformed, "", func(root *rc.Node, r rc.Ref) *rc.Node {
				k := r.Node.Items[0]
				if len(k.Data) == 0 {
					return nil
				}
				c := k.Data[0]
				switch {
				case c >= 'a' && c <= 'z', c >= 'A' && c <= 'Z':
					k.Data[0] ^= 0x20
				default:
					return nil
				}
				// only if the flipped name is not itself a field of this map
				for i := 2; i+1 < len(r.Node.Items); i += 2 {
					if bytes.Equal(r.Node.Items[i].Data, k.Data) {
						return nil
					}
				}
				return root
			})
		} else if np > 0 {
			// data map (set / id-indexed): one more entry
			tree("map/extra-entry", "map-entry", mValue, "", func(root *rc.Node, r rc.Ref) *rc.Node {
				var mx uint64
				for i := 0; i+1 < len(r.Node.Items); i += 2 {
					if k := r.Node.Items[i]; k.Kind == rc.Uint && k.Arg > mx {
						mx = k.Arg
					}
				}
				if mx == ^uint64(0) {
					return nil
				}
				r.Node.Items = append(r.Node.Items, &rc.Node{Kind: rc.Uint, Arg: mx + 1}, r.Node.Items[len(r.Node.Items)-1].Clone())
				return root
			})
			tree("map/key:=0", "map-entry", mValue, "", func(root *rc.Node, r rc.Ref) *rc.Node {
				if k := r.Node.Items[0]; k.Kind == rc.Uint && k.Arg != 0 {
					k.Arg = 0
					return root
				}
				return nil
			})
			tree("map/text-key", "map-entry", mValue, "", func(root *rc.Node, r rc.Ref) *rc.Node {
				r.Node.Items = append(r.Node.Items, &rc.Node{Kind: rc.Text, Data: []byte("zzVerifUnknown")}, r.Node.Items[len(r.Node.Items)-1].Clone())
				return root
			})
		}
		if np > 1 {
			sw := func(op string, a, b int) {
				tree("map/swap-values:"+op, "swap-fields", mValue, "", func(root *rc.Node, r rc.Ref) *rc.Node {
					it := r.Node.Items
					it[2*a+1], it[2*b+1] = it[2*b+1], it[2*a+1]
					return root
				})
			}
			sw("first-two", 0, 1)
			if np > 2 {
				sw("first-last", 0, np-1)
			}
		}
		emptyFam, emptyField := "drop-field", path+">*"
		if !structMap {
			emptyFam, emptyField = "map-entry", ""
		}
		tree("map/empty", emptyFam, mValue, emptyField, func(root *rc.Node, r rc.Ref) *rc.Node {
			if np < 2 {
				return nil
			}
			r.Node.Items = nil
			return root
		})
	case rc.Tag:
		tree("tag/remove", "tag", mEncoding, "", func(root *rc.Node, r rc.Ref) *rc.Node { return replace(root, r, r.Node.Items[0]) })
		for _, d := range []struct {
			op string
			f  func(uint64) uint64
		}{{"+1", func(a uint64) uint64 { return a + 1 }}, {"-1", func(a uint64) uint64 { return a - 1 }}, {":=65000", func(uint64) uint64 { return 65000 }}, {":=55799", func(uint64) uint64 { return 55799 }}} {
			d := d
			tree("tag/foreign"+d.op, "tag", mEncoding, "", func(root *rc.Node, r rc.Ref) *rc.Node {
				r.Node.Arg = d.f(r.Node.Arg)
				return root
			})
		}
		tree("tag/double", "tag", mEncoding, "", func(root *rc.Node, r rc.Ref) *rc.Node {
			return replace(root, r, &rc.Node{Kind: rc.Tag, Arg: r.Node.Arg, Items: []*rc.Node{r.Node}})
		})
	}
	if idx == 0 {
		add("trailing-byte/00", "trailing", mMalformed, "", append(append([]byte{}, enc...), 0x00))
		add("trailing-byte/ff", "trailing", mMalformed, "", append(append([]byte{}, enc...), 0xff))
		add("trailing-copy", "trailing", mMalformed, "", append(append([]byte{}, enc...), enc...))
		add("truncate-1", "truncate", mValue, "", enc[:len(enc)-1])
		add("truncate-half", "truncate", mValue, "", enc[:len(enc)/2])
		add("self-described-prefix", "tag", mEncoding, "", append([]byte{0xd9, 0xd9, 0xf7}, enc...))
	}
	return path, kind, muts
}

func keyName(k *rc.Node) string {
	switch k.Kind {
	case rc.Text:
		return string(k.Data)
	case rc.Uint:
		return fmt.Sprint(k.Arg)
	case rc.Nint:
		return fmt.Sprintf("-%d", k.Arg+1)
	case rc.Bytes:
		return fmt.Sprintf("h'%x'", k.Data)
	}
	return "?"
}
