// Package paillier is the textbook Paillier cryptosystem in math/big, written from the definition
// (Paillier 1999, g = 1+N) and deliberately without any of the library's shortcuts (no CRT, no (1+N)^m = 1+mN,
// no Fermat quotients). It is the reference model for C16.
//
//	Enc(m; r) = (1+N)^m · r^N mod N²           m ∈ Z_N, r ∈ Z*_N
//	Dec(c)    = L(c^λ mod N²) · μ mod N        L(u) = (u−1)/N, λ = lcm(p−1,q−1), μ = L((1+N)^λ mod N²)^−1 mod N
//	Root(y)   = y^(N^−1 mod λ) mod N           the unique r ∈ Z*_N with r^N ≡ y (mod N²), valid because gcd(N, φ(N)) = 1
package paillier

import (
	"errors"
	"math/big"
)

var one = big.NewInt(1)

// Key is a Paillier key with its factorisation.
type Key struct {
	P, Q   *big.Int
	N, N2  *big.Int
	Lambda *big.Int // lcm(p-1, q-1)
	Mu     *big.Int // L((1+N)^λ mod N²)^-1 mod N
	NInv   *big.Int // N^-1 mod λ
}

// New builds the reference key from two distinct odd primes with gcd(pq, (p-1)(q-1)) = 1.
func New(p, q *big.Int) (*Key, error) {
	if p.Cmp(q) == 0 || !p.ProbablyPrime(32) || !q.ProbablyPrime(32) || p.Bit(0) == 0 || q.Bit(0) == 0 {
		return nil, errors.New("ref/paillier: p and q must be distinct odd primes")
	}
	k := &Key{P: new(big.Int).Set(p), Q: new(big.Int).Set(q)}
	k.N = new(big.Int).Mul(p, q)
	k.N2 = new(big.Int).Mul(k.N, k.N)
	pm := new(big.Int).Sub(p, one)
	qm := new(big.Int).Sub(q, one)
	phi := new(big.Int).Mul(pm, qm)
	if new(big.Int).GCD(nil, nil, k.N, phi).Cmp(one) != 0 {
		return nil, errors.New("ref/paillier: gcd(N, phi(N)) != 1")
	}
	g := new(big.Int).GCD(nil, nil, pm, qm)
	k.Lambda = new(big.Int).Div(phi, g)
	gl := new(big.Int).Exp(new(big.Int).Add(k.N, one), k.Lambda, k.N2)
	k.Mu = new(big.Int).ModInverse(k.L(gl), k.N)
	if k.Mu == nil {
		return nil, errors.New("ref/paillier: L(g^lambda) not invertible")
	}
	k.NInv = new(big.Int).ModInverse(k.N, k.Lambda)
	if k.NInv == nil {
		return nil, errors.New("ref/paillier: N not invertible mod lambda")
	}
	return k, nil
}

// L is Paillier's function L(u) = (u-1)/N (integer division, u ≡ 1 mod N expected).
func (k *Key) L(u *big.Int) *big.Int {
	return new(big.Int).Div(new(big.Int).Sub(u, one), k.N)
}

// ValidPlaintext reports 0 <= m < N.
func (k *Key) ValidPlaintext(m *big.Int) bool { return m.Sign() >= 0 && m.Cmp(k.N) < 0 }

// ValidNonce reports r ∈ Z*_N given as an integer in [1, N).
func (k *Key) ValidNonce(r *big.Int) bool {
	return r.Sign() > 0 && r.Cmp(k.N) < 0 && new(big.Int).GCD(nil, nil, r, k.N).Cmp(one) == 0
}

// ValidCiphertext reports c ∈ Z*_{N²} given as an integer in [1, N²).
func (k *Key) ValidCiphertext(c *big.Int) bool {
	return c.Sign() > 0 && c.Cmp(k.N2) < 0 && new(big.Int).GCD(nil, nil, c, k.N).Cmp(one) == 0
}

// Encrypt is the textbook formula c = (1+N)^m · r^N mod N² (both powers by plain modular exponentiation).
func (k *Key) Encrypt(m, r *big.Int) *big.Int {
	gm := new(big.Int).Exp(new(big.Int).Add(k.N, one), m, k.N2)
	rn := new(big.Int).Exp(r, k.N, k.N2)
	return gm.Mul(gm, rn).Mod(gm, k.N2)
}

// Decrypt is the textbook L-function decryption.
func (k *Key) Decrypt(c *big.Int) *big.Int {
	u := new(big.Int).Exp(c, k.Lambda, k.N2)
	m := k.L(u)
	return m.Mul(m, k.Mu).Mod(m, k.N)
}

// Root recovers the nonce of a ciphertext: r = (c · (1+N)^(−m))^(N^−1 mod λ) mod N, with m = Decrypt(c).
func (k *Key) Root(c *big.Int) *big.Int {
	m := k.Decrypt(c)
	gm := new(big.Int).Exp(new(big.Int).Add(k.N, one), m, k.N2)
	gmInv := new(big.Int).ModInverse(gm, k.N2)
	y := new(big.Int).Mul(c, gmInv)
	y.Mod(y, k.N)
	return y.Exp(y, k.NInv, k.N)
}

// Symmetric returns the representative of m mod N in the centred range [−⌊N/2⌋, ⌊N/2⌋] (N is odd).
func (k *Key) Symmetric(m *big.Int) *big.Int {
	r := new(big.Int).Mod(m, k.N)
	half := new(big.Int).Rsh(k.N, 1)
	if r.Cmp(half) > 0 {
		r.Sub(r, k.N)
	}
	return r
}

// Model is the reference state kept beside a real ciphertext: plaintext in [0,N) and composed nonce in Z*_N.
type Model struct{ M, R *big.Int }

// NewModel reduces m into [0,N) (negative m wraps) and r into [1,N).
func (k *Key) NewModel(m, r *big.Int) Model {
	return Model{new(big.Int).Mod(m, k.N), new(big.Int).Mod(r, k.N)}
}

// Ciphertext is the ciphertext predicted for the model state.
func (k *Key) Ciphertext(s Model) *big.Int { return k.Encrypt(s.M, s.R) }

// Op: product of ciphertexts = sum of plaintexts, product of nonces.
func (k *Key) Op(a, b Model) Model {
	return k.NewModel(new(big.Int).Add(a.M, b.M), new(big.Int).Mul(a.R, b.R))
}

// Inv: inverse ciphertext = negated plaintext, inverted nonce.
func (k *Key) Inv(a Model) Model {
	return k.NewModel(new(big.Int).Neg(a.M), new(big.Int).ModInverse(a.R, k.N))
}

// Scalar: c^s = plaintext times s, nonce to the power s (s any integer; negative s inverts first).
func (k *Key) Scalar(a Model, s *big.Int) Model {
	base := a.R
	e := s
	if s.Sign() < 0 {
		base = new(big.Int).ModInverse(a.R, k.N)
		e = new(big.Int).Neg(s)
	}
	return k.NewModel(new(big.Int).Mul(a.M, s), new(big.Int).Exp(base, e, k.N))
}

// Shift: plaintext plus delta, same nonce.
func (k *Key) Shift(a Model, delta *big.Int) Model {
	return k.NewModel(new(big.Int).Add(a.M, delta), a.R)
}

// ReRandomise: same plaintext, nonce times r.
func (k *Key) ReRandomise(a Model, r *big.Int) Model {
	return k.NewModel(a.M, new(big.Int).Mul(a.R, r))
}
