// C09 — oblivious transfer and multiplication outputs are correctly correlated.
//
// Statement (properties.jsonl): in every completed OT (base OTs ecbbot and vsot, SoftSpoken extension) the receiver's
// output of each instance equals the sender's message selected by the receiver's choice bit and the two sender
// messages differ; in every completed random-VOLE multiplication c_i + d_i = a_i * b; if either side alters a
// message that feeds a protocol's consistency check, the other side aborts.
//
// How the choice bits / inputs are fixed:
//   - ecbbot, vsot, softspoken: the receiver's choice vector is an argument of the receiver's first round, so it is
//     enumerated directly (all 256 bytes at xi = 8; all-zero, all-one and every single-bit vector at larger xi).
//   - rVOLE: Alice's vector a is an argument (enumerated over {0,1,q-1,mid}^L); Bob's choice bits beta (hence his
//     scalar b) are read from Bob's prng inside the library, so they are controlled through Bob's deterministic
//     stream (two fixed streams per case) and b is read back from the round's return value.
//
// All randomness is a deterministic SHA-256 counter stream per (seed, party); all messages cross the library's CBOR
// codec; faults are single-leaf alterations of the CBOR tree (ref/cbor) of one message.
//
// Field classification for the fault sections: ext_test.go (extension), rvole_test.go (multipliers),
// basefault_test.go (base OTs).
package c09

import (
	"fmt"
	"os"
	"sort"
	"strings"
	"testing"
	"time"

	"verifmc/engine"
)

func TestMain(m *testing.M) { engine.Main(m, "C09", "fault_enumeration") }

func TestCheck(t *testing.T) {
	engine.Rule("base OTs (ecbbot, vsot) x curve {k256,p256} x L {1,2,3}: xi=8 with ALL 256 choice bytes; xi=16 and xi=128 with all-zero, all-one and single-bit vectors; SoftSpoken over each base OT x curve: (xi,L) in {128,256}x{1,2} with all-zero/all-one/every single-bit vector, plus xi=8,L=16 with all 256 choice bytes and a grid of admissible odd shapes; the suite constructors' refusals against the documented admissibility rule; rVOLE (bbot and softspoken flavours): every input vector in {0,1,q-1,mid}^L, L in {1,2}; every case under two fixed randomness seeds. Faults: one CBOR leaf of one message x {bit flips (msb, middle, lsb; every bit of x, t[i], mu, eta in thorough), all-zero, the neighbouring same-length values of the same message, the value at the same position of a second instance}: every leaf of the extension message (x, all 128 t[i], u[i] over {0,1,64,126,127}; all u in thorough) and of the multipliers' last message (mu, every eta, aTilde rows {0,1,mid,last-1,last} x every column; all rows in thorough), plus VSOT's own check messages. A case is distinct by (protocol, curve, xi, L, seed, choice vector / input vector [, message, leaf, mutation]); it is non-trivial when the protocol was run to its end (honest) or to the refusal (fault) and the oracle was evaluated on the outputs.")
	engine.Assume(
		"oracle is definition-level: byte equality of receiver pad and selected sender pad, inequality of the pad pair, and c+d = a*b recomputed in math/big with the group orders typed in from the standards",
		"protocol randomness is an input: deterministic SHA-256 counter streams per (seed, party); nothing is sampled",
		"session contexts are built directly with session.NewContext from fixed bytes (what session setup outputs, C10)",
		"a fault is ONE altered leaf of ONE message; a refusal by the recipient's CBOR codec, by Validate or by the consistency check all count as 'the other side aborts'; detection of consistency faults holds with overwhelming probability (2^-128-type exceptions are not enumerated)",
		"rVOLE-bbot fault loop re-executes Bob.Round4 from a restored pre-round state (session.Context.Clone assigned back through the harness' own pointer + a value copy of Bob); fidelity of the restore is asserted in every execution",
		"ecbbot alone has no consistency check: altered ms/phi are only required not to panic",
		"purego build of the library",
	)

	// ---- base OTs, honest -------------------------------------------------------------------------------------
	all, allN := allBytes()
	var exh []baseCfg
	for l := 1; l <= 3; l++ {
		exh = append(exh, baseCfg{8, l, 2, all, allN})
	}
	explore(baseBody(exh, 16), engine.Opts{Name: "base/xi8-all-choice-bytes", Budget: engine.Budget(10*time.Minute, 20*time.Minute)})

	var str []baseCfg
	v16, n16 := structured(16, nil)
	for l := 1; l <= 3; l++ {
		str = append(str, baseCfg{16, l, 2, v16, n16})
	}
	if engine.Thorough() {
		v128, n128 := structured(128, nil)
		for l := 1; l <= 3; l++ {
			str = append(str, baseCfg{128, l, 2, v128, n128})
		}
	} else {
		v128, n128 := structured(128, edgePositions(128))
		str = append(str, baseCfg{128, 1, 1, v128, n128})
	}
	explore(baseBody(str, 3), engine.Opts{Name: "base/structured-choices", Budget: engine.Budget(5*time.Minute, 40*time.Minute)})
	explore(baseRefusalBody, engine.Opts{Name: "base/refusals", Budget: engine.Budget(2*time.Minute, 5*time.Minute)})

	// ---- base OTs, faults ---------------------------------------------------------------------------------------
	if engine.Thorough() {
		explore(baseFaultBody(2, []int{1, 2}), engine.Opts{Name: "base/faults", Budget: engine.Budget(3*time.Minute, 15*time.Minute)})
	} else {
		explore(baseFaultBody(1, []int{1}), engine.Opts{Name: "base/faults", Budget: engine.Budget(3*time.Minute, 20*time.Minute)})
	}

	// ---- SoftSpoken extension -------------------------------------------------------------------------------------
	shapes := []extShape{mkShape(128, 1, nil), mkShape(128, 2, nil), mkShape(256, 1, nil), mkShape(256, 2, nil), {8, 16, all, allN}, mkShape(16, 8, nil), mkShape(64, 2, nil)}
	explore(extBody(shapes, 32), engine.Opts{Name: "ext/correlation", Budget: engine.Budget(4*time.Minute, 10*time.Minute)})
	explore(extShapesBody, engine.Opts{Name: "ext/admissible-shapes", Budget: engine.Budget(3*time.Minute, 10*time.Minute)})
	explore(extSeedShapesBody, engine.Opts{Name: "ext/seed-shapes", Budget: engine.Budget(time.Minute, 5*time.Minute)})

	mixed := func(xi int) []byte {
		v := make([]byte, xi/8)
		for i := range v {
			v[i] = 0xa5 ^ byte(i*0x3b)
		}
		return v
	}
	fshape := func(xi, l int) extShape {
		vs, ns := structured(xi, []int{})
		return extShape{xi, l, append(vs, mixed(xi)), append(ns, "mixed")}
	}
	if engine.Thorough() {
		explore(extFaultBody([]extShape{fshape(128, 1), fshape(256, 2), fshape(8, 16)}, 2), engine.Opts{Name: "ext/faults", Budget: engine.Budget(4*time.Minute, 30*time.Minute)})
	} else {
		explore(extFaultBody([]extShape{fshape(128, 1)}, 2), engine.Opts{Name: "ext/faults", Budget: engine.Budget(4*time.Minute, 40*time.Minute)})
	}

	// ---- rVOLE ----------------------------------------------------------------------------------------------------
	explore(rvoleSoftBody, engine.Opts{Name: "rvole/softspoken", Budget: engine.Budget(3*time.Minute, 10*time.Minute)})
	if engine.Thorough() {
		explore(rvoleSoftFaultBody([]int{1, 2}, map[int][]int{1: {0, 1, 2, 3}, 2: {0, 7, 14}}), engine.Opts{Name: "rvole/softspoken-faults", Budget: engine.Budget(4*time.Minute, 30*time.Minute)})
		explore(rvoleBBOTBody(2, []int{1, 2}), engine.Opts{Name: "rvole/bbot+faults", Budget: engine.Budget(6*time.Minute, 45*time.Minute)})
		explore(rvoleBBOTTransportBody, engine.Opts{Name: "rvole/bbot-transport-faults", Budget: engine.Budget(time.Minute, 15*time.Minute)})
	} else {
		explore(rvoleSoftFaultBody([]int{1}, map[int][]int{1: {0, 3}}), engine.Opts{Name: "rvole/softspoken-faults", Budget: engine.Budget(4*time.Minute, 60*time.Minute)})
		explore(rvoleBBOTBody(1, []int{1, 2}), engine.Opts{Name: "rvole/bbot+faults", Budget: engine.Budget(6*time.Minute, 60*time.Minute)})
	}

	// ---- vacuity statement: how the faulted runs ended --------------------------------------------------------------
	tallyMu.Lock()
	keys := make([]string, 0, len(tally))
	for k := range tally {
		keys = append(keys, k)
	}
	sort.Strings(keys)
	aborts := 0
	for _, k := range keys {
		fmt.Printf("[C09] fault outcomes  %-90s %d\n", k, tally[k])
		if strings.Contains(k, "ABORT") {
			aborts += tally[k]
		}
	}
	tallyMu.Unlock()
	if aborts == 0 {
		engine.HarnessFail("no faulted run ended in a consistency-check ABORT: the fault sections are vacuous")
	}
}

// explore is engine.Explore, except that a development filter (C09_SECTIONS=substr,substr) can restrict a run to some
// sections. The filter is honoured only when the evidence goes to a scratch directory (VERIF_OUT_DIR set, as in mutant
// and development runs), never in a regular `./check C09 <tier>` run, and it is recorded in the evidence.
func explore(body func(*engine.X), o engine.Opts) {
	if f := os.Getenv("C09_SECTIONS"); f != "" && os.Getenv("VERIF_OUT_DIR") != "" {
		hit := false
		for _, p := range strings.Split(f, ",") {
			hit = hit || strings.Contains(o.Name, p)
		}
		if !hit {
			return
		}
		engine.Assume("DEVELOPMENT FILTER active (C09_SECTIONS=" + f + "): section " + o.Name + " selected")
	}
	engine.Explore(body, o)
}
