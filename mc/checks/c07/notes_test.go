package c07

import (
	"bufio"
	"fmt"
	"os"
	"sort"
	"strings"
	"sync"
)

// Side channel from the worker processes to the parent: counters that belong in the evidence (inconclusive pairs,
// outcomes of the degenerate-source probes, the census of unchanged leaves) are appended as "key\tvalue" lines to a
// file named by C07_NOTES; the parent sums them up after the section.

var notesMu sync.Mutex

func note(key string, n int) {
	p := os.Getenv("C07_NOTES")
	if p == "" {
		return
	}
	notesMu.Lock()
	defer notesMu.Unlock()
	f, err := os.OpenFile(p, os.O_APPEND|os.O_CREATE|os.O_WRONLY, 0o644)
	if err != nil {
		return
	}
	fmt.Fprintf(f, "%s\t%d\n", key, n)
	f.Close()
}

func startNotes() (cleanup func()) {
	if os.Getenv("C07_NOTES") != "" {
		return func() {} // worker process: the parent owns the file
	}
	base := "/root/scratch"
	if os.MkdirAll(base, 0o755) != nil {
		base = "" // default temp dir
	}
	dir, err := os.MkdirTemp(base, "c07-notes-")
	if err != nil {
		return func() {}
	}
	os.Setenv("C07_NOTES", dir+"/notes.tsv")
	return func() { os.RemoveAll(dir); os.Unsetenv("C07_NOTES") }
}

func readNotes() map[string]int {
	out := map[string]int{}
	f, err := os.Open(os.Getenv("C07_NOTES"))
	if err != nil {
		return out
	}
	defer f.Close()
	sc := bufio.NewScanner(f)
	sc.Buffer(make([]byte, 1<<20), 1<<20)
	for sc.Scan() {
		parts := strings.SplitN(sc.Text(), "\t", 2)
		if len(parts) != 2 {
			continue
		}
		var n int
		fmt.Sscan(parts[1], &n)
		out[parts[0]] += n
	}
	return out
}

func notesWithPrefix(m map[string]int, prefix string) []string {
	var out []string
	for k, v := range m {
		if strings.HasPrefix(k, prefix) {
			out = append(out, fmt.Sprintf("%s=%d", strings.TrimPrefix(k, prefix), v))
		}
	}
	sort.Strings(out)
	return out
}
