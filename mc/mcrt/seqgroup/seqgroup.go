// Package seqgroup is a sequential stand-in for golang.org/x/sync/errgroup with the same API, mounted by the
// verification overlay in the few library files whose fork-join workers draw from the caller's single io.Reader
// concurrently (sigand/sigor, encryption utils, paillier secret ops, bls core, cggmp21 keygen). There, which worker
// gets which random bytes depends on the Go scheduler, so identical seeds do not give identical messages; running
// the workers inline, in submission order, is ONE legal schedule of the fork-join and makes executions replayable.
// The free-running -race pass uses the real errgroup.
package seqgroup

import "context"

type Group struct{ err error }

func (g *Group) Go(f func() error) {
	if err := f(); err != nil && g.err == nil {
		g.err = err
	}
}
func (g *Group) TryGo(f func() error) bool { g.Go(f); return true }
func (g *Group) Wait() error               { return g.err }
func (g *Group) SetLimit(int)              {}

func WithContext(ctx context.Context) (*Group, context.Context) { return &Group{}, ctx }
