// Package det provides deterministic, concurrency-safe byte streams for the io.Reader parameters of the library.
// Randomness is an explicit INPUT of every protocol; checks fix it so that executions are reproducible.
package det

import (
	"crypto/sha256"
	"encoding/binary"
	"fmt"
	"io"
	"sync"
)

// Stream is a SHA-256 counter-mode byte stream keyed by (seed, label). Safe for concurrent use.
type Stream struct {
	mu    sync.Mutex
	key   [32]byte
	ctr   uint64
	buf   []byte
	Bytes int64 // total bytes handed out
	Calls int64 // number of Read calls
}

// New returns the stream for (seed, label).
func New(seed int64, label string) *Stream {
	return &Stream{key: sha256.Sum256([]byte(fmt.Sprintf("verif-det|%d|%s", seed, label)))}
}

func (s *Stream) Read(p []byte) (int, error) {
	s.mu.Lock()
	defer s.mu.Unlock()
	s.Calls++
	n := len(p)
	for len(s.buf) < n {
		var blk [40]byte
		copy(blk[:], s.key[:])
		binary.LittleEndian.PutUint64(blk[32:], s.ctr)
		s.ctr++
		h := sha256.Sum256(blk[:])
		s.buf = append(s.buf, h[:]...)
	}
	copy(p, s.buf[:n])
	s.buf = s.buf[n:]
	s.Bytes += int64(n)
	return n, nil
}

var _ io.Reader = (*Stream)(nil)
