package sig

import (
	"math/big"

	"verifmc/ref/curve"
)

// DigestToInt is bits2int of SEC 1 4.1.3 step 5 / FIPS 186-5 6.4.1: the leftmost min(8*len(digest), bitlen(n)) bits of
// the digest as a big-endian integer, reduced modulo n.
func DigestToInt(c *curve.FpCurve, digest []byte) *big.Int {
	nbits := c.Q.BitLen()
	z := new(big.Int).SetBytes(digest)
	if excess := 8*len(digest) - nbits; excess > 0 {
		z.Rsh(z, uint(excess))
	}
	return z.Mod(z, c.Q)
}

func inRange(x, n *big.Int) bool { return x != nil && x.Sign() > 0 && x.Cmp(n) < 0 }

// inSubgroup: on the curve and of order dividing n. For cofactor 1 the curve group has prime order n, so every curve
// point qualifies and the multiplication by n is skipped (SEC 1 3.2.2.1 makes the same remark).
func inSubgroup(c *curve.FpCurve, p curve.FpPoint) bool {
	if c.H.Cmp(big.NewInt(1)) == 0 {
		return c.OnCurve(p)
	}
	return c.InSubgroup(p)
}

// validKey: Q != O, on the curve, in the subgroup of order n (SEC 1 3.2.2.1).
func validKey(c *curve.FpCurve, q curve.FpPoint) bool {
	return !q.Inf && inSubgroup(c, q)
}

// ECDSAVerify is SEC 1 v2.0 4.1.4 on a pre-computed digest. Both s and n-s forms are accepted (plain ECDSA).
func ECDSAVerify(c *curve.FpCurve, pk curve.FpPoint, digest []byte, r, s *big.Int) bool {
	n := c.Q
	if !validKey(c, pk) || !inRange(r, n) || !inRange(s, n) {
		return false
	}
	e := DigestToInt(c, digest)
	w := new(big.Int).ModInverse(s, n)
	u1 := new(big.Int).Mul(e, w)
	u1.Mod(u1, n)
	u2 := new(big.Int).Mul(r, w)
	u2.Mod(u2, n)
	R := c.Add(c.ScalarBaseMul(u1), c.ScalarMul(u2, pk))
	if R.Inf {
		return false
	}
	return new(big.Int).Mod(R.X, n).Cmp(r) == 0
}

// ECDSARecover is SEC 1 v2.0 4.1.6 for one candidate: v bit 0 = parity of R.y, v bit 1 = "x(R) = r + n".
// ok=false when v is outside 0..3, r/s are out of range, r + n >= p, x is not an abscissa, or the result is O.
func ECDSARecover(c *curve.FpCurve, digest []byte, r, s *big.Int, v int) (curve.FpPoint, bool) {
	n := c.Q
	if v < 0 || v > 3 || !inRange(r, n) || !inRange(s, n) {
		return c.Identity(), false
	}
	x := new(big.Int).Set(r)
	if v&2 != 0 {
		x.Add(x, n)
	}
	if x.Cmp(c.F.Char()) >= 0 {
		return c.Identity(), false
	}
	R, ok := curve.LiftXOdd(c, x, v&1 == 1)
	if !ok || !inSubgroup(c, R) {
		return c.Identity(), false
	}
	e := DigestToInt(c, digest)
	rInv := new(big.Int).ModInverse(r, n)
	// Q = r^-1 (s R - e G)
	Q := c.ScalarMul(rInv, c.Sub(c.ScalarMul(s, R), c.ScalarBaseMul(e)))
	if Q.Inf {
		return c.Identity(), false
	}
	return Q, true
}

// ECDSAVerifyV is the verdict of a verifier that treats the recovery id as optional integrity data: without v it is
// ECDSAVerify; with v the key recovered from (r, s, v) must additionally equal pk.
func ECDSAVerifyV(c *curve.FpCurve, pk curve.FpPoint, digest []byte, r, s *big.Int, v *int) bool {
	if !ECDSAVerify(c, pk, digest, r, s) {
		return false
	}
	if v == nil {
		return true
	}
	Q, ok := ECDSARecover(c, digest, r, s, *v)
	return ok && c.Equal(Q, pk)
}

// IsLowS reports s <= n - s (BIP-62 canonical form).
func IsLowS(c *curve.FpCurve, s *big.Int) bool {
	return s.Cmp(new(big.Int).Sub(c.Q, s)) <= 0
}

// NegS returns n - s.
func NegS(c *curve.FpCurve, s *big.Int) *big.Int { return new(big.Int).Sub(c.Q, s) }

// ECDSAVerifyStrict is ECDSAVerifyV restricted to low-S signatures.
func ECDSAVerifyStrict(c *curve.FpCurve, pk curve.FpPoint, digest []byte, r, s *big.Int, v *int) bool {
	return inRange(s, c.Q) && IsLowS(c, s) && ECDSAVerifyV(c, pk, digest, r, s, v)
}

// ECDSASign is textbook signing (SEC 1 4.1.3) with an explicit nonce k in [1, n-1]; v is the recovery id of (r, s).
// ok=false when r or s would be zero.
func ECDSASign(c *curve.FpCurve, d, k *big.Int, digest []byte) (r, s *big.Int, v int, ok bool) {
	n := c.Q
	if !inRange(d, n) || !inRange(k, n) {
		return nil, nil, 0, false
	}
	R := c.ScalarBaseMul(k)
	r = new(big.Int).Mod(R.X, n)
	if r.Sign() == 0 {
		return nil, nil, 0, false
	}
	e := DigestToInt(c, digest)
	s = new(big.Int).Mul(r, d)
	s.Add(s, e)
	s.Mul(s, new(big.Int).ModInverse(k, n))
	s.Mod(s, n)
	if s.Sign() == 0 {
		return nil, nil, 0, false
	}
	v = int(R.Y.Bit(0))
	if R.X.Cmp(n) >= 0 {
		v |= 2
	}
	return r, s, v, true
}
