package c08

import (
	"bytes"
	"fmt"
	"runtime/debug"
	"strings"

	"github.com/bronlabs/bron-crypto/pkg/base/serde"
	"github.com/bronlabs/bron-crypto/pkg/commitments/hashcom"
	"github.com/bronlabs/bron-crypto/pkg/proofs/sigma"
	"github.com/bronlabs/bron-crypto/pkg/proofs/sigma/compiler/zk"

	"verifmc/engine"
)

// challengeAlphabet is the 4-element challenge alphabet of the sigma-level checks: 0, 1, all-ones, a fixed pattern.
func challengeAlphabet(n int) []sigma.ChallengeBytes {
	zero := make([]byte, n)
	one := make([]byte, n)
	one[n-1] = 1
	ones := bytes.Repeat([]byte{0xff}, n)
	pat := make([]byte, n)
	for i := range pat {
		pat[i] = byte(0x35 + 29*i)
	}
	return []sigma.ChallengeBytes{zero, one, ones, pat}
}

var challengeNames = []string{"0", "1", "ff..ff", "pattern"}

// sigmaLevel: on ONE commitment, responses to every challenge of the alphabet verify; for every ordered pair of
// distinct challenges the extractor (where exposed) returns a witness that ValidateStatement accepts; simulated
// transcripts verify for every challenge of the alphabet.
func sigmaLevel[X sigma.Statement, W sigma.Witness, A sigma.Statement, S sigma.State, Z sigma.Response](x *engine.X, c *sigCase[X, W, A, S, Z]) {
	p := c.mk(stream(c.name + "/sigma"))
	x0, w0 := c.inst(0)
	if err := p.ValidateStatement(x0, w0); err != nil {
		x.Failf("sigma/validate-honest", "%s: ValidateStatement rejects the honest instance: %v", c.name, err)
		return
	}
	a, s, err := p.ComputeProverCommitment(x0, w0)
	if err != nil {
		x.Failf("sigma/commit", "%s: ComputeProverCommitment: %v", c.name, err)
		return
	}
	es := challengeAlphabet(p.GetChallengeBytesLength())
	zs := make([]Z, len(es))
	okZ := make([]bool, len(es))
	for i, e := range es {
		x.Case(fmt.Sprintf("%s/respond/%s", c.name, challengeNames[i]))
		z, err := p.ComputeProverResponse(x0, w0, a, s, e)
		if err != nil {
			x.Failf("sigma/respond", "%s: ComputeProverResponse(challenge=%s): %v", c.name, challengeNames[i], err)
			continue
		}
		zs[i], okZ[i] = z, true
		if err := p.Verify(x0, a, e, z); err != nil {
			x.Failf("sigma/complete", "%s: honest transcript for challenge %s does not verify: %v", c.name, challengeNames[i], err)
		}
	}
	extracted := 0
	if c.extract != nil {
		for i := range es {
			for j := range es {
				if i == j || !okZ[i] || !okZ[j] {
					continue
				}
				x.Case(fmt.Sprintf("%s/extract/%s,%s", c.name, challengeNames[i], challengeNames[j]))
				w, err := c.extract(p, x0, a, []sigma.ChallengeBytes{es[i], es[j]}, []Z{zs[i], zs[j]})
				if err != nil {
					x.Failf("sigma/extract-err", "%s: Extract(challenges %s,%s) failed: %v", c.name, challengeNames[i], challengeNames[j], err)
					continue
				}
				if err := p.ValidateStatement(x0, w); err != nil {
					x.Failf("sigma/extract-invalid", "%s: Extract(challenges %s,%s) returned a witness the statement rejects: %v", c.name, challengeNames[i], challengeNames[j], err)
					continue
				}
				extracted++
			}
		}
	}
	// a response that is ALSO accepted under another challenge is a second accepting transcript with the same first
	// message and a different challenge: the extractor must then succeed on it as well
	cross := 0
	for i := range es {
		for j := range es {
			if i == j || !okZ[i] {
				continue
			}
			x.Case(fmt.Sprintf("%s/cross/%s,%s", c.name, challengeNames[i], challengeNames[j]))
			if p.Verify(x0, a, es[j], zs[i]) != nil {
				continue
			}
			cross++
			if c.extract == nil {
				continue
			}
			w, err := c.extract(p, x0, a, []sigma.ChallengeBytes{es[i], es[j]}, []Z{zs[i], zs[i]})
			if err != nil {
				x.Failf("sigma/extract-cross", "%s: the response to challenge %s is also accepted under challenge %s, and Extract fails on these two accepting transcripts: %v", c.name, challengeNames[i], challengeNames[j], err)
			} else if err := p.ValidateStatement(x0, w); err != nil {
				x.Failf("sigma/extract-cross", "%s: the response to challenge %s is also accepted under challenge %s, and Extract returns an invalid witness: %v", c.name, challengeNames[i], challengeNames[j], err)
			}
		}
	}
	sims := 0
	for i, e := range es {
		x.Case(fmt.Sprintf("%s/simulate/%s", c.name, challengeNames[i]))
		sa, sz, err := p.RunSimulator(x0, e)
		if err != nil {
			x.Failf("sigma/simulate-err", "%s: RunSimulator(challenge=%s): %v", c.name, challengeNames[i], err)
			continue
		}
		if err := p.Verify(x0, sa, e, sz); err != nil {
			x.Failf("sigma/simulate-verify", "%s: simulated transcript for challenge %s does not verify: %v", c.name, challengeNames[i], err)
			continue
		}
		sims++
	}
	x.Observe(c.name, " extracted ", extracted, " simulated ", sims, " cross-accepted ", cross, " extractor-exposed=", c.extract != nil)
}

// ---------------------------------------------------------------------------------------------
// interactive zk compiler: honest run and every single message-leaf alteration

// zkEdit edits one message of the CURRENT run (errgroup workers may interleave reads of the shared randomness, so the
// messages of two runs need not be byte-identical; edits are therefore always applied to the run's own message).
type zkEdit func(msg int, raw []byte) []byte

// zkOnce runs the 5-move protocol, substituting the edited message; it reports whether the verifier accepted.
// stage "noop"/"exempt" = the edit did not change the message / re-encodes the very same value.
// With screen set, an edited message whose decoded form has a nil component the original lacks stops the run with
// stage "ISOLATE" (the caller repeats that run in a child process, see isolate_test.go).
func zkOnce[X sigma.Statement, W sigma.Witness, A sigma.Statement, S sigma.State, Z sigma.Response](c *sigCase[X, W, A, S, Z], ed zkEdit, screen bool) (accepted bool, stage string, msgs [5][]byte) {
	defer func() {
		if r := recover(); r != nil {
			if he, ok := r.(engine.HarnessError); ok {
				panic(he)
			}
			accepted, stage = false, fmt.Sprintf("PANIC@%s|%v", libSite(string(debug.Stack())), r)
		}
	}()
	x0, w0 := c.inst(0)
	pr, err := zk.NewProver(proverCtx().build(), c.mk(stream(c.name+"/zk/p")), x0, w0)
	if err != nil {
		return false, "NewProver:" + err.Error(), msgs
	}
	ve, err := zk.NewVerifier(verifierCtx().build(), c.mk(stream(c.name+"/zk/v")), x0, stream(c.name+"/zk/vrng"))
	if err != nil {
		return false, "NewVerifier:" + err.Error(), msgs
	}
	ec, err := ve.Round1()
	if err != nil {
		return false, "Round1:" + err.Error(), msgs
	}
	msgs[1] = append([]byte{}, ec[:]...)
	if b := ed(1, msgs[1]); b != nil {
		copy(ec[:], b)
	}
	a, err := pr.Round2(ec)
	if err != nil {
		return false, "Round2:" + err.Error(), msgs
	}
	msgs[2] = must(serde.MarshalCBOR(a))
	if b := ed(2, msgs[2]); b != nil {
		if bytes.Equal(b, msgs[2]) {
			return false, "noop", msgs
		}
		base := nilPaths(a)
		a, err = serde.UnmarshalCBOR[A](b)
		if err != nil {
			return false, "decode-a:" + err.Error(), msgs
		}
		if np := nilPaths(a); screen && !sameStrings(np, base) {
			return false, "ISOLATE:" + nilClass(base, np), msgs
		}
		if rb, err := serde.MarshalCBOR(a); err == nil && bytes.Equal(rb, msgs[2]) {
			return false, "exempt", msgs
		}
	}
	e, ew, err := ve.Round3(a)
	if err != nil {
		return false, "Round3:" + err.Error(), msgs
	}
	msgs[3] = append(append([]byte{}, e...), ew[:]...)
	if b := ed(3, msgs[3]); b != nil {
		e = hashcom.Message(b[:len(e)])
		copy(ew[:], b[len(e):])
	}
	z, err := pr.Round4(e, ew)
	if err != nil {
		return false, "Round4:" + err.Error(), msgs
	}
	msgs[4] = must(serde.MarshalCBOR(z))
	if b := ed(4, msgs[4]); b != nil {
		if bytes.Equal(b, msgs[4]) {
			return false, "noop", msgs
		}
		base := nilPaths(z)
		z, err = serde.UnmarshalCBOR[Z](b)
		if err != nil {
			return false, "decode-z:" + err.Error(), msgs
		}
		if np := nilPaths(z); screen && !sameStrings(np, base) {
			return false, "ISOLATE:" + nilClass(base, np), msgs
		}
		if rb, err := serde.MarshalCBOR(z); err == nil && bytes.Equal(rb, msgs[4]) {
			return false, "exempt", msgs
		}
	}
	if err := ve.Verify(z); err != nil {
		return false, "Verify:" + err.Error(), msgs
	}
	return true, "accept", msgs
}

// zkChildRun is the child-process side of an isolated interactive run.
func zkChildRun[X sigma.Statement, W sigma.Witness, A sigma.Statement, S sigma.State, Z sigma.Response](c *sigCase[X, W, A, S, Z], m, idx int) (bool, string) {
	_, _, msgs := zkOnce(c, func(int, []byte) []byte { return nil }, false)
	eds := enumerateEdits(msgs[m], zkMode(c.heavy), zkIdx(c.heavy))
	if idx >= len(eds) {
		return false, "HARNESS:edit index out of range"
	}
	acc, st, _ := zkOnce(c, func(msg int, raw []byte) []byte {
		if msg != m {
			return nil
		}
		return eds[idx].gen(newWalker(raw))
	}, false)
	return acc, st
}

func zkRun[X sigma.Statement, W sigma.Witness, A sigma.Statement, S sigma.State, Z sigma.Response](x *engine.X, c *sigCase[X, W, A, S, Z], n *niInst) {
	none := func(int, []byte) []byte { return nil }
	p := c.mk(stream(c.name + "/zk/params"))
	// documented admission rule of the interactive compiler
	admit := p.SoundnessError() >= 80 && p.GetChallengeBytesLength() <= 32
	ok, stage, msgs := zkOnce(c, none, true)
	if !admit {
		x.Case(c.name + "/zk/refusal")
		if ok {
			x.Failf("zk/admitted", "%s: zk compiler admitted a protocol outside its documented parameters (soundness %d, challenge %d bytes)", c.name, p.SoundnessError(), p.GetChallengeBytesLength())
		}
		x.Observe(c.name, " zk refused at ", stageKey(stage))
		x.Trivial()
		return
	}
	x.Case(c.name + "/zk/honest")
	if !ok {
		x.Failf("zk/complete", "%s: honest interactive run rejected at %s", c.name, stage)
		return
	}
	stages := map[string]int{}
	record := func(m int, desc, class string, acc bool, st string) {
		switch {
		case strings.HasPrefix(st, "CRASH@"):
			site, rest, _ := strings.Cut(strings.TrimPrefix(st, "CRASH@"), "|")
			x.Failf("crash@"+site, "%s: the process was TERMINATED by an unrecoverable panic in a library goroutine (in %s) although only message %d of the interactive run was edited (%s): %s", c.name, site, m, desc, rest)
		case strings.HasPrefix(st, "PANIC@"):
			site, rest, _ := strings.Cut(strings.TrimPrefix(st, "PANIC@"), "|")
			x.Failf("panic@"+site, "%s: interactive run panicked in %s although only message %d was edited (%s): %s", c.name, site, m, desc, rest)
		case acc:
			x.Failf("accepted/zk/msg"+fmt.Sprint(m), "%s: verifier ACCEPTED although message %d was edited: %s", c.name, m, desc)
		default:
			stages[stageKey(st)]++
		}
	}
	// raw byte messages (1: challenge commitment, 3: challenge||opening witness): every bit
	for _, m := range []int{1, 3} {
		for bit := 0; bit < 8*len(msgs[m]); bit++ {
			x.Case(fmt.Sprintf("%s/zk/msg%d/bit%d", c.name, m, bit))
			acc, st, _ := zkOnce(c, func(msg int, raw []byte) []byte {
				if msg != m {
					return nil
				}
				out := append([]byte{}, raw...)
				out[bit/8] ^= 0x80 >> (bit % 8)
				return out
			}, true)
			record(m, fmt.Sprintf("bit %d flipped", bit), "bit", acc, st)
		}
	}
	// structured messages (2: commitment a, 4: response z): every edit of their CBOR encoding
	for _, m := range []int{2, 4} {
		for idx, ed := range enumerateEdits(msgs[m], zkMode(c.heavy), zkIdx(c.heavy)) {
			x.Case(fmt.Sprintf("%s/zk/msg%d/%s", c.name, m, ed.desc))
			acc, st, _ := zkOnce(c, func(msg int, raw []byte) []byte {
				if msg != m {
					return nil
				}
				return ed.gen(newWalker(raw))
			}, true)
			if strings.HasPrefix(st, "ISOLATE:") {
				// decoded message carries a nil component: repeat this run in a child process
				res := runChild(fmt.Sprintf("zk|%s|%d|%d", n.name, m, idx), nil)
				switch res.outcome {
				case "ACCEPT":
					acc, st = true, "accept"
				case "REJECT":
					acc, st = false, "isolated-"+res.detail
				case "PANIC":
					acc, st = false, "PANIC@"+res.site+"|"+res.detail
				default:
					acc, st = false, "CRASH@"+res.site+"|"+res.detail
				}
			}
			record(m, ed.desc, ed.class, acc, st)
		}
	}
	x.Observe(c.name, " zk ", fmt.Sprint(stages))
}

func stageKey(s string) string {
	for i := range s {
		if s[i] == ':' {
			return s[:i]
		}
	}
	return s
}

// panicClass names the cause class of a panic for the finding key: edits that put a CBOR null (or drop a
// component so that a field stays nil) are keyed together.
func panicClass(class, desc string) string {
	if strings.Contains(desc, "null") {
		return "null-component"
	}
	return class
}

// nilClass names the kind of the first nil component that the edited value has and the original lacks.
func nilClass(base, edited []string) string {
	have := map[string]bool{}
	for _, p := range base {
		have[p] = true
	}
	for _, p := range edited {
		if !have[p] {
			if strings.HasSuffix(p, "]") {
				return "nil-slice-element"
			}
			return "nil-struct-field"
		}
	}
	return "nil-component-removed"
}

// the interactive runs of the Paillier-sized protocols use the leaf-level bit alphabet and the index alphabet
func zkMode(heavy bool) bitMode {
	if heavy {
		return bitsLSB
	}
	return bitsAll
}

func zkIdx(heavy bool) idxAlphabet {
	if heavy {
		return idx2
	}
	return idxAll
}
