package c13

import (
	"bytes"
	"fmt"
	"math/big"
	"sort"
	"sync"

	"verifmc/engine"
	refcbor "verifmc/ref/cbor"
)

// pview is the reference-side reading of a library point (through IsZero / AffineX / AffineY only).
type pview struct {
	err    error      // the library point could not be read or is not on the reference curve
	inf    bool       // no affine coordinates (point at infinity of a Weierstrass / Montgomery curve)
	ident  bool       // group identity
	x, y   []*big.Int // affine coordinates, one (F_p) or two (F_p^2: c0, c1) components each
	key    string     // reference key of the point
	negKey string     // reference key of its negation
	inSub  bool       // reference: in the prime-order subgroup
	class  string     // identity | x=0 | y=0 | u=0 | small-order | generic
}

// expect is the definition-level reading of a byte string.
type expect struct {
	reject    string     // non-empty: the string MUST be rejected (wrong-length, wrong-tag, wrong-flags/…, infinity-with-body)
	mustIdent bool       // if accepted, the result must be the identity (infinity flag)
	identOK   bool       // a returned identity is consistent with the string (reserved identity encoding)
	x, y      []*big.Int // coordinates carried by the string as integers (nil = not carried); compared modulo p
	sign      int        // sign / parity bit carried by the string, -1 = none
}

type dinput struct {
	label string
	data  []byte
}

// bformat is a byte format with its own encoder, decoder and definition.
type bformat[P any] struct {
	name   string
	size   int
	spec   func([]byte) expect
	dec    func([]byte) (P, error)
	enc    func(P) []byte
	inputs func() []dinput // flag x coordinate alphabet (family specific)

	inOnce sync.Once
	ins    []dinput
}

func (f *bformat[P]) allInputs() []dinput {
	f.inOnce.Do(func() { f.ins = f.inputs() })
	return f.ins
}

// wformat is a wrapper format that carries the encoding of a base format (Bytes/FromBytes, MarshalBinary, CBOR).
type wformat[P any] struct {
	name    string
	base    int
	enc     func(P) ([]byte, error)
	payload func([]byte) ([]byte, error)
	wrap    func([]byte) []byte
	dec     func([]byte) (P, error)
}

type elem[P any] struct {
	name      string
	v         pview    // the intended reference value
	reps      []P      // library representations (affine-built, arithmetic-built)
	repNames  []string //
	refusal   error    // the library refuses to construct the element (prime types: points outside the subgroup)
	buildFail string   // a representation did not read back as the intended point
}

// codec binds one library point type to its reference curve and formats.
type codec[P any, F any] struct {
	name  string
	prime bool     // the type promises membership in the prime-order subgroup
	p     *big.Int // characteristic of the coordinate field
	view  func(P) pview
	sign  func(v pview) (int, bool) // sign convention of the byte formats
	bases []*bformat[P]
	wraps []*wformat[P]

	fe            func(c []*big.Int) (F, error) // components (any non-negative integers) -> field element of c mod p
	affineOf      func(P) (F, F, error)
	fromAffine    func(F, F) (P, error)
	fromAffineX   func(F, bool) (P, error) // nil: the curve has no such constructor
	isOdd         func(F) bool
	affineInputs  func() []affIn
	affineXInputs func() []affIn
	onCurveRef    func(x, y []*big.Int) bool // reference verdict for reduced coordinates (informational)

	elems    func() []elem[P]
	elOnce   sync.Once
	els      []elem[P]
	sweepEls []string // names of the elements whose encodings are the bodies of the byte sweeps
}

type affIn struct {
	label string
	x, y  []*big.Int
	odd   bool
}

func (c *codec[P, F]) elements() []elem[P] {
	c.elOnce.Do(func() { c.els = c.elems() })
	return c.els
}

func (c *codec[P, F]) key(format, what string) string { return c.name + "/" + format + "/" + what }

func (c *codec[P, F]) safeView(p P) (v pview) {
	defer func() {
		if r := recover(); r != nil {
			if he, ok := r.(engine.HarnessError); ok {
				panic(he)
			}
			v = pview{err: fmt.Errorf("panic while reading the point: %v", r)}
		}
	}()
	return c.view(p)
}

func classKey(v pview) string {
	if v.class == "" || v.class == "generic" {
		return "roundtrip"
	}
	return v.class
}

func eqMod(a, b, p *big.Int) bool { return mod(a, p).Cmp(mod(b, p)) == 0 }

// denotes compares a decoded point with the definition-level reading of the input ("" = consistent).
func (c *codec[P, F]) denotes(e expect, v pview) string {
	if v.inf {
		if !e.identOK && !e.mustIdent {
			return "the decoder returned the identity although the input is not a reserved identity encoding"
		}
		return ""
	}
	if e.mustIdent {
		return "infinity flag set but a non-identity point was returned"
	}
	cmp := func(what string, want, got []*big.Int) string {
		if want == nil {
			return ""
		}
		if len(want) != len(got) {
			return fmt.Sprintf("%s has %d components, expected %d", what, len(got), len(want))
		}
		for i := range want {
			if !eqMod(want[i], got[i], c.p) {
				return fmt.Sprintf("%s component %d = 0x%s but the input carries 0x%s (mod p: 0x%s)", what, i, got[i].Text(16), want[i].Text(16), mod(want[i], c.p).Text(16))
			}
		}
		return ""
	}
	if m := cmp("x", e.x, v.x); m != "" {
		return m
	}
	if m := cmp("y", e.y, v.y); m != "" {
		return m
	}
	if e.sign >= 0 {
		if s, ok := c.sign(v); ok && s != e.sign {
			return fmt.Sprintf("sign bit of the returned point is %d but the input carries %d", s, e.sign)
		}
	}
	return ""
}

// judge evaluates one byte string on one base decoder.
func (c *codec[P, F]) judge(x *engine.X, f *bformat[P], in dinput, st *stats) {
	x.Case(c.key(f.name, in.label))
	e := f.spec(in.data)
	p, err, pan := safe(func() (P, error) { return f.dec(in.data) })
	if pan != nil {
		failf(x, c.key(f.name, "panic"), "%s %s decoder panicked on %s = %s: %v", c.name, f.name, in.label, hex(in.data), pan)
		return
	}
	tally(c.name+"/"+f.name, err == nil)
	if err != nil {
		st.rej++
		return
	}
	st.acc++
	if e.reject != "" {
		failf(x, c.key(f.name, "accepts-"+e.reject), "%s %s decoder accepted %s = %s, which must be rejected (%s)", c.name, f.name, in.label, hex(in.data), e.reject)
		return
	}
	v := c.safeView(p)
	if v.err != nil {
		failf(x, c.key(f.name, "accepts-invalid-point"), "%s %s decoder accepted %s = %s but the result is not a point of the reference curve: %v", c.name, f.name, in.label, hex(in.data), v.err)
		return
	}
	if c.prime && !v.inSub {
		failf(x, c.key(f.name, "accepts-outside-subgroup"), "%s %s decoder accepted %s = %s: the result %s is on the curve but outside the prime-order subgroup the type promises", c.name, f.name, in.label, hex(in.data), v.key)
		return
	}
	if m := c.denotes(e, v); m != "" {
		failf(x, c.key(f.name, "denotes"), "%s %s decoder accepted %s = %s as %s: %s", c.name, f.name, in.label, hex(in.data), v.key, m)
		return
	}
	c.reencode(x, f, p, v, "the point decoded from "+in.label)
}

// reencode checks encode -> (definition) -> decode on one library value whose reference reading is v.
func (c *codec[P, F]) reencode(x *engine.X, f *bformat[P], p P, v pview, what string) (enc []byte, ok bool) {
	b, pan := safe1(func() []byte { return f.enc(p) })
	if pan != nil {
		failf(x, c.key(f.name, "encode-panic/"+classKey(v)), "%s %s encoder panicked on %s (%s): %v", c.name, f.name, what, v.key, pan)
		return nil, false
	}
	if len(b) != f.size {
		failf(x, c.key(f.name, "encoding-length"), "%s %s encoding of %s has %d bytes, expected %d", c.name, f.name, what, len(b), f.size)
		return b, false
	}
	e := f.spec(b)
	if e.reject != "" {
		failf(x, c.key(f.name, "encoding-malformed"), "%s %s encoding %s of %s (%s) is malformed by the format definition: %s", c.name, f.name, hex(b), what, v.key, e.reject)
		return b, false
	}
	if m := c.denotes(e, v); m != "" {
		failf(x, c.key(f.name, "encoding-wrong/"+classKey(v)), "%s %s encoding %s of %s (%s) does not denote it: %s", c.name, f.name, hex(b), what, v.key, m)
		return b, false
	}
	p2, err, pan := safe(func() (P, error) { return f.dec(b) })
	if pan != nil {
		failf(x, c.key(f.name, "panic"), "%s %s decoder panicked on the library's own encoding %s of %s: %v", c.name, f.name, hex(b), what, pan)
		return b, false
	}
	if err != nil {
		failf(x, c.key(f.name, classKey(v)), "%s %s: the library cannot decode its own encoding %s of %s (%s): %v", c.name, f.name, hex(b), what, v.key, err)
		return b, false
	}
	v2 := c.safeView(p2)
	if v2.err != nil {
		failf(x, c.key(f.name, "accepts-invalid-point"), "%s %s: decoding the encoding %s of %s gives an invalid point: %v", c.name, f.name, hex(b), what, v2.err)
		return b, false
	}
	if v2.key != v.key {
		cls := classKey(v)
		if v2.key == v.negKey {
			cls = "negation-lost" // the decoded point is the negative of the encoded one
		}
		failf(x, c.key(f.name, cls), "%s %s round trip failed: %s = %s encodes to %s which decodes to %s", c.name, f.name, what, v.key, hex(b), v2.key)
		return b, false
	}
	return b, true
}

// judgeWrap compares a wrapper decoder with the decoder of the format it carries, on one payload.
func (c *codec[P, F]) judgeWrap(x *engine.X, w *wformat[P], in dinput, st *stats) {
	x.Case(c.key(w.name, in.label))
	base := c.bases[w.base]
	pb, eb, panb := safe(func() (P, error) { return base.dec(in.data) })
	wrapped := w.wrap(in.data)
	pw, ew, panw := safe(func() (P, error) { return w.dec(wrapped) })
	if panw != nil {
		failf(x, c.key(w.name, "panic"), "%s %s decoder panicked on payload %s = %s: %v", c.name, w.name, in.label, hex(in.data), panw)
		return
	}
	if panb != nil {
		st.skipped++ // reported by the base format
		return
	}
	tally(c.name+"/"+w.name, ew == nil)
	if ew != nil {
		st.rej++
	} else {
		st.acc++
	}
	if (eb == nil) != (ew == nil) {
		failf(x, c.key(w.name, "differs-from-"+base.name), "%s: %s on payload %s = %s: err=%v, but %s on the same bytes: err=%v", c.name, w.name, in.label, hex(in.data), ew, base.name, eb)
		return
	}
	if eb == nil {
		vb, vw := c.safeView(pb), c.safeView(pw)
		if vb.err == nil && (vw.err != nil || vw.key != vb.key) {
			failf(x, c.key(w.name, "differs-from-"+base.name), "%s: %s on payload %s = %s returns %s (%v), %s returns %s", c.name, w.name, in.label, hex(in.data), vw.key, vw.err, base.name, vb.key)
		}
	}
}

// ---------------------------------------------------------------------------------------------------------------
// round trip section

func (c *codec[P, F]) roundtripSuite() *suite {
	return &suite{name: c.name, build: func() []task {
		els := c.elements()
		var ts []task
		for i := range els {
			el := &els[i]
			ts = append(ts, task{name: "element " + el.name, run: func(x *engine.X) { c.roundtripElem(x, el) }})
		}
		ts = append(ts, task{name: "injectivity", run: c.injectivity})
		return ts
	}}
}

func (c *codec[P, F]) roundtripElem(x *engine.X, el *elem[P]) {
	if el.refusal != nil {
		// the library refuses to build the element (e.g. a point outside the subgroup for a prime-order type)
		x.Observe("unconstructible: ", c.prime && !el.v.inSub)
		if !(c.prime && !el.v.inSub) {
			failf(x, c.key("affine", classKey(el.v)), "%s: FromAffine refuses the coordinates of the valid point %s = %s: %v", c.name, el.name, el.v.key, el.refusal)
			return
		}
		x.Trivial()
		return
	}
	if el.buildFail != "" {
		failf(x, c.key("affine", "denotes"), "%s: %s", c.name, el.buildFail)
		return
	}
	for ri, p := range el.reps {
		what := el.name + "[" + el.repNames[ri] + "]"
		baseOK := make([]bool, len(c.bases))
		baseEnc := make([][]byte, len(c.bases))
		for bi, f := range c.bases {
			x.Case(c.key(f.name, "rt/"+what))
			baseEnc[bi], baseOK[bi] = c.reencode(x, f, p, el.v, what)
		}
		for _, w := range c.wraps {
			x.Case(c.key(w.name, "rt/"+what))
			base := c.bases[w.base]
			wb, err, pan := safe(func() ([]byte, error) { return w.enc(p) })
			if pan != nil {
				if baseEnc[w.base] == nil {
					continue // the carried encoder panics itself: reported there
				}
				failf(x, c.key(w.name, "encode-panic/"+classKey(el.v)), "%s %s encoder panicked on %s: %v", c.name, w.name, what, pan)
				continue
			}
			if err != nil {
				failf(x, c.key(w.name, "encode-error"), "%s %s encoder failed on %s: %v", c.name, w.name, what, err)
				continue
			}
			pl, err := w.payload(wb)
			if err != nil || !bytes.Equal(pl, baseEnc[w.base]) {
				failf(x, c.key(w.name, "payload-differs"), "%s %s of %s = %s does not carry the %s encoding %s (%v)", c.name, w.name, what, hex(wb), base.name, hex(baseEnc[w.base]), err)
				continue
			}
			p2, err, pan := safe(func() (P, error) { return w.dec(wb) })
			if pan != nil {
				failf(x, c.key(w.name, "panic"), "%s %s decoder panicked on its own encoding of %s: %v", c.name, w.name, what, pan)
				continue
			}
			got := "error"
			if err == nil {
				v2 := c.safeView(p2)
				got = v2.key
				if v2.err != nil {
					got = "invalid point"
				}
			}
			if got != el.v.key {
				if !baseOK[w.base] {
					continue // same failure as the carried format: reported under its key
				}
				failf(x, c.key(w.name, "differs-from-"+base.name), "%s %s round trip of %s = %s gives %s (err=%v) although the %s round trip succeeds", c.name, w.name, what, el.v.key, got, err, base.name)
			}
		}
		// affine constructors
		if el.v.inf || el.v.ident {
			continue // the identity has no affine coordinates in the library's accessors (documented refusal)
		}
		x.Case(c.key("affine", "rt/"+what))
		type xy struct{ x, y F }
		co, err, pan := safe(func() (xy, error) { a, b, e := c.affineOf(p); return xy{a, b}, e })
		if pan != nil || err != nil {
			failf(x, c.key("affine", classKey(el.v)), "%s: affine coordinates of the valid non-identity point %s = %s cannot be read: err=%v panic=%v", c.name, what, el.v.key, err, pan)
			continue
		}
		p2, err, pan := safe(func() (P, error) { return c.fromAffine(co.x, co.y) })
		switch {
		case pan != nil:
			failf(x, c.key("affine", "panic"), "%s FromAffine panicked on the coordinates of %s: %v", c.name, what, pan)
		case err != nil:
			failf(x, c.key("affine", classKey(el.v)), "%s FromAffine refuses the coordinates of %s = %s: %v", c.name, what, el.v.key, err)
		default:
			if v2 := c.safeView(p2); v2.err != nil || v2.key != el.v.key {
				failf(x, c.key("affine", classKey(el.v)), "%s FromAffine(AffineX, AffineY) of %s = %s gives %s (%v)", c.name, what, el.v.key, v2.key, v2.err)
			}
		}
		if c.fromAffineX != nil {
			x.Case(c.key("affine-x", "rt/"+what))
			p3, err, pan := safe(func() (P, error) { return c.fromAffineX(co.x, c.isOdd(co.y)) })
			switch {
			case pan != nil:
				failf(x, c.key("affine-x", "panic"), "%s FromAffineX panicked on the coordinates of %s: %v", c.name, what, pan)
			case err != nil:
				failf(x, c.key("affine-x", classKey(el.v)), "%s FromAffineX refuses x and parity of %s = %s: %v", c.name, what, el.v.key, err)
			default:
				if v3 := c.safeView(p3); v3.err != nil || v3.key != el.v.key {
					failf(x, c.key("affine-x", classKey(el.v)), "%s FromAffineX(AffineX, AffineY.IsOdd) of %s = %s gives %s (%v)", c.name, what, el.v.key, v3.key, v3.err)
				}
			}
		}
	}
	x.Observe(el.v.class, " reps=", len(el.reps))
}

// injectivity: encodings of distinct alphabet elements are distinct (every base format; wrappers carry them verbatim).
func (c *codec[P, F]) injectivity(x *engine.X) {
	els := c.elements()
	for _, f := range c.bases {
		seen := map[string]*elem[P]{}
		n := 0
		for i := range els {
			el := &els[i]
			if len(el.reps) == 0 {
				continue
			}
			b, pan := safe1(func() []byte { return f.enc(el.reps[0]) })
			if pan != nil {
				continue // reported by the round trip of the element
			}
			x.Case(c.key(f.name, "inj/"+el.name))
			n++
			if other, dup := seen[string(b)]; dup {
				cls := "collision"
				switch {
				case other.v.negKey == el.v.key:
					cls = "negation-lost"
				case classKey(el.v) != "roundtrip" && classKey(el.v) != "identity":
					cls = classKey(el.v)
				case classKey(other.v) != "roundtrip" && classKey(other.v) != "identity":
					cls = classKey(other.v)
				}
				failf(x, c.key(f.name, cls), "%s %s: distinct elements %s = %s and %s = %s share the encoding %s", c.name, f.name, other.name, other.v.key, el.name, el.v.key, hex(b))
				continue
			}
			seen[string(b)] = el
		}
		x.Observe(f.name, " elements=", n, " encodings=", len(seen))
	}
}

// ---------------------------------------------------------------------------------------------------------------
// decode section

func (c *codec[P, F]) decodeSuite() *suite {
	return &suite{name: c.name, build: func() []task {
		var ts []task
		for bi, f := range c.bases {
			ins := f.allInputs()
			for _, ch := range chunks(len(ins), 48) {
				ts = append(ts, task{name: fmt.Sprintf("%s coordinates %d..%d", f.name, ch[0], ch[1]), run: func(x *engine.X) {
					var st stats
					for _, in := range ins[ch[0]:ch[1]] {
						c.judge(x, f, in, &st)
					}
					st.observe(x)
				}})
			}
			sw := c.sweepInputs(f)
			for _, ch := range chunks(len(sw), 128) {
				ts = append(ts, task{name: fmt.Sprintf("%s byte sweep %d..%d", f.name, ch[0], ch[1]), run: func(x *engine.X) {
					var st stats
					for _, in := range sw[ch[0]:ch[1]] {
						c.judge(x, f, in, &st)
					}
					st.observe(x)
				}})
			}
			for _, w := range c.wraps {
				if w.base != bi {
					continue
				}
				all := append(append([]dinput{}, ins...), sw...)
				for _, ch := range chunks(len(all), 128) {
					ts = append(ts, task{name: fmt.Sprintf("%s payloads %d..%d", w.name, ch[0], ch[1]), run: func(x *engine.X) {
						var st stats
						for _, in := range all[ch[0]:ch[1]] {
							c.judgeWrap(x, w, in, &st)
						}
						st.observe(x)
					}})
				}
			}
		}
		aff := c.affineInputs()
		for _, ch := range chunks(len(aff), 48) {
			ts = append(ts, task{name: fmt.Sprintf("affine %d..%d", ch[0], ch[1]), run: func(x *engine.X) {
				var st stats
				for _, in := range aff[ch[0]:ch[1]] {
					c.judgeAffine(x, in, &st)
				}
				st.observe(x)
			}})
		}
		if c.fromAffineX != nil {
			ax := c.affineXInputs()
			for _, ch := range chunks(len(ax), 48) {
				ts = append(ts, task{name: fmt.Sprintf("affine-x %d..%d", ch[0], ch[1]), run: func(x *engine.X) {
					var st stats
					for _, in := range ax[ch[0]:ch[1]] {
						c.judgeAffineX(x, in, &st)
					}
					st.observe(x)
				}})
			}
		}
		return ts
	}}
}

// sweepInputs: valid bodies (the library's own encodings of selected elements) with one byte replaced.
// quick: first byte and last byte x 0..255; thorough: additionally every position x {00,01,7f,80,fe,ff}.
func (c *codec[P, F]) sweepInputs(f *bformat[P]) []dinput {
	var out []dinput
	seen := map[string]bool{}
	addIn := func(label string, d []byte) {
		if seen[string(d)] {
			return
		}
		seen[string(d)] = true
		out = append(out, dinput{label, d})
	}
	els := c.elements()
	names := c.sweepEls
	if engine.Thorough() {
		names = nil
		for i := range els {
			names = append(names, els[i].name)
		}
	}
	for _, nm := range names {
		for i := range els {
			if els[i].name != nm || len(els[i].reps) == 0 {
				continue
			}
			b, pan := safe1(func() []byte { return f.enc(els[i].reps[0]) })
			if pan != nil || len(b) == 0 {
				continue
			}
			for _, pos := range []int{0, len(b) - 1} {
				for v := 0; v < 256; v++ {
					d := append([]byte{}, b...)
					d[pos] = byte(v)
					addIn(fmt.Sprintf("%s@%d=%02x", nm, pos, v), d)
				}
			}
			if engine.Thorough() {
				for pos := range b {
					for _, v := range []byte{0x00, 0x01, 0x7f, 0x80, 0xfe, 0xff} {
						d := append([]byte{}, b...)
						d[pos] = v
						addIn(fmt.Sprintf("%s@%d=%02x", nm, pos, v), d)
					}
				}
			}
		}
	}
	return out
}

func intsStr(v []*big.Int) string {
	s := ""
	for i, c := range v {
		if i > 0 {
			s += ","
		}
		s += "0x" + c.Text(16)
	}
	return "(" + s + ")"
}

func (c *codec[P, F]) judgeAffine(x *engine.X, in affIn, st *stats) {
	x.Case(c.key("affine", in.label))
	fx, err1 := c.fe(in.x)
	fy, err2 := c.fe(in.y)
	if err1 != nil || err2 != nil {
		panic(engine.HarnessError{Msg: fmt.Sprintf("%s: cannot build field elements for %s: %v %v", c.name, in.label, err1, err2)})
	}
	p, err, pan := safe(func() (P, error) { return c.fromAffine(fx, fy) })
	if pan != nil {
		failf(x, c.key("affine", "panic"), "%s FromAffine panicked on %s x=%s y=%s: %v", c.name, in.label, intsStr(in.x), intsStr(in.y), pan)
		return
	}
	tally(c.name+"/affine", err == nil)
	if err != nil {
		st.rej++
		return
	}
	st.acc++
	v := c.safeView(p)
	if v.err != nil {
		failf(x, c.key("affine", "accepts-invalid-point"), "%s FromAffine accepted %s x=%s y=%s but the result is not a point of the reference curve: %v", c.name, in.label, intsStr(in.x), intsStr(in.y), v.err)
		return
	}
	if c.prime && !v.inSub {
		failf(x, c.key("affine", "accepts-outside-subgroup"), "%s FromAffine accepted %s x=%s y=%s: on the curve but outside the prime-order subgroup", c.name, in.label, intsStr(in.x), intsStr(in.y))
		return
	}
	if m := c.denotes(expect{x: in.x, y: in.y, sign: -1}, v); m != "" {
		failf(x, c.key("affine", "denotes"), "%s FromAffine accepted %s x=%s y=%s as %s: %s", c.name, in.label, intsStr(in.x), intsStr(in.y), v.key, m)
	}
}

func (c *codec[P, F]) judgeAffineX(x *engine.X, in affIn, st *stats) {
	x.Case(c.key("affine-x", in.label))
	fx, err := c.fe(in.x)
	if err != nil {
		panic(engine.HarnessError{Msg: fmt.Sprintf("%s: cannot build field element for %s: %v", c.name, in.label, err)})
	}
	p, err, pan := safe(func() (P, error) { return c.fromAffineX(fx, in.odd) })
	if pan != nil {
		failf(x, c.key("affine-x", "panic"), "%s FromAffineX panicked on %s x=%s odd=%v: %v", c.name, in.label, intsStr(in.x), in.odd, pan)
		return
	}
	tally(c.name+"/affine-x", err == nil)
	if err != nil {
		st.rej++
		return
	}
	st.acc++
	v := c.safeView(p)
	if v.err != nil {
		failf(x, c.key("affine-x", "accepts-invalid-point"), "%s FromAffineX accepted %s x=%s but the result is not a point of the reference curve: %v", c.name, in.label, intsStr(in.x), v.err)
		return
	}
	if c.prime && !v.inSub {
		failf(x, c.key("affine-x", "accepts-outside-subgroup"), "%s FromAffineX accepted %s x=%s odd=%v: the result %s is on the curve but outside the prime-order subgroup the type promises", c.name, in.label, intsStr(in.x), in.odd, v.key)
		return
	}
	if v.inf {
		failf(x, c.key("affine-x", "denotes"), "%s FromAffineX(%s) returned the identity", c.name, intsStr(in.x))
		return
	}
	if m := c.denotes(expect{x: in.x, sign: -1}, v); m != "" {
		failf(x, c.key("affine-x", "denotes"), "%s FromAffineX accepted %s x=%s as %s: %s", c.name, in.label, intsStr(in.x), v.key, m)
		return
	}
	// parity of y as requested (y = 0 has no choice)
	if len(v.y) == 1 && v.y[0].Sign() != 0 && (v.y[0].Bit(0) == 1) != in.odd {
		failf(x, c.key("affine-x", "denotes"), "%s FromAffineX(x=%s, odd=%v) returned y=0x%s of the wrong parity", c.name, intsStr(in.x), in.odd, v.y[0].Text(16))
	}
}

// ---------------------------------------------------------------------------------------------------------------
// length section: every length 0..2*size+1 on every byte decoder, two fillers (zero-extended / self-repeated valid encoding)

func (c *codec[P, F]) lengthSuite() *suite {
	return &suite{name: c.name, build: func() []task {
		var ts []task
		els := c.elements()
		var g *elem[P]
		for i := range els {
			if els[i].name == "G" && len(els[i].reps) > 0 {
				g = &els[i]
			}
		}
		if g == nil {
			panic(engine.HarnessError{Msg: c.name + ": no generator element"})
		}
		mk := func(valid []byte, maxLen int) []dinput {
			var ins []dinput
			for l := 0; l <= maxLen; l++ {
				if l == len(valid) {
					ins = append(ins, dinput{fmt.Sprintf("len=%d/valid", l), valid})
					continue
				}
				a := make([]byte, l) // valid encoding truncated / zero-extended
				copy(a, valid)
				ins = append(ins, dinput{fmt.Sprintf("len=%d/zero-filled", l), a})
				b := make([]byte, l) // valid encoding truncated / repeated
				for i := range b {
					b[i] = valid[i%len(valid)]
				}
				if !bytes.Equal(a, b) {
					ins = append(ins, dinput{fmt.Sprintf("len=%d/repeated", l), b})
				}
				if l > 0 {
					d := bytes.Repeat([]byte{0xff}, l)
					ins = append(ins, dinput{fmt.Sprintf("len=%d/ff-filled", l), d})
				}
			}
			return ins
		}
		for bi, f := range c.bases {
			valid, pan := safe1(func() []byte { return f.enc(g.reps[0]) })
			if pan != nil {
				continue
			}
			maxLen := 2*f.size + 1
			if engine.Thorough() {
				maxLen = 4*f.size + 1
			}
			ins := mk(valid, maxLen)
			ts = append(ts, task{name: f.name + " lengths", run: func(x *engine.X) {
				var st stats
				for _, in := range ins {
					c.judge(x, f, in, &st)
				}
				st.observe(x)
			}})
			for _, w := range c.wraps {
				if w.base != bi {
					continue
				}
				ts = append(ts, task{name: w.name + " lengths", run: func(x *engine.X) {
					var st stats
					for _, in := range ins {
						c.judgeWrap(x, w, in, &st)
					}
					st.observe(x)
				}})
			}
		}
		return ts
	}}
}

// ---------------------------------------------------------------------------------------------------------------
// wrappers

func bytesWrap[P any](base int, enc func(P) []byte, dec func([]byte) (P, error)) *wformat[P] {
	return &wformat[P]{name: "bytes", base: base,
		enc:     func(p P) ([]byte, error) { return enc(p), nil },
		payload: func(b []byte) ([]byte, error) { return b, nil },
		wrap:    func(b []byte) []byte { return b },
		dec:     dec,
	}
}

// binaryWrap uses MarshalBinary / UnmarshalBinary when the point type has them (nil otherwise).
func binaryWrap[P any](base int, newP func() P) *wformat[P] {
	type bm interface{ MarshalBinary() ([]byte, error) }
	type bu interface{ UnmarshalBinary([]byte) error }
	if _, ok := any(newP()).(bm); !ok {
		return nil
	}
	if _, ok := any(newP()).(bu); !ok {
		return nil
	}
	return &wformat[P]{name: "binary", base: base,
		enc:     func(p P) ([]byte, error) { return any(p).(bm).MarshalBinary() },
		payload: func(b []byte) ([]byte, error) { return b, nil },
		wrap:    func(b []byte) []byte { return b },
		dec: func(b []byte) (P, error) {
			p := newP()
			if err := any(p).(bu).UnmarshalBinary(b); err != nil {
				var z P
				return z, err
			}
			return p, nil
		},
	}
}

// cborWrap: the CBOR form is a one-entry map {<key>: h'<base encoding>'}; the key name is read from the library's own
// output for sample, the payload is replaced through the lossless tree of verifmc/ref/cbor.
func cborWrap[P any](base int, newP func() P, sample P) *wformat[P] {
	type cm interface{ MarshalCBOR() ([]byte, error) }
	type cu interface{ UnmarshalCBOR([]byte) error }
	tmpl, err := any(sample).(cm).MarshalCBOR()
	if err != nil {
		panic(engine.HarnessError{Msg: "cborWrap: MarshalCBOR(sample): " + err.Error()})
	}
	find := func(b []byte) (*refcbor.Node, *refcbor.Node, error) {
		root, err := refcbor.Parse(b)
		if err != nil {
			return nil, nil, err
		}
		n := root
		for n.Kind == refcbor.Tag {
			n = n.Items[0]
		}
		if n.Kind != refcbor.Map || len(n.Items) != 2 || n.Items[0].Kind != refcbor.Text || n.Items[1].Kind != refcbor.Bytes {
			return nil, nil, fmt.Errorf("CBOR form is not a one-entry map text->bytes: %s", root.String())
		}
		return root, n, nil
	}
	if _, _, err := find(tmpl); err != nil {
		panic(engine.HarnessError{Msg: "cborWrap: " + err.Error()})
	}
	return &wformat[P]{name: "cbor", base: base,
		enc: func(p P) ([]byte, error) { return any(p).(cm).MarshalCBOR() },
		payload: func(b []byte) ([]byte, error) {
			_, m, err := find(b)
			if err != nil {
				return nil, err
			}
			return m.Items[1].Data, nil
		},
		wrap: func(pl []byte) []byte {
			root, m, _ := find(tmpl)
			m.Items[1] = &refcbor.Node{Kind: refcbor.Bytes, Data: append([]byte{}, pl...)}
			return refcbor.Encode(root)
		},
		dec: func(b []byte) (P, error) {
			p := newP()
			if err := any(p).(cu).UnmarshalCBOR(b); err != nil {
				var z P
				return z, err
			}
			return p, nil
		},
	}
}

// ---------------------------------------------------------------------------------------------------------------
// reference subgroup membership cache (math/big scalar multiplications are the only expensive oracle step)

var inSubCache sync.Map

func cachedInSub(curveName, key string, f func() bool) bool {
	k := curveName + "|" + key
	if v, ok := inSubCache.Load(k); ok {
		return v.(bool)
	}
	r := f()
	inSubCache.Store(k, r)
	return r
}

func sortedKeys[V any](m map[string]V) []string {
	ks := make([]string, 0, len(m))
	for k := range m {
		ks = append(ks, k)
	}
	sort.Strings(ks)
	return ks
}
