package c08

import (
	"fmt"
	"os"
	"runtime/debug"
	"strings"
	"testing"

	"github.com/bronlabs/bron-crypto/pkg/base/curves/k256"
	"github.com/bronlabs/bron-crypto/pkg/proofs/sigma/compiler/fiatshamir"

	"verifmc/ref/cbor"
)

// TestTriage reproduces the findings of the unchanged tree with direct library calls only (VERIF_C08_TRIAGE=1).
func TestTriage(t *testing.T) {
	if os.Getenv("VERIF_C08_TRIAGE") == "" {
		t.Skip()
	}
	k := newEC("k256", k256.NewCurve())
	n := andCase(schnorrCase(k), 2).ni()
	proof, err := n.prove(fiatshamir.Name, proverCtx().build(), 0, "triage")
	if err != nil {
		t.Fatal(err)
	}
	root, _ := cbor.Parse(proof)
	fmt.Println("honest proof:", root)
	// append a CBOR null to the commitment array "A" of the AND(2) proof
	a := cbor.Find(root, "$>A").Node
	a.Items = append(a.Items, &cbor.Node{Kind: cbor.Simple, Info: 22, Arg: 22})
	edited := cbor.Encode(root)
	fmt.Println("edited proof:", root)
	func() {
		defer func() {
			if r := recover(); r != nil {
				fmt.Printf("Verify PANICKED: %v\n%s\n", r, debug.Stack())
			}
		}()
		err := n.verify(fiatshamir.Name, verifierCtx().build(), stmtSel{}, edited)
		fmt.Println("Verify returned:", err)
	}()
}

func TestTriageNils(t *testing.T) {
	if os.Getenv("VERIF_C08_TRIAGE") == "" {
		t.Skip()
	}
	k := newEC("k256", k256.NewCurve())
	n := batchSchnorrCase(k, 2).ni()
	proof, err := n.prove(fiatshamir.Name, proverCtx().build(), 0, "triage")
	if err != nil {
		t.Fatal(err)
	}
	root, _ := cbor.Parse(proof)
	fmt.Println("honest proof:", root)
	base, err := n.nils(fiatshamir.Name, proof)
	fmt.Println("base nils:", base, err)
	a := cbor.Find(root, "$>A").Node
	a.Items = nil
	edited := cbor.Encode(root)
	fmt.Println("edited proof:", root)
	np, err := n.nils(fiatshamir.Name, edited)
	fmt.Println("edited nils:", np, err)
}

// TestTriageRangeModulus: the Paillier range proof accepts a response in which the modulus carried inside one
// plaintext W1[i] was altered (the decoded value differs, the proof still verifies).
func TestTriageRangeModulus(t *testing.T) {
	if os.Getenv("VERIF_C08_TRIAGE") == "" {
		t.Skip()
	}
	n := rangeCase(1024).ni()
	proof, err := n.prove(fiatshamir.Name, proverCtx().build(), 0, "triage")
	if err != nil {
		t.Fatal(err)
	}
	fmt.Println("honest verify:", n.verify(fiatshamir.Name, verifierCtx().build(), stmtSel{}, proof))
	root, _ := cbor.Parse(proof)
	var leaf *cbor.Node
	var path string
	for _, r := range cbor.Leaves(root) {
		if leaf == nil && strings.HasPrefix(r.Path, "$>Z>W1>") && strings.HasSuffix(r.Path, "natBytes") && strings.Contains(r.Path, "modulus") {
			leaf, path = r.Node, r.Path
		}
	}
	if leaf == nil {
		t.Fatal("no modulus leaf found")
	}
	leaf.Data[len(leaf.Data)-1] ^= 1
	edited := cbor.Encode(root)
	fmt.Println("edited leaf:", path, "(last bit of the plaintext's modulus flipped)")
	fmt.Println("edited verify:", n.verify(fiatshamir.Name, verifierCtx().build(), stmtSel{}, edited))
	rec, rerr := n.recode(fiatshamir.Name, edited)
	fmt.Println("re-encoding equals original:", rerr == nil && string(rec) == string(proof), "equals edited:", rerr == nil && string(rec) == string(edited))
}

// TestTriageCrash: an AND(2) batch-Schnorr Fiat-Shamir proof whose first response lost its "z" entry makes
// sigand.Verify dereference a nil scalar inside an errgroup worker: the panic cannot be recovered and the process
// dies (run this test alone; it is expected to kill the test binary with a Go crash report).
func TestTriageCrash(t *testing.T) {
	if os.Getenv("VERIF_C08_TRIAGE") != "crash" {
		t.Skip()
	}
	k := newEC("k256", k256.NewCurve())
	n := andCase(batchSchnorrCase(k, 2), 2).ni()
	proof, err := n.prove(fiatshamir.Name, proverCtx().build(), 0, "triage")
	if err != nil {
		t.Fatal(err)
	}
	root, _ := cbor.Parse(proof)
	z0 := cbor.Find(root, "$>Z[0]").Node // {"z": {...}}  ->  {}
	z0.Items = nil
	edited := cbor.Encode(root)
	fmt.Println("edited proof:", root)
	defer func() { fmt.Println("recovered (not reached when the panic is in a worker goroutine):", recover()) }()
	err = n.verify(fiatshamir.Name, verifierCtx().build(), stmtSel{}, edited)
	fmt.Printf("Verify returned: %+v\n", err)
}
