package proto

// Shared pieces of the C01 signing drivers (c01_*.go). Every signing protocol exists in two forms that use the SAME
// deterministic inputs (session contexts from Contexts(quorum, KeySeed(seed), label), one det stream per party):
//
//	C01XxxRounds  drives the round-by-round API in process (no scheduler: safe in parallel CT bodies)
//	C01XxxRun     runs every party's real network.Runner over real routers on schednet (SCHED sections only)
//
// Both return a C01Out: who obtained which signature (parties and aggregators) and who failed where. The oracle
// (independent verification, equality, refusal of unqualified quorums) lives in checks/c01.
//
// All package-level names of these files start with C01 / c01 (the package is shared with other checks' drivers).

import (
	"fmt"

	"github.com/bronlabs/bron-crypto/pkg/base/algebra"
	ds "github.com/bronlabs/bron-crypto/pkg/base/datastructures"
	"github.com/bronlabs/bron-crypto/pkg/base/datastructures/hashmap"
	"github.com/bronlabs/bron-crypto/pkg/base/serde"
	"github.com/bronlabs/bron-crypto/pkg/mpc"
	"github.com/bronlabs/bron-crypto/pkg/mpc/dkg/canetti"
	"github.com/bronlabs/bron-crypto/pkg/mpc/dkg/gennaro"
	"github.com/bronlabs/bron-crypto/pkg/mpc/dkg/trusteddealer"
	"github.com/bronlabs/bron-crypto/pkg/mpc/sharing/accessstructures"
	"github.com/bronlabs/bron-crypto/pkg/proofs/sigma/compiler/fiatshamir"

	"verifmc/det"
	"verifmc/schednet"
)

// C01Out is the outcome of one honest signing run.
type C01Out[Sig any] struct {
	// Sigs: every signature somebody obtained, keyed by who obtained it:
	// "party/<id>" (a party whose protocol output is the signature), "agg/outside" (an aggregator that did not
	// cosign), "agg/party/<id>" (the cosigning aggregator of party id).
	Sigs map[string]Sig
	// Errs: who failed, and where ("party/<id>/round2", "agg/outside", "party/<id>/new" …).
	Errs map[string]error
	// Want: the holders that are supposed to end with a signature in this run.
	Want []string
	// Refused is set when a constructor refused the configuration (the quorum, the message …) before any round ran.
	Refused error
	Info    *schednet.Info // runner form only
}

func c01NewOut[Sig any]() *C01Out[Sig] {
	return &C01Out[Sig]{Sigs: map[string]Sig{}, Errs: map[string]error{}}
}

func c01Party(id ID) string    { return fmt.Sprintf("party/%d", id) }
func c01AggParty(id ID) string { return fmt.Sprintf("agg/party/%d", id) }

const c01AggOutside = "agg/outside"

// c01Wire hands a message over the way the repository's own round-by-round idiom does (ntu.MapO2I): as a fresh
// object decoded from the sender's CBOR encoding.
func c01Wire[M any](m M) M {
	b, err := serde.MarshalCBOR(m)
	if err != nil {
		panic(fmt.Sprintf("c01: honest message %T does not encode: %v", m, err))
	}
	out, err := serde.UnmarshalCBOR[M](b)
	if err != nil {
		panic(fmt.Sprintf("c01: honest message %T does not decode from its own encoding: %v", m, err))
	}
	return out
}

// C01Wire is c01Wire for callers outside the package (key material that a check decodes once per execution).
func C01Wire[M any](m M) M { return c01Wire(m) }

// c01B delivers a broadcast round eagerly: per recipient, everybody else's message keyed by sender.
func c01B[M any](ids []ID, out map[ID]M) map[ID]ds.Map[ID, M] {
	d := map[ID]ds.Map[ID, M]{}
	for _, me := range ids {
		in := map[ID]M{}
		for _, o := range ids {
			if o != me {
				in[o] = c01Wire(out[o])
			}
		}
		d[me] = hashmap.NewImmutableComparableFromNativeLike(in)
	}
	return d
}

// c01U delivers a unicast round eagerly: per recipient, what every other sender addressed to it.
func c01U[M any](ids []ID, out map[ID]ds.Map[ID, M]) map[ID]ds.Map[ID, M] {
	d := map[ID]ds.Map[ID, M]{}
	for _, me := range ids {
		in := map[ID]M{}
		for _, o := range ids {
			if o == me || out[o] == nil {
				continue
			}
			if m, ok := out[o].Get(me); ok {
				in[o] = c01Wire(m)
			}
		}
		d[me] = hashmap.NewImmutableComparableFromNativeLike(in)
	}
	return d
}

// C01Keygen names how the base shards were produced.
type C01Keygen int

const (
	C01Dealer C01Keygen = iota
	C01Gennaro
	C01Canetti
)

func (k C01Keygen) String() string { return [...]string{"dealer", "gennaro", "canetti"}[k] }

// C01BaseShards produces base shards for ac over group by the named key generation (the DKGs through their
// round-by-round API, all shareholders honest). ids must be the shareholders of ac.
func C01BaseShards[E algebra.PrimeGroupElement[E, S], S algebra.PrimeFieldElement[S]](kg C01Keygen, group algebra.PrimeGroup[E, S], ac accessstructures.Monotone, ids []ID, seed int64, label string) (map[ID]*mpc.BaseShard[E, S], error) {
	ids = Sorted(ids)
	switch kg {
	case C01Dealer:
		m, err := trusteddealer.Deal(group, ac, det.New(seed, "c01/deal/"+label))
		if err != nil {
			return nil, err
		}
		out := map[ID]*mpc.BaseShard[E, S]{}
		for id, sh := range m.Iter() {
			out[id] = sh
		}
		return out, nil
	case C01Gennaro:
		ctxs := Contexts(ids, seed, "c01/gennaro/"+label)
		ps := map[ID]*gennaro.Participant[E, S]{}
		for _, id := range ids {
			p, err := gennaro.NewParticipant(ctxs[id], group, ac, fiatshamir.Name, det.New(seed, fmt.Sprintf("c01/gennaro/%s/%d", label, id)))
			if err != nil {
				return nil, fmt.Errorf("gennaro.NewParticipant(%d): %w", id, err)
			}
			ps[id] = p
		}
		r1b := map[ID]*gennaro.Round1Broadcast[E, S]{}
		r1u := map[ID]ds.Map[ID, *gennaro.Round1Unicast[E, S]]{}
		for _, id := range ids {
			b, u, err := ps[id].Round1()
			if err != nil {
				return nil, fmt.Errorf("gennaro party %d Round1: %w", id, err)
			}
			r1b[id], r1u[id] = b, u
		}
		in1b, in1u := c01B(ids, r1b), c01U(ids, r1u)
		r2b := map[ID]*gennaro.Round2Broadcast[E, S]{}
		for _, id := range ids {
			b, err := ps[id].Round2(in1b[id], in1u[id])
			if err != nil {
				return nil, fmt.Errorf("gennaro party %d Round2: %w", id, err)
			}
			r2b[id] = b
		}
		in2b := c01B(ids, r2b)
		out := map[ID]*mpc.BaseShard[E, S]{}
		for _, id := range ids {
			sh, err := ps[id].Round3(in2b[id])
			if err != nil {
				return nil, fmt.Errorf("gennaro party %d Round3: %w", id, err)
			}
			out[id] = sh
		}
		return out, nil
	case C01Canetti:
		ctxs := Contexts(ids, seed, "c01/canetti/"+label)
		ps := map[ID]*canetti.Participant[E, S]{}
		for _, id := range ids {
			p, err := canetti.NewParticipant(ctxs[id], ac, group, det.New(seed, fmt.Sprintf("c01/canetti/%s/%d", label, id)))
			if err != nil {
				return nil, fmt.Errorf("canetti.NewParticipant(%d): %w", id, err)
			}
			ps[id] = p
		}
		r1b := map[ID]*canetti.Round1Broadcast[E, S]{}
		for _, id := range ids {
			b, err := ps[id].Round1()
			if err != nil {
				return nil, fmt.Errorf("canetti party %d Round1: %w", id, err)
			}
			r1b[id] = b
		}
		in1b := c01B(ids, r1b)
		r2b := map[ID]*canetti.Round2Broadcast[E, S]{}
		r2u := map[ID]ds.Map[ID, *canetti.Round2P2P[E, S]]{}
		for _, id := range ids {
			b, u, err := ps[id].Round2(in1b[id])
			if err != nil {
				return nil, fmt.Errorf("canetti party %d Round2: %w", id, err)
			}
			r2b[id], r2u[id] = b, u
		}
		in2b, in2u := c01B(ids, r2b), c01U(ids, r2u)
		r3b := map[ID]*canetti.Round3Broadcast[E, S]{}
		for _, id := range ids {
			b, err := ps[id].Round3(in2b[id], in2u[id])
			if err != nil {
				return nil, fmt.Errorf("canetti party %d Round3: %w", id, err)
			}
			r3b[id] = b
		}
		in3b := c01B(ids, r3b)
		out := map[ID]*mpc.BaseShard[E, S]{}
		for _, id := range ids {
			sh, err := ps[id].Round4(in3b[id])
			if err != nil {
				return nil, fmt.Errorf("canetti party %d Round4: %w", id, err)
			}
			out[id] = sh
		}
		return out, nil
	}
	panic("c01: unknown key generation")
}

// c01Collect turns the results of a schednet run into a C01Out skeleton: errors, panics and starvation become Errs.
func c01Collect[O any, Sig any](out *C01Out[Sig], ids []ID, res map[ID]*schednet.Result[O], info *schednet.Info) map[ID]O {
	out.Info = info
	ok := map[ID]O{}
	for _, id := range ids {
		r := res[id]
		switch {
		case r == nil:
			out.Errs[c01Party(id)+"/run"] = fmt.Errorf("no result")
		case r.Panic != "":
			out.Errs[c01Party(id)+"/run"] = fmt.Errorf("panic: %s", r.Panic)
		case r.Err != nil:
			out.Errs[c01Party(id)+"/run"] = r.Err
		case r.Starved:
			out.Errs[c01Party(id)+"/run"] = fmt.Errorf("starved: still waiting when no thread could make progress (%s)", info.Stuck)
		case !r.Done:
			out.Errs[c01Party(id)+"/run"] = fmt.Errorf("did not finish")
		default:
			ok[id] = r.Out
		}
	}
	if info.Deadlock != "" {
		out.Errs["run/deadlock"] = fmt.Errorf("%s", info.Deadlock)
	}
	return ok
}
