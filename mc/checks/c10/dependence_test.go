package c10

import (
	"bytes"
	"fmt"
	"io"
	"sync"

	"github.com/bronlabs/bron-crypto/pkg/mpc/sharing"

	"strings"

	"verifmc/det"
	"verifmc/engine"
	"verifmc/ref/cbor"
)

// switchReader serves the first `cut` Read calls from one stream and every later call from another: "the same party
// with all its random choices from call #cut on made differently".
type switchReader struct {
	mu         sync.Mutex
	base, alt  io.Reader
	calls, cut int
}

func (s *switchReader) Read(p []byte) (int, error) {
	s.mu.Lock()
	c := s.calls
	s.calls++
	s.mu.Unlock()
	// both streams are advanced so that positions stay aligned
	q := make([]byte, len(p))
	n, err := io.ReadFull(s.base, p)
	_, _ = io.ReadFull(s.alt, q)
	if c >= s.cut {
		copy(p, q)
	}
	return n, err
}

// dependenceBody: for every party k and every cut point of k's random stream, session B is session A with k's draws
// from that call on replaced. Wherever k's contribution towards a peer j (the Round3 opening sent to j) differs
// between the two sessions, the pairwise seed of (k, j) must differ too — at both ends; and if the session ids differ
// every pairwise seed must differ. (Both contributions of a pair must enter its seed.)
func dependenceBody(x *engine.X) {
	n, a, ids := chooseQuorum(x)
	ki := x.Choose("party", n)
	k := ids[ki]
	seed := engine.Seed()*1000 + 501
	streams := func(tag string, cut int) func(sharing.ID) io.Reader {
		return func(id sharing.ID) io.Reader {
			base := det.New(seed, fmt.Sprintf("c10/dep/A/party-%d", id))
			if id != k || cut < 0 {
				return base
			}
			return &switchReader{base: base, alt: det.New(seed, fmt.Sprintf("c10/dep/B/party-%d", id)), cut: cut}
		}
	}
	// count k's Read calls in the base session
	var counter *switchReader
	A := runSession(ids, func(id sharing.ID) io.Reader {
		r := streams("A", -1)(id)
		if id == k {
			counter = &switchReader{base: r, alt: det.New(seed, "c10/dep/unused"), cut: 1 << 30}
			return counter
		}
		return r
	}, true, nil)
	for _, id := range ids {
		if !A.parties[id].alive() || A.parties[id].ctx == nil {
			panic(engine.HarnessError{Msg: "base session failed"})
		}
	}
	total := counter.calls
	cut := x.Choose("cut", total)
	B := runSession(ids, streams("B", cut), true, nil)
	where := fmt.Sprintf("n=%d ids=%v(%s): party %d re-draws its random choices from Read call #%d of %d on", n, ids, a.name, k, cut, total)
	for _, id := range ids {
		if !B.parties[id].alive() || B.parties[id].ctx == nil {
			x.Failf("dependence/run-failed", "%s: party %d did not complete: %s", where, id, B.parties[id].outcome())
			return
		}
	}
	x.Case(where)
	sidDiffers := A.parties[k].ctx.SessionID() != B.parties[k].ctx.SessionID()
	changed := 0
	for _, j := range ids {
		if j == k {
			continue
		}
		contribDiffers := !bytes.Equal(contribution(A.wire[wkey(kR3U, k, j)]), contribution(B.wire[wkey(kR3U, k, j)]))
		if !contribDiffers && !sidDiffers {
			continue
		}
		changed++
		for _, end := range []struct{ at, peer sharing.ID }{{k, j}, {j, k}} {
			sa, sb := seed64(A.parties[end.at].ctx, end.peer), seed64(B.parties[end.at].ctx, end.peer)
			if sa == nil || sb == nil || bytes.Equal(sa, sb) {
				x.Failf("dependence/seed-unchanged", "%s: party %d's contribution towards %d changed (session id changed: %v), yet the pairwise seed held by %d for %d is unchanged - that contribution does not enter the seed", where, k, j, sidDiffers, end.at, end.peer)
			}
		}
	}
	x.Observe(cut, total, changed, sidDiffers)
}

// contribution extracts the pairwise contribution (not its commitment witness) from an encoded Round3P2P.
func contribution(raw []byte) []byte {
	tr, err := cbor.Parse(raw)
	if err != nil {
		panic(engine.HarnessError{Msg: "Round3P2P does not parse: " + err.Error()})
	}
	for _, l := range cbor.Leaves(tr) {
		if strings.HasSuffix(l.Path, ">PairwiseContribution") || strings.HasSuffix(l.Path, ">pairwiseContribution") {
			return l.Node.Data
		}
	}
	panic(engine.HarnessError{Msg: "Round3P2P has no PairwiseContribution leaf: " + tr.String()})
}
