// Package memedit rewrites a byte pattern wherever it occurs in an object graph (exported and unexported fields alike).
// C04 uses it for the "believing" deviator: a party that alters a value in an outgoing message AND in its own memory,
// so that everything it computes later is consistent with the altered value (an adaptive deviation that replaying
// recorded messages cannot express).
package memedit

import (
	"bytes"
	"reflect"
	"unsafe"
)

// Result of one Replace.
type Result struct {
	Replaced    int // occurrences overwritten in place ([]byte and addressable [N]byte values)
	Unpatchable int // occurrences seen but not writable (strings, arrays inside non-addressable values)
	Visited     int // objects visited
}

type visitKey struct {
	p uintptr
	t reflect.Type
}

type walker struct {
	old, new []byte
	seen     map[visitKey]bool
	res      Result
	budget   int
}

// Replace overwrites every []byte / [N]byte of len(old) that equals old by new, in everything reachable from roots.
// len(new) must equal len(old).
func Replace(roots []any, old, new []byte) Result {
	if len(old) != len(new) || len(old) == 0 {
		panic("memedit: pattern lengths differ or are zero")
	}
	w := &walker{old: old, new: new, seen: map[visitKey]bool{}, budget: 2_000_000}
	for _, r := range roots {
		if r != nil {
			w.walk(reflect.ValueOf(r), 0)
		}
	}
	return w.res
}

func (w *walker) mark(p uintptr, t reflect.Type) bool {
	k := visitKey{p, t}
	if w.seen[k] {
		return false
	}
	w.seen[k] = true
	w.res.Visited++
	return true
}

func (w *walker) match(p unsafe.Pointer) bool {
	return bytes.Equal(unsafe.Slice((*byte)(p), len(w.old)), w.old)
}

func (w *walker) walk(v reflect.Value, depth int) {
	if !v.IsValid() || depth > 64 || w.res.Visited > w.budget {
		return
	}
	switch v.Kind() {
	case reflect.Ptr:
		if v.IsNil() || !w.mark(v.Pointer(), v.Type()) {
			return
		}
		w.walk(v.Elem(), depth+1)
	case reflect.Interface:
		if !v.IsNil() {
			w.walk(v.Elem(), depth+1)
		}
	case reflect.Struct:
		for i := 0; i < v.NumField(); i++ {
			w.walk(v.Field(i), depth+1)
		}
	case reflect.Slice:
		if v.IsNil() || v.Len() == 0 {
			return
		}
		if v.Type().Elem().Kind() == reflect.Uint8 {
			if v.Len() == len(w.old) {
				p := unsafe.Pointer(v.Pointer())
				if w.match(p) {
					copy(unsafe.Slice((*byte)(p), len(w.new)), w.new)
					w.res.Replaced++
				}
			}
			return
		}
		if !composite(v.Type().Elem()) || !w.mark(v.Pointer(), v.Type()) {
			return
		}
		for i := 0; i < v.Len() && i < 1<<16; i++ {
			w.walk(v.Index(i), depth+1)
		}
	case reflect.Array:
		if v.Type().Elem().Kind() == reflect.Uint8 {
			if v.Len() != len(w.old) {
				return
			}
			if v.CanAddr() {
				p := unsafe.Pointer(v.UnsafeAddr())
				if w.match(p) {
					copy(unsafe.Slice((*byte)(p), len(w.new)), w.new)
					w.res.Replaced++
				}
				return
			}
			eq := true
			for i := 0; i < v.Len() && eq; i++ {
				eq = byte(v.Index(i).Uint()) == w.old[i]
			}
			if eq {
				w.res.Unpatchable++
			}
			return
		}
		if !composite(v.Type().Elem()) {
			return
		}
		for i := 0; i < v.Len(); i++ {
			w.walk(v.Index(i), depth+1)
		}
	case reflect.Map:
		if v.IsNil() || !w.mark(v.Pointer(), v.Type()) {
			return
		}
		et := v.Type().Elem()
		it := v.MapRange()
		for it.Next() {
			val := it.Value()
			if et.Kind() == reflect.Array && et.Elem().Kind() == reflect.Uint8 && et.Len() == len(w.old) {
				// a byte array stored by value in a map: rewrite the entry
				eq := true
				for i := 0; i < val.Len() && eq; i++ {
					eq = byte(val.Index(i).Uint()) == w.old[i]
				}
				if eq {
					nv := reflect.New(et).Elem()
					reflect.Copy(nv, reflect.ValueOf(w.new))
					if m := settable(v); m.IsValid() {
						m.SetMapIndex(settableKey(it.Key()), nv)
						w.res.Replaced++
					} else {
						w.res.Unpatchable++
					}
				}
				continue
			}
			w.walk(it.Key(), depth+1)
			w.walk(val, depth+1)
		}
	case reflect.String:
		if v.Len() == len(w.old) && v.String() == string(w.old) {
			w.res.Unpatchable++
		}
	}
}

func composite(t reflect.Type) bool {
	switch t.Kind() {
	case reflect.Ptr, reflect.Interface, reflect.Struct, reflect.Slice, reflect.Array, reflect.Map, reflect.String:
		return true
	}
	return false
}

// settable returns a writable view of a map value reached through unexported fields (invalid when not addressable).
func settable(m reflect.Value) reflect.Value {
	if m.CanSet() {
		return m
	}
	if m.CanAddr() {
		return reflect.NewAt(m.Type(), unsafe.Pointer(m.UnsafeAddr())).Elem()
	}
	return reflect.Value{}
}

// settableKey strips the read-only flag from a key obtained through unexported fields (keys are copied by value).
func settableKey(k reflect.Value) reflect.Value {
	if k.CanInterface() {
		return k
	}
	nk := reflect.New(k.Type()).Elem()
	switch k.Kind() {
	case reflect.Uint, reflect.Uint8, reflect.Uint16, reflect.Uint32, reflect.Uint64:
		nk.SetUint(k.Uint())
	case reflect.Int, reflect.Int8, reflect.Int16, reflect.Int32, reflect.Int64:
		nk.SetInt(k.Int())
	case reflect.String:
		nk.SetString(k.String())
	default:
		return k
	}
	return nk
}
