// C17 — big-number and modular arithmetic return the mathematically correct value.
//
// Space: an operation table over numct.Nat/Int/Modulus, num.N/NPlus/Z/Q/Zn, modular, crt, znstar, nt.Jacobi,
// cardinal x all operand tuples over the boundary alphabet V (0..3, 2^k-1, 2^k, 2^k+1, a 2048-bit odd, small
// primes, Carmichael 561, p*q, p^2, even moduli; negatives for signed types) x announced-capacity shapes
// (truncating, exact, +1, +64) x output capacities x aliasing patterns; modular sqrt over every residue class of
// every prime < 200 and listed composites; Jacobi over |a|<=60, odd n<60 plus V x V; prime-generation
// postconditions. Oracle: math/big throughout.
package c17

import (
	"fmt"
	"math/big"
	"sort"
	"sync"
	"testing"
	"time"

	"verifmc/engine"
)

func TestMain(m *testing.M) { engine.Main(m, "C17", "exploration") }

// ---------------------------------------------------------------------------------------------------------------
// alphabets

func bi(v int64) *big.Int { return big.NewInt(v) }

func pow2(k int) *big.Int { return new(big.Int).Lsh(bi(1), uint(k)) }

func hexOf(v *big.Int) string {
	if v == nil {
		return "<nil>"
	}
	s := v.Text(16)
	if len(s) > 40 {
		return fmt.Sprintf("%s..%s(%db)", s[:12], s[len(s)-12:], v.BitLen())
	}
	return s
}

var (
	p64a         = new(big.Int).Sub(pow2(64), bi(59))  // largest prime below 2^64
	p64b         = new(big.Int).Sub(pow2(64), bi(83))  // next one
	p25519       = new(big.Int).Sub(pow2(255), bi(19)) // 2^255-19
	big2048      = new(big.Int).Sub(pow2(2048), bi(12345))
	big4096      = new(big.Int).Sub(pow2(4096), bi(54321))
	k256P, _     = new(big.Int).SetString("fffffffffffffffffffffffffffffffffffffffffffffffffffffffefffffc2f", 16)
	bls12381R, _ = new(big.Int).SetString("73eda753299d7d483339d80809a1d80553bda402fffe5bfeffffffff00000001", 16)
	pallasP, _   = new(big.Int).SetString("40000000000000000000000000000000224698fc094cf91b992d30ed00000001", 16)
)

func allKs() []int {
	if engine.Thorough() {
		return []int{8, 16, 31, 32, 33, 63, 64, 65, 127, 128, 129, 255, 256, 257, 511, 512, 1023, 1024, 2047, 2048}
	}
	return []int{8, 63, 64, 65, 128, 256, 1024}
}

func dedupSort(vs []*big.Int) []*big.Int {
	sort.Slice(vs, func(i, j int) bool { return vs[i].Cmp(vs[j]) < 0 })
	out := vs[:0]
	for i, v := range vs {
		if i == 0 || v.Cmp(vs[i-1]) != 0 {
			out = append(out, v)
		}
	}
	return out
}

// natV is the operand alphabet V of the design (naturals).
func natV() []*big.Int {
	vs := []*big.Int{bi(0), bi(1), bi(2), bi(3), bi(5), bi(7), bi(59), bi(561),
		bi(59 * 61), bi(59 * 59), bi(6), bi(118), new(big.Int).Mul(pow2(64), bi(3)),
		new(big.Int).Mul(p64a, p64b), new(big.Int).Mul(p64a, p64a), p64a, big2048}
	if engine.Thorough() {
		vs = append(vs, big4096, bi(4), bi(9), bi(15), bi(255*257), p25519, bls12381R)
	}
	for _, k := range allKs() {
		vs = append(vs, new(big.Int).Sub(pow2(k), bi(1)), pow2(k), new(big.Int).Add(pow2(k), bi(1)))
	}
	return dedupSort(vs)
}

// natVsmall is a reduced alphabet used where a third operand multiplies the space (exponents, second residues).
func natVsmall() []*big.Int {
	vs := []*big.Int{bi(0), bi(1), bi(2), bi(3), bi(7), bi(59), bi(561), bi(255), bi(256), bi(257),
		new(big.Int).Sub(pow2(64), bi(1)), pow2(64), new(big.Int).Add(pow2(64), bi(1)), p64a,
		new(big.Int).Add(pow2(256), bi(1)), new(big.Int).Sub(pow2(1024), bi(1))}
	if engine.Thorough() {
		vs = append(vs, new(big.Int).Sub(pow2(127), bi(1)), pow2(128), big2048)
	}
	return dedupSort(vs)
}

// intV is V with negatives.
func intV() []*big.Int {
	var vs []*big.Int
	for _, v := range natV() {
		vs = append(vs, v)
		if v.Sign() != 0 {
			vs = append(vs, new(big.Int).Neg(v))
		}
	}
	sort.Slice(vs, func(i, j int) bool { return vs[i].Cmp(vs[j]) < 0 })
	return vs
}

// signed returns the alphabet with the negatives of its non-zero members added.
func signed(vs []*big.Int) []*big.Int {
	var out []*big.Int
	for _, v := range vs {
		out = append(out, v)
		if v.Sign() != 0 {
			out = append(out, new(big.Int).Neg(v))
		}
	}
	sort.Slice(out, func(i, j int) bool { return out[i].Cmp(out[j]) < 0 })
	return out
}

// moduli is the modulus alphabet: every non-zero member of V (1, 2, even, odd, prime, composite, powers of two).
func moduliV() []*big.Int {
	var out []*big.Int
	for _, v := range natV() {
		if v.Sign() > 0 {
			out = append(out, v)
		}
	}
	out = append(out, p25519, bi(4), bi(9), bi(15))
	return dedupSort(out)
}

func mod2k(v *big.Int, k int) *big.Int {
	if k <= 0 {
		return bi(0)
	}
	m := new(big.Int).Sub(pow2(k), bi(1))
	r := new(big.Int).And(new(big.Int).Mod(v, pow2(k)), m)
	return r
}

// shape is one way of presenting a natural to the library: the value handed to the constructor, the announced
// capacity, and the value the resulting number must have (orig mod 2^cap).
type shape struct {
	orig *big.Int
	cap  int
	val  *big.Int
	kind string // exact | +1 | +64 | trunc
}

func (s shape) String() string { return fmt.Sprintf("%s@%d(%s)", hexOf(s.val), s.cap, s.kind) }

func shapesOf(v *big.Int) []shape {
	l := v.BitLen()
	out := []shape{{v, l, v, "exact"}, {v, l + 1, v, "+1"}, {v, l + 64, v, "+64"}}
	if l >= 2 {
		out = append(out, shape{v, l - 1, mod2k(v, l-1), "trunc"})
	}
	return out
}

func exactShape(v *big.Int) shape { return shape{v, v.BitLen(), v, "exact"} }

// guard runs f and converts a panic into a failure with a specific key (so that it can be triaged / matched).
func guard(x *engine.X, key string, desc func() string, f func()) (ok bool) {
	defer func() {
		if r := recover(); r != nil {
			if he, isHE := r.(engine.HarnessError); isHE {
				panic(he)
			}
			failf(x, key+"/panic", "%s: panic: %v", desc(), r)
			ok = false
		}
	}()
	f()
	return true
}

// guardKey is guard with the complete key given by the caller.
func guardKey(x *engine.X, key string, desc func() string, f func()) (ok bool) {
	defer func() {
		if r := recover(); r != nil {
			if he, isHE := r.(engine.HarnessError); isHE {
				panic(he)
			}
			failf(x, key, "%s: panic: %v", desc(), r)
			ok = false
		}
	}()
	f()
	return true
}

// baseName strips a parameter list from an operation label so that failure keys stay stable.
func baseName(op string) string {
	for i, c := range op {
		if c == '(' {
			return op[:i]
		}
	}
	return op
}

func isPrime(v *big.Int) bool { return v.ProbablyPrime(32) }

func init() {
	for _, p := range []*big.Int{p64a, p64b, p25519, k256P, bls12381R, pallasP} {
		if !p.ProbablyPrime(64) {
			panic(engine.HarnessError{Msg: "harness constant is not prime: " + p.String()})
		}
	}
}

func TestCheck(t *testing.T) {
	engine.Rule("operation table x every operand tuple over the boundary alphabet V={0,1,2,3,5,7,59,561,59*61,59^2,6,118,3*2^64,p64a*p64b,p64a^2,p64a,2^2048-12345} u {2^k-1,2^k,2^k+1 : k in K} (K={8,63,64,65,128,256,1024} quick; K={8,16,31,32,33,63,64,65,127,128,129,255,256,257,511,512,1023,1024,2047,2048} and 7 more values incl. a 4096-bit odd in thorough; negatives added for signed types) x operand capacity shape {exact,+1,+64,truncating} x output capacity {-1,need-1,need,need+1,need+64} x aliasing {distinct,out=lhs,out=rhs,lhs=rhs,all equal}; output pre-state {fresh, junk, result of a reduction by another modulus}; modular sqrt: every residue class (and its +m lift) of every prime<200 (2000 thorough), of 2, and of {4,6,8,9,15,21,35,49,77,561} (every composite<200 thorough) plus a boundary alphabet modulo 10 large primes; Jacobi: every |a|<=60 x odd n<60 (500 thorough) plus V± x (V without 0); modular/crt/znstar: every residue (pair) for the small moduli (N<=300 / N^2<=1300 thorough, CRT products<=4000, unit groups of 35,143,323,1225), boundary alphabets for 64..2048-bit ones; prime generation: bit lengths {16,17,20,32,33,64,128,256} (+{24,63,65,100,512} thorough) x forms {plain,blum,safe,pair,blum-pair,safe-pair,random-range} x 2 seeds. A case is distinct by (op, operands, shapes, capacity, alias) and non-trivial when the library call returned and was compared with math/big.")
	engine.Assume("math/big is correct", "purego build of the library (saferith back end); the cgo/BoringSSL back end is not decided", "operands outside the alphabets are not explored", "prime generation is a randomized search: only the postcondition of what it returns for 2 fixed seeds per shape is decided")

	q, th := 3*time.Minute, 30*time.Minute
	mf := 1 << 20 // keep sections exhaustive even when a defect fails on many cases
	engine.Explore(jacobiBody(), engine.Opts{Name: "jacobi", Budget: engine.Budget(q, th), MaxFails: mf})
	engine.Explore(natBinaryBody(), engine.Opts{Name: "numct/nat/binary", Budget: engine.Budget(q, th), MaxFails: mf})
	engine.Explore(natUnaryBody(), engine.Opts{Name: "numct/nat/unary", Budget: engine.Budget(q, th), MaxFails: mf})
	engine.Explore(intBinaryBody(), engine.Opts{Name: "numct/int/binary", Budget: engine.Budget(q, th), MaxFails: mf})
	engine.Explore(intUnaryBody(), engine.Opts{Name: "numct/int/unary", Budget: engine.Budget(q, th), MaxFails: mf})
	engine.Explore(modulusBody(), engine.Opts{Name: "numct/modulus", Budget: engine.Budget(q, th), MaxFails: mf})
	engine.Explore(modSqrtBody(), engine.Opts{Name: "modsqrt", Budget: engine.Budget(q, th), MaxFails: mf})
	engine.Explore(numBody(), engine.Opts{Name: "num/n-nplus-z", Budget: engine.Budget(q, th), MaxFails: mf})
	engine.Explore(ratBody(), engine.Opts{Name: "num/q", Budget: engine.Budget(q, th), MaxFails: mf})
	engine.Explore(znBody(), engine.Opts{Name: "num/zn", Budget: engine.Budget(q, th), MaxFails: mf})
	engine.Explore(modularBody(), engine.Opts{Name: "modular", Budget: engine.Budget(q, th), MaxFails: mf})
	engine.Explore(crtBody(), engine.Opts{Name: "crt", Budget: engine.Budget(q, th), MaxFails: mf})
	engine.Explore(znstarBody(), engine.Opts{Name: "znstar", Budget: engine.Budget(q, th), MaxFails: mf})
	engine.Explore(cardinalBody(), engine.Opts{Name: "cardinal", Budget: engine.Budget(q, th), MaxFails: mf})
	engine.Explore(primesBody(), engine.Opts{Name: "primes", Budget: engine.Budget(q, th), MaxFails: mf, Workers: 4})
	printKeyHistogram()
}

// ---------------------------------------------------------------------------------------------------------------
// failure bookkeeping: every failure goes through failf so that the run prints a per-key histogram with one example
// (the engine reports at most 10 violations per section).

var (
	keyMu      sync.Mutex
	keyCount   = map[string]int{}
	keyExample = map[string]string{}
)

func failf(x *engine.X, key, format string, a ...any) {
	keyMu.Lock()
	keyCount[key]++
	if _, ok := keyExample[key]; !ok {
		keyExample[key] = fmt.Sprintf(format, a...)
	}
	keyMu.Unlock()
	x.Failf(key, format, a...)
}

func printKeyHistogram() {
	keyMu.Lock()
	defer keyMu.Unlock()
	keys := make([]string, 0, len(keyCount))
	for k := range keyCount {
		keys = append(keys, k)
	}
	sort.Strings(keys)
	for _, k := range keys {
		ex := keyExample[k]
		if len(ex) > 400 {
			ex = ex[:400] + "…"
		}
		fmt.Printf("[C17] failing-key %-48s n=%-7d e.g. %s\n", k, keyCount[k], ex)
	}
}
