package c17

import (
	"fmt"
	"math/big"

	"github.com/bronlabs/bron-crypto/pkg/base/nt/num"
	"github.com/bronlabs/bron-crypto/pkg/base/nt/numct"

	"verifmc/engine"
)

// ---------------------------------------------------------------------------------------------------------------
// Q: every pair of fractions a/b with a in a signed numerator alphabet and b in a denominator alphabet (non-reduced
// fractions included), against math/big.Rat.

func ratAlphabet() (nums, dens []*big.Int) {
	nums = signed([]*big.Int{bi(0), bi(1), bi(2), bi(3), bi(6), bi(59), bi(561), new(big.Int).Sub(pow2(64), bi(1)), new(big.Int).Add(pow2(64), bi(1)), pow2(128), new(big.Int).Sub(pow2(256), bi(1))})
	dens = []*big.Int{bi(1), bi(2), bi(3), bi(6), bi(59), pow2(64), new(big.Int).Add(pow2(64), bi(1)), new(big.Int).Sub(pow2(128), bi(1))}
	if engine.Thorough() {
		nums = signed(append(nums, bi(7), bi(118), new(big.Int).Add(pow2(1024), bi(1))))
		dens = append(dens, bi(7), bi(561), new(big.Int).Sub(pow2(256), bi(1)))
	}
	return nums, dens
}

func mkRat(a, b *big.Int) *num.Rat {
	r, err := num.Q().New(mustZ(a), mustNP(b))
	if err != nil {
		panic(engine.HarnessError{Msg: "Q.New: " + err.Error()})
	}
	return r
}

func showRat(a, b *big.Int) string { return show(a) + "/" + show(b) }

func eqRat(x *engine.X, key string, desc func() string, got *num.Rat, want *big.Rat) {
	x.Case("")
	if got == nil {
		failf(x, key, "%s returned nil", desc())
		return
	}
	if g := got.Big(); g.Cmp(want) != 0 {
		failf(x, key, "%s = %s, want %s", desc(), g.String(), want.String())
		return
	}
	if got.IsZero() != (want.Sign() == 0) || got.IsNegative() != (want.Sign() < 0) || got.IsPositive() != (want.Sign() > 0) {
		k := key + "/sign"
		if want.Sign() == 0 {
			k = "int/negative-zero"
		}
		failf(x, k, "%s: value %s but IsZero=%v IsNegative=%v IsPositive=%v", desc(), want.String(), got.IsZero(), got.IsNegative(), got.IsPositive())
	}
	if got.Denominator().Big().Sign() <= 0 {
		failf(x, key+"/denominator", "%s: denominator %s", desc(), show(got.Denominator().Big()))
	}
}

func ratBody() func(*engine.X) {
	nums, dens := ratAlphabet()
	return func(x *engine.X) {
		an := nums[x.Choose("a.num", len(nums))]
		ad := dens[x.Choose("a.den", len(dens))]
		ar := new(big.Rat).SetFrac(an, ad)
		da := func(op string) func() string {
			return func() string { return fmt.Sprintf("Rat(%s).%s", showRat(an, ad), op) }
		}
		// unary
		guard(x, "num/q/unary", da("unary"), func() {
			a := mkRat(an, ad)
			eqRat(x, "num/q/New", da("Big"), a, ar)
			eqRat(x, "num/q/Neg", da("Neg"), a.Neg(), new(big.Rat).Neg(ar))
			eqRat(x, "num/q/Double", da("Double"), a.Double(), new(big.Rat).Add(ar, ar))
			eqRat(x, "num/q/Square", da("Square"), a.Square(), new(big.Rat).Mul(ar, ar))
			eqRat(x, "num/q/Clone", da("Clone"), a.Clone(), ar)
			c := a.Canonical()
			eqRat(x, "num/q/Canonical", da("Canonical"), c, ar)
			x.Case("")
			if c.Numerator().Big().Cmp(ar.Num()) != 0 || c.Denominator().Big().Cmp(ar.Denom()) != 0 {
				failf(x, "num/q/Canonical/lowest-terms", "%s = %s/%s, lowest terms are %s", da("Canonical")(), show(c.Numerator().Big()), show(c.Denominator().Big()), ar.String())
			}
			eqBool(x, "num/q/IsInt", da("IsInt"), a.IsInt(), ar.IsInt())
			eqBool(x, "num/q/IsOne", da("IsOne"), a.IsOne(), ar.Cmp(big.NewRat(1, 1)) == 0)
			eqBool(x, "num/q/IsProbablyPrime", da("IsProbablyPrime"), a.IsProbablyPrime(), ar.IsInt() && ar.Num().Sign() > 0 && isPrime(ar.Num()))
			inv, err := a.TryInv()
			eqBool(x, "num/q/TryInv/defined", da("TryInv ok"), err == nil, ar.Sign() != 0)
			if err == nil && ar.Sign() != 0 {
				eqRat(x, "num/q/TryInv", da("TryInv"), inv, new(big.Rat).Inv(ar))
			}
			fl, err := a.Floor()
			wf := new(big.Int).Div(an, ad) // Euclidean division by a positive denominator = floor
			if err != nil {
				failf(x, "num/q/Floor", "%s: %v", da("Floor")(), err)
			} else {
				eqInt(x, "num/q/Floor", da("Floor"), fl, wf)
			}
			ce, err := a.Ceil()
			wc := new(big.Int).Set(wf)
			if new(big.Int).Mod(an, ad).Sign() != 0 {
				wc.Add(wc, bi(1))
			}
			if err != nil {
				failf(x, "num/q/Ceil", "%s: %v", da("Ceil")(), err)
			} else {
				eqInt(x, "num/q/Ceil", da("Ceil"), ce, wc)
			}
			zi, err := num.Z().FromRat(a)
			eqBool(x, "num/q/Z.FromRat/defined", da("Z.FromRat ok"), err == nil, ar.IsInt())
			if err == nil && ar.IsInt() {
				eqInt(x, "num/q/Z.FromRat", da("Z.FromRat"), zi, ar.Num())
			}
			fr, err := num.Q().FromBigRat(ar)
			if err != nil {
				failf(x, "num/q/FromBigRat", "Q.FromBigRat(%s): %v", ar, err)
			} else {
				eqRat(x, "num/q/FromBigRat", da("FromBigRat"), fr, ar)
			}
		})
		for _, bn := range nums {
			for _, bd := range dens {
				br := new(big.Rat).SetFrac(bn, bd)
				d := func(op string) func() string {
					return func() string { return fmt.Sprintf("Rat(%s).%s(%s)", showRat(an, ad), op, showRat(bn, bd)) }
				}
				guard(x, "num/q/pair", d("pair"), func() {
					a, b := mkRat(an, ad), mkRat(bn, bd)
					eqRat(x, "num/q/Add", d("Add"), a.Add(b), new(big.Rat).Add(ar, br))
					eqRat(x, "num/q/Sub", d("Sub"), a.Sub(b), new(big.Rat).Sub(ar, br))
					eqRat(x, "num/q/Mul", d("Mul"), a.Mul(b), new(big.Rat).Mul(ar, br))
					q, err := a.TryDiv(b)
					eqBool(x, "num/q/TryDiv/defined", d("TryDiv ok"), err == nil, br.Sign() != 0)
					if err == nil && br.Sign() != 0 {
						eqRat(x, "num/q/TryDiv", d("TryDiv"), q, new(big.Rat).Quo(ar, br))
					}
					c := ar.Cmp(br)
					eqBool(x, "num/q/Equal", d("Equal"), a.Equal(b), c == 0)
					eqBool(x, "num/q/IsLessThanOrEqual", d("IsLessThanOrEqual"), a.IsLessThanOrEqual(b), c <= 0)
				})
			}
		}
		x.Observe(an.Sign(), an.BitLen(), ad.BitLen())
	}
}

// ---------------------------------------------------------------------------------------------------------------
// Z/nZ: num.ZMod / num.Uint for every modulus of the modulus alphabet

func znBody() func(*engine.X) {
	M := moduliV()
	V := natV()
	E := natVsmall()
	return func(x *engine.X) {
		mv := M[x.Choose("m", len(M))]
		group := x.Choose("group", 2)
		one := bi(1)
		var zn *num.ZMod
		if !guard(x, "num/zn/setup", func() string { return "NewZMod " + show(mv) }, func() {
			var err error
			zn, err = num.NewZMod(mustNP(mv))
			if err != nil {
				panic(err)
			}
		}) {
			return
		}
		el := func(v *big.Int) *num.Uint {
			u, err := zn.FromBig(v)
			if err != nil {
				panic(engine.HarnessError{Msg: "ZMod.FromBig: " + err.Error()})
			}
			return u
		}
		red := func(v *big.Int) *big.Int { return new(big.Int).Mod(v, mv) }
		if group == 0 {
			// construction / conversions / unary, operands from V± (reduced by the constructor)
			for _, v := range intV() {
				r := red(v)
				d := func(op string) func() string {
					return func() string { return fmt.Sprintf("ZMod(%s).el(%s).%s", show(mv), show(v), op) }
				}
				guard(x, "num/zn/unary", d("unary"), func() {
					u := el(v)
					eqBig(x, "num/zn/FromBig", d("Big"), u, r)
					eqBig(x, "num/zn/Neg", d("Neg"), u.Neg(), red(new(big.Int).Neg(v)))
					eqBig(x, "num/zn/Double", d("Double"), u.Double(), red(new(big.Int).Lsh(r, 1)))
					eqBig(x, "num/zn/Square", d("Square"), u.Square(), red(new(big.Int).Mul(r, r)))
					eqBig(x, "num/zn/Increment", d("Increment"), u.Increment(), red(new(big.Int).Add(r, one)))
					eqBig(x, "num/zn/Decrement", d("Decrement"), u.Decrement(), red(new(big.Int).Sub(r, one)))
					eqBig(x, "num/zn/Lift", d("Lift"), u.Lift(), r)
					eqBig(x, "num/zn/Nat", d("Nat"), u.Nat(), r)
					eqBig(x, "num/zn/Modulus", d("Modulus"), u.Modulus(), mv)
					eqBool(x, "num/zn/IsZero", d("IsZero"), u.IsZero(), r.Sign() == 0)
					eqBool(x, "num/zn/IsOne", d("IsOne"), u.IsOne(), r.Cmp(one) == 0)
					eqBool(x, "num/zn/IsTop", d("IsTop"), u.IsTop(), r.Cmp(new(big.Int).Sub(mv, one)) == 0)
					eqBool(x, "num/zn/IsEven", d("IsEven"), u.IsEven(), r.Bit(0) == 0)
					g := new(big.Int).GCD(nil, nil, r, mv)
					unit := g.Cmp(one) == 0
					if mv.Cmp(one) != 0 {
						eqBool(x, "num/zn/IsUnit", d("IsUnit"), u.IsUnit(), unit)
						inv, err := u.TryInv()
						eqBool(x, "num/zn/TryInv/defined", d("TryInv ok"), err == nil, unit)
						if err == nil && unit {
							eqBig(x, "num/zn/TryInv", d("TryInv"), inv, new(big.Int).ModInverse(r, mv))
						}
					}
					// symmetric representative and the sign predicate that goes with it: negative iff 2r >= m
					sym := new(big.Int).Set(r)
					if new(big.Int).Lsh(r, 1).Cmp(mv) >= 0 {
						sym.Sub(sym, mv)
					}
					s, err := num.Z().FromUintSymmetric(u)
					if err != nil {
						failf(x, "num/zn/FromUintSymmetric", "%s: %v", d("FromUintSymmetric")(), err)
					} else {
						x.Case("")
						if s.Big().Cmp(sym) != 0 {
							failf(x, "num/zn/FromUintSymmetric", "%s = %s, want %s", d("FromUintSymmetric")(), show(s.Big()), show(sym))
						}
					}
					x.Case("")
					if got := u.IsNegative(); got != (sym.Sign() < 0) {
						k := "num/zn/IsNegative"
						if r.Cmp(new(big.Int).Rsh(new(big.Int).Add(mv, one), 1)) == 0 {
							k = "zn/isnegative/midpoint" // r = ceil(m/2): documented range [-m/2, m/2) makes it negative
						}
						failf(x, k, "%s = %v but the representative in [-m/2, m/2) is %s", d("IsNegative")(), got, show(sym))
					}
					for _, sh := range []uint{0, 1, 8, 64, uint(mv.BitLen())} {
						eqBig(x, "num/zn/Lsh", func() string { return fmt.Sprintf("ZMod(%s).el(%s).Lsh(%d)", show(mv), show(v), sh) }, u.Lsh(sh), red(new(big.Int).Lsh(r, sh)))
						eqBig(x, "num/zn/Rsh", func() string { return fmt.Sprintf("ZMod(%s).el(%s).Rsh(%d)", show(mv), show(v), sh) }, u.Rsh(sh), red(new(big.Int).Rsh(r, sh)))
					}
					// range-checked constructors
					if v.Sign() >= 0 {
						_, err := zn.FromBytes(v.Bytes())
						if len(v.Bytes()) > 0 {
							eqBool(x, "num/zn/FromBytes/range", d("FromBytes ok"), err == nil, v.Cmp(mv) < 0)
						}
						rb, err := zn.FromBytesBEReduce(append([]byte{0}, v.Bytes()...))
						if err != nil {
							failf(x, "num/zn/FromBytesBEReduce", "%s: %v", d("FromBytesBEReduce")(), err)
						} else {
							eqBig(x, "num/zn/FromBytesBEReduce", d("FromBytesBEReduce"), rb, r)
						}
						_, err = num.NewUintGivenModulus(numct.NewNatFromBig(v, v.BitLen()), zn.ModulusCT())
						eqBool(x, "num/zn/NewUintGivenModulus/range", d("NewUintGivenModulus ok"), err == nil, v.Cmp(mv) < 0)
						eqBool(x, "num/zn/IsInRange", d("IsInRange"), zn.IsInRange(mustN(v)), v.Cmp(mv) < 0)
					}
				})
			}
			guard(x, "num/zn/consts", func() string { return "ZMod consts " + show(mv) }, func() {
				eqBig(x, "num/zn/Zero", func() string { return "Zero" }, zn.Zero(), bi(0))
				if mv.Cmp(one) > 0 { // Z/1Z is the zero ring: no statement about its constants
					eqBig(x, "num/zn/One", func() string { return fmt.Sprintf("ZMod(%s).One", show(mv)) }, zn.One(), red(one))
					eqBig(x, "num/zn/Top", func() string { return fmt.Sprintf("ZMod(%s).Top", show(mv)) }, zn.Top(), new(big.Int).Sub(mv, one))
				}
				eqBool(x, "num/zn/IsDomain", func() string { return fmt.Sprintf("ZMod(%s).IsDomain", show(mv)) }, zn.IsDomain(), isPrime(mv))
				eqBig(x, "num/zn/Order", func() string { return "Order" }, zn.Order(), mv)
			})
		} else {
			// binary operations and exponentiation
			for _, av := range V {
				ra := red(av)
				for _, bv := range V {
					rb := red(bv)
					d := func(op string) func() string {
						return func() string {
							return fmt.Sprintf("ZMod(%s): el(%s).%s(el(%s))", show(mv), show(av), op, show(bv))
						}
					}
					guard(x, "num/zn/pair", d("pair"), func() {
						a, b := el(av), el(bv)
						eqBig(x, "num/zn/Add", d("Add"), a.Add(b), red(new(big.Int).Add(ra, rb)))
						eqBig(x, "num/zn/Sub", d("Sub"), a.Sub(b), red(new(big.Int).Sub(ra, rb)))
						eqBig(x, "num/zn/Mul", d("Mul"), a.Mul(b), red(new(big.Int).Mul(ra, rb)))
						c := ra.Cmp(rb)
						x.Case("")
						if int(a.Compare(b)) != sgn(c) {
							failf(x, "num/zn/Compare", "%s = %d, want %d", d("Compare")(), a.Compare(b), c)
						}
						eqBool(x, "num/zn/Equal", d("Equal"), a.Equal(b), c == 0)
						eqBool(x, "num/zn/IsLessThanOrEqual", d("IsLessThanOrEqual"), a.IsLessThanOrEqual(b), c <= 0)
						eqBool(x, "num/zn/Coprime", d("Coprime"), a.Coprime(b), new(big.Int).GCD(nil, nil, ra, rb).Cmp(one) == 0)
						if mv.Cmp(one) != 0 {
							g := new(big.Int).GCD(nil, nil, rb, mv)
							q, err := a.TryDiv(b)
							switch {
							case g.Cmp(one) == 0:
								if err != nil {
									failf(x, "num/zn/TryDiv/defined", "%s failed for a unit divisor: %v", d("TryDiv")(), err)
								} else {
									eqBig(x, "num/zn/TryDiv", d("TryDiv"), q, red(new(big.Int).Mul(ra, new(big.Int).ModInverse(rb, mv))))
								}
							case mv.Bit(0) == 1:
								if err == nil {
									failf(x, "num/zn/TryDiv/defined", "%s succeeded although gcd(divisor, m) = %s", d("TryDiv")(), show(g))
								}
							default:
								if err == nil { // even modulus: a solution of u*b = a is accepted
									u := q.Big()
									if u.Cmp(mv) >= 0 || red(new(big.Int).Sub(new(big.Int).Mul(u, rb), ra)).Sign() != 0 {
										failf(x, "num/zn/TryDiv/even-nonunit", "%s returned %s which does not satisfy u*b = a", d("TryDiv")(), show(u))
									}
								}
							}
						}
						// ScalarMul by the unreduced natural
						eqBig(x, "num/zn/ScalarMul", d("ScalarMul"), a.ScalarMul(mustN(bv)), red(new(big.Int).Mul(ra, bv)))
					})
				}
				unit := new(big.Int).GCD(nil, nil, ra, mv).Cmp(one) == 0
				for _, ev := range E {
					d := func(op string) func() string {
						return func() string { return fmt.Sprintf("ZMod(%s): el(%s).%s(%s)", show(mv), show(av), op, show(ev)) }
					}
					guard(x, "num/zn/exp", d("Exp"), func() {
						a := el(av)
						eqBig(x, "num/zn/Exp", d("Exp"), a.Exp(mustN(ev)), new(big.Int).Exp(ra, ev, mv))
						eqBig(x, "num/zn/ExpI", d("ExpI"), a.ExpI(mustZ(ev)), new(big.Int).Exp(ra, ev, mv))
						if unit && ev.Sign() > 0 && mv.Cmp(one) != 0 {
							ne := new(big.Int).Neg(ev)
							eqBig(x, "num/zn/ExpI", d("ExpI(-)"), a.ExpI(mustZ(ne)), new(big.Int).Exp(ra, ne, mv))
						}
						// bounded: only the low `bits` bits of the exponent are used
						for _, bits := range []uint{1, 8, 64, uint(ev.BitLen()), uint(ev.BitLen() + 64)} {
							eb := mod2k(ev, int(bits))
							eqBig(x, "num/zn/ExpBounded", func() string { return d("ExpBounded")() + fmt.Sprintf(" bits=%d", bits) }, a.ExpBounded(mustN(ev), bits), new(big.Int).Exp(ra, eb, mv))
						}
					})
				}
			}
		}
		x.Observe(group, mv.BitLen(), mv.Bit(0), isPrime(mv))
	}
}
