// Package cbor is a small, lossless CBOR tree walker/encoder used by the fault-injection layers (C04, C08, C12).
//
// It parses a byte string into a tree that remembers every head exactly, descends into byte strings whose content
// is itself one complete well-formed CBOR map/array/tag (that is how echo-broadcast payloads, router envelopes and
// NIZK proof blobs expose their leaves), and re-encodes the tree with minimal-length heads. For canonically encoded
// input Encode(Parse(b)) == b, which every user asserts before mutating.
package cbor

import (
	"encoding/binary"
	"errors"
	"fmt"
	"sort"
	"strings"
)

// Kind of a node.
type Kind int

const (
	Uint Kind = iota
	Nint
	Bytes
	Text
	Array
	Map
	Tag
	Simple // simple values and floats: Arg holds the raw argument, Info the additional-information bits
)

// Node is one CBOR data item.
type Node struct {
	Kind     Kind
	Arg      uint64  // Uint/Nint value, Tag number, Simple argument
	Info     byte    // additional information of the head (Simple/floats only)
	Data     []byte  // Bytes / Text payload
	Items    []*Node // Array items; Map: k0,v0,k1,v1…; Tag: one item; embedded Bytes: one item
	Embedded bool    // Bytes whose content is one nested CBOR item (Items[0])
}

var errTrunc = errors.New("cbor: truncated")

// Parse parses exactly one item and requires that no bytes follow.
func Parse(b []byte) (*Node, error) {
	n, rest, err := parse(b, 0)
	if err != nil {
		return nil, err
	}
	if len(rest) != 0 {
		return nil, errors.New("cbor: trailing bytes")
	}
	return n, nil
}

func head(b []byte) (major byte, info byte, arg uint64, rest []byte, err error) {
	if len(b) == 0 {
		return 0, 0, 0, nil, errTrunc
	}
	major, info = b[0]>>5, b[0]&0x1f
	b = b[1:]
	switch {
	case info < 24:
		arg = uint64(info)
	case info == 24:
		if len(b) < 1 {
			return 0, 0, 0, nil, errTrunc
		}
		arg, b = uint64(b[0]), b[1:]
	case info == 25:
		if len(b) < 2 {
			return 0, 0, 0, nil, errTrunc
		}
		arg, b = uint64(binary.BigEndian.Uint16(b)), b[2:]
	case info == 26:
		if len(b) < 4 {
			return 0, 0, 0, nil, errTrunc
		}
		arg, b = uint64(binary.BigEndian.Uint32(b)), b[4:]
	case info == 27:
		if len(b) < 8 {
			return 0, 0, 0, nil, errTrunc
		}
		arg, b = binary.BigEndian.Uint64(b), b[8:]
	default:
		return 0, 0, 0, nil, errors.New("cbor: indefinite length / reserved head not supported")
	}
	return major, info, arg, b, nil
}

func parse(b []byte, depth int) (*Node, []byte, error) {
	if depth > 64 {
		return nil, nil, errors.New("cbor: too deep")
	}
	major, info, arg, rest, err := head(b)
	if err != nil {
		return nil, nil, err
	}
	switch major {
	case 0:
		return &Node{Kind: Uint, Arg: arg}, rest, nil
	case 1:
		return &Node{Kind: Nint, Arg: arg}, rest, nil
	case 2, 3:
		if uint64(len(rest)) < arg {
			return nil, nil, errTrunc
		}
		n := &Node{Kind: Bytes, Data: append([]byte{}, rest[:arg]...)}
		if major == 3 {
			n.Kind = Text
		} else if len(n.Data) >= 2 {
			// descend when the content is exactly one map/array/tag item and re-encodes to itself
			if m := n.Data[0] >> 5; m == 4 || m == 5 || m == 6 {
				if inner, r2, err := parse(n.Data, depth+1); err == nil && len(r2) == 0 && plausibleEmbedded(inner) {
					if string(Encode(inner)) == string(n.Data) {
						n.Embedded = true
						n.Items = []*Node{inner}
					}
				}
			}
		}
		return n, rest[arg:], nil
	case 4, 5:
		cnt := arg
		if major == 5 {
			cnt *= 2
		}
		if cnt > uint64(len(rest)) {
			return nil, nil, errTrunc
		}
		n := &Node{Kind: Array}
		if major == 5 {
			n.Kind = Map
		}
		for i := uint64(0); i < cnt; i++ {
			var it *Node
			it, rest, err = parse(rest, depth+1)
			if err != nil {
				return nil, nil, err
			}
			n.Items = append(n.Items, it)
		}
		return n, rest, nil
	case 6:
		it, rest, err := parse(rest, depth+1)
		if err != nil {
			return nil, nil, err
		}
		return &Node{Kind: Tag, Arg: arg, Items: []*Node{it}}, rest, nil
	default:
		return &Node{Kind: Simple, Arg: arg, Info: info}, rest, nil
	}
}

// plausibleEmbedded keeps random byte strings (scalars, digests) that happen to parse as CBOR from being
// mistaken for nested encodings: the library's nested blobs are structs, i.e. non-empty maps with text keys,
// possibly under a tag or in an array.
func plausibleEmbedded(n *Node) bool {
	switch n.Kind {
	case Map:
		if len(n.Items) == 0 {
			return false
		}
		for i := 0; i+1 < len(n.Items); i += 2 {
			if n.Items[i].Kind != Text || len(n.Items[i].Data) == 0 {
				return false
			}
			for _, c := range n.Items[i].Data {
				if c < 0x20 || c > 0x7e {
					return false
				}
			}
		}
		return true
	case Tag:
		return plausibleEmbedded(n.Items[0])
	case Array:
		if len(n.Items) == 0 {
			return false
		}
		for _, it := range n.Items {
			if !plausibleEmbedded(it) {
				return false
			}
		}
		return true
	}
	return false
}

func putHead(out []byte, major byte, arg uint64) []byte {
	m := major << 5
	switch {
	case arg < 24:
		return append(out, m|byte(arg))
	case arg <= 0xff:
		return append(out, m|24, byte(arg))
	case arg <= 0xffff:
		return binary.BigEndian.AppendUint16(append(out, m|25), uint16(arg))
	case arg <= 0xffffffff:
		return binary.BigEndian.AppendUint32(append(out, m|26), uint32(arg))
	default:
		return binary.BigEndian.AppendUint64(append(out, m|27), arg)
	}
}

// Encode re-encodes the tree with minimal-length heads (map entries stay in their current order).
func Encode(n *Node) []byte { return encode(nil, n) }

func encode(out []byte, n *Node) []byte {
	switch n.Kind {
	case Uint:
		return putHead(out, 0, n.Arg)
	case Nint:
		return putHead(out, 1, n.Arg)
	case Bytes:
		d := n.Data
		if n.Embedded {
			d = Encode(n.Items[0])
		}
		return append(putHead(out, 2, uint64(len(d))), d...)
	case Text:
		return append(putHead(out, 3, uint64(len(n.Data))), n.Data...)
	case Array:
		out = putHead(out, 4, uint64(len(n.Items)))
		for _, it := range n.Items {
			out = encode(out, it)
		}
		return out
	case Map:
		out = putHead(out, 5, uint64(len(n.Items)/2))
		for _, it := range n.Items {
			out = encode(out, it)
		}
		return out
	case Tag:
		return encode(putHead(out, 6, n.Arg), n.Items[0])
	default:
		switch n.Info {
		case 24:
			return append(out, 7<<5|24, byte(n.Arg))
		case 25:
			return binary.BigEndian.AppendUint16(append(out, 7<<5|25), uint16(n.Arg))
		case 26:
			return binary.BigEndian.AppendUint32(append(out, 7<<5|26), uint32(n.Arg))
		case 27:
			return binary.BigEndian.AppendUint64(append(out, 7<<5|27), n.Arg)
		default:
			return append(out, 7<<5|n.Info)
		}
	}
}

// Clone deep-copies a tree.
func (n *Node) Clone() *Node {
	c := *n
	c.Data = append([]byte{}, n.Data...)
	c.Items = make([]*Node, len(n.Items))
	for i, it := range n.Items {
		c.Items[i] = it.Clone()
	}
	return &c
}

// Ref addresses one node: Path is human-readable and stable ("payload>A[2]>fieldBytes"), Kind a type key for
// "another valid value of the same kind" (enclosing key name + leaf kind + length).
type Ref struct {
	Path   string
	KindID string
	Node   *Node
	Parent *Node
	Index  int // index in Parent.Items (-1 for the root)
}

// IsLeaf reports whether the node carries a value rather than structure.
func (n *Node) IsLeaf() bool {
	switch n.Kind {
	case Array, Map, Tag:
		return false
	case Bytes:
		return !n.Embedded
	}
	return true
}

func keyName(k *Node) string {
	switch k.Kind {
	case Text:
		return string(k.Data)
	case Uint:
		return fmt.Sprint(k.Arg)
	case Nint:
		return fmt.Sprintf("-%d", k.Arg+1)
	case Bytes:
		return fmt.Sprintf("h'%x'", k.Data)
	}
	return "?"
}

// Walk lists every node (containers and leaves) in document order with its path. Map keys are not listed as
// nodes of their own (they name their value).
func Walk(root *Node) []Ref {
	var out []Ref
	var rec func(n, parent *Node, idx int, path, name string)
	rec = func(n, parent *Node, idx int, path, name string) {
		kid := name + "/"
		switch n.Kind {
		case Uint, Nint:
			kid += "int"
		case Bytes:
			if n.Embedded {
				kid += "embedded"
			} else {
				kid += fmt.Sprintf("bytes%d", len(n.Data))
			}
		case Text:
			kid += "text"
		case Array:
			kid += "array"
		case Map:
			kid += "map"
		case Tag:
			kid += fmt.Sprintf("tag%d", n.Arg)
		default:
			kid += "simple"
		}
		out = append(out, Ref{Path: path, KindID: kid, Node: n, Parent: parent, Index: idx})
		switch n.Kind {
		case Array:
			for i, it := range n.Items {
				rec(it, n, i, fmt.Sprintf("%s[%d]", path, i), name)
			}
		case Map:
			for i := 0; i+1 < len(n.Items); i += 2 {
				k := keyName(n.Items[i])
				rec(n.Items[i+1], n, i+1, path+">"+k, k)
			}
		case Tag:
			rec(n.Items[0], n, 0, path+fmt.Sprintf(">tag%d", n.Arg), name)
		case Bytes:
			if n.Embedded {
				rec(n.Items[0], n, 0, path+">~", name)
			}
		}
	}
	rec(root, nil, -1, "$", "$")
	return out
}

// Leaves returns only the leaf refs of Walk.
func Leaves(root *Node) []Ref {
	var out []Ref
	for _, r := range Walk(root) {
		if r.Node.IsLeaf() {
			out = append(out, r)
		}
	}
	return out
}

// Find returns the node at a path produced by Walk (nil if absent).
func Find(root *Node, path string) *Ref {
	for _, r := range Walk(root) {
		if r.Path == path {
			rr := r
			return &rr
		}
	}
	return nil
}

// String renders a compact diagnostic form.
func (n *Node) String() string {
	var sb strings.Builder
	var rec func(n *Node)
	rec = func(n *Node) {
		switch n.Kind {
		case Uint:
			fmt.Fprintf(&sb, "%d", n.Arg)
		case Nint:
			fmt.Fprintf(&sb, "-%d", n.Arg+1)
		case Bytes:
			if n.Embedded {
				sb.WriteString("<<")
				rec(n.Items[0])
				sb.WriteString(">>")
			} else if len(n.Data) > 12 {
				fmt.Fprintf(&sb, "h'%x…'(%d)", n.Data[:6], len(n.Data))
			} else {
				fmt.Fprintf(&sb, "h'%x'", n.Data)
			}
		case Text:
			fmt.Fprintf(&sb, "%q", n.Data)
		case Array:
			sb.WriteString("[")
			for i, it := range n.Items {
				if i > 0 {
					sb.WriteString(",")
				}
				rec(it)
			}
			sb.WriteString("]")
		case Map:
			sb.WriteString("{")
			for i := 0; i+1 < len(n.Items); i += 2 {
				if i > 0 {
					sb.WriteString(",")
				}
				rec(n.Items[i])
				sb.WriteString(":")
				rec(n.Items[i+1])
			}
			sb.WriteString("}")
		case Tag:
			fmt.Fprintf(&sb, "%d(", n.Arg)
			rec(n.Items[0])
			sb.WriteString(")")
		default:
			fmt.Fprintf(&sb, "simple(%d)", n.Arg)
		}
	}
	rec(n)
	return sb.String()
}

// SortedKinds returns the distinct KindIDs of the leaves of a tree (diagnostics).
func SortedKinds(root *Node) []string {
	m := map[string]bool{}
	for _, r := range Leaves(root) {
		m[r.KindID] = true
	}
	var out []string
	for k := range m {
		out = append(out, k)
	}
	sort.Strings(out)
	return out
}
