package c09

import (
	"fmt"
	"io"
	"slices"
	"strings"
	"sync"

	"github.com/bronlabs/bron-crypto/pkg/ot/base/vsot"
	"github.com/bronlabs/bron-crypto/pkg/ot/extension/softspoken"

	"verifmc/det"
	"verifmc/engine"
)

// ---------------------------------------------------------------------------------------------------------------
// Base-OT seeds for the extension: one real base OT (kappa = 128 instances, L = 1) per (kind, curve, seed), cached
// (immutable afterwards; the extension only reads them). The base receiver's choice vector (the extension sender's
// Delta) comes from the deterministic stream. Roles swap: base sender -> extension receiver.

type baseSeeds struct {
	name string
	snd  *vsot.SenderOutput   // held by the extension RECEIVER
	rcv  *vsot.ReceiverOutput // held by the extension SENDER
	err  *stepErr
}

var seedCache sync.Map // key -> *onceSeeds

type onceSeeds struct {
	once sync.Once
	v    *baseSeeds
}

var baseKinds = []string{"ecbbot", "vsot"}
var curveNames = []string{"k256", "p256"}

func getSeeds(kind, curve int, seed int64) *baseSeeds {
	key := fmt.Sprintf("%d/%d/%d", kind, curve, seed)
	v, _ := seedCache.LoadOrStore(key, &onceSeeds{})
	os := v.(*onceSeeds)
	os.once.Do(func() {
		bs := &baseSeeds{name: baseKinds[kind] + "/" + curveNames[curve]}
		delta := make([]byte, softspoken.Kappa/8)
		_, _ = io.ReadFull(det.New(seed, "delta/"+key), delta)
		label := "seeds/" + key
		switch kind {
		case 0:
			otKey := make([]byte, 32)
			_, _ = io.ReadFull(det.New(seed, "otkey/"+key), otKey)
			conv := func(s interface {
				ToBitsOutput(int, []byte) (*vsot.SenderOutput, error)
			}, r interface {
				ToBitsOutput(int, []byte) (*vsot.ReceiverOutput, error)
			}) {
				var err error
				if bs.snd, err = s.ToBitsOutput(32, otKey); err != nil {
					bs.err = &stepErr{err, false, "SenderOutput.ToBitsOutput"}
					return
				}
				if bs.rcv, err = r.ToBitsOutput(32, otKey); err != nil {
					bs.err = &stepErr{err, false, "ReceiverOutput.ToBitsOutput"}
				}
			}
			if curve == 0 {
				r, se := runECBBOT(cvK256, softspoken.Kappa, 1, delta, seed, label, nil)
				if bs.err = se; se == nil {
					conv(r.send, r.recv)
				}
			} else {
				r, se := runECBBOT(cvP256, softspoken.Kappa, 1, delta, seed, label, nil)
				if bs.err = se; se == nil {
					conv(r.send, r.recv)
				}
			}
		default:
			var r *vsotRun
			if curve == 0 {
				r, bs.err = runVSOT(cvK256, softspoken.Kappa, 1, delta, seed, label, nil)
			} else {
				r, bs.err = runVSOT(cvP256, softspoken.Kappa, 1, delta, seed, label, nil)
			}
			if bs.err == nil {
				bs.snd, bs.rcv = r.send, r.recv
			}
		}
		os.v = bs
	})
	return os.v
}

// ---------------------------------------------------------------------------------------------------------------
// Extension driver. The receiver's choice bits are an INPUT of Receiver.Round1(x); the stream only supplies the
// sigma padding bits. The extension sender is party B (it holds the base receiver's output).

type extRun struct {
	recv *softspoken.ReceiverOutput
	send *softspoken.SenderOutput
	r1   *softspoken.Round1P2P // as sent (before the wire)
}

func runExt(bs *baseSeeds, xi, l int, choices []byte, seed int64, label string, tp tamper) (*extRun, *stepErr) {
	suite, err := softspoken.NewSuite(xi, l, hashFunc)
	if err != nil {
		return nil, &stepErr{err, false, "softspoken.NewSuite"}
	}
	ctxR, ctxS := contexts(seed, label)
	rcv, err := softspoken.NewReceiver(ctxR, bs.snd, suite, det.New(seed, label+"/receiver"))
	if err != nil {
		return nil, &stepErr{err, false, "softspoken.NewReceiver"}
	}
	snd, err := softspoken.NewSender(ctxS, bs.rcv, suite, det.New(seed, label+"/sender"))
	if err != nil {
		return nil, &stepErr{err, false, "softspoken.NewSender"}
	}
	out := &extRun{}
	if se := guard("receiver.Round1", func() (e error) {
		out.r1, out.recv, e = rcv.Round1(append([]byte{}, choices...))
		return
	}); se != nil {
		return out, se
	}
	r1, se := send("softspoken.r1", out.r1, tp)
	if se != nil {
		return out, se
	}
	if se := guard("sender.Round2", func() (e error) { out.send, e = snd.Round2(r1); return }); se != nil {
		return out, se
	}
	return out, nil
}

func extOut(r *extRun) *otOut {
	return &otOut{choices: r.recv.Choices, recv: r.recv.Messages, send: r.send.Messages}
}

// ---------------------------------------------------------------------------------------------------------------
// Section bodies.

type extShape struct {
	xi, l   int
	choices [][]byte
	names   []string
}

func mkShape(xi, l int, positions []int) extShape {
	vs, ns := structured(xi, positions)
	return extShape{xi, l, vs, ns}
}

// extBody: (base OT kind, curve, seed, shape, block of choice vectors) -> honest extension runs, OT oracle.
func extBody(shapes []extShape, block int) func(*engine.X) {
	return func(x *engine.X) {
		kind := x.Choose("base", 2)
		curve := x.Choose("curve", 2)
		seed := engine.Pick(x, "seed", seedList())
		sh := shapes[x.Choose("shape", len(shapes))]
		blk := x.Choose("block", (len(sh.choices)+block-1)/block)
		bs := getSeeds(kind, curve, seed)
		if bs.err != nil {
			x.Failf("ext/base-ot", "base OT %s (kappa=128, L=1, seed %d) did not complete: %s", bs.name, seed, first(bs.err))
			return
		}
		ok := 0
		for vi := blk * block; vi < len(sh.choices) && vi < (blk+1)*block; vi++ {
			ch := sh.choices[vi]
			what := fmt.Sprintf("softspoken over %s xi=%d L=%d seed=%d choices=%s", bs.name, sh.xi, sh.l, seed, sh.names[vi])
			x.Case(what)
			r, se := runExt(bs, sh.xi, sh.l, ch, seed, fmt.Sprintf("ext/%d/%d", sh.xi, sh.l), nil)
			if se != nil {
				k := "ext/honest-abort"
				if se.panicked {
					k = "ext/panic"
				}
				x.Failf(k, "%s: honest run did not complete: %s", what, first(se))
				continue
			}
			if checkOT(x, "ext", what, sh.xi, sh.l, ch, extOut(r)) {
				ok++
			}
			x.Observe(sh.names[vi], fmt.Sprintf("%x", r.recv.Messages[0][0][:4]))
		}
		x.Observe(ok)
	}
}

// extShapesBody: the suite constructor's admissibility rule (xi > 0, L > 0, 8 | xi, 128 | xi*L), checked against the
// documented rule for a grid of shapes; every admissible shape of moderate size is also RUN (odd shapes exercise the
// repeat / transpose / row-indexing arithmetic); inadmissible choice lengths and seed shapes are refused.
func extShapesBody(x *engine.X) {
	xis := []int{-8, 0, 1, 7, 8, 9, 16, 24, 32, 40, 64, 100, 120, 127, 128, 129, 136, 192, 256, 384, 1024}
	ls := []int{-1, 0, 1, 2, 3, 4, 5, 8, 16, 32, 48, 64, 128}
	xi := engine.Pick(x, "xi", xis)
	seed := engine.Seed()
	bs := getSeeds(x.Choose("base", 2), 0, seed)
	if bs.err != nil {
		x.Failf("ext/base-ot", "base OT %s did not complete: %s", bs.name, first(bs.err))
		return
	}
	ran, refused := 0, 0
	for _, l := range ls {
		want := xi > 0 && l > 0 && xi%8 == 0 && (xi*l)%128 == 0
		_, err := softspoken.NewSuite(xi, l, hashFunc)
		x.Case(fmt.Sprintf("suite/%d/%d", xi, l))
		if (err == nil) != want {
			x.Failf("ext/suite-admissibility", "softspoken.NewSuite(xi=%d, L=%d): err=%v but the documented rule (8|xi, 128|xi*L, both positive) says admissible=%v", xi, l, err, want)
			continue
		}
		if !want {
			refused++
			continue
		}
		if xi*l > 4096 {
			continue
		}
		// run the admissible shape on: zeros, ones, alternating, first-bit, last-bit
		n := xi / 8
		alt := make([]byte, n)
		for i := range alt {
			alt[i] = 0xa5 ^ byte(i*0x3b)
		}
		vs, ns := structured(xi, []int{0, xi - 1})
		vs, ns = append(vs, alt), append(ns, "mixed")
		for vi, ch := range vs {
			what := fmt.Sprintf("softspoken over %s xi=%d L=%d choices=%s", bs.name, xi, l, ns[vi])
			x.Case(what)
			r, se := runExt(bs, xi, l, ch, seed, "shape", nil)
			if se != nil {
				x.Failf("ext/honest-abort", "%s: honest run did not complete: %s", what, first(se))
				continue
			}
			if checkOT(x, "ext", what, xi, l, ch, extOut(r)) {
				ran++
			}
		}
		// wrong choice-vector lengths are refused (error, not panic, not a run)
		for _, wl := range []int{n - 1, n + 1, 0} {
			if wl < 0 || wl == n {
				continue
			}
			x.Case(fmt.Sprintf("choices-len/%d/%d/%d", xi, l, wl))
			_, se := runExt(bs, xi, l, make([]byte, wl), seed, "shape", nil)
			if se == nil || se.panicked || se.where != "receiver.Round1" {
				x.Failf("ext/choices-length", "softspoken xi=%d L=%d: a %d-byte choice vector was not refused by Receiver.Round1 (%s)", xi, l, wl, first(se))
			}
		}
	}
	x.Observe(xi, ran, refused)
}

// extSeedShapesBody: NewSender/NewReceiver refuse base-OT outputs that are not kappa x 1 non-empty messages.
func extSeedShapesBody(x *engine.X) {
	type sshape struct{ n, l, mlen int }
	shapes := []sshape{{128, 1, 32}, {128, 1, 16}, {120, 1, 32}, {136, 1, 32}, {128, 2, 32}, {128, 1, 0}, {0, 1, 32}, {128, 0, 32}}
	sh := engine.Pick(x, "seed-shape", shapes)
	mk := func() (*vsot.SenderOutput, *vsot.ReceiverOutput) {
		s := &vsot.SenderOutput{}
		r := &vsot.ReceiverOutput{}
		s.Messages = make([][2][][]byte, sh.n)
		r.Messages = make([][][]byte, sh.n)
		r.Choices = make([]byte, (sh.n+7)/8)
		for i := 0; i < sh.n; i++ {
			for c := 0; c < 2; c++ {
				for j := 0; j < sh.l; j++ {
					m := make([]byte, sh.mlen)
					for k := range m {
						m[k] = byte(i + 3*c + 7*j + k + 1)
					}
					s.Messages[i][c] = append(s.Messages[i][c], m)
				}
			}
			r.Messages[i] = s.Messages[i][0]
		}
		return s, r
	}
	suite, err := softspoken.NewSuite(128, 1, hashFunc)
	if err != nil {
		x.Failf("ext/suite-admissibility", "NewSuite(128,1): %v", err)
		return
	}
	s, r := mk()
	want := sh.n == 128 && sh.l == 1 && sh.mlen > 0
	ctxR, ctxS := contexts(engine.Seed(), "seedshape")
	var e1, e2 error
	se := guard("constructors", func() error {
		_, e1 = softspoken.NewReceiver(ctxR, s, suite, det.New(1, "x"))
		_, e2 = softspoken.NewSender(ctxS, r, suite, det.New(1, "y"))
		return nil
	})
	x.Case(fmt.Sprint(sh))
	if se != nil {
		x.Failf("ext/panic", "softspoken constructors panicked on seeds of shape %+v: %s", sh, first(se))
		return
	}
	if (e1 == nil) != want || (e2 == nil) != want {
		x.Failf("ext/seed-shape", "seeds of shape %+v (instances, blocks, message bytes): NewReceiver err=%v NewSender err=%v, admissible=%v", sh, e1, e2, want)
	}
	x.Observe(sh, e1 == nil, e2 == nil)
}

// ---------------------------------------------------------------------------------------------------------------
// Faults on the extension's only message. Classification (pkg/ot/extension/softspoken/rounds.go, Sender.Round2):
//
//	challengeResponse.x, challengeResponse.t[i]  CHECK: the sender recomputes q'_i from its own correlation rows and
//	    accepts iff q'_i == t_i + Delta_i * x in GF(2^128) for ALL i. Altering t_i breaks row i; altering x breaks
//	    every row with Delta_i = 1 (Delta is 128 random bits). -> Sender.Round2 must refuse.
//	u[i]  CHECK INPUT: u_i enters q_i (when Delta_i = 1) and, for every i, the Fiat-Shamir transcript from which the
//	    challenge chi is derived; the response was computed for the old chi, so every row fails. -> must refuse.
//
// There is no field of this message that is not an input of the consistency check.
func extFaultBody(shapes []extShape, curves int) func(*engine.X) {
	return func(x *engine.X) {
		kind := x.Choose("base", 2)
		curve := x.Choose("curve", curves)
		sh := shapes[x.Choose("shape", len(shapes))]
		vi := x.Choose("choices", len(sh.choices))
		seed := engine.Seed()
		bs, bs2 := getSeeds(kind, curve, seed), getSeeds(kind, curve, seed+1000)
		if bs.err != nil || bs2.err != nil {
			x.Failf("ext/base-ot", "base OT %s did not complete", bs.name)
			return
		}
		label := fmt.Sprintf("extf/%d/%d", sh.xi, sh.l)
		ch := sh.choices[vi]
		honest, se := runExt(bs, sh.xi, sh.l, ch, seed, label, nil)
		other, se2 := runExt(bs2, sh.xi, sh.l, ch, seed+1000, label, nil)
		if se != nil || se2 != nil {
			x.Failf("ext/honest-abort", "softspoken over %s xi=%d L=%d choices=%s: honest run did not complete: %s %s", bs.name, sh.xi, sh.l, sh.names[vi], first(se), first(se2))
			return
		}
		tree, ftree := treeOf(honest.r1), treeOf(other.r1)
		all := leavesOf(tree)
		// leaves in scope: x and every t[i] always; u[i] over the index alphabet in quick, all in thorough
		var sel []int
		uIdx := pickIdx(softspoken.Kappa, map[bool]int{false: 0, true: 1 << 30}[engine.Thorough()])
		for i, lf := range all {
			if strings.HasPrefix(lf.path, "$>u[") {
				var k int
				fmt.Sscanf(lf.path, "$>u[%d]", &k)
				if !slices.Contains(uIdx, k) {
					continue
				}
			}
			sel = append(sel, i)
		}
		li := sel[x.Choose("leaf", len(sel))]
		lf := all[li]
		others, onames := neighbours(all, li)
		nm := 0
		for _, m := range mutations(lf.data, others, onames, dataAt(ftree, lf.path), !strings.HasPrefix(lf.path, "$>u[")) {
			what := fmt.Sprintf("softspoken over %s xi=%d L=%d choices=%s seed=%d: %s %s", bs.name, sh.xi, sh.l, sh.names[vi], seed, lf.path, m.name)
			x.Case(what)
			_, fe := runExt(bs, sh.xi, sh.l, ch, seed, label, oneLeaf("softspoken.r1", lf.path, m.value))
			mustReject(x, "ext/faults", "ext", what, fe, "decode softspoken.r1", "sender.Round2")
			nm++
		}
		x.Observe(bs.name, sh.xi, sh.l, sh.names[vi], lf.path, nm)
	}
}
