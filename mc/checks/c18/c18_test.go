// C18 — commitments open only to what was committed.
//
// Space: scheme x keys x message alphabet x witness alphabet x every single-bit (hashcom) / single-component
// (algebraic schemes) change of message, witness, key and commitment; trapdoor equivocation for every message
// pair; homomorphic op sequences to depth 3 (BFS) against a math/big (message, witness) model; commitment keys
// extracted from every pair of a fixed set of transcript histories.
// Oracle: definition-level recomputation (keyed BLAKE2b, math/big curve / modular arithmetic).
package c18

import (
	"os"
	"strings"
	"testing"
	"time"

	"verifmc/engine"
)

func TestMain(m *testing.M) { engine.Main(m, "C18", "fault_enumeration") }

func TestCheck(t *testing.T) {
	engine.Rule("fault sections: one execution per (scheme, key, message, witness) tuple of the stated alphabets; inner cases = the untouched tuple plus every lone change of one component (hashcom: every single bit of message/witness/key/commitment and every one-byte length change; algebraic schemes: every other alphabet value, ±1, negation, doubling, every single-bit change of the canonical encoding that the library decoder accepts, unreduced re-encodings, and for group elements -P, 2P, P±G, O, G, foreign elements). A case is distinct by (tuple, component, change) and non-trivial when Open was called on it and compared with the definition. Equivocation: every trapdoor key x ordered message pair x witness. Homomorphic: BFS over op histories, state = (message, witness) model. Extraction: all ordered pairs of (history, label) instances.")
	engine.Assume(
		"math/big, crypto/sha256, crypto/sha3 and golang.org/x/crypto/blake2b are correct; the reference curve constants are the published ones (self-checked: G on curve, n·G = O)",
		"k256 and BLS12-381 G1 have prime order, so for P ≠ O: a·P = b·P iff a ≡ b (mod q) (used to decide validity of single-bit changes without a full reference recomputation; cross-checked against the full recomputation on every algebraic change)",
		"no BLAKE2b-256 collision occurs among the enumerated inputs",
		"integer-commitment and Paillier keys are built from harness-generated primes through the public constructors (the library's own key samplers draw from the reader on several goroutines and are not reproducible); key sizes 128..512 bits, admitted by the library only in test binaries",
		"purego build of the library; soundness against an adversary who computes a forgery is out of scope (single faults only)",
	)

	for _, err := range []error{k256Ctx().selfCheck(), blsG1Ctx().selfCheck()} {
		if err != nil {
			engine.HarnessFail("%v", err)
			return
		}
	}

	// the homomorphic searches are single-threaded BFS runs: start them now, side by side with the fault sections
	homDone := make(chan struct{})
	go func() { defer close(homDone); runHomomorphic() }()

	kc, bc := k256Ctx(), blsG1Ctx()
	kq, bq := k256Ctx(), blsG1Ctx()
	explore("hashcom/faults", hashcomBody, &hashcomTally)
	explore("pedersen/k256/faults", pedersenFaultBody(kc), kc.tally)
	explore("pedersen/bls12381g1/faults", pedersenFaultBody(bc), bc.tally)
	explore("intcom/faults", intcomFaultBody, &intcomTally)
	explore("indcpa/paillier/faults", paillierFaultBody, &paillierTally)
	ke := k256Ctx()
	explore("indcpa/elgamal-k256/faults", elgamalFaultBody(ke), ke.tally)
	explore("pedersen/k256/equivocation", pedersenEquivBody(kq), kq.tally)
	explore("pedersen/bls12381g1/equivocation", pedersenEquivBody(bq), bq.tally)
	explore("intcom/equivocation", intcomEquivBody, &intcomEquivTally)

	explore("extract/keys", extractBody, nil)
	<-homDone

	if only != "" {
		engine.HarnessFail("partial run (VERIF_C18_ONLY=%s): not a verdict", only)
	}
}

// only restricts a development run to the sections whose name has this prefix; such a run exits 2 (never a verdict).
var only = os.Getenv("VERIF_C18_ONLY")

func selected(name string) bool { return only == "" || strings.HasPrefix(name, only) }

func explore(name string, body func(*engine.X), t *tally) {
	if !selected(name) {
		return
	}
	sec := engine.Explore(body, engine.Opts{Name: name, Budget: engine.Budget(4*time.Minute, 30*time.Minute)})
	if t != nil {
		sec.Note("outcome classes: %s", t.String())
	}
}
