package c02

import (
	"fmt"
	"math/big"
	"sync/atomic"

	"github.com/bronlabs/bron-crypto/pkg/base/algebra"
	"github.com/bronlabs/bron-crypto/pkg/mpc/sharing"
	"github.com/bronlabs/bron-crypto/pkg/mpc/sharing/accessstructures/unanimity"

	"verifmc/catalog"
	"verifmc/engine"
	"verifmc/ref/policy"
)

// dealing is one dealt secret as the harness sees it: shares by party index and the dealer state read back from
// the library (scheme specific).
type dealing[S any] struct {
	secret *big.Int
	shares []S
	has    []bool
	state  any
}

func (d *dealing[S]) missing(mask uint64) uint64 {
	var m uint64
	for _, p := range policy.Members(mask) {
		if !d.has[p] {
			m |= 1 << uint(p)
		}
	}
	return m
}

func (d *dealing[S]) pick(mask uint64, descending bool) []S {
	var out []S
	ms := policy.Members(mask)
	if descending {
		for i, j := 0, len(ms)-1; i < j; i, j = i+1, j-1 {
			ms[i], ms[j] = ms[j], ms[i]
		}
	}
	for _, p := range ms {
		if d.has[p] {
			out = append(out, d.shares[p])
		}
	}
	return out
}

// adapter presents one scheme instance (fixed policy, identifiers, field) to the generic oracle.
type adapter[S any] struct {
	scheme                     string
	freeRand                   int  // dealer values the harness chooses (the sampling layout of Deal is known)
	nonzeroLast                bool // the sampler rejects a zero last value
	refusesUnqualifiedAdditive bool // ConvertShareToAdditive documents / implements a qualification check
	missingShareKey            string
	mspBased                   bool // shares come from the induced span programme (KW, Feldman, Pedersen)
	deal                       func(x *engine.X, secret *big.Int, rnd []*big.Int, label string) (*dealing[S], bool)
	dealRandom                 func(x *engine.X, label string) (*dealing[S], bool)
	reconstruct                func(sh []S) (*big.Int, error)
	can                        func(ids []sharing.ID) bool // nil: the scheme has no CanReconstruct
	toAdditive                 func(sh S, q *unanimity.Unanimity) (sharing.ID, *big.Int, error)
	add                        func(a, b S) S
	scale                      func(a S, k *big.Int) S
	flat                       func(a S) string
	// witness returns the dealing the library's own deterministic dealer produces from an alternative dealer state
	// that (per the reference) encodes secret sPrime and agrees with d on every share of mask. nil + status when
	// no such dealing can be pushed through the library (status says why; "" = a failure was recorded).
	witness func(x *engine.X, d *dealing[S], mask uint64, sPrime *big.Int) (*dealing[S], string)
}

// dealStats are per-section totals attached to the evidence as a note (vacuity check: witnesses really are built).
type dealStats struct {
	qualified, unqualified, witnesses, witnessSkipped, unrefusedAdditive, linear atomic.Int64
}

func (st *dealStats) note(sec *engine.Section) {
	sec.Note("qualified reconstructions=%d unqualified refusals checked=%d privacy witnesses pushed through the library=%d witnesses not expressible (degree-deficient polynomial)=%d unqualified additive conversions that were not refused (Shamir/ISN, observed only)=%d linearity reconstructions=%d",
		st.qualified.Load(), st.unqualified.Load(), st.witnesses.Load(), st.witnessSkipped.Load(), st.unrefusedAdditive.Load(), st.linear.Load())
}

type dealOpts struct {
	fullCross bool  // secret x randomness cross product on the "ord" assignment
	secrets   []int // secret indices used when not crossing (default: mid)
	linear    bool
	noCross   func(catalog.Entry) bool // entries visited with the mid secret and seeded randomness only
	stats     *dealStats
}

func guard(x *engine.X, key, what string, f func()) (ok bool) {
	defer func() {
		if r := recover(); r != nil {
			if he, isHE := r.(engine.HarnessError); isHE {
				panic(he)
			}
			x.Failf(key, "%s: the library panicked: %v", what, r)
			ok = false
		}
	}()
	f()
	return true
}

// dealBody: oracles (c), (d), (e) for one scheme.
//
//	(c) every qualified A: CanReconstruct, Reconstruct == dealt secret (shares passed in ascending or descending
//	    order), additive conversion over A sums to the secret and keeps the identifiers;
//	(d) every unqualified A: CanReconstruct false, Reconstruct refused, additive conversion refused (where
//	    documented), and for every other alphabet secret s' the witness dealing gives A the very same shares while
//	    reconstructing (from the full set) to s';
//	(e) Add of two dealings reconstructs to s1+s2, ScalarMul to k·s over every qualified A.
func dealBody[S any, F algebra.PrimeFieldElement[F]](c fctx[F], scheme string, cases []pcase, mk func(x *engine.X, pc pcase) (*adapter[S], bool), opt dealOpts) func(*engine.X) {
	return func(x *engine.X) {
		pc := cases[x.Choose("case", len(cases))]
		p, ids := pc.e.P, pc.a.IDs
		secrets := c.secrets()
		si, ri := 3, randSeeded
		if opt.noCross != nil && opt.noCross(pc.e) {
			// one secret, one randomness
		} else if opt.fullCross && pc.a.Name == "ord" {
			si = x.Choose("secret", len(secrets))
			ri = x.Choose("rand", numRand)
		} else if len(opt.secrets) > 0 {
			si = opt.secrets[x.Choose("secret", len(opt.secrets))]
		}
		key := fmt.Sprintf("%s/%s/%s/s%d/%s", scheme, c.name, pc.key(), si, randNames[ri])
		var ad *adapter[S]
		var ok bool
		if !guard(x, scheme+"/panic/setup", key, func() { ad, ok = mk(x, pc) }) || !ok {
			return
		}
		s := secrets[si]
		var d *dealing[S]
		if !guard(x, scheme+"/panic/deal", key, func() {
			d, ok = ad.deal(x, s, c.randomness(ri, ad.freeRand, "A", ad.nonzeroLast), "A")
		}) || !ok {
			return
		}
		full := p.Full()
		dummies := dummyParties(p)
		var nq, nunq, nwit, nskip, unrefused, nlin int
		for a := uint64(0); a <= full; a++ {
			want := p.Qualified(a)
			sub := catalog.Subset(ids, a)
			x.Case(fmt.Sprintf("%s/%d", key, a))
			if miss := d.missing(a); miss != 0 {
				// a member of the set received no share at all
				if want {
					fk := ad.missingShareKey
					if p.Kind == policy.CNF && miss&^dummies == 0 && ad.mspBased {
						fk = keyCNFDummy
					}
					x.Failf(fk, "%s: the qualified set %v cannot reconstruct: shareholder(s) %v received no share", key, sub, catalog.Subset(ids, miss))
				}
				continue
			}
			if ad.can != nil {
				var got bool
				if guard(x, scheme+"/panic/canreconstruct", key, func() { got = ad.can(sub) }) && got != want {
					x.Failf(scheme+"/canreconstruct", "%s: CanReconstruct(%v) = %v, the policy says %v", key, sub, got, want)
				}
			}
			var got *big.Int
			var err error
			if !guard(x, scheme+"/panic/reconstruct", key, func() { got, err = ad.reconstruct(d.pick(a, popcount(a)%2 == 1)) }) {
				continue
			}
			if want {
				nq++
				if err != nil {
					x.Failf(scheme+"/reconstruct-refused", "%s: Reconstruct refused the qualified set %v%s", key, sub, errLine(err))
				} else if got.Cmp(s) != 0 {
					x.Failf(scheme+"/reconstruct-value", "%s: Reconstruct over the qualified set %v returned %s, dealt %s", key, sub, got.Text(16), s.Text(16))
				}
			} else if nunq++; err == nil {
				x.Failf(scheme+"/reconstruct-unqualified", "%s: Reconstruct accepted the unqualified set %v (returned %s, dealt %s)", key, sub, got.Text(16), s.Text(16))
			}
			// additive conversion
			if ad.toAdditive != nil && popcount(a) >= 2 {
				quorum, qerr := catalog.Quorum(ids, a)
				if qerr != nil {
					panic(engine.HarnessError{Msg: "cannot build quorum: " + qerr.Error()})
				}
				sum, nerr := new(big.Int), 0
				var firstErr error
				pk := scheme + "/panic/toadditive"
				if a&dummies != 0 {
					pk += "/dummy-party" // a member that belongs to every maximal unqualified set
				}
				completed := guard(x, pk, key, func() {
					for _, party := range policy.Members(a) {
						id, v, err := ad.toAdditive(d.shares[party], quorum)
						if err != nil {
							nerr++
							if firstErr == nil {
								firstErr = err
							}
							continue
						}
						if id != ids[party] {
							x.Failf(scheme+"/toadditive-id", "%s: additive share of %d over %v carries identifier %d", key, ids[party], sub, id)
						}
						sum = c.add(sum, v)
					}
				})
				switch {
				case !completed:
				case want && nerr > 0:
					x.Failf(scheme+"/toadditive-refused", "%s: ConvertShareToAdditive over the qualified quorum %v failed for %d member(s)%s", key, sub, nerr, errLine(firstErr))
				case want && sum.Cmp(s) != 0:
					x.Failf(scheme+"/toadditive-sum", "%s: additive shares over the qualified quorum %v sum to %s, dealt %s", key, sub, sum.Text(16), s.Text(16))
				case !want && ad.refusesUnqualifiedAdditive && nerr != popcount(a):
					x.Failf(scheme+"/toadditive-unqualified", "%s: ConvertShareToAdditive over the unqualified quorum %v succeeded for %d member(s)", key, sub, popcount(a)-nerr)
				case !want && nerr != popcount(a):
					unrefused++
				}
			}
			// privacy witness
			if !want && a != 0 {
				for sj, sp := range secrets {
					if sj == si {
						continue
					}
					var alt *dealing[S]
					var status string
					if !guard(x, scheme+"/panic/witness", key, func() { alt, status = ad.witness(x, d, a, sp) }) {
						continue
					}
					if alt == nil {
						if status != "" {
							nskip++
						}
						continue
					}
					nwit++
					for _, party := range policy.Members(a) {
						if !alt.has[party] || ad.flat(alt.shares[party]) != ad.flat(d.shares[party]) {
							x.Failf(scheme+"/privacy-witness", "%s: unqualified set %v: the dealer state for secret #%d that the reference computed hands shareholder %d a different share — the view of the set is not consistent with that secret", key, sub, sj, ids[party])
							break
						}
					}
					if alt.missing(full) == 0 {
						var g2 *big.Int
						var e2 error
						if guard(x, scheme+"/panic/reconstruct", key, func() { g2, e2 = ad.reconstruct(alt.pick(full, false)) }) {
							if e2 != nil || g2.Cmp(sp) != 0 {
								x.Failf(scheme+"/privacy-witness-secret", "%s: unqualified set %v: the alternative dealing does not reconstruct to secret #%d%s", key, sub, sj, errLine(e2))
							}
						}
					}
				}
			}
		}
		// (e) linearity
		if opt.linear && ri == randSeeded {
			quals := catalog.Qualified(p)
			for _, s2i := range []int{1, 2} {
				var d2 *dealing[S]
				if !guard(x, scheme+"/panic/deal", key, func() {
					d2, ok = ad.deal(x, secrets[s2i], c.randomness(randSeeded, ad.freeRand, "B", ad.nonzeroLast), "B")
				}) || !ok {
					break
				}
				sum := &dealing[S]{shares: make([]S, p.N), has: make([]bool, p.N)}
				if !guard(x, scheme+"/panic/add", key, func() {
					for i := 0; i < p.N; i++ {
						if d.has[i] && d2.has[i] {
							sum.shares[i], sum.has[i] = ad.add(d.shares[i], d2.shares[i]), true
						}
					}
				}) {
					break
				}
				want := c.add(s, secrets[s2i])
				for _, a := range quals {
					if sum.missing(a) != 0 {
						continue
					}
					x.Case(fmt.Sprintf("%s/add%d/%d", key, s2i, a))
					nlin++
					var got *big.Int
					var err error
					if guard(x, scheme+"/panic/reconstruct", key, func() { got, err = ad.reconstruct(sum.pick(a, false)) }) && (err != nil || got.Cmp(want) != 0) {
						x.Failf(scheme+"/linear-add", "%s: Add of the dealings of secrets #%d and #%d does not reconstruct to their sum over %v%s", key, si, s2i, catalog.Subset(ids, a), errLine(err))
					}
				}
			}
			for ki, k := range []*big.Int{big.NewInt(0), big.NewInt(2), new(big.Int).Sub(c.q, big.NewInt(1))} {
				sc := &dealing[S]{shares: make([]S, p.N), has: make([]bool, p.N)}
				if !guard(x, scheme+"/panic/scalarmul", key, func() {
					for i := 0; i < p.N; i++ {
						if d.has[i] {
							sc.shares[i], sc.has[i] = ad.scale(d.shares[i], k), true
						}
					}
				}) {
					break
				}
				want := c.mul(s, k)
				for _, a := range quals {
					if sc.missing(a) != 0 {
						continue
					}
					x.Case(fmt.Sprintf("%s/mul%d/%d", key, ki, a))
					nlin++
					var got *big.Int
					var err error
					if guard(x, scheme+"/panic/reconstruct", key, func() { got, err = ad.reconstruct(sc.pick(a, true)) }) && (err != nil || got.Cmp(want) != 0) {
						fk := scheme + "/linear-scalarmul"
						if k.Sign() == 0 {
							fk += "/k=0"
						}
						x.Failf(fk, "%s: ScalarMul by scalar #%d of the dealing of secret #%d does not reconstruct to the multiple over %v%s", key, ki, si, catalog.Subset(ids, a), errLine(err))
					}
				}
			}
			// a dealing of a secret the library samples itself
			if ad.dealRandom != nil {
				var dr *dealing[S]
				if guard(x, scheme+"/panic/dealrandom", key, func() { dr, ok = ad.dealRandom(x, "R") }) && ok && dr.missing(full) == 0 {
					x.Case(key + "/dealrandom")
					got, err := ad.reconstruct(dr.pick(full, false))
					if err != nil || got.Cmp(dr.secret) != 0 {
						x.Failf(scheme+"/dealrandom", "%s: DealRandom's shares do not reconstruct to the secret it returned%s", key, errLine(err))
					}
				}
			}
		}
		if opt.stats != nil {
			opt.stats.qualified.Add(int64(nq))
			opt.stats.unqualified.Add(int64(nunq))
			opt.stats.witnesses.Add(int64(nwit))
			opt.stats.witnessSkipped.Add(int64(nskip))
			opt.stats.unrefusedAdditive.Add(int64(unrefused))
			opt.stats.linear.Add(int64(nlin))
		}
		x.Observe(key, nq, nwit, nskip, unrefused)
	}
}
