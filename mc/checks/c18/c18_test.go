// C18 — commitments open only to what was committed.
//
// Space: scheme x keys x message alphabet x witness alphabet x every single-bit (hashcom) / single-component
// (algebraic schemes) change of message, witness, key and commitment; trapdoor equivocation for every message
// pair; homomorphic op sequences to depth 3 (thorough 5) by BFS against a math/big (message, witness) model;
// commitment keys extracted from every pair of a fixed set of transcript histories.
// Oracle: Open accepts the untouched tuple, rejects every lone change whose altered tuple is not itself a valid
// opening by definition (decided from decoded values: keyed BLAKE2b / math/big curve and modular arithmetic);
// equivocated openings verify under the exported key; combined commitments equal the recomputation from scratch.
//
// Files: hashcom_test.go, pedersen_test.go (+ curve contexts, equivocation), intcom_test.go, indcpa_test.go
// (Paillier, ElGamal), homomorphic_test.go (BFS), extract_test.go, refcurve_test.go (math/big reference curve).
package c18

import (
	"os"
	"strings"
	"testing"
	"time"

	"verifmc/engine"
)

func TestMain(m *testing.M) { engine.Main(m, "C18", "fault_enumeration") }

func TestCheck(t *testing.T) {
	engine.Rule("fault sections: one execution per (scheme, key, message, witness) tuple; inner cases = the untouched tuple plus every lone change of one component. hashcom: 4 keys (2 stream-sampled, 2 transcript-extracted) x messages {empty, 00, a5, 32 B, 1 KiB; thorough + 32xff, 4 KiB, 16 KiB, 64 KiB} x witnesses {00.., ff.., 2 sampled} x every single bit of message/witness/key/commitment, every one-byte length change, every other alphabet value. Pedersen (k256, BLS12-381 G1): keys {sampled, extracted; thorough + sampled, trapdoor export} x messages/witnesses {0,1,q-1,sampled; thorough +2}; integer commitments: keys {trapdoor export, extracted over 128-bit N, trapdoor export over 256-bit N; thorough + 512} x messages {0,±1,±(2^256-1),sampled} x witnesses {0,±1,both ends of the sampling range,sampled}; Paillier (N 128, 256; thorough + 512 bits) x messages {0,1,N-1,(N±1)/2,sampled} x nonces {1,N-1,2,2 sampled}; ElGamal/k256 (2 sampled keys) x messages {O,G,-G,sampled; thorough +2G} x nonces {0,1,q-1,sampled; thorough +2}. Lone changes of a scalar/integer/residue: every other alphabet value, ±1, negation, doubling (square, inverse for residues), every single-bit change of the canonical encoding/value that the library constructor or decoder accepts, unreduced re-encodings v+q, v+2q; of a group element: -P, 2P, P±G, O, G, a foreign element, every single-bit change of the compressed encoding that decodes. A case is distinct by (tuple, component, change); it is non-trivial when Open ran on it and was compared with the verdict computed from decoded values. Equivocation: every trapdoor key x ordered message pair x witness. Homomorphic: BFS over histories of 12 operations to depth 3 (thorough 5), state = (message, witness) model pair. Extraction: every ordered pair of 20 histories x 2 labels, the two sides built as independent transcript objects.")
	engine.Assume(
		"math/big, crypto/sha256, crypto/sha3 and golang.org/x/crypto/blake2b are correct; the reference curve constants are the published ones (self-checked: G on curve, n·G = O)",
		"k256 and BLS12-381 G1 have prime order, so for P ≠ O: a·P = b·P iff a ≡ b (mod q) (used to decide validity of single-bit changes without a full reference recomputation; cross-checked against the full recomputation on every algebraic change)",
		"no BLAKE2b-256 collision occurs among the enumerated inputs",
		"integer-commitment and Paillier keys are built from harness-generated primes through the public constructors (the library's own key samplers draw from the reader on several goroutines and are not reproducible); key sizes 128..512 bits, admitted by the library only in test binaries",
		"purego build of the library; soundness against an adversary who computes a forgery is out of scope (single faults only)",
	)

	for _, err := range []error{k256Ctx().selfCheck(), blsG1Ctx().selfCheck()} {
		if err != nil {
			engine.HarnessFail("%v", err)
			return
		}
	}

	// the homomorphic searches are single-threaded BFS runs: start them now, side by side with the fault sections
	homDone := make(chan struct{})
	go func() { defer close(homDone); runHomomorphic() }()

	kc, bc := k256Ctx(), blsG1Ctx()
	kq, bq := k256Ctx(), blsG1Ctx()
	explore("hashcom/faults", hashcomBody, &hashcomTally)
	explore("pedersen/k256/faults", pedersenFaultBody(kc), kc.tally)
	explore("pedersen/bls12381g1/faults", pedersenFaultBody(bc), bc.tally)
	explore("intcom/faults", intcomFaultBody, &intcomTally)
	explore("indcpa/paillier/faults", paillierFaultBody, &paillierTally)
	ke := k256Ctx()
	explore("indcpa/elgamal-k256/faults", elgamalFaultBody(ke), ke.tally)
	explore("pedersen/k256/equivocation", pedersenEquivBody(kq), kq.tally)
	explore("pedersen/bls12381g1/equivocation", pedersenEquivBody(bq), bq.tally)
	explore("intcom/equivocation", intcomEquivBody, &intcomEquivTally)

	explore("extract/keys", extractBody, nil)
	<-homDone

	if only != "" {
		engine.HarnessFail("partial run (VERIF_C18_ONLY=%s): not a verdict", only)
	}
}

// only restricts a development run to the sections whose name has this prefix; such a run exits 2 (never a verdict).
var only = os.Getenv("VERIF_C18_ONLY")

func selected(name string) bool { return only == "" || strings.HasPrefix(name, only) }

func explore(name string, body func(*engine.X), t *tally) {
	if !selected(name) {
		return
	}
	sec := engine.Explore(body, engine.Opts{Name: name, Budget: engine.Budget(4*time.Minute, 30*time.Minute)})
	if t != nil {
		sec.Note("outcome classes: %s", t.String())
	}
}
