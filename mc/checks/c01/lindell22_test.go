package c01

import (
	"bytes"
	"crypto/sha256"
	"crypto/sha512"
	"fmt"
	"math/big"
	"math/bits"
	"os"
	"slices"
	"strings"

	"github.com/bronlabs/bron-crypto/pkg/base/algebra"
	"github.com/bronlabs/bron-crypto/pkg/base/curves/edwards25519"
	"github.com/bronlabs/bron-crypto/pkg/base/curves/k256"
	"github.com/bronlabs/bron-crypto/pkg/base/curves/pasta"
	"github.com/bronlabs/bron-crypto/pkg/mpc/sharing"
	mpcschnorr "github.com/bronlabs/bron-crypto/pkg/mpc/signatures/schnorr"
	"github.com/bronlabs/bron-crypto/pkg/mpc/signatures/schnorr/lindell22"
	"github.com/bronlabs/bron-crypto/pkg/signatures/schnorrlike"
	"github.com/bronlabs/bron-crypto/pkg/signatures/schnorrlike/bip340"
	"github.com/bronlabs/bron-crypto/pkg/signatures/schnorrlike/mina"
	vanilla "github.com/bronlabs/bron-crypto/pkg/signatures/schnorrlike/schnorr"

	"verifmc/catalog"
	"verifmc/det"
	"verifmc/engine"
	"verifmc/proto"
	"verifmc/ref/conv"
	"verifmc/ref/curve"
	"verifmc/ref/curve/libcurve"
	"verifmc/ref/sig"
	"verifmc/schednet"
)

const (
	apiRounds = 0
	apiRunner = 1
)

var apiNames = []string{"rounds", "runner"}

// l22Flavour hides the eight type parameters of one Schnorr flavour behind closures.
type l22Flavour struct {
	name string
	// leaf runs every (quorum, message) of one (structure, assignment, key generation) through the given API.
	leaf func(x *engine.X, s *structure, a catalog.IDAssignment, kg proto.C01Keygen, api int, msgs []int)
}

// l22Cfg describes one flavour to mkL22.
type l22Cfg[
	SCH mpcschnorr.MPCFriendlyScheme[VR, GE, S, M, KG, SG, VF],
	VR mpcschnorr.MPCFriendlyVariant[GE, S, M],
	GE algebra.PrimeGroupElement[GE, S], S algebra.PrimeFieldElement[S], M schnorrlike.Message,
	KG schnorrlike.KeyGenerator[GE, S], SG schnorrlike.Signer[VR, GE, S, M], VF schnorrlike.Verifier[VR, GE, S, M],
] struct {
	name      string
	keyName   string // flavour part of finding keys ("" = name)
	groupName string
	group     algebra.PrimeGroup[GE, S]
	mkScheme  func(label string) SCH
	msg       func([]byte) M
	// wire is the published encoding of a signature (what "byte-equal" is decided on)
	wire func(s *schnorrlike.Signature[GE, S]) ([]byte, error)
	// reparse decodes the published encoding again (nil: the flavour has no decoder)
	reparse func([]byte) (*schnorrlike.Signature[GE, S], error)
	// refVerify is the INDEPENDENT verifier: decides on (group public key, published signature bytes / components,
	// message bytes) in ref/curve + ref/sig.
	refVerify func(pk GE, s *schnorrlike.Signature[GE, S], wire []byte, raw []byte, m M, scheme SCH) (bool, string)
	// note is observed per accepted signature (vacuity: which parity branches were taken)
	note func(pk GE, s *schnorrlike.Signature[GE, S]) string
}

func mkL22[
	SCH mpcschnorr.MPCFriendlyScheme[VR, GE, S, M, KG, SG, VF],
	VR mpcschnorr.MPCFriendlyVariant[GE, S, M],
	GE algebra.PrimeGroupElement[GE, S], S algebra.PrimeFieldElement[S], M schnorrlike.Message,
	KG schnorrlike.KeyGenerator[GE, S], SG schnorrlike.Signer[VR, GE, S, M], VF schnorrlike.Verifier[VR, GE, S, M],
](c l22Cfg[SCH, VR, GE, S, M, KG, SG, VF]) l22Flavour {
	type sigT = *schnorrlike.Signature[GE, S]
	if c.keyName == "" {
		c.keyName = c.name
	}
	getShards := func(s *structure, a catalog.IDAssignment, kg proto.C01Keygen) (map[sharing.ID]*lindell22.Shard[GE, S], error) {
		return cached(fmt.Sprintf("l22|%s|%s|%s|%s", c.groupName, s.e.Name, a.Name, kg), func() (map[sharing.ID]*lindell22.Shard[GE, S], error) {
			base, err := baseShards(c.groupName, c.group, s, a, kg)
			if err != nil {
				return nil, err
			}
			return proto.C01Lindell22Shards(base)
		})
	}
	leaf := func(x0 *engine.X, s *structure, a catalog.IDAssignment, kg proto.C01Keygen, api int, msgs []int) {
		x := newOnce(x0)
		defer x.flush()
		where := fmt.Sprintf("lindell22/%s %s ids=%s(%s) keygen=%s api=%s", c.name, s.e.Name, a.Name, idsString(a.IDs), kg, apiNames[api])
		shards, err := getShards(s, a, kg)
		if err != nil {
			if !outside(x0, err, where) {
				x.Failf("lindell22/keygen/"+kg.String(), "%s: key generation failed\n    error: %s", where, errStr(err))
			}
			return
		}
		seed := engine.Seed()
		var anyShard *lindell22.Shard[GE, S]
		for _, id := range a.IDs {
			if shards[id] == nil {
				x.Failf("lindell22/keygen/"+kg.String(), "%s: no shard for party %d", where, id)
				return
			}
			anyShard = shards[id]
		}
		pk := anyShard.PublicKey()
		nAcc, nRef := 0, 0
		var notes []string
		for _, q := range s.qualified {
			quorum := catalog.Subset(a.IDs, q)
			kind := "non-minimal"
			if s.minimal[q] {
				kind = "minimal"
			}
			// sub-collections of the quorum that are not qualified (offered to the outside aggregator)
			var subMasks []uint64
			var subs [][]sharing.ID
			if api == apiRounds {
				for _, sm := range subsetsOf(q) {
					if !s.e.P.Qualified(sm) {
						subMasks = append(subMasks, sm)
						subs = append(subs, catalog.Subset(a.IDs, sm))
					}
				}
			}
			for _, mi := range msgs {
				raw := message(mi)
				m := c.msg(raw)
				label := fmt.Sprintf("%s|%s|%s|%s|q%b|m%d", c.name, s.e.Name, a.Name, kg, q, mi)
				cw := fmt.Sprintf("%s quorum=%s (%s) msg=%s", where, idsString(quorum), kind, msgNames[mi])
				x.Case(label + "|" + apiNames[api])
				scheme := c.mkScheme(label)
				var out *proto.C01Out[sigT]
				var subErr []error
				if api == apiRounds {
					out, subErr = proto.C01Lindell22Rounds(scheme, shards, quorum, m, seed, label, subs)
				} else {
					out = proto.C01Lindell22Run(x0, schednet.New(proto.Sorted(quorum)...), scheme, shards, quorum, m, seed, label)
					if out.Info != nil && out.Info.HarnessErr != "" {
						panic(engine.HarnessError{Msg: out.Info.HarnessErr})
					}
				}
				fk := fmt.Sprintf("lindell22/%s/%s", c.keyName, apiNames[api])
				// (1) termination with an output at every holder that should have one
				if out.Refused != nil {
					x.Failf(fk+"/refused-qualified", "%s: a cosigner constructor refused a QUALIFIED quorum\n    errors: %s", cw, errsString(out.Errs))
					continue
				}
				missing := false
				for _, w := range out.Want {
					if _, ok := out.Sigs[w]; !ok {
						missing = true
						x.Failf(fk+"/no-output/"+holderClass(w), "%s: %s obtained no signature\n    errors: %s", cw, w, errsString(out.Errs))
					}
				}
				if len(out.Sigs) == 0 {
					continue
				}
				// (2) all obtained signatures are byte-equal (published encoding)
				var first []byte
				var firstSig sigT
				equal := true
				for _, w := range sortedKeys(out.Sigs) {
					b, err := c.wire(out.Sigs[w])
					if err != nil {
						x.Failf(fk+"/serialize", "%s: signature of %s does not serialise\n    error: %v", cw, w, err)
						equal = false
						continue
					}
					if first == nil {
						first, firstSig = b, out.Sigs[w]
					} else if !bytes.Equal(first, b) {
						equal = false
						x.Failf(fk+"/different-signatures", "%s: %s obtained %x, another holder obtained %x", cw, w, b, first)
					}
				}
				if first == nil {
					continue
				}
				// (3) the independent verifier accepts exactly (message, group public key)
				if ok, why := c.refVerify(pk.Value(), firstSig, first, raw, m, scheme); !ok {
					x.Failf(fk+"/independent-verifier-rejects", "%s: the independent verifier rejects the signature %x: %s", cw, first, why)
				}
				// (4) the library's own single-party verifier accepts (the object and, where a decoder exists, the
				// re-decoded published encoding)
				vf, err := scheme.Verifier()
				if err != nil {
					panic(engine.HarnessError{Msg: err.Error()})
				}
				for _, w := range sortedKeys(out.Sigs) {
					if err := vf.Verify(out.Sigs[w], pk, m); err != nil {
						x.Failf(fk+"/library-verifier-rejects/"+holderClass(w), "%s: the library verifier rejects the signature obtained by %s\n    error: %v", cw, w, err)
					}
				}
				var decoded sigT
				if c.reparse != nil {
					decoded, err = c.reparse(first)
					if err != nil {
						x.Failf(fk+"/decode", "%s: the published signature %x does not decode\n    error: %v", cw, first, err)
					} else if err := vf.Verify(decoded, pk, m); err != nil {
						x.Failf(fk+"/library-verifier-rejects/decoded", "%s: the library verifier rejects the decoded published signature %x\n    error: %v", cw, first, err)
					}
				}
				// (5) both verifiers reject the same signature for the next message of the alphabet
				ni := nextMsg(mi)
				nraw := message(ni)
				nm := c.msg(nraw)
				if ok, _ := c.refVerify(pk.Value(), firstSig, first, nraw, nm, scheme); ok {
					x.Failf(fk+"/independent-verifier-accepts-other-message", "%s: the independent verifier accepts the signature for message %s", cw, msgNames[ni])
				}
				if err := vf.Verify(firstSig, pk, nm); err == nil {
					x.Failf(fk+"/library-verifier-accepts-other-message", "%s: the library verifier accepts the signature for message %s", cw, msgNames[ni])
				}
				// (6b) the outside aggregator refuses every unqualified sub-collection of valid partial signatures
				for i, e := range subErr {
					if e == nil {
						x.Failf(fk+"/aggregator-accepts-unqualified", "%s: the aggregator produced a signature from the partial signatures of the UNQUALIFIED subset %s", cw, idsString(subs[i]))
					} else {
						nRef++
					}
				}
				_ = subMasks
				if !missing && equal {
					nAcc++
				}
				if c.note != nil {
					notes = append(notes, c.note(pk.Value(), firstSig))
				}
			}
		}
		// (6a) every unqualified party set of size >= 2 is refused by the cosigner constructors (or, if every
		// constructor accepts, the run must not end with a signature)
		if api == apiRounds {
			for _, u := range s.unqualified {
				set := catalog.Subset(a.IDs, u)
				label := fmt.Sprintf("%s|%s|%s|%s|u%b", c.name, s.e.Name, a.Name, kg, u)
				x.Case(label)
				scheme := c.mkScheme(label)
				res := proto.C01Lindell22New(scheme.Variant(), shards, set, seed, label)
				accepted := 0
				for _, id := range set {
					if res[id] == nil {
						accepted++
					}
				}
				switch {
				case accepted == 0:
					nRef++
				case accepted < len(set):
					nRef++ // the refusing members never send: nobody can obtain a signature
				default:
					out, _ := proto.C01Lindell22Rounds(scheme, shards, set, c.msg(message(1)), seed, label, nil)
					if len(out.Sigs) > 0 {
						x.Failf("lindell22/"+c.keyName+"/unqualified-quorum-signs", "%s: the UNQUALIFIED party set %s obtained a signature (%v)", where, idsString(set), sortedKeys(out.Sigs))
					} else {
						x.Failf("lindell22/"+c.keyName+"/unqualified-quorum-not-refused-at-construction", "%s: every cosigner constructor accepted the UNQUALIFIED party set %s \n    (the run then failed: %s)", where, idsString(set), errsString(out.Errs))
					}
				}
			}
		}
		slices.Sort(notes)
		x.Observe(c.name, s.e.Name, a.Name, kg, apiNames[api], "signed", nAcc, "refusals", nRef, slices.Compact(notes))
	}
	return l22Flavour{name: c.name, leaf: leaf}
}

func holderClass(w string) string {
	switch {
	case w == "agg/outside":
		return "outside-aggregator"
	case len(w) > 10 && w[:10] == "agg/party/":
		return "cosigning-aggregator"
	default:
		return "party"
	}
}

func sortedKeys[V any](m map[string]V) []string {
	out := make([]string, 0, len(m))
	for k := range m {
		out = append(out, k)
	}
	slices.Sort(out)
	return out
}

func be32(v *big.Int) []byte { return v.FillBytes(make([]byte, 32)) }

func le32(v *big.Int) []byte {
	b := be32(v)
	slices.Reverse(b)
	return b
}

// ---------------------------------------------------------------------------------------------------------------
// the flavours

func bip340Flavour() l22Flavour {
	ad := libcurve.K256()
	return mkL22(l22Cfg[*bip340.Scheme, *bip340.Variant, *k256.Point, *k256.Scalar, bip340.Message, *bip340.KeyGenerator, *bip340.Signer, *bip340.Verifier]{
		name: "bip340", groupName: "k256", group: k256.NewCurve(),
		mkScheme: func(label string) *bip340.Scheme {
			s, err := bip340.NewScheme(det.New(engine.Seed(), "c01/bip340-scheme/"+label))
			if err != nil {
				panic(engine.HarnessError{Msg: err.Error()})
			}
			return s
		},
		msg:     func(b []byte) bip340.Message { return b },
		wire:    bip340.SerializeSignature,
		reparse: bip340.NewSignatureFromBytes,
		refVerify: func(pk *k256.Point, s *bip340.Signature, wire, raw []byte, _ bip340.Message, _ *bip340.Scheme) (bool, string) {
			// the 64 signature bytes and the 32 key bytes are rebuilt from affine coordinates, not taken from the library
			P, err := ad.TryToRef(pk)
			if err != nil || P.Inf {
				return false, fmt.Sprintf("public key is not a finite point of the reference curve: %v", err)
			}
			R, err := ad.TryToRef(s.R)
			if err != nil || R.Inf {
				return false, fmt.Sprintf("R is not a finite point of the reference curve: %v", err)
			}
			sig64 := append(be32(R.X), be32(conv.ToBig(s.S))...)
			if !bytes.Equal(sig64, wire) {
				return false, fmt.Sprintf("SerializeSignature gives %x, bytes(R.x)||bytes(s) is %x", wire, sig64)
			}
			if !sig.BIP340Verify(be32(P.X), raw, sig64) {
				return false, "BIP-340 verification algorithm fails on (bytes(P.x), m, bytes(R.x)||bytes(s))"
			}
			return true, ""
		},
		note: func(pk *k256.Point, s *bip340.Signature) string {
			return fmt.Sprintf("P.y odd=%v", ad.ToRef(pk).Y.Bit(0) == 1)
		},
	})
}

type vanillaCfg struct {
	name   string
	hash   string
	le     bool
	neg    bool
	parity bool
}

func vanillaFlavour[GE algebra.PrimeGroupElement[GE, S], S algebra.PrimeFieldElement[S], RP any](cfg vanillaCfg, groupName string, group algebra.PrimeGroup[GE, S], ref sig.SchnorrGroup[RP], toRef func(GE) (RP, error), odd func(RP) bool) l22Flavour {
	h := sha256.New
	if cfg.hash == "sha512" {
		h = sha512.New
	}
	rcfg := sig.SchnorrConfig{Hash: h, LittleEndian: cfg.le, NegResponse: cfg.neg}
	return mkL22(l22Cfg[*vanilla.Scheme[GE, S], *vanilla.Variant[GE, S], GE, S, vanilla.Message, *vanilla.KeyGenerator[GE, S], *vanilla.Signer[GE, S], *vanilla.Verifier[GE, S]]{
		name: cfg.name, groupName: groupName, group: group,
		mkScheme: func(label string) *vanilla.Scheme[GE, S] {
			var neg func(GE) bool
			if cfg.parity {
				// a signer-side nonce rule; threshold signing does not use ComputeNonceCommitment, so it must not matter
				neg = func(r GE) bool { p, err := toRef(r); return err == nil && odd(p) }
			}
			s, err := vanilla.NewScheme(group, h, cfg.neg, cfg.le, neg, det.New(engine.Seed(), "c01/vanilla-scheme/"+label))
			if err != nil {
				panic(engine.HarnessError{Msg: err.Error()})
			}
			return s
		},
		msg: func(b []byte) vanilla.Message { return b },
		wire: func(s *vanilla.Signature[GE, S]) ([]byte, error) {
			return append(append([]byte{}, s.R.Bytes()...), s.S.Bytes()...), nil
		},
		refVerify: func(pk GE, s *vanilla.Signature[GE, S], _ []byte, raw []byte, _ vanilla.Message, _ *vanilla.Scheme[GE, S]) (bool, string) {
			P, err := toRef(pk)
			if err != nil {
				return false, fmt.Sprintf("public key is not a point of the reference group: %v", err)
			}
			R, err := toRef(s.R)
			if err != nil {
				return false, fmt.Sprintf("R is not a point of the reference group: %v", err)
			}
			if !sig.SchnorrVerify(ref, rcfg, P, R, conv.ToBig(s.S), raw) {
				return false, fmt.Sprintf("s*G != R %s e*P with e = H(R||P||m) (hash %s, littleEndian=%v)", map[bool]string{false: "+", true: "-"}[cfg.neg], cfg.hash, cfg.le)
			}
			return true, ""
		},
	})
}

func minaFlavour(nid mina.NetworkID) l22Flavour {
	ad := libcurve.Pallas()
	G := sig.PallasGroup()
	return mkL22(l22Cfg[*mina.Scheme, *mina.Variant, *pasta.PallasPoint, *pasta.PallasScalar, *mina.Message, *mina.KeyGenerator, *mina.Signer, *mina.Verifier]{
		name: "mina-" + string(nid), keyName: "mina", groupName: "pallas", group: pasta.NewPallasCurve(),
		mkScheme: func(label string) *mina.Scheme {
			s, err := mina.NewRandomisedScheme(nid, det.New(engine.Seed(), "c01/mina-scheme/"+label))
			if err != nil {
				panic(engine.HarnessError{Msg: err.Error()})
			}
			return s
		},
		msg: func(b []byte) *mina.Message {
			m := new(mina.ROInput).Init()
			m.AddString(string(b))
			return m
		},
		wire:    mina.SerializeSignature,
		reparse: mina.DeserializeSignature,
		refVerify: func(pk *pasta.PallasPoint, s *mina.Signature, wire, _ []byte, m *mina.Message, scheme *mina.Scheme) (bool, string) {
			// what a Mina verifier sees is (R.x, s), 2 x 32 bytes little-endian; R is the point with that x and EVEN y
			P, err := ad.TryToRef(pk)
			if err != nil || P.Inf {
				return false, fmt.Sprintf("public key is not a finite point of the reference curve: %v", err)
			}
			Rs, err := ad.TryToRef(s.R)
			if err != nil || Rs.Inf {
				return false, fmt.Sprintf("R is not a finite point of the reference curve: %v", err)
			}
			want := append(le32(Rs.X), le32(conv.ToBig(s.S))...)
			if !bytes.Equal(want, wire) {
				return false, fmt.Sprintf("SerializeSignature gives %x, le(R.x)||le(s) is %x", wire, want)
			}
			R, ok := curve.LiftXOdd(ad.Ref, Rs.X, false)
			if !ok {
				return false, "R.x is not the abscissa of a curve point"
			}
			// the Poseidon challenge is taken from the library (stated assumption); it depends on R only through R.x
			e, err := scheme.Variant().ComputeChallenge(ad.ToLib(R), pk, m)
			if err != nil {
				return false, fmt.Sprintf("ComputeChallenge: %v", err)
			}
			if !sig.SchnorrVerifyWithChallenge[curve.FpPoint](G, false, P, R, conv.ToBig(s.S), conv.ToBig(e)) {
				return false, "s*G != R + e*P for R = lift_even_y(R.x)"
			}
			return true, ""
		},
		note: func(_ *pasta.PallasPoint, s *mina.Signature) string {
			return fmt.Sprintf("sig.R.y odd=%v", ad.ToRef(s.R).Y.Bit(0) == 1)
		},
	})
}

func l22Flavours() []l22Flavour {
	ak := libcurve.K256()
	ae := libcurve.Edwards25519Prime()
	oddW := func(p curve.FpPoint) bool { return !p.Inf && p.Y.Bit(0) == 1 }
	oddE := func(p curve.EPoint) bool { return p.X.Bit(0) == 1 }
	fl := []l22Flavour{
		bip340Flavour(),
		vanillaFlavour(vanillaCfg{name: "schnorr-k256/sha256/be/plus", hash: "sha256"}, "k256", k256.NewCurve(), sig.K256Group(), ak.TryToRef, oddW),
		vanillaFlavour(vanillaCfg{name: "schnorr-ed25519/sha512/le/minus", hash: "sha512", le: true, neg: true}, "ed25519", edwards25519.NewPrimeSubGroup(), sig.Ed25519Group(), ae.TryToRef, oddE),
		minaFlavour(mina.MainNet),
	}
	if engine.Thorough() {
		fl = append(fl,
			vanillaFlavour(vanillaCfg{name: "schnorr-k256/sha512/le/minus/parity", hash: "sha512", le: true, neg: true, parity: true}, "k256", k256.NewCurve(), sig.K256Group(), ak.TryToRef, oddW),
			vanillaFlavour(vanillaCfg{name: "schnorr-ed25519/sha256/be/plus", hash: "sha256"}, "ed25519", edwards25519.NewPrimeSubGroup(), sig.Ed25519Group(), ae.TryToRef, oddE),
			minaFlavour(mina.TestNet),
		)
	}
	return fl
}

// l22Leaf is one execution: (flavour, structure, identifier assignment, key generation) with its message list; the
// qualified quorums x messages are the inner loop.
type l22Leaf struct {
	f    l22Flavour
	s    *structure
	a    catalog.IDAssignment
	kg   proto.C01Keygen
	msgs []int
}

// l22Leaves enumerates flavour x structure x identifier assignment x key generation; plan decides the messages of a
// leaf (nil = not in the space of this section). The space is flattened into ONE choice point so that process
// sharding splits it evenly.
func l22Leaves(structs []*structure, plan func(f string, s *structure, a catalog.IDAssignment, kg proto.C01Keygen) []int) []l22Leaf {
	var out []l22Leaf
	for _, f := range l22Flavours() {
		if o := os.Getenv("C01_FLAVOUR"); o != "" && !strings.Contains(f.name, o) {
			continue // debugging aid: restrict the flavours
		}
		for _, s := range structs {
			for _, a := range catalog.AssignmentsFor(s.e) {
				for _, kg := range []proto.C01Keygen{proto.C01Dealer, proto.C01Gennaro, proto.C01Canetti} {
					if msgs := plan(f.name, s, a, kg); len(msgs) > 0 {
						out = append(out, l22Leaf{f, s, a, kg, msgs})
					}
				}
			}
		}
	}
	return out
}

func l22Body(api int, leaves []l22Leaf) func(*engine.X) {
	leaves = capLeaves(leaves)
	return func(x *engine.X) {
		i, ok := slot(x, len(leaves), api == apiRunner)
		if !ok {
			return
		}
		l := leaves[i]
		l.f.leaf(x, l.s, l.a, l.kg, api, l.msgs)
	}
}

var _ = bits.OnesCount64
