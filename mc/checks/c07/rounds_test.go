package c07

// Round-by-round drivers for the protocols that have no network runner (or that are explored through their round
// functions): all parties in one goroutine, every message encoded to CBOR exactly as it would go on the wire and
// handed to the recipient as a freshly decoded object. No scheduler is involved, so these cases run in parallel.

import (
	"fmt"
	"runtime/debug"
	"sort"
	"strings"

	"github.com/bronlabs/bron-crypto/pkg/base/curves/k256"
	ds "github.com/bronlabs/bron-crypto/pkg/base/datastructures"
	"github.com/bronlabs/bron-crypto/pkg/base/serde"
	"github.com/bronlabs/bron-crypto/pkg/mcrt"
	"github.com/bronlabs/bron-crypto/pkg/mpc/sharing/accessstructures"
	"github.com/bronlabs/bron-crypto/pkg/mpc/zero/hjky"

	"verifmc/proto"
)

// drv collects what a round-by-round execution produces.
type drv struct {
	o      *outcome
	ids    []ID
	taps   map[ID]*tap
	failed bool
}

func newDrv(ids []ID, taps map[ID]*tap) *drv {
	d := &drv{o: &outcome{parties: map[ID]*pres{}, joint: map[string]string{}, round1: map[ID]string{}}, ids: ids, taps: taps}
	for _, id := range ids {
		d.o.parties[id] = &pres{}
	}
	return d
}

// step runs one round function of one party; an error or panic ends the execution (the other parties are starved,
// exactly as they would be on a network when a peer stops sending).
func (d *drv) step(id ID, what string, f func() error) bool {
	if d.failed {
		return false
	}
	var err error
	func() {
		defer func() {
			if p := recover(); p != nil {
				d.o.parties[id].panic = fmt.Sprintf("%s: %v | %s", what, p, trimStack(string(debug.Stack())))
			}
		}()
		err = f()
	}()
	if err != nil || d.o.parties[id].panic != "" {
		d.o.parties[id].err = err
		d.failed = true
		for _, o := range d.ids {
			if o != id {
				d.o.parties[o].starved = true
			}
		}
		return false
	}
	return true
}

func trimStack(st string) string {
	var out []string
	for _, l := range strings.Split(st, "\n") {
		if strings.Contains(l, ".go:") && !strings.Contains(l, "/runtime/") && !strings.Contains(l, "rounds_test.go") {
			out = append(out, strings.TrimSpace(l))
		}
		if len(out) > 6 {
			break
		}
	}
	return strings.Join(out, " | ")
}

// sent records one message (to==0: broadcast) under round name "<round>" as "<round>BROADCAST:" / "<round>UNICAST:".
func (d *drv) sent(round string, from, to ID, m any) {
	b, err := serde.MarshalCBOR(m)
	if err != nil {
		panic(fmt.Sprintf("c07: honest round message %T does not encode: %v", m, err))
	}
	cid := round + "UNICAST:"
	if to == 0 {
		cid = round + "BROADCAST:"
	}
	if t := d.taps[from]; t != nil && t.atFirstSend < 0 {
		t.atFirstSend = t.Bytes
	}
	if _, ok := d.o.round1[from]; !ok {
		d.o.round1[from] = round
	}
	d.o.msgs = append(d.o.msgs, &msg{key: fmt.Sprintf("%s|%d>%d#0", cid, from, to), cid: cid, from: from, to: to, payload: b})
}

func sentUnicasts[M any](d *drv, round string, from ID, u ds.Map[ID, M]) {
	if u == nil {
		return
	}
	var tos []ID
	for to := range u.Iter() {
		tos = append(tos, to)
	}
	for _, to := range proto.Sorted(tos) {
		m, _ := u.Get(to)
		d.sent(round, from, to, m)
	}
}

func (d *drv) finish() *outcome {
	if !d.failed {
		for _, id := range d.ids {
			d.o.parties[id].ok = true
		}
	}
	sort.Slice(d.o.msgs, func(i, j int) bool { return d.o.msgs[i].key < d.o.msgs[j].key })
	return d.o
}

// hjkyCase: HJKY zero sharing on k256 through its two round functions.
func hjkyCase(cfg string, ac accessstructures.Monotone, ids []ID) *kase {
	name := "hjky/" + cfg
	return &kase{name: name, ids: ids, run: func(_ mcrt.Chooser, ks int64, sess int, taps map[ID]*tap) *outcome {
		d := newDrv(ids, taps)
		ctxs := proto.Contexts(ids, ks, ctxLabel(name, sess))
		ps := map[ID]*hjky.Participant[*k256.Point, *k256.Scalar]{}
		for _, id := range ids {
			d.step(id, "NewParticipant", func() (err error) {
				ps[id], err = hjky.NewParticipant(ctxs[id], ac, k256.NewCurve(), rd(taps, id))
				return err
			})
		}
		r1b := map[ID]*hjky.Round1Broadcast[*k256.Point, *k256.Scalar]{}
		r1u := map[ID]ds.Map[ID, *hjky.Round1P2P[*k256.Point, *k256.Scalar]]{}
		for _, id := range ids {
			d.step(id, "Round1", func() error {
				b, u, err := ps[id].Round1()
				if err != nil {
					return err
				}
				r1b[id], r1u[id] = b, u
				d.sent("HJKYRound1", id, 0, b)
				sentUnicasts(d, "HJKYRound1", id, u)
				return nil
			})
		}
		if d.failed {
			return d.finish()
		}
		inb, inu := proto.DeliverBroadcast(ids, r1b), proto.DeliverUnicast(ids, r1u)
		for _, id := range ids {
			d.step(id, "Round2", func() error {
				sh, _, err := ps[id].Round2(inb[id], inu[id])
				if err != nil {
					return err
				}
				for k, v := range sh.Value() {
					d.o.joint[fmt.Sprintf("zeroshare/%d/%d", id, k)] = hx(v.Bytes())
				}
				return nil
			})
		}
		return d.finish()
	}}
}
