#!/bin/bash
# Generates the SCHED build overlay for C11 from the current /repo tree: instrumented pkg/network + mcrt + state dump.
set -eu
out=$1
rm -rf "$out"; mkdir -p "$out"
V=${VERIF:-/verif}
cd "$V/mc"
go run ./instrument -repo /repo -verif "$V" -out "$out"
