package c05

import (
	"fmt"
	"math/big"

	"github.com/bronlabs/bron-crypto/pkg/base/algebra"
	pedcom "github.com/bronlabs/bron-crypto/pkg/commitments/pedersencom"
	"github.com/bronlabs/bron-crypto/pkg/mpc/sharing/scheme/kw"
	"github.com/bronlabs/bron-crypto/pkg/mpc/sharing/vss/pedersen"

	"verifmc/catalog"
	"verifmc/engine"
)

// customGBody: Pedersen VSS under a commitment key whose g is NOT the group's canonical generator (g = [mul]G,
// h = [lambda]g). The full fault model of the main sections is expressed in exponents relative to the canonical
// generator; here the basic clauses are checked directly: every dealt share verifies against the dealer's vector,
// a share with one coordinate altered does not, a share presented under another holder's identity does not, and the
// combination of two dealings verifies exactly the sum of the shares.
func customGBody[E algebra.PrimeGroupElement[E, S], S algebra.PrimeFieldElement[S]](g gctx[E, S]) func(*engine.X) {
	return func(x *engine.X) {
		entries := catalog.Small()
		e := entries[x.Choose("structure", len(entries))]
		if e.Refusal != catalog.None || e.P.N > 4 {
			x.Trivial()
			return
		}
		ids := catalog.IDAssignments(e.P.N)[0]
		ac, err := catalog.Build(e.P, ids.IDs)
		if err != nil {
			x.Trivial()
			return
		}
		mul := []int64{5, -1}[x.Choose("g-multiple", 2)]
		base := g.group.Generator().ScalarOp(g.el(big.NewInt(mul)))
		tk, err := pedcom.NewTrapdoorKey(base, g.el(g.h))
		if err != nil {
			panic(engine.HarnessError{Msg: "trapdoor key with custom g: " + err.Error()})
		}
		key := fmt.Sprintf("pedersen/custom-g/%s/%s/g=%dG", g.name, e.Name, mul)
		ps, err := pedersen.NewScheme(tk.Export(), ac)
		if err != nil {
			x.Failf("pedersen/custom-g/scheme", "%s: NewScheme refused a valid key: %v", key, err)
			return
		}
		type dealt = struct {
			shares map[uint64]*pedersen.Share[S]
			vv     *pedersen.VerificationVector[E, S]
		}
		deal := func(d int) *dealt {
			do, _, err := ps.DealAndRevealDealerFunc(kw.NewSecret(g.el(dealSecret(g.q, g.name, d))), newStream(fmt.Sprintf("%s/custom-g/%s/%d/%d", g.name, e.Name, mul, d)))
			if err != nil {
				x.Failf("pedersen/custom-g/deal", "%s: dealing failed: %v", key, err)
				return nil
			}
			out := &dealt{shares: map[uint64]*pedersen.Share[S]{}, vv: do.VerificationMaterial()}
			for _, id := range ids.IDs {
				if sh, ok := do.Shares().Get(id); ok {
					out.shares[uint64(id)] = sh
				}
			}
			return out
		}
		d1, d2 := deal(1), deal(2)
		if d1 == nil || d2 == nil {
			return
		}
		vsum, err := d1.vv.Op(d2.vv)
		if err != nil {
			x.Failf("pedersen/custom-g/vv-op", "%s: V1*V2 failed: %v", key, err)
			return
		}
		for _, id := range ids.IDs {
			sh := d1.shares[uint64(id)]
			if sh == nil {
				continue
			}
			x.Case(fmt.Sprintf("%s/holder%d", key, id))
			if err := ps.Verify(sh, d1.vv); err != nil {
				x.Failf("pedersen/custom-g/honest-rejected", "%s: the dealer's own share of holder %d does not verify against the dealer's vector: %v", key, id, err)
			}
			if err := ps.Verify(sh, d2.vv); err == nil {
				x.Failf("pedersen/custom-g/foreign-vector-accepted", "%s: holder %d's share of dealing 1 verifies against the vector of dealing 2", key, id)
			}
			sum := sh.Add(d2.shares[uint64(id)])
			if err := ps.Verify(sum, vsum); err != nil {
				x.Failf("pedersen/custom-g/combined-rejected", "%s: share1+share2 of holder %d does not verify against V1*V2: %v", key, id, err)
			}
			if err := ps.Verify(sh, vsum); err == nil {
				x.Failf("pedersen/custom-g/partial-sum-accepted", "%s: share1 of holder %d verifies against V1*V2", key, id)
			}
		}
		x.Observe(e.Name, mul)
	}
}
