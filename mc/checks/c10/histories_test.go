package c10

import (
	"bytes"
	"fmt"

	"github.com/bronlabs/bron-crypto/pkg/base/curves/k256"
	"github.com/bronlabs/bron-crypto/pkg/base/datastructures/hashset"
	"github.com/bronlabs/bron-crypto/pkg/mpc/session"
	"github.com/bronlabs/bron-crypto/pkg/mpc/sharing"

	"verifmc/engine"
)

// Derivation HISTORIES: parties do not derive the same sub-contexts in the same order in real use. Every history of
// up to two "private" derivations (one party derives some sub-quorum it belongs to, alone) followed by a joint
// derivation of a target sub-quorum by all its members is executed; deriving a context must be a pure function of
// (parent, sub-quorum): the members of the target still agree, the same derivation repeated gives the same
// context, parents still agree afterwards, and zero shares still sum to the identity over target and parent.
func historiesBody(x *engine.X) {
	ids := []sharing.ID{1, 2, 3, 4}
	if x.Choose("ids", 2) == 1 {
		ids = []sharing.ID{7, 3, 64, 12}
	}
	seed := engine.Seed()*1000 + 77
	sr := runSession(ids, sessionStreams(seed, "H", "H", 0), false, nil)
	ctxs := map[sharing.ID]*session.Context{}
	for _, id := range ids {
		pt := sr.parties[id]
		if !pt.alive() || pt.ctx == nil {
			panic(engine.HarnessError{Msg: fmt.Sprintf("honest session failed at party %d: %s", id, pt.outcome())})
		}
		ctxs[id] = pt.ctx
	}
	subsets := [][]sharing.ID{}
	for mask := 1; mask < 1<<len(ids); mask++ {
		var q []sharing.ID
		for i, id := range ids {
			if mask>>i&1 == 1 {
				q = append(q, id)
			}
		}
		if len(q) >= 2 {
			subsets = append(subsets, q)
		}
	}
	derive := func(p sharing.ID, q []sharing.ID) *session.Context {
		c, err := ctxs[p].SubContext(hashset.NewComparable(q...).Freeze())
		if err != nil {
			x.Failf("history/subcontext-error", "party %d: SubContext(%v) failed: %v", p, q, err)
			return nil
		}
		return c
	}
	var hist []string
	m := x.Choose("private-derivations", 3)
	for i := 0; i < m; i++ {
		p := ids[x.Choose("party", len(ids))]
		var mine [][]sharing.ID
		for _, q := range subsets {
			if contains(q, p) {
				mine = append(mine, q)
			}
		}
		q := mine[x.Choose("subquorum", len(mine))]
		derive(p, q)
		hist = append(hist, fmt.Sprintf("%d:%v", p, q))
	}
	target := subsets[x.Choose("target", len(subsets))]
	where := fmt.Sprintf("after private derivations %v, joint derivation of %v", hist, target)
	sub := map[sharing.ID]*session.Context{}
	for _, p := range target {
		sub[p] = derive(p, target)
		if sub[p] == nil {
			return
		}
	}
	x.Case(where)
	// agreement inside the target
	agree(x, "history/", where, sub, sorted(target))
	// the same derivation repeated gives the same context
	for _, p := range target {
		again := derive(p, target)
		if again == nil {
			return
		}
		if !bytes.Equal(probe(again), probe(sub[p])) {
			x.Failf("history/repeat-transcript", "%s: party %d deriving the same sub-quorum twice gets different transcript states", where, p)
		}
		for _, o := range target {
			if o != p && !bytes.Equal(seed64(again, o), seed64(sub[p], o)) {
				x.Failf("history/repeat-seed", "%s: party %d deriving the same sub-quorum twice gets different pairwise seeds for %d", where, p, o)
			}
		}
	}
	// zero shares over the target and over the parent still sum to the identity
	zg := mkZeroGroup("k256-scalars", k256.NewScalarField())
	zg.run(x, "history", where+" [target]", ctxList(sub, sorted(target)))
	zg.run(x, "history", where+" [parent]", ctxList(ctxs, sorted(ids)))
	agree(x, "history/parent-", where, ctxs, sorted(ids))
	x.Observe(m, len(target))
}
