package c17

import (
	"fmt"
	"io"
	"math/big"
	"os"
	"sync"
	"time"

	"github.com/bronlabs/bron-crypto/pkg/base/nt"
	"github.com/bronlabs/bron-crypto/pkg/base/nt/cardinal"
	"github.com/bronlabs/bron-crypto/pkg/base/nt/num"
	"github.com/bronlabs/bron-crypto/pkg/base/nt/numct"
	"github.com/bronlabs/bron-crypto/pkg/base/nt/znstar"
	"github.com/bronlabs/bron-crypto/pkg/base/prng/pcg"

	"verifmc/engine"
)

// ---------------------------------------------------------------------------------------------------------------
// znstar: RSA groups (Z/NZ)* and Paillier groups (Z/N^2Z)* in both views

type zsCfg struct {
	name     string
	p, q     *big.Int
	paillier bool
	known    bool
}

func zsCfgs() []zsCfg {
	var out []zsCfg
	rsaPairs := [][2]*big.Int{{bi(5), bi(7)}, {bi(11), bi(13)}, {bi(17), bi(19)}, {p64a, p64b}}
	if engine.Thorough() {
		rsaPairs = append(rsaPairs, [2]*big.Int{bi(29), bi(31)}, [2]*big.Int{bi(37), bi(41)}, [2]*big.Int{new(big.Int).Sub(pow2(127), bi(1)), prevPrime(new(big.Int).Sub(pow2(127), bi(3)))})
	}
	for _, pq := range rsaPairs {
		for _, known := range []bool{true, false} {
			out = append(out, zsCfg{fmt.Sprintf("RSA(%s,%s,known=%v)", show(pq[0]), show(pq[1]), known), pq[0], pq[1], false, known})
		}
	}
	for _, pq := range [][2]*big.Int{{bi(5), bi(7)}, {bi(11), bi(13)}, {p64a, p64b}} {
		for _, known := range []bool{true, false} {
			out = append(out, zsCfg{fmt.Sprintf("Paillier(%s,%s,known=%v)", show(pq[0]), show(pq[1]), known), pq[0], pq[1], true, known})
		}
	}
	return out
}

// prevPrime returns the largest prime <= v (deterministic search).
func prevPrime(v *big.Int) *big.Int {
	p := new(big.Int).Set(v)
	if p.Bit(0) == 0 {
		p.Sub(p, bi(1))
	}
	for !p.ProbablyPrime(32) {
		p.Sub(p, bi(2))
	}
	return p
}

// elem is the common surface of the four concrete element types that the body needs.
type zsElem interface {
	Value() *num.Uint
	Jacobi() (int, error)
	IsTorsionFree() bool
	IsOne() bool
}

type zsGroup[E any] interface {
	FromNat(*num.Nat) (E, error)
	FromUint64(uint64) (E, error)
	FromBytes([]byte) (E, error)
	One() E
	Modulus() *num.NatPlus
	Order() cardinal.Cardinal
	IsUnknownOrder() bool
}

type zsOps[E any] interface {
	zsElem
	Mul(E) E
	Square() E
	Inv() E
	TryInv() (E, error)
	Div(E) E
	TryDiv(E) (E, error)
	Exp(*num.Nat) E
	ExpI(*num.Int) E
	ExpBounded(*num.Nat, uint) E
	ExpIBounded(*num.Int, uint) E
	Equal(E) bool
}

func znstarBody() func(*engine.X) {
	cfgs := zsCfgs()
	return func(x *engine.X) {
		cfg := cfgs[x.Choose("group", len(cfgs))]
		n := new(big.Int).Mul(cfg.p, cfg.q)
		amb := n
		if cfg.paillier {
			amb = new(big.Int).Mul(n, n)
		}
		// element alphabet: every residue of the ambient modulus when it is small, else a boundary alphabet
		var vals []*big.Int
		small := amb.IsInt64() && amb.Int64() <= 2000
		if small {
			for v := int64(0); v < amb.Int64(); v++ {
				vals = append(vals, bi(v))
			}
		} else {
			one := bi(1)
			for _, v := range append(natVsmall(), new(big.Int).Sub(amb, one), new(big.Int).Sub(amb, bi(2)), new(big.Int).Rsh(amb, 1), cfg.p, cfg.q, n, new(big.Int).Add(n, one), new(big.Int).Sub(n, one), new(big.Int).Mul(cfg.p, bi(2))) {
				vals = append(vals, new(big.Int).Mod(v, amb))
			}
			vals = dedupSort(vals)
		}
		part := 0
		if small {
			part = x.Choose("block", 8) // the quadratic part is split into 8 blocks of first operands
		}
		guard(x, "znstar/body", func() string { return cfg.name }, func() {
			pN, qN := mustNP(cfg.p), mustNP(cfg.q)
			switch {
			case !cfg.paillier && cfg.known:
				g, err := znstar.NewRSAGroup(pN, qN)
				if err != nil {
					failf(x, "znstar/setup", "%s: %v", cfg.name, err)
					return
				}
				zsRun[*znstar.RSAGroupElementKnownOrder](x, cfg, g, n, amb, vals, part)
				u := g.ForgetOrder()
				eqBool(x, "znstar/forgetorder", func() string { return cfg.name + ".ForgetOrder().IsUnknownOrder" }, u.IsUnknownOrder(), true)
				eqBig(x, "znstar/forgetorder", func() string { return cfg.name + ".ForgetOrder().Modulus" }, u.Modulus(), amb)
			case !cfg.paillier && !cfg.known:
				g, err := znstar.NewRSAGroupOfUnknownOrder(mustNP(n))
				if err != nil {
					failf(x, "znstar/setup", "%s: %v", cfg.name, err)
					return
				}
				zsRun[*znstar.RSAGroupElementUnknownOrder](x, cfg, g, n, amb, vals, part)
			case cfg.paillier && cfg.known:
				g, err := znstar.NewPaillierGroup(pN, qN)
				if err != nil {
					failf(x, "znstar/setup", "%s: %v", cfg.name, err)
					return
				}
				zsRun[*znstar.PaillierGroupElementKnownOrder](x, cfg, g, n, amb, vals, part)
				zsPaillier[*znstar.PaillierGroupElementKnownOrder](x, cfg, g, n, amb, vals, part)
			default:
				g, err := znstar.NewPaillierGroupOfUnknownOrder(mustNP(amb), mustNP(n))
				if err != nil {
					failf(x, "znstar/setup", "%s: %v", cfg.name, err)
					return
				}
				zsRun[*znstar.PaillierGroupElementUnknownOrder](x, cfg, g, n, amb, vals, part)
				zsPaillier[*znstar.PaillierGroupElementUnknownOrder](x, cfg, g, n, amb, vals, part)
				if _, err := znstar.NewPaillierGroupOfUnknownOrder(mustNP(new(big.Int).Add(amb, bi(1))), mustNP(n)); err == nil {
					failf(x, "znstar/setup/refusal", "NewPaillierGroupOfUnknownOrder accepted n2 != n*n")
				}
			}
		})
		if part == 0 {
			// constructors refuse unequal lengths / composites
			guard(x, "znstar/setup/refusal", func() string { return "NewRSAGroup refusals" }, func() {
				if _, err := znstar.NewRSAGroup(mustNP(bi(3)), mustNP(bi(5))); err == nil {
					failf(x, "znstar/setup/refusal", "NewRSAGroup(3,5) accepted primes of different length")
				}
				if _, err := znstar.NewRSAGroup(mustNP(bi(9)), mustNP(bi(11))); err == nil {
					failf(x, "znstar/setup/refusal", "NewRSAGroup(9,11) accepted a composite")
				}
				if _, err := znstar.NewPaillierGroup(mustNP(bi(15)), mustNP(bi(13))); err == nil {
					failf(x, "znstar/setup/refusal", "NewPaillierGroup(15,13) accepted a composite")
				}
			})
		}
		x.Observe(cfg.name, part)
	}
}

func zsRun[E zsOps[E]](x *engine.X, cfg zsCfg, g zsGroup[E], n, amb *big.Int, vals []*big.Int, part int) {
	one := bi(1)
	red := func(v *big.Int) *big.Int { return new(big.Int).Mod(v, amb) }
	isUnit := func(v *big.Int) bool { return new(big.Int).GCD(nil, nil, v, amb).Cmp(one) == 0 }
	if g.IsUnknownOrder() == cfg.known {
		failf(x, "znstar/isunknownorder", "%s.IsUnknownOrder() = %v", cfg.name, g.IsUnknownOrder())
	}
	eqBig(x, "znstar/modulus", func() string { return cfg.name + ".Modulus" }, g.Modulus(), amb)
	if cfg.known {
		phi := new(big.Int).Mul(new(big.Int).Sub(cfg.p, one), new(big.Int).Sub(cfg.q, one))
		if cfg.paillier {
			phi.Mul(phi, n)
		}
		eqBig(x, "znstar/order", func() string { return cfg.name + ".Order" }, g.Order(), phi)
	} else if !g.Order().IsUnknown() {
		failf(x, "znstar/order", "%s.Order() is known in the unknown-order view", cfg.name)
	}
	// quadratic residues modulo p and q by brute force (small groups) for IsTorsionFree
	qrOK := func(v *big.Int) bool { return big.Jacobi(v, cfg.p) == 1 && big.Jacobi(v, cfg.q) == 1 }
	var units []E
	var unitVals []*big.Int
	for _, v := range vals {
		d := func(op string) func() string {
			return func() string { return fmt.Sprintf("%s.%s(%s)", cfg.name, op, show(v)) }
		}
		e, err := g.FromNat(mustN(v))
		x.Case("")
		if (err == nil) != isUnit(v) {
			failf(x, "znstar/fromnat/unit-check", "%s: err=%v but gcd(v, modulus) = %s", d("FromNat")(), err, show(new(big.Int).GCD(nil, nil, v, amb)))
			continue
		}
		if v.IsUint64() {
			_, err2 := g.FromUint64(v.Uint64())
			if (err2 == nil) != isUnit(v) {
				failf(x, "znstar/fromuint64/unit-check", "%s: err=%v", d("FromUint64")(), err2)
			}
		}
		if len(v.Bytes()) > 0 {
			_, err3 := g.FromBytes(v.Bytes())
			if (err3 == nil) != isUnit(v) {
				failf(x, "znstar/frombytes/unit-check", "%s: err=%v", d("FromBytes")(), err3)
			}
		}
		if err != nil {
			continue
		}
		eqBig(x, "znstar/value", d("FromNat.Value"), e.Value(), v)
		units = append(units, e)
		unitVals = append(unitVals, v)
	}
	eqBig(x, "znstar/one", func() string { return cfg.name + ".One" }, g.One().Value(), one)
	es := []*big.Int{bi(0), bi(1), bi(2), bi(3), new(big.Int).Sub(cfg.p, one), new(big.Int).Sub(cfg.q, one), n, new(big.Int).Mul(new(big.Int).Sub(cfg.p, one), new(big.Int).Sub(cfg.q, one)), new(big.Int).Add(pow2(64), one)}
	for i, a := range units {
		av := unitVals[i]
		d := func(op string) func() string {
			return func() string { return fmt.Sprintf("%s: el(%s).%s", cfg.name, show(av), op) }
		}
		if part == 0 {
			inv := new(big.Int).ModInverse(av, amb)
			eqBig(x, "znstar/inv", d("Inv"), a.Inv().Value(), inv)
			ti, err := a.TryInv()
			if err != nil {
				failf(x, "znstar/inv", "%s: %v", d("TryInv")(), err)
			} else {
				eqBig(x, "znstar/inv", d("TryInv"), ti.Value(), inv)
			}
			eqBig(x, "znstar/square", d("Square"), a.Square().Value(), red(new(big.Int).Mul(av, av)))
			eqBool(x, "znstar/isone", d("IsOne"), a.IsOne(), av.Cmp(one) == 0)
			// Jacobi against the primary modulus N
			j, err := a.Jacobi()
			x.Case("")
			if err != nil || j != big.Jacobi(av, n) {
				failf(x, "znstar/jacobi", "%s = %d (err %v), want %d", d("Jacobi")(), j, err, big.Jacobi(av, n))
			}
			// IsTorsionFree: exact quadratic residuosity with the factorisation, the Jacobi symbol without it
			want := big.Jacobi(av, n) == 1
			if cfg.known {
				want = qrOK(av)
			}
			eqBool(x, "znstar/istorsionfree", d("IsTorsionFree"), a.IsTorsionFree(), want)
			for _, ev := range es {
				w := new(big.Int).Exp(av, ev, amb)
				eqBig(x, "znstar/exp", func() string { return d("Exp")() + "(" + show(ev) + ")" }, a.Exp(mustN(ev)).Value(), w)
				eqBig(x, "znstar/expi", func() string { return d("ExpI")() + "(" + show(ev) + ")" }, a.ExpI(mustZ(ev)).Value(), w)
				if ev.Sign() > 0 {
					ne := new(big.Int).Neg(ev)
					eqBig(x, "znstar/expi", func() string { return d("ExpI")() + "(" + show(ne) + ")" }, a.ExpI(mustZ(ne)).Value(), new(big.Int).Exp(av, ne, amb))
				}
				for _, bits := range []uint{1, 8, uint(ev.BitLen()), uint(ev.BitLen() + 64)} {
					eb := mod2k(ev, int(bits))
					eqBig(x, "znstar/expbounded", func() string { return fmt.Sprintf("%s(%s, bits=%d)", d("ExpBounded")(), show(ev), bits) }, a.ExpBounded(mustN(ev), bits).Value(), new(big.Int).Exp(av, eb, amb))
					eqBig(x, "znstar/expibounded", func() string { return fmt.Sprintf("%s(%s, bits=%d)", d("ExpIBounded")(), show(ev), bits) }, a.ExpIBounded(mustZ(ev), bits).Value(), new(big.Int).Exp(av, eb, amb))
				}
			}
		}
		// binary operations: this block of first operands against every unit
		if i%8 != part && part < 8 && len(units) > 0 && smallGroup(amb) {
			continue
		}
		for j, b := range units {
			bv := unitVals[j]
			if !cfg.known && len(units) > 300 && bv.Cmp(bi(64)) > 0 {
				continue // unknown-order view of the large exhaustive group: second operands <= 64 only (the arithmetic is numct.Modulus, covered above)
			}
			dd := func(op string) func() string {
				return func() string { return fmt.Sprintf("%s: el(%s).%s(el(%s))", cfg.name, show(av), op, show(bv)) }
			}
			eqBig(x, "znstar/mul", dd("Mul"), a.Mul(b).Value(), red(new(big.Int).Mul(av, bv)))
			w := red(new(big.Int).Mul(av, new(big.Int).ModInverse(bv, amb)))
			eqBig(x, "znstar/div", dd("Div"), a.Div(b).Value(), w)
			q, err := a.TryDiv(b)
			if err != nil {
				failf(x, "znstar/div", "%s: %v", dd("TryDiv")(), err)
			} else {
				eqBig(x, "znstar/div", dd("TryDiv"), q.Value(), w)
			}
			eqBool(x, "znstar/equal", dd("Equal"), a.Equal(b), av.Cmp(bv) == 0)
		}
	}
}

func smallGroup(amb *big.Int) bool { return amb.IsInt64() && amb.Int64() <= 2000 }

type paillierGroup[E any] interface {
	N() *num.NatPlus
	NthResidue(E) (E, error)
	Representative(*num.Uint) (E, error)
	FromNat(*num.Nat) (E, error)
}

func zsPaillier[E zsElem](x *engine.X, cfg zsCfg, g paillierGroup[E], n, amb *big.Int, vals []*big.Int, part int) {
	if part != 0 {
		return
	}
	one := bi(1)
	eqBig(x, "znstar/paillier/N", func() string { return cfg.name + ".N" }, g.N(), n)
	for _, v := range vals {
		if new(big.Int).GCD(nil, nil, v, amb).Cmp(one) != 0 {
			continue
		}
		e, err := g.FromNat(mustN(v))
		if err != nil {
			continue
		}
		r, err := g.NthResidue(e)
		d := func() string { return fmt.Sprintf("%s.NthResidue(%s)", cfg.name, show(v)) }
		if err != nil {
			failf(x, "znstar/paillier/nthresidue", "%s: %v", d(), err)
			continue
		}
		eqBig(x, "znstar/paillier/nthresidue", d, r.Value(), new(big.Int).Exp(v, n, amb))
	}
	// Representative(m) = 1 + m*N mod N^2 for every plaintext residue (small N) or a boundary alphabet
	zn, err := num.NewZMod(mustNP(n))
	if err != nil {
		failf(x, "znstar/setup", "NewZMod(N): %v", err)
		return
	}
	var ms []*big.Int
	if n.IsInt64() && n.Int64() <= 2000 {
		for m := int64(0); m < n.Int64(); m++ {
			ms = append(ms, bi(m))
		}
	} else {
		for _, v := range append(natVsmall(), new(big.Int).Sub(n, one), cfg.p, cfg.q) {
			ms = append(ms, new(big.Int).Mod(v, n))
		}
	}
	for _, m := range ms {
		pt, err := zn.FromBig(m)
		if err != nil {
			failf(x, "znstar/setup", "ZMod.FromBig: %v", err)
			continue
		}
		d := func() string { return fmt.Sprintf("%s.Representative(%s)", cfg.name, show(m)) }
		r, err := g.Representative(pt)
		if err != nil {
			failf(x, "znstar/paillier/representative", "%s: %v", d(), err)
			continue
		}
		eqBig(x, "znstar/paillier/representative", d, r.Value(), new(big.Int).Mod(new(big.Int).Add(one, new(big.Int).Mul(m, n)), amb))
	}
}

// ---------------------------------------------------------------------------------------------------------------
// cardinal.Known arithmetic

func cardinalBody() func(*engine.X) {
	V := natV()
	return func(x *engine.X) {
		av := V[x.Choose("a", len(V))]
		for _, bv := range V {
			d := func(op string) func() string {
				return func() string { return fmt.Sprintf("cardinal(%s).%s(cardinal(%s))", show(av), op, show(bv)) }
			}
			guard(x, "cardinal/pair", d("pair"), func() {
				a, b := cardinal.NewFromBig(av), cardinal.NewFromBig(bv)
				eqBig(x, "cardinal/add", d("Add"), a.Add(b), new(big.Int).Add(av, bv))
				eqBig(x, "cardinal/mul", d("Mul"), a.Mul(b), new(big.Int).Mul(av, bv))
				if k, ok := a.(cardinal.Known); ok {
					w := new(big.Int).Sub(av, bv)
					if w.Sign() < 0 {
						w = bi(0) // documented saturation
					}
					eqBig(x, "cardinal/sub", d("Sub"), k.Sub(b), w)
				}
				c := av.Cmp(bv)
				eqBool(x, "cardinal/equal", d("Equal"), a.Equal(b), c == 0)
				eqBool(x, "cardinal/isleq", d("IsLessThanOrEqual"), a.IsLessThanOrEqual(b), c <= 0)
			})
		}
		guard(x, "cardinal/unary", func() string { return "cardinal " + show(av) }, func() {
			a := cardinal.NewFromBig(av)
			eqBool(x, "cardinal/iszero", func() string { return "cardinal(" + show(av) + ").IsZero" }, a.IsZero(), av.Sign() == 0)
			eqBool(x, "cardinal/isfinite", func() string { return "IsFinite" }, a.IsFinite() && !a.IsUnknown(), true)
			eqBool(x, "cardinal/isprobablyprime", func() string { return "cardinal(" + show(av) + ").IsProbablyPrime" }, a.IsProbablyPrime(), isPrime(av))
			if av.IsUint64() {
				eqBig(x, "cardinal/new", func() string { return fmt.Sprintf("cardinal.New(%d)", av.Uint64()) }, cardinal.New(av.Uint64()), av)
				x.Case("")
				if a.Uint64() != av.Uint64() {
					failf(x, "cardinal/uint64", "cardinal(%s).Uint64() = %d", show(av), a.Uint64())
				}
			}
			eqBool(x, "cardinal/isleq", func() string { return "known <= infinite" }, a.IsLessThanOrEqual(cardinal.Infinite()), true)
			eqBool(x, "cardinal/equal", func() string { return "known == unknown" }, a.Equal(cardinal.Unknown()), false)
		})
		x.Observe(av.BitLen())
	}
}

// ---------------------------------------------------------------------------------------------------------------
// prime generation postconditions

// lockedReader makes the deterministic stream safe for the generators that read from several goroutines.
// It also carries a byte budget: a generator that keeps drawing randomness without ever returning (a search that
// cannot succeed) is cut off with an error instead of hanging the check.
type lockedReader struct {
	mu     sync.Mutex
	r      io.Reader
	budget int
}

var errBudget = fmt.Errorf("verif: randomness budget exhausted (generator did not terminate)")

func (l *lockedReader) Read(p []byte) (int, error) {
	l.mu.Lock()
	defer l.mu.Unlock()
	if l.budget < len(p) {
		return 0, errBudget
	}
	l.budget -= len(p)
	return l.r.Read(p)
}

func stream(seedIdx int, bits uint) io.Reader {
	return &lockedReader{r: pcg.New(uint64(engine.Seed())*1000+uint64(seedIdx), uint64(bits)), budget: 256<<10 + int(bits)*4096}
}

func primesBody() func(*engine.X) {
	bitsList := []uint{16, 17, 20, 32, 33, 64, 128, 256}
	if engine.Thorough() {
		bitsList = append(bitsList, 24, 63, 65, 100, 512)
	}
	forms := []string{"plain", "blum", "safe", "pair", "blum-pair", "safe-pair", "random"}
	return func(x *engine.X) {
		form := forms[x.Choose("form", len(forms))]
		bits := bitsList[x.Choose("bits", len(bitsList))]
		seedIdx := x.Choose("seed", 2)
		rd := stream(seedIdx, bits)
		prime := func(p *big.Int) bool { return p.ProbablyPrime(64) }
		chk1 := func(kind string, p *big.Int, wantBits uint) {
			// the value goes on a second line: the pair generators draw from the stream in two goroutines, so the concrete
			// primes (not the postcondition) can differ between a run and its replay
			d := fmt.Sprintf("%s(bits=%d, seed#%d)", kind, wantBits, seedIdx)
			val := "\n value: " + show(p)
			x.Case(fmt.Sprintf("%s/%d/%d", kind, wantBits, seedIdx))
			if !prime(p) {
				failf(x, "primes/"+form+"/not-prime", "%s returned a composite%s", d, val)
			}
			if uint(p.BitLen()) != wantBits {
				k := "primes/" + form + "/bitlen"
				if (form == "blum" || form == "blum-pair") && wantBits%8 != 0 && uint(p.BitLen()) == (wantBits+7)/8*8 {
					k = "primes/blum/bitlen-not-multiple-of-8" // the top-byte mask is computed as max(bits%8, 8)
				}
				failf(x, k, "%s returned a number whose bit length differs from the request%s (%d bits)", d, val, p.BitLen())
			}
			switch form {
			case "blum", "blum-pair":
				if new(big.Int).Mod(p, bi(4)).Cmp(bi(3)) != 0 {
					failf(x, "primes/blum/form", "%s is not 3 mod 4%s", d, val)
				}
			case "safe", "safe-pair":
				if h := new(big.Int).Rsh(p, 1); !prime(h) {
					failf(x, "primes/safe/form", "%s: (p-1)/2 is not prime%s", d, val)
				}
			}
		}
		pairChk := func(kind string, p, q *big.Int, keyLen uint) {
			chk1(kind+".p", p, keyLen/2)
			chk1(kind+".q", q, keyLen/2)
			if p.Cmp(q) == 0 {
				failf(x, "primes/"+form+"/equal", "%s(keyLen=%d) returned p == q", kind, keyLen)
			}
			if n := new(big.Int).Mul(p, q); uint(n.BitLen()) != keyLen {
				k := "primes/" + form + "/modulus-bitlen"
				if form == "blum-pair" && (keyLen/2)%8 != 0 {
					k = "primes/blum/bitlen-not-multiple-of-8"
				}
				failf(x, k, "%s(keyLen=%d): p*q does not have keyLen bits\n (%d bits)", kind, keyLen, n.BitLen())
			}
		}
		desc := func() string { return fmt.Sprintf("%s bits=%d seed#%d", form, bits, seedIdx) }
		t0 := time.Now()
		defer func() {
			if os.Getenv("C17_TIMING") != "" {
				fmt.Printf("primes timing %s: %v\n", desc(), time.Since(t0))
			}
		}()
		guard(x, "primes/"+form, desc, func() {
			switch form {
			case "plain":
				p, err := nt.GeneratePrime(num.NPlus(), bits, rd)
				if err != nil {
					failf(x, "primes/plain/err", "GeneratePrime(%d): %v", bits, err)
					return
				}
				chk1("GeneratePrime", p.Big(), bits)
			case "blum":
				p, err := nt.GenerateBlumPrime(num.NPlus(), bits, rd)
				if err != nil {
					failf(x, "primes/blum/err", "GenerateBlumPrime(%d): %v", bits, err)
					return
				}
				chk1("GenerateBlumPrime", p.Big(), bits)
			case "safe":
				p, err := nt.GenerateSafePrime(num.NPlus(), bits, rd)
				if err != nil {
					failf(x, "primes/safe/err", "GenerateSafePrime(%d): %v", bits, err)
					return
				}
				chk1("GenerateSafePrime", p.Big(), bits)
			case "pair":
				p, q, err := nt.GeneratePrimePair(num.NPlus(), 2*bits, rd)
				if err != nil {
					failf(x, "primes/pair/err", "GeneratePrimePair(%d): %v", 2*bits, err)
					return
				}
				pairChk("GeneratePrimePair", p.Big(), q.Big(), 2*bits)
				if bits >= 16 && bits <= 64 {
					g, err := znstar.SampleRSAGroup(2*bits, rd)
					if err != nil {
						failf(x, "primes/pair/err", "SampleRSAGroup(%d): %v", 2*bits, err)
					} else if uint(g.Modulus().Big().BitLen()) != 2*bits {
						failf(x, "primes/pair/modulus-bitlen", "SampleRSAGroup(%d): modulus has %d bits", 2*bits, g.Modulus().Big().BitLen())
					}
				}
			case "blum-pair":
				p, q, err := nt.GenerateBlumPrimePair(num.NPlus(), 2*bits, rd)
				if err != nil {
					k := "primes/blum-pair/err"
					if bits%8 != 0 {
						// consequence of the wrong bit length of the single primes: the pair search can never meet its length condition
						k = "primes/blum/bitlen-not-multiple-of-8"
					}
					failf(x, k, "GenerateBlumPrimePair(%d): %v", 2*bits, err)
					return
				}
				pairChk("GenerateBlumPrimePair", p.Big(), q.Big(), 2*bits)
				if bits%8 == 0 && bits <= 64 {
					g, err := znstar.SamplePaillierBlumGroup(2*bits, rd)
					if err != nil {
						failf(x, "primes/blum-pair/err", "SamplePaillierBlumGroup(%d): %v", 2*bits, err)
					} else {
						n := g.N().Big()
						if uint(n.BitLen()) != 2*bits || new(big.Int).Mul(n, n).Cmp(g.Modulus().Big()) != 0 || new(big.Int).Mod(n, bi(4)).Cmp(bi(1)) != 0 {
							failf(x, "primes/blum-pair/modulus", "SamplePaillierBlumGroup(%d): N = %s (%d bits)", 2*bits, show(n), n.BitLen())
						}
					}
				}
			case "safe-pair":
				p, q, err := nt.GenerateSafePrimePair(num.NPlus(), 2*bits, rd)
				if err != nil {
					failf(x, "primes/safe-pair/err", "GenerateSafePrimePair(%d): %v", 2*bits, err)
					return
				}
				pairChk("GenerateSafePrimePair", p.Big(), q.Big(), 2*bits)
			case "random":
				for _, bl := range []uint{1, 2, bits - 1, bits, bits + 1} {
					v, err := nt.Random(num.N(), bl, rd)
					x.Case("")
					if err != nil || uint(v.Big().BitLen()) != bl {
						failf(x, "primes/random/bitlen", "nt.Random(bitlen=%d) = %v (err %v)", bl, v, err)
					}
				}
				if _, err := nt.Random(num.N(), 0, rd); err == nil {
					failf(x, "primes/random/zero", "nt.Random(bitlen=0) accepted")
				}
				// range samplers: every draw lies in the requested half-open interval
				hs := []*big.Int{bi(1), bi(2), bi(3), bi(255), bi(256), pow2(64), new(big.Int).Add(pow2(64), bi(1)), new(big.Int).Sub(pow2(int(bits)), bi(1)), pow2(int(bits))}
				for _, h := range hs {
					for _, pad := range []int{0, 1, 64} {
						hn := numct.NewNatFromBig(h, h.BitLen()+pad)
						for i := 0; i < 8; i++ {
							var v numct.Nat
							x.Case("")
							if err := v.SetRandomRangeH(hn, rd); err != nil || v.Big().Cmp(h) >= 0 {
								failf(x, "random/rangeH", "Nat.SetRandomRangeH(%s@%d) out of range or failed\n %v %v", show(h), h.BitLen()+pad, v.Big(), err)
							}
							lo := new(big.Int).Rsh(h, 1)
							var w numct.Nat
							x.Case("")
							if err := w.SetRandomRangeLH(natOf(lo), hn, rd); err != nil || w.Big().Cmp(lo) < 0 || w.Big().Cmp(h) >= 0 {
								failf(x, "random/rangeLH", "Nat.SetRandomRangeLH(%s, %s@%d) out of range or failed\n %v %v", show(lo), show(h), h.BitLen()+pad, w.Big(), err)
							}
							nlo := new(big.Int).Neg(h)
							var z numct.Int
							x.Case("")
							if err := z.SetRandomRangeLH(numct.NewIntFromBig(nlo, h.BitLen()), numct.NewIntFromBig(lo, lo.BitLen()+pad), rd); lo.Cmp(nlo) > 0 && (err != nil || z.Big().Cmp(nlo) < 0 || z.Big().Cmp(lo) >= 0) {
								failf(x, "random/int-rangeLH", "Int.SetRandomRangeLH(%s, %s) out of range or failed\n %v %v", show(nlo), show(lo), z.Big(), err)
							}
						}
					}
					if h.Cmp(bi(1)) > 0 {
						zn, _ := num.NewZMod(mustNP(h))
						u, err := zn.Random(rd)
						x.Case("")
						if err != nil || u.Big().Cmp(h) >= 0 {
							failf(x, "random/zmod", "ZMod(%s).Random out of range or failed\n %v", show(h), err)
						}
					}
				}
				var v numct.Nat
				if err := v.SetRandomRangeH(numct.NewNat(0), rd); err == nil {
					failf(x, "random/rangeH", "Nat.SetRandomRangeH(0) accepted an empty range")
				}
				if err := v.SetRandomRangeLH(numct.NewNat(5), numct.NewNat(5), rd); err == nil {
					failf(x, "random/rangeLH", "Nat.SetRandomRangeLH(5,5) accepted an empty range")
				}
			}
		})
		x.Observe(form, bits)
	}
}
