package c08

import (
	"fmt"
	"io"
	"math/big"

	"github.com/bronlabs/bron-crypto/pkg/base/curves/k256"
	"github.com/bronlabs/bron-crypto/pkg/base/nt/modular"
	"github.com/bronlabs/bron-crypto/pkg/base/nt/num"
	"github.com/bronlabs/bron-crypto/pkg/base/nt/znstar"
	"github.com/bronlabs/bron-crypto/pkg/commitments/indcpacom"
	"github.com/bronlabs/bron-crypto/pkg/commitments/intcom"
	"github.com/bronlabs/bron-crypto/pkg/encryption/elgamal"
	"github.com/bronlabs/bron-crypto/pkg/encryption/paillier"
	"github.com/bronlabs/bron-crypto/pkg/proofs/cggmp21/affg"
	"github.com/bronlabs/bron-crypto/pkg/proofs/cggmp21/affgstar"
	"github.com/bronlabs/bron-crypto/pkg/proofs/cggmp21/blummod"
	"github.com/bronlabs/bron-crypto/pkg/proofs/cggmp21/dec"
	"github.com/bronlabs/bron-crypto/pkg/proofs/cggmp21/enc"
	"github.com/bronlabs/bron-crypto/pkg/proofs/cggmp21/encelg"
	"github.com/bronlabs/bron-crypto/pkg/proofs/cggmp21/fac"
	"github.com/bronlabs/bron-crypto/pkg/proofs/paillier/nthroot"
	paillierrange "github.com/bronlabs/bron-crypto/pkg/proofs/paillier/range"
	"github.com/bronlabs/bron-crypto/pkg/proofs/prm"
	"github.com/bronlabs/bron-crypto/pkg/proofs/sigma"

	"verifmc/engine"
)

// ---------------------------------------------------------------------------------------------
// keys (built once per process from the fixed primes)

func natPlus(v *big.Int) *num.NatPlus { return must(num.NPlus().FromBig(v)) }

func take(r io.Reader, n int) []byte {
	b := make([]byte, n)
	if _, err := io.ReadFull(r, b); err != nil {
		panic(engine.HarnessError{Msg: err.Error()})
	}
	return b
}
func zInt(v int64) *num.Int { return num.Z().FromInt64(v) }

func primes(flavour string, bits int) (p, q *big.Int) {
	for _, e := range primeTable {
		if e.flavour == flavour && e.bits == bits {
			p, _ = new(big.Int).SetString(e.p, 16)
			q, _ = new(big.Int).SetString(e.q, 16)
			n := new(big.Int).Mul(p, q)
			if !p.ProbablyPrime(20) || !q.ProbablyPrime(20) || n.BitLen() != bits {
				panic(engine.HarnessError{Msg: "prime table entry invalid"})
			}
			if flavour == "safe" && (!new(big.Int).Rsh(p, 1).ProbablyPrime(20) || !new(big.Int).Rsh(q, 1).ProbablyPrime(20)) {
				panic(engine.HarnessError{Msg: "safe prime table entry invalid"})
			}
			return p, q
		}
	}
	panic(engine.HarnessError{Msg: fmt.Sprintf("no %s primes for %d bits", flavour, bits)})
}

var (
	paillierKeys memo[*paillier.SecretKey]
	rpKeys       memo[*intcom.TrapdoorKey]
)

// paillierKey returns the fixed Paillier key of the given flavour and modulus size.
func paillierKey(flavour string, bits int) *paillier.SecretKey {
	return paillierKeys.get(fmt.Sprintf("%s/%d", flavour, bits), func() *paillier.SecretKey {
		p, q := primes(flavour, bits)
		return must(paillier.NewSecretKey(must(znstar.NewPaillierGroup(natPlus(p), natPlus(q)))))
	})
}

// ringPedersen returns the fixed ring-Pedersen trapdoor key over the safe-prime modulus of the given size
// (idx selects one of several (t, lambda) pairs over the same modulus).
func ringPedersen(bits, idx int) *intcom.TrapdoorKey {
	return rpKeys.get(fmt.Sprintf("%d/%d", bits, idx), func() *intcom.TrapdoorKey {
		p, q := primes("safe", bits)
		group := must(znstar.NewRSAGroup(natPlus(p), natPlus(q)))
		pq := new(big.Int).Mul(new(big.Int).Rsh(p, 1), new(big.Int).Rsh(q, 1))
		zmod := must(num.NewZMod(natPlus(pq)))
		st := stream(fmt.Sprintf("ring-pedersen/%d/%d", bits, idx))
		for {
			t := must(group.RandomQuadraticResidue(st))
			lambda := must(zmod.Random(st))
			if tk, err := intcom.NewTrapdoorKey(t, lambda); err == nil {
				return tk
			}
		}
	})
}

// fixed nonces / ciphertexts: every "random" value of an instance comes from its own labelled stream
func pNonce(pk *paillier.PublicKey, label string) *paillier.Nonce {
	return must(pk.SampleNonce(stream("nonce/" + label)))
}

func pPlain(pk *paillier.PublicKey, v *num.Int) *paillier.Plaintext {
	return must(paillier.NewPlaintextSymmetric(v, pk.PlaintextGroup().Modulus()))
}

// smallInt is the i-th fixed signed test value (positive, negative, zero, several sizes).
func smallInt(label string, i int) *num.Int {
	vals := []int64{42, -17, 123, 0, 1, -1, 65537, -99991}
	return zInt(vals[(i+len(label))%len(vals)] + int64(7*i))
}

// ---------------------------------------------------------------------------------------------
// Paillier n-th root (Maurer style, extractor exposed)

func nthrootCase(bits int) *sigCase[*nthroot.Statement[*modular.SimpleModulus], *nthroot.Witness[*modular.SimpleModulus], *nthroot.Commitment[*modular.SimpleModulus], *nthroot.State[*modular.SimpleModulus], *nthroot.Response[*modular.SimpleModulus]] {
	type (
		M  = *modular.SimpleModulus
		X  = *nthroot.Statement[M]
		W  = *nthroot.Witness[M]
		A  = *nthroot.Commitment[M]
		St = *nthroot.State[M]
		Z  = *nthroot.Response[M]
	)
	sk := paillierKey("general", bits)
	g := sk.Public().Group()
	c := &sigCase[X, W, A, St, Z]{name: fmt.Sprintf("nthroot/%d", bits), heavy: true, unitMS: 6}
	c.mk = func(rng io.Reader) sigma.Protocol[X, W, A, St, Z] { return must(nthroot.NewProtocol(g, rng)) }
	var insts memo[[2]any]
	c.inst = func(i int) (X, W) {
		v := insts.get(fmt.Sprint(i), func() [2]any {
			y := must(g.Random(stream(fmt.Sprintf("nthroot/%d/y%d", bits, i))))
			x := must(g.NthResidue(y))
			return [2]any{must(nthroot.NewStatement(x)), must(nthroot.NewWitness(y))}
		})
		return v[0].(X), v[1].(W)
	}
	c.alts = func() []altStmt[X] {
		x, _ := c.inst(100)
		return []altStmt[X]{{"x:=other-nth-residue", x}}
	}
	c.extract = func(p sigma.Protocol[X, W, A, St, Z], x X, a A, es []sigma.ChallengeBytes, zs []Z) (W, error) {
		return p.(*nthroot.Protocol[M]).Extract(x, a, es, zs)
	}
	return c
}

// ---------------------------------------------------------------------------------------------
// Paillier range proof (Lindell17 style, 1-bit challenges repeated t times)

func rangeCase(bits int) *sigCase[*paillierrange.Statement, *paillierrange.Witness, *paillierrange.Commitment, *paillierrange.State, *paillierrange.Response] {
	type (
		X  = *paillierrange.Statement
		W  = *paillierrange.Witness
		A  = *paillierrange.Commitment
		St = *paillierrange.State
		Z  = *paillierrange.Response
	)
	sk := paillierKey("general", bits)
	pk := sk.Public()
	l := natPlus(new(big.Int).Lsh(big.NewInt(1), 128)) // range parameter l: honest x in [0, l)
	c := &sigCase[X, W, A, St, Z]{name: fmt.Sprintf("range/%d", bits), heavy: true, unitMS: 480}
	c.mk = func(rng io.Reader) sigma.Protocol[X, W, A, St, Z] {
		return must(paillierrange.NewPaillierRange(128, l, pk, rng))
	}
	var insts memo[[2]any]
	c.inst = func(i int) (X, W) {
		v := insts.get(fmt.Sprint(i), func() [2]any {
			// honest witnesses lie in [0, l)
			off := new(big.Int).SetBytes(take(stream(fmt.Sprintf("range/x%d", i)), 15))
			xv := must(num.N().FromBig(off))
			x := must(paillier.NewPlaintextFromNat(xv, pk.PlaintextGroup().Modulus()))
			r := pNonce(pk, fmt.Sprintf("range/%d/r%d", bits, i))
			ct := must(pk.EncryptWithNonce(x, r))
			return [2]any{must(paillierrange.NewStatement(ct)), must(paillierrange.NewWitness(x, r))}
		})
		return v[0].(X), v[1].(W)
	}
	c.alts = func() []altStmt[X] {
		x, _ := c.inst(100)
		return []altStmt[X]{{"c:=other-ciphertext", x}}
	}
	return c
}

// ---------------------------------------------------------------------------------------------
// CGGMP21 enc: Paillier encryption in range

func encCase(bits int) *sigCase[*enc.Statement, *enc.Witness, *enc.Commitment, *enc.State, *enc.Response] {
	type (
		X  = *enc.Statement
		W  = *enc.Witness
		A  = *enc.Commitment
		St = *enc.State
		Z  = *enc.Response
	)
	pk := paillierKey("general", bits).Public()
	rp := ringPedersen(bits, 0).Export()
	c := &sigCase[X, W, A, St, Z]{name: fmt.Sprintf("cggmp21-enc/%d", bits), heavy: true, unitMS: 22}
	c.mk = func(rng io.Reader) sigma.Protocol[X, W, A, St, Z] {
		return must(enc.NewProtocol(pk, rp, 128, 256, rng))
	}
	var insts memo[[2]any]
	c.inst = func(i int) (X, W) {
		v := insts.get(fmt.Sprint(i), func() [2]any {
			kInt := must(num.Z().FromBig(new(big.Int).SetBytes(take(stream(fmt.Sprintf("enc/k%d", i)), 15))))
			if i%2 == 1 {
				kInt = kInt.Neg()
			}
			k := pPlain(pk, kInt)
			rho := pNonce(pk, fmt.Sprintf("enc/%d/rho%d", bits, i))
			return [2]any{must(enc.NewStatement(must(pk.EncryptWithNonce(k, rho)))), must(enc.NewWitness(k, rho))}
		})
		return v[0].(X), v[1].(W)
	}
	c.alts = func() []altStmt[X] {
		x, _ := c.inst(100)
		return []altStmt[X]{{"K:=other-ciphertext", x}}
	}
	return c
}

// ---------------------------------------------------------------------------------------------
// CGGMP21 encelg: range proof with ElGamal commitment

type (
	kP = *k256.Point
	kB = *k256.BaseFieldElement
	kS = *k256.Scalar
)

func k256Scalar(v *num.Int) kS {
	q := k256.NewScalarField().Order().Big()
	r := new(big.Int).Mod(v.Big(), q)
	return must(k256.NewScalarField().FromBytesBEReduce(r.Bytes()))
}

func encelgCase(bits int) *sigCase[*encelg.Statement[kP, kB, kS], *encelg.Witness[kS], *encelg.Commitment[kP, kB, kS], *encelg.State[kS], *encelg.Response[kS]] {
	type (
		X  = *encelg.Statement[kP, kB, kS]
		W  = *encelg.Witness[kS]
		A  = *encelg.Commitment[kP, kB, kS]
		St = *encelg.State[kS]
		Z  = *encelg.Response[kS]
	)
	curve := k256.NewCurve()
	e := newEC("k256", curve)
	pk := paillierKey("general", bits).Public()
	rp := ringPedersen(bits, 0).Export()
	egSk := must(elgamal.NewSecretKey(curve.Generator(), e.sc("encelg/elgamal-sk")))
	egKey := must(indcpacom.NewHomomorphicCommitmentKey(egSk.Public()))
	c := &sigCase[X, W, A, St, Z]{name: fmt.Sprintf("cggmp21-encelg/%d", bits), heavy: true, unitMS: 167}
	c.mk = func(rng io.Reader) sigma.Protocol[X, W, A, St, Z] {
		return must(encelg.NewProtocol[kP, kB, kS](rp, egKey, 256, 512, rng))
	}
	build := func(i int, xInt *num.Int) (X, W) {
		bxW := must(indcpacom.NewWitness(must(elgamal.NewNonce[kS](e.sc(fmt.Sprintf("encelg/b%d", i))))))
		bxM := must(indcpacom.NewMessage(must(elgamal.NewPlaintext[kP, kS](curve.ScalarBaseMul(k256Scalar(xInt))))))
		bx := must(egKey.CommitWithWitness(bxM, bxW))
		rho := pNonce(pk, fmt.Sprintf("encelg/%d/rho%d", bits, i))
		ct := must(pk.EncryptWithNonce(pPlain(pk, xInt), rho))
		return must(encelg.NewStatement[kP, kB, kS](pk, ct, bx)), must(encelg.NewWitness[kS](xInt, rho, bxW))
	}
	var insts memo[[2]any]
	c.inst = func(i int) (X, W) {
		v := insts.get(fmt.Sprint(i), func() [2]any {
			x, w := build(i, smallInt("encelg", i))
			return [2]any{x, w}
		})
		return v[0].(X), v[1].(W)
	}
	c.alts = func() []altStmt[X] {
		// components of the statement: (N0, C, Bx); take C and Bx from another valid instance, N0 from another key
		x0i := smallInt("encelg", 0)
		rho := pNonce(pk, fmt.Sprintf("encelg/%d/rho0", bits))
		c0 := must(pk.EncryptWithNonce(pPlain(pk, x0i), rho))
		bxW := must(indcpacom.NewWitness(must(elgamal.NewNonce[kS](e.sc("encelg/b0")))))
		bx0 := must(egKey.CommitWithWitness(must(indcpacom.NewMessage(must(elgamal.NewPlaintext[kP, kS](curve.ScalarBaseMul(k256Scalar(x0i)))))), bxW))
		otherCt := must(pk.EncryptWithNonce(pPlain(pk, zInt(777)), pNonce(pk, "encelg/altC")))
		otherBx := must(egKey.CommitWithWitness(must(indcpacom.NewMessage(must(elgamal.NewPlaintext[kP, kS](e.pt("encelg/altBx"))))), bxW))
		otherPk := paillierKey("blum", bits).Public()
		return []altStmt[X]{
			{"C:=other-ciphertext", must(encelg.NewStatement[kP, kB, kS](pk, otherCt, bx0))},
			{"Bx:=other-commitment", must(encelg.NewStatement[kP, kB, kS](pk, c0, otherBx))},
			{"N0:=other-public-key", must(encelg.NewStatement[kP, kB, kS](otherPk, c0, bx0))},
		}
	}
	return c
}

// ---------------------------------------------------------------------------------------------
// CGGMP21 affg / affg*: Paillier affine operation with group commitment in range

type affParts struct {
	n0, n1     *paillier.PublicKey
	c, d, y    *paillier.Ciphertext
	xPoint     kP
	xInt       *num.Int
	yN1        *paillier.Plaintext
	rho, rhoY  *paillier.Nonce
	otherCt0   *paillier.Ciphertext
	otherCt1   *paillier.Ciphertext
	otherPoint kP
}

func affInstance(bits, i int, tag string) *affParts {
	curve := k256.NewCurve()
	n0 := paillierKey("general", bits).Public()
	n1 := paillierKey("blum", bits).Public()
	xInt, yInt := smallInt(tag+"x", i), smallInt(tag+"y", i+1)
	p := &affParts{n0: n0, n1: n1, xInt: xInt}
	p.xPoint = curve.ScalarBaseMul(k256Scalar(xInt))
	p.yN1 = pPlain(n1, yInt)
	p.rhoY = pNonce(n1, fmt.Sprintf("%s/%d/rhoY%d", tag, bits, i))
	p.y = must(n1.EncryptWithNonce(p.yN1, p.rhoY))
	p.c = must(n0.EncryptWithNonce(pPlain(n0, zInt(123+int64(i))), pNonce(n0, fmt.Sprintf("%s/%d/cNonce%d", tag, bits, i))))
	p.rho = pNonce(n0, fmt.Sprintf("%s/%d/rho%d", tag, bits, i))
	encY := must(n0.EncryptWithNonce(pPlain(n0, yInt), p.rho))
	p.d = must(n0.CiphertextOp(must(n0.CiphertextScalarOp(p.c, xInt)), encY))
	p.otherCt0 = must(n0.EncryptWithNonce(pPlain(n0, zInt(31337)), pNonce(n0, tag+"/alt0")))
	p.otherCt1 = must(n1.EncryptWithNonce(pPlain(n1, zInt(31337)), pNonce(n1, tag+"/alt1")))
	p.otherPoint = curve.ScalarBaseMul(k256Scalar(zInt(987654321)))
	return p
}

func affgCase(bits int) *sigCase[*affg.Statement[kP, kB, kS], *affg.Witness, *affg.Commitment[kP, kB, kS], *affg.State, *affg.Response] {
	type (
		X  = *affg.Statement[kP, kB, kS]
		W  = *affg.Witness
		A  = *affg.Commitment[kP, kB, kS]
		St = *affg.State
		Z  = *affg.Response
	)
	rp := ringPedersen(bits, 0).Export()
	c := &sigCase[X, W, A, St, Z]{name: fmt.Sprintf("cggmp21-affg/%d", bits), heavy: true, unitMS: 141}
	c.mk = func(rng io.Reader) sigma.Protocol[X, W, A, St, Z] {
		return must(affg.NewProtocol[kP, kB, kS](rp, 256, 1280, 512, k256.NewCurve(), rng))
	}
	var insts memo[[2]any]
	c.inst = func(i int) (X, W) {
		v := insts.get(fmt.Sprint(i), func() [2]any {
			p := affInstance(bits, i, "affg")
			return [2]any{must(affg.NewStatement[kP, kB, kS](p.n0, p.n1, p.c, p.d, p.y, p.xPoint)), must(affg.NewWitness(p.xInt, p.yN1, p.rho, p.rhoY))}
		})
		return v[0].(X), v[1].(W)
	}
	c.alts = func() []altStmt[X] {
		p := affInstance(bits, 0, "affg")
		return []altStmt[X]{
			{"C:=other-ciphertext", must(affg.NewStatement[kP, kB, kS](p.n0, p.n1, p.otherCt0, p.d, p.y, p.xPoint))},
			{"D:=other-ciphertext", must(affg.NewStatement[kP, kB, kS](p.n0, p.n1, p.c, p.otherCt0, p.y, p.xPoint))},
			{"Y:=other-ciphertext", must(affg.NewStatement[kP, kB, kS](p.n0, p.n1, p.c, p.d, p.otherCt1, p.xPoint))},
			{"X:=other-point", must(affg.NewStatement[kP, kB, kS](p.n0, p.n1, p.c, p.d, p.y, p.otherPoint))},
			{"N0<->N1", must(affg.NewStatement[kP, kB, kS](p.n1, p.n0, p.c, p.d, p.y, p.xPoint))},
		}
	}
	return c
}

func affgstarCase(bits int) *sigCase[*affgstar.Statement[kP, kB, kS], *affgstar.Witness, *affgstar.Commitment[kP, kB, kS], *affgstar.State, *affgstar.Response] {
	type (
		X  = *affgstar.Statement[kP, kB, kS]
		W  = *affgstar.Witness
		A  = *affgstar.Commitment[kP, kB, kS]
		St = *affgstar.State
		Z  = *affgstar.Response
	)
	c := &sigCase[X, W, A, St, Z]{name: fmt.Sprintf("cggmp21-affgstar/%d", bits), heavy: true, unitMS: 5900}
	c.mk = func(rng io.Reader) sigma.Protocol[X, W, A, St, Z] {
		return must(affgstar.NewProtocol[kP, kB, kS](256, 1280, 512, k256.NewCurve(), rng))
	}
	var insts memo[[2]any]
	c.inst = func(i int) (X, W) {
		v := insts.get(fmt.Sprint(i), func() [2]any {
			p := affInstance(bits, i, "affgstar")
			return [2]any{must(affgstar.NewStatement[kP, kB, kS](p.n0, p.n1, p.c, p.d, p.y, p.xPoint)), must(affgstar.NewWitness(p.xInt, p.yN1, p.rho, p.rhoY))}
		})
		return v[0].(X), v[1].(W)
	}
	c.alts = func() []altStmt[X] {
		p := affInstance(bits, 0, "affgstar")
		return []altStmt[X]{
			{"C:=other-ciphertext", must(affgstar.NewStatement[kP, kB, kS](p.n0, p.n1, p.otherCt0, p.d, p.y, p.xPoint))},
			{"D:=other-ciphertext", must(affgstar.NewStatement[kP, kB, kS](p.n0, p.n1, p.c, p.otherCt0, p.y, p.xPoint))},
			{"Y:=other-ciphertext", must(affgstar.NewStatement[kP, kB, kS](p.n0, p.n1, p.c, p.d, p.otherCt1, p.xPoint))},
			{"X:=other-point", must(affgstar.NewStatement[kP, kB, kS](p.n0, p.n1, p.c, p.d, p.y, p.otherPoint))},
		}
	}
	return c
}

// ---------------------------------------------------------------------------------------------
// CGGMP21 dec: Paillier decryption modulo q

func decCase(bits int) *sigCase[*dec.Statement[kP, kB, kS], *dec.Witness, *dec.Commitment[kP, kB, kS], *dec.State, *dec.Response] {
	type (
		X  = *dec.Statement[kP, kB, kS]
		W  = *dec.Witness
		A  = *dec.Commitment[kP, kB, kS]
		St = *dec.State
		Z  = *dec.Response
	)
	curve := k256.NewCurve()
	n0 := paillierKey("general", bits).Public()
	c := &sigCase[X, W, A, St, Z]{name: fmt.Sprintf("cggmp21-dec/%d", bits), heavy: true, unitMS: 3800}
	c.mk = func(rng io.Reader) sigma.Protocol[X, W, A, St, Z] {
		return must(dec.NewProtocol[kP, kB, kS](256, 1280, 512, curve.Generator(), rng))
	}
	type parts struct {
		k, d   *paillier.Ciphertext
		xP, sP kP
		x, y   *num.Int
		rho    *paillier.Nonce
	}
	mkParts := func(i int) parts {
		xInt, yInt := smallInt("decx", i), smallInt("decy", i+1)
		p := parts{x: xInt, y: yInt}
		p.xP = curve.ScalarBaseMul(k256Scalar(xInt))
		p.sP = curve.ScalarBaseMul(k256Scalar(yInt))
		p.k = must(n0.EncryptWithNonce(pPlain(n0, zInt(123+int64(i))), pNonce(n0, fmt.Sprintf("dec/%d/kNonce%d", bits, i))))
		p.rho = pNonce(n0, fmt.Sprintf("dec/%d/rho%d", bits, i))
		encY := must(n0.EncryptWithNonce(pPlain(n0, yInt), p.rho))
		kXInv := must(n0.CiphertextOpInv(must(n0.CiphertextScalarOp(p.k, xInt))))
		p.d = must(n0.CiphertextOp(encY, kXInv))
		return p
	}
	var insts memo[[2]any]
	c.inst = func(i int) (X, W) {
		v := insts.get(fmt.Sprint(i), func() [2]any {
			p := mkParts(i)
			return [2]any{must(dec.NewStatement[kP, kB, kS](n0, p.k, p.xP, p.d, p.sP)), must(dec.NewWitness(p.x, p.y, p.rho))}
		})
		return v[0].(X), v[1].(W)
	}
	c.alts = func() []altStmt[X] {
		p := mkParts(0)
		otherCt := must(n0.EncryptWithNonce(pPlain(n0, zInt(31337)), pNonce(n0, "dec/alt")))
		otherPt := curve.ScalarBaseMul(k256Scalar(zInt(987654321)))
		return []altStmt[X]{
			{"K:=other-ciphertext", must(dec.NewStatement[kP, kB, kS](n0, otherCt, p.xP, p.d, p.sP))},
			{"X:=other-point", must(dec.NewStatement[kP, kB, kS](n0, p.k, otherPt, p.d, p.sP))},
			{"D:=other-ciphertext", must(dec.NewStatement[kP, kB, kS](n0, p.k, p.xP, otherCt, p.sP))},
			{"S:=other-point", must(dec.NewStatement[kP, kB, kS](n0, p.k, p.xP, p.d, otherPt))},
			{"X<->S", must(dec.NewStatement[kP, kB, kS](n0, p.k, p.sP, p.d, p.xP))},
		}
	}
	return c
}

// ---------------------------------------------------------------------------------------------
// key-statement protocols: the statement is a public key, the witness its secret key. Instance 0 / 1 / 100 use the
// general / blum / safe moduli of the same size (fac, blummod: blum / safe-blum / ...).

var keyFlavours = map[int]string{0: "blum", 1: "safe", 100: "safe"}

func facCase(bits int) *sigCase[*fac.Statement, *fac.Witness, *fac.Commitment, *fac.State, *fac.Response] {
	type (
		X  = *fac.Statement
		W  = *fac.Witness
		A  = *fac.Commitment
		St = *fac.State
		Z  = *fac.Response
	)
	rp := ringPedersen(bits, 0).Export()
	c := &sigCase[X, W, A, St, Z]{name: fmt.Sprintf("cggmp21-fac/%d", bits), heavy: true, unitMS: 11}
	c.mk = func(rng io.Reader) sigma.Protocol[X, W, A, St, Z] {
		return must(fac.NewProtocol(rp, 128, 256, rng))
	}
	flav := map[int]string{0: "general", 1: "blum", 100: "blum"}
	c.inst = func(i int) (X, W) {
		sk := paillierKey(flav[i], bits)
		return must(fac.NewStatement(sk.Public())), must(fac.NewWitness(sk))
	}
	c.alts = func() []altStmt[X] {
		x, _ := c.inst(100)
		return []altStmt[X]{{"N:=other-public-key", x}}
	}
	return c
}

func blummodCase(bits int) *sigCase[*blummod.Statement, *blummod.Witness, *blummod.Commitment, *blummod.State, *blummod.Response] {
	type (
		X  = *blummod.Statement
		W  = *blummod.Witness
		A  = *blummod.Commitment
		St = *blummod.State
		Z  = *blummod.Response
	)
	c := &sigCase[X, W, A, St, Z]{name: fmt.Sprintf("cggmp21-blummod/%d", bits), heavy: true, unitMS: 166, noSimulator: blummod.ErrUnsupported}
	c.mk = func(rng io.Reader) sigma.Protocol[X, W, A, St, Z] { return must(blummod.NewProtocol(rng)) }
	c.inst = func(i int) (X, W) {
		sk := paillierKey(keyFlavours[i], bits)
		return must(blummod.NewStatement(sk.Public())), must(blummod.NewWitness(sk))
	}
	c.alts = func() []altStmt[X] {
		x, _ := c.inst(100)
		return []altStmt[X]{{"N:=other-public-key", x}}
	}
	return c
}

func prmCase(bits int) *sigCase[*prm.Statement, *prm.Witness, *prm.Commitment, *prm.State, *prm.Response] {
	type (
		X  = *prm.Statement
		W  = *prm.Witness
		A  = *prm.Commitment
		St = *prm.State
		Z  = *prm.Response
	)
	c := &sigCase[X, W, A, St, Z]{name: fmt.Sprintf("prm/%d", bits), heavy: true, unitMS: 43}
	c.mk = func(rng io.Reader) sigma.Protocol[X, W, A, St, Z] { return must(prm.NewProtocol(rng)) }
	c.inst = func(i int) (X, W) {
		tk := ringPedersen(bits, i%3)
		return must(prm.NewStatement(tk.Export())), must(prm.NewWitness(tk))
	}
	c.alts = func() []altStmt[X] {
		x, _ := c.inst(2)
		return []altStmt[X]{{"(s,t):=other-parameters", x}}
	}
	return c
}
