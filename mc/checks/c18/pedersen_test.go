package c18

import (
	"fmt"
	"math/big"

	"github.com/bronlabs/bron-crypto/pkg/base/algebra"
	"github.com/bronlabs/bron-crypto/pkg/base/curves/k256"
	"github.com/bronlabs/bron-crypto/pkg/base/curves/pairable/bls12381"
	"github.com/bronlabs/bron-crypto/pkg/commitments"
	"github.com/bronlabs/bron-crypto/pkg/commitments/pedersencom"
	"github.com/bronlabs/bron-crypto/pkg/transcripts/hagrid"

	"verifmc/engine"
	"verifmc/ref/conv"
)

// curveCtx ties a library prime-order curve group to its math/big reference.
type curveCtx[E algebra.PrimeGroupElement[E, S], S algebra.PrimeFieldElement[S]] struct {
	name       string
	group      algebra.PrimeGroup[E, S]
	field      algebra.PrimeField[S]
	ref        *refCurve
	affine     func(E) refPoint // reads coordinates as integers; no library arithmetic involved
	compress   func(E) []byte
	decompress func([]byte) (E, error)
	tally      *tally
}

func (c *curveCtx[E, S]) q() *big.Int           { return c.ref.n }
func (c *curveCtx[E, S]) scalar(v *big.Int) S   { return conv.FromBig(c.field, c.ref.n, v) }
func (c *curveCtx[E, S]) scalarBig(s S) *big.Int { return conv.ToBig(s) }

func k256Ctx() *curveCtx[*k256.Point, *k256.Scalar] {
	curve := k256.NewCurve()
	return &curveCtx[*k256.Point, *k256.Scalar]{
		name: "k256", group: curve, field: k256.NewScalarField(), ref: refK256,
		affine: func(p *k256.Point) refPoint {
			if p.IsOpIdentity() {
				return refPoint{inf: true}
			}
			return refPoint{x: conv.ToBig(must(p.AffineX())), y: conv.ToBig(must(p.AffineY()))}
		},
		compress:   func(p *k256.Point) []byte { return p.ToCompressed() },
		decompress: curve.FromCompressed,
		tally:      &tally{},
	}
}

func blsG1Ctx() *curveCtx[*bls12381.PointG1, *bls12381.Scalar] {
	g1 := bls12381.NewG1()
	return &curveCtx[*bls12381.PointG1, *bls12381.Scalar]{
		name: "bls12381g1", group: g1, field: bls12381.NewScalarField(), ref: refBLSG1,
		affine: func(p *bls12381.PointG1) refPoint {
			if p.IsOpIdentity() {
				return refPoint{inf: true}
			}
			return refPoint{x: conv.ToBig(must(p.AffineX())), y: conv.ToBig(must(p.AffineY()))}
		},
		compress:   func(p *bls12381.PointG1) []byte { return p.ToCompressed() },
		decompress: g1.FromCompressed,
		tally:      &tally{},
	}
}

// selfCheck ties the library's generator and one multiple to the typed-in reference constants (harness sanity).
func (c *curveCtx[E, S]) selfCheck() error {
	if !c.ref.selfCheck() {
		return fmt.Errorf("%s: reference curve constants are inconsistent", c.name)
	}
	G := c.group.Generator()
	if !c.ref.eq(c.affine(G), c.ref.gen()) {
		return fmt.Errorf("%s: library generator %v is not the standard generator", c.name, c.affine(G))
	}
	five := c.scalar(bi(5))
	if !c.ref.eq(c.affine(G.ScalarOp(five)), c.ref.mul(bi(5), c.ref.gen())) {
		return fmt.Errorf("%s: coordinate conversion broken (5·G mismatch)", c.name)
	}
	return nil
}

// scalarAlphabet: 0, 1, q-1 and one stream-derived value; thorough (and the replacement alphabet "alt") adds 2.
func (c *curveCtx[E, S]) scalarAlphabet(label string) []*big.Int {
	q := c.q()
	a := []*big.Int{bi(0), bi(1), new(big.Int).Sub(q, bi(1)), newStream(c.name + "/scalar/" + label).bigBelow(q)}
	if engine.Thorough() || label == "alt" {
		a = append(a, bi(2))
	}
	return a
}

// scalarChange is one altered scalar together with how it was produced.
type scalarChange[S any] struct {
	what string
	s    S
	v    *big.Int
}

// scalarChanges enumerates the single-component changes of the scalar v: every other alphabet value, v±1, -v, 2v,
// every single-bit change of the canonical 32-byte encoding that the library's decoder accepts, and the unreduced
// encodings v+q, v+2q (same value if accepted).
func (c *curveCtx[E, S]) scalarChanges(v *big.Int, lt localTally) []scalarChange[S] {
	q := c.q()
	var out []scalarChange[S]
	addV := func(what string, w *big.Int) {
		w = mod(w, q)
		out = append(out, scalarChange[S]{what, c.scalar(w), w})
	}
	for i, a := range c.scalarAlphabet("alt") {
		addV(fmt.Sprintf("alphabet%d", i), a)
	}
	addV("plus1", new(big.Int).Add(v, bi(1)))
	addV("minus1", new(big.Int).Sub(v, bi(1)))
	addV("neg", new(big.Int).Neg(v))
	addV("double", new(big.Int).Lsh(v, 1))
	size := c.field.ElementSize()
	enc := make([]byte, size)
	v.FillBytes(enc)
	for b := 0; b < 8*size; b++ {
		s, err := c.field.FromBytes(flipBit(enc, b))
		if err != nil {
			lt["scalar-encoding-refused"]++
			continue
		}
		out = append(out, scalarChange[S]{fmt.Sprintf("bit%d", b), s, c.scalarBig(s)})
	}
	for k := int64(1); k <= 2; k++ {
		u := new(big.Int).Add(v, new(big.Int).Mul(bi(k), q))
		if u.BitLen() > 8*size {
			continue
		}
		u.FillBytes(enc)
		s, err := c.field.FromBytes(enc)
		if err != nil {
			lt["scalar-unreduced-refused"]++
			continue
		}
		lt["scalar-unreduced-accepted"]++
		out = append(out, scalarChange[S]{fmt.Sprintf("unreduced+%dq", k), s, c.scalarBig(s)})
	}
	return out
}

type pointChange[E any] struct {
	what string
	p    E
	a    refPoint
}

// pointChanges enumerates the single-component changes of the point P: -P, 2P, P±G, O, G, the given extra points,
// and every single-bit change of the compressed encoding that the library's decoder accepts.
func (c *curveCtx[E, S]) pointChanges(P E, extra map[string]E, lt localTally) []pointChange[E] {
	var out []pointChange[E]
	add := func(what string, p E) { out = append(out, pointChange[E]{what, p, c.affine(p)}) }
	G := c.group.Generator()
	add("neg", P.OpInv())
	add("double", P.Op(P))
	add("plusG", P.Op(G))
	add("minusG", P.Op(G.OpInv()))
	add("identity", c.group.OpIdentity())
	add("generator", G)
	for k, p := range extra {
		add(k, p)
	}
	// deterministic order for the map entries
	for i := 6; i < len(out); i++ {
		for j := i; j > 6 && out[j].what < out[j-1].what; j-- {
			out[j], out[j-1] = out[j-1], out[j]
		}
	}
	enc := c.compress(P)
	for b := 0; b < 8*len(enc); b++ {
		p, err := c.decompress(flipBit(enc, b))
		if err != nil {
			lt["point-encoding-refused"]++
			continue
		}
		add(fmt.Sprintf("bit%d", b), p)
	}
	return out
}

// ---------------------------------------------------------------------------------------------------------
// Pedersen

type pedKeys[E algebra.PrimeGroupElement[E, S], S algebra.PrimeFieldElement[S]] struct {
	pub  []*pedersencom.CommitmentKey[E, S]
	trap []*pedersencom.TrapdoorKey[E, S]
}

var pedKeyCache memo[any]

// pedersenKeys: public keys 0 and 2 sampled from the fixed stream, 1 extracted from a transcript, 3 the export of
// trapdoor key 0 (quick explores 0 and 1). Trapdoor keys: 0,1 sampled, 2 = lambda 2, 3 = lambda q-1 (boundary trapdoors).
func pedersenKeys[E algebra.PrimeGroupElement[E, S], S algebra.PrimeFieldElement[S]](c *curveCtx[E, S]) *pedKeys[E, S] {
	return pedKeyCache.get(c.name, func() any {
		k := &pedKeys[E, S]{}
		for i := 0; i < 2; i++ {
			k.trap = append(k.trap, must(pedersencom.SampleTrapdoorKey(c.group, newStream(fmt.Sprintf("%s/ped/trapdoor/%d", c.name, i)))))
		}
		k.trap = append(k.trap, must(pedersencom.NewTrapdoorKey(c.group.Generator(), c.scalar(bi(2)))))
		k.trap = append(k.trap, must(pedersencom.NewTrapdoorKey(c.group.Generator(), c.scalar(new(big.Int).Sub(c.q(), bi(1))))))
		k.pub = append(k.pub, must(pedersencom.SampleCommitmentKey(c.group, newStream(fmt.Sprintf("%s/ped/key/%d", c.name, 0)))))
		t := hagrid.NewTranscript("verif-c18")
		t.AppendBytes("context", []byte(c.name))
		k.pub = append(k.pub, must(pedersencom.ExtractCommitmentKey(t, "pedersen-key", c.group.Generator())))
		k.pub = append(k.pub, must(pedersencom.SampleCommitmentKey(c.group, newStream(fmt.Sprintf("%s/ped/key/%d", c.name, 1)))))
		k.pub = append(k.pub, k.trap[0].Export())
		return k
	}).(*pedKeys[E, S])
}

// refPedersen is the definition: m·g + r·h.
func (c *curveCtx[E, S]) refPedersen(g, h refPoint, m, r *big.Int) refPoint {
	return c.ref.add(c.ref.mul(mod(m, c.q()), g), c.ref.mul(mod(r, c.q()), h))
}

// pedersenFaultBody: one execution = one (key, message, witness) tuple; inner cases = every single-component change.
func pedersenFaultBody[E algebra.PrimeGroupElement[E, S], S algebra.PrimeFieldElement[S]](c *curveCtx[E, S]) func(*engine.X) {
	return func(x *engine.X) {
		keys := pedersenKeys(c)
		nKeys := len(keys.pub)
		if !engine.Thorough() {
			nKeys = 2 // quick: one sampled key and (index 1 below) the transcript-extracted key
		}
		ki := x.Choose("key", nKeys)
		msgs := c.scalarAlphabet("msg")
		wits := c.scalarAlphabet("wit")
		mi := x.Choose("msg", len(msgs))
		wi := x.Choose("wit", len(wits))
		key, m, r := keys.pub[ki], msgs[mi], wits[wi]
		id := fmt.Sprintf("pedersen/%s/k%d/m%d/w%d", c.name, ki, mi, wi)
		lt := localTally{}
		defer lt.flush(c.tally)

		M := must(pedersencom.NewMessage(c.scalar(m)))
		W := must(pedersencom.NewWitness(c.scalar(r)))
		C, err := key.CommitWithWitness(M, W)
		if err != nil {
			x.Failf("pedersen/commit/err", "%s: CommitWithWitness failed: %v", id, err)
			return
		}
		g, h, cv := c.affine(key.G()), c.affine(key.H()), c.affine(C.Value())
		x.Case(id)
		if want := c.refPedersen(g, h, m, r); !c.ref.eq(cv, want) {
			x.Failf("pedersen/commit/value", "%s: commitment %v differs from m·g + r·h = %v (m=%s r=%s)", id, cv, want, short(m), short(r))
			return
		}
		if err := key.Open(C, M, W); err != nil {
			x.Failf("pedersen/open/untouched", "%s: Open rejected the untouched (m, w, key, c): %v", id, err)
		}
		lt["accept-untouched"]++

		// judge evaluates Open on an altered tuple. valid = the altered tuple satisfies c' = m'·g' + r'·h' (decided by
		// the caller from decoded values); same = the altered component decodes to the original value.
		judge := func(what string, same, valid bool, k *pedersencom.CommitmentKey[E, S], C2 *pedersencom.Commitment[E, S], M2 *pedersencom.Message[S], W2 *pedersencom.Witness[S]) {
			x.Case(id + "/" + what)
			err := k.Open(C2, M2, W2)
			switch {
			case same:
				lt["same-value"]++
				if err != nil {
					x.Failf("pedersen/open/same-value-"+fieldOf(what), "%s: Open rejected %s although it decodes to the original value: %v", id, what, err)
				}
			case valid:
				lt["degenerate-"+fieldOf(what)]++ // e.g. g changed while m = 0: the equation does not involve g; nothing demanded
			case err == nil:
				x.Failf("pedersen/open/accepts-"+fieldOf(what), "%s: Open ACCEPTED after lone change %s", id, what)
			default:
				lt["reject-"+fieldOf(what)]++
			}
		}
		// crossCheck validates the shortcut rule against a full reference recomputation (algebraic changes only: cheap enough).
		crossCheck := func(what string, valid bool, g2, h2, c2 refPoint, m2, r2 *big.Int) {
			if full := c.ref.eq(c.refPedersen(g2, h2, m2, r2), c2); full != valid {
				panic(engine.HarnessError{Msg: fmt.Sprintf("%s/%s: shortcut validity rule (%v) disagrees with reference recomputation (%v)", id, what, valid, full)})
			}
		}
		isBit := func(what string) bool { return len(what) >= 3 && what[:3] == "bit" }

		for _, ch := range c.scalarChanges(m, lt) {
			same := ch.v.Cmp(m) == 0
			if !isBit(ch.what) {
				crossCheck("msg-"+ch.what, same, g, h, cv, ch.v, r)
			}
			judge("msg-"+ch.what, same, same, key, C, must(pedersencom.NewMessage(ch.s)), W)
		}
		for _, ch := range c.scalarChanges(r, lt) {
			same := ch.v.Cmp(r) == 0
			if !isBit(ch.what) {
				crossCheck("wit-"+ch.what, same, g, h, cv, m, ch.v)
			}
			judge("wit-"+ch.what, same, same, key, C, M, must(pedersencom.NewWitness(ch.s)))
		}
		otherKey := keys.pub[(ki+1)%nKeys]
		otherC := must(key.CommitWithWitness(must(pedersencom.NewMessage(c.scalar(msgs[(mi+1)%len(msgs)]))), W))
		for _, ch := range c.pointChanges(key.G(), map[string]E{"otherkey-h": otherKey.H()}, lt) {
			same := c.ref.eq(ch.a, g)
			valid := same || m.Sign() == 0
			k2, err := pedersencom.NewCommitmentKeyUnchecked(ch.p, key.H())
			if err != nil {
				lt["key-construction-refused"]++
				x.Case(id + "/keyg-" + ch.what + "/refused")
				continue
			}
			if !isBit(ch.what) {
				crossCheck("keyg-"+ch.what, valid, ch.a, h, cv, m, r)
			}
			judge("keyg-"+ch.what, same, valid, k2, C, M, W)
		}
		for _, ch := range c.pointChanges(key.H(), map[string]E{"otherkey-h": otherKey.H()}, lt) {
			same := c.ref.eq(ch.a, h)
			valid := same || r.Sign() == 0
			k2, err := pedersencom.NewCommitmentKeyUnchecked(key.G(), ch.p)
			if err != nil {
				lt["key-construction-refused"]++
				x.Case(id + "/keyh-" + ch.what + "/refused")
				continue
			}
			if !isBit(ch.what) {
				crossCheck("keyh-"+ch.what, valid, g, ch.a, cv, m, r)
			}
			judge("keyh-"+ch.what, same, valid, k2, C, M, W)
		}
		for j, k2 := range keys.pub[:nKeys] {
			if j != ki { // whole-key replacement (both components at once is not a lone change unless g is shared: it is, all keys use G)
				h2 := c.affine(k2.H())
				same := c.ref.eq(h2, h)
				judge(fmt.Sprintf("keyh-replace%d", j), same, same || r.Sign() == 0, k2, C, M, W)
			}
		}
		for _, ch := range c.pointChanges(C.Value(), map[string]E{"other-commitment": otherC.Value()}, lt) {
			same := c.ref.eq(ch.a, cv)
			C2, err := pedersencom.NewCommitment(ch.p)
			if err != nil {
				lt["commitment-construction-refused"]++
				continue
			}
			judge("com-"+ch.what, same, same, key, C2, M, W)
		}

		// generic Commit wrapper: whatever witness it samples, the result must open and equal CommitWithWitness
		if wi == len(wits)-1 {
			C3, W3, err := commitments.Commit(key, M, newStream(id+"/Commit"))
			x.Case(id + "/Commit")
			if err != nil {
				x.Failf("pedersen/Commit/err", "%s: commitments.Commit failed: %v", id, err)
			} else {
				r3 := c.scalarBig(W3.Value())
				if !c.ref.eq(c.affine(C3.Value()), c.refPedersen(g, h, m, r3)) || key.Open(C3, M, W3) != nil {
					x.Failf("pedersen/Commit/value", "%s: commitments.Commit output does not open / differs from m·g + r·h for its witness %s", id, short(r3))
				}
			}
		}
		// generic ReRandomise wrapper: returns the new commitment and the SHIFT; the opening is WitnessOp(w, shift)
		if wi == len(wits)-1 {
			C4, shift, err := commitments.ReRandomise(key, C, newStream(id+"/ReRandomise"))
			x.Case(id + "/ReRandomise")
			if err != nil {
				x.Failf("pedersen/ReRandomise/err", "%s: commitments.ReRandomise failed: %v", id, err)
			} else {
				r4 := new(big.Int).Add(r, c.scalarBig(shift.Value()))
				W4, err := key.WitnessOp(W, shift)
				if err != nil || !c.ref.eq(c.affine(C4.Value()), c.refPedersen(g, h, m, r4)) || key.Open(C4, M, W4) != nil {
					x.Failf("pedersen/ReRandomise/value", "%s: re-randomised commitment does not open to (m, w+shift) (err=%v)", id, err)
				}
				if key.Open(C4, M, W) == nil && shift.Value().IsZero() == false {
					x.Failf("pedersen/ReRandomise/unchanged", "%s: re-randomised commitment still opens with the old witness", id)
				}
			}
		}
		// nil arguments are documented refusals
		if key.Open(nil, M, W) == nil || key.Open(C, nil, W) == nil || key.Open(C, M, nil) == nil {
			x.Failf("pedersen/open/nil", "%s: Open accepted a nil argument", id)
		}
		x.Observe(id, cv.String())
	}
}

// pedersenEquivBody: trapdoor key x every ordered message pair x witness alphabet.
func pedersenEquivBody[E algebra.PrimeGroupElement[E, S], S algebra.PrimeFieldElement[S]](c *curveCtx[E, S]) func(*engine.X) {
	return func(x *engine.X) {
		keys := pedersenKeys(c)
		ti := x.Choose("trapdoor", len(keys.trap))
		msgs := c.scalarAlphabet("msg")
		wits := c.scalarAlphabet("wit")
		mi := x.Choose("msg", len(msgs))
		wi := x.Choose("wit", len(wits))
		tk := keys.trap[ti]
		pub := tk.Export()
		m, r := msgs[mi], wits[wi]
		id := fmt.Sprintf("pedersen/%s/equiv/t%d/m%d/w%d", c.name, ti, mi, wi)
		q := c.q()
		lt := localTally{}
		defer lt.flush(c.tally)

		g, h := c.affine(pub.G()), c.affine(pub.H())
		lambda := c.scalarBig(tk.Lambda())
		if !c.ref.eq(h, c.ref.mul(lambda, g)) || !c.ref.eq(c.affine(tk.H()), h) {
			x.Failf("pedersen/trapdoor/h", "%s: exported h is not lambda·g (lambda=%s)", id, short(lambda))
			return
		}
		M := must(pedersencom.NewMessage(c.scalar(m)))
		W := must(pedersencom.NewWitness(c.scalar(r)))
		CT, err := tk.CommitWithWitness(M, W)
		CP, err2 := pub.CommitWithWitness(M, W)
		x.Case(id)
		if err != nil || err2 != nil {
			x.Failf("pedersen/trapdoor/commit-err", "%s: CommitWithWitness failed: %v / %v", id, err, err2)
			return
		}
		cv := c.affine(CT.Value())
		if !c.ref.eq(cv, c.refPedersen(g, h, m, r)) || !CT.Equal(CP) {
			x.Failf("pedersen/trapdoor/commit-value", "%s: trapdoor commitment %v differs from the public-key commitment %v / the reference", id, cv, c.affine(CP.Value()))
			return
		}
		if tk.Open(CT, M, W) != nil || pub.Open(CT, M, W) != nil {
			x.Failf("pedersen/trapdoor/open-untouched", "%s: honest opening rejected under the trapdoor or exported key", id)
		}
		lambdaInv := new(big.Int).ModInverse(lambda, q)
		for mj, m2 := range msgs {
			M2 := must(pedersencom.NewMessage(c.scalar(m2)))
			x.Case(fmt.Sprintf("%s/to%d", id, mj))
			W2, err := tk.Equivocate(M, W, M2, newStream(id))
			if err != nil {
				x.Failf("pedersen/equivocate/err", "%s: Equivocate(m=%s -> m'=%s) failed: %v", id, short(m), short(m2), err)
				continue
			}
			r2 := c.scalarBig(W2.Value())
			// definition: the same commitment opens to m' under r' (under the EXPORTED key), i.e. m'·g + r'·h = c
			if !c.ref.eq(c.refPedersen(g, h, m2, r2), cv) {
				x.Failf("pedersen/equivocate/value", "%s: equivocated witness %s does not satisfy m'·g + r'·h = c (m'=%s)", id, short(r2), short(m2))
			}
			want := new(big.Int).Sub(m, m2)
			want.Mul(want, lambdaInv).Add(want, r).Mod(want, q)
			if r2.Cmp(want) != 0 {
				x.Failf("pedersen/equivocate/formula", "%s: equivocated witness %s ≠ r + (m-m')/lambda = %s", id, short(r2), short(want))
			}
			if err := pub.Open(CT, M2, W2); err != nil {
				x.Failf("pedersen/equivocate/open", "%s: exported key rejected the equivocated opening to m'=%s: %v", id, short(m2), err)
			}
			if err := tk.Open(CT, M2, W2); err != nil {
				x.Failf("pedersen/equivocate/open-trapdoor", "%s: trapdoor key rejected the equivocated opening to m'=%s: %v", id, short(m2), err)
			}
			lt["equivocation-accepted"]++
			// the equivocated witness opens to m' only: every other alphabet message is rejected with it
			for mk, m3 := range msgs {
				if m3.Cmp(m2) == 0 {
					continue
				}
				x.Case(fmt.Sprintf("%s/to%d/not%d", id, mj, mk))
				if pub.Open(CT, must(pedersencom.NewMessage(c.scalar(m3))), W2) == nil {
					x.Failf("pedersen/equivocate/binding", "%s: witness equivocated for m'=%s also opens m''=%s", id, short(m2), short(m3))
				}
				lt["equivocation-other-message-rejected"]++
			}
		}
		x.Observe(id, cv.String())
	}
}
