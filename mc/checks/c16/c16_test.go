// C16 — Paillier / ElGamal decrypt correctly; homomorphisms are exact.
//
// Engine: explicit-state search (engine.BFS) whose transition function is the real library call. A state is one live
// ciphertext together with the reference state kept beside it: the plaintext AND the composed nonce (math/big), so
// the model predicts the exact ciphertext bytes c = (1+N)^m · r^N mod N² (ElGamal: (ρ·G, (μ+ρ·a)·G)), not only its
// decryption. Every transition is executed through the public-key path AND the secret-key (CRT / trapdoor) path and
// the two results must be byte-equal; the state invariant demands Decrypt == model plaintext (in [0,N) and in the
// symmetric range), Open == (model plaintext, model nonce), re-encryption of the opening == c, and c == reference
// formula. Separate CT sections enumerate the refusals (out-of-range plaintexts, non-unit nonces, non-members of
// Z*_{N²}, foreign-key ciphertexts) and the two building blocks Representative / IdentityNoise.
package c16

import (
	"crypto/sha256"
	"fmt"
	"math/big"
	"os"
	"sync"
	"testing"

	"verifmc/engine"
)

func TestMain(m *testing.M) { engine.Main(m, "C16", "model_checking") }

// named integer of an alphabet
type namedInt struct {
	name string
	v    *big.Int
}

func bi(v int64) *big.Int { return big.NewInt(v) }

// streamInt returns a fixed pseudo-random integer of the given bit length from a SHA-256 counter stream.
func streamInt(label string, bits int) *big.Int {
	var buf []byte
	for i := 0; len(buf)*8 < bits+64; i++ {
		h := sha256.Sum256([]byte(fmt.Sprintf("verif/C16/%s/seed=%d/%d", label, engine.Seed(), i)))
		buf = append(buf, h[:]...)
	}
	v := new(big.Int).SetBytes(buf)
	return v.Rsh(v, uint(len(buf)*8-bits))
}

// guard converts a panic inside a library call into an error value so that the BFS transition function never
// unwinds (engine.BFS only recovers inside the invariant).
func guard[T any](f func() (T, error)) (out T, err error) {
	defer func() {
		if r := recover(); r != nil {
			err = fmt.Errorf("PANIC: %v", r)
		}
	}()
	return f()
}

type fail struct{ key, msg string }

func TestCheck(t *testing.T) {
	engine.Rule("BFS over operation histories on one live ciphertext: depth-1 states are ALL Encrypt(m,r) over the plaintext x nonce alphabets; every further step applies EVERY operation of the alphabet {CiphertextOp with a fresh Encrypt(m',r') (all m',r'), CiphertextOp(c,c), CiphertextOp(c,c,c), CiphertextOpInv, CiphertextScalarOp(k) for all scalars, Shift(m') for all plaintexts, ReRandomise(r') for all nonces}, each through the PublicKey AND the SecretKey method. A state is distinct by (ciphertext bytes, announced limb length, model plaintext, model nonce); states with the same key are merged because ciphertexts are immutable values and every later operation is a function of the value only. Every transition (also into an already known state) is executed on the real code and checked. Non-trivial = the library produced a ciphertext and it was compared with the reference formula, decrypted and opened.")
	engine.Assume(
		"math/big and the textbook reference in /verif/mc/ref/paillier (plain modular exponentiation, L-function decryption) are correct",
		"ElGamal oracle: the predicted ciphertext (rho*G, (mu+rho*a)*G) is computed from exponents combined in math/big, once with one library ScalarBaseMul per component and once with the affine math/big curve arithmetic of /verif/mc/ref/curve (constants typed in from the standards)",
		"state merging assumes a library ciphertext's behaviour depends only on its value and announced length (documented immutable)",
		"key sizes 256/512 (quick) and 1024/2048 (thorough) bits built from fixed primes via znstar.NewPaillierGroup; the library's key-size floor is relaxed because the check is a test binary (testing.Testing())",
		"purego build of the library",
	)
	if f := os.Getenv("VERIF_C16_ONLY"); f != "" {
		// development / mutant-demonstration knob: only BFS sections whose name contains f are run. Such a run is never
		// a verdict: it ends with exit 2 (harness error) unless it found a violation.
		engine.HarnessFail("VERIF_C16_ONLY=%s: partial run, BFS sections not matching were skipped", f)
	}
	// CT sections run first (inside the two functions); all BFS sections then run side by side
	pb := runPaillier()
	eb := runElGamal()
	runParallel(append(pb, eb...))
}

// runParallel runs the given section functions concurrently (engine.BFS is single-threaded per section; sections
// are independent and only share the engine's locked registry).
func runParallel(fs []func()) {
	var wg sync.WaitGroup
	sem := make(chan struct{}, 16)
	for _, f := range fs {
		wg.Add(1)
		go func() {
			defer wg.Done()
			sem <- struct{}{}
			defer func() { <-sem }()
			f()
		}()
	}
	wg.Wait()
}
