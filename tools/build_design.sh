#!/bin/bash
# Rebuilds DESIGN.md sections 11 and 12 from tools/design_11_head.md, tools/design_12_head.md and the generated tables.
set -e
cd "$(dirname "$(readlink -f "$0")")/.."
python3 - <<'PY'
s=open('DESIGN.md').read()
i=s.find('\n## 11. Defects found')
if i>0: s=s[:i]
open('DESIGN.md','w').write(s.rstrip('\n')+'\n')
PY
python3 tools/gen_design_tables.py > /tmp/design_tables_$$.md
python3 - /tmp/design_tables_$$.md <<'PY'
import sys
t=open(sys.argv[1]).read()
i=t.index('### 12.2')
t11,t12=t[:i],t[i:]
t12=t12.split('\n',2)[2]  # drop the generated 12.2 heading line (the head file has it)
out=open('tools/design_11_head.md').read()+t11+open('tools/design_12_head.md').read()+t12
open('DESIGN.md','a').write(out)
PY
rm -f /tmp/design_tables_$$.md
