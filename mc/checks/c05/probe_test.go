package c05

import (
	"fmt"
	"testing"

	"github.com/bronlabs/bron-crypto/pkg/base/curves/k256"
	"github.com/bronlabs/bron-crypto/pkg/mpc/sharing/vss/feldman"
	"verifmc/catalog"
)

func TestProbe(t *testing.T) {
	groups := map[string][]catalog.Entry{
		"thr":  catalog.Thresholds(2, 4),
		"una":  catalog.Unanimities(2, 4),
		"cnf":  catalog.CNFs(2, 4, 3),
		"cnfL": catalog.CNFs(2, 4, 4),
		"hier": catalog.Hierarchicals(2, 4, 3),
		"be33": catalog.BoolExprs(3, 3),
		"be34": catalog.BoolExprs(3, 4),
		"be44": catalog.BoolExprs(4, 4),
		"small": catalog.Small(),
	}
	for name, es := range groups {
		acc := catalog.Accepted(es)
		sumRD, maxR, maxD, nonideal, fail := 0, 0, 0, 0, 0
		for _, e := range acc {
			as := catalog.AssignmentsFor(e)
			ac, err := catalog.Build(e.P, as[0].IDs)
			if err != nil {
				fail++
				continue
			}
			s, err := feldman.NewScheme(k256.NewCurve(), ac)
			if err != nil {
				fail++
				continue
			}
			R, D := int(s.MSP().Size()), int(s.MSP().D())
			sumRD += R * D
			if R > maxR {
				maxR = R
			}
			if D > maxD {
				maxD = D
			}
			if !s.MSP().IsIdeal() {
				nonideal++
			}
			if name == "small" || name == "hier" && false {
				fmt.Println("   ", e.Name, "n", e.P.N, "R", R, "D", D)
			}
		}
		fmt.Printf("%s: total %d accepted %d fail %d nonideal %d sumRD %d maxR %d maxD %d\n", name, len(es), len(acc), fail, nonideal, sumRD, maxR, maxD)
	}
}
