package c17

import (
	"fmt"
	"math/big"

	"github.com/bronlabs/bron-crypto/pkg/base/ct"
	"github.com/bronlabs/bron-crypto/pkg/base/nt/num"
	"github.com/bronlabs/bron-crypto/pkg/base/nt/numct"

	"verifmc/engine"
)

// modSqrtBody: every residue class x (and its lift x+m) of
//   - every prime < 200 (including 2)
//   - the composites 4, 6, 8, 9, 15, 21, 35, 49, 77, 561
//
// plus, for large primes of every shape (p = 3 mod 4, 5 mod 8, high 2-adicity), a boundary alphabet of arguments.
// Oracle exactly as the property states: a returned root squares back to the argument and is reduced; modulo a prime a
// root is returned exactly for the quadratic residues; for composite moduli completeness is not claimed.
func modSqrtBody() func(*engine.X) {
	type entry struct {
		m     *big.Int
		sweep bool
	}
	var ms []entry
	pb := int64(200)
	if engine.Thorough() {
		pb = 2000
	}
	for p := int64(2); p < pb; p++ {
		if bi(p).ProbablyPrime(20) {
			ms = append(ms, entry{bi(p), true})
		}
	}
	for _, c := range []int64{4, 6, 8, 9, 15, 21, 35, 49, 77, 561} {
		ms = append(ms, entry{bi(c), true})
	}
	if engine.Thorough() { // every composite below 200 as well
		for c := int64(10); c < 200; c++ {
			if !bi(c).ProbablyPrime(20) && c != 15 && c != 21 && c != 35 && c != 49 && c != 77 {
				ms = append(ms, entry{bi(c), true})
			}
		}
	}
	for _, p := range []*big.Int{p64a, new(big.Int).Sub(pow2(127), bi(1)), p25519, k256P, bls12381R, pallasP, new(big.Int).Sub(pow2(31), bi(1)), bi(257), bi(65537), bi(12289)} {
		ms = append(ms, entry{p, false})
	}
	return func(x *engine.X) {
		e := ms[x.Choose("m", len(ms))]
		mv := e.m
		prime := isPrime(mv)
		var args []*big.Int
		if e.sweep {
			lim := 2 * mv.Int64()
			for a := int64(0); a < lim; a++ {
				args = append(args, bi(a))
			}
		} else {
			for _, a := range []*big.Int{bi(0), bi(1), bi(2), bi(3), bi(4), bi(5), bi(6), bi(7), bi(8), bi(9), bi(10), bi(59),
				new(big.Int).Sub(mv, bi(1)), new(big.Int).Sub(mv, bi(2)), new(big.Int).Sub(mv, bi(3)), new(big.Int).Sub(mv, bi(4)),
				new(big.Int).Rsh(mv, 1), new(big.Int).Add(new(big.Int).Rsh(mv, 1), bi(1)), mv, new(big.Int).Add(mv, bi(2)), new(big.Int).Lsh(mv, 1)} {
				args = append(args, a, new(big.Int).Mod(new(big.Int).Mul(a, a), mv), new(big.Int).Mul(a, a))
			}
			for _, a := range natVsmall() {
				args = append(args, a, new(big.Int).Mul(a, a))
			}
			args = dedupSort(args)
		}
		// independent residue decision: brute force for the sweep moduli, Euler/Jacobi for the large primes
		var isQR func(a *big.Int) bool
		if e.sweep {
			sq := map[int64]bool{}
			for r := int64(0); r < mv.Int64(); r++ {
				sq[r*r%mv.Int64()] = true
			}
			isQR = func(a *big.Int) bool { return sq[new(big.Int).Mod(a, mv).Int64()] }
		} else {
			isQR = func(a *big.Int) bool { return big.Jacobi(a, mv) >= 0 } // 0 is a square
		}
		var m *numct.Modulus
		if !guard(x, "modsqrt/setup", func() string { return "NewModulus " + mv.String() }, func() { m = mkModulus(mv) }) {
			return
		}
		np, _ := num.NPlus().FromBig(mv)
		zn, err := num.NewZMod(np)
		if err != nil {
			failf(x, "modsqrt/setup", "NewZMod(%v): %v", mv, err)
			return
		}
		roots, refused, missedComposite := 0, 0, 0
		kp := "modsqrt"
		if mv.Cmp(bi(2)) == 0 {
			kp = "modsqrt/modulus=2" // 2 is prime and even: routed to saferith's odd-only routine
		}
		for _, a := range args {
			red := new(big.Int).Mod(a, mv)
			qr := isQR(a)
			for al := 0; al < 2; al++ {
				arg := numct.NewNatFromBig(a, a.BitLen()+al) // second pass: padded capacity and out aliasing the argument
				out := junkNat()
				if al == 1 {
					out = arg
				}
				desc := func() string { return fmt.Sprintf("Modulus(%s).ModSqrt(%s, out=x:%v)", show(mv), show(a), al == 1) }
				x.Case(fmt.Sprintf("%v/%v/%d", mv, a, al))
				var ok ct.Bool
				if !guard(x, kp, desc, func() { ok = m.ModSqrt(out, arg) }) {
					continue
				}
				if ok == ct.True {
					roots++
					r := out.Big()
					if r.Cmp(mv) >= 0 {
						failf(x, kp+"/unreduced-root", "%s returned %s >= m", desc(), show(r))
					} else if new(big.Int).Mod(new(big.Int).Mul(r, r), mv).Cmp(red) != 0 {
						failf(x, kp+"/not-a-root", "%s returned %s, whose square is %s (argument reduces to %s)", desc(), show(r), show(new(big.Int).Mod(new(big.Int).Mul(r, r), mv)), show(red))
					}
					if !qr {
						failf(x, kp+"/root-of-non-residue", "%s returned a root for a non-residue", desc())
					}
				} else {
					refused++
					if prime && qr {
						failf(x, kp+"/missed-residue", "%s: no root returned although the argument is a quadratic residue modulo the prime", desc())
					}
					if !prime && qr {
						missedComposite++ // not claimed complete
					}
					if al == 0 && out.Big().Cmp(junkBig) != 0 {
						// only modSqrtPrime documents nothing about out on failure; do not demand
						_ = out
					}
				}
			}
			// the num.Uint wrapper (reduced operands only)
			if a.Cmp(mv) < 0 {
				desc := func() string { return fmt.Sprintf("Uint(%s mod %s).Sqrt", show(a), show(mv)) }
				x.Case("")
				guard(x, kp, desc, func() {
					u, err := zn.FromBig(a)
					if err != nil {
						failf(x, "modsqrt/setup", "ZMod.FromBig: %v", err)
						return
					}
					r, err := u.Sqrt()
					iq := u.IsQuadraticResidue()
					if (err == nil) != iq {
						failf(x, kp+"/uint", "%s: Sqrt err=%v but IsQuadraticResidue=%v", desc(), err, iq)
					}
					if err == nil {
						rb := r.Big()
						if rb.Cmp(mv) >= 0 || new(big.Int).Mod(new(big.Int).Mul(rb, rb), mv).Cmp(a) != 0 {
							failf(x, kp+"/uint/not-a-root", "%s returned %s", desc(), show(rb))
						}
						if !r.Mul(r).Equal(u) {
							failf(x, kp+"/uint/not-a-root", "%s: library r*r != u", desc())
						}
					} else if prime && qr {
						failf(x, kp+"/uint/missed-residue", "%s failed for a quadratic residue modulo a prime: %v", desc(), err)
					}
				})
			}
		}
		x.Observe(mv.String(), prime, roots > 0, refused > 0, missedComposite > 0)
	}
}
