package c11

import (
	"context"
	"fmt"
	"sort"

	"github.com/bronlabs/bron-crypto/pkg/base/serde"
	"github.com/bronlabs/bron-crypto/pkg/mcrt"
	"github.com/bronlabs/bron-crypto/pkg/mpc/sharing"
)

// wireMsg mirrors the router's wire struct (same CBOR field names) for messages injected by the adversary.
type wireMsg struct {
	From          sharing.ID `cbor:"from"`
	CorrelationID string     `cbor:"correlationID"`
	Payload       []byte     `cbor:"payload"`
}

func wire(cid string, payload []byte) []byte {
	b, err := serde.MarshalCBOR(&wireMsg{CorrelationID: cid, Payload: payload})
	if err != nil {
		panic(err)
	}
	return b
}

func unwire(raw []byte) (cid string, payload []byte) {
	m, err := serde.UnmarshalCBOR[wireMsg](raw)
	if err != nil {
		return "<undecodable>", nil
	}
	return m.CorrelationID, m.Payload
}

type flight struct {
	from, to sharing.ID
	raw      []byte
	stamp    int // scheduler point counter at enqueue time: messages enqueued in one atomic step share it
	seq      int
	dup      bool // already retransmitted once
}

// Net is the adversarial in-memory network under the cooperative scheduler. It owns arrival order: which of the
// in-flight messages addressed to a party is handed to that party's next Receive is a choice point.
// Send is NOT a scheduling point: it only ever enables other threads, and since delivery order is a free choice
// anyway every behaviour of a finer-grained send is covered (see DESIGN §3.2/§3.4). This also makes the order in
// which Router.SendTo ranges over its Go map unobservable, which keeps replays deterministic.
type Net struct {
	q        []*flight
	seq      int
	parties  []sharing.ID
	dupDev   bool              // every message may be delivered twice (identical retransmission; costs one deviation)
	fifo     bool              // arrival order: true = ChooseDev (FIFO default, other orders cost a deviation), false = all orders
	failRecv map[sharing.ID]int // party -> after how many deliveries Receive returns a transport error (-1 never)
	delivered map[sharing.ID]int
	// Delivered is the reference log: for each recipient, the messages handed to its router, in order.
	Delivered map[sharing.ID][]*flight
}

func NewNet(parties ...sharing.ID) *Net {
	return &Net{parties: parties, failRecv: map[sharing.ID]int{}, delivered: map[sharing.ID]int{}, Delivered: map[sharing.ID][]*flight{}}
}

func (n *Net) Inject(from, to sharing.ID, raw []byte) {
	n.seq++
	n.q = append(n.q, &flight{from: from, to: to, raw: raw, stamp: mcrt.S.Points, seq: n.seq})
}

func (n *Net) pending(to sharing.ID) []*flight {
	var out []*flight
	for _, f := range n.q {
		if f.to == to {
			out = append(out, f)
		}
	}
	// canonical order: enqueue step, then sender, then correlation bytes (never Go map iteration order)
	sort.SliceStable(out, func(i, j int) bool {
		if out[i].stamp != out[j].stamp {
			return out[i].stamp < out[j].stamp
		}
		if out[i].from != out[j].from {
			return out[i].from < out[j].from
		}
		return string(out[i].raw) < string(out[j].raw)
	})
	return out
}

func (n *Net) remove(f *flight) {
	for i, g := range n.q {
		if g == f {
			n.q = append(n.q[:i:i], n.q[i+1:]...)
			return
		}
	}
}

// Endpoint is one party's network.Delivery.
type Endpoint struct {
	net    *Net
	id     sharing.ID
	quorum []sharing.ID
}

func (n *Net) Endpoint(id sharing.ID, quorum ...sharing.ID) *Endpoint {
	if len(quorum) == 0 {
		quorum = n.parties
	}
	return &Endpoint{net: n, id: id, quorum: quorum}
}

func (e *Endpoint) PartyID() sharing.ID   { return e.id }
func (e *Endpoint) Quorum() []sharing.ID  { return append([]sharing.ID{}, e.quorum...) }
func (e *Endpoint) Send(_ context.Context, to sharing.ID, m []byte) error {
	e.net.Inject(e.id, to, append([]byte{}, m...))
	return nil
}

var errTransport = fmt.Errorf("transport failure injected by the harness")

func (e *Endpoint) Receive(ctx context.Context) (sharing.ID, []byte, error) {
	n := e.net
	limit, hasLimit := n.failRecv[e.id]
	mcrt.Yield("net.recv", func() bool {
		return len(n.pending(e.id)) > 0 || ctx.Err() != nil || (hasLimit && n.delivered[e.id] >= limit)
	})
	if hasLimit && n.delivered[e.id] >= limit {
		return 0, nil, errTransport
	}
	p := n.pending(e.id)
	opts := len(p)
	if ctx.Err() != nil {
		opts++ // the transport may also notice the cancellation first
	}
	var c int
	if n.fifo {
		c = mcrt.ChooseDev("arrival", opts)
	} else {
		c = mcrt.Choose("arrival", opts)
	}
	if c >= len(p) {
		return 0, nil, ctx.Err()
	}
	f := p[c]
	// identical retransmission: decided at DELIVERY time (a deterministic point; Send is called from a Go map range in
	// Router.SendTo, so a choice there would not replay): the message is handed over now and stays in flight once more.
	if n.dupDev && !f.dup && mcrt.ChooseDev("retransmit", 2) == 1 {
		f.dup = true
		n.delivered[e.id]++
		n.Delivered[e.id] = append(n.Delivered[e.id], f)
		return f.from, f.raw, nil
	}
	n.remove(f)
	n.delivered[e.id]++
	n.Delivered[e.id] = append(n.Delivered[e.id], f)
	return f.from, f.raw, nil
}
