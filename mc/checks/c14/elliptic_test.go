package c14

import (
	"crypto/elliptic"
	"fmt"
	"math/big"

	"github.com/bronlabs/bron-crypto/pkg/base/curves/k256"
	"github.com/bronlabs/bron-crypto/pkg/base/curves/pasta"

	"verifmc/engine"
	"verifmc/ref/curve"
)

// The crypto/elliptic adapters (Curve.ToElliptic()) of k256, pallas and vesta expose the same arithmetic on big.Int
// affine coordinates with (0,0) standing for the point at infinity. p256.ToElliptic() is the standard library itself.

func ellipticBody(name string, ec elliptic.Curve, ref *curve.FpCurve, wideSize int) func(*engine.X) {
	G := ref.G
	H := ref.ScalarMul(big.NewInt(0x1234567), G)
	mul := func(k int64) curve.FpPoint { return ref.ScalarMul(big.NewInt(k), G) }
	half := new(big.Int).Rsh(new(big.Int).Add(ref.Q, bi(1)), 1)
	names := []string{"O", "G", "-G", "2G", "-2G", "3G", "((q+1)/2)G", "H", "-H", "G+H"}
	pts := []curve.FpPoint{ref.Identity(), G, ref.Neg(G), mul(2), mul(-2), mul(3), ref.ScalarMul(half, G), H, ref.Neg(H), ref.Add(G, H)}
	xy := func(p curve.FpPoint) (*big.Int, *big.Int) {
		if p.Inf {
			return new(big.Int), new(big.Int)
		}
		return new(big.Int).Set(p.X), new(big.Int).Set(p.Y)
	}
	same := func(x *engine.X, key, what string, gx, gy *big.Int, want curve.FpPoint) {
		wx, wy := xy(want)
		if gx == nil || gy == nil || gx.Cmp(wx) != 0 || gy.Cmp(wy) != 0 {
			x.Failf(name+"/elliptic/"+key, "%s elliptic adapter: %s = (%v,%v), reference %s", name, what, gx, gy, ref.Key(want))
		}
	}
	return func(x *engine.X) {
		if x.Choose("part", 2) == 1 {
			// parameters: field, order and coefficient are unambiguous constants; the base point is only required to be
			// consistent with the adapter's own ScalarBaseMult (crypto/elliptic: ScalarBaseMult returns k*G with G =
			// (Params().Gx, Params().Gy))
			pr := ec.Params()
			x.Case(name + "/elliptic/params")
			if pr.P.Cmp(ref.F.Char()) != 0 || pr.N.Cmp(ref.Q) != 0 || pr.B.Cmp(ref.B) != 0 {
				x.Failf(name+"/elliptic/params", "%s elliptic adapter: Params() P/N/B differ from the reference constants", name)
			}
			if !ref.OnCurve(curve.FpPoint{X: pr.Gx, Y: pr.Gy}) || !ec.IsOnCurve(pr.Gx, pr.Gy) {
				x.Failf(name+"/elliptic/params", "%s elliptic adapter: Params() base point is not on the curve", name)
			}
			bx, by := ec.ScalarBaseMult([]byte{1})
			if bx.Cmp(pr.Gx) != 0 || by.Cmp(pr.Gy) != 0 {
				key := name + "/elliptic/basepoint-mismatch"
				if name == "pallas" || name == "vesta" {
					key = "pasta/elliptic/basepoint-mismatch" // one cause (pasta/elliptic.go constants) for both curves
				}
				x.Failf(key, "%s elliptic adapter: ScalarBaseMult(1) = (%v,%v) but Params() declares the base point (%v,%v); ScalarBaseMult(k) != ScalarMult(Gx,Gy,k)", name, bx, by, pr.Gx, pr.Gy)
			}
			x.Observe("params")
			return
		}
		i := x.Choose("P", len(pts))
		p := pts[i]
		px, py := xy(p)
		for j := range pts {
			qx, qy := xy(pts[j])
			x.Case(fmt.Sprintf("%s/elliptic/add/%d/%d", name, i, j))
			gx, gy := ec.Add(px, py, qx, qy)
			same(x, "add", fmt.Sprintf("Add(%s,%s)", names[i], names[j]), gx, gy, ref.Add(p, pts[j]))
		}
		gx, gy := ec.Double(px, py)
		same(x, "double", "Double("+names[i]+")", gx, gy, ref.Double(p))
		if on := ec.IsOnCurve(px, py); on != !p.Inf {
			x.Failf(name+"/elliptic/isoncurve", "%s elliptic adapter: IsOnCurve(%s) = %v", name, names[i], on)
		}
		if !p.Inf {
			if ec.IsOnCurve(px, new(big.Int).Add(py, bi(1))) {
				x.Failf(name+"/elliptic/isoncurve", "%s elliptic adapter: IsOnCurve accepts (x, y+1) for %s", name, names[i])
			}
		}
		for _, s := range scalarAlphabet(ref.Q, wideSize) {
			want := ref.ScalarMul(new(big.Int).Mod(s.v, ref.Q), p)
			for _, pad := range []int{0, 3} {
				kb := append(make([]byte, pad), s.v.Bytes()...)
				if len(kb) > wideSize {
					continue
				}
				x.Case(fmt.Sprintf("%s/elliptic/mul/%d/%s/%d", name, i, s.name, pad))
				gx, gy := ec.ScalarMult(px, py, kb)
				same(x, "scalarmult", fmt.Sprintf("ScalarMult(%s, %s)", names[i], s.name), gx, gy, want)
				if i == 1 {
					gx, gy = ec.ScalarBaseMult(kb)
					same(x, "scalarbasemult", fmt.Sprintf("ScalarBaseMult(%s)", s.name), gx, gy, want)
				}
			}
		}
		x.Observe(names[i])
	}
}

func runElliptic() {
	explore(ellipticBody("k256", k256.NewCurve().ToElliptic(), curve.K256(), k256.NewScalarField().WideElementSize()),
		engine.Opts{Name: "elliptic/k256", Budget: budget(60, 300)})
	explore(ellipticBody("pallas", pasta.NewPallasCurve().ToElliptic(), curve.Pallas(), pasta.NewPallasScalarField().WideElementSize()),
		engine.Opts{Name: "elliptic/pallas", Budget: budget(60, 300)})
	explore(ellipticBody("vesta", pasta.NewVestaCurve().ToElliptic(), curve.Vesta(), pasta.NewVestaScalarField().WideElementSize()),
		engine.Opts{Name: "elliptic/vesta", Budget: budget(60, 300)})
}
