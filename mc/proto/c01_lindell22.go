package proto

import (
	"context"
	"fmt"

	"github.com/bronlabs/bron-crypto/pkg/base/algebra"
	ds "github.com/bronlabs/bron-crypto/pkg/base/datastructures"
	"github.com/bronlabs/bron-crypto/pkg/base/datastructures/hashmap"
	"github.com/bronlabs/bron-crypto/pkg/mcrt"
	"github.com/bronlabs/bron-crypto/pkg/mpc"
	mpcschnorr "github.com/bronlabs/bron-crypto/pkg/mpc/signatures/schnorr"
	"github.com/bronlabs/bron-crypto/pkg/mpc/signatures/schnorr/lindell22"
	l22keygen "github.com/bronlabs/bron-crypto/pkg/mpc/signatures/schnorr/lindell22/keygen"
	l22signing "github.com/bronlabs/bron-crypto/pkg/mpc/signatures/schnorr/lindell22/signing"
	"github.com/bronlabs/bron-crypto/pkg/network"
	"github.com/bronlabs/bron-crypto/pkg/proofs/sigma/compiler/fiatshamir"
	"github.com/bronlabs/bron-crypto/pkg/signatures/schnorrlike"

	"verifmc/det"
	"verifmc/schednet"
)

// C01Lindell22Shards converts base shards into Lindell22 shards.
func C01Lindell22Shards[GE algebra.PrimeGroupElement[GE, S], S algebra.PrimeFieldElement[S]](base map[ID]*mpc.BaseShard[GE, S]) (map[ID]*lindell22.Shard[GE, S], error) {
	out := map[ID]*lindell22.Shard[GE, S]{}
	for id, b := range base {
		sh, err := l22keygen.NewShard(b)
		if err != nil {
			return nil, fmt.Errorf("lindell22 keygen.NewShard(%d): %w", id, err)
		}
		out[id] = sh
	}
	return out, nil
}

// C01Lindell22New only constructs the cosigners of the given (possibly unqualified) party set and reports what each
// constructor said.
func C01Lindell22New[
	GE algebra.PrimeGroupElement[GE, S], S algebra.PrimeFieldElement[S], M schnorrlike.Message,
](variant mpcschnorr.MPCFriendlyVariant[GE, S, M], shards map[ID]*lindell22.Shard[GE, S], quorum []ID, seed int64, label string) map[ID]error {
	ctxs := Contexts(quorum, KeySeed(seed), "c01/l22/"+label)
	out := map[ID]error{}
	for _, id := range quorum {
		_, err := l22signing.NewCosigner(ctxs[id], shards[id], fiatshamir.Name, variant, det.New(seed, fmt.Sprintf("c01/l22/%s/%d", label, id)))
		out[id] = err
	}
	return out
}

// C01Lindell22Rounds: all members of quorum sign message through the round-by-round API; the partial signatures are
// aggregated by an outside aggregator and by every party's cosigning aggregator. For every listed subset the outside
// aggregator is additionally offered the partial signatures of that subset only (SubsetErr).
func C01Lindell22Rounds[
	SCH mpcschnorr.MPCFriendlyScheme[VR, GE, S, M, KG, SG, VF],
	VR mpcschnorr.MPCFriendlyVariant[GE, S, M],
	GE algebra.PrimeGroupElement[GE, S], S algebra.PrimeFieldElement[S], M schnorrlike.Message,
	KG schnorrlike.KeyGenerator[GE, S], SG schnorrlike.Signer[VR, GE, S, M], VF schnorrlike.Verifier[VR, GE, S, M],
](scheme SCH, shards map[ID]*lindell22.Shard[GE, S], quorum []ID, message M, seed int64, label string, subsets [][]ID) (*C01Out[*schnorrlike.Signature[GE, S]], []error) {
	type psig = *lindell22.PartialSignature[GE, S]
	out := c01NewOut[*schnorrlike.Signature[GE, S]]()
	quorum = Sorted(quorum)
	out.Want = append(out.Want, c01AggOutside)
	for _, id := range quorum {
		out.Want = append(out.Want, c01AggParty(id))
	}
	ctxs := Contexts(quorum, KeySeed(seed), "c01/l22/"+label)
	cs := map[ID]*l22signing.Cosigner[GE, S, M]{}
	for _, id := range quorum {
		c, err := l22signing.NewCosigner(ctxs[id], shards[id], fiatshamir.Name, scheme.Variant(), det.New(seed, fmt.Sprintf("c01/l22/%s/%d", label, id)))
		if err != nil {
			out.Errs[c01Party(id)+"/new"] = err
			if out.Refused == nil {
				out.Refused = err
			}
			continue
		}
		cs[id] = c
	}
	if out.Refused != nil {
		return out, nil
	}
	r1b := map[ID]*l22signing.Round1Broadcast[GE, S, M]{}
	r1u := map[ID]ds.Map[ID, *l22signing.Round1P2P[GE, S, M]]{}
	for _, id := range quorum {
		b, u, err := cs[id].Round1()
		if err != nil {
			out.Errs[c01Party(id)+"/round1"] = err
			return out, nil
		}
		r1b[id], r1u[id] = b, u
	}
	in1b, in1u := c01B(quorum, r1b), c01U(quorum, r1u)
	r2b := map[ID]*l22signing.Round2Broadcast[GE, S, M]{}
	for _, id := range quorum {
		b, err := cs[id].Round2(in1b[id], in1u[id])
		if err != nil {
			out.Errs[c01Party(id)+"/round2"] = err
			return out, nil
		}
		r2b[id] = b
	}
	in2b := c01B(quorum, r2b)
	ps := map[ID]psig{}
	for _, id := range quorum {
		p, err := cs[id].Round3(in2b[id], message)
		if err != nil {
			out.Errs[c01Party(id)+"/round3"] = err
			return out, nil
		}
		if p == nil {
			out.Errs[c01Party(id)+"/round3"] = fmt.Errorf("nil partial signature returned without error")
			return out, nil
		}
		ps[id] = p
	}
	wired := func() ds.Map[ID, psig] {
		m := map[ID]psig{}
		for id, p := range ps {
			m[id] = c01Wire(p)
		}
		return hashmap.NewComparableFromNativeLike(m).Freeze()
	}
	pkm := shards[quorum[0]].PublicKeyMaterial()
	agg, err := l22signing.NewAggregator(pkm, scheme)
	if err != nil {
		out.Errs[c01AggOutside] = err
	} else if sig, err := agg.Aggregate(wired(), message); err != nil {
		out.Errs[c01AggOutside] = err
	} else {
		out.Sigs[c01AggOutside] = sig
	}
	for _, id := range quorum {
		a, err := l22signing.NewCosigningAggregator(cs[id], shards[id].PublicKeyMaterial(), scheme)
		if err != nil {
			out.Errs[c01AggParty(id)] = err
			continue
		}
		sig, err := a.Aggregate(wired(), message)
		if err != nil {
			out.Errs[c01AggParty(id)] = err
			continue
		}
		out.Sigs[c01AggParty(id)] = sig
	}
	// the outside aggregator offered a sub-collection of (valid) partial signatures
	var subErr []error
	for _, sub := range subsets {
		m := map[ID]psig{}
		for _, id := range sub {
			m[id] = c01Wire(ps[id])
		}
		a, err := l22signing.NewAggregator(pkm, scheme)
		if err != nil {
			subErr = append(subErr, err)
			continue
		}
		_, err = a.Aggregate(hashmap.NewComparableFromNativeLike(m).Freeze(), message)
		subErr = append(subErr, err)
	}
	return out, subErr
}

// C01Lindell22Run: the same signing through every party's network.Runner over routers on net; aggregation by an
// outside aggregator (a runner only returns the party's partial signature).
func C01Lindell22Run[
	SCH mpcschnorr.MPCFriendlyScheme[VR, GE, S, M, KG, SG, VF],
	VR mpcschnorr.MPCFriendlyVariant[GE, S, M],
	GE algebra.PrimeGroupElement[GE, S], S algebra.PrimeFieldElement[S], M schnorrlike.Message,
	KG schnorrlike.KeyGenerator[GE, S], SG schnorrlike.Signer[VR, GE, S, M], VF schnorrlike.Verifier[VR, GE, S, M],
](x mcrt.Chooser, net *schednet.Net, scheme SCH, shards map[ID]*lindell22.Shard[GE, S], quorum []ID, message M, seed int64, label string) *C01Out[*schnorrlike.Signature[GE, S]] {
	type psig = *lindell22.PartialSignature[GE, S]
	out := c01NewOut[*schnorrlike.Signature[GE, S]]()
	quorum = Sorted(quorum)
	out.Want = []string{c01AggOutside}
	ctxs := Contexts(quorum, KeySeed(seed), "c01/l22/"+label)
	res, info := schednet.RunAll(x, net, quorum, func(ctx context.Context, id ID, rt *network.Router) (psig, error) {
		r, err := l22signing.NewRunner(ctxs[id], shards[id], fiatshamir.Name, scheme.Variant(), message, det.New(seed, fmt.Sprintf("c01/l22/%s/%d", label, id)))
		if err != nil {
			return nil, err
		}
		return r.Run(ctx, rt, nil)
	})
	ok := c01Collect(out, quorum, res, info)
	if len(ok) != len(quorum) {
		return out
	}
	m := map[ID]psig{}
	for id, p := range ok {
		if p == nil {
			out.Errs[c01Party(id)+"/run"] = fmt.Errorf("nil partial signature returned without error")
			return out
		}
		m[id] = c01Wire(p)
	}
	agg, err := l22signing.NewAggregator(shards[quorum[0]].PublicKeyMaterial(), scheme)
	if err != nil {
		out.Errs[c01AggOutside] = err
	} else if sig, err := agg.Aggregate(hashmap.NewComparableFromNativeLike(m).Freeze(), message); err != nil {
		out.Errs[c01AggOutside] = err
	} else {
		out.Sigs[c01AggOutside] = sig
	}
	return out
}
