// Package schednet is the adversarial in-memory network (ADVNET) under the cooperative scheduler, plus the generic
// harness that runs any protocol's parties over real routers. It only builds with the SCHED overlay (it imports the
// scheduler runtime mounted inside the repository module), i.e. from checks that have an overlay.sh.
//
// The network owns: arrival order (a choice point, FIFO by default), optional identical retransmission, and a
// send hook through which a check rewrites, drops or duplicates any message (the single-fault adversary).
package schednet

import (
	"context"
	"fmt"
	"sort"

	"github.com/bronlabs/bron-crypto/pkg/base/serde"
	"github.com/bronlabs/bron-crypto/pkg/mcrt"
	"github.com/bronlabs/bron-crypto/pkg/mpc/sharing"
)

// Envelope mirrors the router's wire struct (same CBOR field names).
type Envelope struct {
	From          sharing.ID `cbor:"from"`
	CorrelationID string     `cbor:"correlationID"`
	Payload       []byte     `cbor:"payload"`
}

// Wire encodes a router envelope.
func Wire(cid string, payload []byte) []byte {
	b, err := serde.MarshalCBOR(&Envelope{CorrelationID: cid, Payload: payload})
	if err != nil {
		panic(err)
	}
	return b
}

// Unwire decodes a router envelope (ok=false if undecodable).
func Unwire(raw []byte) (cid string, payload []byte, ok bool) {
	m, err := serde.UnmarshalCBOR[Envelope](raw)
	if err != nil {
		return "", nil, false
	}
	return m.CorrelationID, m.Payload, true
}

// Msg is one message as the sending router handed it to the transport.
type Msg struct {
	From, To sharing.ID
	Cid      string // wire correlation id
	Payload  []byte // protocol-level payload (CBOR of the round message, or of the echo wrapper)
	Occ      int    // occurrence index of (Cid, From, To) in this execution, from 0
	Seq      int    // global send sequence number in this execution (order inside one SendTo is Go-map order: compare per Cid only)
}

// Key identifies a message slot independent of Go map iteration order.
func (m *Msg) Key() string { return fmt.Sprintf("%s|%d>%d#%d", m.Cid, m.From, m.To, m.Occ) }

type flight struct {
	from, to sharing.ID
	raw      []byte
	stamp    int
	dup      bool
	held     bool // a delayed retransmission: not deliverable until the recipient itself has sent something again
}

// Net is the shared network of one execution.
type Net struct {
	q       []*flight
	parties []sharing.ID
	occ     map[string]int
	// FIFO: arrival order is ChooseDev (FIFO default, other orders cost a deviation); otherwise every order is explored.
	FIFO bool
	// DupDev: any message may be delivered twice (identical retransmission), costing one deviation.
	DupDev bool
	// OnSend, if set, sees every message at send time and returns the payloads to put on the wire instead
	// (nil = unchanged; empty non-nil slice = drop). It must be deterministic in Msg.Key().
	OnSend func(m *Msg) [][]byte
	// Trace records every message as sent by the (honest) routers, before OnSend.
	Trace []*Msg
	// Roots: the objects that make up each party's memory (its runner, which holds the participant and its state),
	// registered by the protocol cases; an adaptive deviator may edit its own (memedit).
	Roots map[sharing.ID][]any
}

// Root registers obj as part of party id's memory.
func (n *Net) Root(id sharing.ID, obj any) {
	if n.Roots == nil {
		n.Roots = map[sharing.ID][]any{}
	}
	n.Roots[id] = append(n.Roots[id], obj)
}

func New(parties ...sharing.ID) *Net {
	return &Net{parties: parties, occ: map[string]int{}, FIFO: true}
}

// Inject puts a raw transport message in flight.
func (n *Net) Inject(from, to sharing.ID, raw []byte) {
	n.q = append(n.q, &flight{from: from, to: to, raw: raw, stamp: mcrt.S.Points})
}

func (n *Net) pending(to sharing.ID) []*flight {
	var out []*flight
	for _, f := range n.q {
		if f.to == to && !f.held {
			out = append(out, f)
		}
	}
	sort.SliceStable(out, func(i, j int) bool {
		if out[i].stamp != out[j].stamp {
			return out[i].stamp < out[j].stamp
		}
		if out[i].from != out[j].from {
			return out[i].from < out[j].from
		}
		return string(out[i].raw) < string(out[j].raw)
	})
	return out
}

// Pending reports how many messages are in flight to a party.
func (n *Net) Pending(to sharing.ID) int { return len(n.pending(to)) }

func (n *Net) remove(f *flight) {
	for i, g := range n.q {
		if g == f {
			n.q = append(n.q[:i:i], n.q[i+1:]...)
			return
		}
	}
}

// Endpoint is one party's network.Delivery.
type Endpoint struct {
	net *Net
	id  sharing.ID
}

func (n *Net) Endpoint(id sharing.ID) *Endpoint { return &Endpoint{net: n, id: id} }

func (e *Endpoint) PartyID() sharing.ID  { return e.id }
func (e *Endpoint) Quorum() []sharing.ID { return append([]sharing.ID{}, e.net.parties...) }

// Send is not a scheduling point (it only enables other threads; arrival order is a free choice anyway), which also
// makes the order in which Router.SendTo ranges over its Go map unobservable.
func (e *Endpoint) Send(_ context.Context, to sharing.ID, raw []byte) error {
	n := e.net
	// a delayed retransmission addressed to this party is released once the party has moved on (it sends again)
	for _, f := range n.q {
		if f.held && f.to == e.id {
			f.held = false
			f.stamp = mcrt.S.Points
		}
	}
	cid, payload, ok := Unwire(raw)
	if !ok {
		n.Inject(e.id, to, append([]byte{}, raw...))
		return nil
	}
	k := fmt.Sprintf("%s|%d>%d", cid, e.id, to)
	m := &Msg{From: e.id, To: to, Cid: cid, Payload: append([]byte{}, payload...), Occ: n.occ[k], Seq: len(n.Trace)}
	n.occ[k]++
	n.Trace = append(n.Trace, m)
	if n.OnSend != nil {
		if repl := n.OnSend(m); repl != nil {
			for _, p := range repl {
				n.Inject(e.id, to, Wire(cid, p))
			}
			return nil
		}
	}
	n.Inject(e.id, to, append([]byte{}, raw...))
	return nil
}

func (e *Endpoint) Receive(ctx context.Context) (sharing.ID, []byte, error) {
	n := e.net
	mcrt.Yield("net.recv", func() bool { return len(n.pending(e.id)) > 0 || ctx.Err() != nil })
	p := n.pending(e.id)
	if len(p) == 0 {
		return 0, nil, ctx.Err()
	}
	opts := len(p)
	var c int
	if n.FIFO {
		c = mcrt.ChooseDev("arrival", opts)
	} else {
		c = mcrt.Choose("arrival", opts)
	}
	f := p[c]
	if n.DupDev && !f.dup {
		// identical retransmission: 1 = the copy stays in flight and arrives next; 2 = the copy arrives only after the
		// recipient has answered (the stale copy of an exchange the recipient has already completed)
		switch mcrt.ChooseDev("retransmit", 3) {
		case 1:
			f.dup = true
			return f.from, f.raw, nil
		case 2:
			f.dup = true
			f.held = true
			return f.from, f.raw, nil
		}
	}
	n.remove(f)
	return f.from, f.raw, nil
}
