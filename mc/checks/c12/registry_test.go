package c12

// Registry of serialisable types: one row per type = (name, values, decode, encode, Equal, validity adapter).

import (
	"bytes"
	"fmt"
	"os"
	"path/filepath"
	"reflect"
	"regexp"
	"sort"
	"strings"
	"sync"

	"github.com/bronlabs/bron-crypto/pkg/base/serde"

	"verifmc/det"
	"verifmc/engine"
)

// nv is one named valid value.
type nv[T any] struct {
	name string
	v    T
}

type anyVal struct {
	name string
	v    any
	enc  []byte // canonical encoding (filled by row.values)
}

// row is one registry entry (type-erased).
type row struct {
	name    string
	covers  string // "<repo-relative package dir>.<Type>" of the UnmarshalCBOR method this row decodes through ("" = plain struct / interface)
	message bool   // protocol round message: no constructor, validity rule is Validate(receiver, sender)
	group   string
	gen     func() []anyVal
	dec     func([]byte) (any, error)
	enc     func(any) ([]byte, error)
	eq      func(a, b any) bool
	valid   func(any) (any, error) // constructor(accessors(v)); nil = no constructor (messages)
	// cost of the cheapest decode, measured once (ns), for ordering the length-3 sweep
	once sync.Once
	vals []anyVal
	gerr string

	stableOnce sync.Once
	stable     bool
}

var (
	rows    []*row
	rowsMu  sync.Mutex
	rowByNm = map[string]*row{}
)

func must[T any](v T, err error) T {
	if err != nil {
		panic(engine.HarnessError{Msg: fmt.Sprintf("harness setup failed: %v", err)})
	}
	return v
}

func must0(err error) {
	if err != nil {
		panic(engine.HarnessError{Msg: fmt.Sprintf("harness setup failed: %v", err)})
	}
}

func stream(label string) *det.Stream { return det.New(engine.Seed(), "c12/"+label) }

// spec describes a row in typed form.
type spec[T any] struct {
	name    string
	covers  string
	group   string
	message bool
	gen     func() []nv[T]
	eq      func(a, b T) bool        // nil: equality of canonical encodings
	valid   func(v T) (T, error)     // nil: no constructor
}

func bytesEq[T any](a, b T) bool {
	ea, err1 := serde.MarshalCBOR(a)
	eb, err2 := serde.MarshalCBOR(b)
	return err1 == nil && err2 == nil && bytes.Equal(ea, eb)
}

// add registers a row whose wire form is serde.MarshalCBOR / serde.UnmarshalCBOR[T].
func add[T any](s spec[T]) {
	r := &row{name: s.name, covers: s.covers, message: s.message, group: s.group}
	r.dec = func(b []byte) (any, error) {
		v, err := serde.UnmarshalCBOR[T](b)
		if err != nil {
			return nil, err
		}
		return v, nil
	}
	r.enc = func(v any) ([]byte, error) { return serde.MarshalCBOR(v.(T)) }
	eq := s.eq
	if eq == nil {
		eq = bytesEq[T]
	}
	r.eq = func(a, b any) bool { return eq(a.(T), b.(T)) }
	if s.valid != nil {
		r.valid = func(v any) (any, error) {
			o, err := s.valid(v.(T))
			if err != nil {
				return nil, err
			}
			return o, nil
		}
	}
	gen := s.gen
	r.gen = func() []anyVal {
		var out []anyVal
		for _, x := range gen() {
			out = append(out, anyVal{name: x.name, v: x.v})
		}
		return out
	}
	rowsMu.Lock()
	defer rowsMu.Unlock()
	if rowByNm[r.name] != nil {
		panic(engine.HarnessError{Msg: "duplicate registry row " + r.name})
	}
	rowByNm[r.name] = r
	rows = append(rows, r)
}

// values builds (once) the row's valid values with their canonical encodings. A generator that fails is a harness
// error for that row: it is reported, and the row has no values.
func (r *row) values() []anyVal {
	r.once.Do(func() {
		defer func() {
			if p := recover(); p != nil {
				r.gerr = fmt.Sprintf("generator of row %s panicked: %v", r.name, p)
				r.vals = nil
			}
		}()
		vs := r.gen()
		for i := range vs {
			b, err := r.enc(vs[i].v)
			if err != nil {
				panic(fmt.Sprintf("value %s does not encode: %v", vs[i].name, err))
			}
			vs[i].enc = b
		}
		r.vals = vs
	})
	return r.vals
}

func isNil(v any) bool {
	if v == nil {
		return true
	}
	rv := reflect.ValueOf(v)
	switch rv.Kind() {
	case reflect.Pointer, reflect.Interface, reflect.Map, reflect.Slice, reflect.Func, reflect.Chan:
		return rv.IsNil()
	}
	return false
}

// ---------------------------------------------------------------------------------------------
// coverage of `grep -rn "func (.*) UnmarshalCBOR" /repo/pkg`

var unmarshalRe = regexp.MustCompile(`(?m)^func \(\w+ \*?(\w+)(?:\[[^\]]*\])?\) UnmarshalCBOR\(`)

func repoDir() string {
	if d := os.Getenv("VERIF_REPO"); d != "" {
		return d
	}
	return "/repo"
}

// scanUnmarshalers lists "<pkg dir>.<Type>" for every UnmarshalCBOR method in non-test files under pkg/.
func scanUnmarshalers() ([]string, error) {
	root := filepath.Join(repoDir(), "pkg")
	var out []string
	err := filepath.WalkDir(root, func(p string, d os.DirEntry, err error) error {
		if err != nil {
			return err
		}
		if d.IsDir() || !strings.HasSuffix(p, ".go") || strings.HasSuffix(p, "_test.go") {
			return nil
		}
		b, err := os.ReadFile(p)
		if err != nil {
			return err
		}
		for _, m := range unmarshalRe.FindAllSubmatch(b, -1) {
			rel, _ := filepath.Rel(repoDir(), filepath.Dir(p))
			out = append(out, rel+"."+string(m[1]))
		}
		return nil
	})
	sort.Strings(out)
	return out, err
}
