#!/bin/bash
# usage: tools/import_seeds.sh <ID> <src-dir>    copies <src-dir>/<k>/ (patch.diff, demo_test.go, meta.json) to the next free
# /verif/seeded/<ID>/<n>/ and prints the new indices
id=$1; src=$2
for d in $src/*/; do
  [ -f $d/patch.diff ] || continue
  n=1; while [ -d /verif/seeded/$id/$n ]; do n=$((n+1)); done
  mkdir -p /verif/seeded/$id/$n
  cp $d/patch.diff $d/demo_test.go $d/meta.json /verif/seeded/$id/$n/ 2>/dev/null
  echo -n "$n "
done
echo
