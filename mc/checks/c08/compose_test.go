package c08

import (
	"bytes"
	"fmt"
	"io"
	"strings"

	"github.com/bronlabs/bron-crypto/pkg/proofs/sigma"
	"github.com/bronlabs/bron-crypto/pkg/proofs/sigma/compose/sigand"
	"github.com/bronlabs/bron-crypto/pkg/proofs/sigma/compose/sigor"
)

// andCase is the n-way AND composition of c over instances (n*i .. n*i+n-1).
func andCase[X sigma.Statement, W sigma.Witness, A sigma.Statement, S sigma.State, Z sigma.Response](
	c *sigCase[X, W, A, S, Z], n int,
) *sigCase[sigand.Statement[X], sigand.Witness[W], sigand.Commitment[A], sigand.State[S], sigand.Response[Z]] {
	type (
		XX = sigand.Statement[X]
		WW = sigand.Witness[W]
		AA = sigand.Commitment[A]
		SS = sigand.State[S]
		ZZ = sigand.Response[Z]
	)
	out := &sigCase[XX, WW, AA, SS, ZZ]{name: fmt.Sprintf("%s/and%d", c.name, n), heavy: c.heavy, unitMS: c.unitMS * n}
	out.mk = func(rng io.Reader) sigma.Protocol[XX, WW, AA, SS, ZZ] {
		return must(sigand.Compose(c.mk(rng), uint(n)))
	}
	out.inst = func(i int) (XX, WW) {
		xs := make([]X, n)
		ws := make([]W, n)
		for k := range n {
			xs[k], ws[k] = c.inst(n*i + k)
		}
		return must(sigand.ComposeStatements(xs...)), must(sigand.ComposeWitnesses(ws...))
	}
	out.alts = func() []altStmt[XX] {
		base, _ := out.inst(0)
		var alts []altStmt[XX]
		for k := range n {
			// whole branch statement replaced by another valid instance's statement
			xs := append(XX{}, base...)
			xs[k], _ = c.inst(100 + k)
			alts = append(alts, altStmt[XX]{fmt.Sprintf("branch%d:=other-instance", k), xs})
		}
		// one component inside branch 0 / last branch replaced
		for _, k := range []int{0, n - 1} {
			if k == 0 {
				for _, a := range c.alts() {
					xs := append(XX{}, base...)
					xs[0] = a.x
					alts = append(alts, altStmt[XX]{"branch0." + a.name, xs})
				}
			}
		}
		// branches permuted (proof for (x0,x1,..) presented for (x1,x0,..))
		xs := append(XX{}, base...)
		xs[0], xs[1] = xs[1], xs[0]
		alts = append(alts, altStmt[XX]{"branches-0-1-swapped", xs})
		return alts
	}
	if c.extract != nil {
		out.extract = func(_ sigma.Protocol[XX, WW, AA, SS, ZZ], x XX, a AA, es []sigma.ChallengeBytes, zs []ZZ) (WW, error) {
			bp := c.mk(stream(out.name + "/extract"))
			ws := make([]W, n)
			for k := range n {
				zk := make([]Z, len(zs))
				for j := range zs {
					zk[j] = zs[j][k]
				}
				w, err := c.extract(bp, x[k], a[k], es, zk)
				if err != nil {
					return nil, err
				}
				ws[k] = w
			}
			return sigand.ComposeWitnesses(ws...)
		}
	}
	return out
}

// orCase is the 2-way OR composition of c where only branch `side` has a witness.
func orCase[X sigma.Statement, W sigma.Witness, A sigma.Statement, S sigma.State, Z sigma.Response](
	c *sigCase[X, W, A, S, Z], side int,
) *sigCase[sigor.Statement[X], sigor.Witness[W], sigor.Commitment[A], *sigor.State[S, Z], *sigor.Response[Z]] {
	return orCaseN(c, 2, side)
}

// orCaseN is the n-way OR composition of c where only branch `side` has a witness.
func orCaseN[X sigma.Statement, W sigma.Witness, A sigma.Statement, S sigma.State, Z sigma.Response](
	c *sigCase[X, W, A, S, Z], n, side int,
) *sigCase[sigor.Statement[X], sigor.Witness[W], sigor.Commitment[A], *sigor.State[S, Z], *sigor.Response[Z]] {
	type (
		XX = sigor.Statement[X]
		WW = sigor.Witness[W]
		AA = sigor.Commitment[A]
		SS = *sigor.State[S, Z]
		ZZ = *sigor.Response[Z]
	)
	sideName := fmt.Sprintf("or%d.%d", n, side)
	if n == 2 {
		sideName = []string{"orL", "orR"}[side]
	}
	out := &sigCase[XX, WW, AA, SS, ZZ]{name: c.name + "/" + sideName, heavy: c.heavy, unitMS: c.unitMS * n}
	out.mk = func(rng io.Reader) sigma.Protocol[XX, WW, AA, SS, ZZ] {
		return must(sigor.Compose(c.mk(rng), uint(n), rng))
	}
	out.inst = func(i int) (XX, WW) {
		xs := make([]X, n)
		var w W
		for k := range n {
			x, wk := c.inst(n*i + k)
			xs[k] = x
			if k == side {
				w = wk
			}
		}
		return must(sigor.ComposeStatements(xs...)), sigor.NewWitness(w)
	}
	out.alts = func() []altStmt[XX] {
		base, _ := out.inst(0)
		var alts []altStmt[XX]
		for k := range n {
			xs := append(XX{}, base...)
			xs[k], _ = c.inst(100 + k)
			alts = append(alts, altStmt[XX]{fmt.Sprintf("branch%d:=other-instance", k), xs})
		}
		for _, a := range c.alts() {
			xs := append(XX{}, base...)
			xs[0] = a.x
			alts = append(alts, altStmt[XX]{"branch0." + a.name, xs})
		}
		xs := append(XX{}, base...)
		xs[0], xs[1] = xs[1], xs[0]
		alts = append(alts, altStmt[XX]{"branches-swapped", xs})
		return alts
	}
	if c.extract != nil {
		out.extract = func(_ sigma.Protocol[XX, WW, AA, SS, ZZ], x XX, a AA, _ []sigma.ChallengeBytes, zs []ZZ) (WW, error) {
			bp := c.mk(stream(out.name + "/extract"))
			// the real branch is the one whose branch challenges differ between the two transcripts
			for k := range n {
				if bytes.Equal(zs[0].E[k], zs[1].E[k]) {
					continue
				}
				w, err := c.extract(bp, x[k], a[k], []sigma.ChallengeBytes{zs[0].E[k], zs[1].E[k]}, []Z{zs[0].Z[k], zs[1].Z[k]})
				if err != nil {
					return WW{}, err
				}
				return sigor.NewWitness(w), nil
			}
			return WW{}, fmt.Errorf("no branch with distinct challenges")
		}
	}
	return out
}

// ---------------------------------------------------------------------------------------------
// binary compositions of two DIFFERENT protocols (sigor.CartesianCompose / sigand.CartesianCompose): the branches
// have different statement types and, for the pairs selected in the plan, different challenge lengths

func cartName(n0, n1, comp string) string {
	p0, p1 := strings.SplitN(n0, "/", 2), strings.SplitN(n1, "/", 2)
	return p0[0] + "+" + p1[0] + "/" + p0[1] + "/" + comp
}

// cartOrCase: OR of c0 and c1 where only branch `side` has a valid witness (the other slot carries the witness of an
// unrelated instance, as the API requires both to be non-nil).
func cartOrCase[X0, X1 sigma.Statement, W0, W1 sigma.Witness, A0, A1 sigma.Statement, S0, S1 sigma.State, Z0, Z1 sigma.Response](
	c0 *sigCase[X0, W0, A0, S0, Z0], c1 *sigCase[X1, W1, A1, S1, Z1], side int,
) *sigCase[*sigor.StatementCartesian[X0, X1], *sigor.WitnessCartesian[W0, W1], *sigor.CommitmentCartesian[A0, A1], *sigor.StateCartesian[S0, S1, Z0, Z1], *sigor.ResponseCartesian[Z0, Z1]] {
	type (
		XX = *sigor.StatementCartesian[X0, X1]
		WW = *sigor.WitnessCartesian[W0, W1]
		AA = *sigor.CommitmentCartesian[A0, A1]
		SS = *sigor.StateCartesian[S0, S1, Z0, Z1]
		ZZ = *sigor.ResponseCartesian[Z0, Z1]
	)
	out := &sigCase[XX, WW, AA, SS, ZZ]{name: cartName(c0.name, c1.name, []string{"corL", "corR"}[side]), heavy: c0.heavy || c1.heavy, unitMS: c0.unitMS + c1.unitMS}
	out.mk = func(rng io.Reader) sigma.Protocol[XX, WW, AA, SS, ZZ] {
		return must(sigor.CartesianCompose(c0.mk(rng), c1.mk(rng), rng))
	}
	out.inst = func(i int) (XX, WW) {
		x0, w0 := c0.inst(2 * i)
		x1, w1 := c1.inst(2*i + 1)
		if side == 0 {
			_, w1 = c1.inst(2*i + 51)
		} else {
			_, w0 = c0.inst(2*i + 50)
		}
		return must(sigor.CartesianComposeStatements(x0, x1)), must(sigor.CartesianComposeWitnesses(w0, w1))
	}
	out.alts = func() []altStmt[XX] {
		base, _ := out.inst(0)
		var alts []altStmt[XX]
		o0, _ := c0.inst(100)
		o1, _ := c1.inst(101)
		alts = append(alts, altStmt[XX]{"branch0:=other-instance", must(sigor.CartesianComposeStatements(o0, base.X1))})
		alts = append(alts, altStmt[XX]{"branch1:=other-instance", must(sigor.CartesianComposeStatements(base.X0, o1))})
		for _, a := range c0.alts() {
			alts = append(alts, altStmt[XX]{"branch0." + a.name, must(sigor.CartesianComposeStatements(a.x, base.X1))})
		}
		for _, a := range c1.alts() {
			alts = append(alts, altStmt[XX]{"branch1." + a.name, must(sigor.CartesianComposeStatements(base.X0, a.x))})
		}
		return alts
	}
	return out
}

// cartAndCase: AND of c0 and c1.
func cartAndCase[X0, X1 sigma.Statement, W0, W1 sigma.Witness, A0, A1 sigma.Statement, S0, S1 sigma.State, Z0, Z1 sigma.Response](
	c0 *sigCase[X0, W0, A0, S0, Z0], c1 *sigCase[X1, W1, A1, S1, Z1],
) *sigCase[*sigand.StatementCartesian[X0, X1], *sigand.WitnessCartesian[W0, W1], *sigand.CommitmentCartesian[A0, A1], *sigand.StateCartesian[S0, S1], *sigand.ResponseCartesian[Z0, Z1]] {
	type (
		XX = *sigand.StatementCartesian[X0, X1]
		WW = *sigand.WitnessCartesian[W0, W1]
		AA = *sigand.CommitmentCartesian[A0, A1]
		SS = *sigand.StateCartesian[S0, S1]
		ZZ = *sigand.ResponseCartesian[Z0, Z1]
	)
	out := &sigCase[XX, WW, AA, SS, ZZ]{name: cartName(c0.name, c1.name, "cand"), heavy: c0.heavy || c1.heavy, unitMS: c0.unitMS + c1.unitMS}
	out.mk = func(rng io.Reader) sigma.Protocol[XX, WW, AA, SS, ZZ] {
		return must(sigand.CartesianCompose(c0.mk(rng), c1.mk(rng)))
	}
	out.inst = func(i int) (XX, WW) {
		x0, w0 := c0.inst(2 * i)
		x1, w1 := c1.inst(2*i + 1)
		return must(sigand.CartesianComposeStatements(x0, x1)), must(sigand.CartesianComposeWitnesses(w0, w1))
	}
	out.alts = func() []altStmt[XX] {
		base, _ := out.inst(0)
		var alts []altStmt[XX]
		o0, _ := c0.inst(100)
		o1, _ := c1.inst(101)
		alts = append(alts, altStmt[XX]{"branch0:=other-instance", must(sigand.CartesianComposeStatements(o0, base.X1))})
		alts = append(alts, altStmt[XX]{"branch1:=other-instance", must(sigand.CartesianComposeStatements(base.X0, o1))})
		for _, a := range c0.alts() {
			alts = append(alts, altStmt[XX]{"branch0." + a.name, must(sigand.CartesianComposeStatements(a.x, base.X1))})
		}
		for _, a := range c1.alts() {
			alts = append(alts, altStmt[XX]{"branch1." + a.name, must(sigand.CartesianComposeStatements(base.X0, a.x))})
		}
		return alts
	}
	return out
}

// cartFam: the compositions of an ordered pair of different protocols.
func cartFam[X0, X1 sigma.Statement, W0, W1 sigma.Witness, A0, A1 sigma.Statement, S0, S1 sigma.State, Z0, Z1 sigma.Response](
	c0 *sigCase[X0, W0, A0, S0, Z0], c1 *sigCase[X1, W1, A1, S1, Z1],
) []*niInst {
	return []*niInst{cartOrCase(c0, c1, 0).ni(), cartOrCase(c0, c1, 1).ni(), cartAndCase(c0, c1).ni()}
}

func cartOf[X0, X1 sigma.Statement, W0, W1 sigma.Witness, A0, A1 sigma.Statement, S0, S1 sigma.State, Z0, Z1 sigma.Response](
	c0 *sigCase[X0, W0, A0, S0, Z0], c1 *sigCase[X1, W1, A1, S1, Z1], comp string,
) *niInst {
	switch comp {
	case "corL":
		return cartOrCase(c0, c1, 0).ni()
	case "corR":
		return cartOrCase(c0, c1, 1).ni()
	case "cand":
		return cartAndCase(c0, c1).ni()
	}
	return nil
}
