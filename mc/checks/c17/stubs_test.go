package c17

import "verifmc/engine"

func stub() func(*engine.X) { return func(x *engine.X) { x.Trivial() } }

func numBody() func(*engine.X)      { return stub() }
func ratBody() func(*engine.X)      { return stub() }
func znBody() func(*engine.X)       { return stub() }
func modularBody() func(*engine.X)  { return stub() }
func crtBody() func(*engine.X)      { return stub() }
func znstarBody() func(*engine.X)   { return stub() }
func cardinalBody() func(*engine.X) { return stub() }
func primesBody() func(*engine.X)   { return stub() }
