package c01

import (
	"errors"
	"fmt"
	"math/big"
	"math/bits"
	"os"
	"sort"
	"strconv"
	"strings"
	"sync"

	"github.com/bronlabs/bron-crypto/pkg/base/algebra"
	"github.com/bronlabs/bron-crypto/pkg/mpc"
	"github.com/bronlabs/bron-crypto/pkg/mpc/sharing"
	"github.com/bronlabs/bron-crypto/pkg/mpc/sharing/accessstructures"
	"github.com/bronlabs/bron-crypto/pkg/mpc/sharing/accessstructures/hierarchical"

	"verifmc/catalog"
	"verifmc/engine"
	"verifmc/proto"
	"verifmc/ref/conv"
	"verifmc/ref/linalg"
	"verifmc/ref/policy"
)

// ---------------------------------------------------------------------------------------------------------------
// message alphabet (DESIGN §4)

var msgNames = []string{"empty", "a", "zero32", "ff32", "kib"}

func message(i int) []byte {
	switch i {
	case 0:
		return []byte{}
	case 1:
		return []byte("a")
	case 2:
		return make([]byte, 32)
	case 3:
		b := make([]byte, 32)
		for i := range b {
			b[i] = 0xff
		}
		return b
	default:
		b := make([]byte, 1024)
		for i := range b {
			b[i] = byte(i*7 + 3)
		}
		return b
	}
}

// nextMsg is "the next message of the alphabet" used for the rejection oracle.
func nextMsg(i int) int { return (i + 1) % len(msgNames) }

// ---------------------------------------------------------------------------------------------------------------
// access-structure catalogue for the signing protocols

// structure is one catalogue policy with its signing quorums taken from the reference truth table.
type structure struct {
	e catalog.Entry
	// qualified / unqualified party subsets of size >= 2 (a session context, and so every cosigner, needs two
	// parties: session.NewContext refuses smaller quorums by contract)
	qualified, unqualified []uint64
	minimal                map[uint64]bool
}

func mkStructure(e catalog.Entry) *structure {
	s := &structure{e: e, minimal: map[uint64]bool{}}
	for _, m := range catalog.Qualified(e.P) {
		if bits.OnesCount64(m) >= 2 {
			s.qualified = append(s.qualified, m)
		}
	}
	for _, m := range catalog.Unqualified(e.P) {
		if bits.OnesCount64(m) >= 2 {
			s.unqualified = append(s.unqualified, m)
		}
	}
	for _, m := range catalog.MinimalQualified(e.P) {
		s.minimal[m] = true
	}
	return s
}

// dummyParties: CNF parties contained in EVERY maximal unqualified set (their presence never matters).
// cnf.InducedMSP gives such a shareholder no MSP row, so no key generation produces a shard for it (the trusted dealer
// returns none, Gennaro fails in Round1, Canetti in Round3). That defect is the subject of C02 / C03 (finding key
// "cnf/dummy-party" there); signing presupposes key shares, so these policies are left out of C01's catalogue.
func dummyParties(p *policy.Policy) uint64 {
	if p.Kind != policy.CNF {
		return 0
	}
	d := p.Full()
	for _, u := range p.MUS {
		d &= u
	}
	return d
}

func entriesByName(es []catalog.Entry, names ...string) []catalog.Entry {
	var out []catalog.Entry
	for _, n := range names {
		found := false
		for _, e := range es {
			if e.Name == n {
				out = append(out, e)
				found = true
			}
		}
		if !found {
			panic(engine.HarnessError{Msg: "catalogue entry not found: " + n})
		}
	}
	return out
}

func dedup(es []catalog.Entry) []*structure {
	seen := map[string]bool{}
	var out []*structure
	for _, e := range catalog.Accepted(es) {
		if seen[e.Name] {
			continue
		}
		seen[e.Name] = true
		if dummyParties(e.P) != 0 {
			continue // see dummyParties
		}
		s := mkStructure(e)
		if len(s.qualified) == 0 {
			continue
		}
		out = append(out, s)
	}
	return out
}

// cheapCatalogue: quick = every threshold / unanimity / CNF (all labelled) / hierarchical policy on n <= 3 parties
// plus T(2,4), T(3,4), two CNFs and one hierarchical policy on 4 parties and the five boolean-expression trees of
// catalog.Small (non-ideal ones included: repeated leaves, a holder owning several MSP rows);
// thorough = threshold, unanimity, CNF (one per relabelling orbit for n = 4), hierarchical to n = 4, the
// catalog.Small cross-section and (allBoolTrees: Lindell22) every boolean-expression tree with <= 3 leaves over
// <= 3 parties.
func cheapCatalogue(allBoolTrees bool) []*structure {
	var es []catalog.Entry
	if engine.Thorough() {
		es = append(es, catalog.Thresholds(2, 4)...)
		es = append(es, catalog.Unanimities(2, 4)...)
		es = append(es, catalog.CNFs(2, 4, 3)...)
		es = append(es, catalog.Hierarchicals(2, 4, 3)...)
		if allBoolTrees {
			es = append(es, catalog.BoolExprs(3, 3)...)
		}
		es = append(es, catalog.Small()...)
		return dedup(es)
	}
	es = append(es, catalog.Thresholds(2, 3)...)
	es = append(es, catalog.Unanimities(2, 3)...)
	es = append(es, catalog.CNFs(2, 3, 3)...)
	es = append(es, catalog.Hierarchicals(2, 3, 3)...)
	es = append(es, entriesByName(catalog.Small(), "thr(2,4)", "thr(3,4)", "cnf4{01|23}", "cnf4{0|12|13|23}", "hier4[1:01 3:23]",
		"bool3:T2(0,1,2)", "bool3:T2(0,T1(1,2))", "bool3:T1(T2(0,1),T2(0,2))", "bool4:T2(T1(0,1),T1(2,3))", "bool3:T2(T2(0,1),T1(1,2),2)")...)
	return dedup(es)
}

func smallByName(names ...string) []*structure {
	all := append(append([]catalog.Entry{}, catalog.Small()...), catalog.CNFs(3, 3, 3)...)
	return dedup(entriesByName(all, names...))
}

func build(s *structure, a catalog.IDAssignment) accessstructures.Monotone {
	ac, err := catalog.Build(s.e.P, a.IDs)
	if err != nil {
		panic(engine.HarnessError{Msg: fmt.Sprintf("catalog.Build(%s, %s): %v", s.e.Name, a.Name, err)})
	}
	return ac
}

func idsString(ids []sharing.ID) string {
	var sb strings.Builder
	for i, id := range ids {
		if i > 0 {
			sb.WriteByte(',')
		}
		fmt.Fprintf(&sb, "%d", uint64(id))
	}
	return "{" + sb.String() + "}"
}

// ---------------------------------------------------------------------------------------------------------------
// key material cache (immutable once built; bodies are stateless, key generation is the expensive shared setup)

type cacheEntry struct {
	once sync.Once
	v    any
	err  error
}

var cache sync.Map

func cached[T any](key string, mk func() (T, error)) (T, error) {
	e, _ := cache.LoadOrStore(key, &cacheEntry{})
	ce := e.(*cacheEntry)
	ce.once.Do(func() {
		defer func() {
			if r := recover(); r != nil {
				if he, ok := r.(engine.HarnessError); ok {
					panic(he)
				}
				ce.err = fmt.Errorf("panic: %v", r)
			}
		}()
		ce.v, ce.err = mk()
	})
	if ce.err != nil {
		var zero T
		return zero, ce.err
	}
	return ce.v.(T), nil
}

// errOutsideDomain: the (policy, identifier assignment, field) triple is refused by the library's documented
// precondition for hierarchical sharing (hierarchical.CheckConstraints: identifiers increasing with the level and
// Tassa's field-size condition, which the "large" identifiers violate once the last threshold reaches 4). Whether
// that precondition is decided correctly is C02's subject; here such a triple is simply not a signing configuration.
var errOutsideDomain = errors.New("outside the documented domain of hierarchical sharing")

// baseShards returns (cached) base shards of structure s under assignment a over the group, made by kg.
func baseShards[E algebra.PrimeGroupElement[E, S], S algebra.PrimeFieldElement[S]](groupName string, group algebra.PrimeGroup[E, S], s *structure, a catalog.IDAssignment, kg proto.C01Keygen) (map[sharing.ID]*mpc.BaseShard[E, S], error) {
	key := fmt.Sprintf("base|%s|%s|%s|%s", groupName, s.e.Name, a.Name, kg)
	return cached(key, func() (map[sharing.ID]*mpc.BaseShard[E, S], error) {
		if s.e.P.Kind == policy.Hierarchical {
			h, err := catalog.BuildHierarchical(s.e.P, a.IDs)
			if err != nil {
				return nil, err
			}
			field, ok := group.ScalarStructure().(algebra.PrimeField[S])
			if !ok {
				panic(engine.HarnessError{Msg: "scalar structure of " + groupName + " is not a prime field"})
			}
			if err := hierarchical.CheckConstraints(field, h); err != nil {
				return nil, fmt.Errorf("%w: %v", errOutsideDomain, err)
			}
		}
		return proto.C01BaseShards(kg, group, build(s, a), a.IDs, engine.Seed(), key)
	})
}

// ---------------------------------------------------------------------------------------------------------------
// reference reconstruction of the shared secret from the dealt shares (ref/linalg over the MSP read out of a shard)

// refSecret solves lambda^T * M = e0 over all rows in math/big and returns sum lambda_r * share_r mod q.
func refSecret[E algebra.PrimeGroupElement[E, S], S algebra.PrimeFieldElement[S]](q *big.Int, shards map[sharing.ID]*mpc.BaseShard[E, S]) (*big.Int, error) {
	var first *mpc.BaseShard[E, S]
	ids := make([]sharing.ID, 0, len(shards))
	for id, sh := range shards {
		ids = append(ids, id)
		if first == nil {
			first = sh
		}
	}
	sort.Slice(ids, func(i, j int) bool { return ids[i] < ids[j] })
	lm := first.MSP().Matrix()
	rows, cols := lm.Dimensions()
	M := linalg.New(q, rows, cols)
	for i := 0; i < rows; i++ {
		for j := 0; j < cols; j++ {
			e, err := lm.Get(i, j)
			if err != nil {
				return nil, err
			}
			M.A[i][j] = conv.ToBig(e)
		}
	}
	rowsOf := map[sharing.ID][]int{}
	for r := 0; r < rows; r++ {
		h, ok := first.MSP().RowsToHolders().Get(r)
		if !ok {
			return nil, fmt.Errorf("MSP row %d has no holder", r)
		}
		rowsOf[h] = append(rowsOf[h], r)
	}
	share := make([]*big.Int, rows)
	for _, id := range ids {
		sv := shards[id].Share().Value()
		if len(sv) != len(rowsOf[id]) {
			return nil, fmt.Errorf("party %d: %d share components for %d MSP rows", id, len(sv), len(rowsOf[id]))
		}
		for j, r := range rowsOf[id] {
			share[r] = conv.ToBig(sv[j])
		}
	}
	for r := range share {
		if share[r] == nil {
			return nil, fmt.Errorf("no share component for MSP row %d", r)
		}
	}
	e0 := make([]*big.Int, cols)
	for i := range e0 {
		e0[i] = new(big.Int)
	}
	e0[0] = big.NewInt(1)
	lambda, ok := M.Transpose().SolveRight(e0)
	if !ok {
		return nil, fmt.Errorf("the target vector is not in the row span of the full MSP")
	}
	acc := new(big.Int)
	for r := 0; r < rows; r++ {
		acc.Add(acc, new(big.Int).Mul(lambda[r], share[r]))
	}
	return acc.Mod(acc, q), nil
}

// ---------------------------------------------------------------------------------------------------------------
// small helpers

func subsetsOf(mask uint64) []uint64 {
	var out []uint64
	for s := (mask - 1) & mask; s > 0; s = (s - 1) & mask {
		out = append(out, s)
	}
	sort.Slice(out, func(i, j int) bool { return out[i] < out[j] })
	return out
}

// errStr renders an error with its causes (errs-go keeps the causes behind Unwrap() []error; Error() is the
// outermost message only).
func errStr(err error) string {
	if err == nil {
		return "<nil>"
	}
	var walk func(e error, depth int) string
	walk = func(e error, depth int) string {
		s := e.Error()
		if i := strings.IndexByte(s, '\n'); i >= 0 {
			s = s[:i]
		}
		if depth > 12 {
			return s
		}
		switch u := e.(type) {
		case interface{ Unwrap() []error }:
			for _, c := range u.Unwrap() {
				if c != nil {
					s += " <- " + walk(c, depth+1)
				}
			}
		case interface{ Unwrap() error }:
			if c := u.Unwrap(); c != nil {
				s += " <- " + walk(c, depth+1)
			}
		}
		return s
	}
	s := walk(err, 0)
	if len(s) > 600 {
		s = s[:600] + "…"
	}
	return s
}

func errsString(m map[string]error) string {
	keys := make([]string, 0, len(m))
	for k := range m {
		keys = append(keys, k)
	}
	sort.Strings(keys)
	var sb strings.Builder
	for _, k := range keys {
		fmt.Fprintf(&sb, "[%s: %s] ", k, errStr(m[k]))
	}
	return sb.String()
}

// once wraps an execution so that an inner loop reports every finding key ONCE per execution: the first instance in
// full, plus the number of further cases of the same execution that raised the same key.
type once struct {
	*engine.X
	order []string
	first map[string]string
	count map[string]int
}

func newOnce(x *engine.X) *once {
	return &once{X: x, first: map[string]string{}, count: map[string]int{}}
}

func (o *once) Failf(key, format string, a ...any) {
	if o.count[key] == 0 {
		o.order = append(o.order, key)
		o.first[key] = fmt.Sprintf(format, a...)
	}
	o.count[key]++
}

// outside reports whether err says the configuration is outside the documented domain; the execution is then
// marked trivial.
func outside(x *engine.X, err error, where string) bool {
	if !errors.Is(err, errOutsideDomain) {
		return false
	}
	x.Trivial()
	x.Observe(where, "refused-as-documented")
	return true
}

func (o *once) flush() {
	for _, k := range o.order {
		if n := o.count[k]; n > 1 {
			// the first line of a failure message is what the replay confirmation compares: it must not contain
			// library error texts (their wording depends on Go map iteration order inside the library)
			head, rest, _ := strings.Cut(o.first[k], "\n")
			if rest != "" {
				rest = "\n" + rest
			}
			o.X.Failf(k, "%s  [+ %d more case(s) of this execution with the same finding]%s", head, n-1, rest)
		} else {
			o.X.Failf(k, "%s", o.first[k])
		}
	}
	o.order = nil
}

// slot is the single, flattened choice point of a section: n leaves numbered 0..n-1. Under process sharding the
// engine executes the top of the choice tree in EVERY worker process until the frontier of unexecuted prefixes is
// 16 x wider than the number of processes; a space of fewer than 16*16+1 executions would therefore be executed
// completely by each process. With pad the point gets empty slots (marked trivial, they cost nothing): slot 0 (the
// root, which every process runs) and every slot > n are empty, slot i is leaf i-1, and consecutive slots go to
// different processes.
const padWidth = 16*16 + 2

func slot(x *engine.X, n int, pad bool) (leaf int, ok bool) {
	if !pad {
		return x.Choose("leaf", n), true
	}
	total := n + 1
	if total < padWidth {
		total = padWidth
	}
	i := x.Choose("slot", total)
	if i == 0 || i > n {
		x.Trivial()
		return 0, false
	}
	return i - 1, true
}

// capLeaves: debugging aid (C01_MAXLEAVES=n keeps every k-th leaf so that about n remain).
func capLeaves[T any](ls []T) []T {
	n, _ := strconv.Atoi(os.Getenv("C01_MAXLEAVES"))
	if n <= 0 || len(ls) <= n {
		return ls
	}
	step := len(ls) / n
	var out []T
	for i := 0; i < len(ls); i += step {
		out = append(out, ls[i])
	}
	return out
}

// tally counts outcome classes across executions of a section (printed for the vacuity check).
type tally struct {
	mu sync.Mutex
	m  map[string]int
}

func newTally() *tally { return &tally{m: map[string]int{}} }

func (t *tally) add(k string) {
	t.mu.Lock()
	t.m[k]++
	t.mu.Unlock()
}

var _ = policy.Members
