package c15

import (
	"encoding/hex"
	"fmt"
	"math/big"
	"sync"

	"github.com/bronlabs/bron-crypto/pkg/base/algebra"
	"github.com/bronlabs/bron-crypto/pkg/base/curves"
	"github.com/bronlabs/bron-crypto/pkg/base/curves/pairable"
	"github.com/bronlabs/bron-crypto/pkg/base/curves/pairable/bls12381"
	"github.com/bronlabs/bron-crypto/pkg/signatures"
	"github.com/bronlabs/bron-crypto/pkg/signatures/bls"

	"verifmc/engine"
	"verifmc/ref/conv"
	"verifmc/ref/curve"
	"verifmc/ref/curve/libcurve"
)

type (
	gtE = *bls12381.GtElement
	scE = *bls12381.Scalar
)

// domain separation tags typed in from draft-irtf-cfrg-bls-signature section 4.2 (not read from the library)
func blsDST(sigInG2 bool, alg bls.RogueKeyPreventionAlgorithm) string {
	g := "G1"
	if sigInG2 {
		g = "G2"
	}
	suffix := map[bls.RogueKeyPreventionAlgorithm]string{bls.Basic: "NUL_", bls.MessageAugmentation: "AUG_", bls.POP: "POP_"}[alg]
	return "BLS_SIG_BLS12381" + g + "_XMD:SHA-256_SSWU_RO_" + suffix
}

func blsPopDST(sigInG2 bool) string {
	g := "G1"
	if sigInG2 {
		g = "G2"
	}
	return "BLS_POP_BLS12381" + g + "_XMD:SHA-256_SSWU_RO_POP_"
}

var blsAlgs = []bls.RogueKeyPreventionAlgorithm{bls.Basic, bls.MessageAugmentation, bls.POP}

func algName(a bls.RogueKeyPreventionAlgorithm) string {
	return map[bls.RogueKeyPreventionAlgorithm]string{bls.Basic: "basic", bls.MessageAugmentation: "aug", bls.POP: "pop"}[a]
}

// blsCtx binds one key-group choice (PK in G1 = "short" / minimal-pubkey-size, PK in G2 = "long") to the reference
// curves of the key group (coordinates EK) and the signature group (coordinates ES).
type blsCtx[PK curves.PairingFriendlyPoint[PK, PKFE, SG, SGFE, gtE, scE], PKFE algebra.FieldElement[PKFE],
	SG curves.PairingFriendlyPoint[SG, SGFE, PK, PKFE, gtE, scE], SGFE algebra.FieldElement[SGFE], EK any, ES any] struct {
	name     string
	sigInG2  bool
	mkScheme func(bls.RogueKeyPreventionAlgorithm) (*bls.Scheme[PK, PKFE, SG, SGFE, gtE, scE], error)
	keyGroup curves.PairingFriendlyCurve[PK, PKFE, SG, SGFE, gtE, scE]
	sigGroup curves.PairingFriendlyCurve[SG, SGFE, PK, PKFE, gtE, scE]
	refK     *curve.WCurve[EK]
	refS     *curve.WCurve[ES]
	keyToRef func(PK) (curve.WPoint[EK], error)
	sigToRef func(SG) (curve.WPoint[ES], error)
	keyLow   func(curve.WPoint[EK]) PK // low-level construction through the exported impl point (no subgroup check)
	sigLow   func(curve.WPoint[ES]) SG
	keyEnc   func(curve.WPoint[EK]) []byte         // independent compressed (zcash) encoding
	sigDec   func([]byte) (curve.WPoint[ES], bool) // independent compressed decoding incl. subgroup membership
	torK     func() curve.WPoint[EK]               // a non-identity point of the key curve killed by the cofactor
	torS     func() curve.WPoint[ES]
	tal      *tally
	hcache   sync.Map // dst|msg -> H(m) in the reference model
	ecache   sync.Map // sk|dst|msg -> [sk]H(m)
	bcache   sync.Map // base signatures
}

func (c *blsCtx[PK, PKFE, SG, SGFE, EK, ES]) r() *big.Int { return c.refS.Q }

func (c *blsCtx[PK, PKFE, SG, SGFE, EK, ES]) scalar(v *big.Int) scE {
	return conv.FromBig(bls12381.NewScalarField(), c.r(), v)
}

func (c *blsCtx[PK, PKFE, SG, SGFE, EK, ES]) hashRef(dst string, msg []byte) curve.WPoint[ES] {
	key := dst + "|" + hex.EncodeToString(msg)
	if v, ok := c.hcache.Load(key); ok {
		return v.(curve.WPoint[ES])
	}
	h, err := c.sigGroup.HashWithDst(dst, msg)
	if err != nil {
		panic(engine.HarnessError{Msg: "HashWithDst: " + err.Error()})
	}
	p, err := c.sigToRef(h)
	if err != nil {
		panic(engine.HarnessError{Msg: "H(m) not on the reference curve: " + err.Error()})
	}
	c.hcache.Store(key, p)
	return p
}

// expected is [sk]*H_dst(msg) in the reference model: the unique signature-group element the pairing equation accepts.
func (c *blsCtx[PK, PKFE, SG, SGFE, EK, ES]) expected(sk *big.Int, dst string, msg []byte) curve.WPoint[ES] {
	key := sk.Text(16) + "|" + dst + "|" + hex.EncodeToString(msg)
	if v, ok := c.ecache.Load(key); ok {
		return v.(curve.WPoint[ES])
	}
	p := c.refS.ScalarMul(new(big.Int).Mod(sk, c.r()), c.hashRef(dst, msg))
	c.ecache.Store(key, p)
	return p
}

func (c *blsCtx[PK, PKFE, SG, SGFE, EK, ES]) privateKey(d *big.Int) *bls.PrivateKey[PK, PKFE, SG, SGFE, gtE, scE] {
	sk, err := bls.NewPrivateKey(c.keyGroup, c.scalar(d))
	if err != nil {
		panic(engine.HarnessError{Msg: "bls.NewPrivateKey: " + err.Error()})
	}
	return sk
}

func (c *blsCtx[PK, PKFE, SG, SGFE, EK, ES]) pkStruct(p PK) *bls.PublicKey[PK, PKFE, SG, SGFE, gtE, scE] {
	return &bls.PublicKey[PK, PKFE, SG, SGFE, gtE, scE]{PublicKeyTrait: signatures.PublicKeyTrait[PK, scE]{V: p}}
}

type blsBase struct {
	once sync.Once
	err  error
	sig  []byte
	pop  []byte
}

// baseSig signs once per (alg, secret key, message) and hands out fresh objects decoded from the bytes.
func (c *blsCtx[PK, PKFE, SG, SGFE, EK, ES]) baseSig(alg bls.RogueKeyPreventionAlgorithm, d *big.Int, msg []byte) (*bls.Signature[SG, SGFE, PK, PKFE, gtE, scE], error) {
	key := fmt.Sprintf("%d|%s|%x", alg, d.Text(16), msg)
	e, _ := c.bcache.LoadOrStore(key, &blsBase{})
	b := e.(*blsBase)
	b.once.Do(func() {
		sch, err := c.mkScheme(alg)
		if err != nil {
			panic(engine.HarnessError{Msg: err.Error()})
		}
		signer, err := sch.Signer(c.privateKey(d))
		if err != nil {
			panic(engine.HarnessError{Msg: err.Error()})
		}
		sg, err := signer.Sign(msg)
		if err != nil {
			b.err = err
			return
		}
		b.sig = sg.Bytes()
		if sg.Pop() != nil {
			b.pop = sg.Pop().Bytes()
		}
	})
	if b.err != nil {
		return nil, b.err
	}
	var pop *bls.ProofOfPossession[SG, SGFE, PK, PKFE, gtE, scE]
	if b.pop != nil {
		var err error
		pop, err = bls.NewProofOfPossessionFromBytes(c.sigGroup, b.pop)
		if err != nil {
			panic(engine.HarnessError{Msg: "own proof of possession does not decode: " + err.Error()})
		}
	}
	sg, err := bls.NewSignatureFromBytes(c.sigGroup, b.sig, pop)
	if err != nil {
		panic(engine.HarnessError{Msg: "own signature does not decode: " + err.Error()})
	}
	return sg, nil
}

// single-signature verdict by definition. dlog == nil: the key is not a valid public key (identity / outside the
// subgroup). pkEnc: independent compressed encoding of the key (message augmentation, proof of possession).
func (c *blsCtx[PK, PKFE, SG, SGFE, EK, ES]) wantSingle(alg bls.RogueKeyPreventionAlgorithm, dlog *big.Int, pkEnc []byte, msg []byte,
	sigma curve.WPoint[ES], sigmaOK bool, pop *curve.WPoint[ES]) bool {
	if dlog == nil || new(big.Int).Mod(dlog, c.r()).Sign() == 0 || !sigmaOK || sigma.Inf {
		return false
	}
	m := msg
	switch alg {
	case bls.MessageAugmentation:
		m = append(append([]byte{}, pkEnc...), msg...)
	case bls.POP:
		if pop == nil || pop.Inf || !c.refS.Equal(*pop, c.expected(dlog, blsPopDST(c.sigInG2), pkEnc)) {
			return false
		}
	}
	return c.refS.Equal(sigma, c.expected(dlog, blsDST(c.sigInG2, alg), m))
}

func (c *blsCtx[PK, PKFE, SG, SGFE, EK, ES]) body() func(*engine.X) {
	pairs := keyMsgPairs(engine.Thorough())
	r := c.r()
	return func(x *engine.X) {
		alg := engine.Pick(x, "mode", blsAlgs)
		km := engine.Pick(x, "key,msg", pairs)
		ki, mi := km[0], km[1]
		full := engine.Thorough() || (alg == bls.Basic && mi == 1 && ki == 2)
		nChunks := 4
		if full {
			nChunks = 16
		}
		chunk := x.Choose("chunk", nChunks)
		id := fmt.Sprintf("bls/%s/%s/%s/%s", c.name, algName(alg), keyNames[ki], msgNames[mi])
		d := secretKey(r, ki)
		msg := message(mi)
		sch, err := c.mkScheme(alg)
		if err != nil {
			panic(engine.HarnessError{Msg: err.Error()})
		}
		sg, err := c.baseSig(alg, d, msg)
		if err != nil {
			// the library refuses to sign the empty message; its verifier must refuse it as well
			x.Trivial()
			x.Observe("sign-refused", errStr(err))
			c.tal.add("sign-refused/"+msgNames[mi], vRefuse)
			if len(msg) != 0 {
				x.Failf("bls/"+c.name+"/sign", "%s: Sign failed: %v", id, err)
			}
			return
		}
		sk := c.privateKey(d)
		pk := sk.PublicKey()
		pkRef := c.refK.ScalarBaseMul(d)
		if got, err := c.keyToRef(pk.Value()); err != nil || !c.refK.Equal(got, pkRef) {
			x.Failf("bls/"+c.name+"/sk-to-pk", "%s: public key is not [sk]G", id)
			return
		}
		pkEnc := c.keyEnc(pkRef)
		verifier, err := sch.Verifier()
		if err != nil {
			panic(engine.HarnessError{Msg: err.Error()})
		}
		sigmaRef, err := c.sigToRef(sg.Value())
		if err != nil {
			x.Failf("bls/"+c.name+"/sig-not-on-curve", "%s: %v", id, err)
			return
		}
		var popRef *curve.WPoint[ES]
		if sg.Pop() != nil {
			p, err := c.sigToRef(sg.Pop().Value())
			if err != nil {
				x.Failf("bls/"+c.name+"/pop-not-on-curve", "%s: %v", id, err)
				return
			}
			popRef = &p
		}
		if alg == bls.POP && popRef == nil {
			x.Failf("bls/"+c.name+"/pop-absent", "%s: the PoP-mode signer attached no proof of possession", id)
			return
		}

		type sigT = bls.Signature[SG, SGFE, PK, PKFE, gtE, scE]
		type pkT = bls.PublicKey[PK, PKFE, SG, SGFE, gtE, scE]
		type popT = bls.ProofOfPossession[SG, SGFE, PK, PKFE, gtE, scE]
		type alt struct {
			label   string
			sig     *sigT
			why     string
			pk      *pkT
			dlog    *big.Int
			pkEnc   []byte
			sigma   curve.WPoint[ES]
			sigmaOK bool
			pop     *curve.WPoint[ES]
			msg     []byte
		}
		var alts []alt
		add := func(a alt) {
			if a.pk == nil {
				a.pk, a.dlog, a.pkEnc = pk, d, pkEnc
			}
			if a.msg == nil {
				a.msg = msg
			}
			alts = append(alts, a)
		}
		newSig := func(v SG, pop *popT) (*sigT, string) {
			s, err := bls.NewSignature(v, pop)
			if err != nil {
				return nil, "NewSignature: " + errStr(err)
			}
			return s, ""
		}
		add(alt{label: "none", sig: sg, sigma: sigmaRef, sigmaOK: true, pop: popRef})
		// every bit of the compressed signature through NewSignatureFromBytes
		ser := sg.Bytes()
		for _, i := range bitSet(8*len(ser), full) {
			e := flipBitBE(ser, i)
			a := alt{label: fmt.Sprintf("enc/bit%d", i), pop: popRef}
			a.sigma, a.sigmaOK = c.sigDec(e)
			s2, err := bls.NewSignatureFromBytes(c.sigGroup, e, sg.Pop())
			if err != nil {
				a.why = "NewSignatureFromBytes: " + errStr(err)
			} else {
				a.sig = s2
			}
			add(a)
		}
		for _, l := range []int{0, len(ser) - 1, len(ser) + 1} {
			e := make([]byte, l)
			copy(e, ser)
			a := alt{label: fmt.Sprintf("enc/len%+d", l-len(ser)), pop: popRef}
			if s2, err := bls.NewSignatureFromBytes(c.sigGroup, e, sg.Pop()); err != nil {
				a.why = "NewSignatureFromBytes: " + errStr(err)
			} else {
				a.sig = s2
			}
			add(a)
		}
		// signature point alterations
		{
			s1, why := newSig(sg.Value().Neg(), sg.Pop())
			add(alt{label: "sig/neg", sig: s1, why: why, sigma: c.refS.Neg(sigmaRef), sigmaOK: true, pop: popRef})
			s2, why := newSig(sg.Value().Double(), sg.Pop())
			add(alt{label: "sig/double", sig: s2, why: why, sigma: c.refS.Double(sigmaRef), sigmaOK: true, pop: popRef})
			fsg, err := c.baseSig(alg, secretKey(r, 3), msg)
			if err != nil {
				panic(engine.HarnessError{Msg: err.Error()})
			}
			fref, _ := c.sigToRef(fsg.Value())
			s3, why := newSig(fsg.Value(), sg.Pop())
			add(alt{label: "sig/foreign", sig: s3, why: why, sigma: fref, sigmaOK: true, pop: popRef})
			// the identity signature is reachable through the public aggregation API: sigma + (-sigma)
			if s1 != nil {
				idSig, err := sg.TryAdd(s1)
				a := alt{label: "sig/identity(via-TryAdd)", sigma: c.refS.Identity(), sigmaOK: true, pop: popRef}
				if err != nil {
					a.why = "TryAdd: " + errStr(err)
				} else {
					a.sig = idSig
					if alg == bls.POP {
						// TryAdd also sums the proofs; keep the honest proof so that only the signature is altered
						a.sig = nil
						a.why = "identity signature with an honest proof is not constructible"
						if v, why := newSig(idSig.Value(), sg.Pop()); v != nil {
							a.sig = v
						} else {
							a.why = why
						}
					}
				}
				add(a)
			}
			// a point outside the prime-order subgroup: sigma + T with T of cofactor order
			out := c.refS.Add(sigmaRef, c.torS())
			low := c.sigLow(out)
			s4, why := newSig(low, sg.Pop())
			add(alt{label: "sig/outside-subgroup(ctor)", sig: s4, why: why, sigma: out, sigmaOK: false, pop: popRef})
			s5, err := bls.NewSignatureFromBytes(c.sigGroup, low.ToCompressed(), sg.Pop())
			a := alt{label: "sig/outside-subgroup(decoder)", sig: s5, sigma: out, sigmaOK: false, pop: popRef}
			if err != nil {
				a.sig, a.why = nil, "NewSignatureFromBytes: "+errStr(err)
			}
			add(a)
		}
		// proof of possession alterations
		if alg == bls.POP {
			s1, why := newSig(sg.Value(), nil)
			add(alt{label: "pop/missing", sig: s1, why: why, sigma: sigmaRef, sigmaOK: true, pop: nil})
			fsg, _ := c.baseSig(alg, secretKey(r, 3), msg)
			fp, _ := c.sigToRef(fsg.Pop().Value())
			s2, why := newSig(sg.Value(), fsg.Pop())
			add(alt{label: "pop/foreign", sig: s2, why: why, sigma: sigmaRef, sigmaOK: true, pop: &fp})
			np, err := bls.NewProofOfPossession[SG, SGFE, PK, PKFE, gtE, scE](sg.Pop().Value().Neg())
			if err != nil {
				panic(engine.HarnessError{Msg: err.Error()})
			}
			nref := c.refS.Neg(*popRef)
			s3, why := newSig(sg.Value(), np)
			add(alt{label: "pop/neg", sig: s3, why: why, sigma: sigmaRef, sigmaOK: true, pop: &nref})
			// [sk]H(pk) under the SIGNATURE tag instead of the proof tag: a signature over the key bytes is not a proof
			wsg, err := c.baseSig(alg, d, pk.Bytes())
			if err != nil {
				panic(engine.HarnessError{Msg: err.Error()})
			}
			wp, err := bls.NewProofOfPossession[SG, SGFE, PK, PKFE, gtE, scE](wsg.Value())
			if err != nil {
				panic(engine.HarnessError{Msg: err.Error()})
			}
			wref, _ := c.sigToRef(wsg.Value())
			s4, why := newSig(sg.Value(), wp)
			add(alt{label: "pop/wrong-domain", sig: s4, why: why, sigma: sigmaRef, sigmaOK: true, pop: &wref})
			// the proof used as signature and vice versa
			s5, why := newSig(sg.Pop().Value(), sg.Pop())
			add(alt{label: "sig/is-the-proof", sig: s5, why: why, sigma: *popRef, sigmaOK: true, pop: popRef})
		}
		// key alterations
		mkKey := func(dl *big.Int) (*pkT, []byte) {
			return c.privateKey(dl).PublicKey(), c.keyEnc(c.refK.ScalarBaseMul(dl))
		}
		base := alt{sig: sg, sigma: sigmaRef, sigmaOK: true, pop: popRef}
		for _, ka := range []struct {
			label string
			dl    *big.Int
		}{{"key/neg", new(big.Int).Sub(r, d)}, {"key/double", new(big.Int).Mod(new(big.Int).Lsh(d, 1), r)}, {"key/foreign", secretKey(r, 3)}} {
			if ka.dl.Sign() == 0 {
				continue
			}
			a := base
			a.label = ka.label
			a.pk, a.pkEnc = mkKey(ka.dl)
			a.dlog = ka.dl
			add(a)
		}
		if alg == bls.POP {
			// foreign key together with ITS valid proof: only the signature equation can reject
			fsg, _ := c.baseSig(alg, secretKey(r, 3), msg)
			fp, _ := c.sigToRef(fsg.Pop().Value())
			a := base
			a.label = "key/foreign+its-proof"
			a.pk, a.pkEnc = mkKey(secretKey(r, 3))
			a.dlog = secretKey(r, 3)
			a.sig, a.why = newSig(sg.Value(), fsg.Pop())
			a.pop = &fp
			add(a)
		}
		if _, err := bls.NewPublicKey[PK, PKFE, SG, SGFE, gtE, scE](c.keyGroup.OpIdentity()); err == nil {
			x.Failf("bls/"+c.name+"/key/identity-constructible", "%s: NewPublicKey accepted the identity", id)
		}
		{
			a := base
			a.label = "key/identity(struct)"
			a.pk, a.dlog, a.pkEnc = c.pkStruct(c.keyGroup.OpIdentity()), nil, nil
			add(a)
			out := c.refK.Add(pkRef, c.torK())
			low := c.keyLow(out)
			if _, err := bls.NewPublicKey[PK, PKFE, SG, SGFE, gtE, scE](low); err == nil {
				x.Failf("bls/"+c.name+"/key/outside-subgroup-constructible", "%s: NewPublicKey accepted a point outside the prime-order subgroup", id)
			}
			if _, err := bls.NewPublicKeyFromBytes(c.keyGroup, low.ToCompressed()); err == nil {
				x.Failf("bls/"+c.name+"/key/outside-subgroup-decodable", "%s: NewPublicKeyFromBytes accepted a point outside the prime-order subgroup", id)
			}
			b := base
			b.label = "key/outside-subgroup(struct)"
			b.pk, b.dlog, b.pkEnc = c.pkStruct(low), nil, nil
			add(b)
		}
		for _, ma := range messageAlterations(msg, 0, engine.Thorough() && alg == bls.Basic) {
			a := base
			a.label, a.msg = ma.label, ma.msg
			if len(ma.msg) == 0 {
				a.msg = []byte{}
			}
			add(a)
		}

		var nAcc, nRej int
		for idx, a := range alts {
			if idx%nChunks != chunk {
				continue
			}
			x.Case(id + "/" + a.label)
			lib := false
			var verr error
			if a.sig != nil {
				verr = verifier.Verify(a.sig, a.pk, a.msg)
				lib = verr == nil
				c.tal.add(class(a.label), verdictOf(verr))
			} else {
				c.tal.add(class(a.label), vRefuse)
			}
			want := c.wantSingle(alg, a.dlog, a.pkEnc, a.msg, a.sigma, a.sigmaOK, a.pop)
			if lib != want {
				x.Failf("bls/"+c.name+"/"+algName(alg)+"/"+class(a.label), "%s alteration %s: library accept=%v (err=%s %s), by-definition verdict accept=%v; msg=%x", id, a.label, lib, errStr(verr), a.why, want, trunc(a.msg))
			}
			if lib {
				nAcc++
			} else {
				nRej++
			}
		}
		x.Observe(id, chunk, "acc", nAcc, "rej", nRej)
	}
}

// ---------------------------------------------------------------------------------------------------------------
// bindings

var blsFamily = sync.OnceValue(func() curves.PairingFriendlyFamily[*bls12381.PointG1, *bls12381.BaseFieldElementG1, *bls12381.PointG2, *bls12381.BaseFieldElementG2, gtE, scE] {
	return pairable.NewBLS12381()
})

func g1Low(p curve.FpPoint) *bls12381.PointG1 {
	F := curve.BLS12381G1().F
	fx, err := bls12381.NewG1BaseField().FromBytes(F.Bytes(p.X))
	if err != nil {
		panic(engine.HarnessError{Msg: err.Error()})
	}
	fy, err := bls12381.NewG1BaseField().FromBytes(F.Bytes(p.Y))
	if err != nil {
		panic(engine.HarnessError{Msg: err.Error()})
	}
	var out bls12381.PointG1
	if out.V.SetAffine(&fx.V, &fy.V) != 1 {
		panic(engine.HarnessError{Msg: "g1Low: the library refuses on-curve coordinates"})
	}
	return &out
}

func g2Low(p curve.Fp2Point) *bls12381.PointG2 {
	F := curve.BLS12381G2().F
	fx, err := bls12381.NewG2BaseField().FromBytes(F.Bytes(p.X))
	if err != nil {
		panic(engine.HarnessError{Msg: err.Error()})
	}
	fy, err := bls12381.NewG2BaseField().FromBytes(F.Bytes(p.Y))
	if err != nil {
		panic(engine.HarnessError{Msg: err.Error()})
	}
	var out bls12381.PointG2
	if out.V.SetAffine(&fx.V, &fy.V) != 1 {
		panic(engine.HarnessError{Msg: "g2Low: the library refuses on-curve coordinates"})
	}
	return &out
}

// torsion points: [r]X for the first curve point X (x = 1, 2, ...) whose multiple is not the identity.
var g1Torsion = sync.OnceValue(func() curve.FpPoint {
	c := curve.BLS12381G1()
	for i := int64(1); ; i++ {
		p, _, ok := c.LiftX(big.NewInt(i))
		if !ok {
			continue
		}
		if t := c.ScalarMul(c.Q, p); !t.Inf {
			return t
		}
	}
})

var g2Torsion = sync.OnceValue(func() curve.Fp2Point {
	c := curve.BLS12381G2()
	F := curve.BLS12381Fp2()
	for i := int64(1); ; i++ {
		p, _, ok := c.LiftX(F.El(i, 1))
		if !ok {
			continue
		}
		if t := c.ScalarMul(c.Q, p); !t.Inf {
			return t
		}
	}
})

func shortCtx() *blsCtx[*bls12381.PointG1, *bls12381.BaseFieldElementG1, *bls12381.PointG2, *bls12381.BaseFieldElementG2, *big.Int, curve.Fp2] {
	fam := blsFamily()
	a1, a2 := libcurve.BLS12381G1(), libcurve.BLS12381G2()
	return &blsCtx[*bls12381.PointG1, *bls12381.BaseFieldElementG1, *bls12381.PointG2, *bls12381.BaseFieldElementG2, *big.Int, curve.Fp2]{
		name: "short", sigInG2: true,
		mkScheme: func(alg bls.RogueKeyPreventionAlgorithm) (*bls.Scheme[*bls12381.PointG1, *bls12381.BaseFieldElementG1, *bls12381.PointG2, *bls12381.BaseFieldElementG2, gtE, scE], error) {
			return bls.NewShortKeyScheme(fam, alg)
		},
		keyGroup: fam.SourceSubGroup(), sigGroup: fam.TwistedSubGroup(), refK: a1.Ref, refS: a2.Ref,
		keyToRef: a1.TryToRef, sigToRef: a2.TryToRef, keyLow: g1Low, sigLow: g2Low,
		keyEnc: g1Compress, sigDec: g2Decompress, torK: g1Torsion, torS: g2Torsion, tal: newTally(),
	}
}

func longCtx() *blsCtx[*bls12381.PointG2, *bls12381.BaseFieldElementG2, *bls12381.PointG1, *bls12381.BaseFieldElementG1, curve.Fp2, *big.Int] {
	fam := blsFamily()
	a1, a2 := libcurve.BLS12381G1(), libcurve.BLS12381G2()
	return &blsCtx[*bls12381.PointG2, *bls12381.BaseFieldElementG2, *bls12381.PointG1, *bls12381.BaseFieldElementG1, curve.Fp2, *big.Int]{
		name: "long", sigInG2: false,
		mkScheme: func(alg bls.RogueKeyPreventionAlgorithm) (*bls.Scheme[*bls12381.PointG2, *bls12381.BaseFieldElementG2, *bls12381.PointG1, *bls12381.BaseFieldElementG1, gtE, scE], error) {
			return bls.NewLongKeyScheme(fam, alg)
		},
		keyGroup: fam.TwistedSubGroup(), sigGroup: fam.SourceSubGroup(), refK: a2.Ref, refS: a1.Ref,
		keyToRef: a2.TryToRef, sigToRef: a1.TryToRef, keyLow: g2Low, sigLow: g1Low,
		keyEnc: g2Compress, sigDec: g1Decompress, torK: g2Torsion, torS: g1Torsion, tal: newTally(),
	}
}

var (
	blsShort = sync.OnceValue(shortCtx)
	blsLong  = sync.OnceValue(longCtx)
)

func runBLS() {
	s, l := blsShort(), blsLong()
	s.tal.note(engine.Explore(s.body(), engine.Opts{Name: "bls/short", Budget: budget(5, 30)}))
	l.tal.note(engine.Explore(l.body(), engine.Opts{Name: "bls/long", Budget: budget(5, 30)}))
}
