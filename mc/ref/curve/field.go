// Package curve is the math/big reference model of the elliptic curves used by bron-crypto.
//
// It is deliberately boring: affine coordinates, textbook chord-and-tangent group laws with an explicit case
// analysis (identity / equal / opposite / generic), double-and-add scalar multiplication on big.Int, Tonelli-Shanks
// square roots. Nothing here is constant time and nothing is read from the library: all constants are typed in from
// the standards (SEC 2, FIPS 186-4, RFC 7748, RFC 8032, the pasta-curves and BLS12-381 specifications) and validated
// by the package self-test (primality, generator on curve, q*G == O, published multiples).
//
// The package itself does not import bron-crypto. Converters between library points and reference points live in
// conv.go (structural interfaces only) and in the sub-package libcurve (ready-made adapters per library curve).
//
// Values are immutable by convention: no function modifies its *big.Int arguments, results never alias inputs that a
// caller may later mutate (points returned by the group law may share coordinates with their operands, so treat
// coordinates as read-only).
package curve

import (
	"fmt"
	"math/big"
)

// Field is the arithmetic of a finite field whose elements are values of type E.
// Two instances exist: *PrimeField (E = *big.Int, canonical representatives in [0,p)) and *QuadField (E = Fp2).
type Field[E any] interface {
	Zero() E
	One() E
	FromInt64(v int64) E
	Add(a, b E) E
	Sub(a, b E) E
	Neg(a E) E
	Mul(a, b E) E
	Sqr(a E) E
	// Inv returns a^-1; ok is false (and the result is Zero) when a == 0.
	Inv(a E) (inv E, ok bool)
	// Sqrt returns some r with r*r == a; ok is false when a is not a square. Sqrt(0) = 0, ok.
	Sqrt(a E) (r E, ok bool)
	IsSquare(a E) bool
	IsZero(a E) bool
	Equal(a, b E) bool
	// Valid reports whether a is a canonical element (every coordinate in [0,p)).
	Valid(a E) bool
	// Bytes is the big-endian fixed-width encoding (for Fp2: c0 || c1); used as a comparison/map key only.
	Bytes(a E) []byte
	String(a E) string
	// Char is the characteristic p, Degree the extension degree, ByteLen the byte length of one Fp coordinate.
	Char() *big.Int
	Degree() int
	ByteLen() int
}

// PrimeField is F_p with elements *big.Int in [0,p).
type PrimeField struct {
	P *big.Int
}

var _ Field[*big.Int] = (*PrimeField)(nil)

// NewPrimeField returns F_p. p must be an odd prime (checked by the self-test for the built-in curves).
func NewPrimeField(p *big.Int) *PrimeField { return &PrimeField{P: new(big.Int).Set(p)} }

func (f *PrimeField) Zero() *big.Int { return new(big.Int) }
func (f *PrimeField) One() *big.Int  { return big.NewInt(1) }

// FromInt64 reduces a (possibly negative) small integer into [0,p).
func (f *PrimeField) FromInt64(v int64) *big.Int { return f.Red(big.NewInt(v)) }

// Red reduces any integer (negative allowed) into [0,p).
func (f *PrimeField) Red(a *big.Int) *big.Int { return new(big.Int).Mod(a, f.P) }

func (f *PrimeField) Add(a, b *big.Int) *big.Int { return f.Red(new(big.Int).Add(a, b)) }
func (f *PrimeField) Sub(a, b *big.Int) *big.Int { return f.Red(new(big.Int).Sub(a, b)) }
func (f *PrimeField) Neg(a *big.Int) *big.Int    { return f.Red(new(big.Int).Neg(a)) }
func (f *PrimeField) Mul(a, b *big.Int) *big.Int { return f.Red(new(big.Int).Mul(a, b)) }
func (f *PrimeField) Sqr(a *big.Int) *big.Int    { return f.Red(new(big.Int).Mul(a, a)) }

// Exp returns a^e mod p for e >= 0.
func (f *PrimeField) Exp(a, e *big.Int) *big.Int { return new(big.Int).Exp(f.Red(a), e, f.P) }

// Inv returns a^-1 mod p (math/big extended Euclid), ok=false for a ≡ 0.
func (f *PrimeField) Inv(a *big.Int) (*big.Int, bool) {
	r := f.Red(a)
	if r.Sign() == 0 {
		return new(big.Int), false
	}
	inv := new(big.Int).ModInverse(r, f.P)
	if inv == nil {
		panic("ref/curve: modulus is not prime")
	}
	return inv, true
}

// InvFermat returns a^(p-2) mod p: a second, independent way to invert (used by the self-test and field checks).
func (f *PrimeField) InvFermat(a *big.Int) (*big.Int, bool) {
	r := f.Red(a)
	if r.Sign() == 0 {
		return new(big.Int), false
	}
	return f.Exp(r, new(big.Int).Sub(f.P, big.NewInt(2))), true
}

// Div returns a/b, ok=false for b ≡ 0.
func (f *PrimeField) Div(a, b *big.Int) (*big.Int, bool) {
	bi, ok := f.Inv(b)
	if !ok {
		return new(big.Int), false
	}
	return f.Mul(a, bi), true
}

// Legendre returns 0 for a ≡ 0, +1 for a non-zero square, -1 for a non-square (Euler's criterion).
func (f *PrimeField) Legendre(a *big.Int) int {
	r := f.Red(a)
	if r.Sign() == 0 {
		return 0
	}
	e := new(big.Int).Rsh(new(big.Int).Sub(f.P, big.NewInt(1)), 1)
	if f.Exp(r, e).Cmp(big.NewInt(1)) == 0 {
		return 1
	}
	return -1
}

func (f *PrimeField) IsSquare(a *big.Int) bool { return f.Legendre(a) >= 0 }

// Sqrt is Tonelli-Shanks. The returned root is whichever the algorithm produces; use SqrtBoth / parity helpers to
// select a particular one.
func (f *PrimeField) Sqrt(a *big.Int) (*big.Int, bool) {
	n := f.Red(a)
	if n.Sign() == 0 {
		return new(big.Int), true
	}
	if f.Legendre(n) != 1 {
		return new(big.Int), false
	}
	one := big.NewInt(1)
	// p-1 = q * 2^s, q odd
	q := new(big.Int).Sub(f.P, one)
	s := 0
	for q.Bit(0) == 0 {
		q.Rsh(q, 1)
		s++
	}
	// a non-residue z
	z := big.NewInt(2)
	for f.Legendre(z) != -1 {
		z.Add(z, one)
	}
	m := s
	c := f.Exp(z, q)
	t := f.Exp(n, q)
	r := f.Exp(n, new(big.Int).Rsh(new(big.Int).Add(q, one), 1))
	for t.Cmp(one) != 0 {
		// least i, 0<i<m, with t^(2^i) == 1
		i := 0
		tt := new(big.Int).Set(t)
		for tt.Cmp(one) != 0 {
			tt = f.Sqr(tt)
			i++
			if i == m {
				return new(big.Int), false // cannot happen for a residue
			}
		}
		b := new(big.Int).Set(c)
		for j := 0; j < m-i-1; j++ {
			b = f.Sqr(b)
		}
		m = i
		c = f.Sqr(b)
		t = f.Mul(t, c)
		r = f.Mul(r, b)
	}
	if f.Sqr(r).Cmp(n) != 0 {
		panic("ref/curve: Tonelli-Shanks produced a wrong root")
	}
	return r, true
}

// SqrtBoth returns both roots (lo <= hi as integers); for a == 0 both are 0.
func (f *PrimeField) SqrtBoth(a *big.Int) (lo, hi *big.Int, ok bool) {
	r, ok := f.Sqrt(a)
	if !ok {
		return nil, nil, false
	}
	o := f.Neg(r)
	if r.Cmp(o) > 0 {
		r, o = o, r
	}
	return r, o, true
}

func (f *PrimeField) IsZero(a *big.Int) bool   { return f.Red(a).Sign() == 0 }
func (f *PrimeField) Equal(a, b *big.Int) bool { return f.Red(a).Cmp(f.Red(b)) == 0 }
func (f *PrimeField) Valid(a *big.Int) bool    { return a != nil && a.Sign() >= 0 && a.Cmp(f.P) < 0 }
func (f *PrimeField) Char() *big.Int           { return new(big.Int).Set(f.P) }
func (f *PrimeField) Degree() int              { return 1 }
func (f *PrimeField) ByteLen() int             { return (f.P.BitLen() + 7) / 8 }
func (f *PrimeField) String(a *big.Int) string { return "0x" + a.Text(16) }

// Bytes is the big-endian encoding of a mod p on ByteLen() bytes.
func (f *PrimeField) Bytes(a *big.Int) []byte {
	return f.Red(a).FillBytes(make([]byte, f.ByteLen()))
}

// FromBytesBE interprets big-endian bytes and reduces mod p (so it also serves as the "wide reduction" oracle).
func (f *PrimeField) FromBytesBE(b []byte) *big.Int { return f.Red(new(big.Int).SetBytes(b)) }

// FromBytesLE is FromBytesBE for little-endian input.
func (f *PrimeField) FromBytesLE(b []byte) *big.Int {
	r := make([]byte, len(b))
	for i := range b {
		r[len(b)-1-i] = b[i]
	}
	return f.FromBytesBE(r)
}

// ---------------------------------------------------------------------------------------------------------------
// quadratic extension F_p[u]/(u^2 - Beta)

// Fp2 is c0 + c1*u.
type Fp2 struct {
	C0, C1 *big.Int
}

// QuadField is F_p[u]/(u^2 - Beta) with Beta a non-square of F_p (Beta = -1 for BLS12-381).
type QuadField struct {
	Base *PrimeField
	Beta *big.Int
}

var _ Field[Fp2] = (*QuadField)(nil)

// NewQuadField returns F_p[u]/(u^2-beta); panics if beta is a square (the quotient would not be a field).
func NewQuadField(base *PrimeField, beta *big.Int) *QuadField {
	b := base.Red(beta)
	if base.Legendre(b) != -1 {
		panic("ref/curve: beta must be a non-square")
	}
	return &QuadField{Base: base, Beta: b}
}

// El builds c0 + c1*u from small integers.
func (f *QuadField) El(c0, c1 int64) Fp2 { return Fp2{f.Base.FromInt64(c0), f.Base.FromInt64(c1)} }

func (f *QuadField) Zero() Fp2             { return f.El(0, 0) }
func (f *QuadField) One() Fp2              { return f.El(1, 0) }
func (f *QuadField) FromInt64(v int64) Fp2 { return f.El(v, 0) }
func (f *QuadField) Add(a, b Fp2) Fp2      { return Fp2{f.Base.Add(a.C0, b.C0), f.Base.Add(a.C1, b.C1)} }
func (f *QuadField) Sub(a, b Fp2) Fp2      { return Fp2{f.Base.Sub(a.C0, b.C0), f.Base.Sub(a.C1, b.C1)} }
func (f *QuadField) Neg(a Fp2) Fp2         { return Fp2{f.Base.Neg(a.C0), f.Base.Neg(a.C1)} }
func (f *QuadField) Sqr(a Fp2) Fp2         { return f.Mul(a, a) }
func (f *QuadField) IsZero(a Fp2) bool     { return f.Base.IsZero(a.C0) && f.Base.IsZero(a.C1) }
func (f *QuadField) Equal(a, b Fp2) bool   { return f.Base.Equal(a.C0, b.C0) && f.Base.Equal(a.C1, b.C1) }
func (f *QuadField) Valid(a Fp2) bool      { return f.Base.Valid(a.C0) && f.Base.Valid(a.C1) }
func (f *QuadField) Char() *big.Int        { return f.Base.Char() }
func (f *QuadField) Degree() int           { return 2 }
func (f *QuadField) ByteLen() int          { return f.Base.ByteLen() }
func (f *QuadField) Bytes(a Fp2) []byte    { return append(f.Base.Bytes(a.C0), f.Base.Bytes(a.C1)...) }
func (f *QuadField) String(a Fp2) string {
	return fmt.Sprintf("(0x%s + 0x%s*u)", a.C0.Text(16), a.C1.Text(16))
}
func (f *QuadField) Conj(a Fp2) Fp2 { return Fp2{f.Base.Red(a.C0), f.Base.Neg(a.C1)} }
func (f *QuadField) MulScalar(a Fp2, k *big.Int) Fp2 {
	return Fp2{f.Base.Mul(a.C0, k), f.Base.Mul(a.C1, k)}
}

// Mul is the schoolbook product (a0 + a1 u)(b0 + b1 u) = (a0 b0 + Beta a1 b1) + (a0 b1 + a1 b0) u.
func (f *QuadField) Mul(a, b Fp2) Fp2 {
	B := f.Base
	c0 := B.Add(B.Mul(a.C0, b.C0), B.Mul(f.Beta, B.Mul(a.C1, b.C1)))
	c1 := B.Add(B.Mul(a.C0, b.C1), B.Mul(a.C1, b.C0))
	return Fp2{c0, c1}
}

// Norm is a0^2 - Beta a1^2 in F_p.
func (f *QuadField) Norm(a Fp2) *big.Int {
	B := f.Base
	return B.Sub(B.Sqr(a.C0), B.Mul(f.Beta, B.Sqr(a.C1)))
}

// Inv is conj(a)/Norm(a).
func (f *QuadField) Inv(a Fp2) (Fp2, bool) {
	if f.IsZero(a) {
		return f.Zero(), false
	}
	ni, ok := f.Base.Inv(f.Norm(a))
	if !ok {
		panic("ref/curve: zero norm of a non-zero element")
	}
	return f.MulScalar(f.Conj(a), ni), true
}

// Exp returns a^e for e >= 0 (square and multiply).
func (f *QuadField) Exp(a Fp2, e *big.Int) Fp2 {
	r := f.One()
	for i := e.BitLen() - 1; i >= 0; i-- {
		r = f.Sqr(r)
		if e.Bit(i) == 1 {
			r = f.Mul(r, a)
		}
	}
	return r
}

// IsSquare: a is a square in F_p^2 iff its norm is a square in F_p.
func (f *QuadField) IsSquare(a Fp2) bool { return f.Base.IsSquare(f.Norm(a)) }

// Sqrt solves (x0 + x1 u)^2 = a by the norm method: with n = sqrt(Norm(a)), x0^2 = (a0 ± n)/2 and
// x1 = a1 / (2 x0); the pure cases a1 == 0 are handled explicitly. The result is verified by squaring.
func (f *QuadField) Sqrt(a Fp2) (Fp2, bool) {
	B := f.Base
	if f.IsZero(a) {
		return f.Zero(), true
	}
	if B.IsZero(a.C1) {
		// a in F_p: either sqrt(a0) in F_p, or sqrt(a0/Beta)*u
		if r, ok := B.Sqrt(a.C0); ok {
			return Fp2{r, new(big.Int)}, true
		}
		q, _ := B.Div(a.C0, f.Beta)
		r, ok := B.Sqrt(q)
		if !ok {
			panic("ref/curve: element of F_p without a square root in F_p^2")
		}
		return Fp2{new(big.Int), r}, true
	}
	n, ok := B.Sqrt(f.Norm(a))
	if !ok {
		return f.Zero(), false
	}
	half, _ := B.Inv(big.NewInt(2))
	for _, s := range []*big.Int{n, B.Neg(n)} {
		x0sq := B.Mul(B.Add(a.C0, s), half)
		x0, ok := B.Sqrt(x0sq)
		if !ok || B.IsZero(x0) {
			continue
		}
		x1, _ := B.Div(a.C1, B.Mul(big.NewInt(2), x0))
		r := Fp2{x0, x1}
		if f.Equal(f.Sqr(r), a) {
			return r, true
		}
	}
	panic("ref/curve: Fp2 square root not found although the norm is a square")
}
