// Package conv converts between library field elements and math/big values without using library arithmetic.
package conv

import (
	"math/big"

	"github.com/bronlabs/bron-crypto/pkg/base/algebra"
)

// Known scalar-field orders, typed in from the standards (not read from the library).
var (
	K256N, _     = new(big.Int).SetString("fffffffffffffffffffffffffffffffebaaedce6af48a03bbfd25e8cd0364141", 16)
	P256N, _     = new(big.Int).SetString("ffffffff00000000ffffffffffffffffbce6faada7179e84f3b9cac2fc632551", 16)
	BLS12381R, _ = new(big.Int).SetString("73eda753299d7d483339d80809a1d80553bda402fffe5bfeffffffff00000001", 16)
	Ed25519L, _  = new(big.Int).SetString("1000000000000000000000000000000014def9dea2f79cd65812631a5cf5d3ed", 16)
	PallasQ, _   = new(big.Int).SetString("40000000000000000000000000000000224698fc0994a8dd8c46eb2100000001", 16) // Pallas scalar field = Vesta base field
	PallasP, _   = new(big.Int).SetString("40000000000000000000000000000000224698fc094cf91b992d30ed00000001", 16) // Pallas base field = Vesta scalar field
)

// ToBig reads a field element's canonical big-endian bytes.
func ToBig(e interface{ Bytes() []byte }) *big.Int { return new(big.Int).SetBytes(e.Bytes()) }

// FromBig builds the element v mod q; the reduction is done in math/big and the bytes handed over are canonical.
func FromBig[F algebra.PrimeFieldElement[F]](field algebra.PrimeField[F], q, v *big.Int) F {
	r := new(big.Int).Mod(v, q)
	buf := make([]byte, field.ElementSize())
	r.FillBytes(buf)
	e, err := field.FromBytes(buf)
	if err != nil {
		panic("conv.FromBig: " + err.Error())
	}
	return e
}
