package c07

// Protocol cases with PER-PARTY control of the random source. Every party gets exactly one io.Reader (a *tap) and
// nothing else that is random: session contexts and dealt key material are fixed functions of the key seed.

import (
	"github.com/bronlabs/bron-crypto/pkg/mpc/zero/przs"
	"context"
	"encoding/hex"
	"fmt"
	"io"
	"sort"

	"github.com/bronlabs/bron-crypto/pkg/base/curves/k256"
	"github.com/bronlabs/bron-crypto/pkg/base/datastructures/hashmap"
	"github.com/bronlabs/bron-crypto/pkg/mcrt"
	"github.com/bronlabs/bron-crypto/pkg/mpc/aor"
	"github.com/bronlabs/bron-crypto/pkg/mpc/dkg/canetti"
	"github.com/bronlabs/bron-crypto/pkg/mpc/dkg/gennaro"
	"github.com/bronlabs/bron-crypto/pkg/mpc/redistribute"
	"github.com/bronlabs/bron-crypto/pkg/mpc/session"
	"github.com/bronlabs/bron-crypto/pkg/mpc/sharing/accessstructures"
	"github.com/bronlabs/bron-crypto/pkg/mpc/signatures/schnorr/lindell22"
	"github.com/bronlabs/bron-crypto/pkg/mpc/signatures/schnorr/lindell22/keygen"
	"github.com/bronlabs/bron-crypto/pkg/mpc/signatures/schnorr/lindell22/signing"
	"github.com/bronlabs/bron-crypto/pkg/network"
	"github.com/bronlabs/bron-crypto/pkg/proofs/sigma/compiler/fiatshamir"
	"github.com/bronlabs/bron-crypto/pkg/signatures/schnorrlike/bip340"
	"github.com/bronlabs/bron-crypto/pkg/transcripts/hagrid"

	"verifmc/det"
	"verifmc/proto"
	"verifmc/schednet"
)

type ID = proto.ID

// pres is one party's result.
type pres struct {
	ok      bool
	err     error
	panic   string
	starved bool
}

// msg is one protocol message in a form that is comparable across runs.
type msg struct {
	key     string // cid|from>to#occ
	cid     string
	from    ID
	to      ID
	payload []byte
}

// outcome of one run of all parties.
type outcome struct {
	parties map[ID]*pres
	// joint: named outputs that are MEANT to be random and that depend on every party's stream (signature nonce
	// point and signature, generated public key, session id, agreed random value, zero / new shares)
	joint      map[string]string
	msgs       []*msg // every message as sent, canonical order
	harnessErr string
	deadlock   string
	round1     map[ID]string // per party: base correlation id of the first message it sent
}

func (o *outcome) allOK() bool {
	for _, p := range o.parties {
		if !p.ok {
			return false
		}
	}
	return len(o.parties) > 0
}

// kase is one protocol configuration.
type kase struct {
	name  string
	ids   []ID
	sched bool // runs over schednet (needs the scheduler: one execution at a time per process)
	// randomised[id]==false: this party samples nothing in this protocol by design (e.g. a party that only receives
	// in a redistribution); no "stream is read" / "messages change" demand is made for it.
	passive map[ID]bool
	// reactive[id]==true: this party's first message is computed AFTER it received a message (two-party protocols in
	// which the parties alternate), so it may legitimately depend on the peer's randomness as well.
	reactive map[ID]bool
	// jointBy != nil: only these parties' randomness is meant to influence the joint outputs (nil = every party's).
	jointBy map[ID]bool
	// heavy: one execution costs seconds; the failing-source probe uses the quick index set in every tier.
	heavy bool
	run   func(x mcrt.Chooser, ks int64, sess int, taps map[ID]*tap) *outcome
}

type zeroChooser struct{}

func (zeroChooser) Choose(string, int) int    { return 0 }
func (zeroChooser) ChooseDev(string, int) int { return 0 }

func hx(b []byte) string { return hex.EncodeToString(b) }

// runNet runs a runner-based protocol over schednet and collects trace, results and per-party consumption at the
// moment the party's first message leaves.
func runNet[O any](x mcrt.Chooser, ids []ID, taps map[ID]*tap, party schednet.PartyFunc[O]) (map[ID]*schednet.Result[O], *outcome) {
	net := schednet.New(ids...)
	for _, t := range taps {
		t.atFirstSend = -1
	}
	first := map[ID]string{}
	net.OnSend = func(m *schednet.Msg) [][]byte {
		if t := taps[m.From]; t != nil && t.atFirstSend < 0 {
			t.atFirstSend = t.Bytes
		}
		if t := taps[m.From]; t != nil && (len(t.marks) == 0 || t.marks[len(t.marks)-1] != t.Calls) {
			t.marks = append(t.marks, t.Calls)
		}
		if _, ok := first[m.From]; !ok {
			first[m.From] = baseCid(m.Cid)
		}
		return nil
	}
	res, info := schednet.RunAll(x, net, ids, party)
	o := &outcome{parties: map[ID]*pres{}, joint: map[string]string{}, harnessErr: info.HarnessErr, deadlock: info.Deadlock, round1: first}
	for id, r := range res {
		o.parties[id] = &pres{ok: r.Done && r.Err == nil && r.Panic == "", err: r.Err, panic: r.Panic, starved: r.Starved}
	}
	for _, m := range net.Trace {
		o.msgs = append(o.msgs, &msg{key: m.Key(), cid: m.Cid, from: m.From, to: m.To, payload: m.Payload})
	}
	sort.Slice(o.msgs, func(i, j int) bool { return o.msgs[i].key < o.msgs[j].key })
	return res, o
}

func ctxLabel(name string, sess int) string { return fmt.Sprintf("c07/%s/session-%d", name, sess) }

func rd(taps map[ID]*tap, id ID) io.Reader { return taps[id] }

// idsTag names a party set: "n3" for {1,2,3}, "ids3-7-64" otherwise.
func idsTag(ids []ID) string {
	plain := true
	for i, id := range ids {
		if id != ID(i+1) {
			plain = false
		}
	}
	if plain {
		return fmt.Sprintf("n%d", len(ids))
	}
	t := "ids"
	for i, id := range ids {
		if i > 0 {
			t += "-"
		}
		t += fmt.Sprint(id)
	}
	return t
}

func sessionCase(ids []ID) *kase {
	name := "session/" + idsTag(ids)
	return &kase{name: name, ids: ids, sched: true, run: func(x mcrt.Chooser, ks int64, sess int, taps map[ID]*tap) *outcome {
		q := proto.Set(ids...)
		res, o := runNet(x, ids, taps, func(ctx context.Context, id ID, rt *network.Router) (*session.Context, error) {
			r, err := session.NewSessionRunner(id, q, rd(taps, id))
			if err != nil {
				return nil, err
			}
			return r.Run(ctx, rt, nil)
		})
		if o.allOK() {
			sid := res[ids[0]].Out.SessionID()
			o.joint["sid"] = hx(sid[:])
			// zero shares derived from the session: of the whole quorum and of every sub-quorum (every pairwise seed
			// absorbs the common seed, which every party's commitments enter, so each of them depends on everybody)
			field := k256.NewScalarField()
			for mask := 3; mask < 1<<len(ids); mask++ {
				var sub []ID
				for i, id := range ids {
					if mask&(1<<i) != 0 {
						sub = append(sub, id)
					}
				}
				if len(sub) < 2 {
					continue
				}
				for _, id := range sub {
					c := res[id].Out.Clone()
					if len(sub) < len(ids) {
						sc, err := c.SubContext(proto.Set(sub...))
						if err != nil {
							o.parties[id].ok, o.parties[id].err = false, fmt.Errorf("SubContext(%v): %w", sub, err)
							return o
						}
						c = sc
					}
					z, err := przs.SampleZeroShare(c, field)
					if err != nil {
						o.parties[id].ok, o.parties[id].err = false, fmt.Errorf("SampleZeroShare over %v: %w", sub, err)
						return o
					}
					o.joint[fmt.Sprintf("zeroshare/%d/%d", mask, id)] = hx(z.Value().Bytes())
				}
			}
		}
		return o
	}}
}

func aorCase(ids []ID) *kase {
	name := "aor/" + idsTag(ids)
	return &kase{name: name, ids: ids, sched: true, run: func(x mcrt.Chooser, ks int64, sess int, taps map[ID]*tap) *outcome {
		q := proto.Set(ids...)
		res, o := runNet(x, ids, taps, func(ctx context.Context, id ID, rt *network.Router) ([]byte, error) {
			r, err := aor.NewAgreeOnRandomRunner(id, q, 32, hagrid.NewTranscript(ctxLabel(name, sess)), rd(taps, id))
			if err != nil {
				return nil, err
			}
			return r.Run(ctx, rt, nil)
		})
		if o.allOK() {
			o.joint["sample"] = hx(res[ids[0]].Out)
		}
		return o
	}}
}

func shardJoint(o *outcome, res map[ID]*schednet.Result[*proto.K256Shard], withPK bool) {
	for id, r := range res {
		if r.Out == nil {
			continue
		}
		if withPK {
			o.joint["pk"] = hx(r.Out.PublicKeyValue().ToCompressed())
		}
		for k, v := range r.Out.Share().Value() {
			o.joint[fmt.Sprintf("share/%d/%d", id, k)] = hx(v.Bytes())
		}
	}
}

func gennaroCase(cfg string, ac accessstructures.Monotone, ids []ID) *kase {
	name := "gennaro/" + cfg
	return &kase{name: name, ids: ids, sched: true, run: func(x mcrt.Chooser, ks int64, sess int, taps map[ID]*tap) *outcome {
		ctxs := proto.Contexts(ids, ks, ctxLabel(name, sess))
		res, o := runNet(x, ids, taps, func(ctx context.Context, id ID, rt *network.Router) (*proto.K256Shard, error) {
			r, err := gennaro.NewRunner(ctxs[id], k256.NewCurve(), ac, fiatshamir.Name, rd(taps, id))
			if err != nil {
				return nil, err
			}
			return r.Run(ctx, rt, nil)
		})
		if o.allOK() {
			shardJoint(o, res, true)
		}
		return o
	}}
}

func canettiCase(cfg string, ac accessstructures.Monotone, ids []ID) *kase {
	name := "canetti/" + cfg
	return &kase{name: name, ids: ids, sched: true, run: func(x mcrt.Chooser, ks int64, sess int, taps map[ID]*tap) *outcome {
		ctxs := proto.Contexts(ids, ks, ctxLabel(name, sess))
		res, o := runNet(x, ids, taps, func(ctx context.Context, id ID, rt *network.Router) (*proto.K256Shard, error) {
			r, err := canetti.NewRunner(ctxs[id], ac, k256.NewCurve(), rd(taps, id))
			if err != nil {
				return nil, err
			}
			return r.Run(ctx, rt, nil)
		})
		if o.allOK() {
			shardJoint(o, res, true)
		}
		return o
	}}
}

// redistributeCase: prev (qualified in oldAC) redistribute the dealt key to nextAC. The public key is fixed BY DESIGN;
// the values meant to be random are the new shares.
func redistributeCase(cfg string, oldAC accessstructures.Monotone, prev []ID, nextAC accessstructures.Monotone) *kase {
	all := map[ID]bool{}
	for _, id := range prev {
		all[id] = true
	}
	for id := range nextAC.Shareholders().Iter() {
		all[id] = true
	}
	var ids []ID
	for id := range all {
		ids = append(ids, id)
	}
	ids = proto.Sorted(ids)
	name := "redistribute/" + cfg
	passive := map[ID]bool{}
	prevSet := proto.Set(prev...)
	for _, id := range ids {
		if !prevSet.Contains(id) {
			passive[id] = true
		}
	}
	return &kase{name: name, ids: ids, sched: true, passive: passive, run: func(x mcrt.Chooser, ks int64, sess int, taps map[ID]*tap) *outcome {
		old := proto.DealK256(oldAC, ks, "c07/"+name)
		ctxs := proto.Contexts(ids, ks, ctxLabel(name, sess))
		res, o := runNet(x, ids, taps, func(ctx context.Context, id ID, rt *network.Router) (*proto.K256Shard, error) {
			var prevShard *proto.K256Shard
			if prevSet.Contains(id) {
				prevShard = old[id]
			}
			r, err := redistribute.NewRunner(ctxs[id], prevSet, prevShard, nextAC, rd(taps, id))
			if err != nil {
				return nil, err
			}
			return r.Run(ctx, rt, nil)
		})
		if o.allOK() {
			shardJoint(o, res, false)
		}
		return o
	}}
}

// lindell22Case: BIP-340 threshold signing by quorum on dealt shards of ac; the harness aggregates.
func lindell22Case(cfg string, ac accessstructures.Monotone, quorum []ID, message []byte) *kase {
	name := "lindell22/" + cfg
	return &kase{name: name, ids: quorum, sched: true, run: func(x mcrt.Chooser, ks int64, sess int, taps map[ID]*tap) *outcome {
		base := proto.DealK256(ac, ks, "c07/"+name)
		shards := map[ID]*lindell22.Shard[*k256.Point, *k256.Scalar]{}
		for id, b := range base {
			sh, err := keygen.NewShard(b)
			if err != nil {
				panic(err)
			}
			shards[id] = sh
		}
		scheme, err := bip340.NewScheme(det.New(ks, "c07/bip340-scheme"))
		if err != nil {
			panic(err)
		}
		ctxs := proto.Contexts(quorum, ks, ctxLabel(name, sess))
		type psig = *lindell22.PartialSignature[*k256.Point, *k256.Scalar]
		res, o := runNet(x, quorum, taps, func(ctx context.Context, id ID, rt *network.Router) (psig, error) {
			r, err := signing.NewRunner(ctxs[id], shards[id], fiatshamir.Name, scheme.Variant(), message, rd(taps, id))
			if err != nil {
				return nil, err
			}
			return r.Run(ctx, rt, nil)
		})
		if !o.allOK() {
			return o
		}
		ps := map[ID]psig{}
		for id, r := range res {
			ps[id] = r.Out
		}
		agg, err := signing.NewAggregator(shards[quorum[0]].PublicKeyMaterial(), scheme)
		if err != nil {
			panic(err)
		}
		sig, err := agg.Aggregate(hashmap.NewComparableFromNativeLike(ps).Freeze(), message)
		if err != nil {
			o.parties[quorum[0]].ok = false
			o.parties[quorum[0]].err = fmt.Errorf("aggregation of honest partial signatures failed: %w", err)
			return o
		}
		vf, err := scheme.Verifier()
		if err != nil {
			panic(err)
		}
		if err := vf.Verify(sig, shards[quorum[0]].PublicKey(), message); err != nil {
			o.parties[quorum[0]].ok = false
			o.parties[quorum[0]].err = fmt.Errorf("aggregated signature does not verify: %w", err)
			return o
		}
		o.joint["R"] = hx(sig.R.ToCompressed())
		o.joint["s"] = hx(sig.S.Bytes())
		return o
	}}
}
