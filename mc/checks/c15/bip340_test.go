package c15

import (
	"bytes"
	"fmt"
	"math/big"

	"github.com/bronlabs/bron-crypto/pkg/base/curves/k256"
	"github.com/bronlabs/bron-crypto/pkg/signatures"
	"github.com/bronlabs/bron-crypto/pkg/signatures/schnorrlike"
	"github.com/bronlabs/bron-crypto/pkg/signatures/schnorrlike/bip340"

	"verifmc/det"
	"verifmc/engine"
	"verifmc/ref/conv"
	"verifmc/ref/curve"
	"verifmc/ref/curve/libcurve"
	"verifmc/ref/sig"
)

func k256Scalar(v *big.Int) *k256.Scalar { return conv.FromBig(k256.NewScalarField(), conv.K256N, v) }

func be32(v *big.Int) []byte { return v.FillBytes(make([]byte, 32)) }

var bipAux = func(i int) [32]byte {
	var a [32]byte
	if i == 1 {
		_, _ = det.New(engine.Seed(), "c15-bip340-aux").Read(a[:])
	}
	return a
}

// bipPkStruct builds a public key bypassing the constructor (exported fields): used for the identity key.
func bipPkStruct(p *k256.Point) *bip340.PublicKey {
	return &bip340.PublicKey{PublicKeyTrait: signatures.PublicKeyTrait[*k256.Point, *k256.Scalar]{V: p}}
}

func bip340Body(tal *tally) func(*engine.X) {
	ad := libcurve.K256()
	C := ad.Ref
	return func(x *engine.X) {
		ai := x.Choose("aux", 2)
		ki := x.Choose("key", 3)
		mi := x.Choose("msg", len(msgNames))
		full := engine.Thorough() || (mi == 1 && ai == 0)
		nChunks := 2
		if full {
			nChunks = 8
		}
		chunk := x.Choose("chunk", nChunks)
		id := fmt.Sprintf("bip340/aux%d/%s/%s", ai, keyNames[ki], msgNames[mi])
		d := secretKey(C.Q, ki)
		msg := message(mi)
		sk, err := bip340.NewPrivateKey(k256Scalar(d))
		if err != nil {
			panic(engine.HarnessError{Msg: err.Error()})
		}
		pk := sk.PublicKey()
		scheme := bip340.NewSchemeWithAux(bipAux(ai))
		signer, err := scheme.Signer(sk)
		if err != nil {
			panic(engine.HarnessError{Msg: err.Error()})
		}
		sg, err := signer.Sign(msg)
		if err != nil {
			x.Failf("bip340/sign", "%s: Sign failed: %v", id, err)
			return
		}
		ser, err := bip340.SerializeSignature(sg)
		if err != nil || len(ser) != 64 {
			x.Failf("bip340/serialize", "%s: SerializeSignature: %v len=%d", id, err, len(ser))
			return
		}
		pkBytes, err := bip340.SerializePublicKey(pk)
		if err != nil {
			x.Failf("bip340/serialize-pk", "%s: %v", id, err)
			return
		}
		pkRef := C.ScalarBaseMul(d)
		if !bytes.Equal(pkBytes, be32(pkRef.X)) {
			x.Failf("bip340/pk-bytes", "%s: serialised public key %x, reference %x", id, pkBytes, be32(pkRef.X))
			return
		}
		verifier, err := scheme.Verifier()
		if err != nil {
			panic(engine.HarnessError{Msg: err.Error()})
		}

		type alt struct {
			label string
			sig   *bip340.Signature // nil: undecodable / refused
			why   string
			pk    *bip340.PublicKey
			pkX   []byte // x-only bytes for the oracle (nil: no encoding exists -> reject)
			enc   []byte // 64-byte encoding for the oracle (nil: reject)
			msg   []byte
		}
		var alts []alt
		encOf := func(s *bip340.Signature) []byte {
			if s == nil || s.R == nil || s.S == nil || s.R.IsZero() {
				return nil
			}
			b, err := bip340.SerializeSignature(s)
			if err != nil {
				return nil
			}
			return b
		}
		add := func(label string, s *bip340.Signature, p *bip340.PublicKey, px []byte, m []byte) {
			alts = append(alts, alt{label: label, sig: s, pk: p, pkX: px, enc: encOf(s), msg: m})
		}
		add("none", sg, pk, pkBytes, msg)
		// every bit of the serialised R.x || s, through the library's decoder
		for _, i := range bitSet(512, full) {
			e := flipBitBE(ser, i)
			part := "s"
			if i >= 256 {
				part = "r"
			}
			a := alt{label: fmt.Sprintf("enc/%s/bit%d", part, i%256), pk: pk, pkX: pkBytes, enc: e, msg: msg}
			s2, err := bip340.NewSignatureFromBytes(e)
			if err != nil {
				a.why = "NewSignatureFromBytes: " + errStr(err)
			} else {
				a.sig = s2
			}
			alts = append(alts, a)
		}
		for _, l := range []int{0, 63, 65} {
			e := make([]byte, l)
			copy(e, ser)
			a := alt{label: fmt.Sprintf("enc/len%d", l), pk: pk, pkX: pkBytes, enc: e, msg: msg}
			if s2, err := bip340.NewSignatureFromBytes(e); err != nil {
				a.why = "NewSignatureFromBytes: " + errStr(err)
			} else {
				a.sig = s2
			}
			alts = append(alts, a)
		}
		// components of the in-memory signature
		sf := k256.NewScalarField()
		mk := func(R *k256.Point, s *k256.Scalar) *bip340.Signature {
			return &schnorrlike.Signature[*k256.Point, *k256.Scalar]{E: sg.E, R: R, S: s}
		}
		add("R/neg(same-x)", mk(sg.R.Neg(), sg.S), pk, pkBytes, msg) // BIP-340 signatures carry x(R) only: same signature
		add("R/double", mk(sg.R.Double(), sg.S), pk, pkBytes, msg)
		add("R/identity", mk(k256.NewCurve().OpIdentity(), sg.S), pk, pkBytes, msg)
		add("s/neg", mk(sg.R, sg.S.Neg()), pk, pkBytes, msg)
		add("s/plus1", mk(sg.R, sg.S.Add(sf.One())), pk, pkBytes, msg)
		add("s/zero", mk(sg.R, sf.Zero()), pk, pkBytes, msg)
		{
			// the "twin" response for the nonce -k: s' = 2*e*d - s satisfies s'G - eP = -R, i.e. the right abscissa with an
			// odd ordinate. Only the even-y rule of BIP-340 rejects it (computed here from the known secret key).
			n := C.Q
			dAdj := new(big.Int).Set(d)
			if pkRef.Y.Bit(0) == 1 {
				dAdj.Sub(n, d)
			}
			e := sig.BIP340Challenge(new(big.Int).SetBytes(ser[:32]), pkRef.X, msg)
			s2 := new(big.Int).Mul(e, dAdj)
			s2.Lsh(s2, 1).Sub(s2, new(big.Int).SetBytes(ser[32:])).Mod(s2, n)
			enc := append(append([]byte{}, ser[:32]...), be32(s2)...)
			a := alt{label: "s/odd-R-twin", pk: pk, pkX: pkBytes, enc: enc, msg: msg}
			if s2t, err := bip340.NewSignatureFromBytes(enc); err != nil {
				a.why = "NewSignatureFromBytes: " + errStr(err)
			} else {
				a.sig = s2t
			}
			alts = append(alts, a)
		}
		// keys
		negPk, err := bip340.NewPublicKey(pk.Value().Neg())
		if err != nil {
			panic(engine.HarnessError{Msg: err.Error()})
		}
		add("key/neg(same-x)", sg, negPk, pkBytes, msg) // x-only keys: -pk is the same BIP-340 key
		dbl := C.Double(pkRef)
		dblPk, _ := bip340.NewPublicKey(ad.ToLib(dbl))
		add("key/double", sg, dblPk, be32(dbl.X), msg)
		fo := C.ScalarBaseMul(secretKey(C.Q, 3))
		foPk, _ := bip340.NewPublicKey(ad.ToLib(fo))
		add("key/foreign", sg, foPk, be32(fo.X), msg)
		if _, err := bip340.NewPublicKey(k256.NewCurve().OpIdentity()); err == nil {
			x.Failf("bip340/key/identity-constructible", "%s: NewPublicKey accepted the identity", id)
		}
		add("key/identity(struct)", sg, bipPkStruct(k256.NewCurve().OpIdentity()), nil, msg)
		for _, ma := range messageAlterations(msg, 0, engine.Thorough()) {
			add(ma.label, sg, pk, pkBytes, ma.msg)
		}

		var nAcc, nRej int
		for idx, a := range alts {
			if idx%nChunks != chunk {
				continue
			}
			x.Case(id + "/" + a.label)
			lib := false
			var verr error
			if a.sig != nil {
				verr = verifier.Verify(a.sig, a.pk, a.msg)
				lib = verr == nil
				tal.add(class(a.label), verdictOf(verr))
			} else {
				tal.add(class(a.label), vRefuse)
			}
			want := a.enc != nil && a.pkX != nil && sig.BIP340Verify(a.pkX, a.msg, a.enc)
			if lib != want {
				x.Failf("bip340/"+class(a.label), "%s alteration %s: library accept=%v (err=%s %s), BIP-340 reference accept=%v; pk=%x sig=%x msg=%x", id, a.label, lib, errStr(verr), a.why, want, a.pkX, a.enc, trunc(a.msg))
			}
			if lib {
				nAcc++
			} else {
				nRej++
			}
		}
		x.Observe(id, chunk, "acc", nAcc, "rej", nRej)
	}
}

// BIP-340 batch verification: batches of size 1..3 over (key, message) pairs, one fault at each position.
func bip340BatchBody(tal *tally) func(*engine.X) {
	ad := libcurve.K256()
	C := ad.Ref
	faults := []string{"none", "s/plus1", "msg/flip", "key/foreign", "R/double", "swap-messages"}
	return func(x *engine.X) {
		n := 1 + x.Choose("n", 3)
		sameMsg := x.Choose("messages", 2) == 0
		fault := engine.Pick(x, "fault", faults)
		pos := x.Choose("pos", n)
		if fault == "none" && pos != 0 {
			x.Trivial()
			return
		}
		if fault == "swap-messages" && (n < 2 || sameMsg) {
			x.Trivial()
			return
		}
		scheme := bip340.NewSchemeWithAux(bipAux(0))
		var sigs []*bip340.Signature
		var pks []*bip340.PublicKey
		var msgs [][]byte
		var pkx [][]byte
		for i := 0; i < n; i++ {
			d := secretKey(C.Q, i)
			sk, _ := bip340.NewPrivateKey(k256Scalar(d))
			m := message(1)
			if !sameMsg {
				m = message(1 + i)
			}
			sg, err := mustSigner(scheme, sk).Sign(m)
			if err != nil {
				x.Failf("bip340/sign", "batch: Sign failed: %v", err)
				return
			}
			sigs, pks, msgs = append(sigs, sg), append(pks, sk.PublicKey()), append(msgs, m)
			pkx = append(pkx, be32(C.ScalarBaseMul(d).X))
		}
		switch fault {
		case "s/plus1":
			sigs[pos] = &schnorrlike.Signature[*k256.Point, *k256.Scalar]{E: sigs[pos].E, R: sigs[pos].R, S: sigs[pos].S.Add(k256.NewScalarField().One())}
		case "R/double":
			sigs[pos] = &schnorrlike.Signature[*k256.Point, *k256.Scalar]{E: sigs[pos].E, R: sigs[pos].R.Double(), S: sigs[pos].S}
		case "msg/flip":
			m := append([]byte{}, msgs[pos]...)
			m[0] ^= 1
			msgs[pos] = m
		case "key/foreign":
			fo := C.ScalarBaseMul(secretKey(C.Q, 3))
			pks[pos], _ = bip340.NewPublicKey(ad.ToLib(fo))
			pkx[pos] = be32(fo.X)
		case "swap-messages":
			o := (pos + 1) % n
			msgs[pos], msgs[o] = msgs[o], msgs[pos]
		}
		want := true
		for i := range sigs {
			enc, _ := bip340.SerializeSignature(sigs[i])
			want = want && sig.BIP340Verify(pkx[i], msgs[i], enc)
		}
		v, err := scheme.Verifier(bip340.VerifyWithPRNG(det.New(engine.Seed(), "c15-bip340-batch")))
		if err != nil {
			panic(engine.HarnessError{Msg: err.Error()})
		}
		key := fmt.Sprintf("bip340/batch/n=%d/same=%v/%s@%d", n, sameMsg, fault, pos)
		x.Case(key)
		berr := v.BatchVerify(sigs, pks, msgs)
		tal.add("batch/"+fault, verdictOf(berr))
		if (berr == nil) != want {
			x.Failf("bip340/batch/"+fault, "%s: BatchVerify accept=%v (err=%s) but every-signature-valid (reference) = %v", key, berr == nil, errStr(berr), want)
		}
		x.Observe(key, berr == nil)
	}
}

func mustSigner(s *bip340.Scheme, sk *bip340.PrivateKey) *bip340.Signer {
	sg, err := s.Signer(sk)
	if err != nil {
		panic(engine.HarnessError{Msg: err.Error()})
	}
	return sg
}

func runBIP340() {
	t := newTally()
	s := engine.Explore(bip340Body(t), engine.Opts{Name: "bip340", Budget: budget(3, 20)})
	t.note(s)
	t2 := newTally()
	s2 := engine.Explore(bip340BatchBody(t2), engine.Opts{Name: "bip340/batch", Budget: budget(2, 5)})
	t2.note(s2)
}

var _ = curve.K256
