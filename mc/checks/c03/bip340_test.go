package c03

import (
	"crypto/sha256"
	"fmt"
	"math/big"

	"github.com/bronlabs/bron-crypto/pkg/mpc/sharing"
	"github.com/bronlabs/bron-crypto/pkg/signatures/schnorrlike/bip340"

	"verifmc/engine"
	"verifmc/proto"
	"verifmc/ref/conv"
	"verifmc/ref/curve"
	"verifmc/ref/curve/libcurve"
)

func taggedHash(tag string, parts ...[]byte) []byte {
	t := sha256.Sum256([]byte(tag))
	h := sha256.New()
	h.Write(t[:])
	h.Write(t[:])
	for _, p := range parts {
		h.Write(p)
	}
	return h.Sum(nil)
}

// refBIP340Verify is BIP-340 "Verify(pk, m, sig)" written from the BIP text on the math/big secp256k1 model:
// P = lift_x(px), e = H_challenge(rx || px || m) mod n, R = s·G - e·P, accept iff R is finite, has even y and x(R) = rx.
func refBIP340Verify(px, rx, s *big.Int, msg []byte) bool {
	c := curve.K256()
	p := c.F.Char()
	if px.Cmp(p) >= 0 || rx.Cmp(p) >= 0 || s.Cmp(c.Q) >= 0 {
		return false
	}
	P, ok := curve.LiftXOdd(c, px, false)
	if !ok {
		return false
	}
	b32 := func(v *big.Int) []byte { return v.FillBytes(make([]byte, 32)) }
	e := new(big.Int).SetBytes(taggedHash("BIP0340/challenge", b32(rx), b32(px), msg))
	e.Mod(e, c.Q)
	R := c.Sub(c.ScalarBaseMul(s), c.ScalarMul(e, P))
	if R.Inf || R.Y.Bit(0) != 0 {
		return false
	}
	return R.X.Cmp(rx) == 0
}

// signAndVerify signs msg with the quorum's shards (Lindell22, BIP-340, round by round) and checks the signature
// with the library verifier and with the reference verifier under the x-only form of the group public key.
func signAndVerify(x *engine.X, st site, which string, shards map[sharing.ID]*proto.K256Shard, quorum []sharing.ID, msg []byte, seed int64) *bip340.Signature {
	a := libcurve.K256()
	x.Case("")
	sig, verr, err := proto.Lindell22SignRounds(shards, quorum, msg, seed)
	if err != nil {
		st.failf(x, "sign/failed", "Lindell22 signing by the qualified quorum %v with the %s shards failed: %v", quorum, which, err)
		return nil
	}
	if verr != nil {
		st.failf(x, "sign/library-verifier-rejects", "quorum %v, %s shards: the library verifier rejects the aggregated signature: %v", quorum, which, verr)
	}
	pk := a.ToRef(shards[quorum[0]].PublicKeyValue())
	R, rerr := a.TryToRef(sig.R)
	if rerr != nil || R.Inf || pk.Inf {
		st.failf(x, "sign/invalid", "quorum %v, %s shards: signature nonce commitment or key is not a finite curve point (%v)", quorum, which, rerr)
		return sig
	}
	s := conv.ToBig(sig.S)
	if !refBIP340Verify(pk.X, R.X, s, msg) {
		st.failf(x, "sign/reference-verifier-rejects", "quorum %v, %s shards: BIP-340 verification (reference) rejects the signature R.x=%x s=%x under pk.x=%x", quorum, which, R.X, s, pk.X)
	}
	if refBIP340Verify(pk.X, R.X, s, append(append([]byte{}, msg...), 'x')) {
		panic(engine.HarnessError{Msg: "reference BIP-340 verifier accepts a different message"})
	}
	return sig
}

func sigString(s *bip340.Signature) string {
	if s == nil {
		return "<nil>"
	}
	return fmt.Sprintf("R=%x s=%x", s.R.ToCompressed(), s.S.Bytes())
}
