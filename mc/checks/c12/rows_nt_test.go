package c12

import (
	"fmt"
	"math/big"

	"github.com/bronlabs/bron-crypto/pkg/base/ct"
	"github.com/bronlabs/bron-crypto/pkg/base/nt/modular"
	"github.com/bronlabs/bron-crypto/pkg/base/nt/num"
	"github.com/bronlabs/bron-crypto/pkg/base/nt/numct"
	"github.com/bronlabs/bron-crypto/pkg/base/nt/znstar"
	"github.com/bronlabs/bron-crypto/pkg/encryption/paillier"
)

// Fixed 128-bit primes (N of 256 bits), same table and generation rule as checks/c16/keys_test.go.
type primePair struct{ flavour, p, q string }

var primeTable = []primePair{
	{"general", "e853066fabb6016213a9d2479d67268d", "ccf6457edc767d8d408de7ca72d6eb59"},
	{"blum", "f8173cc99375c5440d3a99306fba41c7", "ef9be0964d990eae00d42347eb96c4fb"},
	{"safe", "cb8083038d060dc51cd59c13f384a527", "d094e884b524cc850c95435a8b5cb7b7"},
}

func bigHex(s string) *big.Int {
	v, ok := new(big.Int).SetString(s, 16)
	if !ok {
		panic("bad hex " + s)
	}
	return v
}

func (pp primePair) natPlus() (p, q *num.NatPlus) {
	return must(num.NPlus().FromBig(bigHex(pp.p))), must(num.NPlus().FromBig(bigHex(pp.q)))
}

func (pp primePair) n() *big.Int { return new(big.Int).Mul(bigHex(pp.p), bigHex(pp.q)) }

// integer alphabet for the number types
func intAlphabet() []*big.Int {
	two64 := new(big.Int).Lsh(big.NewInt(1), 64)
	return []*big.Int{
		big.NewInt(0), big.NewInt(1), big.NewInt(2), big.NewInt(255), big.NewInt(256),
		new(big.Int).Sub(two64, big.NewInt(1)), two64, primeTable[0].n(),
	}
}

func okErr(ok ct.Bool, what string) error {
	if ok == ct.False {
		return fmt.Errorf("%s refused", what)
	}
	return nil
}

func registerNT() {
	const nt = "pkg/base/nt/"
	// ---- numct
	add(spec[*numct.Nat]{
		name: "numct.Nat", covers: nt + "numct.Nat", group: "nt",
		gen: func() []nv[*numct.Nat] {
			var out []nv[*numct.Nat]
			for _, v := range intAlphabet() {
				out = append(out, nv[*numct.Nat]{v.String(), numct.NewNatFromBig(v, v.BitLen())})
			}
			// a value carried with more limbs than it needs (announced capacity 128 bits)
			out = append(out, nv[*numct.Nat]{"5/cap128", numct.NewNatFromBig(big.NewInt(5), 128)})
			return out
		},
		eq:    func(a, b *numct.Nat) bool { return a.Equal(b) == ct.True },
		valid: func(d *numct.Nat) (*numct.Nat, error) { return numct.NewNatFromBytes(d.Bytes()), nil },
	})
	add(spec[*numct.Int]{
		name: "numct.Int", covers: nt + "numct.Int", group: "nt",
		gen: func() []nv[*numct.Int] {
			var out []nv[*numct.Int]
			for _, v := range intAlphabet() {
				out = append(out, nv[*numct.Int]{v.String(), numct.NewIntFromBig(v, v.BitLen())})
				if v.Sign() != 0 {
					n := new(big.Int).Neg(v)
					out = append(out, nv[*numct.Int]{n.String(), numct.NewIntFromBig(n, v.BitLen())})
				}
			}
			return out
		},
		eq:    func(a, b *numct.Int) bool { return a.Equal(b) == ct.True },
		valid: func(d *numct.Int) (*numct.Int, error) { return numct.NewIntFromBytes(d.Bytes()), nil },
	})
	add(spec[*numct.Modulus]{
		name: "numct.Modulus", covers: nt + "numct.Modulus", group: "nt",
		gen: func() []nv[*numct.Modulus] {
			var out []nv[*numct.Modulus]
			for _, v := range intAlphabet()[1:] {
				m, ok := numct.NewModulus(numct.NewNatFromBig(v, v.BitLen()))
				must0(okErr(ok, "NewModulus("+v.String()+")"))
				out = append(out, nv[*numct.Modulus]{v.String(), m})
			}
			return out
		},
		eq: func(a, b *numct.Modulus) bool { return a.Nat().Equal(b.Nat()) == ct.True },
		valid: func(d *numct.Modulus) (*numct.Modulus, error) {
			m, ok := numct.NewModulus(d.Nat())
			return m, okErr(ok, "NewModulus")
		},
	})
	// ---- num
	add(spec[*num.Nat]{
		name: "num.Nat", covers: nt + "num.Nat", group: "nt",
		gen: func() []nv[*num.Nat] {
			var out []nv[*num.Nat]
			for _, v := range intAlphabet() {
				out = append(out, nv[*num.Nat]{v.String(), must(num.N().FromBig(v))})
			}
			return out
		},
		eq:    func(a, b *num.Nat) bool { return a.Equal(b) },
		valid: func(d *num.Nat) (*num.Nat, error) { return num.N().FromNatCT(d.Value()) },
	})
	add(spec[*num.NatPlus]{
		name: "num.NatPlus", covers: nt + "num.NatPlus", group: "nt",
		gen: func() []nv[*num.NatPlus] {
			var out []nv[*num.NatPlus]
			for _, v := range intAlphabet()[1:] {
				out = append(out, nv[*num.NatPlus]{v.String(), must(num.NPlus().FromBig(v))})
			}
			return out
		},
		eq:    func(a, b *num.NatPlus) bool { return a.Equal(b) },
		valid: func(d *num.NatPlus) (*num.NatPlus, error) { return num.NPlus().FromNatCT(d.Value()) },
	})
	add(spec[*num.Int]{
		name: "num.Int", covers: nt + "num.Int", group: "nt",
		gen: func() []nv[*num.Int] {
			var out []nv[*num.Int]
			for _, v := range intAlphabet() {
				out = append(out, nv[*num.Int]{v.String(), must(num.Z().FromBig(v))})
				if v.Sign() != 0 {
					n := new(big.Int).Neg(v)
					out = append(out, nv[*num.Int]{n.String(), must(num.Z().FromBig(n))})
				}
			}
			return out
		},
		eq:    func(a, b *num.Int) bool { return a.Equal(b) },
		valid: func(d *num.Int) (*num.Int, error) { return num.Z().FromIntCT(d.Value()) },
	})
	add(spec[*num.ZMod]{
		name: "num.ZMod", covers: nt + "num.ZMod", group: "nt",
		gen: func() []nv[*num.ZMod] {
			var out []nv[*num.ZMod]
			for _, v := range intAlphabet()[1:] {
				out = append(out, nv[*num.ZMod]{v.String(), must(num.NewZMod(must(num.NPlus().FromBig(v))))})
			}
			return out
		},
		eq:    func(a, b *num.ZMod) bool { return a.Modulus().Equal(b.Modulus()) },
		valid: func(d *num.ZMod) (*num.ZMod, error) { return num.NewZMod(d.Modulus()) },
	})
	add(spec[*num.Uint]{
		name: "num.Uint", covers: nt + "num.Uint", group: "nt",
		gen: func() []nv[*num.Uint] {
			var out []nv[*num.Uint]
			for _, m := range []*big.Int{big.NewInt(1), big.NewInt(2), big.NewInt(256), new(big.Int).Lsh(big.NewInt(1), 64), primeTable[0].n()} {
				zn := must(num.NewZMod(must(num.NPlus().FromBig(m))))
				for _, v := range []*big.Int{big.NewInt(0), big.NewInt(1), new(big.Int).Sub(m, big.NewInt(1)), new(big.Int).Rsh(m, 1)} {
					if v.Cmp(m) >= 0 || v.Sign() < 0 {
						continue
					}
					out = append(out, nv[*num.Uint]{v.String() + " mod " + m.String(), must(zn.FromBig(v))})
				}
			}
			return out
		},
		eq:    func(a, b *num.Uint) bool { return a.Equal(b) && a.Modulus().Equal(b.Modulus()) },
		valid: func(d *num.Uint) (*num.Uint, error) { return num.NewUintGivenModulus(d.Value(), d.ModulusCT()) },
	})
	add(spec[*num.Rat]{
		name: "num.Rat", covers: nt + "num.Rat", group: "nt",
		gen: func() []nv[*num.Rat] {
			var out []nv[*num.Rat]
			for _, c := range [][2]int64{{0, 1}, {1, 1}, {-1, 2}, {2, 4}, {255, 256}, {-7, 3}} {
				out = append(out, nv[*num.Rat]{fmt.Sprintf("%d/%d", c[0], c[1]), must(num.Q().New(num.Z().FromInt64(c[0]), must(num.NPlus().FromUint64(uint64(c[1])))))})
			}
			out = append(out, nv[*num.Rat]{"N/2^64", must(num.Q().New(must(num.Z().FromBig(primeTable[0].n())), must(num.NPlus().FromBig(new(big.Int).Lsh(big.NewInt(1), 64)))))})
			return out
		},
		// structural equality (the wire form keeps numerator and denominator as given)
		eq: func(a, b *num.Rat) bool {
			return a.Numerator().Equal(b.Numerator()) && a.Denominator().Equal(b.Denominator())
		},
		valid: func(d *num.Rat) (*num.Rat, error) { return num.Q().New(d.Numerator(), d.Denominator()) },
	})
	// ---- modular
	add(spec[*modular.SimpleModulus]{
		name: "modular.SimpleModulus", covers: nt + "modular.SimpleModulus", group: "nt",
		gen: func() []nv[*modular.SimpleModulus] {
			var out []nv[*modular.SimpleModulus]
			for _, v := range []*big.Int{big.NewInt(3), big.NewInt(256), primeTable[0].n()} {
				m, ok := numct.NewModulus(numct.NewNatFromBig(v, v.BitLen()))
				must0(okErr(ok, "NewModulus"))
				s, ok := modular.NewSimple(m)
				must0(okErr(ok, "NewSimple"))
				out = append(out, nv[*modular.SimpleModulus]{v.String(), s})
			}
			return out
		},
		eq: func(a, b *modular.SimpleModulus) bool { return a.Modulus().Nat().Equal(b.Modulus().Nat()) == ct.True },
		valid: func(d *modular.SimpleModulus) (*modular.SimpleModulus, error) {
			s, ok := modular.NewSimple(d.Modulus())
			return s, okErr(ok, "NewSimple")
		},
	})
	add(spec[*modular.OddPrimeFactors]{
		name: "modular.OddPrimeFactors", covers: nt + "modular.OddPrimeFactors", group: "nt",
		gen: func() []nv[*modular.OddPrimeFactors] {
			var out []nv[*modular.OddPrimeFactors]
			for _, pp := range primeTable {
				p, q := pp.natPlus()
				f, ok := modular.NewOddPrimeFactors(p.Value(), q.Value())
				must0(okErr(ok, "NewOddPrimeFactors"))
				out = append(out, nv[*modular.OddPrimeFactors]{pp.flavour, f})
			}
			f, ok := modular.NewOddPrimeFactors(numct.NewNat(3), numct.NewNat(5))
			must0(okErr(ok, "NewOddPrimeFactors(3,5)"))
			out = append(out, nv[*modular.OddPrimeFactors]{"3*5", f})
			return out
		},
		eq: func(a, b *modular.OddPrimeFactors) bool {
			return a.Params.P.Nat().Equal(b.Params.P.Nat()) == ct.True && a.Params.Q.Nat().Equal(b.Params.Q.Nat()) == ct.True
		},
		valid: func(d *modular.OddPrimeFactors) (*modular.OddPrimeFactors, error) {
			f, ok := modular.NewOddPrimeFactors(d.Params.P.Nat(), d.Params.Q.Nat())
			return f, okErr(ok, "NewOddPrimeFactors")
		},
	})
	add(spec[*modular.OddPrimeSquareFactors]{
		name: "modular.OddPrimeSquareFactors", covers: nt + "modular.OddPrimeSquareFactors", group: "nt",
		gen: func() []nv[*modular.OddPrimeSquareFactors] {
			var out []nv[*modular.OddPrimeSquareFactors]
			for _, pp := range primeTable {
				p, q := pp.natPlus()
				f, ok := modular.NewOddPrimeSquareFactors(p.Value(), q.Value())
				must0(okErr(ok, "NewOddPrimeSquareFactors"))
				out = append(out, nv[*modular.OddPrimeSquareFactors]{pp.flavour, f})
			}
			return out
		},
		eq: func(a, b *modular.OddPrimeSquareFactors) bool {
			return a.P.Factor.Nat().Equal(b.P.Factor.Nat()) == ct.True && a.Q.Factor.Nat().Equal(b.Q.Factor.Nat()) == ct.True
		},
		valid: func(d *modular.OddPrimeSquareFactors) (*modular.OddPrimeSquareFactors, error) {
			f, ok := modular.NewOddPrimeSquareFactors(d.P.Factor.Nat(), d.Q.Factor.Nat())
			return f, okErr(ok, "NewOddPrimeSquareFactors")
		},
	})
	// ---- znstar (one generic UnmarshalCBOR per group / element type; both order views are separate rows)
	rsaKnown := func(pp primePair) *znstar.RSAGroupKnownOrder {
		p, q := pp.natPlus()
		return must(znstar.NewRSAGroup(p, q))
	}
	paiKnown := func(pp primePair) *znstar.PaillierGroupKnownOrder {
		p, q := pp.natPlus()
		return must(znstar.NewPaillierGroup(p, q))
	}
	add(spec[*znstar.RSAGroupKnownOrder]{
		name: "znstar.RSAGroupKnownOrder", covers: nt + "znstar.RSAGroup", group: "nt",
		gen: func() []nv[*znstar.RSAGroupKnownOrder] {
			var out []nv[*znstar.RSAGroupKnownOrder]
			for _, pp := range primeTable {
				out = append(out, nv[*znstar.RSAGroupKnownOrder]{pp.flavour, rsaKnown(pp)})
			}
			return out
		},
		eq: func(a, b *znstar.RSAGroupKnownOrder) bool { return a.Equal(b) },
		valid: func(d *znstar.RSAGroupKnownOrder) (*znstar.RSAGroupKnownOrder, error) {
			p, err := num.NPlus().FromModulusCT(d.Arithmetic().Params.P)
			if err != nil {
				return nil, err
			}
			q, err := num.NPlus().FromModulusCT(d.Arithmetic().Params.Q)
			if err != nil {
				return nil, err
			}
			return znstar.NewRSAGroup(p, q)
		},
	})
	add(spec[*znstar.RSAGroupUnknownOrder]{
		name: "znstar.RSAGroupUnknownOrder", covers: nt + "znstar.RSAGroup", group: "nt",
		gen: func() []nv[*znstar.RSAGroupUnknownOrder] {
			var out []nv[*znstar.RSAGroupUnknownOrder]
			for _, pp := range primeTable[:2] {
				out = append(out, nv[*znstar.RSAGroupUnknownOrder]{pp.flavour, rsaKnown(pp).ForgetOrder()})
			}
			out = append(out, nv[*znstar.RSAGroupUnknownOrder]{"15", must(znstar.NewRSAGroupOfUnknownOrder(must(num.NPlus().FromUint64(15))))})
			return out
		},
		eq:    func(a, b *znstar.RSAGroupUnknownOrder) bool { return a.Equal(b) },
		valid: func(d *znstar.RSAGroupUnknownOrder) (*znstar.RSAGroupUnknownOrder, error) { return znstar.NewRSAGroupOfUnknownOrder(d.Modulus()) },
	})
	add(spec[*znstar.PaillierGroupKnownOrder]{
		name: "znstar.PaillierGroupKnownOrder", covers: nt + "znstar.PaillierGroup", group: "nt",
		gen: func() []nv[*znstar.PaillierGroupKnownOrder] {
			var out []nv[*znstar.PaillierGroupKnownOrder]
			for _, pp := range primeTable {
				out = append(out, nv[*znstar.PaillierGroupKnownOrder]{pp.flavour, paiKnown(pp)})
			}
			return out
		},
		eq: func(a, b *znstar.PaillierGroupKnownOrder) bool { return a.Equal(b) },
		valid: func(d *znstar.PaillierGroupKnownOrder) (*znstar.PaillierGroupKnownOrder, error) {
			p, err := num.NPlus().FromModulusCT(d.Arithmetic().P.Factor)
			if err != nil {
				return nil, err
			}
			q, err := num.NPlus().FromModulusCT(d.Arithmetic().Q.Factor)
			if err != nil {
				return nil, err
			}
			return znstar.NewPaillierGroup(p, q)
		},
	})
	add(spec[*znstar.PaillierGroupUnknownOrder]{
		name: "znstar.PaillierGroupUnknownOrder", covers: nt + "znstar.PaillierGroup", group: "nt",
		gen: func() []nv[*znstar.PaillierGroupUnknownOrder] {
			var out []nv[*znstar.PaillierGroupUnknownOrder]
			for _, pp := range primeTable[:2] {
				out = append(out, nv[*znstar.PaillierGroupUnknownOrder]{pp.flavour, paiKnown(pp).ForgetOrder()})
			}
			return out
		},
		eq: func(a, b *znstar.PaillierGroupUnknownOrder) bool { return a.Equal(b) },
		valid: func(d *znstar.PaillierGroupUnknownOrder) (*znstar.PaillierGroupUnknownOrder, error) {
			return znstar.NewPaillierGroupOfUnknownOrder(d.Modulus(), d.N())
		},
	})
	add(spec[*znstar.RSAGroupElementKnownOrder]{
		name: "znstar.RSAGroupElementKnownOrder", covers: nt + "znstar.RSAGroupElement", group: "nt",
		gen: func() []nv[*znstar.RSAGroupElementKnownOrder] {
			var out []nv[*znstar.RSAGroupElementKnownOrder]
			for i, pp := range primeTable[:2] {
				g := rsaKnown(pp)
				out = append(out, nv[*znstar.RSAGroupElementKnownOrder]{pp.flavour + "/1", g.One()},
					nv[*znstar.RSAGroupElementKnownOrder]{pp.flavour + "/rnd", must(g.Random(stream(fmt.Sprintf("rsa-el/%d", i))))})
			}
			return out
		},
		eq: func(a, b *znstar.RSAGroupElementKnownOrder) bool { return a.Equal(b) },
		valid: func(d *znstar.RSAGroupElementKnownOrder) (*znstar.RSAGroupElementKnownOrder, error) {
			return d.Group().FromUint(d.Value())
		},
	})
	add(spec[*znstar.RSAGroupElementUnknownOrder]{
		name: "znstar.RSAGroupElementUnknownOrder", covers: nt + "znstar.RSAGroupElement", group: "nt",
		gen: func() []nv[*znstar.RSAGroupElementUnknownOrder] {
			var out []nv[*znstar.RSAGroupElementUnknownOrder]
			for i, pp := range primeTable[:2] {
				g := rsaKnown(pp).ForgetOrder()
				out = append(out, nv[*znstar.RSAGroupElementUnknownOrder]{pp.flavour + "/1", g.One()},
					nv[*znstar.RSAGroupElementUnknownOrder]{pp.flavour + "/rnd", must(g.Random(stream(fmt.Sprintf("rsa-elu/%d", i))))})
			}
			return out
		},
		eq: func(a, b *znstar.RSAGroupElementUnknownOrder) bool { return a.Equal(b) },
		valid: func(d *znstar.RSAGroupElementUnknownOrder) (*znstar.RSAGroupElementUnknownOrder, error) {
			return d.Group().FromUint(d.Value())
		},
	})
	add(spec[*znstar.PaillierGroupElementKnownOrder]{
		name: "znstar.PaillierGroupElementKnownOrder", covers: nt + "znstar.PaillierGroupElement", group: "nt",
		gen: func() []nv[*znstar.PaillierGroupElementKnownOrder] {
			var out []nv[*znstar.PaillierGroupElementKnownOrder]
			for i, pp := range primeTable[:2] {
				g := paiKnown(pp)
				out = append(out, nv[*znstar.PaillierGroupElementKnownOrder]{pp.flavour + "/1", g.One()},
					nv[*znstar.PaillierGroupElementKnownOrder]{pp.flavour + "/rnd", must(g.Random(stream(fmt.Sprintf("pai-el/%d", i))))})
			}
			return out
		},
		eq: func(a, b *znstar.PaillierGroupElementKnownOrder) bool { return a.Equal(b) },
		valid: func(d *znstar.PaillierGroupElementKnownOrder) (*znstar.PaillierGroupElementKnownOrder, error) {
			return d.Group().FromUint(d.Value())
		},
	})
	add(spec[*znstar.PaillierGroupElementUnknownOrder]{
		name: "znstar.PaillierGroupElementUnknownOrder", covers: nt + "znstar.PaillierGroupElement", group: "nt",
		gen: func() []nv[*znstar.PaillierGroupElementUnknownOrder] {
			var out []nv[*znstar.PaillierGroupElementUnknownOrder]
			for i, pp := range primeTable[:2] {
				g := paiKnown(pp).ForgetOrder()
				out = append(out, nv[*znstar.PaillierGroupElementUnknownOrder]{pp.flavour + "/1", g.One()},
					nv[*znstar.PaillierGroupElementUnknownOrder]{pp.flavour + "/rnd", must(g.Random(stream(fmt.Sprintf("pai-elu/%d", i))))})
			}
			return out
		},
		eq: func(a, b *znstar.PaillierGroupElementUnknownOrder) bool { return a.Equal(b) },
		valid: func(d *znstar.PaillierGroupElementUnknownOrder) (*znstar.PaillierGroupElementUnknownOrder, error) {
			return d.Group().FromUint(d.Value())
		},
	})
}

// ---------------------------------------------------------------------------------------------
// Paillier keys, plaintexts, nonces, ciphertexts (small test keys: testing.Testing() gate)

func paillierSK(pp primePair) *paillier.SecretKey {
	p, q := pp.natPlus()
	return must(paillier.NewSecretKey(must(znstar.NewPaillierGroup(p, q))))
}

func registerPaillier() {
	const pk = "pkg/encryption/paillier."
	add(spec[*paillier.SecretKey]{
		name: "paillier.SecretKey", covers: pk + "SecretKey", group: "encryption",
		gen: func() []nv[*paillier.SecretKey] {
			var out []nv[*paillier.SecretKey]
			for _, pp := range primeTable {
				out = append(out, nv[*paillier.SecretKey]{pp.flavour, paillierSK(pp)})
			}
			return out
		},
		eq:    func(a, b *paillier.SecretKey) bool { return a.Equal(b) },
		valid: func(d *paillier.SecretKey) (*paillier.SecretKey, error) { return paillier.NewSecretKey(d.Group()) },
	})
	add(spec[*paillier.PublicKey]{
		name: "paillier.PublicKey", covers: pk + "PublicKey", group: "encryption",
		gen: func() []nv[*paillier.PublicKey] {
			var out []nv[*paillier.PublicKey]
			for _, pp := range primeTable[:2] {
				out = append(out, nv[*paillier.PublicKey]{pp.flavour, paillierSK(pp).Public()})
			}
			return out
		},
		eq:    func(a, b *paillier.PublicKey) bool { return a.Equal(b) },
		valid: func(d *paillier.PublicKey) (*paillier.PublicKey, error) { return paillier.NewPublicKey(d.Group()) },
	})
	type triple struct {
		name string
		pt   *paillier.Plaintext
		n    *paillier.Nonce
		c    *paillier.Ciphertext
	}
	triples := func() []triple {
		var out []triple
		for i, pp := range primeTable[:2] {
			sk := paillierSK(pp)
			pub := sk.Public()
			N := pp.n()
			for j, m := range []*big.Int{big.NewInt(0), big.NewInt(1), new(big.Int).Sub(N, big.NewInt(1)), new(big.Int).Rsh(N, 1)} {
				pt := must(paillier.NewPlaintextFromNat(must(num.N().FromBig(m)), must(num.NPlus().FromBig(N))))
				nonce := must(pub.SampleNonce(stream(fmt.Sprintf("paillier-nonce/%d/%d", i, j))))
				c := must(pub.EncryptWithNonce(pt, nonce))
				out = append(out, triple{fmt.Sprintf("%s/m%d", pp.flavour, j), pt, nonce, c})
			}
		}
		return out
	}
	add(spec[*paillier.Plaintext]{
		name: "paillier.Plaintext", covers: pk + "Plaintext", group: "encryption",
		gen: func() []nv[*paillier.Plaintext] {
			var out []nv[*paillier.Plaintext]
			for _, t := range triples() {
				out = append(out, nv[*paillier.Plaintext]{t.name, t.pt})
			}
			return out
		},
		eq:    func(a, b *paillier.Plaintext) bool { return a.Equal(b) },
		valid: func(d *paillier.Plaintext) (*paillier.Plaintext, error) { return paillier.NewPlaintext(d.Value()) },
	})
	add(spec[*paillier.Nonce]{
		name: "paillier.Nonce", covers: pk + "Nonce", group: "encryption",
		gen: func() []nv[*paillier.Nonce] {
			var out []nv[*paillier.Nonce]
			for i, t := range triples() {
				if i%2 == 0 {
					out = append(out, nv[*paillier.Nonce]{t.name, t.n})
				}
			}
			return out
		},
		eq:    func(a, b *paillier.Nonce) bool { return a.Equal(b) },
		valid: func(d *paillier.Nonce) (*paillier.Nonce, error) {
			el, err := d.Group().FromUint(d.Value().Value())
			if err != nil {
				return nil, err
			}
			return paillier.NewNonceFromGroupElement(el)
		},
	})
	add(spec[*paillier.Ciphertext]{
		name: "paillier.Ciphertext", covers: pk + "Ciphertext", group: "encryption",
		gen: func() []nv[*paillier.Ciphertext] {
			var out []nv[*paillier.Ciphertext]
			for i, t := range triples() {
				if i%2 == 1 {
					out = append(out, nv[*paillier.Ciphertext]{t.name, t.c})
				}
			}
			return out
		},
		eq: func(a, b *paillier.Ciphertext) bool { return a.Equal(b) },
		valid: func(d *paillier.Ciphertext) (*paillier.Ciphertext, error) {
			el, err := d.Group().FromUint(d.Value().Value())
			if err != nil {
				return nil, err
			}
			return paillier.NewCiphertextFromGroupElement(el)
		},
	})
}

// larger pairs for the CGGMP21 proofs, whose parameter floors force full-size moduli (same table as checks/c16/keys_test.go)
var bigPrimes = map[string]primePair{
	"general512": {"general512", "cfec07d5d1d13c5584798f6b0e51d9f5a38e1752c23d56ad8a4ca35b999baab1", "ccc9616ba1d4bd5a282df6d27564021c0b7f58c5b7943f394a8f16de0db016b5"},
	"blum512": {"blum512", "ffcb7e5e88815bd60d924d335b31e956960f0aba19ac14257ced8a8299cc7473", "dc9d386832ee38fe4c6b383369c4ef19f559823ea0a051f63ecdf87b041c9f77"},
	"safe512": {"safe512", "e9061daf0f3e5e4ab81120532317186c7d3b71058d1966cf2d54996f324c2a0b", "da60905ff4704f77c1168f60733a463a51f05330b615a80a88116fd4939e0f6f"},
	"general2048": {"general2048", "c74bbbb6780ad6c73f5da694c8341ac20efbf8fcfe91e7a4218cd5d20b955915cf702ba023aabd8301a00dc5a4684cf68a8199701856950cb520b9a94302a0911043bf30091ed37dc563b243fb7c9e1e0591a3a0e3b744b0fe2949b32a0d6d8f141dbc69aff848145da4c0e77afe103c59e3306561411b43a51988a7a42571ed", "d212fef572bc00b089328ece4acb9a539a1ffad4577162316853579d280e240928fd976c1860f73404f12a21902e1ae0e9357d71414ef5e9a15158541105bb5b778db9cc861389dd05f209f60f17573e7e3bbc6d3e86bfe9efef0f92225ea6a53d12ea95126605921eed0199cca7a57b035d52d3df6a27d8d1ff790de76ac949"},
	"blum2048": {"blum2048", "d90396b00176ed9a1cbafd9f7b7f774958a57009a844c0ab4063ea671964d176d3e142aa41afe6878d4f8d5edd3de0c66d7a4a8b1ca4408f4ae25ef82801bfbc4d6a63db2c6fd4e84bdf14ea58a52a910b141ae6a14228aebe6955492cf19f9376d32e917bfb85852e0fccfcbd47bfc14a19dd4076aa6a1b6011f0c1b8d0f837", "e0ba2d77dbca39170442eed71b833acfb157bd23996ace4c743381ccce20f6d31e8be513243a515373083ce79654e5ebe85b2b3cbe01312f3c57f7d5030a568dbb4cfd9b4ffe01682dd171f053e5b0d695081d651a5f76a90f7e19f36ece9d1ed2f1753a5a14247a7946346c675b14796d202fe2d8aa7cea6bc2942e48e54d5f"},
	"safe2048": {"safe2048", "c7d33dfaf21f61b9c6bad5915bc4a5e04af5829b77e01957618f43bcba7af604e8a19763fadcbf949f7a7139448c1b62ba77d487fd0d09dda3680530b8f4b5e3e44b66ecbca59b4c5a5506eebc631a6eeca8e4cb8bbf8ed9966021c2714f7175b090f080e8762d20153c23272d360bff5a718769a654189c122f238726df99b3", "fd7e39aeb796be92a1eda69e5eff2314ee8761db394acf7a2d696d0a92b2e5d822a7b425bb7b29339257befa44a08debc41da6c17dbf1620ba9d791969b5e707377cc39583929d5ca29c6935af8ce93ddd77569ce01eb6dfebb739c5f56de88e5a5dbcc5467bc5dafc8cae6657bbf004e9af2f6939338f847e75e29c3016665b"},
}
