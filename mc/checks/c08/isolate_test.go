package c08

import (
	"bufio"
	"bytes"
	"encoding/hex"
	"fmt"
	"os"
	"os/exec"
	"reflect"
	"sort"
	"strconv"
	"strings"
	"sync"
	"sync/atomic"
	"time"

	"github.com/bronlabs/bron-crypto/pkg/proofs/sigma/compiler"

	"verifmc/engine"
)

// Some library verifiers run their branch checks in errgroup goroutines (sigand/sigor). A nil-pointer panic inside
// such a worker cannot be recovered by the caller: it terminates the process. Inputs whose DECODED form contains
// a nil component that the honest proof does not contain are therefore verified in a child process (a re-exec of
// this test binary with VERIF_C08_CHILD set); everything else is verified in-process.

// nilPaths lists the paths of nil pointers / interfaces / slices inside v (unexported fields included).
func nilPaths(v any) []string {
	var out []string
	seen := map[uintptr]bool{}
	var rec func(v reflect.Value, path string, depth int)
	rec = func(v reflect.Value, path string, depth int) {
		if depth > 14 {
			return
		}
		switch v.Kind() {
		case reflect.Pointer:
			if v.IsNil() {
				out = append(out, path)
				return
			}
			if seen[v.Pointer()] {
				return
			}
			seen[v.Pointer()] = true
			rec(v.Elem(), path, depth+1)
		case reflect.Interface:
			if v.IsNil() {
				out = append(out, path)
				return
			}
			rec(v.Elem(), path, depth+1)
		case reflect.Slice:
			if v.Type().Elem().Kind() == reflect.Uint8 || v.Type().Elem().Kind() == reflect.Uint64 || v.Type().Elem().Kind() == reflect.Uint {
				if v.Len() == 0 {
					out = append(out, path+"(empty)")
				}
				return
			}
			for i := 0; i < v.Len(); i++ {
				rec(v.Index(i), fmt.Sprintf("%s[%d]", path, i), depth+1)
			}
		case reflect.Array:
			if k := v.Type().Elem().Kind(); k == reflect.Uint8 || k == reflect.Uint64 || k == reflect.Uint {
				return
			}
			for i := 0; i < v.Len(); i++ {
				rec(v.Index(i), fmt.Sprintf("%s[%d]", path, i), depth+1)
			}
		case reflect.Struct:
			for i := 0; i < v.NumField(); i++ {
				rec(v.Field(i), path+"."+v.Type().Field(i).Name, depth+1)
			}
		}
	}
	rec(reflect.ValueOf(v), "$", 0)
	sort.Strings(out)
	return out
}

func sameStrings(a, b []string) bool {
	if len(a) != len(b) {
		return false
	}
	for i := range a {
		if a[i] != b[i] {
			return false
		}
	}
	return true
}

// ---------------------------------------------------------------------------------------------
// child side

var (
	isChild   = os.Getenv("VERIF_C08_CHILD") != ""
	childSeed int64
)

func seedValue() int64 {
	if isChild {
		return childSeed
	}
	return engine.Seed()
}

// registry of every constructed instance by name (filled by buildPlan; used by the child to find its instance)
var (
	regMu    sync.Mutex
	registry = map[string]*niInst{}
)

func register(ns ...*niInst) {
	regMu.Lock()
	defer regMu.Unlock()
	for _, n := range ns {
		registry[n.name] = n
	}
}

// childMain executes a batch of isolated operations in order:
//
//	"ni|<inst>|<compiler>"        one edited proof per stdin line (hex)
//	"ia|<name>|<msg>|<i1,i2,..>"  interactive runs with edit i_k applied to message <msg>
//
// and prints one line "C08CHILD:<job>:<ACCEPT|REJECT|PANIC>:<detail>" per job. An unrecoverable panic in a library
// goroutine makes the Go runtime kill the process (exit status 2) with its crash report on stderr; the parent then
// attributes the crash to the first job without a result line and resumes the batch after it.
func childMain(spec string) int {
	childSeed, _ = strconv.ParseInt(os.Getenv("VERIF_C08_SEED"), 10, 64)
	parts := strings.Split(spec, "|")
	careful := os.Getenv("VERIF_C08_CAREFUL") != ""
	report := func(job int, acc bool, site, detail string) {
		if careful {
			// errgroup workers run "defer done()" while a panic unwinds, so Wait (and Verify) can return before the
			// runtime has killed the process; give a dying process time to die before a result is reported
			time.Sleep(2 * time.Second)
		}
		switch {
		case site != "":
			fmt.Printf("C08CHILD:%d:PANIC:%s|%s\n", job, site, oneLine(detail))
		case acc:
			fmt.Printf("C08CHILD:%d:ACCEPT:\n", job)
		default:
			fmt.Printf("C08CHILD:%d:REJECT:%s\n", job, oneLine(detail))
		}
	}
	if parts[0] == "ia" {
		if heavyByName(parts[1]) == nil {
			if strings.HasPrefix(parts[1], "lp") {
				interactiveInsts()
			} else if ecByName(parts[1]) == nil {
				buildPlan()
			}
		}
		ia := iaRegistry[parts[1]]
		if ia == nil {
			fmt.Println("C08CHILD:-1:HARNESS:unknown interactive protocol " + parts[1])
			return 3
		}
		m, _ := strconv.Atoi(parts[2])
		none := func(int, []byte) []byte { return nil }
		_, _, msgs := ia.run(none, false)
		eds := enumerateEdits(msgs[m], ia.mode, ia.idx)
		for job, f := range strings.Split(parts[3], ",") {
			idx, _ := strconv.Atoi(f)
			if idx >= len(eds) {
				fmt.Println("C08CHILD:-1:HARNESS:edit index out of range")
				return 3
			}
			acc, st, _ := ia.run(func(msg int, raw []byte) []byte {
				if msg != m {
					return nil
				}
				return eds[idx].gen(newWalker(raw))
			}, false)
			if strings.HasPrefix(st, "PANIC@") {
				site, rest, _ := strings.Cut(strings.TrimPrefix(st, "PANIC@"), "|")
				report(job, false, site, rest)
			} else {
				report(job, acc, "", st)
			}
		}
		return 0
	}
	if heavyByName(parts[1]) == nil && ecByName(parts[1]) == nil {
		buildPlan()
	}
	n := registry[parts[1]]
	if n == nil {
		fmt.Println("C08CHILD:-1:HARNESS:unknown instance " + parts[1])
		return 3
	}
	sc := bufio.NewScanner(os.Stdin)
	sc.Buffer(make([]byte, 1<<20), 1<<28)
	for job := 0; sc.Scan(); job++ {
		proof, err := hex.DecodeString(strings.TrimSpace(sc.Text()))
		if err != nil {
			fmt.Println("C08CHILD:-1:HARNESS:bad hex")
			return 3
		}
		verr, site := safeVerify(n, compiler.Name(parts[2]), verifierCtx().build(), stmtSel{}, proof)
		switch {
		case site != "":
			report(job, false, site, verr.Error())
		case verr != nil:
			report(job, false, "", verr.Error())
		default:
			report(job, true, "", "")
		}
	}
	return 0
}

func oneLine(s string) string {
	s = strings.ReplaceAll(s, "\n", " ")
	if len(s) > 300 {
		s = s[:300]
	}
	return s
}

// ---------------------------------------------------------------------------------------------
// parent side

type childResult struct {
	outcome string // ACCEPT | REJECT | PANIC | CRASH
	site    string // library function that panicked (PANIC, CRASH)
	detail  string
}

var (
	childSlots   = make(chan struct{}, 12)
	childCount   atomic.Int64
	childJobs    atomic.Int64
	childNanos   atomic.Int64
	childCrashes atomic.Int64
)

// spawn runs one child over the given jobs and returns the results it printed plus its combined output.
func spawn(spec string, stdin []byte, careful bool) (map[int]childResult, string) {
	childSlots <- struct{}{}
	t0 := time.Now()
	defer func() {
		<-childSlots
		childCount.Add(1)
		childNanos.Add(int64(time.Since(t0)))
	}()
	cmd := exec.Command(os.Args[0], "-test.run", "^TestNothing$")
	cmd.Env = append(os.Environ(), "VERIF_C08_CHILD="+spec, fmt.Sprintf("VERIF_C08_SEED=%d", engine.Seed()), "VERIF_TIER="+engine.Tier())
	if careful {
		cmd.Env = append(cmd.Env, "VERIF_C08_CAREFUL=1")
	}
	cmd.Stdin = bytes.NewReader(stdin)
	var out bytes.Buffer
	cmd.Stdout, cmd.Stderr = &out, &out
	done := make(chan error, 1)
	if err := cmd.Start(); err != nil {
		panic(engine.HarnessError{Msg: "cannot start child process: " + err.Error()})
	}
	go func() { done <- cmd.Wait() }()
	select {
	case <-done:
	case <-time.After(30 * time.Minute):
		_ = cmd.Process.Kill()
		panic(engine.HarnessError{Msg: "child process timed out: " + spec})
	}
	s := out.String()
	res := map[int]childResult{}
	for _, line := range strings.Split(s, "\n") {
		if !strings.HasPrefix(line, "C08CHILD:") {
			continue
		}
		f := strings.SplitN(strings.TrimPrefix(line, "C08CHILD:"), ":", 3)
		if len(f) < 3 {
			continue
		}
		if f[1] == "HARNESS" {
			panic(engine.HarnessError{Msg: "child: " + line})
		}
		job, _ := strconv.Atoi(f[0])
		if f[1] == "PANIC" {
			site, rest, _ := strings.Cut(f[2], "|")
			res[job] = childResult{f[1], site, rest}
		} else {
			res[job] = childResult{f[1], "", f[2]}
		}
	}
	return res, s
}

func crashed(raw string) bool {
	return strings.Contains(raw, "panic:") || strings.Contains(raw, "SIGSEGV") || strings.Contains(raw, "fatal error:")
}

// runBatch runs n jobs in child processes. mk(lo, hi) builds the child spec and stdin for the jobs lo..hi-1 (job
// numbers in the child's output are relative to lo). When a child dies, the job that killed it is the first one
// without a result line OR the last one with a result (a panicking errgroup worker signals completion while it
// unwinds, so the caller may report a result before the runtime has terminated the process): both are re-run
// alone in careful mode (the child waits before reporting), then the batch resumes behind them.
func runBatch(n int, mk func(lo, hi int) (spec string, stdin []byte)) []childResult {
	out := make([]childResult, n)
	single := func(i int) childResult {
		spec, stdin := mk(i, i+1)
		res, raw := spawn(spec, stdin, true)
		childJobs.Add(1)
		if r, ok := res[0]; ok && !crashed(raw) {
			return r
		}
		if crashed(raw) {
			childCrashes.Add(1)
			return childResult{"CRASH", libSite(raw), crashSummary(raw)}
		}
		panic(engine.HarnessError{Msg: "child process stopped without a result and without a crash report: " + oneLine(raw)})
	}
	for lo := 0; lo < n; {
		spec, stdin := mk(lo, n)
		res, raw := spawn(spec, stdin, false)
		i := lo
		for ; i < n; i++ {
			r, ok := res[i-lo]
			if !ok {
				break
			}
			out[i] = r
		}
		childJobs.Add(int64(i - lo))
		if !crashed(raw) {
			if i == n {
				break
			}
			panic(engine.HarnessError{Msg: "child process stopped without a result and without a crash report: " + oneLine(raw)})
		}
		if i > lo {
			out[i-1] = single(i - 1)
		}
		if i < n {
			out[i] = single(i)
		}
		lo = i + 1
	}
	return out
}

func crashSummary(s string) string {
	var keep []string
	for _, l := range strings.Split(s, "\n") {
		l = strings.TrimSpace(l)
		if strings.HasPrefix(l, "panic:") || (strings.Contains(l, "bron-crypto") && strings.HasPrefix(l, "/repo")) || strings.HasPrefix(l, "created by") {
			// keep only run-independent text (no goroutine ids, no code offsets)
			if i := strings.Index(l, " in goroutine"); i >= 0 {
				l = l[:i]
			}
			if i := strings.Index(l, " +0x"); i >= 0 {
				l = l[:i]
			}
			keep = append(keep, l)
		}
		if len(keep) >= 9 {
			break
		}
	}
	return strings.Join(keep, " | ")
}

// failure tally by key (printed at the end of the run: the engine itself prints only the first ten per section)
var (
	tallyMu sync.Mutex
	tally   = map[string]int{}
	tallyEx = map[string]string{}
)

func failf(x *engine.X, key, format string, a ...any) {
	x.Failf(key, format, a...)
	if x.Replay {
		return
	}
	tallyMu.Lock()
	tally[key]++
	if _, ok := tallyEx[key]; !ok {
		m := fmt.Sprintf(format, a...)
		if i := strings.IndexByte(m, '\n'); i >= 0 {
			m = m[:i]
		}
		tallyEx[key] = m
	}
	tallyMu.Unlock()
}

func printTally(sec *engine.Section) {
	tallyMu.Lock()
	defer tallyMu.Unlock()
	keys := make([]string, 0, len(tally))
	for k := range tally {
		keys = append(keys, k)
	}
	sort.Strings(keys)
	for _, k := range keys {
		fmt.Printf("[C08] failure key %-70s cases=%-5d e.g. %s\n", k, tally[k], oneLine(tallyEx[k]))
		if sec != nil {
			sec.Note("failure key %s: %d cases, e.g. %s", k, tally[k], oneLine(tallyEx[k]))
		}
	}
}
