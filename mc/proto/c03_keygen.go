package proto

// Key-generation drivers for C03, generic over the prime-order group. Every protocol exists in two forms that use
// the SAME deterministic inputs (session contexts from Contexts(ids, seed, <label>), one det stream per party):
//
//	XxxRounds  drives the round-by-round API in process (no scheduler, safe to call from parallel CT bodies)
//	XxxRun     runs every party's real network.Runner over real routers on schednet (SCHED sections only)
//
// so that "the runner and the round-by-round API give the same key" is a meaningful comparison. The labels are the
// ones of GennaroCase / CanettiCase in cases.go, i.e. the k256 runner forms coincide with those cases.

import (
	"context"
	"fmt"

	"github.com/bronlabs/bron-crypto/pkg/base/algebra"
	"github.com/bronlabs/bron-crypto/pkg/base/curves"
	"github.com/bronlabs/bron-crypto/pkg/base/curves/k256"
	ds "github.com/bronlabs/bron-crypto/pkg/base/datastructures"
	"github.com/bronlabs/bron-crypto/pkg/base/datastructures/hashmap"
	"github.com/bronlabs/bron-crypto/pkg/base/serde"
	"github.com/bronlabs/bron-crypto/pkg/mcrt"
	"github.com/bronlabs/bron-crypto/pkg/mpc"
	"github.com/bronlabs/bron-crypto/pkg/mpc/dkg/canetti"
	"github.com/bronlabs/bron-crypto/pkg/mpc/dkg/gennaro"
	"github.com/bronlabs/bron-crypto/pkg/mpc/dkg/trusteddealer"
	"github.com/bronlabs/bron-crypto/pkg/mpc/sharing/accessstructures"
	"github.com/bronlabs/bron-crypto/pkg/mpc/signatures/ecdsa/lindell17"
	l17dkg "github.com/bronlabs/bron-crypto/pkg/mpc/signatures/ecdsa/lindell17/keygen/dkg"
	l17dealer "github.com/bronlabs/bron-crypto/pkg/mpc/signatures/ecdsa/lindell17/keygen/trusted_dealer"
	"github.com/bronlabs/bron-crypto/pkg/mpc/signatures/schnorr/lindell22"
	l22keygen "github.com/bronlabs/bron-crypto/pkg/mpc/signatures/schnorr/lindell22/keygen"
	l22signing "github.com/bronlabs/bron-crypto/pkg/mpc/signatures/schnorr/lindell22/signing"
	"github.com/bronlabs/bron-crypto/pkg/network"
	"github.com/bronlabs/bron-crypto/pkg/proofs/sigma/compiler"
	"github.com/bronlabs/bron-crypto/pkg/proofs/sigma/compiler/fiatshamir"
	"github.com/bronlabs/bron-crypto/pkg/signatures/ecdsa"
	"github.com/bronlabs/bron-crypto/pkg/signatures/schnorrlike/bip340"

	"verifmc/det"
	"verifmc/schednet"
)

// others returns ids without me, in the given order.
func others(ids []ID, me ID) []ID {
	o := make([]ID, 0, len(ids))
	for _, id := range ids {
		if id != me {
			o = append(o, id)
		}
	}
	return o
}

// wire hands a message to a recipient the way the repository's own round-by-round idiom does (ntu.MapO2I): as a
// fresh object decoded from the sender's CBOR encoding. Handing over the sender's own object instead would alias
// sender state into the recipient (e.g. Canetti's Round3 XORs its rho buffer in place, and that buffer is the Rho
// field of the Round2Broadcast it returned earlier).
func wire[M any](m M) M {
	b, err := serde.MarshalCBOR(m)
	if err != nil {
		panic(fmt.Sprintf("proto: honest round message %T does not encode: %v", m, err))
	}
	out, err := serde.UnmarshalCBOR[M](b)
	if err != nil {
		panic(fmt.Sprintf("proto: honest round message %T does not decode from its own encoding: %v", m, err))
	}
	return out
}

// InBroadcast is what party me receives in a broadcast round: everybody else's message, keyed by sender.
func InBroadcast[M any](ids []ID, me ID, out map[ID]M) ds.Map[ID, M] {
	in := map[ID]M{}
	for _, o := range others(ids, me) {
		in[o] = wire(out[o])
	}
	return hashmap.NewImmutableComparableFromNativeLike(in)
}

// InUnicast is what party me receives in a unicast round: the message every other sender addressed to me (senders
// that addressed nothing to me are absent).
func InUnicast[M any](ids []ID, me ID, out map[ID]ds.Map[ID, M]) ds.Map[ID, M] {
	in := map[ID]M{}
	for _, o := range others(ids, me) {
		if out[o] == nil {
			continue
		}
		if m, ok := out[o].Get(me); ok {
			in[o] = wire(m)
		}
	}
	return hashmap.NewImmutableComparableFromNativeLike(in)
}

// Delivered holds, per recipient, the decoded messages of one round. It is computed EAGERLY, right after the round
// that produced the messages and before any party runs its next round - the moment a real caller would put them on
// the wire - so later in-place changes of a sender's state cannot leak into what a recipient sees.
type Delivered[M any] map[ID]ds.Map[ID, M]

func DeliverBroadcast[M any](ids []ID, out map[ID]M) Delivered[M] {
	d := Delivered[M]{}
	for _, id := range ids {
		d[id] = InBroadcast(ids, id, out)
	}
	return d
}

func DeliverUnicast[M any](ids []ID, out map[ID]ds.Map[ID, M]) Delivered[M] {
	d := Delivered[M]{}
	for _, id := range ids {
		d[id] = InUnicast(ids, id, out)
	}
	return d
}

// ---------------------------------------------------------------------------------------------------------------
// Gennaro

// PerPartyAC carries one access-structure OBJECT per party (parties are separate processes: each builds its own object
// from its own listing of the agreed structure). The embedded object is the dealer's / the default one.
type PerPartyAC struct {
	accessstructures.Monotone
	By map[ID]accessstructures.Monotone
}

// ACFor: the object party id works with.
func ACFor(ac accessstructures.Monotone, id ID) accessstructures.Monotone {
	if pp, ok := ac.(*PerPartyAC); ok {
		if a, ok := pp.By[id]; ok {
			return a
		}
		return pp.Monotone
	}
	return ac
}

// GennaroRounds runs the three Gennaro rounds of all parties in process.
func GennaroRounds[E algebra.PrimeGroupElement[E, S], S algebra.PrimeFieldElement[S]](ids []ID, ac accessstructures.Monotone, group algebra.PrimeGroup[E, S], nic compiler.Name, seed int64) (map[ID]*mpc.BaseShard[E, S], error) {
	ctxs := Contexts(ids, seed, "gennaro")
	ps := map[ID]*gennaro.Participant[E, S]{}
	for _, id := range ids {
		p, err := gennaro.NewParticipant(ctxs[id], group, ACFor(ac, id), nic, det.New(seed, fmt.Sprintf("gennaro/%d", id)))
		if err != nil {
			return nil, fmt.Errorf("NewParticipant(%d): %w", id, err)
		}
		ps[id] = p
	}
	r1b := map[ID]*gennaro.Round1Broadcast[E, S]{}
	r1u := map[ID]ds.Map[ID, *gennaro.Round1Unicast[E, S]]{}
	for _, id := range ids {
		b, u, err := ps[id].Round1()
		if err != nil {
			return nil, fmt.Errorf("party %d Round1: %w", id, err)
		}
		r1b[id], r1u[id] = b, u
	}
	r2b := map[ID]*gennaro.Round2Broadcast[E, S]{}
	in1b, in1u := DeliverBroadcast(ids, r1b), DeliverUnicast(ids, r1u)
	for _, id := range ids {
		b, err := ps[id].Round2(in1b[id], in1u[id])
		if err != nil {
			return nil, fmt.Errorf("party %d Round2: %w", id, err)
		}
		r2b[id] = b
	}
	out := map[ID]*mpc.BaseShard[E, S]{}
	in2b := DeliverBroadcast(ids, r2b)
	for _, id := range ids {
		sh, err := ps[id].Round3(in2b[id])
		if err != nil {
			return nil, fmt.Errorf("party %d Round3: %w", id, err)
		}
		out[id] = sh
	}
	return out, nil
}

// GennaroRun runs the Gennaro runners of all parties over routers on net.
func GennaroRun[E algebra.PrimeGroupElement[E, S], S algebra.PrimeFieldElement[S]](x mcrt.Chooser, net *schednet.Net, ids []ID, ac accessstructures.Monotone, group algebra.PrimeGroup[E, S], nic compiler.Name, seed int64) (map[ID]*schednet.Result[*mpc.BaseShard[E, S]], *schednet.Info) {
	ctxs := Contexts(ids, seed, "gennaro")
	return schednet.RunAll(x, net, ids, func(ctx context.Context, id ID, rt *network.Router) (*mpc.BaseShard[E, S], error) {
		r, err := gennaro.NewRunner(ctxs[id], group, ACFor(ac, id), nic, det.New(seed, fmt.Sprintf("gennaro/%d", id)))
		if err != nil {
			return nil, err
		}
		return r.Run(ctx, rt, nil)
	})
}

// ---------------------------------------------------------------------------------------------------------------
// Canetti

// CanettiRounds runs the four Canetti rounds of all parties in process.
func CanettiRounds[E algebra.PrimeGroupElement[E, S], S algebra.PrimeFieldElement[S]](ids []ID, ac accessstructures.Monotone, group algebra.PrimeGroup[E, S], seed int64) (map[ID]*mpc.BaseShard[E, S], error) {
	ctxs := Contexts(ids, seed, "canetti")
	ps := map[ID]*canetti.Participant[E, S]{}
	for _, id := range ids {
		p, err := canetti.NewParticipant(ctxs[id], ACFor(ac, id), group, det.New(seed, fmt.Sprintf("canetti/%d", id)))
		if err != nil {
			return nil, fmt.Errorf("NewParticipant(%d): %w", id, err)
		}
		ps[id] = p
	}
	r1b := map[ID]*canetti.Round1Broadcast[E, S]{}
	for _, id := range ids {
		b, err := ps[id].Round1()
		if err != nil {
			return nil, fmt.Errorf("party %d Round1: %w", id, err)
		}
		r1b[id] = b
	}
	r2b := map[ID]*canetti.Round2Broadcast[E, S]{}
	r2u := map[ID]ds.Map[ID, *canetti.Round2P2P[E, S]]{}
	in1 := DeliverBroadcast(ids, r1b)
	for _, id := range ids {
		b, u, err := ps[id].Round2(in1[id])
		if err != nil {
			return nil, fmt.Errorf("party %d Round2: %w", id, err)
		}
		r2b[id], r2u[id] = b, u
	}
	r3b := map[ID]*canetti.Round3Broadcast[E, S]{}
	in2b, in2u := DeliverBroadcast(ids, r2b), DeliverUnicast(ids, r2u)
	for _, id := range ids {
		b, err := ps[id].Round3(in2b[id], in2u[id])
		if err != nil {
			return nil, fmt.Errorf("party %d Round3: %w", id, err)
		}
		r3b[id] = b
	}
	out := map[ID]*mpc.BaseShard[E, S]{}
	in3 := DeliverBroadcast(ids, r3b)
	for _, id := range ids {
		sh, err := ps[id].Round4(in3[id])
		if err != nil {
			return nil, fmt.Errorf("party %d Round4: %w", id, err)
		}
		out[id] = sh
	}
	return out, nil
}

// CanettiRun runs the Canetti runners of all parties over routers on net.
func CanettiRun[E algebra.PrimeGroupElement[E, S], S algebra.PrimeFieldElement[S]](x mcrt.Chooser, net *schednet.Net, ids []ID, ac accessstructures.Monotone, group algebra.PrimeGroup[E, S], seed int64) (map[ID]*schednet.Result[*mpc.BaseShard[E, S]], *schednet.Info) {
	ctxs := Contexts(ids, seed, "canetti")
	return schednet.RunAll(x, net, ids, func(ctx context.Context, id ID, rt *network.Router) (*mpc.BaseShard[E, S], error) {
		r, err := canetti.NewRunner(ctxs[id], ACFor(ac, id), group, det.New(seed, fmt.Sprintf("canetti/%d", id)))
		if err != nil {
			return nil, err
		}
		return r.Run(ctx, rt, nil)
	})
}

// ---------------------------------------------------------------------------------------------------------------
// dealers

// Deal runs the generic trusted dealer.
func Deal[E algebra.PrimeGroupElement[E, S], S algebra.PrimeFieldElement[S]](group algebra.PrimeGroup[E, S], ac accessstructures.Monotone, seed int64, label string) (map[ID]*mpc.BaseShard[E, S], error) {
	m, err := trusteddealer.Deal(group, ACFor(ac, 0), det.New(seed, "deal/"+label))
	if err != nil {
		return nil, err
	}
	out := map[ID]*mpc.BaseShard[E, S]{}
	for id, sh := range m.Iter() {
		out[id] = sh
	}
	return out, nil
}

// Lindell17Deal runs the Lindell17 trusted dealer (base dealing + Paillier auxiliary information). The Paillier keys
// are NOT a deterministic function of the seed (crypto/rand.Prime and the concurrent prime search consume the
// reader in a scheduler-dependent way); the base shards and the public key are (they are dealt first).
func Lindell17Deal[P curves.Point[P, B, S], B algebra.PrimeFieldElement[B], S algebra.PrimeFieldElement[S]](curve ecdsa.Curve[P, B, S], ac accessstructures.Monotone, keyLen uint, seed int64) (map[ID]*lindell17.Shard[P, B, S], *ecdsa.PublicKey[P, B, S], error) {
	m, pk, err := l17dealer.DealRandom(curve, ac, keyLen, det.New(seed, "deal/lindell17"))
	if err != nil {
		return nil, nil, err
	}
	out := map[ID]*lindell17.Shard[P, B, S]{}
	for id, sh := range m.Iter() {
		out[id] = sh
	}
	return out, pk, nil
}

// ---------------------------------------------------------------------------------------------------------------
// Lindell17 auxiliary-information DKG over given base shards

// Lindell17DKGRounds runs the eight rounds in process.
func Lindell17DKGRounds[P curves.Point[P, B, S], B algebra.PrimeFieldElement[B], S algebra.PrimeFieldElement[S]](ids []ID, base map[ID]*mpc.BaseShard[P, S], curve ecdsa.Curve[P, B, S], keyLen int, nic compiler.Name, seed int64) (map[ID]*lindell17.Shard[P, B, S], error) {
	ctxs := Contexts(ids, seed, "lindell17-dkg")
	ps := map[ID]*l17dkg.Participant[P, B, S]{}
	for _, id := range ids {
		p, err := l17dkg.NewParticipant(ctxs[id], base[id], keyLen, curve, det.New(seed, fmt.Sprintf("lindell17-dkg/%d", id)), nic)
		if err != nil {
			return nil, fmt.Errorf("NewParticipant(%d): %w", id, err)
		}
		ps[id] = p
	}
	step := func(round int, f func(id ID) error) error {
		for _, id := range ids {
			if err := f(id); err != nil {
				return fmt.Errorf("party %d Round%d: %w", id, round, err)
			}
		}
		return nil
	}
	var err error
	r1 := map[ID]*l17dkg.Round1Broadcast[P, B, S]{}
	if err = step(1, func(id ID) (e error) { r1[id], e = ps[id].Round1(); return }); err != nil {
		return nil, err
	}
	r2, in1 := map[ID]*l17dkg.Round2Broadcast[P, B, S]{}, DeliverBroadcast(ids, r1)
	if err = step(2, func(id ID) (e error) { r2[id], e = ps[id].Round2(in1[id]); return }); err != nil {
		return nil, err
	}
	r3, in2 := map[ID]*l17dkg.Round3Broadcast[P, B, S]{}, DeliverBroadcast(ids, r2)
	if err = step(3, func(id ID) (e error) { r3[id], e = ps[id].Round3(in2[id]); return }); err != nil {
		return nil, err
	}
	r4, in3 := map[ID]ds.Map[ID, *l17dkg.Round4P2P[P, B, S]]{}, DeliverBroadcast(ids, r3)
	if err = step(4, func(id ID) (e error) { r4[id], e = ps[id].Round4(in3[id]); return }); err != nil {
		return nil, err
	}
	r5, in4 := map[ID]ds.Map[ID, *l17dkg.Round5P2P[P, B, S]]{}, DeliverUnicast(ids, r4)
	if err = step(5, func(id ID) (e error) { r5[id], e = ps[id].Round5(in4[id]); return }); err != nil {
		return nil, err
	}
	r6, in5 := map[ID]ds.Map[ID, *l17dkg.Round6P2P[P, B, S]]{}, DeliverUnicast(ids, r5)
	if err = step(6, func(id ID) (e error) { r6[id], e = ps[id].Round6(in5[id]); return }); err != nil {
		return nil, err
	}
	r7, in6 := map[ID]ds.Map[ID, *l17dkg.Round7P2P[P, B, S]]{}, DeliverUnicast(ids, r6)
	if err = step(7, func(id ID) (e error) { r7[id], e = ps[id].Round7(in6[id]); return }); err != nil {
		return nil, err
	}
	out, in7 := map[ID]*lindell17.Shard[P, B, S]{}, DeliverUnicast(ids, r7)
	if err = step(8, func(id ID) (e error) { out[id], e = ps[id].Round8(in7[id]); return }); err != nil {
		return nil, err
	}
	return out, nil
}

// Lindell17DKGRun runs the Lindell17 DKG runners of all parties over routers on net.
func Lindell17DKGRun[P curves.Point[P, B, S], B algebra.PrimeFieldElement[B], S algebra.PrimeFieldElement[S]](x mcrt.Chooser, net *schednet.Net, ids []ID, base map[ID]*mpc.BaseShard[P, S], curve ecdsa.Curve[P, B, S], keyLen int, nic compiler.Name, seed int64) (map[ID]*schednet.Result[*lindell17.Shard[P, B, S]], *schednet.Info) {
	ctxs := Contexts(ids, seed, "lindell17-dkg")
	return schednet.RunAll(x, net, ids, func(ctx context.Context, id ID, rt *network.Router) (*lindell17.Shard[P, B, S], error) {
		r, err := l17dkg.NewRunner(ctxs[id], base[id], keyLen, curve, det.New(seed, fmt.Sprintf("lindell17-dkg/%d", id)), nic)
		if err != nil {
			return nil, err
		}
		return r.Run(ctx, rt, nil)
	})
}

// ---------------------------------------------------------------------------------------------------------------
// Lindell22 BIP-340 signing, round by round (same inputs as Lindell22Case: contexts "lindell22-sign", streams
// "lindell22/<id>", scheme stream "bip340-scheme"), aggregated by an outside aggregator.

// Lindell22SignRounds signs message with the given base shards of the quorum and returns the aggregated signature
// together with the library's own verdict on it (verr == nil: the library verifier accepts it under the shards' key).
func Lindell22SignRounds(shards map[ID]*K256Shard, quorum []ID, message []byte, seed int64) (sig *bip340.Signature, verr error, err error) {
	l22 := map[ID]*lindell22.Shard[*k256.Point, *k256.Scalar]{}
	for _, id := range quorum {
		sh, err := l22keygen.NewShard(shards[id])
		if err != nil {
			return nil, nil, fmt.Errorf("lindell22 NewShard(%d): %w", id, err)
		}
		l22[id] = sh
	}
	scheme, err := bip340.NewScheme(det.New(seed, "bip340-scheme"))
	if err != nil {
		return nil, nil, err
	}
	ctxs := Contexts(quorum, seed, "lindell22-sign")
	cs := map[ID]*l22signing.Cosigner[*k256.Point, *k256.Scalar, []byte]{}
	for _, id := range quorum {
		c, err := l22signing.NewCosigner(ctxs[id], l22[id], fiatshamir.Name, scheme.Variant(), det.New(seed, fmt.Sprintf("lindell22/%d", id)))
		if err != nil {
			return nil, nil, fmt.Errorf("NewCosigner(%d): %w", id, err)
		}
		cs[id] = c
	}
	r1b := map[ID]*l22signing.Round1Broadcast[*k256.Point, *k256.Scalar, []byte]{}
	r1u := map[ID]ds.Map[ID, *l22signing.Round1P2P[*k256.Point, *k256.Scalar, []byte]]{}
	for _, id := range quorum {
		b, u, err := cs[id].Round1()
		if err != nil {
			return nil, nil, fmt.Errorf("cosigner %d Round1: %w", id, err)
		}
		r1b[id], r1u[id] = b, u
	}
	r2b := map[ID]*l22signing.Round2Broadcast[*k256.Point, *k256.Scalar, []byte]{}
	in1b, in1u := DeliverBroadcast(quorum, r1b), DeliverUnicast(quorum, r1u)
	for _, id := range quorum {
		b, err := cs[id].Round2(in1b[id], in1u[id])
		if err != nil {
			return nil, nil, fmt.Errorf("cosigner %d Round2: %w", id, err)
		}
		r2b[id] = b
	}
	ps := map[ID]*lindell22.PartialSignature[*k256.Point, *k256.Scalar]{}
	in2b := DeliverBroadcast(quorum, r2b)
	for _, id := range quorum {
		p, err := cs[id].Round3(in2b[id], message)
		if err != nil {
			return nil, nil, fmt.Errorf("cosigner %d Round3: %w", id, err)
		}
		ps[id] = p
	}
	agg, err := l22signing.NewAggregator(l22[quorum[0]].PublicKeyMaterial(), scheme)
	if err != nil {
		return nil, nil, err
	}
	sig, err = agg.Aggregate(hashmap.NewComparableFromNativeLike(ps).Freeze(), message)
	if err != nil {
		return nil, nil, fmt.Errorf("Aggregate: %w", err)
	}
	vf, err := scheme.Verifier()
	if err != nil {
		return nil, nil, err
	}
	return sig, vf.Verify(sig, l22[quorum[0]].PublicKey(), message), nil
}
