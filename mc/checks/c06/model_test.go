package c06

// The explored system: a key dealt once, then a history of operations over the operation alphabet of DESIGN §5 C06.
// A state is the list of epochs reached so far (every re-sharing operation opens a new epoch: a complete set of
// shards under some structure); shards are immutable library values, so a successor is computed from the cached
// parent state by running one more operation on fresh protocol objects.

import (
	"fmt"
	"math/big"
	"slices"
	"strings"

	"github.com/bronlabs/bron-crypto/pkg/base/curves/k256"
	"github.com/bronlabs/bron-crypto/pkg/mpc"
	"github.com/bronlabs/bron-crypto/pkg/mpc/dkg/trusteddealer"
	"github.com/bronlabs/bron-crypto/pkg/mpc/sharing/accessstructures"

	"verifmc/catalog"
	"verifmc/engine"
	"verifmc/ref/policy"
)

// structure = catalogue policy + identifier assignment + the real library access structure.
type structure struct {
	name string
	p    *policy.Policy
	ids  []ID // party index of the policy -> library identifier
	ac   accessstructures.Monotone
	minQ [][]ID // minimal qualified sets (reference truth table), in mask order
	qual [][]ID // all qualified sets, in mask order
}

func (s *structure) holders() []ID { return s.ids }

func (s *structure) mask(set []ID) uint64 {
	var m uint64
	for i, id := range s.ids {
		if slices.Contains(set, id) {
			m |= 1 << uint(i)
		}
	}
	return m
}

// qualified is the REFERENCE answer (policy truth table), never the library's.
func (s *structure) qualified(set []ID) bool { return s.p.Qualified(s.mask(set)) }

func newStructure(name string, p *policy.Policy, ids ...ID) *structure {
	ac, err := catalog.Build(p, ids)
	if err != nil {
		panic(engine.HarnessError{Msg: fmt.Sprintf("structure %s is refused by the library: %v", name, err)})
	}
	s := &structure{name: name, p: p, ids: ids, ac: ac}
	for _, m := range catalog.MinimalQualified(p) {
		s.minQ = append(s.minQ, catalog.Subset(ids, m))
	}
	for _, m := range catalog.Qualified(p) {
		s.qual = append(s.qual, catalog.Subset(ids, m))
	}
	return s
}

// The start structure and the redistribution targets.
var (
	structT23 *structure
	targets   []*structure
)

func initStructures() {
	L, G := policy.L, policy.G
	structT23 = newStructure("T(2,3){1,2,3}", &policy.Policy{Kind: policy.Threshold, N: 3, T: 2}, 1, 2, 3)
	targets = []*structure{
		newStructure("T(2,2){1,2}", &policy.Policy{Kind: policy.Threshold, N: 2, T: 2}, 1, 2),
		newStructure("T(3,4){1,2,3,4}", &policy.Policy{Kind: policy.Threshold, N: 4, T: 3}, 1, 2, 3, 4),
		newStructure("U{2,3}", policy.NewUnanimity(2), 2, 3),
		// non-threshold CNF: maximal unqualified sets {1} and {2,3}, i.e. "1 and one of 2,3"
		newStructure("CNF[1&(2|3)]{1,2,3}", &policy.Policy{Kind: policy.CNF, N: 3, MUS: []uint64{0b001, 0b110}}, 1, 2, 3),
		// non-ideal threshold-gate tree: (1 and 2) or (1 and 4); holder 1 owns two rows of the span programme
		newStructure("BE[(1&2)|(1&4)]{1,2,4}", &policy.Policy{Kind: policy.BoolExpr, N: 3, Tree: G(1, G(2, L(0), L(1)), G(2, L(0), L(2)))}, 1, 2, 4),
		// back to the start structure (so that histories can leave and re-enter it with a newcomer)
		structT23,
	}
}

// ---------------------------------------------------------------------------------------------------------------
// operation alphabet (fixed indices; an operation that is not enabled in a state has no transition)

const (
	opRefresh     = 0 // redistribute: all current holders -> the current structure
	opZeroRefresh = 1 // HJKY zero sharing over the current structure added to every share
	opRefreshBy0  = 2 // + k: redistribute driven by the k-th minimal qualified set (k < 4), to the current structure
	nRefreshBy    = 4
	opRecover0    = opRefreshBy0 + nRefreshBy // + (i-1): holder i lost its shard; all the others drive; anchor = smallest driver
	nRecover      = 4
	opRedist0     = opRecover0 + nRecover // + 2*target + variant
	nVariants     = 2                     // 0: all holders drive, no anchor; 1: a minimal qualified set drives and every other next holder trusts its smallest member as anchor
	opSign0       = opRedist0 + 6*nVariants
	nSign         = 5 // + k: Lindell22 signature by the k-th qualified set of the current structure
	numOps        = opSign0 + nSign
)

func opName(op int) string {
	switch {
	case op == opRefresh:
		return "refresh"
	case op == opZeroRefresh:
		return "zero-refresh"
	case op < opRecover0:
		return fmt.Sprintf("refresh-by#%d", op-opRefreshBy0)
	case op < opRedist0:
		return fmt.Sprintf("recover(%d)", op-opRecover0+1)
	case op < opSign0:
		t, v := (op-opRedist0)/nVariants, (op-opRedist0)%nVariants
		return fmt.Sprintf("redistribute->%s/%s", targets[t].name, [...]string{"all", "minQ+anchor"}[v])
	default:
		return fmt.Sprintf("sign#%d", op-opSign0)
	}
}

// ---------------------------------------------------------------------------------------------------------------
// states

type epoch struct {
	st     *structure
	shards map[ID]*Shard
	via    string // the operation that opened it
}

type finding struct{ key, msg string }

type state struct {
	hist   []int
	epochs []*epoch
	signs  int
	last   string    // description of the last operation as executed (driving set, anchor, ...)
	opFail []finding // the last operation itself misbehaved (an enabled honest operation was refused, ...)
}

func (s *state) cur() *epoch { return s.epochs[len(s.epochs)-1] }

func histKey(h []int) string {
	var sb strings.Builder
	for _, op := range h {
		fmt.Fprintf(&sb, "%d.", op)
	}
	return sb.String()
}

func histName(h []int) string {
	var sb strings.Builder
	for _, op := range h {
		sb.WriteString(opName(op))
		sb.WriteString(";")
	}
	return sb.String()
}

// the dealt key (once per process): shards, the secret as reconstructed by the reference, the public key
var (
	genesis  *epoch
	secretX  *big.Int
	pk0      *k256.Point
	pk0Bytes []byte // x-only BIP-340 form
)

func initGenesis() {
	m, err := trusteddealer.Deal(k256.NewCurve(), structT23.ac, stream("deal"))
	if err != nil {
		panic(engine.HarnessError{Msg: "trusted dealer: " + err.Error()})
	}
	genesis = &epoch{st: structT23, shards: map[ID]*Shard{}, via: "deal"}
	for id, sh := range m.Iter() {
		genesis.shards[id] = sh
	}
	pk0 = genesis.shards[1].PublicKeyValue()
	pk0Bytes = pk0.ToCompressed()[1:]
	x, ok := refReconstruct(genesis.shards[1], genesis.shards, structT23.ids)
	if !ok {
		panic(engine.HarnessError{Msg: "reference reconstruction of the dealt key failed"})
	}
	secretX = x
}

func rootState() *state { return &state{epochs: []*epoch{genesis}} }

// enabledIn is the transition relation at the level of structures: whether op is enabled when the current structure
// is st, and the structure of the successor. It is the single definition of enabledness (apply starts with it) and is
// also used to predict the size of the search, which is compared with what the search actually executed.
func enabledIn(st *structure, op int) (next *structure, ok bool) {
	switch {
	case op == opRefresh || op == opZeroRefresh:
		return st, true
	case op < opRecover0:
		k := op - opRefreshBy0
		return st, k < len(st.minQ) && len(st.minQ[k]) < len(st.ids) // the full set is the plain refresh
	case op < opRedist0:
		i := ID(op - opRecover0 + 1)
		rest := minus(st.ids, i)
		return st, contains(st.ids, i) && len(rest) >= 2 && st.qualified(rest)
	case op < opSign0:
		t := targets[(op-opRedist0)/nVariants]
		return t, t != st // the same structure is the refresh family
	default:
		return st, op-opSign0 < len(st.qual)
	}
}

// predict counts the histories of each length <= depth (complete tree) and the distinct (structure, epoch) pairs.
func predict(depth int) (perLevel []int, merged int) {
	level := map[*structure]int{structT23: 1}
	type se struct {
		st *structure
		e  int
	}
	seen := map[se]bool{{structT23, 0}: true}
	front := map[se]bool{{structT23, 0}: true}
	for d := 1; d <= depth; d++ {
		next := map[*structure]int{}
		n := 0
		for st, c := range level {
			for op := 0; op < numOps; op++ {
				if t, ok := enabledIn(st, op); ok {
					next[t] += c
					n += c
				}
			}
		}
		nf := map[se]bool{}
		for k := range front {
			for op := 0; op < numOps; op++ {
				if t, ok := enabledIn(k.st, op); ok {
					e := k.e
					if op < opSign0 {
						e++
					}
					if !seen[se{t, e}] {
						seen[se{t, e}] = true
						nf[se{t, e}] = true
					}
				}
			}
		}
		front = nf
		level = next
		perLevel = append(perLevel, n)
	}
	return perLevel, len(seen)
}

// apply runs operation op in state s. enabled=false: no transition.
func apply(s *state, op int) (ns *state, enabled bool) {
	cur := s.cur()
	st := cur.st
	if _, ok := enabledIn(st, op); !ok {
		return nil, false
	}
	hist := append(slices.Clone(s.hist), op)
	label := "h/" + histKey(hist)
	ns = &state{hist: hist, epochs: s.epochs, signs: s.signs}
	fail := func(key, format string, a ...any) {
		ns.opFail = append(ns.opFail, finding{key, fmt.Sprintf(format, a...)})
	}
	// install opens the new epoch from a redistribution result
	install := func(what string, next *structure, a redistArgs) {
		ns.last = what
		r := redistributeRounds(a)
		if err := r.firstErr(); err != nil {
			fail("op-refused/"+opClass(op), "%s after [%s] failed although every party is honest: %v", what, histName(s.hist), err)
			return
		}
		e := &epoch{st: next, shards: map[ID]*Shard{}, via: what}
		for _, id := range next.ids {
			if r.out[id] == nil {
				fail("op-no-shard/"+opClass(op), "%s after [%s]: next holder %d got a nil shard without error", what, histName(s.hist), id)
				return
			}
			e.shards[id] = r.out[id]
		}
		for id, sh := range r.out {
			if sh != nil && !contains(next.ids, id) {
				fail("op-extra-shard/"+opClass(op), "%s after [%s]: party %d is not a next holder but got a shard", what, histName(s.hist), id)
			}
		}
		ns.epochs = append(slices.Clone(s.epochs), e)
	}
	switch {
	case op == opRefresh:
		install(fmt.Sprintf("refresh of %s by all holders", st.name), st, redistArgs{label: label, prev: st.ids, shards: cur.shards, next: st.ac})
	case op == opZeroRefresh:
		ns.last = fmt.Sprintf("HJKY zero-refresh of %s", st.name)
		zs, errs := hjkyRounds(label, st.ac, 0, nil)
		for _, id := range st.ids {
			if errs[id] != nil {
				fail("op-refused/zero-refresh", "%s after [%s] failed although every party is honest: party %d: %v", ns.last, histName(s.hist), id, errs[id])
				return ns, true
			}
		}
		e := &epoch{st: st, shards: map[ID]*Shard{}, via: ns.last}
		for _, id := range st.ids {
			old := cur.shards[id]
			vv, err := old.VerificationVector().Op(zs[id].vv)
			if err != nil {
				fail("op-refused/zero-refresh", "%s: cannot combine verification vectors of party %d: %v", ns.last, id, err)
				return ns, true
			}
			sh, err := mpc.NewBaseShard(old.Share().Add(zs[id].share), vv, old.MSP())
			if err != nil {
				fail("zero-refresh/inconsistent", "%s after [%s]: share + zero share of party %d does not verify against (verification vector · zero verification vector): %v", ns.last, histName(s.hist), id, err)
				return ns, true
			}
			e.shards[id] = sh
		}
		ns.epochs = append(slices.Clone(s.epochs), e)
	case op < opRecover0:
		k := op - opRefreshBy0
		if k >= len(st.minQ) || len(st.minQ[k]) == len(st.ids) {
			return nil, false // no such set / it is the plain refresh
		}
		q := st.minQ[k]
		install(fmt.Sprintf("refresh of %s driven by %v", st.name, q), st, redistArgs{label: label, prev: q, shards: cur.shards, next: st.ac})
	case op < opRedist0:
		i := ID(op - opRecover0 + 1)
		rest := minus(st.ids, i)
		if !contains(st.ids, i) || len(rest) < 2 || !st.qualified(rest) {
			return nil, false
		}
		lost := map[ID]*Shard{}
		for _, id := range rest {
			lost[id] = cur.shards[id]
		}
		install(fmt.Sprintf("recovery of holder %d of %s by %v (anchor %d)", i, st.name, rest, rest[0]), st, redistArgs{label: label, prev: rest, shards: lost, next: st.ac, anchor: rest[0]})
	case op < opSign0:
		t, v := (op-opRedist0)/nVariants, (op-opRedist0)%nVariants
		next := targets[t]
		if next == st {
			return nil, false // same structure: that is the refresh family
		}
		drive := st.ids
		var anchor ID
		if v == 1 {
			drive = st.minQ[t%len(st.minQ)]
			anchor = drive[0]
		}
		in := map[ID]*Shard{}
		for _, id := range drive {
			in[id] = cur.shards[id]
		}
		install(fmt.Sprintf("redistribution %s -> %s driven by %v (anchor %d)", st.name, next.name, drive, anchor), next, redistArgs{label: label, prev: drive, shards: in, next: next.ac, anchor: anchor})
	default:
		k := op - opSign0
		if k >= len(st.qual) {
			return nil, false
		}
		q := st.qual[k]
		ns.last = fmt.Sprintf("signature by %v of %s", q, st.name)
		ns.signs++
		msg := []byte("c06 op " + histKey(hist))
		r := signRounds(label, cur.shards, q, cur.shards[q[0]], msg)
		if r.err != nil {
			fail("op-refused/sign", "%s after [%s] failed at %s although the quorum is qualified and honest: %v", ns.last, histName(s.hist), r.stage, r.err)
		} else if !refVerify(r.sig, msg) {
			fail("sign/invalid", "%s after [%s]: the aggregated signature does not verify under the ORIGINAL public key (reference BIP-340 verifier)", ns.last, histName(s.hist))
		}
	}
	return ns, true
}

func opClass(op int) string {
	switch {
	case op == opRefresh:
		return "refresh"
	case op == opZeroRefresh:
		return "zero-refresh"
	case op < opRecover0:
		return "refresh-by"
	case op < opRedist0:
		return "recover"
	case op < opSign0:
		return "redistribute"
	}
	return "sign"
}
