// C13 — element encodings are faithful; decoders admit only valid group elements.
//
// Space (complete within the stated alphabets): curve ∈ {k256, p256, pallas, vesta, edwards25519, edwards25519 prime
// subgroup type, curve25519, curve25519 prime subgroup type, BLS12-381 G1, G2, GT} × format ∈ {compressed,
// uncompressed, Bytes/FromBytes, MarshalBinary, CBOR, affine constructor, affine-x constructor} × element alphabet
// {identity (canonical and non-canonical projective form), ±G, 2G…8G, −2G, (q−1)G, (q−2)G, points with a zero coordinate
// where the reference model finds them, all small-order points, a point with a torsion component}; for decoding: every
// first byte and every last byte 0..255 × valid bodies, every length 0…2·size+1, the coordinate alphabet
// {0,1,2,p−1,p,p+1,2^k−1, a coordinate with no partner, generator coordinates, an unreduced alias of a valid coordinate},
// every flag-bit combination of the BLS12-381 formats × the body alphabet; scalars and base-field elements
// {0,1,2,q−1,q,q+1,2^k−1, wide all-ones, q·2^k} through FromBytes / FromWideBytes / FromBytesBEReduce / UnmarshalBinary / CBOR.
//
// Oracle: math/big reference curves (verifmc/ref/curve) and definition-level format parsers written from the format
// definitions (SEC 1 tags, the zcash pasta / BLS12-381 flag conventions, RFC 8032, RFC 7748).
package c13

import (
	"fmt"
	"math/big"
	"sync"
	"testing"
	"time"

	"verifmc/engine"
)

func TestMain(m *testing.M) { engine.Main(m, "C13", "exploration") }

// task is one leaf of the choice tree: a batch of inner cases.
type task struct {
	name string
	run  func(x *engine.X)
}

// suite is the task list of one codec for one section (built lazily, once).
type suite struct {
	name  string
	build func() []task
	once  sync.Once
	ts    []task
}

func (s *suite) tasks() []task {
	s.once.Do(func() { s.ts = s.build() })
	return s.ts
}

func body(suites []*suite) func(*engine.X) {
	return func(x *engine.X) {
		s := suites[x.Choose("codec", len(suites))]
		ts := s.tasks()
		if len(ts) == 0 {
			x.Trivial()
			return
		}
		t := ts[x.Choose("task", len(ts))]
		x.Observe(s.name, "/", t.name)
		t.run(x)
	}
}

// stats are folded into the outcome of a task so that "everything was rejected" / "nothing was accepted" is visible.
type stats struct {
	acc, rej, skipped int
}

func (s *stats) observe(x *engine.X) {
	x.Observe("accepted=", s.acc, " rejected=", s.rej, " skipped=", s.skipped)
}

// safe runs f and converts a panic into a value.
func safe[T any](f func() (T, error)) (v T, err error, pan any) {
	defer func() {
		if r := recover(); r != nil {
			if he, ok := r.(engine.HarnessError); ok {
				panic(he)
			}
			pan = r
		}
	}()
	v, err = f()
	return v, err, nil
}

func safe1[T any](f func() T) (v T, pan any) {
	v, _, pan = safe(func() (T, error) { return f(), nil })
	return v, pan
}

// chunk splits n items into tasks of at most size items.
func chunks(n, size int) [][2]int {
	var out [][2]int
	for lo := 0; lo < n; lo += size {
		hi := lo + size
		if hi > n {
			hi = n
		}
		out = append(out, [2]int{lo, hi})
	}
	return out
}

func TestCheck(t *testing.T) {
	engine.Rule("codec (curve type) x section task. Round trip: every alphabet element (identity in canonical and non-canonical projective form, ±G, 2G..8G, -2G, (q-1)G, (q-2)G, every point with a zero coordinate the reference finds, every small-order point, points with a torsion component; each in an affine-built and an arithmetic-built representation) x every format (compressed, uncompressed, Bytes, MarshalBinary, CBOR, affine, affine-x) + injectivity of every encoder over the alphabet. Decoding: flag/tag/sign alphabet x coordinate alphabet {0,1,2,p-1,p,p+1,2^k-1,generator coordinate, coordinate of 2G, a coordinate with no partner, coordinates of points with x=0 / small order / outside the prime subgroup, an unreduced alias of a valid coordinate} for every byte decoder and for the affine / affine-x constructors; every first byte and every last byte 0..255 x valid bodies (thorough: every position x {00,01,7f,80,fe,ff} and all 256 values at first/last on more bodies); every length 0..2*size+1 (two fillers). Fields: every value of {0,1,2,q-1,q,q+1,2^(8*size)-1} and wide values through FromBytes/FromWideBytes/FromBytesBEReduce/UnmarshalBinary/CBOR, every length. A case is distinct by (codec, format, input label); non-trivial = the decoder/encoder was called and its result judged.")
	engine.Assume(
		"math/big and the reference curve models in /verif/mc/ref/curve (constants typed in from the standards, self-tested) are correct",
		"format definitions used by the definition-level parsers: SEC 1 tags 02/03/04 (k256, p256); little-endian x with the parity of y in bit 255 (pallas, vesta); RFC 8032 (edwards25519); little-endian u (curve25519); zcash BLS12-381 flags C/I/S in the three top bits of the first byte, sign = y lexicographically largest",
		"reserved identity encodings of the library are taken as given: SEC1-style tag||0 (compressed) and 04||0||0 (uncompressed), all-zero strings (pasta, curve25519), infinity flag with zero body (BLS12-381)",
		"a decoder that reduces an unreduced coordinate is accepted (the statement does not claim uniqueness of accepted encodings); a refusal is never a violation unless the input is the library's own encoding of an element",
		"'promises the prime-order subgroup' = k256, p256, pallas, vesta (cofactor 1), the PrimeSubGroup types of edwards25519 / curve25519, BLS12-381 G1, G2 and GT; the identity is an element of that subgroup",
		"GT membership is decided by x^r == 1 in a math/big F_p^12 tower written for this check (validated on e(G1,G2))",
		"purego build of the library; elements outside the alphabets are not explored",
	)
	warm()

	ps := pointCodecs()
	var rt, dc, ln []*suite
	for _, c := range ps {
		rt = append(rt, c.roundtripSuite())
		dc = append(dc, c.decodeSuite())
		ln = append(ln, c.lengthSuite())
	}
	run := func(name string, suites []*suite, q, t time.Duration) {
		sec := engine.Explore(body(suites), engine.Opts{Name: name, Budget: engine.Budget(q, t), MaxFails: 1 << 20})
		if s := tallyString(); s != "" {
			sec.Note("decoder inputs accepted/rejected per codec and format: %s", s)
		}
	}
	run("points/roundtrip", rt, 3*time.Minute, 20*time.Minute)
	run("points/decode", dc, 4*time.Minute, 30*time.Minute)
	run("points/lengths", ln, 2*time.Minute, 10*time.Minute)
	run("fields", fieldSuites(), 2*time.Minute, 10*time.Minute)
	run("gt", gtSuites(), 3*time.Minute, 15*time.Minute)
	printFailureSummary()
}

// ---------------------------------------------------------------------------------------------------------------
// small integer / byte helpers

func beInt(b []byte) *big.Int { return new(big.Int).SetBytes(b) }

func leInt(b []byte) *big.Int {
	r := make([]byte, len(b))
	for i := range b {
		r[len(b)-1-i] = b[i]
	}
	return new(big.Int).SetBytes(r)
}

// beBytes encodes v (0 <= v < 2^(8n)) on n bytes big-endian.
func beBytes(v *big.Int, n int) []byte {
	if v.Sign() < 0 || v.BitLen() > 8*n {
		panic(engine.HarnessError{Msg: fmt.Sprintf("beBytes: %v does not fit %d bytes", v, n)})
	}
	return v.FillBytes(make([]byte, n))
}

func leBytes(v *big.Int, n int) []byte {
	b := beBytes(v, n)
	for i, j := 0, len(b)-1; i < j; i, j = i+1, j-1 {
		b[i], b[j] = b[j], b[i]
	}
	return b
}

func cat(bs ...[]byte) []byte {
	var out []byte
	for _, b := range bs {
		out = append(out, b...)
	}
	return out
}

func bi(v int64) *big.Int { return big.NewInt(v) }

func pow2m1(bits int) *big.Int {
	return new(big.Int).Sub(new(big.Int).Lsh(bi(1), uint(bits)), bi(1))
}

func add(a, b *big.Int) *big.Int { return new(big.Int).Add(a, b) }
func sub(a, b *big.Int) *big.Int { return new(big.Int).Sub(a, b) }
func mod(a, m *big.Int) *big.Int { return new(big.Int).Mod(a, m) }

// named is a labelled integer of an alphabet.
type named struct {
	n string
	v *big.Int
}

// coordAlphabet returns {0,1,2,p-1,p,p+1,2^maxBits-1} plus the extras, without duplicates, every value < 2^maxBits.
func coordAlphabet(p *big.Int, maxBits int, extra ...named) []named {
	base := []named{
		{"0", bi(0)}, {"1", bi(1)}, {"2", bi(2)},
		{"p-1", sub(p, bi(1))}, {"p", new(big.Int).Set(p)}, {"p+1", add(p, bi(1))},
		{fmt.Sprintf("2^%d-1", maxBits), pow2m1(maxBits)},
	}
	var out []named
	seen := map[string]bool{}
	for _, e := range append(base, extra...) {
		if e.v == nil || e.v.Sign() < 0 || e.v.BitLen() > maxBits {
			continue
		}
		k := e.v.Text(16)
		if seen[k] {
			continue
		}
		seen[k] = true
		out = append(out, e)
	}
	return out
}

func hex(b []byte) string { return fmt.Sprintf("%x", b) }

// failure bookkeeping: a per-key summary printed at the end (the engine prints only the first violations per section)
var (
	failMu    sync.Mutex
	failCount = map[string]int{}
	failFirst = map[string]string{}
)

func failf(x *engine.X, key, format string, a ...any) {
	msg := fmt.Sprintf(format, a...)
	failMu.Lock()
	failCount[key]++
	if _, ok := failFirst[key]; !ok {
		if len(msg) > 600 {
			msg = msg[:600] + "…"
		}
		failFirst[key] = msg
	}
	failMu.Unlock()
	x.Failf(key, "%s", fmt.Sprintf(format, a...))
}

var tallyAcc, tallyRej = map[string]int{}, map[string]int{}

// tally counts accepted / rejected decoder inputs per codec and format (printed at the end: vacuity check).
func tally(key string, accepted bool) {
	failMu.Lock()
	if accepted {
		tallyAcc[key]++
	} else {
		tallyRej[key]++
	}
	failMu.Unlock()
}

// tallyString renders and resets the counters (one note per section).
func tallyString() string {
	failMu.Lock()
	defer failMu.Unlock()
	keys := map[string]bool{}
	for k := range tallyAcc {
		keys[k] = true
	}
	for k := range tallyRej {
		keys[k] = true
	}
	out := ""
	for _, k := range sortedKeys(keys) {
		out += fmt.Sprintf("%s %d/%d; ", k, tallyAcc[k], tallyRej[k])
	}
	tallyAcc, tallyRej = map[string]int{}, map[string]int{}
	if out != "" {
		fmt.Printf("[C13]   accepted/rejected: %s\n", out)
	}
	return out
}

func printFailureSummary() {
	failMu.Lock()
	defer failMu.Unlock()
	if len(failCount) == 0 {
		return
	}
	fmt.Printf("[C13] failure keys (%d distinct):\n", len(failCount))
	for _, k := range sortedKeys(failCount) {
		fmt.Printf("[C13]   %-60s x%-5d %s\n", k, failCount[k], failFirst[k])
	}
}
