package c03

import (
	"fmt"
	"math/big"
	"time"

	"github.com/bronlabs/bron-crypto/pkg/base/algebra"
	"github.com/bronlabs/bron-crypto/pkg/base/curves"
	"github.com/bronlabs/bron-crypto/pkg/base/curves/k256"
	"github.com/bronlabs/bron-crypto/pkg/base/curves/p256"
	"github.com/bronlabs/bron-crypto/pkg/mpc/sharing"
	"github.com/bronlabs/bron-crypto/pkg/mpc/sharing/accessstructures"
	"github.com/bronlabs/bron-crypto/pkg/mpc/signatures/ecdsa/lindell17"
	"github.com/bronlabs/bron-crypto/pkg/proofs/sigma/compiler/fiatshamir"
	"github.com/bronlabs/bron-crypto/pkg/signatures/ecdsa"

	"verifmc/catalog"
	"verifmc/engine"
	"verifmc/proto"
	"verifmc/ref/conv"
	"verifmc/ref/policy"
	"verifmc/schednet"
)

const l17KeyLen = 1024 // the repo's own test key length; large enough for the signing plaintext bound

type l17Map[P curves.Point[P, B, S], B algebra.PrimeFieldElement[B], S algebra.PrimeFieldElement[S]] = map[sharing.ID]*lindell17.Shard[P, B, S]

// checkL17 is the C03 oracle on Lindell17 shards: the embedded base shards satisfy checkShards; exactly the peers
// that form a qualified pair with the holder are present; the stored Paillier key of a peer is that peer's own key
// and the stored ciphertexts decrypt (under the peer's secret key) to the peer's share components mod q; the shard
// survives CBOR. input != nil: the DKG must hand back the base shard it was given.
func checkL17[P curves.Point[P, B, S], B algebra.PrimeFieldElement[B], S algebra.PrimeFieldElement[S]](x *engine.X, g grp[P, S], st site, p *policy.Policy, ids []sharing.ID, ac accessstructures.Monotone, shards l17Map[P, B, S], input shardMap[P, S], exact bool) []byte {
	base := shardMap[P, S]{}
	for _, id := range ids {
		if shards[id] == nil {
			st.failf(x, "output/missing", "party %d has no shard", id)
			return nil
		}
		base[id] = &shards[id].BaseShard
	}
	pk := checkShards(x, g, st, p, ids, ac, base)
	for i, id := range ids {
		sh := shards[id]
		if input != nil && !input[id].Equal(&sh.BaseShard) {
			st.failf(x, "base-changed", "party %d: the DKG output does not embed the base shard it was given", id)
		}
		if !sh.PublicKey().Value().Equal(base[ids[0]].PublicKeyValue()) {
			st.failf(x, "agree/ecdsa-pk", "party %d: ECDSA public key differs from the group key", id)
		}
		for j, peer := range ids {
			if i == j {
				continue
			}
			want := p.Qualified(policy.MaskOf(i, j))
			ppk, okK := sh.PaillierPublicKeys().Get(peer)
			cts, okC := sh.EncryptedShares().Get(peer)
			x.Case("")
			if okK != want || okC != want {
				st.failf(x, "aux/peers", "party %d stores key=%v ciphertexts=%v for peer %d, the pair is qualified=%v", id, okK, okC, peer, want)
				continue
			}
			if !want {
				continue
			}
			psk := shards[peer].PaillierSecretKey()
			if psk == nil || !ppk.Equal(psk.Public()) {
				st.failf(x, "aux/peer-key", "party %d stores a Paillier key for %d that is not %d's own public key", id, peer, peer)
				continue
			}
			sv := shards[peer].Share().Value()
			if len(cts) != len(sv) {
				st.failf(x, "aux/ciphertext-count", "party %d stores %d ciphertexts for %d whose share has %d components", id, len(cts), peer, len(sv))
				continue
			}
			threeQ := new(big.Int).Mul(g.q, big.NewInt(3))
			for k, ct := range cts {
				pt, err := psk.Decrypt(ct)
				if err != nil {
					st.failf(x, "aux/decrypt", "ciphertext %d of %d stored by %d does not decrypt: %v", k, peer, id, err)
					continue
				}
				m := pt.Value().Big()
				lam := conv.ToBig(sv[k])
				if new(big.Int).Mod(m, g.q).Cmp(lam) != 0 {
					st.failf(x, "aux/encrypted-share", "ciphertext %d of %d stored by %d decrypts to %x, not to the share component %x (mod q)", k, peer, id, m, lam)
				}
				if exact && m.Cmp(lam) != 0 {
					st.failf(x, "aux/encrypted-share-range", "the dealer's ciphertext %d of %d stored by %d decrypts to %x, the share component is %x", k, peer, id, m, lam)
				}
				if !exact && m.Cmp(threeQ) >= 0 {
					st.failf(x, "aux/encrypted-share-range", "ciphertext %d of %d stored by %d decrypts to a lift >= 3q", k, peer, id)
				}
			}
		}
		// store / reload
		b, err := sh.MarshalCBOR()
		if err != nil {
			st.failf(x, "cbor/marshal", "party %d: MarshalCBOR: %v", id, err)
			continue
		}
		var r lindell17.Shard[P, B, S]
		if err := r.UnmarshalCBOR(b); err != nil {
			st.failf(x, "cbor/unmarshal", "party %d: UnmarshalCBOR of its own encoding: %v", id, err)
			continue
		}
		if !r.Equal(sh) || !sh.Equal(&r) {
			st.failf(x, "cbor/not-equal", "party %d: reloaded Lindell17 shard is not Equal to the stored one", id)
		}
	}
	return pk
}

type l17cfg struct {
	e   catalog.Entry
	ids catalog.IDAssignment
	dkg bool // false: trusted dealer; true: auxiliary-information DKG over dealt base shards, rounds AND runners
}

func l17Body[P curves.Point[P, B, S], B algebra.PrimeFieldElement[B], S algebra.PrimeFieldElement[S]](g grp[P, S], curve ecdsa.Curve[P, B, S], list []l17cfg, procs int) func(x *engine.X) {
	return func(x *engine.X) {
		ci := chooseConfig(x, len(list), procs)
		if ci < 0 {
			return
		}
		c := list[ci]
		ids := c.ids.IDs[:c.e.P.N]
		ac, err := catalog.Build(c.e.P, ids)
		if err != nil {
			panic(engine.HarnessError{Msg: err.Error()})
		}
		var pks [][]byte
		for _, seed := range seeds() {
			if !c.dkg {
				st := newSite("lindell17-dealer", fmt.Sprintf("lindell17-dealer/%s/%s/ids=%s/seed=%d", g.name, c.e.Name, c.ids.Name, seed), c.e.P, nil)
				x.Case(st.where)
				shards, epk, err := proto.Lindell17Deal(curve, ac, l17KeyLen, seed)
				if err != nil {
					st.failf(x, "run/failed", "DealRandom failed: %v", err)
					continue
				}
				pk := checkL17(x, g, st, c.e.P, ids, ac, shards, nil, true)
				if epk == nil || !epk.Value().Equal(shards[ids[0]].PublicKeyValue()) {
					st.failf(x, "agree/returned-pk", "the public key returned by the dealer is not the shards' key")
				}
				pks = append(pks, pk)
				continue
			}
			st := newSite("lindell17-dkg", fmt.Sprintf("lindell17-dkg/%s/%s/ids=%s/seed=%d", g.name, c.e.Name, c.ids.Name, seed), c.e.P, nil)
			x.Case(st.where)
			base, err := proto.Deal(g.group, ac, seed, "c03-l17")
			if err != nil {
				panic(engine.HarnessError{Msg: "base dealing failed: " + err.Error()})
			}
			shards, err := proto.Lindell17DKGRounds(ids, base, curve, l17KeyLen, fiatshamir.Name, seed)
			if err != nil {
				st.failf(x, "run/failed", "honest Lindell17 DKG (round by round) failed: %v", err)
				continue
			}
			pk := checkL17(x, g, st, c.e.P, ids, ac, shards, base, false)
			pks = append(pks, pk)
			res, info := proto.Lindell17DKGRun(x, schednet.New(ids...), ids, base, curve, l17KeyLen, fiatshamir.Name, seed)
			if info.HarnessErr != "" {
				panic(engine.HarnessError{Msg: info.HarnessErr})
			}
			out := l17Map[P, B, S]{}
			bad := info.Deadlock != ""
			for _, id := range ids {
				r := res[id]
				if r == nil || !r.Done || r.Err != nil || r.Panic != "" || r.Starved || r.Out == nil {
					bad = true
					st.failf(x, "runner/failed", "party %d did not finish the honest run over routers: err=%v panic=%s deadlock=%s", id, errOf(r), panicOf(r), info.Deadlock)
					continue
				}
				out[id] = r.Out
			}
			if bad {
				continue
			}
			rpk := checkL17(x, g, st.sub("/runner"), c.e.P, ids, ac, out, base, false)
			if string(rpk) != string(pk) {
				st.failf(x, "api/pk-differs", "runner pk=%x, round-by-round pk=%x", rpk, pk)
			}
		}
		if len(pks) == 2 && pks[0] != nil && string(pks[0]) == string(pks[1]) {
			x.Failf("lindell17/seeds/same-pk", "%s/%s: two seeds, one public key %x", g.name, c.e.Name, pks[0])
		}
	}
}

func lindell17Sections() {
	var deal []l17cfg
	for _, e := range catalog.Small() {
		if e.P.N <= 3 || engine.Thorough() {
			deal = append(deal, l17cfg{e: e, ids: ordOf(e.P.N)})
		}
	}
	if engine.Thorough() {
		for _, a := range assignments(t23)[1:] {
			deal = append(deal, l17cfg{e: t23, ids: a})
		}
	}
	if onlyMatch("lindell17-dealer/k256") {
		engine.Explore(l17Body(gK256, k256.NewCurve(), deal, 0), engine.Opts{Name: "lindell17-dealer/k256", Budget: engine.Budget(4*time.Minute, 10*time.Minute)})
	}
	if onlyMatch("lindell17-dealer/p256") {
		engine.Explore(l17Body(gP256, p256.NewCurve(), []l17cfg{{e: t23, ids: ordOf(3)}, {e: cnf3, ids: ordOf(3)}}, 0), engine.Opts{Name: "lindell17-dealer/p256", Budget: engine.Budget(4*time.Minute, 10*time.Minute)})
	}
	if engine.Thorough() && onlyMatch("lindell17-dkg/k256") {
		var t22 catalog.Entry
		for _, e := range catalog.Small() {
			if e.Name == "thr(2,2)" {
				t22 = e
			}
		}
		dkg := []l17cfg{{e: t22, ids: ordOf(2), dkg: true}, {e: t23, ids: ordOf(3), dkg: true}, {e: cnf3, ids: ordOf(3), dkg: true}}
		engine.Explore(l17Body(gK256, k256.NewCurve(), dkg, 3), engine.Opts{Name: "lindell17-dkg/k256", Serial: true, Procs: 3, CrashTrace: true, Engine: "SCHED", Budget: engine.Budget(5*time.Minute, 15*time.Minute)})
	}
}
