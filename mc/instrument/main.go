// Command instrument generates, from the CURRENT /repo working tree, a go build overlay in which the
// concurrency operations of pkg/network are routed through the cooperative scheduler runtime (mcrt).
//
// It is a source-to-source rewriter over go/ast positions. Every construct it does not model is REJECTED
// (exit 3, "instrumentation incomplete") so that a source change can never silently escape the scheduler.
//
//	instrument -repo /repo -out /verif/bin/ovl_c11 [-pkgs pkg/network,pkg/network/echo,pkg/network/exchange]
package main

import (
	"encoding/json"
	"flag"
	"fmt"
	"go/ast"
	"go/parser"
	"go/token"
	"os"
	"path/filepath"
	"sort"
	"strings"
)

const mcrtImport = "github.com/bronlabs/bron-crypto/pkg/mcrt"

type edit struct {
	start, end int // byte offsets in the source
	render     func() string
}

type rewriter struct {
	fset    *token.FileSet
	src     []byte
	file    *ast.File
	name    string
	edits   []*edit
	errs    []string
	touched bool
}

func (r *rewriter) off(p token.Pos) int { return r.fset.Position(p).Offset }
func (r *rewriter) text(n ast.Node) string {
	return string(r.src[r.off(n.Pos()):r.off(n.End())])
}
func (r *rewriter) reject(n ast.Node, format string, a ...any) {
	r.errs = append(r.errs, fmt.Sprintf("%s: %s", r.fset.Position(n.Pos()), fmt.Sprintf(format, a...)))
}
func (r *rewriter) add(start, end token.Pos, render func() string) {
	r.touched = true
	r.edits = append(r.edits, &edit{r.off(start), r.off(end), render})
}

// emit renders src[lo:hi) applying the outermost edits that start inside it (nested edits are applied by their
// enclosing edit's renderer calling emit on sub-ranges).
func (r *rewriter) emit(lo, hi int) string {
	var top []*edit
	for _, e := range r.edits {
		if e.start >= lo && e.end <= hi && !(e.start == lo && e.end == hi && false) {
			top = append(top, e)
		}
	}
	sort.SliceStable(top, func(i, j int) bool {
		if top[i].start != top[j].start {
			return top[i].start < top[j].start
		}
		return top[i].end > top[j].end
	})
	var sb strings.Builder
	pos := lo
	for _, e := range top {
		if e.start < pos {
			continue // nested inside an edit already rendered
		}
		sb.Write(r.src[pos:e.start])
		// temporarily hide this edit from nested emits to avoid infinite recursion
		saved := r.edits
		var rest []*edit
		for _, x := range r.edits {
			if x != e {
				rest = append(rest, x)
			}
		}
		r.edits = rest
		sb.WriteString(e.render())
		r.edits = saved
		pos = e.end
	}
	sb.Write(r.src[pos:hi])
	return sb.String()
}

func isSimpleChanExpr(e ast.Expr) bool {
	switch v := e.(type) {
	case *ast.Ident:
		return true
	case *ast.SelectorExpr:
		return isSimpleChanExpr(v.X)
	case *ast.CallExpr:
		if len(v.Args) != 0 {
			return false
		}
		_, ok := v.Fun.(*ast.SelectorExpr)
		return ok && isSimpleChanExpr(v.Fun)
	case *ast.ParenExpr:
		return isSimpleChanExpr(v.X)
	}
	return false
}

func recvOf(s ast.Stmt) (ch ast.Expr, ok bool) {
	switch v := s.(type) {
	case *ast.ExprStmt:
		if u, ok := v.X.(*ast.UnaryExpr); ok && u.Op == token.ARROW {
			return u.X, true
		}
	case *ast.AssignStmt:
		if len(v.Rhs) == 1 {
			if u, ok := v.Rhs[0].(*ast.UnaryExpr); ok && u.Op == token.ARROW {
				return u.X, true
			}
		}
	}
	return nil, false
}

func (r *rewriter) walk() {
	handledArrow := map[ast.Node]bool{}
	var stack []ast.Node
	ast.Inspect(r.file, func(n ast.Node) bool {
		if n == nil {
			stack = stack[:len(stack)-1]
			return true
		}
		var parent ast.Node
		if len(stack) > 0 {
			parent = stack[len(stack)-1]
		}
		stack = append(stack, n)
		switch v := n.(type) {
		case *ast.ImportSpec:
			p := strings.Trim(v.Path.Value, `"`)
			switch p {
			case "sync":
				if v.Name != nil && v.Name.Name != "sync" {
					r.reject(v, "renamed import of sync")
				}
				r.add(v.Pos(), v.End(), func() string { return `sync "` + mcrtImport + `"` })
			case "sync/atomic":
				r.reject(v, "sync/atomic is not modelled by the scheduler")
			}
		case *ast.SelectorExpr:
			if id, ok := v.X.(*ast.Ident); ok {
				switch id.Name {
				case "sync":
					if v.Sel.Name != "Mutex" {
						r.reject(v, "sync.%s is not modelled (only sync.Mutex)", v.Sel.Name)
					}
				case "time":
					switch v.Sel.Name {
					case "After", "Sleep", "NewTimer", "NewTicker", "Tick", "AfterFunc":
						r.reject(v, "time.%s is not modelled", v.Sel.Name)
					}
				case "runtime":
					if v.Sel.Name == "Gosched" {
						r.reject(v, "runtime.Gosched (spin loop) is not modelled")
					}
				case "context":
					switch v.Sel.Name {
					case "WithTimeout", "WithDeadline", "AfterFunc", "WithCancelCause", "WithTimeoutCause", "WithDeadlineCause", "WithoutCancel":
						r.reject(v, "context.%s is not modelled", v.Sel.Name)
					case "WithCancel":
						r.add(v.Pos(), v.End(), func() string { return "mcrt.WithCancel" })
					}
				}
			}
		case *ast.CallExpr:
			if id, ok := v.Fun.(*ast.Ident); ok {
				switch id.Name {
				case "make":
					if len(v.Args) >= 1 {
						if _, isChan := v.Args[0].(*ast.ChanType); isChan {
							vv := v
							r.add(vv.Pos(), vv.End(), func() string {
								return "mcrt.Chan(" + r.emit(r.off(vv.Pos()), r.off(vv.End())) + ")"
							})
						}
					}
				case "close":
					r.add(id.Pos(), id.End(), func() string { return "mcrt.Close" })
				}
			}
		case *ast.GoStmt:
			vv := v
			call := v.Call
			switch f := call.Fun.(type) {
			case *ast.Ident, *ast.FuncLit:
			case *ast.SelectorExpr:
				if _, ok := f.X.(*ast.Ident); !ok {
					r.reject(v, "go statement with a complex receiver expression")
				}
			default:
				r.reject(v, "go statement form not modelled")
			}
			r.add(vv.Pos(), vv.End(), func() string {
				var sb strings.Builder
				sb.WriteString("{ ")
				var names []string
				for i, a := range call.Args {
					nm := fmt.Sprintf("mcrtArg%d", i)
					names = append(names, nm)
					sb.WriteString(nm + " := " + r.emit(r.off(a.Pos()), r.off(a.End())) + "; ")
				}
				sb.WriteString("mcrt.Go(func() { " + r.emit(r.off(call.Fun.Pos()), r.off(call.Fun.End())) + "(" + strings.Join(names, ", ") + ") }) }")
				return sb.String()
			})
		case *ast.SelectStmt:
			if _, labelled := parent.(*ast.LabeledStmt); labelled {
				r.reject(v, "labelled select is not modelled")
			}
			vv := v
			type cl struct {
				clause *ast.CommClause
				expr   string
				isDef  bool
			}
			var cls []cl
			hasDefault := false
			for _, c := range v.Body.List {
				cc := c.(*ast.CommClause)
				if cc.Comm == nil {
					hasDefault = true
					cls = append(cls, cl{clause: cc, isDef: true})
					continue
				}
				if ch, ok := recvOf(cc.Comm); ok {
					if !isSimpleChanExpr(ch) {
						r.reject(cc, "select receive on a complex channel expression")
					}
					handledArrow[cc.Comm] = true
					cls = append(cls, cl{clause: cc, expr: "mcrt.Recv(" + r.text(ch) + ")"})
				} else if s, ok := cc.Comm.(*ast.SendStmt); ok {
					if !isSimpleChanExpr(s.Chan) {
						r.reject(cc, "select send on a complex channel expression")
					}
					handledArrow[cc.Comm] = true
					cls = append(cls, cl{clause: cc, expr: "mcrt.Send(" + r.text(s.Chan) + ")"})
				} else {
					r.reject(cc, "select clause form not modelled")
				}
			}
			r.add(vv.Pos(), vv.End(), func() string {
				var sb strings.Builder
				var exprs []string
				for _, c := range cls {
					if !c.isDef {
						exprs = append(exprs, c.expr)
					}
				}
				sb.WriteString(fmt.Sprintf("switch mcrt.Select(%v, %s) {\n", hasDefault, strings.Join(exprs, ", ")))
				idx := 0
				for _, c := range cls {
					bodyLo := r.off(c.clause.Colon) + 1
					bodyHi := r.off(c.clause.End())
					if c.isDef {
						sb.WriteString("case -1:\n")
					} else {
						sb.WriteString(fmt.Sprintf("case %d:\n", idx))
						idx++
						sb.WriteString(r.text(c.clause.Comm) + "\n")
					}
					sb.WriteString(r.emit(bodyLo, bodyHi) + "\n")
				}
				sb.WriteString("}")
				return sb.String()
			})
		case *ast.SendStmt:
			if handledArrow[v] {
				break
			}
			if _, inComm := parent.(*ast.CommClause); inComm {
				break
			}
			if !isSimpleChanExpr(v.Chan) {
				r.reject(v, "send on a complex channel expression")
			}
			vv := v
			r.add(vv.Pos(), vv.Pos(), func() string { return "mcrt.Select(false, mcrt.Send(" + r.text(vv.Chan) + ")); " })
		case *ast.ExprStmt, *ast.AssignStmt:
			st := n.(ast.Stmt)
			if handledArrow[st] {
				break
			}
			if ch, ok := recvOf(st); ok {
				if cc, inComm := parent.(*ast.CommClause); inComm && cc.Comm == st {
					break
				}
				if !isSimpleChanExpr(ch) {
					r.reject(st, "receive on a complex channel expression")
				}
				handledArrow[st] = true
				r.add(st.Pos(), st.Pos(), func() string { return "mcrt.Select(false, mcrt.Recv(" + r.text(ch) + ")); " })
			}
		case *ast.UnaryExpr:
			if v.Op == token.ARROW {
				// allowed only as the direct operand of a statement handled above
				ok := false
				switch p := parent.(type) {
				case *ast.ExprStmt:
					ok = true
				case *ast.AssignStmt:
					ok = len(p.Rhs) == 1 && p.Rhs[0] == v
				}
				if !ok {
					r.reject(v, "channel receive inside an expression is not modelled")
				}
			}
		case *ast.RangeStmt:
			// a range over a channel cannot be recognised without type information; ranging over anything whose
			// expression mentions a known channel-typed field would need go/types. pkg/network has none today;
			// an unmodelled blocking range shows up as a Go runtime deadlock / harness watchdog, never silently.
		case *ast.GenDecl:
			if v.Tok == token.CONST {
				for _, sp := range v.Specs {
					vs := sp.(*ast.ValueSpec)
					if len(vs.Names) == 1 && vs.Names[0].Name == "maxReceiveBufferSize" && v.Lparen == token.NoPos {
						// make the documented buffer bound adjustable by the harness (scenario R7)
						r.add(v.Pos(), v.Pos()+token.Pos(len("const")), func() string { return "var" })
					}
				}
			}
		}
		return true
	})
}

func main() {
	repo := flag.String("repo", "/repo", "repository root")
	out_ := flag.String("out", "", "output directory (overlay.json is written there)")
	out := out_
	pkgs := flag.String("pkgs", "pkg/network,pkg/network/echo,pkg/network/exchange", "comma-separated package dirs to instrument")
	verif := flag.String("verif", "/verif", "verification root (location of mc/mcrt and the dump template)")
	seqFiles := flag.String("seq-errgroup", "", "comma-separated repo-relative files whose errgroup import is swapped for the sequential shim")
	flag.Parse()
	if *out == "" {
		fmt.Fprintln(os.Stderr, "need -out")
		os.Exit(2)
	}
	if err := os.MkdirAll(*out, 0o755); err != nil {
		panic(err)
	}
	replace := map[string]string{}
	// self-validation: a mutant overlay (VERIF_MUTANT_OVERLAY) substitutes source files BEFORE instrumentation
	mutant := map[string]string{}
	if mo := os.Getenv("VERIF_MUTANT_OVERLAY"); mo != "" {
		var m struct{ Replace map[string]string }
		b, err := os.ReadFile(mo)
		if err != nil || json.Unmarshal(b, &m) != nil {
			fmt.Fprintln(os.Stderr, "cannot read mutant overlay", mo, err)
			os.Exit(2)
		}
		mutant = m.Replace
		for k, v := range mutant {
			replace[k] = v // files outside the instrumented packages pass through unchanged
		}
	}
	var allErrs []string
	var report []string
	for _, pkg := range strings.Split(*pkgs, ",") {
		dir := filepath.Join(*repo, pkg)
		ents, err := os.ReadDir(dir)
		if err != nil {
			fmt.Fprintln(os.Stderr, "cannot read", dir, err)
			os.Exit(2)
		}
		for _, e := range ents {
			if e.IsDir() || !strings.HasSuffix(e.Name(), ".go") || strings.HasSuffix(e.Name(), "_test.go") {
				continue
			}
			path := filepath.Join(dir, e.Name())
			readFrom := path
			if m, ok := mutant[path]; ok {
				readFrom = m
			}
			src, err := os.ReadFile(readFrom)
			if err != nil {
				panic(err)
			}
			fset := token.NewFileSet()
			f, err := parser.ParseFile(fset, path, src, parser.ParseComments)
			if err != nil {
				fmt.Fprintln(os.Stderr, "parse error:", err)
				os.Exit(2)
			}
			r := &rewriter{fset: fset, src: src, file: f, name: path}
			r.walk()
			allErrs = append(allErrs, r.errs...)
			if !r.touched {
				continue
			}
			body := r.emit(0, len(src))
			// add the mcrt import right after the package clause
			pkgEnd := fset.Position(f.Name.End()).Offset
			shift := 0
			_ = shift
			// emit() already applied edits, so locate the package clause textually in the output
			marker := "package " + f.Name.Name
			i := strings.Index(body, marker)
			if i < 0 || pkgEnd == 0 {
				panic("package clause not found")
			}
			j := i + len(marker)
			body = body[:j] + "\n\nimport mcrt \"" + mcrtImport + "\"\n" + body[j:] + "\nvar _ = mcrt.Choose\n"
			outPath := filepath.Join(*out, strings.ReplaceAll(pkg, "/", "_")+"_"+e.Name())
			if err := os.WriteFile(outPath, []byte(body), 0o644); err != nil {
				panic(err)
			}
			replace[path] = outPath
			report = append(report, fmt.Sprintf("%s: %d edit sites", path, len(r.edits)))
		}
	}
	if len(allErrs) > 0 {
		fmt.Fprintln(os.Stderr, "instrumentation incomplete — unmodelled constructs:")
		for _, e := range allErrs {
			fmt.Fprintln(os.Stderr, "  ", e)
		}
		os.Exit(3)
	}
	// deterministic fork-join: swap errgroup for the sequential shim in the listed files (see mcrt/seqgroup)
	for _, rel := range strings.Split(*seqFiles, ",") {
		if rel == "" {
			continue
		}
		path := filepath.Join(*repo, rel)
		readFrom := path
		if m, ok := mutant[path]; ok {
			readFrom = m
		}
		src, err := os.ReadFile(readFrom)
		if err != nil {
			fmt.Fprintln(os.Stderr, "seq-errgroup: cannot read", rel, "(file moved? update the list):", err)
			os.Exit(3)
		}
		const imp = `"golang.org/x/sync/errgroup"`
		if !strings.Contains(string(src), imp) {
			fmt.Fprintln(os.Stderr, "seq-errgroup:", rel, "no longer imports errgroup; update the list")
			os.Exit(3)
		}
		out := strings.Replace(string(src), imp, `errgroup "github.com/bronlabs/bron-crypto/pkg/mcrt/seqgroup"`, 1)
		outPath := filepath.Join(*out_, "seq_"+strings.ReplaceAll(rel, "/", "_"))
		if err := os.WriteFile(outPath, []byte(out), 0o644); err != nil {
			panic(err)
		}
		replace[path] = outPath
		report = append(report, rel+": errgroup -> seqgroup")
	}
	replace[filepath.Join(*repo, "pkg/mcrt/seqgroup/seqgroup.go")] = filepath.Join(*verif, "mc/mcrt/seqgroup/seqgroup.go")
	// mount the runtime inside the repo module and add the state dump to package network
	replace[filepath.Join(*repo, "pkg/mcrt/mcrt.go")] = filepath.Join(*verif, "mc/mcrt/mcrt.go")
	replace[filepath.Join(*repo, "pkg/network/zz_verif_dump.go")] = filepath.Join(*verif, "mc/instrument/zz_verif_dump.go.txt")
	b, _ := json.MarshalIndent(map[string]any{"Replace": replace}, "", " ")
	if err := os.WriteFile(filepath.Join(*out, "overlay.json"), b, 0o644); err != nil {
		panic(err)
	}
	for _, l := range report {
		fmt.Println(l)
	}
	fmt.Println("overlay written to", filepath.Join(*out, "overlay.json"))
}
