// C12 — wire formats round-trip deterministically; decoding validates like construction.
//
// Space: a registry of serialisable types (rows_*_test.go); for every row and every valid value of it
//
//	(i)   encode twice -> identical bytes; decode -> Equal; re-encode -> identical bytes; constructor(accessors) accepts;
//	(ii)  EVERY structure-preserving mutation of its CBOR tree (mutate_test.go): per leaf bit flips / zero / ±1 / :=0 /
//	      text flips / bool flip / null, per container drop / dup / swap / field drop, and the container-level
//	      malformations duplicate key, unknown field, indefinite length, trailing byte, tag removal / foreign tag,
//	      non-minimal head, bignum tag;
//	(iii) EVERY byte string of length <= 2 into every decoder (length 3 for the cheapest decoders in thorough).
//
// Oracle: never panics; the decoder errors, or returns nil, or the decoded object passes its validity adapter
// (constructor(accessors(decoded)) succeeds and Equals it) and re-encodes to bytes that decode to an Equal object;
// malformed containers are always rejected. Round messages: round trip, determinism, no panic.
package c12

import (
	"bytes"
	"encoding/hex"
	"fmt"
	"os"
	"regexp"
	"runtime/debug"
	"sort"
	"strings"
	"sync"
	"testing"
	"time"

	rc "verifmc/ref/cbor"

	"verifmc/engine"
)

func TestMain(m *testing.M) { engine.Main(m, "C12", "fault_enumeration") }

// ---------------------------------------------------------------------------------------------
// statistics and failure throttling

type stats struct {
	mu       sync.Mutex
	byClass  map[string][3]int64 // family -> rejected, nil, accepted
	failKeys map[string]int64
}

func newStats() *stats { return &stats{byClass: map[string][3]int64{}, failKeys: map[string]int64{}} }

func (s *stats) count(family string, slot int) {
	s.mu.Lock()
	c := s.byClass[family]
	c[slot]++
	s.byClass[family] = c
	s.mu.Unlock()
}

// fail reports one failure; each key is handed to the engine at most 3 times per section (the total is kept for the
// evidence note) so that one systematic finding does not hide the others.
func (s *stats) fail(x *engine.X, key, format string, a ...any) {
	s.mu.Lock()
	s.failKeys[key]++
	n := s.failKeys[key]
	s.mu.Unlock()
	if dk := os.Getenv("VERIF_C12_DEBUGKEY"); dk != "" && n <= 2 && strings.Contains(key, dk) {
		fmt.Printf("DEBUG %s: %s\n", key, fmt.Sprintf(format, a...))
	}
	if n <= 3 || x.Replay {
		x.Failf(key, format, a...)
	}
}

func (s *stats) note(sec *engine.Section) {
	s.mu.Lock()
	defer s.mu.Unlock()
	var fams []string
	for f := range s.byClass {
		fams = append(fams, f)
	}
	sort.Strings(fams)
	var sb strings.Builder
	for _, f := range fams {
		c := s.byClass[f]
		fmt.Fprintf(&sb, "%s: rejected=%d nil=%d accepted-valid=%d; ", f, c[0], c[1], c[2])
	}
	sec.Note("decoder outcomes per mutation family: %s", sb.String())
	if len(s.failKeys) > 0 {
		var ks []string
		for k, n := range s.failKeys {
			ks = append(ks, fmt.Sprintf("%s x%d", k, n))
		}
		sort.Strings(ks)
		sec.Note("failure keys (total occurrences): %s", strings.Join(ks, "; "))
	}
}

// ---------------------------------------------------------------------------------------------
// guarded calls

type callRes struct {
	v     any
	b     []byte
	err   error
	panic string
}

// stackOf renders a recovered panic: first line "<value> @ <site>[ <- <decoder>]", then the library frames.
// site = innermost bron-crypto function on the panicking stack, decoder = innermost UnmarshalCBOR method on it.
func stackOf(p any) string {
	lines := strings.Split(string(debug.Stack()), "\n")
	// skip to the frames below the runtime's panic entry
	start := 0
	for i, l := range lines {
		if strings.HasPrefix(l, "panic(") {
			start = i + 1
		}
	}
	var keep []string
	site, decoder := "", ""
	for i := start; i < len(lines); i++ {
		l := lines[i]
		if strings.HasPrefix(l, "\t") || !strings.Contains(l, "bronlabs/bron-crypto/") {
			continue
		}
		fn := l
		if j := strings.LastIndexByte(fn, '('); j > 0 {
			fn = fn[:j]
		}
		fn = strings.TrimPrefix(fn, "github.com/bronlabs/bron-crypto/pkg/")
		fn = strings.TrimPrefix(fn, "github.com/bronlabs/bron-crypto/")
		if strings.Contains(fn, "serde.UnmarshalCBOR") {
			continue
		}
		if site == "" {
			site = fn
		}
		if decoder == "" && strings.HasSuffix(fn, ".UnmarshalCBOR") {
			decoder = fn
		}
		if len(keep) < 10 {
			loc := ""
			if i+1 < len(lines) {
				loc = strings.TrimSpace(lines[i+1])
				if k := strings.IndexByte(loc, ' '); k > 0 {
					loc = loc[:k]
				}
			}
			keep = append(keep, fn+"  "+loc)
		}
	}
	if site == "" {
		site = "?"
		keep = append(keep, lines[:min(len(lines), 60)]...)
	}
	at := site
	if decoder != "" && decoder != site {
		at += "<-" + decoder
	}
	return fmt.Sprintf("%s @ %s\n%s", strings.TrimSpace(firstLine(strings.TrimSpace(fmt.Sprint(p)))), at, strings.Join(keep, "\n"))
}

// panicSite extracts the "<site>[<-<decoder>]" part of a stackOf rendering.
func panicSite(ps string) string {
	fl := firstLine(ps)
	if i := strings.LastIndex(fl, " @ "); i >= 0 {
		return fl[i+3:]
	}
	return "?"
}

func guard(f func() (any, []byte, error)) (res callRes) {
	defer func() {
		if p := recover(); p != nil {
			if he, ok := p.(engine.HarnessError); ok {
				panic(he)
			}
			res.panic = stackOf(p)
		}
	}()
	v, b, err := f()
	return callRes{v: v, b: b, err: err}
}

func (r *row) safeDec(in []byte) callRes {
	return guard(func() (any, []byte, error) { v, err := r.dec(in); return v, nil, err })
}

func (r *row) safeEnc(v any) callRes {
	return guard(func() (any, []byte, error) { b, err := r.enc(v); return nil, b, err })
}

func (r *row) safeValid(v any) callRes {
	return guard(func() (any, []byte, error) { o, err := r.valid(v); return o, nil, err })
}

func (r *row) safeEq(a, b any) (eq bool, panicked string) {
	res := guard(func() (any, []byte, error) { return r.eq(a, b), nil, nil })
	if res.panic != "" {
		return false, res.panic
	}
	return res.v.(bool), ""
}

func firstLine(s string) string {
	if i := strings.IndexByte(s, '\n'); i >= 0 {
		return s[:i]
	}
	return s
}

func hx(b []byte) string {
	if len(b) > 600 {
		return hex.EncodeToString(b[:600]) + fmt.Sprintf("…(%d bytes)", len(b))
	}
	return hex.EncodeToString(b)
}

// ---------------------------------------------------------------------------------------------
// the oracle for one input byte string

// judge feeds in to the row's decoder. what: human description of the input; keyTail: stable suffix of finding keys;
// class: which oracle; field: non-empty for a dropped map field.
func (r *row) judge(x *engine.X, st *stats, in []byte, m *mutation, what, keyTail string) {
	family, class, field := "short", mValue, ""
	if m != nil {
		family, class, field = m.family, m.class, m.field
	}
	d := r.safeDec(in)
	if d.panic != "" {
		st.fail(x, "panic/decode@"+panicSite(d.panic), "decoder panicked: %s (row %s)\non %s\ninput=%s\n%s", firstLine(d.panic), r.name, what, hx(in), d.panic)
		return
	}
	if d.err != nil {
		st.count(family, 0)
		return
	}
	if class == mMalformed {
		st.fail(x, "malformed-accepted/"+family+"/"+r.name+"/"+keyTail, "%s: decoder ACCEPTED a malformed container (%s)\ninput=%s", r.name, what, hx(in))
		return
	}
	if isNil(d.v) {
		st.count(family, 1)
		return
	}
	// validity adapter: constructor(accessors(decoded)) succeeds and equals the decoded object
	missing := func(kind string) string {
		if field != "" {
			return "missing-field/" + r.name + "/" + strings.TrimPrefix(keyPath(field), "$>")
		}
		return kind + "/" + r.name + "/" + keyTail
	}
	if r.valid != nil {
		v := r.safeValid(d.v)
		switch {
		case v.panic != "":
			st.fail(x, missing("panic/validity@"+panicSite(v.panic)), "%s: decoder accepted %s without error, and applying the type's constructor to the decoded object's accessors panicked: %s\ninput=%s\n%s", r.name, what, firstLine(v.panic), hx(in), v.panic)
			return
		case v.err != nil:
			st.fail(x, missing("invalid-accepted"), "%s: decoder accepted %s without error, but the type's constructor refuses the decoded object's own data: %s\ninput=%s", r.name, what, firstLine(v.err.Error()), hx(in))
			return
		}
		if eq, pn := r.safeEq(d.v, v.v); pn != "" || !eq {
			st.fail(x, missing("constructor-differs"), "%s: decoder accepted %s, but constructor(accessors(decoded)) is not Equal to the decoded object (panic=%q)\ninput=%s", r.name, what, firstLine(pn), hx(in))
			return
		}
	}
	// the accepted object re-encodes to bytes that decode to an equal object
	e := r.safeEnc(d.v)
	if e.panic != "" || e.err != nil {
		if r.message {
			// a message decoded with an absent pointer field is only ever handed to Validate (C04); re-encoding it is not a library path
			st.count(family+"(message, not re-encodable)", 2)
			return
		}
		st.fail(x, missing("reencode-fails"), "%s: decoder accepted %s but the decoded object does not re-encode: err=%v panic=%s\ninput=%s", r.name, what, e.err, firstLine(e.panic), hx(in))
		return
	}
	d2 := r.safeDec(e.b)
	if d2.panic != "" || d2.err != nil || isNil(d2.v) {
		st.fail(x, missing("reencode-undecodable"), "%s: decoder accepted %s; the decoded object re-encodes to bytes its own decoder refuses: err=%v panic=%s\ninput=%s\nreencoded=%s", r.name, what, d2.err, firstLine(d2.panic), hx(in), hx(e.b))
		return
	}
	if eq, pn := r.safeEq(d.v, d2.v); pn != "" || !eq {
		st.fail(x, missing("reencode-differs"), "%s: decoder accepted %s; decode(encode(decoded)) is not Equal to decoded (panic=%q)\ninput=%s\nreencoded=%s", r.name, what, firstLine(pn), hx(in), hx(e.b))
		return
	}
	e2 := r.safeEnc(d2.v)
	if e2.panic == "" && e2.err == nil && !bytes.Equal(e2.b, e.b) && !r.reencodeStable() {
		st.count(family+"(row re-encoding unstable: see roundtrip)", 2)
		return
	}
	if e2.panic != "" || e2.err != nil || !bytes.Equal(e2.b, e.b) {
		st.fail(x, missing("reencode-unstable"), "%s: decoder accepted %s; encode(decode(encode(decoded))) differs from encode(decoded)\ninput=%s", r.name, what, hx(in))
		return
	}
	st.count(family, 2)
}

// ---------------------------------------------------------------------------------------------
// (i) honest values

const reencodeTries = 32

// reencodeDiffers decodes and re-encodes v up to reencodeTries times (bounded by 100 ms per value after the first
// try) and reports the first repetition whose bytes differ from encode(v).
func (r *row) reencodeDiffers(v anyVal) (bool, callRes) {
	t0 := time.Now()
	for i := 0; i < reencodeTries; i++ {
		d := r.safeDec(v.enc)
		if d.panic != "" || d.err != nil || isNil(d.v) {
			return true, d
		}
		e := r.safeEnc(d.v)
		if e.panic != "" || e.err != nil || !bytes.Equal(e.b, v.enc) {
			return true, e
		}
		if i >= 3 && time.Since(t0) > 100*time.Millisecond {
			break
		}
	}
	return false, callRes{}
}

// reencodeStable: decode/encode of every honest value of the row is byte-stable. When it is not (reported once, by
// the roundtrip section), the byte-stability sub-check on mutated inputs of that row is skipped: same cause.
func (r *row) reencodeStable() bool {
	r.stableOnce.Do(func() {
		r.stable = true
		for _, v := range r.values() {
			if bad, _ := r.reencodeDiffers(v); bad {
				r.stable = false
				return
			}
		}
	})
	return r.stable
}

func roundtripBody(st *stats) func(*engine.X) {
	return func(x *engine.X) {
		r := rows[x.Choose("type", len(rows))]
		vals := r.values()
		if r.gerr != "" {
			engine.HarnessFail("%s", r.gerr)
			x.Trivial()
			return
		}
		if len(vals) == 0 {
			engine.HarnessFail("row %s has no values", r.name)
			x.Trivial()
			return
		}
		kinds := map[string]bool{}
		for _, v := range vals {
			x.Case(r.name + "/" + v.name)
			what := fmt.Sprintf("value %q", v.name)
			// determinism of encoding
			e2 := r.safeEnc(v.v)
			if e2.panic != "" || e2.err != nil || !bytes.Equal(e2.b, v.enc) {
				st.fail(x, "encode-nondeterministic/"+r.name, "%s: %s: two encodings of the same object differ (err=%v panic=%s)\nfirst=%s\nsecond=%s", r.name, what, e2.err, firstLine(e2.panic), hx(v.enc), hx(e2.b))
				continue
			}
			// canonical form: the reference walker re-encodes it to itself (definite lengths, minimal heads)
			root, err := rc.Parse(v.enc)
			if err != nil || !bytes.Equal(rc.Encode(root), v.enc) {
				st.fail(x, "encode-noncanonical/"+r.name, "%s: %s: encoding is not canonical CBOR (definite lengths, minimal heads): parse err=%v\nenc=%s", r.name, what, err, hx(v.enc))
				continue
			}
			if !sortedKeys(root) {
				st.fail(x, "encode-unsorted-keys/"+r.name, "%s: %s: map keys are not in deterministic (bytewise) order\nenc=%s", r.name, what, hx(v.enc))
			}
			for _, k := range rc.SortedKinds(root) {
				kinds[k] = true
			}
			// decode -> Equal
			d := r.safeDec(v.enc)
			if d.panic != "" || d.err != nil || isNil(d.v) {
				st.fail(x, "roundtrip/decode-fails/"+r.name, "%s: %s: the decoder refuses the encoder's output: err=%v panic=%s\nenc=%s", r.name, what, d.err, firstLine(d.panic), hx(v.enc))
				continue
			}
			if eq, pn := r.safeEq(v.v, d.v); pn != "" || !eq {
				st.fail(x, "roundtrip/not-equal/"+r.name, "%s: %s: decode(encode(v)) is not Equal to v (panic=%q)\nenc=%s", r.name, what, firstLine(pn), hx(v.enc))
				continue
			}
			// re-encode identical (repeated: a decoder that rebuilds through an unordered container differs only sometimes)
			if bad, e3 := r.reencodeDiffers(v); bad {
				st.fail(x, "roundtrip/reencode-differs/"+r.name, "%s: %s: encode(decode(encode(v))) differs from encode(v) in at least one of %d decode/encode repetitions (err=%v panic=%s)\nenc=%s\nre=%s", r.name, what, reencodeTries, e3.err, firstLine(e3.panic), hx(v.enc), hx(e3.b))
				continue
			}
			// the validity adapter accepts honest values (adapter sanity; a failure here is triaged before anything else)
			if r.valid != nil {
				for _, o := range []any{v.v, d.v} {
					a := r.safeValid(o)
					if a.panic != "" || a.err != nil {
						st.fail(x, "adapter/honest-refused/"+r.name, "%s: %s: constructor(accessors(v)) refuses an honestly produced value: err=%v panic=%s", r.name, what, a.err, firstLine(a.panic))
						break
					}
					if eq, pn := r.safeEq(o, a.v); pn != "" || !eq {
						st.fail(x, "adapter/honest-differs/"+r.name, "%s: %s: constructor(accessors(v)) is not Equal to v (panic=%q)", r.name, what, firstLine(pn))
						break
					}
				}
			}
			st.count("honest", 2)
		}
		ks := make([]string, 0, len(kinds))
		for k := range kinds {
			ks = append(ks, k)
		}
		sort.Strings(ks)
		x.Observe(r.name, len(vals), ks)
	}
}

// sortedKeys: every map's keys are in bytewise lexicographic order of their encodings (RFC 8949 core deterministic).
func sortedKeys(n *rc.Node) bool {
	if n.Kind == rc.Map {
		var prev []byte
		for i := 0; i+1 < len(n.Items); i += 2 {
			k := rc.Encode(n.Items[i])
			if prev != nil && bytes.Compare(prev, k) >= 0 {
				return false
			}
			prev = k
		}
		for i := 1; i < len(n.Items); i += 2 {
			if !sortedKeys(n.Items[i]) {
				return false
			}
		}
		return true
	}
	for _, it := range n.Items {
		if !sortedKeys(it) {
			return false
		}
	}
	return true
}

// ---------------------------------------------------------------------------------------------
// (ii) mutations

// nodeIndices: homogeneous arrays longer than 8 are mutated at the index alphabet {0,1,mid,last-1,last} in quick
// (every index <= 32 in thorough); everything else at every node.
func nodeIndices(enc []byte) []int {
	root, err := rc.Parse(enc)
	if err != nil {
		return nil
	}
	limit := 8
	if engine.Thorough() {
		limit = 32
	}
	skip := map[*rc.Node]bool{}
	var mark func(n *rc.Node)
	markAll := func(n *rc.Node) {
		for _, r := range rc.Walk(n) {
			skip[r.Node] = true
		}
	}
	mark = func(n *rc.Node) {
		if n.Kind == rc.Array && len(n.Items) > limit {
			l := len(n.Items)
			keep := map[int]bool{0: true, 1: true, l / 2: true, l - 2: true, l - 1: true}
			for i, it := range n.Items {
				if !keep[i] {
					markAll(it)
				}
			}
		}
		for _, it := range n.Items {
			if !skip[it] {
				mark(it)
			}
		}
	}
	mark(root)
	var out []int
	for i, r := range rc.Walk(root) {
		if !skip[r.Node] {
			out = append(out, i)
		}
	}
	return out
}

func mutateBody(st *stats, sel func(*row) bool) func(*engine.X) {
	var rs []*row
	for _, r := range rows {
		if sel(r) {
			rs = append(rs, r)
		}
	}
	return func(x *engine.X) {
		r := rs[x.Choose("type", len(rs))]
		vals := r.values()
		if len(vals) == 0 {
			x.Trivial()
			return
		}
		v := vals[x.Choose("value", len(vals))]
		idxs := nodeIndices(v.enc)
		if len(idxs) == 0 {
			x.Trivial()
			return
		}
		idx := idxs[x.Choose("node", len(idxs))]
		path, kind, muts := mutationsAt(v.enc, idx)
		np := keyPath(path)
		acc := 0
		for _, m := range muts {
			m := m
			x.Case(r.name + "|" + v.name + "|" + path + "|" + m.op)
			r.judge(x, st, m.data, &m, fmt.Sprintf("value %q with %s at %s (%s)", v.name, m.op, path, kind), m.family+"@"+np)
			acc++
		}
		x.Observe(r.name, np, kind, acc)
	}
}

// ---------------------------------------------------------------------------------------------
// (iii) short strings

func shortBody(st *stats, rs []*row, length int) func(*engine.X) {
	return func(x *engine.X) {
		r := rs[x.Choose("type", len(rs))]
		var rej, nl, acc int
		run := func(in []byte) {
			x.Case("")
			d := r.safeDec(in)
			switch {
			case d.panic != "" || d.err == nil && !isNil(d.v):
				r.judge(x, st, in, nil, "the "+fmt.Sprint(len(in))+"-byte string "+hx(in), "short-string")
				acc++
			case d.err != nil:
				rej++
			default:
				nl++
			}
		}
		switch length {
		case 2:
			// first byte (or none) is the choice point, second byte the inner loop
			f := x.Choose("first", 257)
			if f == 256 {
				run(nil)
			} else {
				run([]byte{byte(f)})
				for s := 0; s < 256; s++ {
					run([]byte{byte(f), byte(s)})
				}
			}
		case 3:
			f := x.Choose("first", 256)
			for s := 0; s < 256; s++ {
				for t := 0; t < 256; t++ {
					run([]byte{byte(f), byte(s), byte(t)})
				}
			}
		}
		st.mu.Lock()
		c := st.byClass["short"]
		c[0] += int64(rej)
		c[1] += int64(nl)
		st.byClass["short"] = c
		st.mu.Unlock()
		x.Observe(r.name, rej, nl, acc)
	}
}

// craftedInputs: short tagged inputs beyond length 2 that reach a type's own decoder with an empty or null payload:
// self-described-CBOR tag (stripped by the decoder), a foreign tag and every registered type tag, each around
// null / undefined / empty map / empty array / empty byte string / empty text / 0 / false.
func craftedInputs() (names []string, ins [][]byte) {
	payloads := []struct {
		n string
		b []byte
	}{{"null", []byte{0xf6}}, {"undefined", []byte{0xf7}}, {"{}", []byte{0xa0}}, {"[]", []byte{0x80}}, {"h''", []byte{0x40}}, {"\"\"", []byte{0x60}}, {"0", []byte{0x00}}, {"false", []byte{0xf4}}}
	tags := []uint64{55799, 65000, 2, 3, 24}
	for t := uint64(5006); t <= 5017; t++ {
		if t != 5009 {
			tags = append(tags, t)
		}
	}
	for t := uint64(5050); t <= 5054; t++ {
		tags = append(tags, t)
	}
	// the bare items (no tag): a decoder's first look at a value of the wrong major type / null
	for _, p := range payloads {
		names = append(names, "bare "+p.n)
		ins = append(ins, append([]byte{}, p.b...))
	}
	for _, t := range tags {
		for _, p := range payloads {
			h, _ := putHead(nil, 6, t, false)
			names = append(names, fmt.Sprintf("tag %d around %s", t, p.n))
			ins = append(ins, append(h, p.b...))
		}
	}
	// double wrapping: self-described tag around a registered tag around {} / null
	for _, t := range tags[5:] {
		for _, p := range payloads[:3] {
			h, _ := putHead([]byte{0xd9, 0xd9, 0xf7}, 6, t, false)
			names = append(names, fmt.Sprintf("tag 55799 around tag %d around %s", t, p.n))
			ins = append(ins, append(h, p.b...))
		}
	}
	return names, ins
}

func craftedBody(st *stats) func(*engine.X) {
	names, ins := craftedInputs()
	return func(x *engine.X) {
		r := rows[x.Choose("type", len(rows))]
		for i, in := range ins {
			x.Case(r.name + "|" + names[i])
			m := mutation{op: names[i], family: "crafted", class: mValue}
			r.judge(x, st, in, &m, "the crafted input <"+names[i]+">", "crafted")
		}
		x.Observe(r.name, len(ins))
	}
}

// decodeCost measures the mean cost of refusing short inputs (ns) for ordering the length-3 sweep.
func decodeCost(r *row) time.Duration {
	ins := [][]byte{{0xa0}, {0x80}, {0x40}, {0x00}, {0xa1, 0x60}, {0xf6}}
	t0 := time.Now()
	for i := 0; i < 20; i++ {
		for _, in := range ins {
			r.safeDec(in)
		}
	}
	return time.Since(t0) / time.Duration(20*len(ins))
}

// ---------------------------------------------------------------------------------------------

func TestCheck(t *testing.T) {
	engine.Rule("registry of serialisable types (one row per type, values from generators over the element alphabets and from round-by-round protocol executions with fixed randomness); per row and value: encode/decode/re-encode determinism; EVERY single mutation of the value's CBOR tree from the operator table in mutate_test.go at EVERY node (homogeneous arrays longer than 8 at indices {0,1,mid,last-1,last} in quick, longer than 32 in thorough); EVERY byte string of length <= 2 into every decoder (length 3 into the 20 cheapest decoders that have an UnmarshalCBOR method, in thorough); a fixed list of 216 short tagged inputs (every registered / foreign / self-described tag around null, undefined, {}, [], h'', \"\", 0, false) into every decoder. A case is distinct by (row, value, node path, operator); non-trivial = the decoder was called and its answer judged.")
	engine.Assume(
		"verifmc/ref/cbor parses and re-encodes CBOR losslessly (asserted per value: Encode(Parse(b)) == b)",
		"a top-level CBOR null/undefined decoded into a pointer type yields a nil pointer without error: counted as 'nil', not as an accepted object",
		"malformations nested inside a byte string that the outer type treats as opaque bytes are judged by the value oracle, not must-reject",
		"round messages: round trip, determinism and no-panic only (their validity rule is Validate(receiver, sender), exercised by C04)",
		"purego build; small Paillier/RSA test keys (testing.Testing() gate)",
	)
	registerAll()
	sort.SliceStable(rows, func(i, j int) bool { return rows[i].name < rows[j].name })
	if f := os.Getenv("VERIF_C12_ROWS"); f != "" {
		// development aid: restrict the registry to the rows whose name matches the regular expression
		re := regexp.MustCompile(f)
		var keep []*row
		for _, r := range rows {
			if re.MatchString(r.name) {
				keep = append(keep, r)
			}
		}
		rows = keep
		engine.Assume("ROW FILTER ACTIVE (VERIF_C12_ROWS=" + f + "): only the matching rows were explored")
	}

	stRT := newStats()
	secRT := engine.Explore(roundtripBody(stRT), engine.Opts{Name: "roundtrip", Budget: engine.Budget(10*time.Minute, 30*time.Minute), MaxFails: 100000})
	stRT.note(secRT)
	coverageNote(secRT)

	stM := newStats()
	secM := engine.Explore(mutateBody(stM, func(r *row) bool { return true }), engine.Opts{Name: "mutate", Budget: engine.Budget(20*time.Minute, 60*time.Minute), MaxFails: 100000})
	stM.note(secM)

	stS := newStats()
	secS := engine.Explore(shortBody(stS, rows, 2), engine.Opts{Name: "short/len<=2", Budget: engine.Budget(10*time.Minute, 30*time.Minute), MaxFails: 100000})
	stS.note(secS)

	stC := newStats()
	secC := engine.Explore(craftedBody(stC), engine.Opts{Name: "crafted-tagged", Budget: engine.Budget(2*time.Minute, 10*time.Minute), MaxFails: 100000})
	stC.note(secC)

	if engine.Thorough() {
		type rc struct {
			r *row
			c time.Duration
		}
		// candidates: rows that decode through an UnmarshalCBOR method of the library (plain structs only exercise the
		// CBOR library's own struct decoder)
		var cs []rc
		for _, r := range rows {
			if r.covers != "" {
				cs = append(cs, rc{r, decodeCost(r)})
			}
		}
		sort.SliceStable(cs, func(i, j int) bool { return cs[i].c < cs[j].c })
		var cheap []*row
		var names []string
		for i := 0; i < len(cs) && i < 20; i++ {
			cheap = append(cheap, cs[i].r)
			names = append(names, cs[i].r.name)
		}
		sort.SliceStable(cheap, func(i, j int) bool { return cheap[i].name < cheap[j].name })
		st3 := newStats()
		sec3 := engine.Explore(shortBody(st3, cheap, 3), engine.Opts{Name: "short/len=3", Budget: 25 * time.Minute, MaxFails: 100000})
		sort.Strings(names)
		sec3.Note("the 20 cheapest decoders with an UnmarshalCBOR method (measured): %s", strings.Join(names, ", "))
		st3.note(sec3)
	}
}

// coverageNote reports the registry's coverage of the UnmarshalCBOR methods found in the repository.
func coverageNote(sec *engine.Section) {
	all, err := scanUnmarshalers()
	if err != nil {
		engine.HarnessFail("cannot scan %s for UnmarshalCBOR methods: %v", repoDir(), err)
		return
	}
	covered := map[string][]string{}
	var plain []string
	for _, r := range rows {
		if r.covers != "" {
			covered[r.covers] = append(covered[r.covers], r.name)
		} else {
			plain = append(plain, r.name)
		}
	}
	var miss, stale []string
	n := 0
	seen := map[string]bool{}
	for _, m := range all {
		seen[m] = true
		if len(covered[m]) > 0 {
			n++
		} else {
			miss = append(miss, m)
		}
	}
	for c := range covered {
		if !seen[c] {
			stale = append(stale, c)
		}
	}
	sort.Strings(stale)
	sec.Note("registry: %d rows; %d of the %d UnmarshalCBOR methods under %s/pkg are decoded through directly by a row; %d rows are plain structs / interface-typed values / round messages without a custom decoder", len(rows), n, len(all), repoDir(), len(plain))
	sec.Note("UnmarshalCBOR methods WITHOUT a registry row (%d): %s", len(miss), strings.Join(miss, ", "))
	if !engine.Thorough() {
		sec.Note("quick tier: the cggmp21 affgstar and dec proof types are registered in the thorough tier only (their honest transcripts take seconds to produce)")
	}
	if len(stale) > 0 {
		engine.HarnessFail("registry rows name UnmarshalCBOR methods that do not exist (renamed?): %s", strings.Join(stale, ", "))
	}
	var names []string
	for _, r := range rows {
		names = append(names, fmt.Sprintf("%s(%d)", r.name, len(r.vals)))
	}
	sec.Note("rows (values): %s", strings.Join(names, ", "))
	fmt.Printf("[C12] registry: %d rows, %d/%d UnmarshalCBOR methods covered, %d missing\n", len(rows), n, len(all), len(miss))
	for _, m := range miss {
		fmt.Printf("[C12]   uncovered: %s\n", m)
	}
}
