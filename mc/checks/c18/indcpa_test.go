package c18

import (
	"fmt"
	"math/big"

	"github.com/bronlabs/bron-crypto/pkg/base/curves/k256"
	"github.com/bronlabs/bron-crypto/pkg/base/nt/num"
	"github.com/bronlabs/bron-crypto/pkg/base/nt/znstar"
	"github.com/bronlabs/bron-crypto/pkg/commitments"
	"github.com/bronlabs/bron-crypto/pkg/commitments/indcpacom"
	"github.com/bronlabs/bron-crypto/pkg/encryption/elgamal"
	"github.com/bronlabs/bron-crypto/pkg/encryption/paillier"

	"verifmc/engine"
)

// ---------------------------------------------------------------------------------------------------------
// Paillier-based commitments: c = (1 + m·N) · r^N mod N²

type (
	paiKeyPub = indcpacom.HomomorphicCommitmentKey[*paillier.PublicKey, *paillier.Plaintext, *paillier.Nonce, *paillier.Ciphertext, *num.Int]
	paiKeySec = indcpacom.HomomorphicCommitmentKey[*paillier.SecretKey, *paillier.Plaintext, *paillier.Nonce, *paillier.Ciphertext, *num.Int]
	paiMsg    = indcpacom.Message[*paillier.Plaintext]
	paiWit    = indcpacom.Witness[*paillier.Nonce]
	paiCom    = indcpacom.Commitment[*paillier.Ciphertext]
)

type paillierKey struct {
	name   string
	n, n2  *big.Int
	sk     *paillier.SecretKey
	pk     *paillier.PublicKey
	pub    *paiKeyPub
	sec    *paiKeySec
	nPlus  *num.NatPlus
	nonceG *znstar.RSAGroupUnknownOrder
}

var paillierKeyCache memo[[]*paillierKey]

func paillierKeyBits() []int {
	if engine.Thorough() {
		return []int{128, 256, 512}
	}
	return []int{128, 256}
}

func paillierKeys() []*paillierKey {
	return paillierKeyCache.get(engine.Tier(), func() []*paillierKey {
		var out []*paillierKey
		for _, bits := range paillierKeyBits() {
			st := newStream(fmt.Sprintf("paillier/key/%d", bits))
			p, q := genPrime(st, bits/2, false), genPrime(st, bits/2, false)
			for p.Cmp(q) == 0 {
				q = genPrime(st, bits/2, false)
			}
			group := must(znstar.NewPaillierGroup(natPlus(p), natPlus(q)))
			sk := must(paillier.NewSecretKey(group))
			pk := sk.Public()
			n := new(big.Int).Mul(p, q)
			out = append(out, &paillierKey{
				name: fmt.Sprintf("paillier%d", bits), n: n, n2: new(big.Int).Mul(n, n), sk: sk, pk: pk,
				pub: must(indcpacom.NewHomomorphicCommitmentKey(pk)), sec: must(indcpacom.NewHomomorphicCommitmentKey(sk)),
				nPlus: natPlus(n), nonceG: pk.NonceGroup(),
			})
		}
		return out
	})
}

func refPaillier(n, m, r *big.Int) *big.Int {
	n2 := new(big.Int).Mul(n, n)
	gm := new(big.Int).Mul(m, n)
	gm.Add(gm, bi(1))
	rn := new(big.Int).Exp(r, n, n2)
	return gm.Mul(gm, rn).Mod(gm, n2)
}

func (k *paillierKey) message(m *big.Int) (*paiMsg, error) {
	if m.Sign() < 0 || m.Cmp(k.n) >= 0 {
		return nil, fmt.Errorf("outside [0,N)")
	}
	pt, err := paillier.NewPlaintextFromNat(must(num.N().FromBig(m)), k.nPlus)
	if err != nil {
		return nil, err
	}
	return indcpacom.NewMessage(pt)
}

func (k *paillierKey) witness(r *big.Int) (*paiWit, error) {
	if r.Sign() <= 0 || r.Cmp(k.n) >= 0 {
		return nil, fmt.Errorf("outside [1,N)")
	}
	nn, err := paillier.NewNonce(k.pk.Group(), natPlus(r))
	if err != nil {
		return nil, err
	}
	return indcpacom.NewWitness(nn)
}

func (k *paillierKey) commitment(c *big.Int) (*paiCom, error) {
	if c.Sign() <= 0 || c.Cmp(k.n2) >= 0 {
		return nil, fmt.Errorf("outside [1,N²)")
	}
	ct, err := paillier.NewCiphertext(k.pk.Group(), natPlus(c))
	if err != nil {
		return nil, err
	}
	return indcpacom.NewCommitment(ct)
}

func paillierMessages(k *paillierKey) []*big.Int {
	half := new(big.Int).Rsh(k.n, 1)
	return []*big.Int{bi(0), bi(1), new(big.Int).Sub(k.n, bi(1)), half, new(big.Int).Add(half, bi(1)), newStream("paillier/msg/" + k.name).bigBelow(k.n)}
}

func paillierWitnesses(k *paillierKey) []*big.Int {
	w := must(k.pub.SampleWitness(newStream("paillier/wit/" + k.name)))
	return []*big.Int{bi(1), new(big.Int).Sub(k.n, bi(1)), bi(2), w.Value().Value().Value().Big(), newStream("paillier/wit2/" + k.name).bigBelow(k.n)}
}

// residueChanges: single-component changes of a residue v mod n: every other alphabet value, v±1, -v, 2v, v², v⁻¹
// (if it exists) and every single-bit change of the value that stays below the modulus.
func residueChanges(v, n *big.Int, alphabet []*big.Int) []unitChange {
	var out []unitChange
	for i, a := range alphabet {
		out = append(out, unitChange{fmt.Sprintf("alphabet%d", i), a})
	}
	out = append(out,
		unitChange{"plus1", mod(new(big.Int).Add(v, bi(1)), n)},
		unitChange{"minus1", mod(new(big.Int).Sub(v, bi(1)), n)},
		unitChange{"neg", mod(new(big.Int).Neg(v), n)},
		unitChange{"double", mod(new(big.Int).Lsh(v, 1), n)},
		unitChange{"square", mod(new(big.Int).Mul(v, v), n)},
	)
	if inv := new(big.Int).ModInverse(v, n); inv != nil {
		out = append(out, unitChange{"inverse", inv})
	}
	for b := 0; b < n.BitLen(); b++ {
		a := new(big.Int).Set(v)
		a.SetBit(a, b, a.Bit(b)^1)
		if a.Cmp(n) < 0 {
			out = append(out, unitChange{fmt.Sprintf("bit%d", b), a})
		}
	}
	return out
}

var paillierTally tally

func paillierFaultBody(x *engine.X) {
	keys := paillierKeys()
	ki := x.Choose("key", len(keys))
	k := keys[ki]
	msgs, wits := paillierMessages(k), paillierWitnesses(k)
	mi := x.Choose("msg", len(msgs))
	wi := x.Choose("wit", len(wits))
	m, r := msgs[mi], wits[wi]
	id := fmt.Sprintf("indcpa/%s/m%d/w%d", k.name, mi, wi)
	lt := localTally{}
	defer lt.flush(&paillierTally)

	key := k.pub
	M, W := must(k.message(m)), must(k.witness(r))
	C, err := key.CommitWithWitness(M, W)
	if err != nil {
		x.Failf("indcpa/paillier/commit/err", "%s: CommitWithWitness failed: %v", id, err)
		return
	}
	cv := C.Value().Value().Value().Big()
	x.Case(id)
	if want := refPaillier(k.n, m, r); cv.Cmp(want) != 0 {
		x.Failf("indcpa/paillier/commit/value", "%s: commitment %s differs from (1+mN)·r^N mod N² = %s", id, short(cv), short(want))
		return
	}
	if err := key.Open(C, M, W); err != nil {
		x.Failf("indcpa/paillier/open/untouched", "%s: Open rejected the untouched (m, w, key, c): %v", id, err)
	}
	// the same commitment under the decryption key used as commitment key (self-encryption, CRT path)
	if CS, err := k.sec.CommitWithWitness(M, W); err != nil || !CS.Equal(C) {
		x.Failf("indcpa/paillier/secret-key/commit-value", "%s: commitment under the secret key differs from the public key's (err=%v)", id, err)
	} else if err := k.sec.Open(C, M, W); err != nil {
		x.Failf("indcpa/paillier/secret-key/open-untouched", "%s: secret-key commitment key rejected the untouched opening: %v", id, err)
	}
	lt["accept-untouched"]++

	judge := func(what string, same bool, c2, m2, r2 *big.Int, run func() error) {
		x.Case(id + "/" + what)
		valid := refPaillier(k.n, m2, r2).Cmp(c2) == 0
		err := run()
		switch {
		case same:
			lt["same-value"]++
			if err != nil {
				x.Failf("indcpa/paillier/open/same-value-"+fieldOf(what), "%s: Open rejected %s although the value is unchanged: %v", id, what, err)
			}
		case valid:
			lt["degenerate-"+fieldOf(what)]++
		case err == nil:
			x.Failf("indcpa/paillier/open/accepts-"+fieldOf(what), "%s: Open ACCEPTED after lone change %s", id, what)
		default:
			lt["reject-"+fieldOf(what)]++
		}
	}
	for _, ch := range residueChanges(m, k.n, msgs) {
		M2, err := k.message(ch.v)
		if err != nil {
			lt["message-construction-refused"]++
			continue
		}
		judge("msg-"+ch.what, ch.v.Cmp(m) == 0, cv, ch.v, r, func() error { return key.Open(C, M2, W) })
		if ch.v.Cmp(m) != 0 && k.sec.Open(C, M2, W) == nil {
			x.Failf("indcpa/paillier/secret-key/open-accepts-msg", "%s: secret-key commitment key ACCEPTED after lone change msg-%s", id, ch.what)
		}
	}
	for _, ch := range residueChanges(r, k.n, wits) {
		W2, err := k.witness(ch.v)
		if err != nil {
			lt["witness-construction-refused"]++ // not a unit mod N / zero
			continue
		}
		judge("wit-"+ch.what, ch.v.Cmp(r) == 0, cv, m, ch.v, func() error { return key.Open(C, M, W2) })
		if ch.v.Cmp(r) != 0 && refPaillier(k.n, m, ch.v).Cmp(cv) != 0 && k.sec.Open(C, M, W2) == nil {
			x.Failf("indcpa/paillier/secret-key/open-accepts-wit", "%s: secret-key commitment key ACCEPTED after lone change wit-%s", id, ch.what)
		}
	}
	n2alphabet := []*big.Int{bi(1), new(big.Int).Add(k.n, bi(1)), refPaillier(k.n, msgs[(mi+1)%len(msgs)], r)}
	for _, ch := range residueChanges(cv, k.n2, n2alphabet) {
		C2, err := k.commitment(ch.v)
		if err != nil {
			lt["commitment-construction-refused"]++
			continue
		}
		judge("com-"+ch.what, ch.v.Cmp(cv) == 0, ch.v, m, r, func() error { return key.Open(C2, M, W) })
	}
	// key: the only component is N. Every single-bit change of N (as far as the library builds a key from it) and
	// every other key: the recomputed ciphertext lives modulo another N², so nothing can open.
	tryKey := func(what string, n2 *big.Int) {
		x.Case(id + "/" + what)
		np := natPlus(n2)
		g, err := znstar.NewPaillierGroupOfUnknownOrder(np.Mul(np), np)
		if err != nil {
			lt["key-construction-refused"]++
			return
		}
		pk2, err := paillier.NewPublicKey(g)
		if err != nil {
			lt["key-construction-refused"]++
			return
		}
		k2 := must(indcpacom.NewHomomorphicCommitmentKey(pk2))
		if k2.Open(C, M, W) == nil {
			x.Failf("indcpa/paillier/open/accepts-key", "%s: Open ACCEPTED under the changed key %s (N'=%s)", id, what, short(n2))
			return
		}
		lt["reject-key"]++
	}
	for b := 0; b <= k.n.BitLen(); b++ {
		n2 := new(big.Int).Set(k.n)
		n2.SetBit(n2, b, n2.Bit(b)^1)
		if n2.Sign() > 0 && n2.Cmp(bi(3)) > 0 {
			tryKey(fmt.Sprintf("key-bit%d", b), n2)
		}
	}
	for j, o := range keys {
		if j != ki {
			tryKey(fmt.Sprintf("key-replace%d", j), o.n)
		}
	}
	if wi == len(wits)-1 {
		C3, W3, err := commitments.Commit(key, M, newStream(id+"/Commit"))
		x.Case(id + "/Commit")
		if err != nil {
			x.Failf("indcpa/paillier/Commit/err", "%s: commitments.Commit failed: %v", id, err)
		} else if refPaillier(k.n, m, W3.Value().Value().Value().Big()).Cmp(C3.Value().Value().Value().Big()) != 0 || key.Open(C3, M, W3) != nil {
			x.Failf("indcpa/paillier/Commit/value", "%s: commitments.Commit output does not open / differs from the definition", id)
		}
	}
	if wi == len(wits)-1 {
		C4, shift, err := commitments.ReRandomise(key, C, newStream(id+"/ReRandomise"))
		x.Case(id + "/ReRandomise")
		if err != nil {
			x.Failf("indcpa/paillier/ReRandomise/err", "%s: commitments.ReRandomise failed: %v", id, err)
		} else {
			r4 := mod(new(big.Int).Mul(r, shift.Value().Value().Value().Big()), k.n)
			W4, err := key.WitnessOp(W, shift)
			if err != nil || refPaillier(k.n, m, r4).Cmp(C4.Value().Value().Value().Big()) != 0 || key.Open(C4, M, W4) != nil {
				x.Failf("indcpa/paillier/ReRandomise/value", "%s: re-randomised commitment does not open to (m, w·shift) (err=%v)", id, err)
			}
		}
	}
	if key.Open(nil, M, W) == nil || key.Open(C, nil, W) == nil || key.Open(C, M, nil) == nil {
		x.Failf("indcpa/paillier/open/nil", "%s: Open accepted a nil argument", id)
	}
	x.Observe(id, short(cv))
}

// ---------------------------------------------------------------------------------------------------------
// ElGamal-based commitments over k256: c = (r·G, m + r·h), m a group element

type (
	egPub  = elgamal.PublicKey[*k256.Point, *k256.Scalar]
	egSec  = elgamal.SecretKey[*k256.Point, *k256.Scalar]
	egPt   = elgamal.Plaintext[*k256.Point, *k256.Scalar]
	egNon  = elgamal.Nonce[*k256.Scalar]
	egCt   = elgamal.Ciphertext[*k256.Point, *k256.Scalar]
	egKeyP = indcpacom.HomomorphicCommitmentKey[*egPub, *egPt, *egNon, *egCt, *k256.Scalar]
	egKeyS = indcpacom.HomomorphicCommitmentKey[*egSec, *egPt, *egNon, *egCt, *k256.Scalar]
	egMsg  = indcpacom.Message[*egPt]
	egWit  = indcpacom.Witness[*egNon]
	egCom  = indcpacom.Commitment[*egCt]
)

type elgamalKey struct {
	name string
	sk   *egSec
	pk   *egPub
	pub  *egKeyP
	sec  *egKeyS
}

var elgamalKeyCache memo[[]*elgamalKey]

func elgamalKeys() []*elgamalKey {
	return elgamalKeyCache.get("", func() []*elgamalKey {
		var out []*elgamalKey
		for i := 0; i < 2; i++ {
			sk := must(elgamal.SampleSecretKey(k256.NewCurve(), newStream(fmt.Sprintf("elgamal/key/%d", i))))
			pk := sk.Public()
			out = append(out, &elgamalKey{name: fmt.Sprintf("elgamal-k256-%d", i), sk: sk, pk: pk,
				pub: must(indcpacom.NewHomomorphicCommitmentKey(pk)), sec: must(indcpacom.NewHomomorphicCommitmentKey(sk))})
		}
		return out
	})
}

func egMessage(p *k256.Point) *egMsg   { return must(indcpacom.NewMessage(must(elgamal.NewPlaintext(p)))) }
func egWitness(s *k256.Scalar) *egWit { return must(indcpacom.NewWitness(must(elgamal.NewNonce(s)))) }

// elgamalMessagePoints: O, G, -G and one stream-derived multiple of G; thorough adds 2G.
func elgamalMessagePoints(c *curveCtx[*k256.Point, *k256.Scalar]) []*k256.Point {
	G := c.group.Generator()
	a := []*k256.Point{c.group.OpIdentity(), G, G.OpInv(), G.ScalarOp(c.scalar(newStream("elgamal/msg").bigBelow(c.q())))}
	if engine.Thorough() {
		a = append(a, G.Op(G))
	}
	return a
}

func elgamalFaultBody(c *curveCtx[*k256.Point, *k256.Scalar]) func(*engine.X) {
	return func(x *engine.X) {
		keys := elgamalKeys()
		ki := x.Choose("key", len(keys))
		k := keys[ki]
		msgs := elgamalMessagePoints(c)
		wits := c.scalarAlphabet("elgamal/wit")
		mi := x.Choose("msg", len(msgs))
		wi := x.Choose("wit", len(wits))
		mp, r := msgs[mi], wits[wi]
		id := fmt.Sprintf("indcpa/%s/m%d/w%d", k.name, mi, wi)
		lt := localTally{}
		defer lt.flush(c.tally)

		key := k.pub
		M, W := egMessage(mp), egWitness(c.scalar(r))
		C, err := key.CommitWithWitness(M, W)
		if err != nil {
			x.Failf("indcpa/elgamal/commit/err", "%s: CommitWithWitness failed: %v", id, err)
			return
		}
		comps := C.Value().Value().Components()
		if len(comps) != 2 {
			x.Failf("indcpa/elgamal/commit/shape", "%s: ciphertext has %d components", id, len(comps))
			return
		}
		G := c.ref.gen()
		h, ma := c.affine(k.pk.Value()), c.affine(mp)
		c1, c2 := c.affine(comps[0]), c.affine(comps[1])
		ref := func(h2, m2 refPoint, r2 *big.Int) (refPoint, refPoint) {
			return c.ref.mul(mod(r2, c.q()), G), c.ref.add(m2, c.ref.mul(mod(r2, c.q()), h2))
		}
		x.Case(id)
		if w1, w2 := ref(h, ma, r); !c.ref.eq(c1, w1) || !c.ref.eq(c2, w2) {
			x.Failf("indcpa/elgamal/commit/value", "%s: commitment (%v, %v) differs from (r·G, m + r·h) = (%v, %v)", id, c1, c2, w1, w2)
			return
		}
		if err := key.Open(C, M, W); err != nil {
			x.Failf("indcpa/elgamal/open/untouched", "%s: Open rejected the untouched (m, w, key, c): %v", id, err)
		}
		if CS, err := k.sec.CommitWithWitness(M, W); err != nil || !CS.Equal(C) {
			x.Failf("indcpa/elgamal/secret-key/commit-value", "%s: commitment under the secret key differs from the public key's (err=%v)", id, err)
		} else if err := k.sec.Open(C, M, W); err != nil {
			x.Failf("indcpa/elgamal/secret-key/open-untouched", "%s: secret-key commitment key rejected the untouched opening: %v", id, err)
		}
		lt["accept-untouched"]++

		judge := func(what string, same, valid bool, k2 *egKeyP, C2 *egCom, M2 *egMsg, W2 *egWit) {
			x.Case(id + "/" + what)
			err := k2.Open(C2, M2, W2)
			switch {
			case same:
				lt["same-value"]++
				if err != nil {
					x.Failf("indcpa/elgamal/open/same-value-"+fieldOf(what), "%s: Open rejected %s although it decodes to the original value: %v", id, what, err)
				}
			case valid:
				lt["degenerate-"+fieldOf(what)]++
			case err == nil:
				x.Failf("indcpa/elgamal/open/accepts-"+fieldOf(what), "%s: Open ACCEPTED after lone change %s", id, what)
			default:
				lt["reject-"+fieldOf(what)]++
			}
		}
		crossCheck := func(what string, valid bool, h2, m2 refPoint, r2 *big.Int, d1, d2 refPoint) {
			w1, w2 := ref(h2, m2, r2)
			if full := c.ref.eq(w1, d1) && c.ref.eq(w2, d2); full != valid {
				panic(engine.HarnessError{Msg: fmt.Sprintf("%s/%s: shortcut validity rule (%v) disagrees with reference recomputation (%v)", id, what, valid, full)})
			}
		}
		isBit := func(what string) bool { return len(what) >= 3 && what[:3] == "bit" }
		other := msgs[(mi+1)%len(msgs)]

		for _, ch := range c.pointChanges(mp, map[string]*k256.Point{"other-message": other}, lt) {
			same := c.ref.eq(ch.a, ma)
			if !isBit(ch.what) {
				crossCheck("msg-"+ch.what, same, h, ch.a, r, c1, c2)
			}
			judge("msg-"+ch.what, same, same, key, C, egMessage(ch.p), W)
		}
		for _, ch := range c.scalarChanges(r, lt) {
			same := ch.v.Cmp(r) == 0
			if !isBit(ch.what) {
				crossCheck("wit-"+ch.what, same, h, ma, ch.v, c1, c2)
			}
			judge("wit-"+ch.what, same, same, key, C, M, egWitness(ch.s))
		}
		otherH := keys[(ki+1)%len(keys)].pk.Value()
		for _, ch := range c.pointChanges(k.pk.Value(), map[string]*k256.Point{"otherkey-h": otherH}, lt) {
			same := c.ref.eq(ch.a, h)
			valid := same || r.Sign() == 0
			pk2, err := elgamal.NewPublicKey(ch.p)
			if err != nil {
				lt["key-construction-refused"]++
				x.Case(id + "/key-" + ch.what + "/refused")
				continue
			}
			if !isBit(ch.what) {
				crossCheck("key-"+ch.what, valid, ch.a, ma, r, c1, c2)
			}
			judge("key-"+ch.what, same, valid, must(indcpacom.NewHomomorphicCommitmentKey(pk2)), C, M, W)
		}
		for comp := 0; comp < 2; comp++ {
			for _, ch := range c.pointChanges(comps[comp], map[string]*k256.Point{"other-component": comps[1-comp]}, lt) {
				d1, d2, p1, p2 := c1, c2, comps[0], comps[1]
				if comp == 0 {
					d1, p1 = ch.a, ch.p
				} else {
					d2, p2 = ch.a, ch.p
				}
				same := c.ref.eq(d1, c1) && c.ref.eq(d2, c2)
				ct, err := elgamal.NewCiphertext(p1, p2)
				if err != nil {
					lt["commitment-construction-refused"]++
					continue
				}
				judge(fmt.Sprintf("com%d-%s", comp+1, ch.what), same, same, key, must(indcpacom.NewCommitment(ct)), M, W)
			}
		}
		if wi == len(wits)-1 {
			C3, W3, err := commitments.Commit(key, M, newStream(id+"/Commit"))
			x.Case(id + "/Commit")
			if err != nil {
				x.Failf("indcpa/elgamal/Commit/err", "%s: commitments.Commit failed: %v", id, err)
			} else {
				w1, w2 := ref(h, ma, c.scalarBig(W3.Value().Value()))
				cc := C3.Value().Value().Components()
				if !c.ref.eq(c.affine(cc[0]), w1) || !c.ref.eq(c.affine(cc[1]), w2) || key.Open(C3, M, W3) != nil {
					x.Failf("indcpa/elgamal/Commit/value", "%s: commitments.Commit output does not open / differs from the definition", id)
				}
			}
		}
		if wi == len(wits)-1 {
			C4, shift, err := commitments.ReRandomise(key, C, newStream(id+"/ReRandomise"))
			x.Case(id + "/ReRandomise")
			if err != nil {
				x.Failf("indcpa/elgamal/ReRandomise/err", "%s: commitments.ReRandomise failed: %v", id, err)
			} else {
				w1, w2 := ref(h, ma, new(big.Int).Add(r, c.scalarBig(shift.Value().Value())))
				cc := C4.Value().Value().Components()
				W4, err := key.WitnessOp(W, shift)
				if err != nil || !c.ref.eq(c.affine(cc[0]), w1) || !c.ref.eq(c.affine(cc[1]), w2) || key.Open(C4, M, W4) != nil {
					x.Failf("indcpa/elgamal/ReRandomise/value", "%s: re-randomised commitment does not open to (m, w+shift) (err=%v)", id, err)
				}
			}
		}
		if key.Open(nil, M, W) == nil || key.Open(C, nil, W) == nil || key.Open(C, M, nil) == nil {
			x.Failf("indcpa/elgamal/open/nil", "%s: Open accepted a nil argument", id)
		}
		x.Observe(id, c1.String(), c2.String())
	}
}
