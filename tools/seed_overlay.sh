#!/bin/bash
# usage: tools/seed_overlay.sh <patch.diff> <name>
# Applies a patch in a throw-away worktree of /repo and prints a go build overlay (for VERIF_MUTANT_OVERLAY) that maps
# every changed file of /repo to its patched copy under /root/scratch/seedov/<name>/. /repo itself is not touched, so
# this can run while other builds use /repo. (The registered way — git -C /repo apply; run checks; git checkout -- . —
# is equivalent for the compiler; use tools/run_seed.sh for that when nothing else is building.)
set -eu
patch=$(readlink -f "$1"); name=$2
d=/root/scratch/seedov/$name
rm -rf "$d"; mkdir -p "$d"
wt=/root/scratch/seedov/wt-$name
git -C /repo worktree remove --force "$wt" >/dev/null 2>&1 || true
git -C /repo worktree add --detach "$wt" HEAD >/dev/null 2>&1
( cd "$wt" && git apply "$patch" )
echo '{"Replace":{' > "$d/overlay.json"
first=1
for f in $(cd "$wt" && git status --porcelain | awk '{print $2}'); do
  case "$f" in *_test.go) continue;; esac
  out="$d/$(echo "$f" | tr '/' '_')"
  cp "$wt/$f" "$out"
  [ $first -eq 1 ] || echo ',' >> "$d/overlay.json"
  first=0
  printf '"%s":"%s"' "/repo/$f" "$out" >> "$d/overlay.json"
done
echo '}}' >> "$d/overlay.json"
git -C /repo worktree remove --force "$wt" >/dev/null 2>&1
echo "$d/overlay.json"
