#!/bin/bash
# usage: tools/run_seeds.sh <ID> [check-to-run=<ID>]   runs the check against every seeded change of <ID> (via build overlay)
# SEED_KS="4 5" restricts the run to those seed indices
id=$1; chk=${2:-$1}
for d in /verif/seeded/$id/*/; do
  k=$(basename $d)
  [ -n "${SEED_KS:-}" ] && ! echo " $SEED_KS " | grep -q " $k " && continue
  ov=$(/verif/tools/seed_overlay.sh $d/patch.diff ${id,,}-$k)
  VERIF_STOP_AFTER_FAIL=1 VERIF_MUTANT_OVERLAY=$ov VERIF_OUT_DIR=/root/scratch/mut/seed-$id-$k timeout 3600 /verif/check $chk quick > /root/scratch/seedrun_${id}_$k.log 2>&1
  rc=$?
  { echo "check=$chk rc=$rc ($( [ $rc = 1 ] && echo CAUGHT || echo "NOT CAUGHT (rc=$rc)"))"; grep -E "^--- viol|failing-key|HARNESS|BUILD" /root/scratch/seedrun_${id}_$k.log | cut -c1-300 | head -4; } > $d/check_result.txt
  echo "$id/$k: $(head -1 $d/check_result.txt)"
done
