package c17

import (
	"fmt"
	"math/big"

	"github.com/bronlabs/bron-crypto/pkg/base/ct"
	"github.com/bronlabs/bron-crypto/pkg/base/nt/numct"

	"verifmc/engine"
)

// signed shapes: sign of orig, magnitude truncated to cap
func intShapesOf(v *big.Int) []shape {
	abs := new(big.Int).Abs(v)
	l := abs.BitLen()
	out := []shape{{v, l, v, "exact"}, {v, l + 64, v, "+64"}}
	if engine.Thorough() {
		out = append(out, shape{v, l + 1, v, "+1"})
	}
	if l >= 2 {
		t := mod2k(abs, l-1)
		if t.Sign() != 0 { // a truncation to magnitude 0 with a negative sign is an artefact of the constructor, not an operand
			if v.Sign() < 0 {
				t.Neg(t)
			}
			out = append(out, shape{v, l - 1, t, "trunc"})
		}
	}
	return out
}

func mkInt(s shape) *numct.Int { return numct.NewIntFromBig(s.orig, s.cap) }

func junkInt() *numct.Int { return numct.NewIntFromBig(new(big.Int).Neg(junkBig), 107) }

var junkBigNeg = new(big.Int).Neg(junkBig)

// class keys name a whole defect class (one root cause); every symptom inside the class is reported under that key.
func isClassKey(k string) bool {
	switch k {
	case "int/add-sub/reused-output", "numct/divvartime/short-numerator", "numct/divvartime/alias":
		return true
	}
	return false
}

// chkInt compares value and sign predicate of a result.
func chkInt(x *engine.X, key string, desc func() string, got *numct.Int, want *big.Int) {
	if g := got.Big(); g.Cmp(want) != 0 {
		failf(x, key, "%s = %s, want %s", desc(), show(g), show(want))
		return
	}
	class := isClassKey(key)
	if neg := got.IsNegative() == ct.True; neg != (want.Sign() < 0) {
		k := key + "/sign"
		if want.Sign() == 0 {
			k = "int/negative-zero" // the result is 0 but reports IsNegative (sign bit set on a zero magnitude)
		}
		if class {
			k = key
		}
		failf(x, k, "%s: value %s but IsNegative() = %v", desc(), show(want), neg)
	}
	if got.TrueLen() > got.AnnouncedLen() {
		k := key + "/announced"
		if class {
			k = key
		}
		failf(x, k, "%s: TrueLen %d > AnnouncedLen %d", desc(), got.TrueLen(), got.AnnouncedLen())
	}
}

type intBinOp struct {
	name   string
	hasCap bool
	call   func(out, a, b *numct.Int, c int)
	exact  func(a, b *big.Int, acap, bcap int) (res *big.Int, defCap int)
	// bitwise ops only accept capacities >= the operands' (the operands are resized to it first)
	bitwise bool
}

func intBinOps() []intBinOp {
	add := func(a, b *big.Int, ac, bc int) (*big.Int, int) { return new(big.Int).Add(a, b), maxInt(ac, bc) + 1 }
	sub := func(a, b *big.Int, ac, bc int) (*big.Int, int) { return new(big.Int).Sub(a, b), maxInt(ac, bc) + 1 }
	mul := func(a, b *big.Int, ac, bc int) (*big.Int, int) { return new(big.Int).Mul(a, b), ac + bc }
	and := func(a, b *big.Int, ac, bc int) (*big.Int, int) { return new(big.Int).And(a, b), maxInt(ac, bc) }
	or := func(a, b *big.Int, ac, bc int) (*big.Int, int) { return new(big.Int).Or(a, b), maxInt(ac, bc) }
	xor := func(a, b *big.Int, ac, bc int) (*big.Int, int) { return new(big.Int).Xor(a, b), maxInt(ac, bc) }
	return []intBinOp{
		{"Add", false, func(o, a, b *numct.Int, c int) { o.Add(a, b) }, add, false},
		{"AddCap", true, func(o, a, b *numct.Int, c int) { o.AddCap(a, b, c) }, add, false},
		{"Sub", false, func(o, a, b *numct.Int, c int) { o.Sub(a, b) }, sub, false},
		{"SubCap", true, func(o, a, b *numct.Int, c int) { o.SubCap(a, b, c) }, sub, false},
		{"Mul", false, func(o, a, b *numct.Int, c int) { o.Mul(a, b) }, mul, false},
		{"MulCap", true, func(o, a, b *numct.Int, c int) { o.MulCap(a, b, c) }, mul, false},
		{"And", false, func(o, a, b *numct.Int, c int) { o.And(a, b) }, and, true},
		{"AndCap", true, func(o, a, b *numct.Int, c int) { o.AndCap(a, b, c) }, and, true},
		{"Or", false, func(o, a, b *numct.Int, c int) { o.Or(a, b) }, or, true},
		{"OrCap", true, func(o, a, b *numct.Int, c int) { o.OrCap(a, b, c) }, or, true},
		{"Xor", false, func(o, a, b *numct.Int, c int) { o.Xor(a, b) }, xor, true},
		{"XorCap", true, func(o, a, b *numct.Int, c int) { o.XorCap(a, b, c) }, xor, true},
		{"GCD", false, func(o, a, b *numct.Int, c int) { o.GCD(a, b) }, func(a, b *big.Int, ac, bc int) (*big.Int, int) {
			return new(big.Int).GCD(nil, nil, new(big.Int).Abs(a), new(big.Int).Abs(b)), maxInt(ac, bc)
		}, false},
	}
}

// output states / alias patterns of a signed three-address operation
var intAliasNames = []string{"out=fresh", "out=junk", "out=lhs", "out=rhs", "lhs=rhs,out=fresh", "out=lhs=rhs"}

func runIntBin(x *engine.X, op intBinOp, sa, sb shape, same bool) {
	exact, _ := op.exact(sa.val, sb.val, sa.cap, sb.cap)
	caps := []int{-1}
	if op.hasCap {
		// for signed numbers only capacities that hold the magnitude of the result are demanded (truncation of a
		// signed value is not documented)
		need := new(big.Int).Abs(exact).BitLen()
		if op.bitwise {
			need = maxInt(sa.cap, sb.cap)
		}
		caps = []int{-1, need, need + 1, need + 64}
	}
	addFamily := op.name == "Add" || op.name == "AddCap" || op.name == "Sub" || op.name == "SubCap"
	full := sa.kind == "exact" && sb.kind == "exact"
	for ci, c := range caps {
		for al := range intAliasNames {
			if al >= 4 && !same {
				continue
			}
			if !full && ci != 0 && al > 1 {
				continue
			}
			a, b := mkInt(sa), mkInt(sb)
			if al >= 4 {
				b = a
			}
			var out *numct.Int
			switch al {
			case 0, 4:
				out = new(numct.Int)
			case 1:
				out = junkInt()
			case 2, 5:
				out = a
			case 3:
				out = b
			}
			desc := func() string {
				return fmt.Sprintf("Int.%s(lhs=%v, rhs=%v, cap=%d, %s)", op.name, sa, sb, c, intAliasNames[al])
			}
			key := "int/" + op.name
			if addFamily && al != 0 && al != 4 {
				// saferith's signed addition builds its scratch space from the receiver's old limbs without clearing them
				key = "int/add-sub/reused-output"
			}
			x.Case("")
			if !guard(x, key, desc, func() { op.call(out, a, b, c) }) {
				continue
			}
			chkInt(x, key, desc, out, exact)
			mkey := "int/" + op.name + "/mutated-input"
			if c >= 0 && (c < sa.cap || c < sb.cap) {
				mkey = "numct/truncating-cap/mutated-input"
			}
			if out != a && a.Big().Cmp(sa.val) != 0 {
				failf(x, mkey, "%s: lhs changed to %s", desc(), show(a.Big()))
			}
			if out != b && b.Big().Cmp(sb.val) != 0 {
				failf(x, mkey, "%s: rhs changed to %s", desc(), show(b.Big()))
			}
		}
	}
}

// division family
//
//	EuclideanDiv / EuclideanDivVarTime: floor-style Euclidean division, remainder a Nat in [0,|d|)
//	Div / DivVarTime: truncated division, remainder an Int with the sign of the numerator
func runIntDiv(x *engine.X, which int, sn, sd shape, same bool) {
	names := []string{"EuclideanDiv", "EuclideanDivVarTime", "Div", "DivVarTime"}
	name := names[which]
	euclid := which < 2
	aliases := []string{"distinct", "r=nil", "q=n", "q=d", "n=d"}
	if !euclid {
		aliases = append(aliases, "r=n", "r=d", "q=n,r=d", "q=d,r=n")
	}
	full := sn.kind == "exact" && sd.kind == "exact"
	for al, alName := range aliases {
		if alName == "n=d" && !same {
			continue
		}
		if !full && al > 1 {
			continue
		}
		n, d := mkInt(sn), mkInt(sd)
		if alName == "n=d" {
			d = n
		}
		q := junkInt()
		rN := junkNat()
		rI := junkInt()
		switch alName {
		case "r=nil":
			rN, rI = nil, nil
		case "q=n":
			q = n
		case "q=d":
			q = d
		case "r=n":
			rI = n
		case "r=d":
			rI = d
		case "q=n,r=d":
			q, rI = n, d
		case "q=d,r=n":
			q, rI = d, n
		}
		desc := func() string { return fmt.Sprintf("Int.%s(n=%v, d=%v, alias=%s)", name, sn, sd, alName) }
		key := "int/" + name
		aliased := al >= 2 && alName != "n=d"
		sfx := func(s string) string { return key + s }
		switch {
		case which%2 == 1 && sn.cap+2 <= new(big.Int).Abs(sd.val).BitLen():
			key = "numct/divvartime/short-numerator" // numerator capacity + 2 <= divisor length
			sfx = func(string) string { return key }
		case which%2 == 1 && aliased:
			key = "numct/divvartime/alias"
			sfx = func(string) string { return key }
		case aliased:
			key += "/alias"
		}
		x.Case("")
		var ok ct.Bool
		if !guardKey(x, sfx("/panic"), desc, func() {
			switch which {
			case 0:
				ok = q.EuclideanDiv(rN, n, d)
			case 1:
				ok = q.EuclideanDivVarTime(rN, n, d)
			case 2:
				ok = q.Div(rI, n, d)
			case 3:
				ok = q.DivVarTime(rI, n, d)
			}
		}) {
			continue
		}
		if sd.val.Sign() == 0 {
			if ok != ct.False {
				failf(x, sfx("/div-by-zero"), "%s reported ok for a zero divisor", desc())
			}
			continue
		}
		if ok != ct.True {
			failf(x, key, "%s reported failure for a non-zero divisor", desc())
			continue
		}
		var wq, wr *big.Int
		if euclid {
			wq, wr = new(big.Int).DivMod(sn.val, sd.val, new(big.Int))
		} else {
			wq, wr = new(big.Int).QuoRem(sn.val, sd.val, new(big.Int))
		}
		chkInt(x, key, func() string { return desc() + " quotient" }, q, wq)
		if euclid && rN != nil {
			if got := rN.Big(); got.Cmp(wr) != 0 {
				failf(x, key, "%s: remainder %s, want %s", desc(), show(got), show(wr))
			}
		}
		if !euclid && rI != nil {
			chkInt(x, key, func() string { return desc() + " remainder" }, rI, wr)
		}
		if q != n && rI != n && n.Big().Cmp(sn.val) != 0 {
			failf(x, sfx("/mutated-input"), "%s: numerator changed to %s", desc(), show(n.Big()))
		}
		if q != d && rI != d && d != n && d.Big().Cmp(sd.val) != 0 {
			failf(x, sfx("/mutated-input"), "%s: divisor changed to %s", desc(), show(d.Big()))
		}
	}
}

func runIntCmp(x *engine.X, sa, sb shape, same bool) {
	a, b := mkInt(sa), mkInt(sb)
	if same {
		b = a
	}
	desc := func() string { return fmt.Sprintf("Int(%v) vs Int(%v) same-object=%v", sa, sb, same) }
	x.Case("")
	guard(x, "int/compare", desc, func() {
		lt, eq, gt := a.Compare(b)
		c := sa.val.Cmp(sb.val)
		if lt != boolTo(c < 0) || eq != boolTo(c == 0) || gt != boolTo(c > 0) {
			failf(x, "int/compare", "%s: Compare = (%d,%d,%d), want cmp %d", desc(), lt, eq, gt, c)
		}
		if a.Equal(b) != boolTo(c == 0) {
			failf(x, "int/equal", "%s: Equal = %d", desc(), a.Equal(b))
		}
		g := new(big.Int).GCD(nil, nil, new(big.Int).Abs(sa.val), new(big.Int).Abs(sb.val))
		if got := a.Coprime(b); got != boolTo(g.Cmp(bi(1)) == 0) {
			failf(x, "int/coprime", "%s: Coprime = %d but gcd = %s", desc(), got, show(g))
		}
	})
}

func intBinaryBody() func(*engine.X) {
	V := intV()
	bin := intBinOps()
	nOps := len(bin) + 4 + 1
	return func(x *engine.X) {
		oi := x.Choose("op", nOps)
		ai := x.Choose("a", len(V))
		name := ""
		for _, sa := range intShapesOf(V[ai]) {
			for bi2, bv := range V {
				for _, sb := range intShapesOf(bv) {
					same := bi2 == ai && sa.kind == sb.kind
					switch {
					case oi < len(bin):
						name = bin[oi].name
						runIntBin(x, bin[oi], sa, sb, same)
					case oi < len(bin)+4:
						name = fmt.Sprint("div", oi-len(bin))
						runIntDiv(x, oi-len(bin), sa, sb, same)
					default:
						name = "compare"
						runIntCmp(x, sa, sb, false)
						if same {
							runIntCmp(x, sa, sb, true)
						}
					}
				}
			}
		}
		x.Observe(name, V[ai].BitLen(), V[ai].Sign())
	}
}

// twosComplement returns the n-byte big-endian two's-complement encoding of v (n*8 bits must hold it).
func twosComplement(v *big.Int, nbytes int) []byte {
	m := new(big.Int).Mod(v, pow2(8*nbytes))
	return m.FillBytes(make([]byte, nbytes))
}

func fromTwos(b []byte) *big.Int {
	v := new(big.Int).SetBytes(b)
	if len(b) > 0 && b[0]&0x80 != 0 {
		v.Sub(v, pow2(8*len(b)))
	}
	return v
}

func intUnaryBody() func(*engine.X) {
	V := natV()
	var vals []*big.Int
	for _, v := range V {
		sq := new(big.Int).Mul(v, v)
		vals = append(vals, v, sq, new(big.Int).Add(sq, bi(1)))
	}
	vals = signed(dedupSort(vals))
	return func(x *engine.X) {
		v := vals[x.Choose("v", len(vals))]
		for _, s := range intShapesOf(v) {
			intUnaryOne(x, s)
		}
		x.Observe(v.BitLen(), v.Sign())
	}
}

func intUnaryOne(x *engine.X, s shape) {
	v := s.val
	abs := new(big.Int).Abs(v)
	d := func(op string) func() string { return func() string { return fmt.Sprintf("Int.%s(%v)", op, s) } }
	ci := func(op string, got *numct.Int, want *big.Int) {
		x.Case("")
		chkInt(x, "int/"+baseName(op), d(op), got, want)
	}
	cn := func(op string, got, want *big.Int) {
		x.Case("")
		if got.Cmp(want) != 0 {
			failf(x, "int/"+baseName(op), "Int.%s(%v) = %s, want %s", op, s, show(got), show(want))
		}
	}
	cb := func(op string, got ct.Bool, want bool) {
		x.Case("")
		if got != boolTo(want) {
			failf(x, "int/"+baseName(op), "Int.%s(%v) = %d, want %v", op, s, got, want)
		}
	}
	guard(x, "int/construct", d("NewIntFromBig"), func() {
		n := mkInt(s)
		ci("NewIntFromBig", n, v)
		ci("Clone", n.Clone(), v)
		o := junkInt()
		o.Set(n)
		ci("Set", o, v)
		cb("IsNegative", n.IsNegative(), v.Sign() < 0)
		cb("IsZero", n.IsZero(), v.Sign() == 0)
		cb("IsNonZero", n.IsNonZero(), v.Sign() != 0)
		cb("IsOne", n.IsOne(), v.Cmp(bi(1)) == 0)
		cb("IsOdd", n.IsOdd(), v.Bit(0) == 1)
		cb("IsEven", n.IsEven(), v.Bit(0) == 0)
		cb("IsUnit", n.IsUnit(), abs.Cmp(bi(1)) == 0)
		cb("IsProbablyPrime", n.IsProbablyPrime(), v.Sign() > 0 && isPrime(v))
		x.Case("")
		if n.TrueLen() != abs.BitLen() {
			failf(x, "int/truelen", "Int(%v).TrueLen() = %d, want %d", s, n.TrueLen(), abs.BitLen())
		}
		var na numct.Nat
		na.Abs(n)
		cn("Nat.Abs", na.Big(), abs)
		if v.Sign() >= 0 {
			var i2 numct.Int
			i2.SetNat(&na)
			ci("SetNat", &i2, v)
		}
		if abs.BitLen() <= 63 {
			x.Case("")
			if n.Int64() != v.Int64() {
				failf(x, "int/int64", "Int(%v).Int64() = %d", s, n.Int64())
			}
			ci("NewInt", numct.NewInt(v.Int64()), v)
		}
		if s.cap <= 64 {
			x.Case("")
			if n.Uint64() != abs.Uint64() {
				failf(x, "int/uint64", "Int(%v).Uint64() = %d", s, n.Uint64())
			}
		}
	})
	guard(x, "int/abs-neg", d("Abs/Neg"), func() {
		n, o := mkInt(s), junkInt()
		o.Abs(n)
		ci("Abs", o, abs)
		n.Abs(n)
		ci("Abs/alias", n, abs)
		n, o = mkInt(s), junkInt()
		o.Neg(n)
		ci("Neg", o, new(big.Int).Neg(v))
		n.Neg(n)
		ci("Neg/alias", n, new(big.Int).Neg(v))
		for _, c := range []ct.Choice{0, 1} {
			n = mkInt(s)
			n.CondNeg(c)
			w := v
			if c == 1 {
				w = new(big.Int).Neg(v)
			}
			ci(fmt.Sprintf("CondNeg(%d)", c), n, w)
		}
	})
	guard(x, "int/arith1", d("Double/Square/Increment/Decrement"), func() {
		n, o := mkInt(s), new(numct.Int)
		o.Double(n)
		ci("Double", o, new(big.Int).Lsh(v, 1))
		o = junkInt()
		o.Double(n) // Double is Add(x, x): same reused-output class
		x.Case("")
		chkInt(x, "int/add-sub/reused-output", d("Double(out=junk)"), o, new(big.Int).Lsh(v, 1))
		n.Double(n)
		ci("Double/alias", n, new(big.Int).Lsh(v, 1))
		n, o = mkInt(s), junkInt()
		o.Square(n)
		ci("Square", o, new(big.Int).Mul(v, v))
		n.Square(n)
		ci("Square/alias", n, new(big.Int).Mul(v, v))
		n = mkInt(s)
		n.Increment()
		ci("Increment", n, new(big.Int).Add(v, bi(1)))
		n = mkInt(s)
		n.Decrement()
		ci("Decrement", n, new(big.Int).Sub(v, bi(1)))
	})
	guard(x, "int/inv", d("Inv"), func() {
		n, o := mkInt(s), junkInt()
		ok := o.Inv(n)
		cb("Inv/ok", ok, abs.Cmp(bi(1)) == 0)
		if ok == ct.True {
			ci("Inv", o, v)
		}
	})
	guard(x, "int/sqrt", d("Sqrt"), func() {
		n, o := mkInt(s), junkInt()
		ok := o.Sqrt(n)
		perfect := false
		var r *big.Int
		if v.Sign() >= 0 {
			r = new(big.Int).Sqrt(v)
			perfect = new(big.Int).Mul(r, r).Cmp(v) == 0
		}
		cb("Sqrt/ok", ok, perfect)
		if perfect {
			ci("Sqrt", o, r)
		} else {
			ci("Sqrt/unchanged", o, junkBigNeg)
		}
	})
	// sign-magnitude bytes round trip
	guard(x, "int/bytes", d("Bytes"), func() {
		n := mkInt(s)
		bs := n.Bytes()
		x.Case("")
		wantSign := byte(0)
		if v.Sign() < 0 {
			wantSign = 1
		}
		if len(bs) == 0 || bs[0] != wantSign || new(big.Int).SetBytes(bs[1:]).Cmp(abs) != 0 {
			failf(x, "int/bytes", "Int(%v).Bytes() = %x", s, bs)
		}
		o := junkInt()
		cb("SetBytes/ok", o.SetBytes(bs), true)
		ci("SetBytes", o, v)
		ci("NewIntFromBytes", numct.NewIntFromBytes(bs), v)
		cb("SetBytes/empty", junkInt().SetBytes(nil), false)
	})
	// two's complement round trip
	guard(x, "int/twos", d("TwosComplementBytesBE"), func() {
		n := mkInt(s)
		bs := n.TwosComplementBytesBE()
		x.Case("")
		if fromTwos(bs).Cmp(v) != 0 {
			failf(x, "int/twos/encode", "Int(%v).TwosComplementBytesBE() = %x which decodes to %s", s, bs, show(fromTwos(bs)))
		}
		// decode: minimal and padded encodings
		min := (abs.BitLen() + 1 + 7) / 8
		if min == 0 {
			min = 1
		}
		for _, nb := range []int{min, min + 1, min + 9} {
			enc := twosComplement(v, nb)
			if fromTwos(enc).Cmp(v) != 0 {
				continue // v = -2^(8nb-1) boundary handled by the minimal width below
			}
			o := junkInt()
			ok := o.SetTwosComplementBytesBE(enc)
			cb("SetTwosComplementBytesBE/ok", ok, true)
			ci(fmt.Sprintf("SetTwosComplementBytesBE(%d bytes)", nb), o, v)
		}
		cb("SetTwosComplementBytesBE/empty", junkInt().SetTwosComplementBytesBE(nil), false)
	})
	// shifts: magnitude shift, sign preserved (quotient by 2^s rounded toward zero for Rsh)
	for _, sh := range []uint{0, 1, 7, 8, 63, 64, 65, uint(abs.BitLen()), uint(s.cap), uint(s.cap + 1)} {
		guard(x, "int/lsh", d(fmt.Sprintf("Lsh(%d)", sh)), func() {
			n, o := mkInt(s), junkInt()
			o.Lsh(n, sh)
			ci(fmt.Sprintf("Lsh(%d)", sh), o, new(big.Int).Lsh(v, sh))
			n.Lsh(n, sh)
			ci(fmt.Sprintf("Lsh/alias(%d)", sh), n, new(big.Int).Lsh(v, sh))
		})
		guard(x, "int/rsh", d(fmt.Sprintf("Rsh(%d)", sh)), func() {
			n, o := mkInt(s), junkInt()
			o.Rsh(n, sh)
			w := new(big.Int).Rsh(abs, sh)
			if v.Sign() < 0 {
				w.Neg(w)
			}
			ci(fmt.Sprintf("Rsh(%d)", sh), o, w)
			n.Rsh(n, sh)
			ci(fmt.Sprintf("Rsh/alias(%d)", sh), n, w)
		})
	}
	// Not = -(v+1)
	guard(x, "int/not", d("Not"), func() {
		n, o := mkInt(s), junkInt()
		o.Not(n)
		ci("Not", o, new(big.Int).Not(v))
		n.Not(n)
		ci("Not/alias", n, new(big.Int).Not(v))
		for _, c := range []int{-1, s.cap, s.cap + 1, s.cap + 64} {
			n, o = mkInt(s), junkInt()
			o.NotCap(n, c)
			ci(fmt.Sprintf("NotCap(%d)", c), o, new(big.Int).Not(v))
		}
	})
	guard(x, "int/select", d("Select"), func() {
		for _, choice := range []ct.Choice{0, 1} {
			n, o := mkInt(s), junkInt()
			o.CondAssign(choice, n)
			w := junkBigNeg
			if choice == 1 {
				w = v
			}
			ci(fmt.Sprintf("CondAssign(%d)", choice), o, w)
			o2 := new(numct.Int)
			o2.Select(choice, junkInt(), n)
			ci(fmt.Sprintf("Select(%d)", choice), o2, w)
		}
		for _, c := range []int{-1, abs.BitLen(), abs.BitLen() + 1, s.cap + 64} {
			n := mkInt(s)
			n.Resize(c)
			ci(fmt.Sprintf("Resize(%d)", c), n, v)
		}
	})
}
