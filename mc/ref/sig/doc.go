// Package sig holds independent ("boring", math/big) verifiers for the signature schemes of bron-crypto. It does not
// import bron-crypto: every function works on reference points of verifmc/ref/curve, big.Int scalars and byte strings.
// Callers convert library values with verifmc/ref/curve/libcurve (ToRef / ScalarToBig) and pass digests / messages.
//
// # ECDSA (SEC 1 v2.0 section 4.1, FIPS 186-5 section 6.4) over any prime-field Weierstrass curve of ref/curve
//
//	z  := sig.DigestToInt(c, digest)                       // bits2int: leftmost min(8*len, bitlen(n)) bits, then mod n
//	ok := sig.ECDSAVerify(c, pk, digest, r, s)              // plain (r,s) verification, either s form is accepted
//	Q, ok := sig.ECDSARecover(c, digest, r, s, v)           // SEC 1 4.1.6 with Bitcoin recovery id v in 0..3
//	ok := sig.ECDSAVerifyV(c, pk, digest, r, s, v)          // v == nil: ECDSAVerify; else additionally Recover(...,*v) == pk
//	ok := sig.ECDSAVerifyStrict(c, pk, digest, r, s, v)     // ECDSAVerifyV && s <= n/2 (BIP-62 low-S)
//	sig.IsLowS(c, s); sig.NegS(c, s)                        // s <= n-s ; n-s
//	r, s, v, ok := sig.ECDSASign(c, d, k, digest)           // textbook signing with an explicit nonce (for building cases)
//
// # BIP-340 (Schnorr for secp256k1), written from the BIP text, byte-level API
//
//	h  := sig.TaggedHash("BIP0340/challenge", parts...)     // SHA256(SHA256(tag)||SHA256(tag)||parts...)
//	ok := sig.BIP340Verify(pk32, msg, sig64)                // the "Verification" algorithm (lift_x, r<p, s<n, even y)
//	sg, ok := sig.BIP340Sign(sk32, msg, aux32)              // the "Default Signing" algorithm
//	pk32, ok := sig.BIP340PubKey(sk32)                      // bytes(d'G)
//	P, ok := sig.BIP340LiftX(x)                             // lift_x
//
// # Configurable / generic Schnorr (the library's schnorrlike "vanilla" scheme and Mina's equation)
//
// The library computes e = H(bytes(R) || bytes(P) || m), optionally reverses the digest (its
// "challengeElementsAreLittleEndian" flag), reduces it mod q as a big-endian integer, and accepts iff
// s*G == R + e*P (or R - e*P for the negative response operator), after requiring P != O, R != O, s != 0 and R in the
// prime-order subgroup. bytes() is the curve's compressed point encoding. The reference is parameterised the same way:
//
//	g   := sig.K256Group() | sig.P256Group() | sig.PallasGroup() | sig.VestaGroup() | sig.Ed25519Group()
//	cfg := sig.SchnorrConfig{Hash: sha256.New, LittleEndian: true, NegResponse: false}
//	e   := sig.SchnorrChallenge(g, cfg, R, P, msg)
//	ok  := sig.SchnorrVerify(g, cfg, P, R, s, msg)          // recomputes e, checks the group equation in ref/curve
//	ok  := sig.SchnorrVerifyWithChallenge(g, cfg.NegResponse, P, R, s, e) // equation only (e.g. Mina: e from Poseidon)
//	R,s := sig.SchnorrSign(g, cfg, x, k, msg)               // textbook signing with an explicit nonce
//
// SchnorrGroup[P] is a small interface (Order, Generator, Add, Neg, Mul, Equal, IsIdentity, InSubgroup, Encode); the
// five constructors above bind it to ref/curve with the encodings SEC 1 compressed (k256, p256), zcash/pasta
// little-endian x with the sign of y in the top bit (pallas, vesta) and RFC 8032 (edwards25519).
//
// # BLS "by definition" (no reference pairing)
//
// For a secret key sk and the hash-to-curve point H(m) (taken from the library; hash-to-curve itself is C19's subject)
// a signature is valid iff sigma == [sk]*H(m); an aggregate is valid iff sigma == sum_i [sk_i]*H(m_i). When every
// public key in play has a known discrete logarithm, this decides accept/reject of the pairing equation exactly:
//
//	want := sig.BLSSign(c, sk, hm)                          // [sk]*hm on a ref/curve WCurve (G1 or G2)
//	want := sig.BLSAggregate(c, sks, hms)                   // sum [sk_i]*hm_i
//	ok   := sig.BLSIsValid(c, sks, hms, sigma)              // sigma != O, in the r-torsion subgroup, == BLSAggregate
//	ok   := sig.BLSEquals(c, sks, hms, sigma)               // the equation only (membership known by construction)
//	pk   := sig.BLSPublicKey(c, sk)                         // [sk]*G
package sig
