package c03

import (
	"math/big"

	"github.com/bronlabs/bron-crypto/pkg/base/algebra"
	"github.com/bronlabs/bron-crypto/pkg/base/curves/edwards25519"
	"github.com/bronlabs/bron-crypto/pkg/base/curves/k256"
	"github.com/bronlabs/bron-crypto/pkg/base/curves/p256"
	"github.com/bronlabs/bron-crypto/pkg/base/curves/pairable/bls12381"
	"github.com/bronlabs/bron-crypto/pkg/base/curves/pasta"

	"verifmc/engine"
	"verifmc/ref/curve"
	"verifmc/ref/curve/libcurve"
)

// grp couples one library prime-order group with its math/big reference model. The two closures are the only
// place where group elements are interpreted: they convert library points through their public affine coordinates
// and do all arithmetic in verifmc/ref/curve.
type grp[E algebra.PrimeGroupElement[E, S], S algebra.PrimeFieldElement[S]] struct {
	name  string
	group algebra.PrimeGroup[E, S]
	q     *big.Int // order of the group = modulus of the scalar field (from the reference curve parameters)
	// baseMulEq: reference [k]G == library point p
	baseMulEq func(k *big.Int, p E) (bool, error)
	// msmEq: reference Σ ks[i]·ref(ps[i]) == library point p
	msmEq func(ks []*big.Int, ps []E, p E) (bool, error)
}

// group-independent handle used by the section bodies
type anyGroup interface {
	Name() string
	exec(x *engine.X, c cfg)
}

func (g grp[E, S]) Name() string { return g.name }

func weierstrass[P interface {
	curve.LibAffine[F]
	algebra.PrimeGroupElement[P, S]
}, F curve.Byteser, S algebra.PrimeFieldElement[S]](name string, group algebra.PrimeGroup[P, S], a libcurve.Weierstrass[P, F]) grp[P, S] {
	return grp[P, S]{name: name, group: group, q: a.Ref.Q,
		baseMulEq: func(k *big.Int, p P) (bool, error) {
			r, err := a.TryToRef(p)
			if err != nil {
				return false, err
			}
			return a.Ref.Equal(a.Ref.ScalarBaseMul(k), r), nil
		},
		msmEq: func(ks []*big.Int, ps []P, p P) (bool, error) {
			rp := make([]curve.FpPoint, len(ps))
			for i := range ps {
				r, err := a.TryToRef(ps[i])
				if err != nil {
					return false, err
				}
				rp[i] = r
			}
			r, err := a.TryToRef(p)
			if err != nil {
				return false, err
			}
			return a.Ref.Equal(a.Ref.MultiScalarMul(ks, rp), r), nil
		}}
}

func weierstrassFp2[P interface {
	curve.LibAffine[F]
	algebra.PrimeGroupElement[P, S]
}, F curve.Byteser, S algebra.PrimeFieldElement[S]](name string, group algebra.PrimeGroup[P, S], a libcurve.WeierstrassFp2[P, F]) grp[P, S] {
	return grp[P, S]{name: name, group: group, q: a.Ref.Q,
		baseMulEq: func(k *big.Int, p P) (bool, error) {
			r, err := a.TryToRef(p)
			if err != nil {
				return false, err
			}
			return a.Ref.Equal(a.Ref.ScalarBaseMul(k), r), nil
		},
		msmEq: func(ks []*big.Int, ps []P, p P) (bool, error) {
			rp := make([]curve.Fp2Point, len(ps))
			for i := range ps {
				r, err := a.TryToRef(ps[i])
				if err != nil {
					return false, err
				}
				rp[i] = r
			}
			r, err := a.TryToRef(p)
			if err != nil {
				return false, err
			}
			return a.Ref.Equal(a.Ref.MultiScalarMul(ks, rp), r), nil
		}}
}

func edwards[P interface {
	curve.LibAffine[F]
	algebra.PrimeGroupElement[P, S]
}, F curve.Byteser, S algebra.PrimeFieldElement[S]](name string, group algebra.PrimeGroup[P, S], a libcurve.Edwards[P, F]) grp[P, S] {
	return grp[P, S]{name: name, group: group, q: a.Ref.Q,
		baseMulEq: func(k *big.Int, p P) (bool, error) {
			r, err := a.TryToRef(p)
			if err != nil {
				return false, err
			}
			return a.Ref.Equal(a.Ref.ScalarBaseMul(k), r), nil
		},
		msmEq: func(ks []*big.Int, ps []P, p P) (bool, error) {
			rp := make([]curve.EPoint, len(ps))
			for i := range ps {
				r, err := a.TryToRef(ps[i])
				if err != nil {
					return false, err
				}
				rp[i] = r
			}
			r, err := a.TryToRef(p)
			if err != nil {
				return false, err
			}
			return a.Ref.Equal(a.Ref.MultiScalarMul(ks, rp), r), nil
		}}
}

var (
	gK256  = weierstrass("k256", k256.NewCurve(), libcurve.K256())
	gP256  = weierstrass("p256", p256.NewCurve(), libcurve.P256())
	gEd    = edwards("edwards25519-prime", edwards25519.NewPrimeSubGroup(), libcurve.Edwards25519Prime())
	gPal   = weierstrass("pallas", pasta.NewPallasCurve(), libcurve.Pallas())
	gVes   = weierstrass("vesta", pasta.NewVestaCurve(), libcurve.Vesta())
	gBLSG1 = weierstrass("bls12381-g1", bls12381.NewG1(), libcurve.BLS12381G1())
	gBLSG2 = weierstrassFp2("bls12381-g2", bls12381.NewG2(), libcurve.BLS12381G2())

	allGroups = []anyGroup{gK256, gP256, gEd, gPal, gVes, gBLSG1, gBLSG2}
)
