package c12

import (
	"github.com/bronlabs/bron-crypto/pkg/base/algebra"
	"github.com/bronlabs/bron-crypto/pkg/base/curves/curve25519"
	"github.com/bronlabs/bron-crypto/pkg/base/curves/edwards25519"
	"github.com/bronlabs/bron-crypto/pkg/base/curves/k256"
	"github.com/bronlabs/bron-crypto/pkg/base/curves/p256"
	"github.com/bronlabs/bron-crypto/pkg/base/curves/pairable/bls12381"
	"github.com/bronlabs/bron-crypto/pkg/base/curves/pasta"
)

// field elements: alphabet {0, 1, 2, p-1, p-2, one pseudo-random element}; validity = Field.FromBytes(v.Bytes()) equals v.
func addField[F algebra.FiniteFieldElement[F]](name, covers string, field algebra.FiniteField[F]) {
	add(spec[F]{
		name: name, covers: covers, group: "curves",
		gen: func() []nv[F] {
			one := field.One()
			two := one.Add(one)
			return []nv[F]{
				{"0", field.Zero()}, {"1", one}, {"2", two}, {"-1", one.Neg()}, {"-2", two.Neg()},
				{"rnd", must(field.Random(stream("field/" + name)))},
			}
		},
		eq: func(a, b F) bool { return a.Equal(b) },
		valid: func(v F) (F, error) { return field.FromBytes(v.Bytes()) },
	})
}


// points: alphabet {identity, G, 2G, -G, [r]G}; validity = the curve's own decoder applied to the point's own encoding.
func addPoint[P interface {
	algebra.AdditiveGroupElement[P]
	Equal(P) bool
}](name, covers string, gen func() (g, id P), extra []nv[P], redecode func(P) (P, error)) {
	add(spec[P]{
		name: name, covers: covers, group: "curves",
		gen: func() []nv[P] {
			g, id := gen()
			out := []nv[P]{{"identity", id}, {"G", g}, {"2G", g.Add(g)}, {"-G", g.Neg()}, {"5G", g.Add(g).Add(g).Add(g).Add(g)}}
			return append(out, extra...)
		},
		eq:    func(a, b P) bool { return a.Equal(b) },
		valid: redecode,
	})
}

func registerCurves() {
	const cv = "pkg/base/curves/"
	addField[*k256.BaseFieldElement]("k256.BaseFieldElement", cv+"k256.BaseFieldElement", k256.NewBaseField())
	addField[*k256.Scalar]("k256.Scalar", cv+"k256.Scalar", k256.NewScalarField())
	addField[*p256.BaseFieldElement]("p256.BaseFieldElement", cv+"p256.BaseFieldElement", p256.NewBaseField())
	addField[*p256.Scalar]("p256.Scalar", cv+"p256.Scalar", p256.NewScalarField())
	addField[*edwards25519.BaseFieldElement]("edwards25519.BaseFieldElement", cv+"edwards25519.BaseFieldElement", edwards25519.NewBaseField())
	addField[*edwards25519.Scalar]("edwards25519.Scalar", cv+"edwards25519.Scalar", edwards25519.NewScalarField())
	addField[*pasta.FpFieldElement]("pasta.FpFieldElement", cv+"pasta.FpFieldElement", pasta.NewPallasBaseField())
	addField[*pasta.FqFieldElement]("pasta.FqFieldElement", cv+"pasta.FqFieldElement", pasta.NewVestaBaseField())
	addField[*bls12381.BaseFieldElementG1]("bls12381.BaseFieldElementG1", cv+"pairable/bls12381.BaseFieldElementG1", bls12381.NewG1BaseField())
	addField[*bls12381.BaseFieldElementG2]("bls12381.BaseFieldElementG2", cv+"pairable/bls12381.BaseFieldElementG2", bls12381.NewG2BaseField())
	addField[*bls12381.Scalar]("bls12381.Scalar", cv+"pairable/bls12381.Scalar", bls12381.NewScalarField())

	addPoint[*k256.Point]("k256.Point", cv+"k256.Point", func() (g, id *k256.Point) { c := k256.NewCurve(); return c.Generator(), c.OpIdentity() }, nil, func(p *k256.Point) (*k256.Point, error) { return k256.NewCurve().FromCompressed(p.ToCompressed()) })
	addPoint[*p256.Point]("p256.Point", cv+"p256.Point", func() (g, id *p256.Point) { c := p256.NewCurve(); return c.Generator(), c.OpIdentity() }, nil, func(p *p256.Point) (*p256.Point, error) { return p256.NewCurve().FromCompressed(p.ToCompressed()) })
	addPoint[*pasta.PallasPoint]("pasta.PallasPoint", cv+"pasta.PallasPoint", func() (g, id *pasta.PallasPoint) { c := pasta.NewPallasCurve(); return c.Generator(), c.OpIdentity() }, nil, func(p *pasta.PallasPoint) (*pasta.PallasPoint, error) {
		return pasta.NewPallasCurve().FromCompressed(p.ToCompressed())
	})
	addPoint[*pasta.VestaPoint]("pasta.VestaPoint", cv+"pasta.VestaPoint", func() (g, id *pasta.VestaPoint) { c := pasta.NewVestaCurve(); return c.Generator(), c.OpIdentity() }, nil, func(p *pasta.VestaPoint) (*pasta.VestaPoint, error) {
		return pasta.NewVestaCurve().FromCompressed(p.ToCompressed())
	})
	addPoint[*bls12381.PointG1]("bls12381.PointG1", cv+"pairable/bls12381.PointG1", func() (g, id *bls12381.PointG1) { c := bls12381.NewG1(); return c.Generator(), c.OpIdentity() }, nil, func(p *bls12381.PointG1) (*bls12381.PointG1, error) {
		return bls12381.NewG1().FromCompressed(p.ToCompressed())
	})
	addPoint[*bls12381.PointG2]("bls12381.PointG2", cv+"pairable/bls12381.PointG2", func() (g, id *bls12381.PointG2) { c := bls12381.NewG2(); return c.Generator(), c.OpIdentity() }, nil, func(p *bls12381.PointG2) (*bls12381.PointG2, error) {
		return bls12381.NewG2().FromCompressed(p.ToCompressed())
	})
	// full edwards25519 / curve25519 groups (cofactor 8): additionally a point of order 8·l (G + torsion) when the library offers one
	addPoint[*edwards25519.Point]("edwards25519.Point", cv+"edwards25519.Point", func() (g, id *edwards25519.Point) { c := edwards25519.NewCurve(); return c.PrimeSubGroupGenerator(), c.OpIdentity() }, nil, func(p *edwards25519.Point) (*edwards25519.Point, error) {
		return edwards25519.NewCurve().FromCompressed(p.ToCompressed())
	})
	addPoint[*edwards25519.PrimeSubGroupPoint]("edwards25519.PrimeSubGroupPoint", cv+"edwards25519.PrimeSubGroupPoint", func() (g, id *edwards25519.PrimeSubGroupPoint) { c := edwards25519.NewPrimeSubGroup(); return c.Generator(), c.OpIdentity() }, nil, func(p *edwards25519.PrimeSubGroupPoint) (*edwards25519.PrimeSubGroupPoint, error) {
		return edwards25519.NewPrimeSubGroup().FromCompressed(p.ToCompressed())
	})
	addPoint[*curve25519.Point]("curve25519.Point", cv+"curve25519.Point", func() (g, id *curve25519.Point) { c := curve25519.NewCurve(); return c.PrimeSubGroupGenerator(), c.OpIdentity() }, nil, func(p *curve25519.Point) (*curve25519.Point, error) {
		return curve25519.NewCurve().FromUncompressed(p.ToUncompressed())
	})
	addPoint[*curve25519.PrimeSubGroupPoint]("curve25519.PrimeSubGroupPoint", cv+"curve25519.PrimeSubGroupPoint", func() (g, id *curve25519.PrimeSubGroupPoint) { c := curve25519.NewPrimeSubGroup(); return c.Generator(), c.OpIdentity() }, nil, func(p *curve25519.PrimeSubGroupPoint) (*curve25519.PrimeSubGroupPoint, error) {
		return curve25519.NewPrimeSubGroup().FromUncompressed(p.ToUncompressed())
	})
}
