// C01 — threshold signing by a qualified quorum yields a publicly valid signature.
//
// Space: protocol (Lindell22 x Schnorr flavour, Boldyreva x key group x rogue-key mode, DKLs23 x multiplier,
// Lindell17, CGGMP21) x key generation x catalogue access structure x EVERY qualified quorum of >= 2 parties x
// identifier assignment x message alphabet x API (round-by-round / runner over real routers). The honest run is
// executed against the real library; the oracle is an independent verifier in ref/sig + ref/curve (crypto/ecdsa for
// P-256), signature equality across all holders, the library's own verifier, rejection for another message and
// refusal of unqualified party sets.
package c01

import (
	"os"
	"runtime"
	"strconv"
	"strings"
	"testing"
	"time"

	"verifmc/catalog"
	"verifmc/engine"
	"verifmc/proto"
)

func TestMain(m *testing.M) { engine.Main(m, "C01", "exploration") }

func only(name string) bool {
	o := os.Getenv("C01_ONLY")
	return o == "" || strings.Contains(name, o)
}

func sched(name string, q, t time.Duration) engine.Opts {
	return engine.Opts{Name: name, Serial: true, Procs: 16, CrashTrace: true, Engine: "SCHED", MaxFails: 100000, Budget: engine.Budget(q, t)}
}

func TestCheck(t *testing.T) {
	if os.Getenv("VERIF_CHILD") != "" {
		// worker process of a SCHED section: exactly one goroutine is runnable at any time under the cooperative
		// scheduler, so one P is enough and makes every hand-off a plain goroutine switch instead of an OS thread wake-up
		n := 1
		if v, err := strconv.Atoi(os.Getenv("C01_GOMAXPROCS")); err == nil && v > 0 {
			n = v
		}
		runtime.GOMAXPROCS(n)
	}
	engine.Rule("one execution = (protocol flavour, access structure, identifier assignment, key generation); inside it EVERY qualified quorum of >= 2 parties (minimal and non-minimal, from the reference truth table) x every message of the section's message list is one complete honest signing run (a counted case, keyed by flavour|structure|ids|keygen|quorum mask|message|api), followed by every unqualified party set of >= 2 parties (constructor refusal) and every unqualified sub-collection of the partial signatures (aggregator refusal). A case is non-trivial when the run produced a signature that went through the independent verifier.")
	engine.Assume(
		"independent verifiers: ref/sig BIP-340 (from the BIP text), generic Schnorr and ECDSA over ref/curve (math/big), crypto/ecdsa for P-256, BLS by definition sigma == [sk]*H(m) with sk reconstructed by ref/linalg from ALL dealt shares",
		"Mina: the Poseidon challenge e is taken from the library (Variant.ComputeChallenge); the reference checks the group equation on R = lift_even_y(R.x) as a Mina verifier would",
		"BLS: the hash-to-curve point H(m) is taken from the library (HashWithDst, C19's subject); domain separation tags are typed in from the IETF draft",
		"hierarchical policies whose identifier assignment violates the library's documented precondition (hierarchical.CheckConstraints: Tassa's field-size condition) and CNF policies with a party in every maximal unqualified set (no MSP row, no key share: C02/C03's finding cnf/dummy-party) are not signing configurations",
		"session contexts come from the documented constructor session.NewContext with deterministic seeds; quorums of one party are outside the domain (session.NewContext refuses them)",
		"one PRNG seed per run (engine.Seed), deterministic per-party streams; the library's internal errgroup fork-joins run sequentially (build overlay) so that runs are reproducible",
		"runner API: default schedule and FIFO delivery (other schedules are C11's subject)",
		"purego build; Paillier-based protocols use test-size keys admitted under testing.Testing(): 1024 bits (Lindell17), 2048 bits (CGGMP21)",
	)
	structs := cheapCatalogue(true)
	quickMsgs := func(kg proto.C01Keygen) []int {
		switch {
		case engine.Thorough() && kg == proto.C01Dealer:
			return []int{0, 1, 2, 3, 4}
		case engine.Thorough():
			return []int{1, 3}
		case kg == proto.C01Dealer:
			return []int{0, 4}
		}
		return []int{1}
	}
	if only("lindell22/rounds") {
		leaves := l22Leaves(structs, func(f string, s *structure, a catalog.IDAssignment, kg proto.C01Keygen) []int { return quickMsgs(kg) })
		engine.Explore(l22Body(apiRounds, leaves), engine.Opts{Name: "lindell22/rounds", MaxFails: 100000, Budget: engine.Budget(12*time.Minute, 90*time.Minute)})
	}
	if only("lindell22/runner") {
		crossed := map[string]bool{"thr(2,3)": true, "thr(3,4)": true, "cnf3{0|1|2}": true, "hier3[1:0 2:12]": true, "bool3:T1(T2(0,1),T2(0,2))": true}
		leaves := l22Leaves(structs, func(f string, s *structure, a catalog.IDAssignment, kg proto.C01Keygen) []int {
			switch {
			case engine.Thorough() && kg == proto.C01Dealer:
				return []int{0, 4}
			case engine.Thorough() && a.Name == "ord":
				return []int{2}
			case engine.Thorough():
				return nil
			case kg == proto.C01Dealer:
				return []int{1}
			case a.Name == "ord" && crossed[s.e.Name]:
				return []int{3}
			}
			return nil
		})
		engine.Explore(l22Body(apiRunner, leaves), sched("lindell22/runner", 12*time.Minute, 90*time.Minute))
	}
	if only("ecdsa") {
		rounds, runner := ecSplit(ecCases())
		engine.Explore(ecBody(rounds), engine.Opts{Name: "ecdsa/rounds", MaxFails: 100000, Budget: engine.Budget(12*time.Minute, 90*time.Minute)})
		if len(runner) > 0 {
			sec := engine.Explore(ecPaddedBody(runner), sched("ecdsa/runner", 12*time.Minute, 90*time.Minute))
			sec.Note("the single choice point is padded with empty slots (trivial executions) so that process sharding gives every long run its own worker process; non-trivial executions = %d runs", len(runner))
		}
	}
	if only("boldyreva") {
		dkgStructs := map[string]bool{"thr(2,3)": true, "cnf3{0|1|2}": true, "hier3[1:0 2:12]": true, "bool3:T1(T2(0,1),T2(0,2))": true}
		leaves := blsLeaves(cheapCatalogue(false), func(f, mode string, s *structure, a catalog.IDAssignment, kg proto.C01Keygen) []int {
			if engine.Thorough() {
				switch {
				case kg == proto.C01Dealer && mode == "basic":
					return []int{0, 1, 2, 3, 4}
				case kg == proto.C01Dealer && a.Name == "ord":
					return []int{1, 4}
				case kg == proto.C01Dealer:
					return []int{2}
				case a.Name == "ord" && s.e.P.N <= 3:
					return []int{3}
				}
				return nil
			}
			// quick, factorised: identifier assignments x key groups on the basic mode; the two other modes and the
			// second message on the ordinal identifiers; DKG-made keys on four structures
			switch {
			case kg == proto.C01Dealer && mode == "basic" && a.Name == "ord":
				return []int{0, 1, 4}
			case kg == proto.C01Dealer && mode == "basic":
				return []int{1}
			case kg == proto.C01Dealer && mode == "aug" && a.Name == "ord":
				return []int{4}
			case kg == proto.C01Dealer && mode == "pop" && a.Name == "ord":
				return []int{2}
			case kg == proto.C01Gennaro && mode == "basic" && a.Name == "ord" && dkgStructs[s.e.Name]:
				return []int{3}
			case kg == proto.C01Canetti && mode == "pop" && a.Name == "ord" && dkgStructs[s.e.Name]:
				return []int{3}
			}
			return nil
		})
		engine.Explore(blsBody(leaves), engine.Opts{Name: "boldyreva", MaxFails: 100000, Budget: engine.Budget(12*time.Minute, 90*time.Minute)})
	}
}
