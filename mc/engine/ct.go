// Package engine holds the exploration engines shared by all checks:
//
//	CT   choice-tree explorer: stateless, exhaustive DFS over Choose points, deviation bounded
//	BFS  explicit-state search whose transition function is the real library call (bfs.go)
//
// plus evidence/known-finding/replay bookkeeping (report.go).
package engine

import (
	"crypto/sha256"
	"encoding/hex"
	"fmt"
	"os"
	"runtime"
	"runtime/debug"
	"sort"
	"strings"
	"sync"
	"sync/atomic"
	"time"
)

// Point is one choice point reached by an execution.
type Point struct {
	Label string
	N     int
	Dev   bool // alternatives != 0 cost one deviation
}

// Failure is one oracle violation raised by a body.
type Failure struct {
	Key     string // stable key used to match known_findings.json ("" = never matches)
	Msg     string
	Choices []int
	Labels  []string
}

// X is one execution of a check body.
type X struct {
	prefix  []int
	Choices []int
	Points  []Point
	fails   []Failure
	obs     []string
	cases   int64
	trivial bool
	Replay  bool // true when run by --replay (bodies may print more)
	sec     *Section
}

// HarnessError is a panic value for "the harness itself is wrong" (replay divergence etc.): exit 2, never a VIOLATION.
type HarnessError struct{ Msg string }

func (h HarnessError) Error() string { return "harness error: " + h.Msg }

func (x *X) choose(label string, n int, dev bool) int {
	if n <= 0 {
		panic(HarnessError{fmt.Sprintf("Choose(%q, %d): empty domain", label, n)})
	}
	i := len(x.Choices)
	c := 0
	if i < len(x.prefix) {
		c = x.prefix[i]
		if c >= n {
			panic(HarnessError{fmt.Sprintf("replay divergence at point %d (%s): choice %d of %d", i, label, c, n)})
		}
	}
	x.Choices = append(x.Choices, c)
	x.Points = append(x.Points, Point{label, n, dev})
	return c
}

// Choose is a structural point: all n alternatives are always enumerated.
func (x *X) Choose(label string, n int) int { return x.choose(label, n, false) }

// ChooseDev is an environment point: 0 is the default answer, any other answer costs one deviation.
func (x *X) ChooseDev(label string, n int) int { return x.choose(label, n, true) }

// Pick chooses one element of a slice.
func Pick[T any](x *X, label string, xs []T) T { return xs[x.Choose(label, len(xs))] }

// Observe folds a value into the execution's outcome (used for distinct-outcome counting and replay determinism).
func (x *X) Observe(v ...any) { x.obs = append(x.obs, fmt.Sprint(v...)) }

// Case counts one evaluated sub-case inside this execution (inner loops that are not Choose points);
// key identifies it for distinct counting ("" = count only).
func (x *X) Case(key string) {
	x.cases++
	if key != "" && x.sec != nil {
		x.sec.addCase(key)
	}
}

// Trivial marks the execution as not exercising the property (refused configuration etc.).
func (x *X) Trivial() { x.trivial = true }

// Failf records a violation. key is matched against known_findings.json.
func (x *X) Failf(key, format string, a ...any) {
	if len(x.fails) >= 25 {
		return // enough evidence from one execution; keeps memory bounded when an inner loop fails everywhere
	}
	lbl := make([]string, len(x.Points))
	for i, p := range x.Points {
		lbl[i] = fmt.Sprintf("%s=%d/%d", p.Label, x.Choices[i], p.N)
	}
	x.fails = append(x.fails, Failure{Key: key, Msg: fmt.Sprintf(format, a...), Choices: append([]int{}, x.Choices...), Labels: lbl})
}

// Check is Failf when !ok.
func (x *X) Check(ok bool, key, format string, a ...any) bool {
	if !ok {
		x.Failf(key, format, a...)
	}
	return ok
}

func (x *X) outcome() string {
	h := sha256.New()
	for _, o := range x.obs {
		h.Write([]byte(o))
		h.Write([]byte{0})
	}
	return hex.EncodeToString(h.Sum(nil)[:8])
}

// Opts configures one exploration.
type Opts struct {
	Name     string        // section name in the evidence
	DevBound int           // max deviations (ChooseDev alternatives) per execution; iterated 0..DevBound
	Budget   time.Duration // wall cap for this section (0 = none); hitting it => exhaustive:false
	Workers  int           // 0 = GOMAXPROCS
	Serial   bool          // bodies touch process-global state (SCHED): one worker
	MaxFails int           // stop after this many failures (default 20)
	CrashTrace bool        // (with Procs) record the prefix being executed so that a worker process killed by the code under test (fatal panic in a foreign goroutine, runtime throw) is reported as a failure with a replayable prefix
	Engine   string        // label in the evidence (default "CT"; "SCHED" for scheduler-driven bodies)
	Procs    int           // >1: shard the tree over this many worker PROCESSES (re-exec of the test binary); needed for Serial bodies
}

// runBody runs body once with the given prefix; panics other than HarnessError become failures.
func runBody(sec *Section, body func(*X), prefix []int, replay bool) (x *X) {
	x = &X{prefix: prefix, sec: sec, Replay: replay}
	defer func() {
		if r := recover(); r != nil {
			if he, ok := r.(HarnessError); ok {
				panic(he)
			}
			st := string(debug.Stack())
			// keep the innermost non-runtime frames
			x.Failf("", "panic in body: %v\n%s", r, trimStack(st))
		}
	}()
	body(x)
	return x
}

func trimStack(s string) string {
	lines := strings.Split(s, "\n")
	var out []string
	for _, l := range lines {
		if strings.Contains(l, "bron-crypto") || strings.Contains(l, "verifmc") {
			out = append(out, strings.TrimSpace(l))
		}
		if len(out) >= 12 {
			break
		}
	}
	return strings.Join(out, "\n")
}

// Explore enumerates the whole choice tree of body (within the deviation bound) and returns its section.
func Explore(body func(*X), o Opts) *Section {
	sec := newSection(o.Name)
	sec.DevBound = o.DevBound
	sec.body = body
	if o.Engine != "" {
		sec.Engine = o.Engine
	}
	if o.MaxFails == 0 {
		o.MaxFails = 20
	}
	workers := o.Workers
	if workers == 0 {
		workers = runtime.GOMAXPROCS(0)
	}
	if o.Serial {
		workers = 1
	}
	if only := replaySection(); only != "" {
		// replay mode: run exactly one execution of the named section
		if only == o.Name {
			x := runBody(sec, body, replayChoices, true)
			sec.absorb(x)
		}
		sec.Skipped = only != o.Name
		register(sec)
		return sec
	}
	if f := os.Getenv("VERIF_SECTIONS"); f != "" && os.Getenv("VERIF_CHILD") == "" && !strings.Contains(o.Name, f) {
		// development aid (mutant demonstrations): run only the sections whose name contains the given substring;
		// never set by a registered command
		sec.Skipped = true
		register(sec)
		return sec
	}
	if os.Getenv("VERIF_STOP_AFTER_FAIL") != "" && os.Getenv("VERIF_CHILD") == "" && unknownFailureSoFar() {
		// seeded-change runs only (tools/run_seeds.sh): once a section reported a failure that is not a known
		// finding the verdict (exit 1) is settled; the remaining sections are skipped to save machine time
		sec.Skipped = true
		register(sec)
		return sec
	}
	start := time.Now()
	if child := os.Getenv("VERIF_CHILD"); child != "" {
		if child != o.Name {
			sec.Skipped = true
			register(sec)
			return sec
		}
		runChild(sec, body, o) // never returns
	}
	if o.Procs > 1 {
		runParent(sec, o)
		sec.WallS = time.Since(start).Seconds()
		register(sec)
		return sec
	}
	capHit := exploreFrom(sec, body, o, [][]int{nil}, start)
	sec.WallS = time.Since(start).Seconds()
	sec.Exhaustive = !capHit && sec.Abandoned == 0
	if capHit {
		sec.Cap = fmt.Sprintf("time budget %s hit; %d subtrees not expanded", o.Budget, sec.Abandoned)
	}
	register(sec)
	return sec
}

// exploreFrom runs the parallel DFS from the given initial prefixes; it reports whether the time budget was hit.
func exploreFrom(sec *Section, body func(*X), o Opts, initial [][]int, start time.Time) bool {
	workers := o.Workers
	if workers == 0 {
		workers = runtime.GOMAXPROCS(0)
	}
	if o.Serial {
		workers = 1
	}
	var deadline time.Time
	if o.Budget > 0 {
		deadline = start.Add(o.Budget)
	}
	type task struct{ prefix []int }
	var (
		mu      sync.Mutex
		stack   []task
		pending int64
		capHit  atomic.Bool
		cond    = sync.NewCond(&mu)
	)
	for i := len(initial) - 1; i >= 0; i-- {
		stack = append(stack, task{initial[i]})
	}
	pending = int64(len(initial))
	if pending == 0 {
		return false
	}
	var wg sync.WaitGroup
	for w := 0; w < workers; w++ {
		wg.Add(1)
		go func() {
			defer wg.Done()
			for {
				mu.Lock()
				for len(stack) == 0 && pending > 0 {
					cond.Wait()
				}
				if pending == 0 {
					mu.Unlock()
					cond.Broadcast()
					return
				}
				t := stack[len(stack)-1]
				stack = stack[:len(stack)-1]
				mu.Unlock()

				var children []task
				stop := capHit.Load() || sec.failCount() >= o.MaxFails
				if !stop && !deadline.IsZero() && time.Now().After(deadline) {
					capHit.Store(true)
					stop = true
				}
				if !stop && skipPrefixes[fmt.Sprint(t.prefix)] {
					stop = true // killed an earlier worker; already reported
				}
				if !stop {
					if cf := crashFile; cf != "" && o.CrashTrace {
						_ = os.WriteFile(cf, []byte(fmt.Sprint(t.prefix)), 0o644)
					}
					x := runBody(sec, body, t.prefix, false)
					sec.absorb(x)
					devs := 0
					for i, p := range x.Points {
						if i >= len(t.prefix) {
							for alt := p.N - 1; alt >= 1; alt-- {
								cost := devs
								if p.Dev {
									cost++
								}
								if cost > o.DevBound {
									continue
								}
								np := make([]int, i+1)
								copy(np, x.Choices[:i])
								np[i] = alt
								children = append(children, task{np})
							}
						}
						if p.Dev && x.Choices[i] != 0 {
							devs++
						}
					}
				} else {
					sec.addAbandoned()
				}
				mu.Lock()
				stack = append(stack, children...)
				pending += int64(len(children)) - 1
				mu.Unlock()
				cond.Broadcast()
			}
		}()
	}
	wg.Wait()
	return capHit.Load()
}

// expand returns the child prefixes of an executed node (same rule as the DFS), in canonical order.
func expand(x *X, prefixLen int, bound int) [][]int {
	var out [][]int
	devs := 0
	for i, p := range x.Points {
		if i >= prefixLen {
			for alt := 1; alt < p.N; alt++ {
				cost := devs
				if p.Dev {
					cost++
				}
				if cost > bound {
					continue
				}
				np := make([]int, i+1)
				copy(np, x.Choices[:i])
				np[i] = alt
				out = append(out, np)
			}
		}
		if p.Dev && x.Choices[i] != 0 {
			devs++
		}
	}
	return out
}

// crashFile is set in worker processes: the prefix about to be executed is written there (Opts.CrashTrace).
var crashFile string

func replaySection() string { return os.Getenv("VERIF_REPLAY_SECTION") }

// sortFailures orders failures smallest-first (fewest choices, then lexicographic).
func sortFailures(fs []Failure) {
	sort.SliceStable(fs, func(i, j int) bool {
		a, b := fs[i].Choices, fs[j].Choices
		if len(a) != len(b) {
			return len(a) < len(b)
		}
		for k := range a {
			if a[k] != b[k] {
				return a[k] < b[k]
			}
		}
		return false
	})
}
