package curve

import (
	"fmt"
	"math/big"
)

// MPoint is an affine point (u, v) of a Montgomery curve or the point at infinity (Inf).
type MPoint struct {
	U, V *big.Int
	Inf  bool
}

// MCurve is B v^2 = u^3 + A u^2 + u over F_p, generator G of the prime-order subgroup (order Q), cofactor H.
// For curve25519: A = 486662, B = 1, G = (9, v) as in RFC 7748 section 4.1.
type MCurve struct {
	Name string
	F    *PrimeField
	A, B *big.Int
	G    MPoint
	Q    *big.Int
	H    *big.Int
	// A24 = (A-2)/4, the ladder constant of RFC 7748 (121665 for curve25519)
	A24 *big.Int
	// Bits is the scalar/coordinate bit length used by the RFC 7748 functions (255 for curve25519)
	Bits int
}

// Identity returns the point at infinity.
func (c *MCurve) Identity() MPoint { return MPoint{U: new(big.Int), V: new(big.Int), Inf: true} }

// Generator returns G.
func (c *MCurve) Generator() MPoint { return c.G }

func (c *MCurve) rhs(u *big.Int) *big.Int {
	F := c.F
	uu := F.Sqr(u)
	return F.Add(F.Add(F.Mul(uu, u), F.Mul(c.A, uu)), u)
}

// OnCurve reports whether p is O or a canonical solution of the curve equation.
func (c *MCurve) OnCurve(p MPoint) bool {
	if p.Inf {
		return true
	}
	if !c.F.Valid(p.U) || !c.F.Valid(p.V) {
		return false
	}
	return c.F.Equal(c.F.Mul(c.B, c.F.Sqr(p.V)), c.rhs(p.U))
}

// Equal compares two points.
func (c *MCurve) Equal(p, q MPoint) bool {
	if p.Inf || q.Inf {
		return p.Inf && q.Inf
	}
	return c.F.Equal(p.U, q.U) && c.F.Equal(p.V, q.V)
}

// IsIdentity reports p == O.
func (c *MCurve) IsIdentity(p MPoint) bool { return p.Inf }

// Neg returns (u, -v).
func (c *MCurve) Neg(p MPoint) MPoint {
	if p.Inf {
		return c.Identity()
	}
	return MPoint{U: c.F.Red(p.U), V: c.F.Neg(p.V)}
}

// Double: O -> O; v == 0 (order two, e.g. (0,0)) -> O; else lambda = (3u^2 + 2Au + 1)/(2Bv),
// u3 = B lambda^2 - A - 2u, v3 = lambda (u - u3) - v.
func (c *MCurve) Double(p MPoint) MPoint {
	F := c.F
	if p.Inf || F.IsZero(p.V) {
		return c.Identity()
	}
	num := F.Add(F.Add(F.Mul(big.NewInt(3), F.Sqr(p.U)), F.Mul(F.Mul(big.NewInt(2), c.A), p.U)), big.NewInt(1))
	den, _ := F.Inv(F.Mul(F.Mul(big.NewInt(2), c.B), p.V))
	l := F.Mul(num, den)
	u3 := F.Sub(F.Sub(F.Sub(F.Mul(c.B, F.Sqr(l)), c.A), p.U), p.U)
	v3 := F.Sub(F.Mul(l, F.Sub(p.U, u3)), p.V)
	return MPoint{U: u3, V: v3}
}

// Add: identity operands; equal -> Double; opposite -> O; else the chord rule
// lambda = (v2 - v1)/(u2 - u1), u3 = B lambda^2 - A - u1 - u2, v3 = lambda (u1 - u3) - v1.
func (c *MCurve) Add(p, q MPoint) MPoint {
	F := c.F
	if p.Inf {
		return q
	}
	if q.Inf {
		return p
	}
	if F.Equal(p.U, q.U) {
		if F.Equal(p.V, q.V) {
			return c.Double(p)
		}
		return c.Identity()
	}
	den, _ := F.Inv(F.Sub(q.U, p.U))
	l := F.Mul(F.Sub(q.V, p.V), den)
	u3 := F.Sub(F.Sub(F.Sub(F.Mul(c.B, F.Sqr(l)), c.A), p.U), q.U)
	v3 := F.Sub(F.Mul(l, F.Sub(p.U, u3)), p.V)
	return MPoint{U: u3, V: v3}
}

// Sub returns p - q.
func (c *MCurve) Sub(p, q MPoint) MPoint { return c.Add(p, c.Neg(q)) }

// ScalarMul returns k*p (k any integer, not reduced).
func (c *MCurve) ScalarMul(k *big.Int, p MPoint) MPoint {
	if k.Sign() < 0 {
		return c.ScalarMul(new(big.Int).Neg(k), c.Neg(p))
	}
	r := c.Identity()
	for i := k.BitLen() - 1; i >= 0; i-- {
		r = c.Double(r)
		if k.Bit(i) == 1 {
			r = c.Add(r, p)
		}
	}
	return r
}

// ScalarBaseMul returns k*G.
func (c *MCurve) ScalarBaseMul(k *big.Int) MPoint { return c.ScalarMul(k, c.G) }

// InSubgroup reports on-curve and Q*p == O.
func (c *MCurve) InSubgroup(p MPoint) bool { return c.OnCurve(p) && c.ScalarMul(c.Q, p).Inf }

// ClearCofactor returns H*p.
func (c *MCurve) ClearCofactor(p MPoint) MPoint { return c.ScalarMul(c.H, p) }

// LiftU returns the two points with abscissa u (lo.V <= hi.V as integers); ok=false if u is on the twist.
func (c *MCurve) LiftU(u *big.Int) (lo, hi MPoint, ok bool) {
	F := c.F
	bi, _ := F.Inv(c.B)
	a, b, ok := F.SqrtBoth(F.Mul(c.rhs(u), bi))
	if !ok {
		return c.Identity(), c.Identity(), false
	}
	return MPoint{U: F.Red(u), V: a}, MPoint{U: F.Red(u), V: b}, true
}

// Key is a printable form of the point.
func (c *MCurve) Key(p MPoint) string {
	if p.Inf {
		return "O"
	}
	return fmt.Sprintf("(0x%s,0x%s)", c.F.Red(p.U).Text(16), c.F.Red(p.V).Text(16))
}

// XMul is the x-only Montgomery ladder of RFC 7748 section 5 on integers: it returns the u-coordinate of k*P for a
// point P with u-coordinate u (on the curve or on its twist), and 0 when k*P is the point at infinity (the RFC's
// convention x/0 = 0). k is used as is (no clamping), processed over c.Bits bits.
func (c *MCurve) XMul(k, u *big.Int) *big.Int {
	F := c.F
	x1 := F.Red(u)
	x2, z2 := big.NewInt(1), big.NewInt(0)
	x3, z3 := new(big.Int).Set(x1), big.NewInt(1)
	swap := uint(0)
	bits := c.Bits
	if k.BitLen() > bits {
		bits = k.BitLen()
	}
	for t := bits - 1; t >= 0; t-- {
		kt := k.Bit(t)
		swap ^= kt
		if swap == 1 {
			x2, x3 = x3, x2
			z2, z3 = z3, z2
		}
		swap = kt
		A := F.Add(x2, z2)
		AA := F.Sqr(A)
		B := F.Sub(x2, z2)
		BB := F.Sqr(B)
		E := F.Sub(AA, BB)
		C := F.Add(x3, z3)
		D := F.Sub(x3, z3)
		DA := F.Mul(D, A)
		CB := F.Mul(C, B)
		x3 = F.Sqr(F.Add(DA, CB))
		z3 = F.Mul(x1, F.Sqr(F.Sub(DA, CB)))
		x2 = F.Mul(AA, BB)
		z2 = F.Mul(E, F.Add(AA, F.Mul(c.A24, E)))
	}
	if swap == 1 {
		x2, x3 = x3, x2
		z2, z3 = z3, z2
	}
	zi, ok := F.Inv(z2)
	if !ok {
		return new(big.Int)
	}
	return F.Mul(x2, zi)
}

// ClampX25519 applies the RFC 7748 decodeScalar25519 clamping to 32 little-endian bytes and returns the integer.
func ClampX25519(scalarLE []byte) *big.Int {
	if len(scalarLE) != 32 {
		panic("ref/curve: X25519 scalar must be 32 bytes")
	}
	b := append([]byte{}, scalarLE...)
	b[0] &= 248
	b[31] &= 127
	b[31] |= 64
	return new(big.Int).SetBytes(reverse(b))
}

// X25519 is the RFC 7748 function: scalar and u are 32-byte little-endian strings, the top bit of u is masked and
// non-canonical u values are reduced mod p, the scalar is clamped. Only meaningful for Curve25519().
func (c *MCurve) X25519(scalarLE, uLE []byte) []byte {
	if len(uLE) != 32 {
		panic("ref/curve: X25519 u must be 32 bytes")
	}
	ub := append([]byte{}, uLE...)
	ub[31] &= 127
	u := c.F.Red(new(big.Int).SetBytes(reverse(ub)))
	r := c.XMul(ClampX25519(scalarLE), u)
	return reverse(c.F.Bytes(r))
}

// ---------------------------------------------------------------------------------------------------------------
// birational equivalence edwards25519 <-> curve25519 (RFC 7748 section 4.1)
//
//	(u, v) = ((1+y)/(1-y), sqrt(-486664)*u/x)      (x, y) = (sqrt(-486664)*u/v, (u-1)/(u+1))
//
// with the exceptional points mapped as usual: Edwards (0,1) <-> O and Edwards (0,-1) <-> (0,0).

// EdwardsToMontgomery maps a point of Edwards25519() to Curve25519().
func EdwardsToMontgomery(p EPoint) MPoint {
	e, m := Edwards25519(), Curve25519()
	F := e.F
	if e.IsIdentity(p) {
		return m.Identity()
	}
	if F.IsZero(p.X) { // (0,-1)
		return MPoint{U: new(big.Int), V: new(big.Int)}
	}
	one := big.NewInt(1)
	u, _ := F.Div(F.Add(one, p.Y), F.Sub(one, p.Y))
	ux, _ := F.Div(u, p.X)
	return MPoint{U: u, V: F.Mul(sqrtM486664(), ux)}
}

// MontgomeryToEdwards maps a point of Curve25519() to Edwards25519().
func MontgomeryToEdwards(p MPoint) EPoint {
	e := Edwards25519()
	F := e.F
	if p.Inf {
		return e.Identity()
	}
	if F.IsZero(p.V) { // (0,0): the only point with v == 0 on curve25519
		return EPoint{new(big.Int), F.FromInt64(-1)}
	}
	one := big.NewInt(1)
	uv, _ := F.Div(p.U, p.V)
	y, ok := F.Div(F.Sub(p.U, one), F.Add(p.U, one))
	if !ok {
		panic("ref/curve: u == -1 is not the abscissa of a curve25519 point")
	}
	return EPoint{F.Mul(sqrtM486664(), uv), y}
}
