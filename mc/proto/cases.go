package proto

import (
	"bytes"
	"slices"
	"context"
	"fmt"

	"github.com/bronlabs/bron-crypto/pkg/base"
	"github.com/bronlabs/bron-crypto/pkg/base/curves/k256"
	"github.com/bronlabs/bron-crypto/pkg/base/datastructures/hashmap"
	"github.com/bronlabs/bron-crypto/pkg/mcrt"
	"github.com/bronlabs/bron-crypto/pkg/mpc"
	"github.com/bronlabs/bron-crypto/pkg/mpc/aor"
	"github.com/bronlabs/bron-crypto/pkg/mpc/dkg/canetti"
	"github.com/bronlabs/bron-crypto/pkg/mpc/dkg/gennaro"
	"github.com/bronlabs/bron-crypto/pkg/mpc/redistribute"
	"github.com/bronlabs/bron-crypto/pkg/mpc/session"
	"github.com/bronlabs/bron-crypto/pkg/mpc/sharing/accessstructures"
	"github.com/bronlabs/bron-crypto/pkg/mpc/signatures/schnorr/lindell22"
	"github.com/bronlabs/bron-crypto/pkg/mpc/signatures/schnorr/lindell22/keygen"
	"github.com/bronlabs/bron-crypto/pkg/mpc/signatures/schnorr/lindell22/signing"
	"github.com/bronlabs/bron-crypto/pkg/network"
	"github.com/bronlabs/bron-crypto/pkg/proofs/sigma/compiler/fiatshamir"
	"github.com/bronlabs/bron-crypto/pkg/signatures/schnorrlike/bip340"
	"github.com/bronlabs/bron-crypto/pkg/transcripts/hagrid"

	"verifmc/det"
	"verifmc/schednet"
)

// PartyOut is one party's classified outcome.
type PartyOut struct {
	Err     error
	Panic   string
	Starved bool
	OK      bool   // returned an output without error
	Bad     string // non-empty: the returned output is NOT good (S2 violation), with the reason
	Blamed  []ID   // identities tagged in Err
	Digest  string // canonical digest of the output (agreement / differential comparisons)
}

// Exec is one complete execution of a case.
type Exec struct {
	Parties map[ID]*PartyOut
	HasAgg  bool   // the case has an aggregation step run by the harness after the parties
	AggErr  error  // aggregator refused
	AggBad  string // aggregator returned a signature that fails public verification
	AggOK   bool
	AggBlamed []ID
	Info    *schednet.Info
	Pub     string // digest of the joint public result (pk / signature / sid), when all agree
}

// Case is one protocol configuration.
type Case struct {
	Name string
	IDs  []ID
	// Run executes all parties with the given seed on the given network.
	Run func(x mcrt.Chooser, net *schednet.Net, seed int64) *Exec
}

func classify[O any](res map[ID]*schednet.Result[O], info *schednet.Info, good func(id ID, out O) (bad string, digest string)) *Exec {
	e := &Exec{Parties: map[ID]*PartyOut{}, Info: info}
	for id, r := range res {
		p := &PartyOut{Err: r.Err, Panic: r.Panic, Starved: r.Starved}
		if r.Err != nil {
			p.Blamed = base.GetMaliciousIdentities[ID](r.Err)
		}
		if r.Done && r.Err == nil && r.Panic == "" {
			p.OK = true
			p.Bad, p.Digest = good(id, r.Out)
		}
		e.Parties[id] = p
	}
	return e
}

// shardGood: a returned shard is self-consistent: for EVERY component of its private share, share_i*G equals the
// public share that its own verification vector assigns to that MSP row (recomputed here row by row as sum_j M[i][j]*V_j,
// deliberately not through the library's LiftedShare comparison), the library's own constructor accepts it, and the
// public key it reports is the committed one (entry 0 of the vector).
func shardGood(sh *K256Shard) (string, string) {
	if sh == nil {
		return "nil shard returned without error", ""
	}
	if _, err := mpc.NewBaseShard(sh.Share(), sh.VerificationVector(), sh.MSP()); err != nil {
		return "returned shard is inconsistent with its own public data: " + err.Error(), ""
	}
	if bad := shardRowsBad(sh); bad != "" {
		return bad, ""
	}
	return "", fmt.Sprintf("pk=%x", sh.PublicKeyValue().ToCompressed())
}

func shardRowsBad(sh *K256Shard) string {
	G := k256.NewCurve().Generator()
	vv := sh.VerificationVector().Value()
	nv, _ := vv.Dimensions()
	V := make([]*k256.Point, nv)
	for j := 0; j < nv; j++ {
		e, err := vv.Get(j, 0)
		if err != nil {
			return "verification vector entry unreadable: " + err.Error()
		}
		V[j] = e
	}
	if len(V) == 0 || !V[0].Equal(sh.PublicKeyValue()) {
		return "the reported public key is not entry 0 of the shard's own verification vector"
	}
	rows, ok := sh.MSP().HoldersToRows().Get(sh.Share().ID())
	if !ok {
		return "the shard's holder owns no row of the shard's own MSP"
	}
	sorted := rows.List()
	slices.Sort(sorted)
	vals := sh.Share().Value()
	if len(vals) != len(sorted) {
		return fmt.Sprintf("private share has %d components, its MSP gives the holder %d rows", len(vals), len(sorted))
	}
	M := sh.MSP().Matrix()
	for i, r := range sorted {
		acc := k256.NewCurve().OpIdentity()
		for j := 0; j < nv; j++ {
			c, err := M.Get(r, j)
			if err != nil {
				return "MSP entry unreadable: " + err.Error()
			}
			acc = acc.Op(V[j].ScalarOp(c))
		}
		if !G.ScalarOp(vals[i]).Equal(acc) {
			return fmt.Sprintf("private share component %d (MSP row %d) does not match the public share its own verification vector assigns to it", i, r)
		}
	}
	return ""
}

// SessionCase: session setup over runners.
func SessionCase(ids []ID) *Case {
	return &Case{Name: fmt.Sprintf("session/n%d", len(ids)), IDs: ids, Run: func(x mcrt.Chooser, net *schednet.Net, seed int64) *Exec {
		q := Set(ids...)
		res, info := schednet.RunAll(x, net, ids, func(ctx context.Context, id ID, rt *network.Router) (*session.Context, error) {
			r, err := session.NewSessionRunner(id, q, det.New(seed, fmt.Sprintf("session/%d", id)))
			if err != nil {
				return nil, err
			}
			net.Root(id, r)
			return r.Run(ctx, rt, nil)
		})
		return classify(res, info, func(id ID, c *session.Context) (string, string) {
			sid := c.SessionID()
			return "", fmt.Sprintf("sid=%x", sid[:])
		})
	}}
}

// AorCase: agree-on-random.
func AorCase(ids []ID) *Case {
	return &Case{Name: fmt.Sprintf("aor/n%d", len(ids)), IDs: ids, Run: func(x mcrt.Chooser, net *schednet.Net, seed int64) *Exec {
		q := Set(ids...)
		res, info := schednet.RunAll(x, net, ids, func(ctx context.Context, id ID, rt *network.Router) ([]byte, error) {
			r, err := aor.NewAgreeOnRandomRunner(id, q, 32, hagrid.NewTranscript("verif-aor"), det.New(seed, fmt.Sprintf("aor/%d", id)))
			if err != nil {
				return nil, err
			}
			net.Root(id, r)
			return r.Run(ctx, rt, nil)
		})
		return classify(res, info, func(id ID, o []byte) (string, string) {
			if len(o) != 32 {
				return fmt.Sprintf("agree-on-random returned %d bytes", len(o)), ""
			}
			return "", fmt.Sprintf("%x", o)
		})
	}}
}

// GennaroCase: Gennaro DKG on k256 with Fiat–Shamir.
func GennaroCase(name string, ac accessstructures.Monotone, ids []ID) *Case {
	return &Case{Name: "gennaro/" + name, IDs: ids, Run: func(x mcrt.Chooser, net *schednet.Net, seed int64) *Exec {
		ctxs := Contexts(ids, KeySeed(seed), "gennaro")
		res, info := schednet.RunAll(x, net, ids, func(ctx context.Context, id ID, rt *network.Router) (*K256Shard, error) {
			r, err := gennaro.NewRunner(ctxs[id], k256.NewCurve(), ac, fiatshamir.Name, det.New(seed, fmt.Sprintf("gennaro/%d", id)))
			if err != nil {
				return nil, err
			}
			net.Root(id, r)
			return r.Run(ctx, rt, nil)
		})
		return classify(res, info, func(id ID, sh *K256Shard) (string, string) { return shardGood(sh) })
	}}
}

// CanettiCase: Canetti DKG on k256.
func CanettiCase(name string, ac accessstructures.Monotone, ids []ID) *Case {
	return &Case{Name: "canetti/" + name, IDs: ids, Run: func(x mcrt.Chooser, net *schednet.Net, seed int64) *Exec {
		ctxs := Contexts(ids, KeySeed(seed), "canetti")
		res, info := schednet.RunAll(x, net, ids, func(ctx context.Context, id ID, rt *network.Router) (*K256Shard, error) {
			r, err := canetti.NewRunner(ctxs[id], ac, k256.NewCurve(), det.New(seed, fmt.Sprintf("canetti/%d", id)))
			if err != nil {
				return nil, err
			}
			net.Root(id, r)
			return r.Run(ctx, rt, nil)
		})
		return classify(res, info, func(id ID, sh *K256Shard) (string, string) { return shardGood(sh) })
	}}
}

// RedistributeCase: previous holders prev (qualified in the dealt structure oldAC) redistribute to nextAC.
// anchor==0 means no trusted anchor. The reported public key must still be the old one.
func RedistributeCase(name string, oldAC accessstructures.Monotone, prev []ID, nextAC accessstructures.Monotone, anchor ID) *Case {
	return redistributeCase(name, oldAC, prev, nextAC, anchor, 0)
}

// RedistributeForeignShardCase is RedistributeCase in which previous holder `deviator` takes part with a shard of an
// UNRELATED dealing of the same structure (another key): a coordinated deviation (all its messages are consistent with
// each other, none with the real key) that no single-message alteration can express.
func RedistributeForeignShardCase(name string, oldAC accessstructures.Monotone, prev []ID, nextAC accessstructures.Monotone, anchor ID, deviator ID) *Case {
	return redistributeCase(name, oldAC, prev, nextAC, anchor, deviator)
}

func redistributeCase(name string, oldAC accessstructures.Monotone, prev []ID, nextAC accessstructures.Monotone, anchor ID, foreign ID) *Case {
	all := map[ID]bool{}
	for _, id := range prev {
		all[id] = true
	}
	for id := range nextAC.Shareholders().Iter() {
		all[id] = true
	}
	var ids []ID
	for id := range all {
		ids = append(ids, id)
	}
	ids = Sorted(ids)
	return &Case{Name: "redistribute/" + name, IDs: ids, Run: func(x mcrt.Chooser, net *schednet.Net, seed int64) *Exec {
		old := DealK256(oldAC, KeySeed(seed), "redistribute-old")
		var anyOld *K256Shard
		for _, sh := range old {
			anyOld = sh
		}
		oldPK := anyOld.PublicKeyValue()
		ctxs := Contexts(ids, KeySeed(seed), "redistribute")
		prevSet := Set(prev...)
		res, info := schednet.RunAll(x, net, ids, func(ctx context.Context, id ID, rt *network.Router) (*K256Shard, error) {
			var opts []redistribute.Option
			if anchor != 0 {
				opts = append(opts, redistribute.WithTrustedAnchorID(anchor))
			}
			var prevShard *K256Shard
			if prevSet.Contains(id) {
				prevShard = old[id]
				if id == foreign {
					prevShard = DealK256(oldAC, KeySeed(seed)+7777, "redistribute-foreign")[id]
				}
			}
			r, err := redistribute.NewRunner(ctxs[id], prevSet, prevShard, nextAC, det.New(seed, fmt.Sprintf("redistribute/%d", id)), opts...)
			if err != nil {
				return nil, err
			}
			net.Root(id, r)
			return r.Run(ctx, rt, nil)
		})
		return classify(res, info, func(id ID, sh *K256Shard) (string, string) {
			if sh == nil {
				if !nextAC.Shareholders().Contains(id) {
					return "", "no-shard(leaving party)"
				}
				return "nil shard returned without error to a next shareholder", ""
			}
			bad, dg := shardGood(sh)
			if bad == "" && !sh.PublicKeyValue().Equal(oldPK) {
				bad = "redistribution changed the public key reported by the new shard"
			}
			return bad, dg
		})
	}}
}

// Lindell22Case: BIP-340 threshold signing by quorum on trusted-dealer shards of ac, then aggregation by the harness.
func Lindell22Case(name string, ac accessstructures.Monotone, quorum []ID, message []byte) *Case {
	return &Case{Name: "lindell22/" + name, IDs: quorum, Run: func(x mcrt.Chooser, net *schednet.Net, seed int64) *Exec {
		base := DealK256(ac, KeySeed(seed), "lindell22")
		shards := map[ID]*lindell22.Shard[*k256.Point, *k256.Scalar]{}
		for id, b := range base {
			sh, err := keygen.NewShard(b)
			if err != nil {
				panic(err)
			}
			shards[id] = sh
		}
		scheme, err := bip340.NewScheme(det.New(KeySeed(seed), "bip340-scheme"))
		if err != nil {
			panic(err)
		}
		ctxs := Contexts(quorum, KeySeed(seed), "lindell22-sign")
		type psig = *lindell22.PartialSignature[*k256.Point, *k256.Scalar]
		res, info := schednet.RunAll(x, net, quorum, func(ctx context.Context, id ID, rt *network.Router) (psig, error) {
			r, err := signing.NewRunner(ctxs[id], shards[id], fiatshamir.Name, scheme.Variant(), message, det.New(seed, fmt.Sprintf("lindell22/%d", id)))
			if err != nil {
				return nil, err
			}
			net.Root(id, r)
			return r.Run(ctx, rt, nil)
		})
		e := classify(res, info, func(id ID, p psig) (string, string) {
			if p == nil {
				return "nil partial signature returned without error", ""
			}
			return "", "psig"
		})
		// aggregation by an outside aggregator over whatever partial signatures were produced
		e.HasAgg = true
		ps := map[ID]psig{}
		for id, r := range res {
			if r.Done && r.Err == nil && r.Panic == "" && r.Out != nil {
				ps[id] = r.Out
			}
		}
		agg, err := signing.NewAggregator(shards[quorum[0]].PublicKeyMaterial(), scheme)
		if err != nil {
			panic(err)
		}
		func() {
			defer func() {
				if p := recover(); p != nil {
					e.AggBad = fmt.Sprintf("aggregator panicked: %v", p)
				}
			}()
			sig, err := agg.Aggregate(hashmap.NewComparableFromNativeLike(ps).Freeze(), message)
			if err != nil {
				e.AggErr = err
				e.AggBlamed = base2(err)
				return
			}
			vf, err := scheme.Verifier()
			if err != nil {
				panic(err)
			}
			if err := vf.Verify(sig, shards[quorum[0]].PublicKey(), message); err != nil {
				e.AggBad = "aggregator returned a signature that fails public verification: " + err.Error()
				return
			}
			e.AggOK = true
			var buf bytes.Buffer
			fmt.Fprintf(&buf, "R=%x s=%x", sig.R.ToCompressed(), sig.S.Bytes())
			e.Pub = buf.String()
		}()
		return e
	}}
}

func base2(err error) []ID { return base.GetMaliciousIdentities[ID](err) }
