package policy

import "math/big"

// TassaFieldCondition evaluates, exactly in integers, the field-size condition the library documents for Tassa /
// Birkhoff-based hierarchical sharing (its "equation 35"):
//
//	α(k) · N^((k−1)(k−2)/2) < q      with   α(k) = 2^(−k+2) · (k−1)^((k−1)/2) · (k−1)!
//
// for the largest identifier N, the largest cumulative threshold k and the field order q. Both sides are squared
// and multiplied by 2^(2k−4) so that everything is an integer:
//
//	(k−1)^(k−1) · ((k−1)!)² · N^((k−1)(k−2)) < q² · 2^(2k−4)
func TassaFieldCondition(q, maxID *big.Int, k int) bool {
	if k < 1 {
		return true
	}
	km1 := big.NewInt(int64(k - 1))
	lhs := new(big.Int).Exp(km1, km1, nil)
	fact := big.NewInt(1)
	for i := 2; i <= k-1; i++ {
		fact.Mul(fact, big.NewInt(int64(i)))
	}
	lhs.Mul(lhs, fact).Mul(lhs, fact)
	e := int64((k - 1) * (k - 2))
	if e > 0 {
		lhs.Mul(lhs, new(big.Int).Exp(maxID, big.NewInt(e), nil))
	}
	rhs := new(big.Int).Mul(q, q)
	sh := 2*k - 4
	if sh >= 0 {
		rhs.Lsh(rhs, uint(sh))
	} else {
		lhs.Lsh(lhs, uint(-sh))
	}
	return lhs.Cmp(rhs) < 0
}

// HierarchicalIDsIncrease reports whether every identifier of a level exceeds every identifier of all earlier
// levels (ids[i] is the identifier of party i).
func (p *Policy) HierarchicalIDsIncrease(ids []uint64) bool {
	var prevMax uint64
	for _, l := range p.Levels {
		m := prevMax
		for _, x := range l.Parties {
			if ids[x] <= prevMax {
				return false
			}
			if ids[x] > m {
				m = ids[x]
			}
		}
		prevMax = m
	}
	return true
}

// MaxThreshold is the largest cumulative threshold of a hierarchical policy.
func (p *Policy) MaxThreshold() int { return p.Levels[len(p.Levels)-1].T }
