package c12

import (
	"fmt"
	"sync"

	"github.com/bronlabs/bron-crypto/pkg/base/curves/edwards25519"
	"github.com/bronlabs/bron-crypto/pkg/base/curves/k256"
	"github.com/bronlabs/bron-crypto/pkg/base/curves/pairable/bls12381"
	"github.com/bronlabs/bron-crypto/pkg/base/serde"
	"github.com/bronlabs/bron-crypto/pkg/commitments/intcom"
	"github.com/bronlabs/bron-crypto/pkg/encryption/paillier"
	"github.com/bronlabs/bron-crypto/pkg/key_agreement"
	"github.com/bronlabs/bron-crypto/pkg/key_agreement/dh/dhc"
	"github.com/bronlabs/bron-crypto/pkg/mpc"
	"github.com/bronlabs/bron-crypto/pkg/mpc/dkg/trusteddealer"
	"github.com/bronlabs/bron-crypto/pkg/mpc/sharing"
	mpcbls "github.com/bronlabs/bron-crypto/pkg/mpc/signatures/bls"
	"github.com/bronlabs/bron-crypto/pkg/mpc/signatures/ecdsa/cggmp21"
	"github.com/bronlabs/bron-crypto/pkg/mpc/signatures/ecdsa/dkls23"
	"github.com/bronlabs/bron-crypto/pkg/mpc/signatures/ecdsa/lindell17"
	l17dealer "github.com/bronlabs/bron-crypto/pkg/mpc/signatures/ecdsa/lindell17/keygen/trusted_dealer"
	"github.com/bronlabs/bron-crypto/pkg/mpc/signatures/schnorr/lindell22"
	l22keygen "github.com/bronlabs/bron-crypto/pkg/mpc/signatures/schnorr/lindell22/keygen"
	"github.com/bronlabs/bron-crypto/pkg/signatures/bls"
	"github.com/bronlabs/bron-crypto/pkg/signatures/ecdsa"
	"github.com/bronlabs/bron-crypto/pkg/signatures/schnorrlike"

	"verifmc/catalog"
	"verifmc/ref/policy"
)

type (
	KB  = *k256.BaseFieldElement
	G1  = *bls12381.PointG1
	G2  = *bls12381.PointG2
	F1  = *bls12381.BaseFieldElementG1
	F2  = *bls12381.BaseFieldElementG2
	GT  = *bls12381.GtElement
	BS  = *bls12381.Scalar
	ES  = *edwards25519.Scalar
	ids = []sharing.ID
)

// decodeField decodes one top-level field of an object's own encoding (for types without accessors).
func decodeField[F any, T any](obj T, field string) (F, error) {
	var zero F
	enc, err := serde.MarshalCBOR(obj)
	if err != nil {
		return zero, err
	}
	sub, err := subItem(enc, field)
	if err != nil {
		return zero, err
	}
	return serde.UnmarshalCBOR[F](sub)
}

func registerKeyAgreement() {
	const ka = "pkg/key_agreement."
	fK := k256.NewScalarField()
	curve := k256.NewCurve()
	add(spec[*key_agreement.PrivateKey[KS]]{
		name: "key_agreement.PrivateKey[k256.Scalar]", covers: ka + "PrivateKey", group: "key_agreement",
		gen: func() []nv[*key_agreement.PrivateKey[KS]] {
			return []nv[*key_agreement.PrivateKey[KS]]{
				{"1/dhc", must(key_agreement.NewPrivateKey(fK.One(), dhc.Type))},
				{"-1/empty-type", must(key_agreement.NewPrivateKey(fK.One().Neg(), key_agreement.Type("")))},
			}
		},
		eq:    func(a, b *key_agreement.PrivateKey[KS]) bool { return a.Equal(b) },
		valid: func(d *key_agreement.PrivateKey[KS]) (*key_agreement.PrivateKey[KS], error) { return key_agreement.NewPrivateKey(d.Value(), d.Type()) },
	})
	add(spec[*key_agreement.PublicKey[KP, KS]]{
		name: "key_agreement.PublicKey[k256]", covers: ka + "PublicKey", group: "key_agreement",
		gen: func() []nv[*key_agreement.PublicKey[KP, KS]] {
			g := curve.Generator()
			return []nv[*key_agreement.PublicKey[KP, KS]]{
				{"G/dhc", must(key_agreement.NewPublicKey[KP, KS](g, dhc.Type))},
				{"-G/x", must(key_agreement.NewPublicKey[KP, KS](g.Neg(), key_agreement.Type("x")))},
			}
		},
		eq: func(a, b *key_agreement.PublicKey[KP, KS]) bool { return a.Equal(b) },
		valid: func(d *key_agreement.PublicKey[KP, KS]) (*key_agreement.PublicKey[KP, KS], error) {
			return key_agreement.NewPublicKey[KP, KS](d.Value(), d.Type())
		},
	})
	add(spec[*key_agreement.SharedKey]{
		name: "key_agreement.SharedKey", covers: ka + "SharedKey", group: "key_agreement",
		gen: func() []nv[*key_agreement.SharedKey] {
			return []nv[*key_agreement.SharedKey]{
				{"01/dhc", must(key_agreement.NewSharedKey([]byte{1}, dhc.Type))},
				{"32 bytes", must(key_agreement.NewSharedKey(fK.One().Neg().Bytes(), dhc.Type))},
			}
		},
		eq:    func(a, b *key_agreement.SharedKey) bool { return a.Equal(b) },
		valid: func(d *key_agreement.SharedKey) (*key_agreement.SharedKey, error) { return key_agreement.NewSharedKey(d.Bytes(), d.Type()) },
	})
	add(spec[*dhc.PrivateKey]{
		name: "dhc.PrivateKey", covers: "pkg/key_agreement/dh/dhc.PrivateKey", group: "key_agreement",
		gen: func() []nv[*dhc.PrivateKey] {
			return []nv[*dhc.PrivateKey]{{"01", must(dhc.NewPrivateKey([]byte{1}))}, {"32 bytes", must(dhc.NewPrivateKey(fK.One().Neg().Bytes()))}}
		},
		eq:    func(a, b *dhc.PrivateKey) bool { return a.Equal(b) },
		valid: func(d *dhc.PrivateKey) (*dhc.PrivateKey, error) { return dhc.NewPrivateKey(d.Value()) },
	})
	add(spec[*dhc.ExtendedPrivateKey[KS]]{
		name: "dhc.ExtendedPrivateKey[k256]", covers: "pkg/key_agreement/dh/dhc.ExtendedPrivateKey", group: "key_agreement",
		gen: func() []nv[*dhc.ExtendedPrivateKey[KS]] {
			return []nv[*dhc.ExtendedPrivateKey[KS]]{
				{"rnd", must(dhc.SampleExtendedPrivateKey[KS](fK, stream("dhc/k256")))},
				{"seed=1", must(dhc.ExtendPrivateKey[KS](must(dhc.NewPrivateKey(fK.One().Bytes())), fK))},
			}
		},
		eq: func(a, b *dhc.ExtendedPrivateKey[KS]) bool { return a.Equal(b) },
		valid: func(d *dhc.ExtendedPrivateKey[KS]) (*dhc.ExtendedPrivateKey[KS], error) {
			sk, err := dhc.NewPrivateKey(d.Bytes())
			if err != nil {
				return nil, err
			}
			return dhc.ExtendPrivateKey[KS](sk, fK)
		},
	})
	fE := edwards25519.NewScalarField()
	add(spec[*dhc.ExtendedPrivateKey[ES]]{
		name: "dhc.ExtendedPrivateKey[edwards25519]", covers: "pkg/key_agreement/dh/dhc.ExtendedPrivateKey", group: "key_agreement",
		gen: func() []nv[*dhc.ExtendedPrivateKey[ES]] {
			return []nv[*dhc.ExtendedPrivateKey[ES]]{{"rnd(clamped)", must(dhc.SampleExtendedPrivateKey[ES](fE, stream("dhc/ed25519")))}}
		},
		eq: func(a, b *dhc.ExtendedPrivateKey[ES]) bool { return a.Equal(b) },
		valid: func(d *dhc.ExtendedPrivateKey[ES]) (*dhc.ExtendedPrivateKey[ES], error) {
			sk, err := dhc.NewPrivateKey(d.Bytes())
			if err != nil {
				return nil, err
			}
			return dhc.ExtendPrivateKey[ES](sk, fE)
		},
	})
}

func registerSignatures() {
	fK := k256.NewScalarField()
	curve := k256.NewCurve()
	g := curve.Generator()
	add(spec[*ecdsa.PublicKey[KP, KB, KS]]{
		name: "ecdsa.PublicKey[k256]", covers: "pkg/signatures/ecdsa.PublicKey", group: "signatures",
		gen: func() []nv[*ecdsa.PublicKey[KP, KB, KS]] {
			return []nv[*ecdsa.PublicKey[KP, KB, KS]]{{"G", must(ecdsa.NewPublicKey[KP, KB, KS](g))}, {"-2G", must(ecdsa.NewPublicKey[KP, KB, KS](g.Add(g).Neg()))}}
		},
		eq:    func(a, b *ecdsa.PublicKey[KP, KB, KS]) bool { return a.Equal(b) },
		valid: func(d *ecdsa.PublicKey[KP, KB, KS]) (*ecdsa.PublicKey[KP, KB, KS], error) { return ecdsa.NewPublicKey[KP, KB, KS](d.Value()) },
	})
	add(spec[*ecdsa.Signature[KS]]{
		name: "ecdsa.Signature[k256]", covers: "pkg/signatures/ecdsa.Signature", group: "signatures",
		gen: func() []nv[*ecdsa.Signature[KS]] {
			v0, v3 := 0, 3
			r := must(fK.Random(stream("ecdsa-r")))
			return []nv[*ecdsa.Signature[KS]]{
				{"(1,1,nil)", must(ecdsa.NewSignature(fK.One(), fK.One(), nil))},
				{"(r,-1,0)", must(ecdsa.NewSignature(r, fK.One().Neg(), &v0))},
				{"(-1,r,3)", must(ecdsa.NewSignature(fK.One().Neg(), r, &v3))},
			}
		},
		eq:    func(a, b *ecdsa.Signature[KS]) bool { return a.Equal(b) },
		valid: func(d *ecdsa.Signature[KS]) (*ecdsa.Signature[KS], error) { return ecdsa.NewSignature(d.R(), d.S(), d.V()) },
	})
	add(spec[*schnorrlike.PublicKey[KP, KS]]{
		name: "schnorrlike.PublicKey[k256]", covers: "pkg/signatures/schnorrlike.PublicKey", group: "signatures",
		gen: func() []nv[*schnorrlike.PublicKey[KP, KS]] {
			return []nv[*schnorrlike.PublicKey[KP, KS]]{{"G", must(schnorrlike.NewPublicKey[KP, KS](g))}, {"-G", must(schnorrlike.NewPublicKey[KP, KS](g.Neg()))}}
		},
		eq:    func(a, b *schnorrlike.PublicKey[KP, KS]) bool { return a.Equal(b) },
		valid: func(d *schnorrlike.PublicKey[KP, KS]) (*schnorrlike.PublicKey[KP, KS], error) { return schnorrlike.NewPublicKey[KP, KS](d.Value()) },
	})
	// BLS (short signatures in G1, keys in G2; and the long-signature variant)
	type sigG1 = bls.Signature[G1, F1, G2, F2, GT, BS]
	type popG1 = bls.ProofOfPossession[G1, F1, G2, F2, GT, BS]
	g1 := bls12381.NewG1().Generator()
	add(spec[*popG1]{
		name: "bls.ProofOfPossession[G1]", covers: "pkg/signatures/bls.ProofOfPossession", group: "signatures",
		gen: func() []nv[*popG1] {
			return []nv[*popG1]{{"G", must(bls.NewProofOfPossession[G1, F1, G2, F2, GT, BS](g1))}, {"-2G", must(bls.NewProofOfPossession[G1, F1, G2, F2, GT, BS](g1.Add(g1).Neg()))}}
		},
		eq:    func(a, b *popG1) bool { return a.Equal(b) },
		valid: func(d *popG1) (*popG1, error) { return bls.NewProofOfPossession[G1, F1, G2, F2, GT, BS](d.Value()) },
	})
	add(spec[*sigG1]{
		name: "bls.Signature[G1]", covers: "pkg/signatures/bls.Signature", group: "signatures",
		gen: func() []nv[*sigG1] {
			pop := must(bls.NewProofOfPossession[G1, F1, G2, F2, GT, BS](g1.Add(g1)))
			return []nv[*sigG1]{
				{"G/no-pop", must(bls.NewSignature[G1, F1, G2, F2, GT, BS](g1, nil))},
				{"-G/pop", must(bls.NewSignature[G1, F1, G2, F2, GT, BS](g1.Neg(), pop))},
			}
		},
		eq:    func(a, b *sigG1) bool { return a.Equal(b) },
		valid: func(d *sigG1) (*sigG1, error) { return bls.NewSignature[G1, F1, G2, F2, GT, BS](d.Value(), d.Pop()) },
	})
	type sigG2 = bls.Signature[G2, F2, G1, F1, GT, BS]
	g2 := bls12381.NewG2().Generator()
	add(spec[*sigG2]{
		name: "bls.Signature[G2]", covers: "pkg/signatures/bls.Signature", group: "signatures",
		gen: func() []nv[*sigG2] {
			return []nv[*sigG2]{{"G/no-pop", must(bls.NewSignature[G2, F2, G1, F1, GT, BS](g2, nil))}}
		},
		eq:    func(a, b *sigG2) bool { return a.Equal(b) },
		valid: func(d *sigG2) (*sigG2, error) { return bls.NewSignature[G2, F2, G1, F1, GT, BS](d.Value(), d.Pop()) },
	})
}

// ---------------------------------------------------------------------------------------------
// protocol shards

func thresholdAC(t uint, members ...sharing.ID) *catalogAC {
	p := &policy.Policy{Kind: policy.Threshold, N: len(members), T: int(t)}
	return &catalogAC{p: p, ids: members}
}

type catalogAC struct {
	p   *policy.Policy
	ids []sharing.ID
}

func registerShards() {
	curve := k256.NewCurve()
	ac23 := func() *catalogAC { return thresholdAC(2, 1, 2, 3) }
	baseShards := sync.OnceValue(func() map[sharing.ID]*mpc.BaseShard[KP, KS] {
		a := ac23()
		m := must(trusteddealer.Deal(curve, must(catalog.Build(a.p, a.ids)), stream("shards/base")))
		out := map[sharing.ID]*mpc.BaseShard[KP, KS]{}
		for id, sh := range m.Iter() {
			out[id] = sh
		}
		return out
	})
	// dkls23
	type dkShard = dkls23.Shard[KP, KB, KS]
	add(spec[*dkShard]{
		name: "dkls23.Shard[k256] (embedded BaseShard decoder)", group: "shards",
		gen: func() []nv[*dkShard] {
			return []nv[*dkShard]{{"T(2,3)/1", must(dkls23.NewShard[KP, KB, KS](baseShards()[1]))}}
		},
		eq: func(a, b *dkShard) bool { return a.Equal(b) },
		valid: func(d *dkShard) (*dkShard, error) {
			b, err := mpc.NewBaseShard(d.Share(), d.VerificationVector(), d.MSP())
			if err != nil {
				return nil, err
			}
			return dkls23.NewShard[KP, KB, KS](b)
		},
	})
	type dkPS = dkls23.PartialSignature[KP, KB, KS]
	fK := k256.NewScalarField()
	add(spec[*dkPS]{
		name: "dkls23.PartialSignature[k256]", covers: "pkg/mpc/signatures/ecdsa/dkls23.PartialSignature", group: "shards",
		gen: func() []nv[*dkPS] {
			g := curve.Generator()
			r := must(fK.Random(stream("dkls23-ps")))
			return []nv[*dkPS]{
				{"(G,1,1)", must(dkls23.NewPartialSignature[KP, KB, KS](g, fK.One(), fK.One()))},
				{"(-2G,r,-1)", must(dkls23.NewPartialSignature[KP, KB, KS](g.Add(g).Neg(), r, fK.One().Neg()))},
			}
		},
		// no accessors and no Equal: the constructor is applied to the fields re-read from the object's own encoding
		valid: func(d *dkPS) (*dkPS, error) {
			r, err := decodeField[KP](d, "r")
			if err != nil {
				return nil, err
			}
			u, err := decodeField[KS](d, "u")
			if err != nil {
				return nil, err
			}
			w, err := decodeField[KS](d, "w")
			if err != nil {
				return nil, err
			}
			return dkls23.NewPartialSignature[KP, KB, KS](r, u, w)
		},
	})
	// lindell22 (plain wrapper of the base shard)
	type l22Shard = lindell22.Shard[KP, KS]
	add(spec[*l22Shard]{
		name: "lindell22.Shard[k256] (embedded BaseShard decoder)", group: "shards",
		gen: func() []nv[*l22Shard] {
			return []nv[*l22Shard]{{"T(2,3)/2", must(l22keygen.NewShard(baseShards()[2]))}}
		},
		valid: func(d *l22Shard) (*l22Shard, error) {
			b, err := mpc.NewBaseShard(d.Share(), d.VerificationVector(), d.MSP())
			if err != nil {
				return nil, err
			}
			return l22keygen.NewShard(b)
		},
	})
	// lindell17 (256-bit Paillier test keys)
	type l17Shard = lindell17.Shard[KP, KB, KS]
	l17 := sync.OnceValue(func() map[sharing.ID]*l17Shard {
		a := ac23()
		m, _, err := l17dealer.DealRandom[KP, KB, KS](curve, must(catalog.Build(a.p, a.ids)), 512, stream("shards/lindell17"))
		must0(err)
		out := map[sharing.ID]*l17Shard{}
		for id, sh := range m.Iter() {
			out[id] = sh
		}
		return out
	})
	add(spec[*l17Shard]{
		name: "lindell17.Shard[k256]", covers: "pkg/mpc/signatures/ecdsa/lindell17.Shard", group: "shards",
		gen:  func() []nv[*l17Shard] { return []nv[*l17Shard]{{"T(2,3)/1", l17()[1]}} },
		eq:   func(a, b *l17Shard) bool { return a.Equal(b) },
		valid: func(d *l17Shard) (*l17Shard, error) {
			b, err := mpc.NewBaseShard(d.Share(), d.VerificationVector(), d.MSP())
			if err != nil {
				return nil, err
			}
			aux, err := lindell17.NewAuxiliaryInfo(d.PaillierSecretKey(), d.PaillierPublicKeys(), d.EncryptedShares())
			if err != nil {
				return nil, err
			}
			return lindell17.NewShard[KP, KB, KS](b, aux)
		},
	})
	add(spec[*lindell17.AuxiliaryInfo]{
		name: "lindell17.AuxiliaryInfo", covers: "pkg/mpc/signatures/ecdsa/lindell17.AuxiliaryInfo", group: "shards",
		gen: func() []nv[*lindell17.AuxiliaryInfo] {
			sh := l17()[3]
			return []nv[*lindell17.AuxiliaryInfo]{{"T(2,3)/3", must(lindell17.NewAuxiliaryInfo(sh.PaillierSecretKey(), sh.PaillierPublicKeys(), sh.EncryptedShares()))}}
		},
		eq: func(a, b *lindell17.AuxiliaryInfo) bool { return a.Equal(b) },
		valid: func(d *lindell17.AuxiliaryInfo) (*lindell17.AuxiliaryInfo, error) {
			return lindell17.NewAuxiliaryInfo(d.PaillierSecretKey(), d.PaillierPublicKeys(), d.EncryptedShares())
		},
	})
	// cggmp21 (256-bit test keys; ring-Pedersen safe-prime moduli)
	type cgShard = cggmp21.Shard[KP, KB, KS]
	// built from fixed small keys through the public constructors (the dealer needs >= 1792-bit moduli and safe primes)
	cg := sync.OnceValue(func() map[sharing.ID]*cgShard {
		a := thresholdAC(2, 1, 2)
		m := must(trusteddealer.Deal(curve, must(catalog.Build(a.p, a.ids)), stream("shards/cggmp21")))
		sk := map[sharing.ID]*paillier.SecretKey{1: paillierSK(primeTable[1]), 2: paillierSK(primeTable[0])}
		rp := map[sharing.ID]*intcom.TrapdoorKey{1: intcomTrapdoor(primeTable[2], "cggmp21/rp1"), 2: intcomTrapdoor(safe512, "cggmp21/rp2")}
		refresh := make([]byte, 32)
		_, _ = stream("cggmp21/refresh").Read(refresh)
		out := map[sharing.ID]*cgShard{}
		for _, id := range []sharing.ID{1, 2} {
			other := 3 - id
			aux := must(cggmp21.NewAuxInfo(sk[id], map[sharing.ID]*paillier.PublicKey{other: sk[other].Public()}, rp[id], map[sharing.ID]*intcom.CommitmentKey{other: rp[other].Export()}, refresh))
			b, _ := m.Get(id)
			out[id] = must(cggmp21.NewShard[KP, KB, KS](b, aux))
		}
		return out
	})
	add(spec[*cggmp21.AuxInfo]{
		name: "cggmp21.AuxInfo", covers: "pkg/mpc/signatures/ecdsa/cggmp21.AuxInfo", group: "shards",
		gen:  func() []nv[*cggmp21.AuxInfo] { return []nv[*cggmp21.AuxInfo]{{"T(2,2)/1", cg()[1].AuxInfo()}} },
		eq:   func(a, b *cggmp21.AuxInfo) bool { return a.Equal(b) },
		valid: func(d *cggmp21.AuxInfo) (*cggmp21.AuxInfo, error) {
			return cggmp21.NewAuxInfo(d.PaillierSecretKey(), d.PaillierPublicKeys(), d.RingPedersenSecretKey(), d.RingPedersenPublicKeys(), d.RefreshID())
		},
	})
	add(spec[*cgShard]{
		name: "cggmp21.Shard[k256]", covers: "pkg/mpc/signatures/ecdsa/cggmp21.Shard", group: "shards",
		gen:  func() []nv[*cgShard] { return []nv[*cgShard]{{"T(2,2)/2", cg()[2]}} },
		eq: func(a, b *cgShard) bool {
			return a.BaseShard.Equal(&b.BaseShard) && a.AuxInfo().Equal(b.AuxInfo())
		},
		valid: func(d *cgShard) (*cgShard, error) {
			b, err := mpc.NewBaseShard(d.Share(), d.VerificationVector(), d.MSP())
			if err != nil {
				return nil, err
			}
			info := d.AuxInfo()
			aux, err := cggmp21.NewAuxInfo(info.PaillierSecretKey(), info.PaillierPublicKeys(), info.RingPedersenSecretKey(), info.RingPedersenPublicKeys(), info.RefreshID())
			if err != nil {
				return nil, err
			}
			return cggmp21.NewShard[KP, KB, KS](b, aux)
		},
	})
	// threshold BLS (short keys: public keys in G1)
	type blsShard = mpcbls.Shard[G1, F1, G2, F2, GT, BS]
	type blsPM = mpcbls.PublicMaterial[G1, F1, G2, F2, GT, BS]
	blsBase := sync.OnceValue(func() map[sharing.ID]*mpc.BaseShard[G1, BS] {
		a := ac23()
		m := must(trusteddealer.Deal(bls12381.NewG1(), must(catalog.Build(a.p, a.ids)), stream("shards/bls")))
		out := map[sharing.ID]*mpc.BaseShard[G1, BS]{}
		for id, sh := range m.Iter() {
			out[id] = sh
		}
		return out
	})
	add(spec[*blsShard]{
		name: "mpc/bls.Shard[G1 keys]", covers: "pkg/mpc/signatures/bls.Shard", group: "shards",
		gen: func() []nv[*blsShard] {
			b := blsBase()[1]
			return []nv[*blsShard]{{"T(2,3)/1", must(mpcbls.NewShortKeyShard[G1, F1, G2, F2, GT, BS](b.Share(), b.VerificationVector(), b.MSP()))}}
		},
		eq: func(a, b *blsShard) bool { return a.Equal(b) },
		valid: func(d *blsShard) (*blsShard, error) {
			return mpcbls.NewShortKeyShard[G1, F1, G2, F2, GT, BS](d.Share(), d.VerificationVector(), d.MSP())
		},
	})
	add(spec[*blsPM]{
		name: "mpc/bls.PublicMaterial[G1 keys]", covers: "pkg/mpc/signatures/bls.PublicMaterial", group: "shards",
		gen: func() []nv[*blsPM] {
			b := blsBase()[2]
			sh := must(mpcbls.NewShortKeyShard[G1, F1, G2, F2, GT, BS](b.Share(), b.VerificationVector(), b.MSP()))
			return []nv[*blsPM]{{"T(2,3)", sh.PublicKeyMaterial()}}
		},
		eq: func(a, b *blsPM) bool { return a.Equal(b) },
		// no public constructor: the embedded base material goes through its own
		valid: func(d *blsPM) (*blsPM, error) {
			if _, err := mpc.NewBasePublicMaterial(d.MSP(), d.VerificationVector()); err != nil {
				return nil, err
			}
			if d.PublicKey() == nil {
				return nil, fmt.Errorf("public material without a valid BLS public key")
			}
			return d, nil
		},
	})
}
