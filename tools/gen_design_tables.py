#!/usr/bin/env python3
"""Emits the generated parts of DESIGN.md: §11 (defects found) from known_findings.json and the seeded-change table of
§12 from /verif/seeded/*/*/{meta.json,check_result.txt,confirm.json,note.txt}."""
import json, glob, os, re
V = os.path.dirname(os.path.dirname(os.path.abspath(__file__)))
k = json.load(open(V + '/known_findings.json'))
print("### 11.1 Recorded, not repaired (known_findings.json `findings`)\n")
print("| property | key | what fails / why not repaired |\n|---|---|---|")
for f in k['findings']:
    print("| %s | `%s` | %s |" % (f['property'], f['key'], f['what'].replace('|', '\\|')))
print("\n### 11.2 Repaired by `fix:` commits in /repo (known_findings.json `fixed`)\n")
for f in k['fixed']:
    print("* " + f.replace('fixed: ', '').replace('|', '\\|'))
print("\n### 12.2 Independently seeded changes (/verif/seeded/<property>/<k>/)\n")
print("| seed | change (from the seeder's meta.json) | needs, to manifest | confirmed | result |\n|---|---|---|---|---|")
for d in sorted(glob.glob(V + '/seeded/*/*/')):
    p, kk = d.rstrip('/').split('/')[-2:]
    try:
        m = json.load(open(d + 'meta.json'))
    except Exception:
        continue
    conf = 'not run'
    if os.path.exists(d + 'confirm.json'):
        c = json.load(open(d + 'confirm.json'))
        keys = ('applies', 'builds', 'pinned_suite_same_passing_packages', 'demo_fails_with_patch', 'demo_passes_without_patch')
        conf = 'yes' if all(c.get(x) for x in keys) else 'NO: ' + ', '.join(x for x in keys if not c.get(x))
    res = 'not run'
    if os.path.exists(d + 'check_result.txt'):
        first = open(d + 'check_result.txt').read().strip().split('\n')[0]
        mo = re.match(r'check=(\w+) rc=(\d+)', first)
        if mo:
            res = ('%s: caught' if mo.group(2) == '1' else '%s: NOT caught') % mo.group(1)
    if os.path.exists(d + 'note.txt'):
        res += ' — ' + open(d + 'note.txt').read().strip()
    print("| %s/%s | %s | %s | %s | %s |" % (p, kk, m.get('summary', '')[:260].replace('|', '\\|').replace('\n', ' '), str(m.get('needs_to_manifest', ''))[:200].replace('|', '\\|').replace('\n', ' '), conf, res))
