package c03

import (
	"fmt"
	"math/big"
	"slices"

	"github.com/bronlabs/bron-crypto/pkg/base/algebra"
	"github.com/bronlabs/bron-crypto/pkg/mpc"
	"github.com/bronlabs/bron-crypto/pkg/mpc/sharing"
	"github.com/bronlabs/bron-crypto/pkg/mpc/sharing/accessstructures"
	"github.com/bronlabs/bron-crypto/pkg/mpc/sharing/scheme/kw"
	"github.com/bronlabs/bron-crypto/pkg/mpc/sharing/vss/feldman"

	"verifmc/catalog"
	"verifmc/engine"
	"verifmc/ref/conv"
	"verifmc/ref/linalg"
	"verifmc/ref/policy"
)

type shardMap[E algebra.PrimeGroupElement[E, S], S algebra.PrimeFieldElement[S]] = map[sharing.ID]*mpc.BaseShard[E, S]

// keyCNFDummy (same key as C02): a CNF policy in which some shareholder belongs to EVERY maximal unqualified set (its
// presence never matters). cnf.InducedMSP gives that shareholder no row, the span programme's shareholder set then
// lacks it, and key generation over such a structure breaks: the trusted dealer silently returns no shard for it,
// Gennaro fails in Round1 ("missing pedersen share"), Canetti in Round3. Every failure in such a configuration is
// filed under this one key.
const keyCNFDummy = "cnf/dummy-party"

func dummyParties(p *policy.Policy) uint64 {
	if p.Kind != policy.CNF {
		return 0
	}
	d := p.Full()
	for _, u := range p.MUS {
		d &= u
	}
	return d
}

// site names where a finding is raised: tag prefixes the finding keys ("gennaro-FiatShamir", "dealer", ...), where
// names the configuration in messages.
type site struct {
	tag, where string
	dummy      bool
	raised     *bool // dummy-party configurations raise one finding per execution, not one per consequence
}

func newSite(tag, where string, p *policy.Policy, raised *bool) site {
	if raised == nil {
		raised = new(bool)
	}
	return site{tag: tag, where: where, dummy: dummyParties(p) != 0, raised: raised}
}

func (s site) sub(suffix string) site { s.where += suffix; return s }

func (s site) key(k string) string {
	if s.dummy {
		return keyCNFDummy
	}
	return s.tag + "/" + k
}

func (s site) failf(x *engine.X, key, format string, a ...any) {
	if s.dummy {
		if *s.raised {
			return
		}
		*s.raised = true
		x.Failf(keyCNFDummy, "%s: %s [the CNF policy has a shareholder that belongs to every maximal unqualified set; cnf.InducedMSP gives it no row, so key generation over this structure does not give every shareholder a shard]", s.where, fmt.Sprintf(format, a...))
		return
	}
	x.Failf(s.key(key), "%s: %s", s.where, fmt.Sprintf(format, a...))
}

// checkShards is the C03 oracle on one complete key-generation output. ids[i] is the identifier of policy party i.
// It returns the byte encoding of the public key (nil if the output is too broken to name one).
func checkShards[E algebra.PrimeGroupElement[E, S], S algebra.PrimeFieldElement[S]](x *engine.X, g grp[E, S], st site, p *policy.Policy, ids []sharing.ID, ac accessstructures.Monotone, shards shardMap[E, S]) []byte {
	where := st.where
	fail := func(key, format string, a ...any) { st.failf(x, key, format, a...) }
	// 0. everybody has an output, filed under its own identifier
	for _, id := range ids {
		sh := shards[id]
		if sh == nil || sh.Share() == nil || sh.MSP() == nil || sh.VerificationVector() == nil {
			fail("output/missing", "party %d has no complete shard", id)
			return nil
		}
		if sh.Share().ID() != id {
			fail("output/wrong-id", "party %d holds a share labelled %d", id, sh.Share().ID())
			return nil
		}
	}
	first := shards[ids[0]]
	pk := first.PublicKeyValue()
	if pk.IsOpIdentity() {
		fail("pk/identity", "the public key is the identity element")
	}
	// 1. one public key, one MSP, one verification vector, one table of public shares
	for _, id := range ids[1:] {
		sh := shards[id]
		if !sh.PublicKeyValue().Equal(pk) {
			fail("agree/pk", "parties %d and %d hold different public keys: %x vs %x", ids[0], id, pk.Bytes(), sh.PublicKeyValue().Bytes())
		}
		if !sh.MSP().Equal(first.MSP()) {
			fail("agree/msp", "parties %d and %d hold different span programmes", ids[0], id)
		}
		if !sh.VerificationVector().Equal(first.VerificationVector()) {
			fail("agree/verification-vector", "parties %d and %d hold different verification vectors", ids[0], id)
		}
		for _, o := range ids {
			a, okA := first.PublicKeyShares().Get(o)
			b, okB := sh.PublicKeyShares().Get(o)
			if !okA || !okB || !a.Equal(b) {
				fail("agree/public-shares", "parties %d and %d disagree on (or lack) the public share of %d", ids[0], id, o)
			}
		}
	}
	if !first.MSP().Shareholders().Equal(catalog.IDSet(ids...)) {
		fail("msp/shareholders", "the span programme is over %v, not over the shareholders %v", first.MSP().Shareholders().List(), ids)
		return pk.Bytes()
	}

	// 2. read the span programme and the shares out into math/big
	lm := first.MSP().Matrix()
	rows, cols := lm.Dimensions()
	M := linalg.New(g.q, rows, cols)
	for i := 0; i < rows; i++ {
		for j := 0; j < cols; j++ {
			e, err := lm.Get(i, j)
			if err != nil {
				panic(err)
			}
			M.A[i][j] = conv.ToBig(e)
		}
	}
	rowsOf := map[sharing.ID][]int{}
	for r := 0; r < rows; r++ {
		h, ok := first.MSP().RowsToHolders().Get(r)
		if !ok {
			fail("msp/unowned-row", "row %d of the span programme has no holder", r)
			return pk.Bytes()
		}
		rowsOf[h] = append(rowsOf[h], r) // ascending
	}
	lambda := make([]*big.Int, rows) // share component per MSP row
	vv := slices.Collect(first.VerificationVector().Value().Iter())
	if len(vv) != cols {
		fail("vv/length", "verification vector has %d entries, the span programme %d columns", len(vv), cols)
		return pk.Bytes()
	}
	// the public key is the first entry of the verification vector (target vector e0)
	if !vv[0].Equal(pk) {
		fail("pk/not-v0", "the reported public key is not the committed secret V[0]")
	}

	// 3. share·G == published public share, per component, in the reference curve; and the published share is
	// what (MSP, verification vector) assign to that row
	for _, id := range ids {
		sv := shards[id].Share().Value()
		pub, _ := first.PublicKeyShares().Get(id)
		if len(sv) != len(rowsOf[id]) || pub == nil || len(pub.Value()) != len(sv) {
			fail("share/shape", "party %d: %d share components, %d public components, %d rows", id, len(sv), lenPub(pub), len(rowsOf[id]))
			return pk.Bytes()
		}
		for j, r := range rowsOf[id] {
			lambda[r] = conv.ToBig(sv[j])
			x.Case("")
			ok, err := g.baseMulEq(lambda[r], pub.Value()[j])
			if err != nil {
				fail("share/public-share-invalid", "party %d component %d: published public share is not a point of the reference curve: %v", id, j, err)
			} else if !ok {
				fail("share/public-share", "party %d component %d: [share]G != published public share", id, j)
			}
			ok, err = g.msmEq(M.A[r], vv, pub.Value()[j])
			if err != nil || !ok {
				fail("share/public-share-derivation", "party %d component %d: published public share != (MSP row %d)·V (err=%v)", id, j, r, err)
			}
		}
	}

	// 4. every non-empty subset of shareholders
	scheme, err := feldman.NewScheme(g.group, ac)
	if err != nil {
		fail("scheme", "feldman.NewScheme: %v", err)
		return pk.Bytes()
	}
	induced, err := kw.NewInducedScheme(first.MSP())
	if err != nil {
		fail("scheme", "kw.NewInducedScheme(shard MSP): %v", err)
		return pk.Bytes()
	}
	stored, err := feldman.NewSchemeFromKW(g.group, induced)
	if err != nil {
		fail("scheme", "feldman.NewSchemeFromKW: %v", err)
		return pk.Bytes()
	}
	e0 := make([]*big.Int, cols)
	for i := range e0 {
		e0[i] = new(big.Int)
	}
	e0[0] = big.NewInt(1)
	var secret *big.Int
	nq, nu := 0, 0
	for mask := uint64(1); mask <= p.Full(); mask++ {
		want := p.Qualified(mask)
		sub := catalog.Subset(ids, mask)
		var rs []int
		shs := make([]*kw.Share[S], 0, len(sub))
		pubs := make([]*feldman.LiftedShare[E, S], 0, len(sub))
		for _, id := range sub {
			rs = append(rs, rowsOf[id]...)
			shs = append(shs, shards[id].Share())
			ps, _ := first.PublicKeyShares().Get(id)
			pubs = append(pubs, ps)
		}
		slices.Sort(rs)
		x.Case(fmt.Sprintf("%s/A=%b", where, mask))
		MA := M.SubRows(rs)
		coef, spans := MA.Transpose().SolveRight(e0) // Σ coef_r · row_r == e0 ?
		if spans != want {
			fail("rank/truth-table", "subset %v: e0 in the row span of the span programme = %v, the policy says qualified = %v", sub, spans, want)
		}
		if acc := first.MSP().Accepts(sub...); acc != want {
			fail("accepts", "subset %v: MSP.Accepts = %v, the policy says qualified = %v", sub, acc, want)
		}
		rec, rerr := scheme.Reconstruct(shs...)
		rec2, rerr2 := stored.Reconstruct(shs...)
		exp, eerr := stored.ReconstructInTheExponent(pubs...)
		if want {
			nq++
			if rerr != nil || rerr2 != nil {
				fail("reconstruct/qualified-refused", "qualified subset %v: Reconstruct failed: %v / %v", sub, rerr, rerr2)
				continue
			}
			if !rec.Value().Equal(rec2.Value()) {
				fail("reconstruct/scheme-vs-stored", "qualified subset %v: the scheme built from the access structure and the one induced by the stored MSP reconstruct different values", sub)
			}
			got := conv.ToBig(rec.Value())
			if spans {
				xr := new(big.Int)
				for i, r := range rs {
					xr.Add(xr, new(big.Int).Mul(coef[i], lambda[r]))
				}
				xr.Mod(xr, g.q)
				if xr.Cmp(got) != 0 {
					fail("reconstruct/value", "qualified subset %v: Reconstruct = %x, reference linear algebra over the MSP rows gives %x", sub, got, xr)
				}
			}
			if secret == nil || secret.Cmp(got) != 0 {
				ok, err := g.baseMulEq(got, pk)
				if err != nil || !ok {
					fail("reconstruct/not-dlog-of-pk", "qualified subset %v reconstructs x=%x but [x]G != public key (err=%v)", sub, got, err)
				}
				if secret != nil {
					fail("reconstruct/subsets-disagree", "qualified subset %v reconstructs %x, an earlier qualified subset %x", sub, got, secret)
				}
				secret = got
			}
			if eerr != nil {
				fail("exponent/qualified-refused", "qualified subset %v: ReconstructInTheExponent failed: %v", sub, eerr)
			} else if !exp.Value().Equal(pk) {
				fail("exponent/value", "qualified subset %v: ReconstructInTheExponent over the public shares != public key", sub)
			}
		} else {
			nu++
			if rerr == nil || rerr2 == nil {
				fail("reconstruct/unqualified-accepted", "unqualified subset %v: Reconstruct returned a value", sub)
			}
			if eerr == nil {
				fail("exponent/unqualified-accepted", "unqualified subset %v: ReconstructInTheExponent returned a value", sub)
			}
		}
	}
	if nq == 0 {
		fail("vacuous", "no qualified subset")
	}
	x.Observe(where, fmt.Sprintf("pk=%x q=%d u=%d rows=%d cols=%d", pk.Bytes(), nq, nu, rows, cols))
	return pk.Bytes()
}

func lenPub[E algebra.PrimeGroupElement[E, S], S algebra.PrimeFieldElement[S]](p *feldman.LiftedShare[E, S]) int {
	if p == nil {
		return -1
	}
	return len(p.Value())
}

// reload stores and reloads every shard through CBOR; the reloaded shard must be Equal and report the same key.
func reload[E algebra.PrimeGroupElement[E, S], S algebra.PrimeFieldElement[S]](x *engine.X, st site, ids []sharing.ID, shards shardMap[E, S]) shardMap[E, S] {
	out := shardMap[E, S]{}
	for _, id := range ids {
		sh := shards[id]
		if sh == nil {
			return nil
		}
		x.Case("")
		b, err := sh.MarshalCBOR()
		if err != nil {
			st.failf(x, "cbor/marshal", "party %d: MarshalCBOR: %v", id, err)
			return nil
		}
		var r mpc.BaseShard[E, S]
		if err := r.UnmarshalCBOR(b); err != nil {
			st.failf(x, "cbor/unmarshal", "party %d: UnmarshalCBOR of its own encoding: %v", id, err)
			return nil
		}
		if !r.Equal(sh) || !sh.Equal(&r) {
			st.failf(x, "cbor/not-equal", "party %d: reloaded shard is not Equal to the stored one", id)
		}
		if !r.PublicKeyValue().Equal(sh.PublicKeyValue()) {
			st.failf(x, "cbor/pk", "party %d: reloaded shard reports a different public key", id)
		}
		for _, o := range ids {
			a, okA := r.PublicKeyShares().Get(o)
			c, okC := sh.PublicKeyShares().Get(o)
			if okA != okC || okA && !a.Equal(c) {
				st.failf(x, "cbor/public-shares", "party %d: reloaded shard has a different public share for %d", id, o)
			}
		}
		out[id] = &r
	}
	return out
}
